import Lemmas.History
import Model.Forks
/-! Lemmas for C03: (A) execution of a block is a congruence for content equality (`look`), hence a store
that went through forks equals the store of the canonical chain; (B) the client view of the pipeline under
the fork resolver's step contract.  Core Lean only. -/
namespace SV

/-! ### A.1 `bytesLe` is a total order -/

theorem bytesLe_total : ∀ a b : Bytes, bytesLe a b = false → bytesLe b a = true := by
  intro a
  induction a with
  | nil => intro b h; simp [bytesLe] at h
  | cons x xs ih =>
    intro b h
    cases b with
    | nil => simp [bytesLe]
    | cons y ys =>
      unfold bytesLe at h ⊢
      by_cases h1 : x < y
      · simp [h1] at h
      · simp only [h1, ↓reduceIte] at h
        by_cases h2 : y < x
        · simp [h2]
        · simp only [h2, ↓reduceIte] at h
          simp only [h1, h2, ↓reduceIte]
          exact ih ys h

theorem bytesLe_antisymm : ∀ a b : Bytes, bytesLe a b = true → bytesLe b a = true → a = b := by
  intro a
  induction a with
  | nil => intro b _ h2; cases b with
    | nil => rfl
    | cons y ys => simp [bytesLe] at h2
  | cons x xs ih =>
    intro b h1 h2
    cases b with
    | nil => simp [bytesLe] at h1
    | cons y ys =>
      unfold bytesLe at h1 h2
      by_cases hxy : x < y
      · have : ¬ y < x := by rw [UInt8.lt_iff_toNat_lt] at *; omega
        simp [hxy, this] at h2
      · by_cases hyx : y < x
        · simp [hxy, hyx] at h1
        · simp only [hxy, hyx, ↓reduceIte] at h1 h2
          have : x = y := by
            apply UInt8.toNat_inj.1
            rw [UInt8.lt_iff_toNat_lt] at *; omega
          rw [this, ih ys h1 h2]

theorem bytesLe_trans : ∀ a b c : Bytes, bytesLe a b = true → bytesLe b c = true → bytesLe a c = true := by
  intro a
  induction a with
  | nil => intro b c _ _; simp [bytesLe]
  | cons x xs ih =>
    intro b c h1 h2
    cases b with
    | nil => simp [bytesLe] at h1
    | cons y ys =>
      cases c with
      | nil => simp [bytesLe] at h2
      | cons z zs =>
        unfold bytesLe at h1 h2 ⊢
        by_cases hxy : x < y
        · by_cases hyz : y < z
          · have : x < z := by rw [UInt8.lt_iff_toNat_lt] at *; omega
            simp [this]
          · by_cases hzy : z < y
            · simp [hyz, hzy] at h2
            · have : x < z := by rw [UInt8.lt_iff_toNat_lt] at *; omega
              simp [this]
        · by_cases hyx : y < x
          · simp [hxy, hyx] at h1
          · simp only [hxy, hyx, ↓reduceIte] at h1
            by_cases hyz : y < z
            · have : x < z := by rw [UInt8.lt_iff_toNat_lt] at *; omega
              simp [this]
            · by_cases hzy : z < y
              · simp [hyz, hzy] at h2
              · simp only [hyz, hzy, ↓reduceIte] at h2
                have e1 : ¬ x < z := by rw [UInt8.lt_iff_toNat_lt] at *; omega
                have e2 : ¬ z < x := by rw [UInt8.lt_iff_toNat_lt] at *; omega
                simp only [e1, e2, ↓reduceIte]
                exact ih ys zs h1 h2

/-! ### A.2 contents with the same `look` are permutations; the sort by key does not see the order -/

theorem nodup_of_nodupKeys {kv : KV} (h : NodupKeys kv) : kv.Nodup := by
  unfold NodupKeys List.Nodup at *
  exact (List.pairwise_map.1 h).imp (fun hne heq => hne (congrArg _ heq))

theorem perm_of_look_eq {kv1 kv2 : KV} (h1 : NodupKeys kv1) (h2 : NodupKeys kv2)
    (h : ∀ k, look kv1 k = look kv2 k) : kv1.Perm kv2 := by
  rw [List.perm_ext_iff_of_nodup (nodup_of_nodupKeys h1) (nodup_of_nodupKeys h2)]
  intro p
  obtain ⟨k, v⟩ := p
  constructor
  · intro hm
    have := look_of_mem h1 hm
    rw [h k] at this
    exact mem_keys_of_look this
  · intro hm
    have := look_of_mem h2 hm
    rw [← h k] at this
    exact mem_keys_of_look this

theorem kvSize_perm {kv1 kv2 : KV} (h : kv1.Perm kv2) : kvSize kv1 = kvSize kv2 := by
  unfold kvSize
  exact (h.map _).sum_nat

def KeyLe (p q : Bytes × Bytes) : Prop := bytesLe p.1 q.1 = true

theorem insByKey_sorted (p : Bytes × Bytes) (l : KV) (h : l.Pairwise KeyLe) : (insByKey p l).Pairwise KeyLe := by
  induction l with
  | nil => simp [insByKey]
  | cons q rest ih =>
    rw [List.pairwise_cons] at h
    unfold insByKey
    split
    · rename_i hle
      rw [List.pairwise_cons]
      refine ⟨?_, List.pairwise_cons.2 h⟩
      intro a ha
      rcases List.mem_cons.1 ha with rfl | ha
      · exact hle
      · exact bytesLe_trans _ _ _ hle (h.1 a ha)
    · rename_i hgt
      rw [List.pairwise_cons]
      refine ⟨?_, ih h.2⟩
      intro a ha
      rcases List.mem_cons.1 ((insByKey_perm p rest).mem_iff.1 ha) with rfl | ha
      · exact bytesLe_total _ _ (by simpa using hgt)
      · exact h.1 a ha

theorem sortByKey_sorted (l : KV) : (sortByKey l).Pairwise KeyLe := by
  induction l with
  | nil => simp [sortByKey]
  | cons p rest ih => exact insByKey_sorted p _ ih

/-- the sorted list of a set of entries with distinct keys does not depend on the order they are given in -/
theorem sortByKey_congr {l1 l2 : KV} (hn : NodupKeys l1) (hp : l1.Perm l2) : sortByKey l1 = sortByKey l2 := by
  have hp' : (sortByKey l1).Perm (sortByKey l2) := (sortByKey_perm l1).trans (hp.trans (sortByKey_perm l2).symm)
  refine List.Perm.eq_of_pairwise ?_ (sortByKey_sorted l1) (sortByKey_sorted l2) hp'
  intro a b ha hb hab hba
  have ha1 : a ∈ l1 := (sortByKey_perm l1).mem_iff.1 ha
  have hb1 : b ∈ l1 := hp.mem_iff.2 ((sortByKey_perm l2).mem_iff.1 hb)
  have hk : a.1 = b.1 := bytesLe_antisymm _ _ hab hba
  have e1 := look_of_mem hn (k := a.1) (v := a.2) ha1
  have e2 := look_of_mem hn (k := b.1) (v := b.2) hb1
  rw [hk, e2] at e1
  injection e1 with e1
  exact Prod.ext hk e1.symm

/-! ### A.3 executing a block is a congruence for content equality -/

/-- two stores that differ at most in the order of their association list (and in `ops`, `lastOrd`) -/
structure Sim (s1 s2 : Store) : Prop where
  look   : ∀ k, look s1.kv k = look s2.kv k
  nd1    : NodupKeys s1.kv
  nd2    : NodupKeys s2.kv
  deltas : s1.deltas = s2.deltas
  size   : s1.size = s2.size

/-- same error, or both succeed with similar stores -/
def SimR : Except SErr Store → Except SErr Store → Prop
  | .error e1, .error e2 => e1 = e2
  | .ok a, .ok b => Sim a b
  | _, _ => False

theorem getLastIn_congr (rds : List Delta) {kv1 kv2 : KV} (h : ∀ k, look kv1 k = look kv2 k) (k : Bytes) :
    getLastIn rds kv1 k = getLastIn rds kv2 k := by
  induction rds with
  | nil => exact h k
  | cons d rest ih => unfold getLastIn; rw [ih]

theorem Sim.getLast {s1 s2 : Store} (h : Sim s1 s2) (k : Bytes) : s1.getLast k = s2.getLast k := by
  unfold Store.getLast
  rw [h.deltas]
  exact getLastIn_congr _ h.look k

theorem Sim.getAt {s1 s2 : Store} (h : Sim s1 s2) (ord : Nat) (k : Bytes) : s1.getAt ord k = s2.getAt ord k := by
  unfold Store.getAt
  rw [h.getLast, h.deltas]

theorem pushDelta_sim (cfg : Cfg) {s1 s2 : Store} (h : Sim s1 s2) (d : Delta) :
    SimR (pushDelta cfg s1 d) (pushDelta cfg s2 d) := by
  unfold pushDelta applyDelta
  by_cases h1 : d.key = []
  · simp only [h1, ↓reduceIte, SimR]
  · simp only [h1, ↓reduceIte]
    by_cases h2 : d.key.head? = some 255
    · simp only [h2, ↓reduceIte, SimR]
    · simp only [h2, ↓reduceIte, h.size]
      by_cases h3 : d.op ≠ DOp.delete ∧ applyDeltaSize s2.size d > cfg.totalLimit
      · simp only [if_pos h3, SimR]
      · simp only [if_neg h3, SimR]
        refine ⟨?_, nodup_applyDeltaKV h.nd1 d, nodup_applyDeltaKV h.nd2 d, by simp only [h.deltas], rfl⟩
        intro k
        show look (applyDeltaKV s1.kv d) k = look (applyDeltaKV s2.kv d) k
        rw [look_applyDeltaKV, look_applyDeltaKV]
        unfold stepF
        rw [h.look k]

theorem setRaw_sim (cfg : Cfg) {s1 s2 : Store} (h : Sim s1 s2) (ord : Nat) (k v : Bytes) :
    SimR (setRaw cfg s1 ord k v) (setRaw cfg s2 ord k v) := by
  unfold setRaw
  rw [h.getLast k]
  split
  · simp only [SimR]
  split
  · simp only [SimR]
  split
  · simp only [SimR]
  split
  · exact pushDelta_sim cfg h _
  · exact pushDelta_sim cfg h _

theorem setIfNotExistsRaw_sim (cfg : Cfg) {s1 s2 : Store} (h : Sim s1 s2) (ord : Nat) (k v : Bytes) :
    SimR (setIfNotExistsRaw cfg s1 ord k v) (setIfNotExistsRaw cfg s2 ord k v) := by
  unfold setIfNotExistsRaw
  rw [h.getLast k]
  split
  · exact h
  · exact pushDelta_sim cfg h _

/-- a fold of similarity-preserving steps over the same list -/
theorem foldlM_sim {α : Type} (f : Store → α → Except SErr Store)
    (hf : ∀ s1 s2 a, Sim s1 s2 → SimR (f s1 a) (f s2 a)) : ∀ (L : List α) (s1 s2 : Store),
    Sim s1 s2 → SimR (L.foldlM f s1) (L.foldlM f s2) := by
  intro L
  induction L with
  | nil => intro s1 s2 h; exact h
  | cons a rest ih =>
    intro s1 s2 h
    rw [List.foldlM_cons, List.foldlM_cons]
    have := hf s1 s2 a h
    cases h1 : f s1 a with
    | error e1 =>
      cases h2 : f s2 a with
      | error e2 => rw [h1, h2] at this; exact this
      | ok b => rw [h1, h2] at this; exact this.elim
    | ok a1 =>
      cases h2 : f s2 a with
      | error e2 => rw [h1, h2] at this; exact this.elim
      | ok b => rw [h1, h2] at this; exact ih a1 b this

theorem deletePrefixRaw_sim (cfg : Cfg) {s1 s2 : Store} (h : Sim s1 s2) (ord : Nat) (pfx : Bytes) :
    SimR (deletePrefixRaw cfg s1 ord pfx) (deletePrefixRaw cfg s2 ord pfx) := by
  unfold deletePrefixRaw
  have hperm := perm_of_look_eq h.nd1 h.nd2 h.look
  have hnd : NodupKeys (s1.kv.filter (fun p => isPrefix pfx p.1)) :=
    List.Nodup.sublist (List.Sublist.map _ List.filter_sublist) h.nd1
  rw [sortByKey_congr hnd (hperm.filter _)]
  exact foldlM_sim (fun s (p : Bytes × Bytes) => pushDelta cfg s ⟨.delete, ord, p.1, p.2, []⟩)
    (fun a b p hab => pushDelta_sim cfg hab _) _ s1 s2 h

theorem flushOpBody_sim (cfg : Cfg) (sem : Sem) {s1 s2 : Store} (h : Sim s1 s2) (op : Op) :
    SimR (flushOpBody cfg sem s1 op) (flushOpBody cfg sem s2 op) := by
  unfold flushOpBody
  split
  · exact setRaw_sim cfg h _ _ _
  · exact setIfNotExistsRaw_sim cfg h _ _ _
  · exact deletePrefixRaw_sim cfg h _ _
  · dsimp only
    rw [h.getAt]
    split
    · simp only [SimR]
    · exact setRaw_sim cfg h _ _ _

theorem flushOp_sim (cfg : Cfg) (sem : Sem) {s1 s2 : Store} (h : Sim s1 s2) (op : Op) :
    SimR (flushOp cfg sem s1 op) (flushOp cfg sem s2 op) := by
  unfold flushOp
  have := flushOpBody_sim cfg sem h op
  cases h1 : flushOpBody cfg sem s1 op with
  | error e1 =>
    cases h2 : flushOpBody cfg sem s2 op with
    | error e2 => rw [h1, h2] at this; exact this
    | ok b => rw [h1, h2] at this; exact this.elim
  | ok a =>
    cases h2 : flushOpBody cfg sem s2 op with
    | error e2 => rw [h1, h2] at this; exact this.elim
    | ok b =>
      rw [h1, h2] at this
      exact ⟨this.look, this.nd1, this.nd2, this.deltas, this.size⟩

theorem flush_sim (cfg : Cfg) (sem : Sem) {s1 s2 : Store} (h : Sim s1 s2) (ho : s1.ops = s2.ops) :
    SimR (flush cfg sem s1) (flush cfg sem s2) := by
  unfold flush
  rw [ho]
  exact foldlM_sim _ (fun a b op hab => flushOp_sim cfg sem hab op) _ _ _
    ⟨h.look, h.nd1, h.nd2, h.deltas, h.size⟩

theorem Clean.sim {s1 s2 : Store} (h1 : Clean s1) (h2 : Clean s2) (h : ∀ k, look s1.kv k = look s2.kv k) :
    Sim s1 s2 :=
  ⟨h, h1.nodup, h2.nodup, by rw [h1.deltas, h2.deltas],
   by rw [h1.size, h2.size]; exact kvSize_perm (perm_of_look_eq h1.nodup h2.nodup h)⟩

/-- **Congruence.** Executing the same calls on two clean stores with the same content (as a function
of the key — the order of the association list, i.e. Go's map iteration order, is irrelevant) and the same
pending log gives the same error, or two stores with the same content, the same deltas and the same size. -/
theorem execBlock_congr (cfg : Cfg) (sem : Sem) {s1 s2 : Store} (h1 : Clean s1) (h2 : Clean s2)
    (h : ∀ k, look s1.kv k = look s2.kv k) (ho : s1.ops = s2.ops) (calls : List Op) :
    match execBlock cfg sem s1 calls, execBlock cfg sem s2 calls with
    | .error e1, .error e2 => e1 = e2
    | .ok a, .ok b => (∀ k, look a.kv k = look b.kv k) ∧ a.deltas = b.deltas ∧ a.size = b.size
    | _, _ => False := by
  have hs : SimR (execBlock cfg sem s1 calls) (execBlock cfg sem s2 calls) := by
    unfold execBlock
    rw [record_fold_eq, record_fold_eq]
    exact flush_sim cfg sem ⟨h, h1.nodup, h2.nodup, by show s1.deltas = s2.deltas; rw [h1.deltas, h2.deltas],
      (h1.sim h2 h).size⟩ (by show s1.ops ++ calls = s2.ops ++ calls; rw [ho])
  revert hs
  cases execBlock cfg sem s1 calls <;> cases execBlock cfg sem s2 calls <;> simp only [SimR]
  · exact id
  · exact id
  · exact id
  · intro hs; exact ⟨hs.look, hs.deltas, hs.size⟩

/-! ### A.4 a store under forks = the store of the canonical chain -/

/-- the steps a chain with forks causes on a store: blocks, undo of the most recent applied block, finality -/
def isForkStep : Hist → Bool
  | .block _ | .undo | .final => true
  | _ => false

def ForkOnly (h : List Hist) : Prop := ∀ x ∈ h, isForkStep x = true

instance (h : List Hist) : Decidable (ForkOnly h) := by unfold ForkOnly; infer_instance

/-- the calls of the applied, not undone blocks (most recent first) and how many of them can still be
undone (the length of `HState.stack`) -/
structure CanonSt where
  applied : List (List Op)
  depth   : Nat

/-- mirrors `stepHist`'s treatment of the stack: a block pushes; an undo pops, and is ignored when no
un-finalised block is left; finality makes the oldest un-finalised block permanent (`dropLast`) -/
def canonStep (c : CanonSt) : Hist → CanonSt
  | .block calls => ⟨calls :: c.applied, c.depth + 1⟩
  | .undo => if c.depth = 0 then c else ⟨c.applied.tail, c.depth - 1⟩
  | .final => ⟨c.applied, c.depth - 1⟩
  | _ => c

/-- the blocks of the canonical chain, oldest first: those applied and not undone -/
def canonCalls (h : List Hist) : List (List Op) := (h.foldl canonStep ⟨[], 0⟩).applied.reverse

def hs0 : HState := ⟨Store.empty, [], false⟩

theorem hinv0 : HInv hs0 := ⟨⟨by unfold NodupKeys; decide, rfl⟩, trivial⟩

/-- `cur` is the content of the linear execution of the blocks `applied` (most recent first), which succeeds -/
def Lin (cfg : Cfg) (sem : Sem) (applied : List (List Op)) (cur : Content) : Prop :=
  (runHist cfg sem hs0 (applied.reverse.map Hist.block)).dead = false ∧
  look (runHist cfg sem hs0 (applied.reverse.map Hist.block)).s.kv = cur

/-- relational version of `StackInv`: every content the stack can be unwound to is the content of the
linear execution of the blocks below -/
def Rel (cfg : Cfg) (sem : Sem) : Content → List (List Delta) → List (List Op) → Prop
  | cur, [], applied => Lin cfg sem applied cur
  | cur, ds :: rest, applied => Lin cfg sem applied cur ∧
      ∃ f c applied', applied = c :: applied' ∧ Chain f ds ∧ postF f ds = cur ∧ Rel cfg sem f rest applied'

theorem Rel.lin {cfg : Cfg} {sem : Sem} {cur : Content} {stack : List (List Delta)} {applied : List (List Op)}
    (h : Rel cfg sem cur stack applied) : Lin cfg sem applied cur := by
  cases stack with
  | nil => exact h
  | cons ds rest => exact h.1

theorem Rel.dropLast {cfg : Cfg} {sem : Sem} : ∀ {stack : List (List Delta)} {cur : Content} {applied : List (List Op)},
    Rel cfg sem cur stack applied → Rel cfg sem cur stack.dropLast applied
  | [], _, _, h => h
  | [_], _, _, h => h.1
  | ds :: d2 :: rest, cur, applied, h => by
    obtain ⟨h0, f, c, applied', e, h1, h2, h3⟩ := h
    exact ⟨h0, f, c, applied', e, h1, h2, Rel.dropLast (stack := d2 :: rest) h3⟩

theorem stepHist_dead {cfg : Cfg} {sem : Sem} {st : HState} (h : st.dead = true) (x : Hist) :
    stepHist cfg sem st x = st := by
  unfold stepHist; simp [h]

theorem runHist_dead {cfg : Cfg} {sem : Sem} (hs : List Hist) : ∀ {st : HState}, st.dead = true →
    runHist cfg sem st hs = st := by
  induction hs with
  | nil => intro st _; rfl
  | cons x rest ih =>
    intro st h
    show runHist cfg sem (stepHist cfg sem st x) rest = st
    rw [stepHist_dead h, ih h]

theorem runHist_snoc {cfg : Cfg} {sem : Sem} (st : HState) (hs : List Hist) (x : Hist) :
    runHist cfg sem st (hs ++ [x]) = stepHist cfg sem (runHist cfg sem st hs) x := by
  simp [runHist, List.foldl_append]

/-- one more block on the linear side, given that it succeeds on a store with the same content -/
theorem Lin.block {cfg : Cfg} {sem : Sem} {applied : List (List Op)} {st : HState} (hi : HInv st)
    (hl : Lin cfg sem applied (look st.s.kv)) {calls : List Op} {s' : Store}
    (hb : execBlock cfg sem (reset st.s) calls = .ok s') : Lin cfg sem (calls :: applied) (look s'.kv) := by
  obtain ⟨hd, hk⟩ := hl
  unfold Lin
  rw [List.reverse_cons, List.map_append, List.map_cons, List.map_nil, runHist_snoc]
  generalize hr : runHist cfg sem hs0 (applied.reverse.map Hist.block) = r at hd hk
  have hri : HInv r := by rw [← hr]; exact runHist_inv _ _ hinv0
  have hc := execBlock_congr cfg sem hri.sinv.reset hi.sinv.reset (fun k => congrFun hk k) rfl calls
  rw [hb] at hc
  unfold stepHist
  simp only [hd, Bool.false_eq_true, ↓reduceIte]
  cases hx : execBlock cfg sem (reset r.s) calls with
  | error e => rw [hx] at hc; exact hc.elim
  | ok b =>
    rw [hx] at hc
    dsimp only
    exact ⟨rfl, funext hc.1⟩

theorem step_rel {cfg : Cfg} {sem : Sem} {st : HState} {c : CanonSt} (hi : HInv st) (hd : st.dead = false)
    (x : Hist) (hx : isForkStep x = true) (hlen : st.stack.length = c.depth)
    (hr : Rel cfg sem (look st.s.kv) st.stack c.applied)
    (hd' : (stepHist cfg sem st x).dead = false) :
    (stepHist cfg sem st x).stack.length = (canonStep c x).depth ∧
    Rel cfg sem (look (stepHist cfg sem st x).s.kv) (stepHist cfg sem st x).stack (canonStep c x).applied := by
  unfold stepHist at hd' ⊢
  simp only [hd, Bool.false_eq_true, ↓reduceIte] at hd' ⊢
  cases x with
  | block calls =>
    dsimp only at hd' ⊢
    cases hb : execBlock cfg sem (reset st.s) calls with
    | error e => rw [hb] at hd'; simp at hd'
    | ok s' =>
      dsimp only
      obtain ⟨b, i1, _⟩ := execBlock_inv hi.sinv.reset hb
      refine ⟨by simp [canonStep, hlen], ?_⟩
      exact ⟨Lin.block hi hr.lin hb, look st.s.kv, calls, c.applied, rfl, i1.chain, i1.kvpost.symm, hr⟩
  | undo =>
    dsimp only
    cases hs : st.stack with
    | nil =>
      have : c.depth = 0 := by rw [← hlen, hs]; rfl
      simp only [canonStep, this, ↓reduceIte]
      exact ⟨hlen.trans this, hr⟩
    | cons ds rest =>
      rw [hs] at hlen hr
      dsimp only
      obtain ⟨_, f, c0, applied', e, c1, c2, c3⟩ := hr
      have hst := hi.stack
      obtain ⟨u1, _, _⟩ := undo_spec f ds st.s c1 c2.symm hi.sinv.nodup hi.sinv.size
      have hne : c.depth ≠ 0 := by rw [← hlen]; simp
      simp only [canonStep, hne, ↓reduceIte]
      refine ⟨by rw [← hlen]; simp, ?_⟩
      rw [u1, e]
      exact c3
  | final =>
    dsimp only
    refine ⟨by simp [canonStep, hlen], ?_⟩
    exact hr.dropLast
  | merge p => simp [isForkStep] at hx
  | saveLoad => simp [isForkStep] at hx

theorem run_rel {cfg : Cfg} {sem : Sem} (hs : List Hist) : ∀ {st : HState} {c : CanonSt}, HInv st → st.dead = false →
    ForkOnly hs → st.stack.length = c.depth → Rel cfg sem (look st.s.kv) st.stack c.applied →
    (runHist cfg sem st hs).dead = false →
    Rel cfg sem (look (runHist cfg sem st hs).s.kv) (runHist cfg sem st hs).stack (hs.foldl canonStep c).applied := by
  induction hs with
  | nil => intro st c _ _ _ _ hr _; exact hr
  | cons x rest ih =>
    intro st c hi hd hf hlen hr hd'
    have hx : isForkStep x = true := hf x List.mem_cons_self
    have hf' : ForkOnly rest := fun y hy => hf y (List.mem_cons_of_mem _ hy)
    have hdx : (stepHist cfg sem st x).dead = false := by
      cases hdd : (stepHist cfg sem st x).dead with
      | false => rfl
      | true =>
        have : runHist cfg sem st (x :: rest) = stepHist cfg sem st x := runHist_dead rest hdd
        rw [this, hdd] at hd'; cases hd'
    obtain ⟨l', r'⟩ := step_rel hi hd x hx hlen hr hdx
    exact ih (stepHist_inv hi x) hdx hf' l' r' hd'

end SV

/-! ## B. the client view under the fork resolver's step contract -/
namespace SV.Fk
open SV SV.Lin

/-- a block reference: number and id -/
abbrev Blk := Nat × Bytes
/-- what the client holds per block: number, id, payload -/
abbrev Held := Nat × Bytes × Bytes

def key (h : Held) : Blk := (h.1, h.2.1)

/-! ### the step contract of the fork resolver (`bstream/forkable`)

State of the contract: the stack `stk` of applied, not undone blocks (top first) and the junction `r` of
the reorg in progress (`none` outside a reorg). -/

/-- * `new`/`newFinal b`: `b` is above the top of the stack; during a reorg only once the stack is back at
  the announced junction;
* `undo b j`: `b` is the top of the stack, a junction is given (`j.id ≠ []`), `j` lies in the stack strictly
  below `b`, and all undos of one reorg announce the same junction;
* `stalled`/`final`: no condition (they do not touch the stack). -/
def okStep (stk : List Blk) (r : Option Blk) (s : FStep) : Bool :=
  match s.kind with
  | .new | .newFinal =>
    match stk with
    | [] => true
    | top :: _ => decide (top.1 < s.num) && (r == none || r == some top)
  | .undo =>
    match stk with
    | [] => false
    | top :: below =>
      top == (s.num, s.id) && s.jId != [] && below.contains (s.jNum, s.jId) &&
        (r == none || r == some (s.jNum, s.jId))
  | _ => true

def nextStk (stk : List Blk) (s : FStep) : List Blk :=
  match s.kind with
  | .new | .newFinal => (s.num, s.id) :: stk
  | .undo => stk.tail
  | _ => stk

def nextReorg (r : Option Blk) (s : FStep) : Option Blk :=
  match s.kind with
  | .new | .newFinal => none
  | .undo => some (s.jNum, s.jId)
  | _ => r

def validFrom : List Blk → Option Blk → List FStep → Bool
  | _, _, [] => true
  | stk, r, s :: rest => okStep stk r s && validFrom (nextStk stk s) (nextReorg r s) rest

/-- the step contract, from the beginning of a request -/
def ValidSteps (steps : List FStep) : Prop := validFrom [] none steps = true

instance (steps : List FStep) : Decidable (ValidSteps steps) := by unfold ValidSteps; infer_instance

/-- the canonical chain after the steps, oldest block first -/
def canonChain (steps : List FStep) : List Blk := (steps.foldl nextStk []).reverse

/-- the junction of the reorg the steps end in (`none`: they do not end inside a reorg) -/
def reorgAfter (steps : List FStep) : Option Blk := steps.foldl nextReorg none

/-- the pipeline at the beginning of the linear part: any store state, nothing recorded, gate closed -/
def fs0 (st0 : LState) : FState := ⟨st0, [], none, false, [], false⟩

/-- the output-module payload `handleNew` computes for block `num` on the store state `st` -/
def newPayload (cfg : FCfg) (st : LState) (num : Nat) (id : Bytes) : Bytes :=
  match runBlockF cfg st num id with
  | .ok acc => (outputOf cfg.output acc.outs).getD []
  | .error _ => []

/-- the canonical chain with, for each block, the payload computed when it was (last) applied -/
def nextChain (cfg : FCfg) (fs : FState) (C : List Held) (s : FStep) : List Held :=
  match s.kind with
  | .new | .newFinal => (s.num, s.id, newPayload cfg fs.st s.num s.id) :: C
  | .undo => C.tail
  | _ => C

def chainFrom (cfg : FCfg) : FState → List Held → List FStep → List Held
  | _, C, [] => C
  | fs, C, s :: rest => chainFrom cfg (stepF cfg fs s) (nextChain cfg fs C s) rest

/-- blocks of the canonical chain with their payloads, oldest first -/
def payloadChain (cfg : FCfg) (st0 : LState) (steps : List FStep) : List Held :=
  (chainFrom cfg (fs0 st0) [] steps).reverse

theorem nextChain_key (cfg : FCfg) (fs : FState) (C : List Held) (s : FStep) :
    (nextChain cfg fs C s).map key = nextStk (C.map key) s := by
  unfold nextChain nextStk
  cases s.kind <;> simp [key, List.map_tail]

theorem chainFrom_key (cfg : FCfg) (steps : List FStep) : ∀ (fs : FState) (C : List Held),
    (chainFrom cfg fs C steps).map key = steps.foldl nextStk (C.map key) := by
  induction steps with
  | nil => intro fs C; rfl
  | cons s rest ih => intro fs C; simp only [chainFrom, List.foldl_cons, ih, nextChain_key]

/-! ### what one step does to the messages -/

theorem handleNew_spec (cfg : FCfg) (fs : FState) (s : FStep) :
    ((handleNew cfg fs s).ended = true ∧ (handleNew cfg fs s).msgs = fs.msgs) ∨
    ((handleNew cfg fs s).ended = fs.ended ∧ (handleNew cfg fs s).insideReorg = none ∧
      (handleNew cfg fs s).msgs =
        if fs.gateOpen ∧ s.num ≥ cfg.gateStart then fs.msgs ++ [.data s.num s.id (newPayload cfg fs.st s.num s.id)]
        else fs.msgs) := by
  unfold handleNew newPayload
  dsimp only
  split
  · exact Or.inl ⟨rfl, rfl⟩
  · cases runBlockF cfg fs.st s.num s.id with
    | error e => exact Or.inl ⟨rfl, rfl⟩
    | ok acc => exact Or.inr ⟨rfl, rfl, rfl⟩

theorem gate_new (cfg : FCfg) (o : Bool) (s : FStep) (hk : s.kind = .new ∨ s.kind = .newFinal) :
    (gateStep cfg o s = true ∧ s.num ≥ cfg.gateStart) ↔ cfg.gateStart ≤ s.num := by
  unfold gateStep
  rcases hk with hk | hk <;> cases o <;> simp [hk]

/-- a `new`/`newFinal` step: the request ends (stop block, module failure) without a message, or the block's
data message is sent iff the block is at or above the start block, and no reorg is in progress any more -/
theorem stepF_new (cfg : FCfg) (fs : FState) (s : FStep) (he : fs.ended = false)
    (hk : s.kind = .new ∨ s.kind = .newFinal) :
    ((stepF cfg fs s).ended = true ∧ (stepF cfg fs s).msgs = fs.msgs) ∨
    ((stepF cfg fs s).ended = false ∧ (stepF cfg fs s).insideReorg = none ∧
      (stepF cfg fs s).msgs =
        if cfg.gateStart ≤ s.num then fs.msgs ++ [.data s.num s.id (newPayload cfg fs.st s.num s.id)] else fs.msgs) := by
  have hs := handleNew_spec cfg { fs with gateOpen := gateStep cfg fs.gateOpen s } s
  have hg := gate_new cfg fs.gateOpen s hk
  simp only [he] at hs
  unfold stepF
  simp only [he, Bool.false_eq_true, ↓reduceIte]
  rcases hk with hk | hk
  · simp only [hk]
    rcases hs with hs | hs
    · exact Or.inl hs
    · refine Or.inr ⟨hs.1, hs.2.1, ?_⟩
      rw [hs.2.2]
      by_cases hgg : cfg.gateStart ≤ s.num
      · rw [if_pos hgg, if_pos (hg.2 hgg)]
      · rw [if_neg hgg, if_neg (fun h => hgg (hg.1 h))]
  · simp only [hk]
    rcases hs with hs | hs
    · left
      rw [if_pos hs.1]; exact hs
    · right
      rw [if_neg (by rw [hs.1]; simp)]
      refine ⟨hs.1, rfl, ?_⟩
      show (handleNew cfg _ s).msgs = _
      rw [hs.2.2]
      by_cases hgg : cfg.gateStart ≤ s.num
      · rw [if_pos hgg, if_pos (hg.2 hgg)]
      · rw [if_neg hgg, if_neg (fun h => hgg (hg.1 h))]

/-- an `undo` step with a junction never ends the request; it sends one undo signal naming the junction
unless the pipeline is already inside a reorg to that junction -/
theorem stepF_undo (cfg : FCfg) (fs : FState) (s : FStep) (he : fs.ended = false) (hk : s.kind = .undo)
    (hj : s.jId ≠ []) :
    (stepF cfg fs s).ended = false ∧
    ((fs.insideReorg = some (s.jNum, s.jId) ∧ (stepF cfg fs s).msgs = fs.msgs ∧
        (stepF cfg fs s).insideReorg = some (s.jNum, s.jId)) ∨
     (fs.insideReorg ≠ some (s.jNum, s.jId) ∧ (stepF cfg fs s).msgs = fs.msgs ++ [.undo s.jNum s.jId] ∧
        (stepF cfg fs s).insideReorg = some (s.jNum, s.jId))) := by
  unfold stepF
  simp only [he, Bool.false_eq_true, ↓reduceIte, hk]
  cases hi : fs.insideReorg with
  | none =>
    simp only [hj, decide_false, Bool.false_eq_true, ↓reduceIte]
    exact ⟨trivial, Or.inr ⟨by simp, trivial, trivial⟩⟩
  | some p =>
    obtain ⟨n, i⟩ := p
    by_cases hsame : n = s.jNum ∧ i = s.jId
    · obtain ⟨h1, h2⟩ := hsame
      subst h1; subst h2
      simp only [hj, ne_eq, not_false_eq_true, and_self, decide_true, ↓reduceIte]
      exact ⟨trivial, Or.inl trivial⟩
    · have : decide (s.jId ≠ [] ∧ n = s.jNum ∧ i = s.jId) = false := by
        simp only [decide_eq_false_iff_not]; exact fun h => hsame h.2
      simp only [this, Bool.false_eq_true, ↓reduceIte, hj]
      refine ⟨trivial, Or.inr ⟨?_, trivial, trivial⟩⟩
      intro hc; injection hc with hc; injection hc with h1 h2; exact hsame ⟨h1, h2⟩

theorem stepF_final (cfg : FCfg) (fs : FState) (s : FStep) (he : fs.ended = false) (hk : s.kind = .final) :
    (stepF cfg fs s).ended = false ∧ (stepF cfg fs s).msgs = fs.msgs ∧ (stepF cfg fs s).insideReorg = none := by
  unfold stepF
  simp only [he, Bool.false_eq_true, ↓reduceIte, hk]
  exact ⟨rfl, rfl, rfl⟩

theorem stepF_stalled (cfg : FCfg) (fs : FState) (s : FStep) (he : fs.ended = false) (hk : s.kind = .stalled) :
    (stepF cfg fs s).ended = false ∧ (stepF cfg fs s).msgs = fs.msgs ∧
    (stepF cfg fs s).insideReorg = fs.insideReorg := by
  unfold stepF
  simp only [he, Bool.false_eq_true, ↓reduceIte, hk]
  exact ⟨trivial, trivial, trivial⟩

theorem stepF_ended (cfg : FCfg) (fs : FState) (s : FStep) (he : fs.ended = true) : stepF cfg fs s = fs := by
  unfold stepF; simp [he]

theorem runSteps_ended (cfg : FCfg) (steps : List FStep) : ∀ (fs : FState), fs.ended = true →
    runSteps cfg fs steps = fs := by
  induction steps with
  | nil => intro fs _; rfl
  | cons s rest ih =>
    intro fs he
    show runSteps cfg (stepF cfg fs s) rest = fs
    rw [stepF_ended cfg fs s he, ih fs he]

/-! ### the client view -/

/-- what the client holds: outside a reorg the canonical chain from the start block on; during a reorg to
junction `j` what is left of it up to `j` (the client dropped to `j` at the first undo signal) -/
def viewOf (g : Nat) (C : List Held) (r : Option Blk) : List Held :=
  match r with
  | none => C.reverse.filter (fun h => decide (g ≤ h.1))
  | some j => (C.reverse.filter (fun h => decide (g ≤ h.1))).filter (fun h => decide (h.1 ≤ j.1))

theorem client_snoc (msgs : List FMsg) (m : FMsg) : client (msgs ++ [m]) = clientStep (client msgs) m := by
  simp [client, List.foldl_append]

/-- strictly decreasing block numbers from the top of the stack down -/
def Desc (C : List Held) : Prop := C.Pairwise (fun x y => y.1 < x.1)

theorem view_push (g : Nat) (h : Held) (C : List Held) :
    viewOf g (h :: C) none = viewOf g C none ++ (if g ≤ h.1 then [h] else []) := by
  unfold viewOf
  simp only [List.reverse_cons, List.filter_append, List.filter_cons, List.filter_nil]
  by_cases hg : g ≤ h.1 <;> simp [hg]

theorem view_at_junction (g : Nat) (t : Held) (C : List Held) (hd : Desc (t :: C)) :
    viewOf g (t :: C) (some (key t)) = viewOf g (t :: C) none := by
  unfold viewOf
  dsimp only
  apply List.filter_eq_self.2
  intro a ha
  have ha' : a ∈ t :: C := List.mem_reverse.1 (List.mem_filter.1 ha).1
  unfold Desc at hd
  rw [List.pairwise_cons] at hd
  rcases List.mem_cons.1 ha' with rfl | hm
  · simp [key]
  · have := hd.1 a hm
    show decide (a.1 ≤ t.1) = true
    exact decide_eq_true (Nat.le_of_lt this)

theorem view_pop (g : Nat) (t : Held) (C : List Held) (j : Blk) (hj : j.1 < t.1) :
    viewOf g (t :: C) (some j) = viewOf g C (some j) := by
  unfold viewOf
  simp only [List.reverse_cons, List.filter_append, List.filter_cons, List.filter_nil]
  have : ¬ t.1 ≤ j.1 := by omega
  by_cases hg : g ≤ t.1 <;> simp [hg, this]

theorem view_filter_none (g : Nat) (C : List Held) (j : Blk) :
    (viewOf g C none).filter (fun h => decide (h.1 ≤ j.1)) = viewOf g C (some j) := rfl

theorem view_filter_some (g : Nat) (C : List Held) (j : Blk) :
    (viewOf g C (some j)).filter (fun h => decide (h.1 ≤ j.1)) = viewOf g C (some j) := by
  unfold viewOf
  dsimp only
  rw [List.filter_filter]
  simp only [Bool.and_self]

theorem view_sorted (g : Nat) (C : List Held) (r : Option Blk) (hd : Desc C) :
    ((viewOf g C r).map (·.1)).Pairwise (· < ·) := by
  have h1 : C.reverse.Pairwise (fun x y => x.1 < y.1) := List.pairwise_reverse.2 hd
  rw [List.pairwise_map]
  unfold viewOf
  cases r with
  | none => exact h1.filter _
  | some j => exact (h1.filter _).filter _

theorem mem_view_of_mem {g : Nat} {C : List Held} {r : Option Blk} {y : Held} (hy : y ∈ C) (hg : g ≤ y.1)
    (hr : ∀ j, r = some j → y.1 ≤ j.1) : y ∈ viewOf g C r := by
  unfold viewOf
  cases r with
  | none => exact List.mem_filter.2 ⟨List.mem_reverse.2 hy, by simpa using hg⟩
  | some j =>
    exact List.mem_filter.2 ⟨List.mem_filter.2 ⟨List.mem_reverse.2 hy, by simpa using hg⟩, by simpa using hr j rfl⟩

theorem ge_of_mem_view {g : Nat} {C : List Held} {r : Option Blk} {y : Held} (hy : y ∈ viewOf g C r) : g ≤ y.1 := by
  unfold viewOf at hy
  cases r with
  | none => simpa using (List.mem_filter.1 hy).2
  | some j => simpa using (List.mem_filter.1 (List.mem_filter.1 hy).1).2

/-- the invariant that makes the client converge -/
structure Main (cfg : FCfg) (C : List Held) (r : Option Blk) (fs : FState) : Prop where
  desc     : Desc C
  junction : ∀ j, r = some j → j ∈ C.map key
  inside   : fs.insideReorg = none ∨ fs.insideReorg = r
  view     : client fs.msgs = viewOf cfg.gateStart C r

/-- what an undo signal may designate, given what the client holds when it arrives -/
def UndoOk (held : List Held) (n : Nat) (i : Bytes) : Prop :=
  held = [] ∨ (∃ p, (n, i, p) ∈ held) ∨ (∃ h, held.head? = some h ∧ n < h.1)

/-- safety over every moment of the message stream -/
structure Safe (msgs : List FMsg) : Prop where
  incr : ∀ pre, pre <+: msgs → ((client pre).map (·.1)).Pairwise (· < ·)
  undo : ∀ pre n i, (pre ++ [FMsg.undo n i]) <+: msgs → UndoOk (client pre) n i

theorem safe_nil : Safe [] := by
  constructor
  · intro pre hp
    have : pre = [] := List.prefix_nil.1 hp
    subst this; simp [client]
  · intro pre n i hp
    have := List.prefix_nil.1 hp
    simp at this

theorem Safe.snoc {msgs : List FMsg} (h : Safe msgs) (m : FMsg)
    (h1 : ((client (msgs ++ [m])).map (·.1)).Pairwise (· < ·))
    (h2 : ∀ n i, m = .undo n i → UndoOk (client msgs) n i) : Safe (msgs ++ [m]) := by
  constructor
  · intro pre hp
    rcases List.prefix_concat_iff.1 hp with rfl | hp
    · exact h1
    · exact h.incr pre hp
  · intro pre n i hp
    rcases List.prefix_concat_iff.1 hp with he | hp
    · obtain ⟨e1, e2⟩ := List.append_inj' he rfl
      subst e1
      injection e2 with e2
      exact h2 n i e2.symm
    · exact h.undo pre n i hp

theorem okStep_new {stk : List Blk} {r : Option Blk} {s : FStep} (hk : s.kind = .new ∨ s.kind = .newFinal)
    (h : okStep stk r s = true) : ∀ top rest, stk = top :: rest → top.1 < s.num ∧ (r = none ∨ r = some top) := by
  intro top rest hs
  unfold okStep at h
  subst hs
  rcases hk with hk | hk <;> simpa [hk] using h

theorem okStep_undo {stk : List Blk} {r : Option Blk} {s : FStep} (hk : s.kind = .undo)
    (h : okStep stk r s = true) : ∃ below, stk = (s.num, s.id) :: below ∧ s.jId ≠ [] ∧
      (s.jNum, s.jId) ∈ below ∧ (r = none ∨ r = some (s.jNum, s.jId)) := by
  unfold okStep at h
  simp only [hk] at h
  cases stk with
  | nil => simp at h
  | cons top below =>
    simp only [Bool.and_eq_true, beq_iff_eq, bne_iff_ne, ne_eq, List.contains_iff_mem, Bool.or_eq_true] at h
    obtain ⟨⟨⟨h1, h2⟩, h3⟩, h4⟩ := h
    exact ⟨below, by rw [h1], h2, h3, h4⟩

theorem step_main_new (cfg : FCfg) {C : List Held} {r : Option Blk} {fs : FState} (s : FStep)
    (hk : s.kind = .new ∨ s.kind = .newFinal)
    (hok : okStep (C.map key) r s = true) (he : fs.ended = false) (hm : Main cfg C r fs) (hs : Safe fs.msgs) :
    Safe (stepF cfg fs s).msgs ∧
    ((stepF cfg fs s).ended = true ∨
      Main cfg ((s.num, s.id, newPayload cfg fs.st s.num s.id) :: C) none (stepF cfg fs s)) := by
  rcases stepF_new cfg fs s he hk with ⟨e1, e2⟩ | ⟨e1, e2, e3⟩
  · rw [e2]; exact ⟨hs, Or.inl e1⟩
  · have hview : viewOf cfg.gateStart C r = viewOf cfg.gateStart C none := by
      cases C with
      | nil =>
        cases r with
        | none => rfl
        | some j => have := hm.junction j rfl; simp at this
      | cons t C0 =>
        obtain ⟨_, hr⟩ := okStep_new hk hok (key t) (C0.map key) rfl
        rcases hr with rfl | rfl
        · rfl
        · exact view_at_junction _ t C0 hm.desc
    have hmain : Main cfg ((s.num, s.id, newPayload cfg fs.st s.num s.id) :: C) none (stepF cfg fs s) := by
      refine ⟨?_, (by intro j hj; cases hj), Or.inl e2, ?_⟩
      · unfold Desc
        rw [List.pairwise_cons]
        refine ⟨?_, hm.desc⟩
        intro y hy
        cases C with
        | nil => simp at hy
        | cons t C0 =>
          obtain ⟨hlt, _⟩ := okStep_new hk hok (key t) (C0.map key) rfl
          have hd := hm.desc
          unfold Desc at hd
          rw [List.pairwise_cons] at hd
          rcases List.mem_cons.1 hy with rfl | hy
          · exact hlt
          · have := hd.1 y hy
            have hlt' : t.1 < s.num := hlt
            exact Nat.lt_trans this hlt'
      · rw [e3, view_push, ← hview, ← hm.view]
        by_cases hg : cfg.gateStart ≤ s.num
        · simp only [hg, ↓reduceIte, client_snoc, clientStep]
        · simp only [hg, ↓reduceIte, List.append_nil]
    refine ⟨?_, Or.inr hmain⟩
    by_cases hg : cfg.gateStart ≤ s.num
    · have hv := hmain.view
      rw [e3] at hv ⊢
      simp only [hg, ↓reduceIte] at hv ⊢
      refine hs.snoc _ ?_ ?_
      · rw [hv]; exact view_sorted _ _ _ hmain.desc
      · intro n i hc; cases hc
    · rw [e3]; simp only [hg, ↓reduceIte]; exact hs

theorem step_main_undo (cfg : FCfg) {C : List Held} {r : Option Blk} {fs : FState} (s : FStep)
    (hk : s.kind = .undo)
    (hok : okStep (C.map key) r s = true) (he : fs.ended = false) (hm : Main cfg C r fs) (hs : Safe fs.msgs) :
    Safe (stepF cfg fs s).msgs ∧ (stepF cfg fs s).ended = false ∧
      Main cfg C.tail (some (s.jNum, s.jId)) (stepF cfg fs s) := by
  obtain ⟨below, hstk, hjid, hjmem, hr⟩ := okStep_undo hk hok
  cases C with
  | nil => simp at hstk
  | cons t C0 =>
    simp only [List.map_cons, List.cons.injEq] at hstk
    obtain ⟨ht, hbelow⟩ := hstk
    subst hbelow
    obtain ⟨y, hy, hyk⟩ := List.mem_map.1 hjmem
    have hd := hm.desc
    unfold Desc at hd
    rw [List.pairwise_cons] at hd
    have hjlt : (s.jNum, s.jId).1 < t.1 := by
      have := hd.1 y hy
      rw [← hyk]; exact this
    obtain ⟨e1, hcase⟩ := stepF_undo cfg fs s he hk hjid
    have hview : client (stepF cfg fs s).msgs = viewOf cfg.gateStart C0 (some (s.jNum, s.jId)) := by
      rcases hcase with ⟨a1, a2, _⟩ | ⟨b1, b2, _⟩
      · have : r = some (s.jNum, s.jId) := by
          rcases hm.inside with h | h
          · rw [h] at a1; cases a1
          · rw [← h]; exact a1
        rw [a2, hm.view, this]
        exact view_pop _ t C0 _ hjlt
      · rw [b2, client_snoc, hm.view]
        show (viewOf cfg.gateStart (t :: C0) r).filter (fun h => decide (h.1 ≤ (s.jNum, s.jId).1)) = _
        rcases hr with rfl | rfl
        · rw [view_filter_none]; exact view_pop _ t C0 _ hjlt
        · rw [view_filter_some]; exact view_pop _ t C0 _ hjlt
    have hinside : (stepF cfg fs s).insideReorg = some (s.jNum, s.jId) := by
      rcases hcase with ⟨_, _, a3⟩ | ⟨_, _, b3⟩
      · exact a3
      · exact b3
    have hmain : Main cfg C0 (some (s.jNum, s.jId)) (stepF cfg fs s) :=
      ⟨hd.2, (by intro j hj; injection hj with hj; rw [← hj]; exact hjmem), Or.inr hinside, hview⟩
    refine ⟨?_, e1, hmain⟩
    rcases hcase with ⟨_, a2, _⟩ | ⟨_, b2, _⟩
    · rw [a2]; exact hs
    · rw [b2] at hview ⊢
      refine hs.snoc _ ?_ ?_
      · rw [hview]; exact view_sorted _ _ _ hmain.desc
      · intro n i hc
        injection hc with hn hi
        subst hn; subst hi
        rw [hm.view]
        have hyC : y ∈ t :: C0 := List.mem_cons_of_mem _ hy
        have hy1 : y.1 = s.jNum := congrArg Prod.fst hyk
        have hy2 : y.2.1 = s.jId := congrArg Prod.snd hyk
        by_cases hg : cfg.gateStart ≤ s.jNum
        · refine Or.inr (Or.inl ⟨y.2.2, ?_⟩)
          have : y ∈ viewOf cfg.gateStart (t :: C0) r := by
            apply mem_view_of_mem hyC (by rw [hy1]; exact hg)
            intro j hj
            rcases hr with h | h
            · rw [h] at hj; cases hj
            · rw [h] at hj; injection hj with hj; rw [← hj, hy1]; exact Nat.le_refl _
          rw [← hy1, ← hy2]; exact this
        · cases hv : viewOf cfg.gateStart (t :: C0) r with
          | nil => exact Or.inl rfl
          | cons a rest =>
            refine Or.inr (Or.inr ⟨a, rfl, ?_⟩)
            have : a ∈ viewOf cfg.gateStart (t :: C0) r := by rw [hv]; exact List.mem_cons_self
            have := ge_of_mem_view this
            omega

/-- one step preserves the invariants -/
theorem step_main (cfg : FCfg) {C : List Held} {r : Option Blk} {fs : FState} (s : FStep)
    (hok : okStep (C.map key) r s = true) (he : fs.ended = false) (hm : Main cfg C r fs) (hs : Safe fs.msgs) :
    Safe (stepF cfg fs s).msgs ∧
    ((stepF cfg fs s).ended = true ∨ Main cfg (nextChain cfg fs C s) (nextReorg r s) (stepF cfg fs s)) := by
  cases hk : s.kind with
  | new =>
    have := step_main_new cfg s (Or.inl hk) hok he hm hs
    simpa only [nextChain, nextReorg, hk] using this
  | newFinal =>
    have := step_main_new cfg s (Or.inr hk) hok he hm hs
    simpa only [nextChain, nextReorg, hk] using this
  | undo =>
    obtain ⟨a, _, c⟩ := step_main_undo cfg s hk hok he hm hs
    refine ⟨a, Or.inr ?_⟩
    simpa only [nextChain, nextReorg, hk] using c
  | stalled =>
    obtain ⟨e1, e2, e3⟩ := stepF_stalled cfg fs s he hk
    rw [e2]
    refine ⟨hs, Or.inr ?_⟩
    simp only [nextChain, nextReorg, hk]
    exact ⟨hm.desc, hm.junction, by rw [e3]; exact hm.inside, by rw [e2]; exact hm.view⟩
  | final =>
    obtain ⟨e1, e2, e3⟩ := stepF_final cfg fs s he hk
    rw [e2]
    refine ⟨hs, Or.inr ?_⟩
    simp only [nextChain, nextReorg, hk]
    exact ⟨hm.desc, hm.junction, Or.inl e3, by rw [e2]; exact hm.view⟩

/-- the invariants along a whole run -/
theorem run_main (cfg : FCfg) (steps : List FStep) : ∀ (fs : FState) (C : List Held) (r : Option Blk),
    validFrom (C.map key) r steps = true → Safe fs.msgs → (fs.ended = true ∨ Main cfg C r fs) →
    Safe (runSteps cfg fs steps).msgs ∧
    ((runSteps cfg fs steps).ended = true ∨
      Main cfg (chainFrom cfg fs C steps) (steps.foldl nextReorg r) (runSteps cfg fs steps)) := by
  induction steps with
  | nil => intro fs C r _ hs hm; exact ⟨hs, hm⟩
  | cons s rest ih =>
    intro fs C r hv hs hm
    simp only [validFrom, Bool.and_eq_true] at hv
    show Safe (runSteps cfg (stepF cfg fs s) rest).msgs ∧ ((runSteps cfg (stepF cfg fs s) rest).ended = true ∨
      Main cfg (chainFrom cfg (stepF cfg fs s) (nextChain cfg fs C s) rest) (rest.foldl nextReorg (nextReorg r s))
        (runSteps cfg (stepF cfg fs s) rest))
    cases he : fs.ended with
    | true =>
      rw [stepF_ended cfg fs s he, runSteps_ended cfg rest fs he]
      exact ⟨hs, Or.inl he⟩
    | false =>
      have hm' : Main cfg C r fs := by
        rcases hm with h | h
        · rw [he] at h; cases h
        · exact h
      obtain ⟨a, b⟩ := step_main cfg s hv.1 he hm' hs
      exact ih _ _ _ (by rw [nextChain_key]; exact hv.2) a b

theorem main0 (cfg : FCfg) (st0 : LState) : Main cfg [] none (fs0 st0) :=
  ⟨List.Pairwise.nil, (by intro j hj; cases hj), Or.inl rfl, rfl⟩

/-- each block of the chain was pushed by a `new` step of the run, with the payload computed on the store
state at that moment -/
theorem chainFrom_origin (cfg : FCfg) (steps : List FStep) : ∀ (fs : FState) (C : List Held) (h : Held),
    h ∈ chainFrom cfg fs C steps → h ∈ C ∨ ∃ pre s post, steps = pre ++ s :: post ∧
      (s.kind = .new ∨ s.kind = .newFinal) ∧ h = (s.num, s.id, newPayload cfg (runSteps cfg fs pre).st s.num s.id) := by
  induction steps with
  | nil => intro fs C h hm; exact Or.inl hm
  | cons s rest ih =>
    intro fs C h hm
    rcases ih _ _ h hm with h1 | ⟨pre, s', post, e1, e2, e3⟩
    · unfold nextChain at h1
      cases hk : s.kind <;> simp only [hk] at h1
      · rcases List.mem_cons.1 h1 with rfl | h1
        · exact Or.inr ⟨[], s, rest, rfl, Or.inl hk, rfl⟩
        · exact Or.inl h1
      · rcases List.mem_cons.1 h1 with rfl | h1
        · exact Or.inr ⟨[], s, rest, rfl, Or.inr hk, rfl⟩
        · exact Or.inl h1
      · exact Or.inl (List.mem_of_mem_tail h1)
      · exact Or.inl h1
      · exact Or.inl h1
    · exact Or.inr ⟨s :: pre, s', post, by rw [e1]; rfl, e2, e3⟩

/-- consecutive undo steps announcing the same junction: one undo signal, unless the pipeline was already
inside a reorg to that junction -/
theorem undos_same_junction (cfg : FCfg) (jn : Nat) (ji : Bytes) (hj : ji ≠ []) (us : List FStep) :
    ∀ fs : FState, fs.ended = false → (∀ u ∈ us, u.kind = .undo ∧ u.jNum = jn ∧ u.jId = ji) →
    (runSteps cfg fs us).ended = false ∧
    (runSteps cfg fs us).msgs =
      if fs.insideReorg = some (jn, ji) ∨ us = [] then fs.msgs else fs.msgs ++ [.undo jn ji] := by
  induction us with
  | nil => intro fs he _; exact ⟨he, by simp [runSteps]⟩
  | cons u rest ih =>
    intro fs he hu
    obtain ⟨hk, h1, h2⟩ := hu u List.mem_cons_self
    have hst := stepF_undo cfg fs u he hk (by rw [h2]; exact hj)
    rw [h1, h2] at hst
    obtain ⟨e1, hcase⟩ := hst
    have ihr := ih (stepF cfg fs u) e1 (fun v hv => hu v (List.mem_cons_of_mem _ hv))
    show (runSteps cfg (stepF cfg fs u) rest).ended = false ∧ (runSteps cfg (stepF cfg fs u) rest).msgs = _
    refine ⟨ihr.1, ?_⟩
    rw [ihr.2]
    rcases hcase with ⟨a1, a2, a3⟩ | ⟨b1, b2, b3⟩
    · simp only [a3, true_or, ↓reduceIte, a1, a2]
    · simp only [b3, true_or, ↓reduceIte, b1, b2, reduceCtorEq, or_self]

/-- the step that ends a request sends nothing -/
theorem stepF_msgs_of_ended (cfg : FCfg) (fs : FState) (s : FStep) (he : fs.ended = false)
    (he' : (stepF cfg fs s).ended = true) : (stepF cfg fs s).msgs = fs.msgs := by
  cases hk : s.kind with
  | new =>
    rcases stepF_new cfg fs s he (Or.inl hk) with ⟨_, e2⟩ | ⟨e1, _⟩
    · exact e2
    · rw [e1] at he'; cases he'
  | newFinal =>
    rcases stepF_new cfg fs s he (Or.inr hk) with ⟨_, e2⟩ | ⟨e1, _⟩
    · exact e2
    · rw [e1] at he'; cases he'
  | stalled => exact (stepF_stalled cfg fs s he hk).2.1
  | final => exact (stepF_final cfg fs s he hk).2.1
  | undo =>
    by_cases hj : s.jId = []
    · unfold stepF
      simp only [he, Bool.false_eq_true, ↓reduceIte, hk, hj]
      split <;> rfl
    · have := (stepF_undo cfg fs s he hk hj).1
      rw [this] at he'; cases he'

/-- a run that ended delivered exactly the messages of its longest prefix that had not ended -/
theorem runSteps_ended_prefix (cfg : FCfg) (steps : List FStep) : ∀ fs : FState, fs.ended = false →
    (runSteps cfg fs steps).ended = true →
    ∃ pre s post, steps = pre ++ s :: post ∧ (runSteps cfg fs pre).ended = false ∧
      (runSteps cfg fs steps).msgs = (runSteps cfg fs pre).msgs := by
  induction steps with
  | nil => intro fs he he'; rw [show runSteps cfg fs [] = fs from rfl, he] at he'; cases he'
  | cons s rest ih =>
    intro fs he he'
    cases h1 : (stepF cfg fs s).ended with
    | true =>
      refine ⟨[], s, rest, rfl, he, ?_⟩
      show (runSteps cfg (stepF cfg fs s) rest).msgs = fs.msgs
      rw [runSteps_ended cfg rest _ h1]
      exact stepF_msgs_of_ended cfg fs s he h1
    | false =>
      obtain ⟨pre, s', post, e1, e2, e3⟩ := ih (stepF cfg fs s) h1 he'
      exact ⟨s :: pre, s', post, by rw [e1]; rfl, e2, e3⟩

end SV.Fk

import Model.Validate
/-!
Helper lemmas for C17, part 1: the `Outcome` algebra, name → index lookup, the module graph
(edges in range, the peeling order is a topological order, breadth-first reachability is closed under
successors).
-/
namespace SV.Val

/-! ### Outcome -/

/-- neither a panic nor a hang -/
def Good {α : Type} (o : Outcome α) : Prop := o.isBad = false

@[simp] theorem good_ok {α : Type} (a : α) : Good (Outcome.ok a) := rfl
@[simp] theorem good_error {α : Type} : Good (Outcome.error : Outcome α) := rfl
@[simp] theorem not_good_panic {α : Type} : ¬ Good (Outcome.panic : Outcome α) := by simp [Good, Outcome.isBad]
@[simp] theorem not_good_hang {α : Type} : ¬ Good (Outcome.hang : Outcome α) := by simp [Good, Outcome.isBad]

@[simp] theorem bind_ok {α β : Type} (a : α) (f : α → Outcome β) : (Outcome.ok a).bind f = f a := rfl
@[simp] theorem bind_error {α β : Type} (f : α → Outcome β) : (Outcome.error).bind f = .error := rfl
@[simp] theorem bind_panic {α β : Type} (f : α → Outcome β) : (Outcome.panic).bind f = .panic := rfl
@[simp] theorem bind_hang {α β : Type} (f : α → Outcome β) : (Outcome.hang).bind f = .hang := rfl

theorem good_bind {α β : Type} {o : Outcome α} {f : α → Outcome β} :
    Good (o.bind f) ↔ Good o ∧ ∀ a, o = .ok a → Good (f a) := by
  cases o <;> simp

theorem bind_eq_ok {α β : Type} {o : Outcome α} {f : α → Outcome β} {b : β} :
    o.bind f = .ok b ↔ ∃ a, o = .ok a ∧ f a = .ok b := by
  cases o <;> simp

theorem good_iff {α : Type} (o : Outcome α) : Good o ↔ o ≠ .panic ∧ o ≠ .hang := by
  cases o <;> simp

/-! ### lookupIdx -/

theorem lookupIdx_some {name : Str} {ms : List Module} {j : Nat} (h : lookupIdx name ms = some j) :
    ∃ m, ms[j]? = some m ∧ m.name = name := by
  induction ms generalizing j with
  | nil => simp [lookupIdx] at h
  | cons m r ih =>
    unfold lookupIdx at h
    split at h
    · rename_i j' hj'
      injection h with h; subst h
      obtain ⟨m', hm', hn⟩ := ih hj'
      exact ⟨m', by simpa using hm', hn⟩
    · split at h
      · injection h with h; subst h
        exact ⟨m, rfl, by assumption⟩
      · cases h

theorem lookupIdx_lt {name : Str} {ms : List Module} {j : Nat} (h : lookupIdx name ms = some j) :
    j < ms.length := by
  obtain ⟨m, hm, _⟩ := lookupIdx_some h
  exact (List.getElem?_eq_some_iff.1 hm).1

theorem lookupIdx_isSome_of_mem {ms : List Module} {m : Module} (h : m ∈ ms) :
    ∃ j, lookupIdx m.name ms = some j := by
  induction ms with
  | nil => cases h
  | cons a r ih =>
    unfold lookupIdx
    cases hr : lookupIdx m.name r with
    | some j => exact ⟨j + 1, rfl⟩
    | none =>
      rcases List.mem_cons.1 h with h | h
      · subst h; exact ⟨0, by simp⟩
      · obtain ⟨j, hj⟩ := ih h; rw [hr] at hj; cases hj

theorem lookupIdx_isSome_of_name {ms : List Module} {nm : Str} (h : ∃ m ∈ ms, m.name = nm) :
    ∃ j, lookupIdx nm ms = some j := by
  obtain ⟨m, hm, hn⟩ := h
  subst hn
  exact lookupIdx_isSome_of_mem hm

/-- with pairwise distinct names the lookup of a module's name returns its position -/
theorem lookupIdx_of_getElem {ms : List Module} (hnd : (ms.map (·.name)).Nodup) {i : Nat} {m : Module}
    (h : ms[i]? = some m) : lookupIdx m.name ms = some i := by
  induction ms generalizing i with
  | nil => simp at h
  | cons a r ih =>
    have hnd' : (r.map (·.name)).Nodup := (List.nodup_cons.1 (by simpa using hnd)).2
    have hna : a.name ∉ r.map (·.name) := (List.nodup_cons.1 (by simpa using hnd)).1
    cases i with
    | zero =>
      simp at h; subst h
      unfold lookupIdx
      cases hr : lookupIdx a.name r with
      | some j =>
        obtain ⟨m', hm', hn⟩ := lookupIdx_some hr
        exact absurd (List.mem_map.2 ⟨m', List.mem_of_getElem? hm', hn⟩) hna
      | none => simp
    | succ k =>
      have h' : r[k]? = some m := by simpa using h
      unfold lookupIdx
      rw [ih hnd' h']

/-! ### edges are in range: `AddCost` never panics -/

def AdjOK (adj : List (List Nat)) : Prop := ∀ l ∈ adj, ∀ w ∈ l, w < adj.length

theorem edgesOf_lt (ms : List Module) (m : Module) : ∀ w ∈ edgesOf ms m, w < ms.length := by
  intro w hw
  unfold edgesOf at hw
  rcases List.mem_append.1 hw with hw | hw
  · obtain ⟨i, _, hi⟩ := List.mem_filterMap.1 hw
    unfold inputEdge at hi
    split at hi
    · split at hi
      · cases hi
      · exact lookupIdx_lt hi
    · split at hi
      · cases hi
      · exact lookupIdx_lt hi
    · cases hi
  · split at hw
    · cases hw
    · rename_i bf _
      cases hl : lookupIdx bf.module ms with
      | none => simp [hl] at hw
      | some j => simp [hl] at hw; subst hw; exact lookupIdx_lt hl

theorem adjOK_map (ms : List Module) : AdjOK (ms.map (edgesOf ms)) := by
  intro l hl w hw
  obtain ⟨m, _, rfl⟩ := List.mem_map.1 hl
  simpa using edgesOf_lt ms m w hw

theorem succs_lt {adj : List (List Nat)} (h : AdjOK adj) {v w : Nat} (hw : w ∈ succs adj v) :
    w < adj.length := by
  unfold succs at hw
  rw [List.getD_eq_getElem?_getD] at hw
  cases hv : adj[v]? with
  | none => simp [hv] at hw
  | some l => simp [hv] at hw; exact h l (List.mem_of_getElem? hv) w hw

theorem succs_map {ms : List Module} {v : Nat} {m : Module} (h : ms[v]? = some m) :
    succs (ms.map (edgesOf ms)) v = edgesOf ms m := by
  unfold succs
  rw [List.getD_eq_getElem?_getD]
  simp [h]

theorem newModuleGraph_cases (ms : List Module) :
    newModuleGraph ms = .error ∨
      newModuleGraph ms = .ok ⟨ms, ms.map (edgesOf ms), topoOrder (ms.map (edgesOf ms))⟩ ∧
        (topoOrder (ms.map (edgesOf ms))).length = ms.length := by
  unfold newModuleGraph
  have hall : (ms.map (edgesOf ms)).all (fun l => l.all (· < ms.length)) = true := by
    simp only [List.all_eq_true, decide_eq_true_eq]
    intro l hl w hw
    have := adjOK_map ms l hl w hw
    simpa using this
  simp only [hall]
  by_cases hlen : (topoOrder (ms.map (edgesOf ms))).length = ms.length
  · right; simp [hlen]
  · left; simp [hlen]

theorem newModuleGraph_good (ms : List Module) : Good (newModuleGraph ms) := by
  rcases newModuleGraph_cases ms with h | ⟨h, _⟩ <;> rw [h] <;> simp

/-! ### pigeonhole -/

theorem length_le_of_nodup_lt {l : List Nat} {n : Nat} (hnd : l.Nodup) (hlt : ∀ x ∈ l, x < n) :
    l.length ≤ n := by
  have : l.length ≤ (List.range n).length :=
    List.Nodup.length_le_of_subset hnd (fun x hx => List.mem_range.2 (hlt x hx))
  simpa using this

theorem mem_of_nodup_length_eq {l : List Nat} {n : Nat} (hnd : l.Nodup) (hlt : ∀ x ∈ l, x < n)
    (hlen : l.length = n) {v : Nat} (hv : v < n) : v ∈ l := by
  apply Classical.byContradiction
  intro hnot
  have hsub : ∀ x ∈ l, x ∈ (List.range n).erase v := by
    intro x hx
    have hxv : x ≠ v := fun h => hnot (h ▸ hx)
    exact (List.mem_erase_of_ne hxv).2 (List.mem_range.2 (hlt x hx))
  have h1 : l.length ≤ ((List.range n).erase v).length := List.Nodup.length_le_of_subset hnd hsub
  have h2 : ((List.range n).erase v).length = n - 1 := by
    rw [List.length_erase_of_mem (List.mem_range.2 hv)]; simp
  omega

/-! ### the peeling order is a topological order -/

structure TopoInv (adj : List (List Nat)) (done : List Nat) : Prop where
  nodup : done.Nodup
  lt : ∀ v ∈ done, v < adj.length
  before : ∀ v ∈ done, ∀ w ∈ succs adj v, w ∈ done ∧ done.idxOf w < done.idxOf v

theorem mem_peelRound {adj : List (List Nat)} {done : List Nat} {v : Nat} :
    v ∈ peelRound adj done ↔ v < adj.length ∧ v ∉ done ∧ ∀ w ∈ succs adj v, w ∈ done := by
  unfold peelRound
  simp [List.mem_filter, List.mem_range, List.all_eq_true]

theorem topoInv_step {adj : List (List Nat)} {done : List Nat} (h : TopoInv adj done) :
    TopoInv adj (done ++ peelRound adj done) := by
  refine ⟨?_, ?_, ?_⟩
  · apply List.nodup_append.2
    refine ⟨h.nodup, ?_, ?_⟩
    · unfold peelRound
      exact List.Nodup.sublist List.filter_sublist List.nodup_range
    · intro a ha b hb hab
      subst hab
      exact (mem_peelRound.1 hb).2.1 ha
  · intro v hv
    rcases List.mem_append.1 hv with hv | hv
    · exact h.lt v hv
    · exact (mem_peelRound.1 hv).1
  · intro v hv w hw
    rcases List.mem_append.1 hv with hv | hv
    · obtain ⟨hwd, hlt⟩ := h.before v hv w hw
      refine ⟨List.mem_append_left _ hwd, ?_⟩
      rw [List.idxOf_append, List.idxOf_append]
      simp [hwd, hv, hlt]
    · obtain ⟨_, hvn, hall⟩ := mem_peelRound.1 hv
      have hwd := hall w hw
      refine ⟨List.mem_append_left _ hwd, ?_⟩
      rw [List.idxOf_append, List.idxOf_append]
      simp only [hwd, hvn, if_true, if_false]
      have := List.idxOf_lt_length_of_mem hwd
      omega

theorem topoInv_peel {adj : List (List Nat)} (k : Nat) {done : List Nat} (h : TopoInv adj done) :
    TopoInv adj (peel adj k done) := by
  induction k generalizing done with
  | zero => exact h
  | succ k ih =>
    unfold peel
    simp only
    split
    · exact h
    · exact ih (topoInv_step h)

theorem topoInv_topoOrder (adj : List (List Nat)) : TopoInv adj (topoOrder adj) := by
  unfold topoOrder
  apply topoInv_peel
  exact ⟨List.nodup_nil, by simp, by simp⟩

/-- the rank of a vertex: its position in the peeling order -/
def rank (order : List Nat) (v : Nat) : Nat := order.idxOf v

/-- when the order has all the vertices (the graph is acyclic) the rank strictly decreases along edges -/
theorem rank_succ_lt {adj : List (List Nat)} (hlen : (topoOrder adj).length = adj.length)
    {v w : Nat} (hv : v < adj.length) (hw : w ∈ succs adj v) :
    rank (topoOrder adj) w < rank (topoOrder adj) v := by
  have inv := topoInv_topoOrder adj
  have hmem : v ∈ topoOrder adj := mem_of_nodup_length_eq inv.nodup inv.lt hlen hv
  exact (inv.before v hmem w hw).2

theorem rank_lt_length {adj : List (List Nat)} (hlen : (topoOrder adj).length = adj.length)
    {v : Nat} (hv : v < adj.length) : rank (topoOrder adj) v < adj.length := by
  have inv := topoInv_topoOrder adj
  have hmem : v ∈ topoOrder adj := mem_of_nodup_length_eq inv.nodup inv.lt hlen hv
  have := List.idxOf_lt_length_of_mem hmem
  unfold rank; omega

/-! ### breadth-first reachability -/

theorem addNew_spec (vis cand : List Nat) :
    ∃ ex, addNew vis cand = vis ++ ex ∧ (∀ x ∈ ex, x ∈ cand ∧ x ∉ vis) ∧ ex.Nodup ∧
      (∀ x ∈ cand, x ∈ vis ++ ex) := by
  unfold addNew
  induction cand generalizing vis with
  | nil => exact ⟨[], by simp⟩
  | cons c r ih =>
    simp only [List.foldl_cons]
    by_cases hc : vis.contains c = true
    · simp only [hc, if_true]
      obtain ⟨ex, h1, h2, h3, h4⟩ := ih vis
      refine ⟨ex, h1, ?_, h3, ?_⟩
      · intro x hx; exact ⟨List.mem_cons_of_mem _ (h2 x hx).1, (h2 x hx).2⟩
      · intro x hx
        rcases List.mem_cons.1 hx with hx | hx
        · subst hx; exact List.mem_append_left _ (by simpa using hc)
        · exact h4 x hx
    · simp only [hc]
      have hc' : c ∉ vis := by simpa using hc
      obtain ⟨ex, h1, h2, h3, h4⟩ := ih (vis ++ [c])
      refine ⟨c :: ex, ?_, ?_, ?_, ?_⟩
      · simpa [List.append_assoc] using h1
      · intro x hx
        rcases List.mem_cons.1 hx with hx | hx
        · subst hx; exact ⟨List.mem_cons_self, hc'⟩
        · have := h2 x hx
          exact ⟨List.mem_cons_of_mem _ this.1, fun hv => this.2 (List.mem_append_left _ hv)⟩
      · apply List.nodup_cons.2
        refine ⟨fun hx => (h2 c hx).2 (by simp), h3⟩
      · intro x hx
        rcases List.mem_cons.1 hx with hx | hx
        · subst hx; simp
        · have := h4 x hx
          simpa [List.append_assoc] using this

/-- the invariant of the search: everything visited is in range, and closed under successors except
for the frontier; `Q` is any predicate that holds of the root and is inherited by successors -/
structure BfsInv (adj : List (List Nat)) (Q : Nat → Prop) (vis fr : List Nat) : Prop where
  nodup : vis.Nodup
  lt : ∀ x ∈ vis, x < adj.length
  fr_sub : ∀ x ∈ fr, x ∈ vis
  closed : ∀ u ∈ vis, u ∉ fr → ∀ w ∈ succs adj u, w ∈ vis
  q : ∀ u ∈ vis, Q u

structure ReachRes (adj : List (List Nat)) (Q : Nat → Prop) (v0 : Nat) (s : List Nat) : Prop where
  root : v0 ∈ s
  lt : ∀ x ∈ s, x < adj.length
  closed : ∀ u ∈ s, ∀ w ∈ succs adj u, w ∈ s
  q : ∀ u ∈ s, Q u

theorem bfs_spec {adj : List (List Nat)} (hadj : AdjOK adj) {Q : Nat → Prop}
    (hQ : ∀ u w, Q u → w ∈ succs adj u → Q w) (v0 : Nat) :
    ∀ (fuel : Nat) (vis fr : List Nat), BfsInv adj Q vis fr → v0 ∈ vis → adj.length < vis.length + fuel →
      ReachRes adj Q v0 (bfs adj fuel vis fr) := by
  intro fuel
  induction fuel with
  | zero =>
    intro vis fr inv _ hlen
    have := length_le_of_nodup_lt inv.nodup inv.lt
    omega
  | succ k ih =>
    intro vis fr inv hv0 hlen
    unfold bfs
    simp only
    obtain ⟨ex, h1, h2, h3, h4⟩ := addNew_spec vis (fr.flatMap (succs adj))
    have hdrop : (addNew vis (fr.flatMap (succs adj))).drop vis.length = ex := by
      rw [h1]; simp
    rw [hdrop]
    split
    · -- no new vertex: closed
      rename_i hemp
      have hex : ex = [] := by simpa using hemp
      refine ⟨hv0, inv.lt, ?_, inv.q⟩
      intro u hu w hw
      by_cases hfr : u ∈ fr
      · have : w ∈ vis ++ ex := h4 w (List.mem_flatMap.2 ⟨u, hfr, hw⟩)
        simpa [hex] using this
      · exact inv.closed u hu hfr w hw
    · rename_i hne
      have hexne : ex ≠ [] := by simpa using hne
      rw [h1]
      apply ih
      · refine ⟨?_, ?_, ?_, ?_, ?_⟩
        · apply List.nodup_append.2
          refine ⟨inv.nodup, h3, ?_⟩
          intro a ha b hb hab
          subst hab
          exact (h2 a hb).2 ha
        · intro x hx
          rcases List.mem_append.1 hx with hx | hx
          · exact inv.lt x hx
          · obtain ⟨u, _, hw⟩ := List.mem_flatMap.1 (h2 x hx).1
            exact succs_lt hadj hw
        · intro x hx; exact List.mem_append_right _ hx
        · intro u hu hnex w hw
          rcases List.mem_append.1 hu with hu | hu
          · by_cases hfr : u ∈ fr
            · exact h4 w (List.mem_flatMap.2 ⟨u, hfr, hw⟩)
            · exact List.mem_append_left _ (inv.closed u hu hfr w hw)
          · exact absurd hu hnex
        · intro u hu
          rcases List.mem_append.1 hu with hu | hu
          · exact inv.q u hu
          · obtain ⟨p, hp, hw⟩ := List.mem_flatMap.1 (h2 u hu).1
            exact hQ p u (inv.q p (inv.fr_sub p hp)) hw
      · exact List.mem_append_left _ hv0
      · have : 0 < ex.length := List.length_pos_iff.2 hexne
        simp only [List.length_append]
        omega

theorem reach_spec {adj : List (List Nat)} (hadj : AdjOK adj) {Q : Nat → Prop}
    (hQ : ∀ u w, Q u → w ∈ succs adj u → Q w) {v0 : Nat} (hv0 : v0 < adj.length) (hq0 : Q v0) :
    ReachRes adj Q v0 (reach adj v0) := by
  unfold reach
  apply bfs_spec hadj hQ v0
  · refine ⟨by simp, ?_, by simp, ?_, ?_⟩
    · intro x hx; simp at hx; subst hx; exact hv0
    · intro u hu hnu; simp at hu; subst hu; simp at hnu
    · intro u hu; simp at hu; subst hu; exact hq0
  · simp
  · simp

/-! ### modulesAt never dereferences nil for indexes in range -/

theorem modulesAt_spec (ms : List Module) (idxs : List Nat) (h : ∀ i ∈ idxs, i < ms.length) :
    ∃ l, modulesAt ms idxs = .ok l ∧ (∀ m ∈ l, ∃ i ∈ idxs, ms[i]? = some m) ∧
      (∀ i ∈ idxs, ∃ m ∈ l, ms[i]? = some m) := by
  induction idxs with
  | nil => exact ⟨[], rfl, by simp, by simp⟩
  | cons i r ih =>
    obtain ⟨l, h1, h2, h3⟩ := ih (fun j hj => h j (List.mem_cons_of_mem _ hj))
    have hi : i < ms.length := h i List.mem_cons_self
    unfold modulesAt
    rw [List.getElem?_eq_getElem hi]
    simp only [h1, bind_ok]
    refine ⟨ms[i] :: l, rfl, ?_, ?_⟩
    · intro m hm
      rcases List.mem_cons.1 hm with hm | hm
      · subst hm; exact ⟨i, List.mem_cons_self, List.getElem?_eq_getElem hi⟩
      · obtain ⟨j, hj, hm'⟩ := h2 m hm; exact ⟨j, List.mem_cons_of_mem _ hj, hm'⟩
    · intro j hj
      rcases List.mem_cons.1 hj with hj | hj
      · subst hj; exact ⟨ms[j], List.mem_cons_self, List.getElem?_eq_getElem hi⟩
      · obtain ⟨m, hm, hm'⟩ := h3 j hj; exact ⟨m, List.mem_cons_of_mem _ hm, hm'⟩

theorem ancestorsOf_good (g : MGraph) (name : Str) : Good (g.ancestorsOf name) := by
  unfold MGraph.ancestorsOf
  split
  · simp
  · obtain ⟨l, h, _⟩ := modulesAt_spec g.ms
      ((List.range g.ms.length).filter fun i => i != _ && (reach g.adj _).contains i)
      (fun i hi => List.mem_range.1 (List.mem_filter.1 hi).1)
    rw [h]; simp

/-! ### dedupByName -/

theorem dedupByName_spec (l acc : List Module) (hacc : (acc.map (·.name)).Nodup) :
    ((dedupByName l acc).map (·.name)).Nodup ∧
    (∀ m ∈ dedupByName l acc, m ∈ acc ∨ m ∈ l) ∧
    (∀ m, m ∈ acc ∨ m ∈ l → ∃ m' ∈ dedupByName l acc, m'.name = m.name) := by
  induction l generalizing acc with
  | nil =>
    refine ⟨hacc, fun m hm => Or.inl hm, ?_⟩
    intro m hm
    rcases hm with hm | hm
    · exact ⟨m, hm, rfl⟩
    · cases hm
  | cons a r ih =>
    unfold dedupByName
    split
    · rename_i hany
      obtain ⟨h1, h2, h3⟩ := ih acc hacc
      refine ⟨h1, ?_, ?_⟩
      · intro m hm
        rcases h2 m hm with h | h
        · exact Or.inl h
        · exact Or.inr (List.mem_cons_of_mem _ h)
      · intro m hm
        rcases hm with hm | hm
        · exact h3 m (Or.inl hm)
        · rcases List.mem_cons.1 hm with hm | hm
          · subst hm
            obtain ⟨x, hx, hxn⟩ := List.any_eq_true.1 hany
            obtain ⟨m', hm', hn'⟩ := h3 x (Or.inl hx)
            exact ⟨m', hm', by rw [hn']; simpa using hxn⟩
          · exact h3 m (Or.inr hm)
    · rename_i hany
      have hnot : a.name ∉ acc.map (·.name) := by
        intro hmem
        obtain ⟨x, hx, hxn⟩ := List.mem_map.1 hmem
        apply hany
        exact List.any_eq_true.2 ⟨x, hx, by simpa using hxn⟩
      have hacc' : ((acc ++ [a]).map (·.name)).Nodup := by
        rw [List.map_append]
        apply List.nodup_append.2
        refine ⟨hacc, by simp, ?_⟩
        intro x hx y hy hxy
        simp at hy; subst hy; subst hxy
        exact hnot hx
      obtain ⟨h1, h2, h3⟩ := ih (acc ++ [a]) hacc'
      refine ⟨h1, ?_, ?_⟩
      · intro m hm
        rcases h2 m hm with h | h
        · rcases List.mem_append.1 h with h | h
          · exact Or.inl h
          · simp at h; subst h; exact Or.inr List.mem_cons_self
        · exact Or.inr (List.mem_cons_of_mem _ h)
      · intro m hm
        rcases hm with hm | hm
        · exact h3 m (Or.inl (List.mem_append_left _ hm))
        · rcases List.mem_cons.1 hm with hm | hm
          · subst hm; exact h3 m (Or.inl (List.mem_append_right _ (by simp)))
          · exact h3 m (Or.inr hm)

end SV.Val

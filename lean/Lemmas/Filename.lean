import Model.Filename
/-!
Helper lemmas for C10 about `Model/Filename.lean`: `%010d` digits and their value, the regular expression on
generated names, the lexicographic order of padded numbers, the listing walk.
-/
namespace SV.Filename

/-! ### digits -/

theorem isDigit_digitChar : ∀ d, d < 10 → isDigit (digitChar d) = true := by decide
theorem digitChar_val : ∀ d, d < 10 → (digitChar d).toNat - 48 = d := by decide

theorem decimalRev_lt {n : Nat} (h : n < 10) : decimalRev n = [digitChar n] := by
  rw [decimalRev]; simp [h]

theorem decimalRev_ge {n : Nat} (h : ¬ n < 10) :
    decimalRev n = digitChar (n % 10) :: decimalRev (n / 10) := by
  rw [decimalRev]; simp [h]

theorem decimalRev_digits (n : Nat) : ∀ c ∈ decimalRev n, isDigit c = true := by
  induction n using Nat.strongRecOn with
  | _ n ih =>
    by_cases h : n < 10
    · rw [decimalRev_lt h]
      intro c hc
      simp only [List.mem_singleton] at hc
      subst hc
      exact isDigit_digitChar n h
    · rw [decimalRev_ge h]
      intro c hc
      simp only [List.mem_cons] at hc
      rcases hc with hc | hc
      · subst hc; exact isDigit_digitChar _ (Nat.mod_lt _ (by omega))
      · exact ih (n / 10) (by omega) c hc

theorem decimalRev_ne_nil (n : Nat) : decimalRev n ≠ [] := by
  by_cases h : n < 10
  · rw [decimalRev_lt h]; simp
  · rw [decimalRev_ge h]; simp

theorem decimalRev_length_le (k : Nat) : ∀ n, n < 10 ^ (k + 1) → (decimalRev n).length ≤ k + 1 := by
  induction k with
  | zero =>
    intro n hn
    rw [decimalRev_lt (by simpa using hn)]
    simp
  | succ k ih =>
    intro n hn
    by_cases h : n < 10
    · rw [decimalRev_lt h]; simp
    · rw [decimalRev_ge h, List.length_cons]
      have : n / 10 < 10 ^ (k + 1) := by
        apply Nat.div_lt_of_lt_mul
        rw [Nat.pow_succ] at hn
        omega
      have := ih (n / 10) this
      omega

/-- value of the digits read least significant first -/
theorem foldr_decimalRev (n : Nat) :
    (decimalRev n).foldr (fun c acc => acc * 10 + (c.toNat - 48)) 0 = n := by
  induction n using Nat.strongRecOn with
  | _ n ih =>
    by_cases h : n < 10
    · rw [decimalRev_lt h]
      simp only [List.foldr_cons, List.foldr_nil]
      rw [digitChar_val n h]; omega
    · rw [decimalRev_ge h]
      simp only [List.foldr_cons]
      rw [ih (n / 10) (by omega), digitChar_val _ (Nat.mod_lt _ (by omega))]
      omega

theorem atoiNat_decimal (n : Nat) : atoiNat (decimal n) = n := by
  unfold atoiNat decimal
  rw [List.foldl_reverse]
  exact foldr_decimalRev n

theorem foldl_zeros (z : Nat) :
    (List.replicate z '0').foldl (fun acc c => acc * 10 + (c.toNat - 48)) 0 = 0 := by
  induction z with
  | zero => rfl
  | succ z ih =>
    rw [List.replicate_succ, List.foldl_cons]
    exact ih

theorem atoiNat_pad10 (n : Nat) : atoiNat (pad10 n) = n := by
  unfold pad10
  simp only []
  unfold atoiNat
  rw [List.foldl_append, foldl_zeros]
  exact atoiNat_decimal n

theorem pad10_digits (n : Nat) : ∀ c ∈ pad10 n, isDigit c = true := by
  intro c hc
  unfold pad10 at hc
  simp only [List.mem_append, List.mem_replicate] at hc
  rcases hc with hc | hc
  · rw [hc.2]; decide
  · unfold decimal at hc
    rw [List.mem_reverse] at hc
    exact decimalRev_digits n c hc

theorem pad10_ne_nil (n : Nat) : pad10 n ≠ [] := by
  unfold pad10
  simp only []
  intro h
  rw [List.append_eq_nil_iff] at h
  unfold decimal at h
  exact decimalRev_ne_nil n (List.reverse_eq_nil_iff.mp h.2)

theorem pad10_length {n : Nat} (h : n < 10 ^ 10) : (pad10 n).length = 10 := by
  unfold pad10
  simp only [List.length_append, List.length_replicate]
  have : (decimal n).length ≤ 10 := by
    unfold decimal
    rw [List.length_reverse]
    exact decimalRev_length_le 9 n h
  omega

/-! ### takeWhile / dropWhile on a run followed by a stopper -/

theorem takeWhile_run {α : Type} (p : α → Bool) (ds : List α) (x : α) (rest : List α)
    (hds : ∀ c ∈ ds, p c = true) (hx : p x = false) : (ds ++ x :: rest).takeWhile p = ds := by
  induction ds with
  | nil => simp [hx]
  | cons a t ih =>
    rw [List.cons_append, List.takeWhile_cons, if_pos (hds a (by simp)),
      ih (fun c hc => hds c (by simp [hc]))]

theorem dropWhile_run {α : Type} (p : α → Bool) (ds : List α) (x : α) (rest : List α)
    (hds : ∀ c ∈ ds, p c = true) (hx : p x = false) : (ds ++ x :: rest).dropWhile p = x :: rest := by
  induction ds with
  | nil => simp [hx]
  | cons a t ih =>
    rw [List.cons_append, List.dropWhile_cons, if_pos (hds a (by simp)),
      ih (fun c hc => hds c (by simp [hc]))]

/-! ### the regular expression on generated names -/

theorem matchHere_full (start stop : Nat) :
    matchHere (fullName start stop) = some ⟨pad10 stop, pad10 start, [], false⟩ := by
  unfold fullName matchHere kvSuffix
  have h1 := takeWhile_run isDigit (pad10 stop) '-' (pad10 start ++ ['.', 'k', 'v']) (pad10_digits stop) (by decide)
  have h2 := dropWhile_run isDigit (pad10 stop) '-' (pad10 start ++ ['.', 'k', 'v']) (pad10_digits stop) (by decide)
  have h3 := takeWhile_run isDigit (pad10 start) '.' ['k', 'v'] (pad10_digits start) (by decide)
  have h4 := dropWhile_run isDigit (pad10 start) '.' ['k', 'v'] (pad10_digits start) (by decide)
  simp only [List.append_assoc, List.cons_append, h1, h2, h3, h4, pad10_ne_nil, if_false]
  rfl

theorem matchHere_partial (start stop : Nat) :
    matchHere (partialName start stop) = some ⟨pad10 stop, pad10 start, [], true⟩ := by
  unfold partialName matchHere partialSuffix
  have h1 := takeWhile_run isDigit (pad10 stop) '-' (pad10 start ++ ['.', 'p', 'a', 'r', 't', 'i', 'a', 'l'])
    (pad10_digits stop) (by decide)
  have h2 := dropWhile_run isDigit (pad10 stop) '-' (pad10 start ++ ['.', 'p', 'a', 'r', 't', 'i', 'a', 'l'])
    (pad10_digits stop) (by decide)
  have h3 := takeWhile_run isDigit (pad10 start) '.' ['p', 'a', 'r', 't', 'i', 'a', 'l'] (pad10_digits start) (by decide)
  have h4 := dropWhile_run isDigit (pad10 start) '.' ['p', 'a', 'r', 't', 'i', 'a', 'l'] (pad10_digits start) (by decide)
  simp only [List.append_assoc, List.cons_append, h1, h2, h3, h4, pad10_ne_nil, if_false]
  rfl

theorem findMatch_of_matchHere {s : Name} {m : Match} (h : matchHere s = some m) : findMatch s = some m := by
  cases s with
  | nil => simp [matchHere] at h
  | cons c cs => simp only [findMatch, h]

theorem parse_snapshotName (isPartial : Bool) (start stop : Nat)
    (hs : start ≤ maxInt64) (he : stop ≤ maxInt64) :
    parseFileName (snapshotName isPartial start stop) = .ok ⟨start, stop, isPartial, false⟩ := by
  unfold parseFileName snapshotName
  cases isPartial
  · simp only [Bool.false_eq_true, if_false, findMatch_of_matchHere (matchHere_full start stop), atoiNat_pad10]
    rw [if_neg (by omega)]
    simp
  · simp only [if_true, findMatch_of_matchHere (matchHere_partial start stop), atoiNat_pad10]
    rw [if_neg (by omega)]
    simp

theorem snapshotName_split (isPartial : Bool) (start stop : Nat) :
    ∃ r, snapshotName isPartial start stop = pad10 stop ++ r := by
  unfold snapshotName fullName partialName
  cases isPartial
  · exact ⟨_, by simp only [Bool.false_eq_true, if_false, List.append_assoc]; rfl⟩
  · exact ⟨_, by simp only [if_true, List.append_assoc]; rfl⟩

/-! ### lexicographic order of equal-length digit strings = numeric order -/

theorem char_lt_iff (a b : Char) : a < b ↔ a.toNat < b.toNat := by
  rw [Char.lt_def]; exact UInt32.lt_iff_toNat_lt

theorem char_eq_of_toNat (a b : Char) (h : a.toNat = b.toNat) : a = b :=
  Char.ext (UInt32.toNat_inj.mp h)

theorem isDigit_bounds {c : Char} (h : isDigit c = true) : 48 ≤ c.toNat ∧ c.toNat ≤ 57 := by
  unfold isDigit at h
  simp only [Bool.and_eq_true, decide_eq_true_eq] at h
  have h1 := h.1
  have h2 := h.2
  rw [Char.le_def, UInt32.le_iff_toNat_le] at h1 h2
  exact ⟨h1, h2⟩

theorem foldl_atoi (cs : List Char) : ∀ acc : Nat,
    cs.foldl (fun acc c => acc * 10 + (c.toNat - 48)) acc = acc * 10 ^ cs.length + atoiNat cs := by
  induction cs with
  | nil => intro acc; simp [atoiNat]
  | cons c t ih =>
    intro acc
    unfold atoiNat
    rw [List.foldl_cons, List.foldl_cons, ih, ih (0 * 10 + (c.toNat - 48)), List.length_cons, Nat.pow_succ]
    generalize 10 ^ t.length = P
    generalize atoiNat t = V
    generalize c.toNat - 48 = D
    grind

theorem atoiNat_cons (c : Char) (cs : List Char) :
    atoiNat (c :: cs) = (c.toNat - 48) * 10 ^ cs.length + atoiNat cs := by
  unfold atoiNat
  rw [List.foldl_cons, foldl_atoi]
  simp [atoiNat]

theorem atoiNat_lt (cs : List Char) (h : ∀ c ∈ cs, isDigit c = true) : atoiNat cs < 10 ^ cs.length := by
  induction cs with
  | nil => simp [atoiNat]
  | cons c t ih =>
    rw [atoiNat_cons, List.length_cons, Nat.pow_succ]
    have hb := isDigit_bounds (h c (by simp))
    have := ih (fun x hx => h x (by simp [hx]))
    have hd : c.toNat - 48 ≤ 9 := by omega
    have : (c.toNat - 48) * 10 ^ t.length ≤ 9 * 10 ^ t.length := Nat.mul_le_mul_right _ hd
    omega

theorem nameLe_digits (x : List Char) : ∀ y : List Char, x.length = y.length →
    (∀ c ∈ x, isDigit c = true) → (∀ c ∈ y, isDigit c = true) →
    (nameLe x y = true ↔ atoiNat x ≤ atoiNat y) := by
  induction x with
  | nil =>
    intro y hl _ _
    cases y with
    | nil => simp [nameLe]
    | cons _ _ => simp at hl
  | cons a as ih =>
    intro y hl hx hy
    cases y with
    | nil => simp at hl
    | cons b bs =>
      simp only [List.length_cons, Nat.add_right_cancel_iff] at hl
      have ha := isDigit_bounds (hx a (by simp))
      have hb := isDigit_bounds (hy b (by simp))
      have hva := atoiNat_lt as (fun c hc => hx c (by simp [hc]))
      have hvb := atoiNat_lt bs (fun c hc => hy c (by simp [hc]))
      rw [atoiNat_cons, atoiNat_cons, hl]
      rw [hl] at hva
      generalize 10 ^ bs.length = P at *
      unfold nameLe
      by_cases h1 : a < b
      · simp only [h1, if_true, true_iff]
        rw [char_lt_iff] at h1
        have : (a.toNat - 48 + 1) * P ≤ (b.toNat - 48) * P := Nat.mul_le_mul_right _ (by omega)
        rw [Nat.add_mul] at this
        omega
      · by_cases h2 : b < a
        · simp only [h1, h2, if_true, if_false, Bool.false_eq_true, false_iff]
          rw [char_lt_iff] at h2
          have : (b.toNat - 48 + 1) * P ≤ (a.toNat - 48) * P := Nat.mul_le_mul_right _ (by omega)
          rw [Nat.add_mul] at this
          omega
        · simp only [h1, h2, if_false]
          rw [char_lt_iff] at h1 h2
          have hab : a.toNat = b.toNat := by omega
          rw [hab]
          rw [ih bs hl (fun c hc => hx c (by simp [hc])) (fun c hc => hy c (by simp [hc]))]
          omega

/-- `%010d` preserves the order of block numbers below 10^10 -/
theorem nameLe_pad10 {a b : Nat} (ha : a < 10 ^ 10) (hb : b < 10 ^ 10) :
    nameLe (pad10 a) (pad10 b) = true ↔ a ≤ b := by
  rw [nameLe_digits (pad10 a) (pad10 b) (by rw [pad10_length ha, pad10_length hb]) (pad10_digits a) (pad10_digits b),
    atoiNat_pad10, atoiNat_pad10]

/-! ### the order on names -/

theorem nameLe_refl (x : Name) : nameLe x x = true := by
  induction x with
  | nil => rfl
  | cons a t ih =>
    unfold nameLe
    have : ¬ a < a := by rw [char_lt_iff]; omega
    simp [this, ih]

theorem nameLe_total (x : Name) : ∀ y : Name, (nameLe x y || nameLe y x) = true := by
  induction x with
  | nil => intro y; simp [nameLe]
  | cons a t ih =>
    intro y
    cases y with
    | nil => simp [nameLe]
    | cons b bs =>
      unfold nameLe
      by_cases h1 : a < b
      · simp [h1]
      · by_cases h2 : b < a
        · simp [h1, h2]
        · simp only [h1, h2, if_false]
          exact ih bs

theorem nameLe_trans (x : Name) : ∀ y z : Name, nameLe x y = true → nameLe y z = true → nameLe x z = true := by
  induction x with
  | nil => intro y z _ _; simp [nameLe]
  | cons a t ih =>
    intro y z hxy hyz
    cases y with
    | nil => simp [nameLe] at hxy
    | cons b bs =>
      cases z with
      | nil => simp [nameLe] at hyz
      | cons c cs =>
        unfold nameLe at hxy hyz ⊢
        by_cases hab : a < b
        · by_cases hbc : b < c
          · have : a < c := by rw [char_lt_iff] at *; omega
            simp [this]
          · by_cases hcb : c < b
            · simp [hbc, hcb] at hyz
            · have hbc' : b = c := by
                apply char_eq_of_toNat; rw [char_lt_iff] at hbc hcb; omega
              subst hbc'
              simp [hab]
        · by_cases hba : b < a
          · simp [hab, hba] at hxy
          · have hab' : a = b := by
              apply char_eq_of_toNat; rw [char_lt_iff] at hab hba; omega
            subst hab'
            simp only [hab, if_false] at hxy
            by_cases hac : a < c
            · simp [hac]
            · by_cases hca : c < a
              · simp [hac, hca] at hyz
              · simp only [hac, hca, if_false] at hyz ⊢
                exact ih bs cs hxy hyz

/-- comparing two names that start with equal-length blocks: the blocks are ordered the same way -/
theorem nameLe_prefix (x : List Char) : ∀ (y r1 r2 : List Char), x.length = y.length →
    nameLe (x ++ r1) (y ++ r2) = true → nameLe x y = true := by
  induction x with
  | nil => intro y r1 r2 _ _; simp [nameLe]
  | cons a t ih =>
    intro y r1 r2 hl h
    cases y with
    | nil => simp at hl
    | cons b bs =>
      simp only [List.length_cons, Nat.add_right_cancel_iff] at hl
      simp only [List.cons_append] at h
      unfold nameLe at h ⊢
      by_cases h1 : a < b
      · simp [h1]
      · by_cases h2 : b < a
        · simp [h1, h2] at h
        · simp only [h1, h2, if_false] at h ⊢
          exact ih bs r1 r2 hl h

/-! ### the listing walk -/

theorem walk_ok_of_no_panic (stops : Bool) (below : Nat) (names : List Name) :
    ∀ acc : List FileInfo, (∀ n ∈ names, parseFileName n ≠ .panic) →
    ∃ l, walk stops below names acc = .ok l ∧ ∀ x ∈ acc, x ∈ l := by
  induction names with
  | nil => intro acc _; exact ⟨acc, rfl, fun x hx => hx⟩
  | cons n rest ih =>
    intro acc hnp
    have hrest : ∀ m ∈ rest, parseFileName m ≠ .panic := fun m hm => hnp m (by simp [hm])
    unfold walk
    cases hp : parseFileName n with
    | noMatch => exact ih acc hrest
    | panic => exact absurd hp (hnp n (by simp))
    | ok fi =>
      simp only []
      by_cases ht : fi.withTraceID = true
      · simp only [ht, if_true]; exact ih acc hrest
      · simp only [ht, if_false]
        by_cases hb : fi.start ≥ below
        · simp only [hb, if_true]
          cases stops
          · simp only [Bool.false_eq_true, if_false]; exact ih acc hrest
          · simp only [if_true]; exact ⟨acc, rfl, fun x hx => hx⟩
        · simp only [hb, if_false]
          obtain ⟨l, hl, hsub⟩ := ih (acc ++ [fi]) hrest
          exact ⟨l, hl, fun x hx => hsub x (by simp [hx])⟩

/-- The walk returns `g`'s file info provided every file that sorts before `g` and is not skipped starts
below `below` (this is what the early stop needs). -/
theorem walk_finds (stops : Bool) (below : Nat) (g : Name) (gfi : FileInfo) (names : List Name) :
    ∀ acc : List FileInfo,
    names.Pairwise (fun a b => nameLe a b = true) →
    g ∈ names →
    (∀ n ∈ names, parseFileName n ≠ .panic) →
    parseFileName g = .ok gfi → gfi.withTraceID = false →
    (∀ n ∈ names, ∀ fi, parseFileName n = .ok fi → fi.withTraceID = false → nameLe n g = true → fi.start < below) →
    ∃ l, walk stops below names acc = .ok l ∧ gfi ∈ l := by
  induction names with
  | nil => intro acc _ hg; simp at hg
  | cons n rest ih =>
    intro acc hpw hg hnp hpg htg hK
    rw [List.pairwise_cons] at hpw
    have hrest : ∀ m ∈ rest, parseFileName m ≠ .panic := fun m hm => hnp m (by simp [hm])
    have hKrest : ∀ m ∈ rest, ∀ fi, parseFileName m = .ok fi → fi.withTraceID = false → nameLe m g = true →
        fi.start < below := fun m hm => hK m (by simp [hm])
    by_cases hng : n = g
    · subst hng
      have hstart := hK n (by simp) gfi hpg htg (nameLe_refl n)
      unfold walk
      simp only [hpg, htg, Bool.false_eq_true, if_false]
      have hnb : ¬ gfi.start ≥ below := by omega
      rw [if_neg hnb]
      obtain ⟨l, hl, hsub⟩ := walk_ok_of_no_panic stops below rest (acc ++ [gfi]) hrest
      exact ⟨l, hl, hsub gfi (by simp)⟩
    · have hg' : g ∈ rest := by
        simp only [List.mem_cons] at hg
        rcases hg with hg | hg
        · exact absurd hg.symm hng
        · exact hg
      have hle : nameLe n g = true := hpw.1 g hg'
      unfold walk
      cases hp : parseFileName n with
      | noMatch => exact ih acc hpw.2 hg' hrest hpg htg hKrest
      | panic => exact absurd hp (hnp n (by simp))
      | ok fi =>
        simp only []
        by_cases ht : fi.withTraceID = true
        · simp only [ht, if_true]; exact ih acc hpw.2 hg' hrest hpg htg hKrest
        · simp only [ht, if_false]
          have hstart := hK n (by simp) fi hp (by simpa using ht) hle
          have hnb : ¬ fi.start ≥ below := by omega
          rw [if_neg hnb]
          exact ih (acc ++ [fi]) hpw.2 hg' hrest hpg htg hKrest

theorem sortNames_pairwise (names : List Name) : (sortNames names).Pairwise (fun a b => nameLe a b = true) :=
  List.pairwise_mergeSort (fun a b c => nameLe_trans a b c) (fun a b => nameLe_total a b) names

theorem mem_sortNames {n : Name} {names : List Name} : n ∈ sortNames names ↔ n ∈ names :=
  (List.mergeSort_perm names nameLe).mem_iff

end SV.Filename

import Model.Stages
import Lemmas.Segmenter
/-!
Helper lemmas about `Model/Stages.lean`: the unit-state matrix (`getState` / `setState` / `allocSegments` /
`transition`), and for every operation of `Stages` a *frame* lemma: which cells it may change, and that it keeps
the matrix well formed.
-/
namespace SV.Stg
open SV

namespace Stages

/-! ### "only the matrix changed" -/

/-- everything but the unit-state matrix is the same -/
structure Rest (s s' : Stages) : Prop where
  stages     : s'.stages = s.stages
  offset     : s'.offset = s.offset
  globalSeg  : s'.globalSeg = s.globalSeg
  storeSeg   : s'.storeSeg = s.storeSeg
  mapSeg     : s'.mapSeg = s.mapSeg
  shadowable : s'.shadowable = s.shadowable
  outIsIndex : s'.outIsIndex = s.outIsIndex

theorem Rest.refl (s : Stages) : Rest s s := ⟨rfl, rfl, rfl, rfl, rfl, rfl, rfl⟩
theorem Rest.trans {a b c : Stages} (h1 : Rest a b) (h2 : Rest b c) : Rest a c :=
  ⟨h2.stages.trans h1.stages, h2.offset.trans h1.offset, h2.globalSeg.trans h1.globalSeg,
   h2.storeSeg.trans h1.storeSeg, h2.mapSeg.trans h1.mapSeg, h2.shadowable.trans h1.shadowable,
   h2.outIsIndex.trans h1.outIsIndex⟩

theorem Rest.nStages {s s' : Stages} (h : Rest s s') : s'.nStages = s.nStages := by
  unfold Stages.nStages; rw [h.stages]
theorem Rest.stageAt {s s' : Stages} (h : Rest s s') (i : Nat) : s'.stageAt i = s.stageAt i := by
  unfold Stages.stageAt; rw [h.stages]

/-- the matrix is well formed: every row has one cell per stage -/
def WF (s : Stages) : Prop := ∀ r ∈ s.states, r.length = s.nStages

/-! ### matrix access -/

theorem matGet_matSet_same (m : List Row) (i j : Nat) (v : UnitState) (hi : i < m.length)
    (hj : j < (m.getD i []).length) : matGet (matSet m i j v) i j = v := by
  unfold matGet matSet
  have h1 : (m.modify i fun r => r.set j v).getD i [] = (m.getD i []).set j v := by
    simp only [List.getD_eq_getElem?_getD, List.getElem?_modify]
    simp [List.getElem?_eq_getElem hi]
  rw [h1]
  simp only [List.getD_eq_getElem?_getD, List.getElem?_set]
  simp only [List.getD_eq_getElem?_getD] at hj
  simp [hj]

theorem matGet_matSet_other (m : List Row) (i j i' j' : Nat) (v : UnitState) (h : ¬(i' = i ∧ j' = j)) :
    matGet (matSet m i j v) i' j' = matGet m i' j' := by
  unfold matGet matSet
  by_cases hi : i' = i
  · subst hi
    have hj : j' ≠ j := fun e => h ⟨rfl, e⟩
    simp only [List.getD_eq_getElem?_getD, List.getElem?_modify]
    cases hm : m[i']? with
    | none => simp
    | some r =>
      simp only [Option.map_eq_map, Option.map_some, if_true, Option.getD_some]
      rw [List.getElem?_set]
      simp [Ne.symm hj]
  · simp only [List.getD_eq_getElem?_getD, List.getElem?_modify]
    have : ¬ i = i' := fun e => hi e.symm
    cases hm : m[i']? with
    | none => simp
    | some r => simp [this]

theorem matSet_length (m : List Row) (i j : Nat) (v : UnitState) : (matSet m i j v).length = m.length := by
  unfold matSet; simp

theorem matSet_rows (m : List Row) (i j : Nat) (v : UnitState) (n : Nat) (h : ∀ r ∈ m, r.length = n) :
    ∀ r ∈ matSet m i j v, r.length = n := by
  intro r hr
  unfold matSet at hr
  rw [List.mem_iff_getElem?] at hr
  obtain ⟨k, hk⟩ := hr
  rw [List.getElem?_modify] at hk
  cases hm : m[k]? with
  | none => rw [hm] at hk; simp at hk
  | some r0 =>
    rw [hm] at hk
    have hr0 : r0.length = n := h r0 (List.mem_of_getElem? hm)
    simp only [Option.map_eq_map, Option.map_some] at hk
    injection hk with hk
    subst hk
    split <;> simp [hr0]

/-! ### allocSegments -/

theorem allocSegments_rest (s : Stages) (seg : Nat) : Rest s (s.allocSegments seg) := by
  unfold allocSegments
  split
  · exact Rest.refl s
  · split
    · exact Rest.refl s
    · exact ⟨rfl, rfl, rfl, rfl, rfl, rfl, rfl⟩

theorem allocSegments_wf (s : Stages) (seg : Nat) (h : s.WF) : (s.allocSegments seg).WF := by
  unfold allocSegments
  split
  · exact h
  · split
    · exact h
    · intro r hr
      simp only [List.mem_append, List.mem_replicate] at hr
      rcases hr with hr | ⟨_, hr⟩
      · exact h r hr
      · subst hr; simp [Stages.nStages]

theorem allocSegments_length_le (s : Stages) (seg : Nat) : s.states.length ≤ (s.allocSegments seg).states.length := by
  unfold allocSegments
  split
  · exact Nat.le_refl _
  · split
    · exact Nat.le_refl _
    · simp

theorem allocSegments_covers (s : Stages) (seg : Nat) (h : s.offset ≤ seg) :
    seg - s.offset < (s.allocSegments seg).states.length := by
  unfold allocSegments
  have : ¬ seg < s.offset := by omega
  simp only [this, if_false]
  split
  · assumption
  · simp; omega

/-- rows that exist keep their content -/
theorem allocSegments_matGet (s : Stages) (seg i j : Nat) (hi : i < s.states.length) :
    matGet (s.allocSegments seg).states i j = matGet s.states i j := by
  unfold allocSegments
  split
  · rfl
  · split
    · rfl
    · unfold matGet
      simp only [List.getD_eq_getElem?_getD]
      rw [List.getElem?_append_left hi]

/-- new rows are all Pending -/
theorem allocSegments_matGet_new (s : Stages) (seg i j : Nat) (hi : s.states.length ≤ i) :
    matGet (s.allocSegments seg).states i j = .pending := by
  unfold allocSegments
  split
  · unfold matGet; simp [List.getD_eq_getElem?_getD, List.getElem?_eq_none hi]
  · split
    · unfold matGet; simp [List.getD_eq_getElem?_getD, List.getElem?_eq_none hi]
    · unfold matGet
      simp only [List.getD_eq_getElem?_getD]
      rw [List.getElem?_append_right hi]
      rw [List.getElem?_replicate]
      split
      · simp only [Option.getD_some]
        rw [List.getElem?_replicate]
        split <;> rfl
      · rfl

/-- a cell that is not Pending is not affected by an allocation -/
theorem getState_alloc_of_ne_pending (s : Stages) (x seg stg : Nat) (h : s.getState seg stg ≠ .pending) :
    (s.allocSegments x).getState seg stg = s.getState seg stg := by
  have hr := allocSegments_rest s x
  have hle := allocSegments_length_le s x
  unfold getState at h ⊢
  rw [hr.offset, hr.stages, hr.stageAt]
  by_cases h1 : seg ≥ s.offset + s.states.length
  · simp [h1] at h
  · have h1' : ¬ seg ≥ s.offset + (s.allocSegments x).states.length := by omega
    simp only [h1, h1', if_false]
    split
    · rfl
    · rename_i h2
      have : seg - s.offset < s.states.length := by omega
      exact allocSegments_matGet s x _ _ this

/-- an allocation can only turn a Pending answer into a NoOp answer -/
theorem getState_alloc (s : Stages) (x seg stg : Nat) :
    (s.allocSegments x).getState seg stg = s.getState seg stg ∨
    (s.getState seg stg = .pending ∧ (s.allocSegments x).getState seg stg = .noOp) := by
  by_cases h : s.getState seg stg = .pending
  · have hr := allocSegments_rest s x
    by_cases h' : (s.allocSegments x).getState seg stg = .pending
    · left; rw [h, h']
    · right
      refine ⟨h, ?_⟩
      -- the new answer is not pending: it must be noOp
      have hu : s.getState seg stg = (if seg ≥ s.offset + s.states.length then .pending
          else if seg < s.offset ∨ (s.stages ≠ [] ∧ seg < (s.stageAt stg).seg.firstIndex) then .noOp
          else matGet s.states (seg - s.offset) stg) := rfl
      have hu' : (s.allocSegments x).getState seg stg = (if seg ≥ s.offset + (s.allocSegments x).states.length then .pending
          else if seg < s.offset ∨ (s.stages ≠ [] ∧ seg < (s.stageAt stg).seg.firstIndex) then .noOp
          else matGet (s.allocSegments x).states (seg - s.offset) stg) := by
        unfold getState; rw [hr.offset, hr.stages, hr.stageAt]
      rw [hu'] at h' ⊢
      rw [hu] at h
      by_cases h1 : seg ≥ s.offset + (s.allocSegments x).states.length
      · rw [if_pos h1] at h'; exact absurd rfl h'
      · rw [if_neg h1] at h' ⊢
        by_cases h2 : seg < s.offset ∨ (s.stages ≠ [] ∧ seg < (s.stageAt stg).seg.firstIndex)
        · rw [if_pos h2]
        · rw [if_neg h2] at h' ⊢
          exfalso
          by_cases h3 : seg ≥ s.offset + s.states.length
          · exact h' (allocSegments_matGet_new s x _ _ (by omega))
          · rw [if_neg h3, if_neg h2] at h
            rw [allocSegments_matGet s x _ _ (by omega)] at h'
            exact h' h
  · left; exact getState_alloc_of_ne_pending s x seg stg h

/-! ### setState -/

theorem setState_rest {s s' : Stages} {seg stg : Nat} {v : UnitState} (h : s.setState seg stg v = .ok s') : Rest s s' := by
  unfold setState at h
  split at h
  · cases h
  · injection h with h; subst h; exact ⟨rfl, rfl, rfl, rfl, rfl, rfl, rfl⟩

theorem setState_wf {s s' : Stages} {seg stg : Nat} {v : UnitState} (h : s.setState seg stg v = .ok s') (hw : s.WF) :
    s'.WF := by
  unfold setState at h
  split at h
  · cases h
  · injection h with h; subst h
    exact matSet_rows _ _ _ _ _ hw

theorem setState_ok_iff (s : Stages) (seg stg : Nat) (v : UnitState) :
    (∃ s', s.setState seg stg v = .ok s') ↔ (s.offset ≤ seg ∧ seg - s.offset < s.states.length ∧ stg < s.nStages) := by
  unfold setState
  constructor
  · intro ⟨s', h⟩
    split at h
    · cases h
    · rename_i hc; omega
  · intro ⟨h1, h2, h3⟩
    have : ¬ (seg < s.offset ∨ seg - s.offset ≥ s.states.length ∨ stg ≥ s.nStages) := by omega
    simp [this]

theorem setState_length {s s' : Stages} {seg stg : Nat} {v : UnitState} (h : s.setState seg stg v = .ok s') :
    s'.states.length = s.states.length := by
  unfold setState at h
  split at h
  · cases h
  · injection h with h; subst h; exact matSet_length _ _ _ _

theorem getState_setState_other {s s' : Stages} {seg stg : Nat} {v : UnitState} (h : s.setState seg stg v = .ok s')
    (seg' stg' : Nat) (hne : ¬(seg' = seg ∧ stg' = stg)) : s'.getState seg' stg' = s.getState seg' stg' := by
  have hr := setState_rest h
  have hl := setState_length h
  unfold getState
  rw [hr.offset, hr.stages, hr.stageAt, hl]
  split
  · rfl
  · split
    · rfl
    · rename_i h1 h2
      unfold setState at h
      split at h
      · cases h
      · rename_i hc
        injection h with h; subst h
        apply matGet_matSet_other
        intro ⟨e1, e2⟩
        apply hne
        refine ⟨?_, e2⟩
        omega

/-- the cell written reads back the value, unless it lies below the stage's first segment (then NoOp) -/
theorem getState_setState_same {s s' : Stages} {seg stg : Nat} {v : UnitState} (h : s.setState seg stg v = .ok s')
    (hw : s.WF) :
    s'.getState seg stg = if s.stages ≠ [] ∧ seg < (s.stageAt stg).seg.firstIndex then .noOp else v := by
  have hr := setState_rest h
  have hl := setState_length h
  have hok := (setState_ok_iff s seg stg v).1 ⟨s', h⟩
  have hu : s'.getState seg stg = (if seg ≥ s.offset + s.states.length then .pending
      else if seg < s.offset ∨ (s.stages ≠ [] ∧ seg < (s.stageAt stg).seg.firstIndex) then .noOp
      else matGet s'.states (seg - s.offset) stg) := by
    unfold getState; rw [hr.offset, hr.stages, hr.stageAt, hl]
  rw [hu]
  have h1 : ¬ seg ≥ s.offset + s.states.length := by omega
  rw [if_neg h1]
  by_cases h2 : s.stages ≠ [] ∧ seg < (s.stageAt stg).seg.firstIndex
  · rw [if_pos (Or.inr h2), if_pos h2]
  · have h2' : ¬ (seg < s.offset ∨ (s.stages ≠ [] ∧ seg < (s.stageAt stg).seg.firstIndex)) := by
      intro hc; rcases hc with hc | hc
      · omega
      · exact h2 hc
    rw [if_neg h2', if_neg h2]
    unfold setState at h
    split at h
    · cases h
    · injection h with h; subst h
      show matGet (matSet s.states (seg - s.offset) stg v) (seg - s.offset) stg = v
      apply matGet_matSet_same _ _ _ _ hok.2.1
      have hrow : (s.states.getD (seg - s.offset) []) ∈ s.states := by
        rw [List.getD_eq_getElem?_getD, List.getElem?_eq_getElem hok.2.1]
        exact List.getElem_mem _
      rw [hw _ hrow]; exact hok.2.2

/-! ### transition -/

theorem transition_ok {s s' : Stages} {u : WorkUnit} {to : UnitState} {al : List UnitState}
    (h : s.transition u to al = .ok s') :
    (s.allocSegments u.seg).getState u.seg u.stage ∈ al ∧ (s.allocSegments u.seg).setState u.seg u.stage to = .ok s' := by
  unfold transition at h
  simp only at h
  split at h
  · rename_i hc
    exact ⟨by simpa using hc, h⟩
  · cases h

theorem transition_rest {s s' : Stages} {u : WorkUnit} {to : UnitState} {al : List UnitState}
    (h : s.transition u to al = .ok s') : Rest s s' :=
  (allocSegments_rest s u.seg).trans (setState_rest (transition_ok h).2)

theorem transition_wf {s s' : Stages} {u : WorkUnit} {to : UnitState} {al : List UnitState}
    (h : s.transition u to al = .ok s') (hw : s.WF) : s'.WF :=
  setState_wf (transition_ok h).2 (allocSegments_wf s u.seg hw)

/-- a transition does not touch any other cell that is not Pending -/
theorem transition_frame {s s' : Stages} {u : WorkUnit} {to : UnitState} {al : List UnitState}
    (h : s.transition u to al = .ok s') (seg stg : Nat) (hne : ¬(seg = u.seg ∧ stg = u.stage))
    (hp : s.getState seg stg ≠ .pending) : s'.getState seg stg = s.getState seg stg := by
  rw [getState_setState_other (transition_ok h).2 seg stg hne]
  exact getState_alloc_of_ne_pending s u.seg seg stg hp

/-- … and a Pending one can only become NoOp -/
theorem transition_frame' {s s' : Stages} {u : WorkUnit} {to : UnitState} {al : List UnitState}
    (h : s.transition u to al = .ok s') (seg stg : Nat) (hne : ¬(seg = u.seg ∧ stg = u.stage)) :
    s'.getState seg stg = s.getState seg stg ∨ (s.getState seg stg = .pending ∧ s'.getState seg stg = .noOp) := by
  rw [getState_setState_other (transition_ok h).2 seg stg hne]
  exact getState_alloc s u.seg seg stg

/-- the target cell: it was in an allowed state and now holds `to` (or still reads NoOp below the stage's first
segment) -/
theorem transition_target {s s' : Stages} {u : WorkUnit} {to : UnitState} {al : List UnitState}
    (h : s.transition u to al = .ok s') (hw : s.WF) :
    s'.getState u.seg u.stage = to ∨ (s'.getState u.seg u.stage = .noOp ∧ .noOp ∈ al) := by
  have h2 := (transition_ok h).2
  have h1 := (transition_ok h).1
  have hr := allocSegments_rest s u.seg
  rw [getState_setState_same h2 (allocSegments_wf s u.seg hw)]
  split
  · rename_i hc
    right
    refine ⟨rfl, ?_⟩
    -- below the first segment the allocated cell reads NoOp
    have hok := (setState_ok_iff _ _ _ _).1 ⟨s', h2⟩
    have : (s.allocSegments u.seg).getState u.seg u.stage = .noOp := by
      unfold getState
      have h1' : ¬ u.seg ≥ (s.allocSegments u.seg).offset + (s.allocSegments u.seg).states.length := by omega
      simp only [h1', if_false]
      simp [hc]
    rw [this] at h1; exact h1
  · left; rfl

/-- when the transition succeeds from a state that is not NoOp-allowed, the target really holds `to` -/
theorem transition_target_eq {s s' : Stages} {u : WorkUnit} {to : UnitState} {al : List UnitState}
    (h : s.transition u to al = .ok s') (hw : s.WF) (hno : .noOp ∉ al) : s'.getState u.seg u.stage = to := by
  rcases transition_target h hw with h1 | ⟨_, h2⟩
  · exact h1
  · exact absurd h2 hno

/-- a transition succeeds when the (allocated) target is in an allowed state and the unit is inside the grid -/
theorem transition_succeeds (s : Stages) (u : WorkUnit) (to : UnitState) (al : List UnitState)
    (hseg : s.offset ≤ u.seg) (hstg : u.stage < s.nStages)
    (hal : (s.allocSegments u.seg).getState u.seg u.stage ∈ al) : ∃ s', s.transition u to al = .ok s' := by
  unfold transition
  simp only
  have : al.contains ((s.allocSegments u.seg).getState u.seg u.stage) = true := by simpa using hal
  simp only [this, if_true]
  apply (setState_ok_iff _ _ _ _).2
  have hr := allocSegments_rest s u.seg
  refine ⟨by rw [hr.offset]; exact hseg, ?_, by rw [hr.nStages]; exact hstg⟩
  rw [hr.offset]; exact allocSegments_covers s u.seg hseg

end Stages
end SV.Stg

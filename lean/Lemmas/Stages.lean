import Model.Stages
import Lemmas.Segmenter
/-!
Helper lemmas about `Model/Stages.lean`: the unit-state matrix (`getState` / `setState` / `allocSegments` /
`transition`), and for every operation of `Stages` a *frame* lemma: which cells it may change, and that it keeps
the matrix well formed.
-/
namespace SV.Stg
open SV

namespace Stages

/-! ### "only the matrix changed" -/

/-- everything but the unit-state matrix is the same -/
structure Rest (s s' : Stages) : Prop where
  stages     : s'.stages = s.stages
  offset     : s'.offset = s.offset
  globalSeg  : s'.globalSeg = s.globalSeg
  storeSeg   : s'.storeSeg = s.storeSeg
  mapSeg     : s'.mapSeg = s.mapSeg
  shadowable : s'.shadowable = s.shadowable
  outIsIndex : s'.outIsIndex = s.outIsIndex

theorem Rest.refl (s : Stages) : Rest s s := ⟨rfl, rfl, rfl, rfl, rfl, rfl, rfl⟩
theorem Rest.trans {a b c : Stages} (h1 : Rest a b) (h2 : Rest b c) : Rest a c :=
  ⟨h2.stages.trans h1.stages, h2.offset.trans h1.offset, h2.globalSeg.trans h1.globalSeg,
   h2.storeSeg.trans h1.storeSeg, h2.mapSeg.trans h1.mapSeg, h2.shadowable.trans h1.shadowable,
   h2.outIsIndex.trans h1.outIsIndex⟩

theorem Rest.nStages {s s' : Stages} (h : Rest s s') : s'.nStages = s.nStages := by
  unfold Stages.nStages; rw [h.stages]
theorem Rest.stageAt {s s' : Stages} (h : Rest s s') (i : Nat) : s'.stageAt i = s.stageAt i := by
  unfold Stages.stageAt; rw [h.stages]

/-- the matrix is well formed: every row has one cell per stage -/
def WF (s : Stages) : Prop := ∀ r ∈ s.states, r.length = s.nStages

/-! ### matrix access -/

theorem matGet_matSet_same (m : List Row) (i j : Nat) (v : UnitState) (hi : i < m.length)
    (hj : j < (m.getD i []).length) : matGet (matSet m i j v) i j = v := by
  unfold matGet matSet
  have h1 : (m.modify i fun r => r.set j v).getD i [] = (m.getD i []).set j v := by
    simp only [List.getD_eq_getElem?_getD, List.getElem?_modify]
    simp [List.getElem?_eq_getElem hi]
  rw [h1]
  simp only [List.getD_eq_getElem?_getD, List.getElem?_set]
  simp only [List.getD_eq_getElem?_getD] at hj
  simp [hj]

theorem matGet_matSet_other (m : List Row) (i j i' j' : Nat) (v : UnitState) (h : ¬(i' = i ∧ j' = j)) :
    matGet (matSet m i j v) i' j' = matGet m i' j' := by
  unfold matGet matSet
  by_cases hi : i' = i
  · subst hi
    have hj : j' ≠ j := fun e => h ⟨rfl, e⟩
    simp only [List.getD_eq_getElem?_getD, List.getElem?_modify]
    cases hm : m[i']? with
    | none => simp
    | some r =>
      simp only [Option.map_eq_map, Option.map_some, if_true, Option.getD_some]
      rw [List.getElem?_set]
      simp [Ne.symm hj]
  · simp only [List.getD_eq_getElem?_getD, List.getElem?_modify]
    have : ¬ i = i' := fun e => hi e.symm
    cases hm : m[i']? with
    | none => simp
    | some r => simp [this]

theorem matSet_length (m : List Row) (i j : Nat) (v : UnitState) : (matSet m i j v).length = m.length := by
  unfold matSet; simp

theorem matSet_rows (m : List Row) (i j : Nat) (v : UnitState) (n : Nat) (h : ∀ r ∈ m, r.length = n) :
    ∀ r ∈ matSet m i j v, r.length = n := by
  intro r hr
  unfold matSet at hr
  rw [List.mem_iff_getElem?] at hr
  obtain ⟨k, hk⟩ := hr
  rw [List.getElem?_modify] at hk
  cases hm : m[k]? with
  | none => rw [hm] at hk; simp at hk
  | some r0 =>
    rw [hm] at hk
    have hr0 : r0.length = n := h r0 (List.mem_of_getElem? hm)
    simp only [Option.map_eq_map, Option.map_some] at hk
    injection hk with hk
    subst hk
    split <;> simp [hr0]

/-! ### allocSegments -/

theorem allocSegments_rest (s : Stages) (seg : Nat) : Rest s (s.allocSegments seg) := by
  unfold allocSegments
  split
  · exact Rest.refl s
  · split
    · exact Rest.refl s
    · exact ⟨rfl, rfl, rfl, rfl, rfl, rfl, rfl⟩

theorem allocSegments_wf (s : Stages) (seg : Nat) (h : s.WF) : (s.allocSegments seg).WF := by
  unfold allocSegments
  split
  · exact h
  · split
    · exact h
    · intro r hr
      simp only [List.mem_append, List.mem_replicate] at hr
      rcases hr with hr | ⟨_, hr⟩
      · exact h r hr
      · subst hr; simp [Stages.nStages]

theorem allocSegments_length_le (s : Stages) (seg : Nat) : s.states.length ≤ (s.allocSegments seg).states.length := by
  unfold allocSegments
  split
  · exact Nat.le_refl _
  · split
    · exact Nat.le_refl _
    · simp

theorem allocSegments_covers (s : Stages) (seg : Nat) (h : s.offset ≤ seg) :
    seg - s.offset < (s.allocSegments seg).states.length := by
  unfold allocSegments
  have : ¬ seg < s.offset := by omega
  simp only [this, if_false]
  split
  · assumption
  · simp; omega

/-- rows that exist keep their content -/
theorem allocSegments_matGet (s : Stages) (seg i j : Nat) (hi : i < s.states.length) :
    matGet (s.allocSegments seg).states i j = matGet s.states i j := by
  unfold allocSegments
  split
  · rfl
  · split
    · rfl
    · unfold matGet
      simp only [List.getD_eq_getElem?_getD]
      rw [List.getElem?_append_left hi]

/-- new rows are all Pending -/
theorem allocSegments_matGet_new (s : Stages) (seg i j : Nat) (hi : s.states.length ≤ i) :
    matGet (s.allocSegments seg).states i j = .pending := by
  unfold allocSegments
  split
  · unfold matGet; simp [List.getD_eq_getElem?_getD, List.getElem?_eq_none hi]
  · split
    · unfold matGet; simp [List.getD_eq_getElem?_getD, List.getElem?_eq_none hi]
    · unfold matGet
      simp only [List.getD_eq_getElem?_getD]
      rw [List.getElem?_append_right hi]
      rw [List.getElem?_replicate]
      split
      · simp only [Option.getD_some]
        rw [List.getElem?_replicate]
        split <;> rfl
      · rfl

/-- a cell that is not Pending is not affected by an allocation -/
theorem getState_alloc_of_ne_pending (s : Stages) (x seg stg : Nat) (h : s.getState seg stg ≠ .pending) :
    (s.allocSegments x).getState seg stg = s.getState seg stg := by
  have hr := allocSegments_rest s x
  have hle := allocSegments_length_le s x
  unfold getState at h ⊢
  rw [hr.offset, hr.stages, hr.stageAt]
  by_cases h1 : seg ≥ s.offset + s.states.length
  · simp [h1] at h
  · have h1' : ¬ seg ≥ s.offset + (s.allocSegments x).states.length := by omega
    simp only [h1, h1', if_false]
    split
    · rfl
    · rename_i h2
      have : seg - s.offset < s.states.length := by omega
      exact allocSegments_matGet s x _ _ this

/-- an allocation can only turn a Pending answer into a NoOp answer -/
theorem getState_alloc (s : Stages) (x seg stg : Nat) :
    (s.allocSegments x).getState seg stg = s.getState seg stg ∨
    (s.getState seg stg = .pending ∧ (s.allocSegments x).getState seg stg = .noOp) := by
  by_cases h : s.getState seg stg = .pending
  · have hr := allocSegments_rest s x
    by_cases h' : (s.allocSegments x).getState seg stg = .pending
    · left; rw [h, h']
    · right
      refine ⟨h, ?_⟩
      -- the new answer is not pending: it must be noOp
      have hu : s.getState seg stg = (if seg ≥ s.offset + s.states.length then .pending
          else if seg < s.offset ∨ (s.stages ≠ [] ∧ seg < (s.stageAt stg).seg.firstIndex) then .noOp
          else matGet s.states (seg - s.offset) stg) := rfl
      have hu' : (s.allocSegments x).getState seg stg = (if seg ≥ s.offset + (s.allocSegments x).states.length then .pending
          else if seg < s.offset ∨ (s.stages ≠ [] ∧ seg < (s.stageAt stg).seg.firstIndex) then .noOp
          else matGet (s.allocSegments x).states (seg - s.offset) stg) := by
        unfold getState; rw [hr.offset, hr.stages, hr.stageAt]
      rw [hu'] at h' ⊢
      rw [hu] at h
      by_cases h1 : seg ≥ s.offset + (s.allocSegments x).states.length
      · rw [if_pos h1] at h'; exact absurd rfl h'
      · rw [if_neg h1] at h' ⊢
        by_cases h2 : seg < s.offset ∨ (s.stages ≠ [] ∧ seg < (s.stageAt stg).seg.firstIndex)
        · rw [if_pos h2]
        · rw [if_neg h2] at h' ⊢
          exfalso
          by_cases h3 : seg ≥ s.offset + s.states.length
          · exact h' (allocSegments_matGet_new s x _ _ (by omega))
          · rw [if_neg h3, if_neg h2] at h
            rw [allocSegments_matGet s x _ _ (by omega)] at h'
            exact h' h
  · left; exact getState_alloc_of_ne_pending s x seg stg h

/-! ### setState -/

theorem setState_rest {s s' : Stages} {seg stg : Nat} {v : UnitState} (h : s.setState seg stg v = .ok s') : Rest s s' := by
  unfold setState at h
  split at h
  · cases h
  · injection h with h; subst h; exact ⟨rfl, rfl, rfl, rfl, rfl, rfl, rfl⟩

theorem setState_wf {s s' : Stages} {seg stg : Nat} {v : UnitState} (h : s.setState seg stg v = .ok s') (hw : s.WF) :
    s'.WF := by
  unfold setState at h
  split at h
  · cases h
  · injection h with h; subst h
    exact matSet_rows _ _ _ _ _ hw

theorem setState_ok_iff (s : Stages) (seg stg : Nat) (v : UnitState) :
    (∃ s', s.setState seg stg v = .ok s') ↔ (s.offset ≤ seg ∧ seg - s.offset < s.states.length ∧ stg < s.nStages) := by
  unfold setState
  constructor
  · intro ⟨s', h⟩
    split at h
    · cases h
    · rename_i hc; omega
  · intro ⟨h1, h2, h3⟩
    have : ¬ (seg < s.offset ∨ seg - s.offset ≥ s.states.length ∨ stg ≥ s.nStages) := by omega
    simp [this]

theorem setState_length {s s' : Stages} {seg stg : Nat} {v : UnitState} (h : s.setState seg stg v = .ok s') :
    s'.states.length = s.states.length := by
  unfold setState at h
  split at h
  · cases h
  · injection h with h; subst h; exact matSet_length _ _ _ _

theorem getState_setState_other {s s' : Stages} {seg stg : Nat} {v : UnitState} (h : s.setState seg stg v = .ok s')
    (seg' stg' : Nat) (hne : ¬(seg' = seg ∧ stg' = stg)) : s'.getState seg' stg' = s.getState seg' stg' := by
  have hr := setState_rest h
  have hl := setState_length h
  unfold getState
  rw [hr.offset, hr.stages, hr.stageAt, hl]
  split
  · rfl
  · split
    · rfl
    · rename_i h1 h2
      unfold setState at h
      split at h
      · cases h
      · rename_i hc
        injection h with h; subst h
        apply matGet_matSet_other
        intro ⟨e1, e2⟩
        apply hne
        refine ⟨?_, e2⟩
        omega

/-- the cell written reads back the value, unless it lies below the stage's first segment (then NoOp) -/
theorem getState_setState_same {s s' : Stages} {seg stg : Nat} {v : UnitState} (h : s.setState seg stg v = .ok s')
    (hw : s.WF) :
    s'.getState seg stg = if s.stages ≠ [] ∧ seg < (s.stageAt stg).seg.firstIndex then .noOp else v := by
  have hr := setState_rest h
  have hl := setState_length h
  have hok := (setState_ok_iff s seg stg v).1 ⟨s', h⟩
  have hu : s'.getState seg stg = (if seg ≥ s.offset + s.states.length then .pending
      else if seg < s.offset ∨ (s.stages ≠ [] ∧ seg < (s.stageAt stg).seg.firstIndex) then .noOp
      else matGet s'.states (seg - s.offset) stg) := by
    unfold getState; rw [hr.offset, hr.stages, hr.stageAt, hl]
  rw [hu]
  have h1 : ¬ seg ≥ s.offset + s.states.length := by omega
  rw [if_neg h1]
  by_cases h2 : s.stages ≠ [] ∧ seg < (s.stageAt stg).seg.firstIndex
  · rw [if_pos (Or.inr h2), if_pos h2]
  · have h2' : ¬ (seg < s.offset ∨ (s.stages ≠ [] ∧ seg < (s.stageAt stg).seg.firstIndex)) := by
      intro hc; rcases hc with hc | hc
      · omega
      · exact h2 hc
    rw [if_neg h2', if_neg h2]
    unfold setState at h
    split at h
    · cases h
    · injection h with h; subst h
      show matGet (matSet s.states (seg - s.offset) stg v) (seg - s.offset) stg = v
      apply matGet_matSet_same _ _ _ _ hok.2.1
      have hrow : (s.states.getD (seg - s.offset) []) ∈ s.states := by
        rw [List.getD_eq_getElem?_getD, List.getElem?_eq_getElem hok.2.1]
        exact List.getElem_mem _
      rw [hw _ hrow]; exact hok.2.2

/-! ### transition -/

theorem transition_ok {s s' : Stages} {u : WorkUnit} {to : UnitState} {al : List UnitState}
    (h : s.transition u to al = .ok s') :
    (s.allocSegments u.seg).getState u.seg u.stage ∈ al ∧ (s.allocSegments u.seg).setState u.seg u.stage to = .ok s' := by
  unfold transition at h
  simp only at h
  split at h
  · rename_i hc
    exact ⟨by simpa using hc, h⟩
  · cases h

theorem transition_rest {s s' : Stages} {u : WorkUnit} {to : UnitState} {al : List UnitState}
    (h : s.transition u to al = .ok s') : Rest s s' :=
  (allocSegments_rest s u.seg).trans (setState_rest (transition_ok h).2)

theorem transition_wf {s s' : Stages} {u : WorkUnit} {to : UnitState} {al : List UnitState}
    (h : s.transition u to al = .ok s') (hw : s.WF) : s'.WF :=
  setState_wf (transition_ok h).2 (allocSegments_wf s u.seg hw)

/-- a transition does not touch any other cell that is not Pending -/
theorem transition_frame {s s' : Stages} {u : WorkUnit} {to : UnitState} {al : List UnitState}
    (h : s.transition u to al = .ok s') (seg stg : Nat) (hne : ¬(seg = u.seg ∧ stg = u.stage))
    (hp : s.getState seg stg ≠ .pending) : s'.getState seg stg = s.getState seg stg := by
  rw [getState_setState_other (transition_ok h).2 seg stg hne]
  exact getState_alloc_of_ne_pending s u.seg seg stg hp

/-- … and a Pending one can only become NoOp -/
theorem transition_frame' {s s' : Stages} {u : WorkUnit} {to : UnitState} {al : List UnitState}
    (h : s.transition u to al = .ok s') (seg stg : Nat) (hne : ¬(seg = u.seg ∧ stg = u.stage)) :
    s'.getState seg stg = s.getState seg stg ∨ (s.getState seg stg = .pending ∧ s'.getState seg stg = .noOp) := by
  rw [getState_setState_other (transition_ok h).2 seg stg hne]
  exact getState_alloc s u.seg seg stg

/-- the target cell: it was in an allowed state and now holds `to` (or still reads NoOp below the stage's first
segment) -/
theorem transition_target {s s' : Stages} {u : WorkUnit} {to : UnitState} {al : List UnitState}
    (h : s.transition u to al = .ok s') (hw : s.WF) :
    s'.getState u.seg u.stage = to ∨ (s'.getState u.seg u.stage = .noOp ∧ .noOp ∈ al) := by
  have h2 := (transition_ok h).2
  have h1 := (transition_ok h).1
  have hr := allocSegments_rest s u.seg
  rw [getState_setState_same h2 (allocSegments_wf s u.seg hw)]
  split
  · rename_i hc
    right
    refine ⟨rfl, ?_⟩
    -- below the first segment the allocated cell reads NoOp
    have hok := (setState_ok_iff _ _ _ _).1 ⟨s', h2⟩
    have : (s.allocSegments u.seg).getState u.seg u.stage = .noOp := by
      unfold getState
      have h1' : ¬ u.seg ≥ (s.allocSegments u.seg).offset + (s.allocSegments u.seg).states.length := by omega
      simp only [h1', if_false]
      simp [hc]
    rw [this] at h1; exact h1
  · left; rfl

/-- when the transition succeeds from a state that is not NoOp-allowed, the target really holds `to` -/
theorem transition_target_eq {s s' : Stages} {u : WorkUnit} {to : UnitState} {al : List UnitState}
    (h : s.transition u to al = .ok s') (hw : s.WF) (hno : .noOp ∉ al) : s'.getState u.seg u.stage = to := by
  rcases transition_target h hw with h1 | ⟨_, h2⟩
  · exact h1
  · exact absurd h2 hno

/-- a transition succeeds when the (allocated) target is in an allowed state and the unit is inside the grid -/
theorem transition_succeeds (s : Stages) (u : WorkUnit) (to : UnitState) (al : List UnitState)
    (hseg : s.offset ≤ u.seg) (hstg : u.stage < s.nStages)
    (hal : (s.allocSegments u.seg).getState u.seg u.stage ∈ al) : ∃ s', s.transition u to al = .ok s' := by
  unfold transition
  simp only
  have : al.contains ((s.allocSegments u.seg).getState u.seg u.stage) = true := by simpa using hal
  simp only [this, if_true]
  apply (setState_ok_iff _ _ _ _).2
  have hr := allocSegments_rest s u.seg
  refine ⟨by rw [hr.offset]; exact hseg, ?_, by rw [hr.nStages]; exact hstg⟩
  rw [hr.offset]; exact allocSegments_covers s u.seg hseg

/-! ### frame relation: which cells an operation may change -/

/-- `s'` is `s` with another matrix in which every cell outside `T` that was not Pending is unchanged -/
structure Step (T : Nat → Nat → Prop) (s s' : Stages) : Prop where
  rest  : Rest s s'
  wf    : s.WF → s'.WF
  frame : ∀ seg stg, ¬T seg stg → s.getState seg stg ≠ .pending → s'.getState seg stg = s.getState seg stg

/-- only Pending cells changed -/
abbrev PStep (s s' : Stages) : Prop := Step (fun _ _ => False) s s'

theorem Step.refl (T : Nat → Nat → Prop) (s : Stages) : Step T s s := ⟨Rest.refl s, id, fun _ _ _ _ => rfl⟩

theorem Step.trans {T : Nat → Nat → Prop} {a b c : Stages} (h1 : Step T a b) (h2 : Step T b c) : Step T a c := by
  refine ⟨h1.rest.trans h2.rest, fun h => h2.wf (h1.wf h), ?_⟩
  intro seg stg hT hp
  have e1 := h1.frame seg stg hT hp
  rw [h2.frame seg stg hT (by rw [e1]; exact hp), e1]

theorem Step.mono {T T' : Nat → Nat → Prop} {a b : Stages} (h : Step T a b) (hTT : ∀ x y, T x y → T' x y) : Step T' a b :=
  ⟨h.rest, h.wf, fun seg stg hT hp => h.frame seg stg (fun hc => hT (hTT _ _ hc)) hp⟩

theorem allocSegments_pstep (s : Stages) (x : Nat) : PStep s (s.allocSegments x) :=
  ⟨allocSegments_rest s x, allocSegments_wf s x, fun seg stg _ hp => getState_alloc_of_ne_pending s x seg stg hp⟩

/-- a transition is a step whose only non-Pending change is its target -/
theorem transition_step {s s' : Stages} {u : WorkUnit} {to : UnitState} {al : List UnitState}
    (h : s.transition u to al = .ok s') : Step (fun seg stg => seg = u.seg ∧ stg = u.stage) s s' :=
  ⟨transition_rest h, transition_wf h, fun seg stg hT hp => transition_frame h seg stg hT hp⟩

/-- a transition from Pending is a step that changes Pending cells only -/
theorem transition_pstep {s s' : Stages} {u : WorkUnit} {to : UnitState} {al : List UnitState}
    (h : s.transition u to al = .ok s') (hp : s.getState u.seg u.stage = .pending) : PStep s s' := by
  refine ⟨transition_rest h, transition_wf h, ?_⟩
  intro seg stg _ hne
  by_cases hc : seg = u.seg ∧ stg = u.stage
  · rw [hc.1, hc.2] at hne; exact absurd hp hne
  · exact transition_frame h seg stg hc hne

/-! ### markShadowedUnits (patched): only Pending cells change -/

theorem markShadowedLoop_pstep (fix : Patch) (hf : fix.shadow = true) (seg : Nat) :
    ∀ (k : Nat) (s : Stages) (sh : Bool) (s' : Stages) (sh' : Bool), s.WF →
      markShadowedLoop fix seg k s sh = .ok (s', sh') → PStep s s' := by
  intro k
  induction k with
  | zero =>
    intro s sh s' sh' _ h
    simp only [markShadowedLoop] at h
    injection h with h; injection h with h1 h2; subst h1
    exact Step.refl _ _
  | succ k ih =>
    intro s sh s' sh' hw h
    simp only [markShadowedLoop] at h
    split at h
    · injection h with h; injection h with h1 h2; subst h1; exact Step.refl _ _
    · split at h
      · rename_i hc
        -- the unit gets shadowed
        split at h
        · cases h
        · rename_i s1 hs1
          have hA : s.getState seg k = .pending ∨ s.getState seg k = .shadowed := by
            unfold shadowCond at hc
            simp only [hf, if_true, Bool.and_eq_true, Bool.or_eq_true, beq_iff_eq] at hc
            exact hc.1
          have step1 : PStep s s1 := by
            refine ⟨setState_rest hs1, fun _ => setState_wf hs1 hw, ?_⟩
            intro seg' stg' _ hp
            by_cases hcell : seg' = seg ∧ stg' = k
            · rw [hcell.1, hcell.2] at hp ⊢
              rcases hA with hA | hA
              · exact absurd hA hp
              · rw [getState_setState_same hs1 hw, hA]
                split
                · rename_i hb
                  -- below the stage's first segment the cell reads NoOp, not Shadowed
                  exfalso
                  have hok := (setState_ok_iff _ _ _ _).1 ⟨s1, hs1⟩
                  have : s.getState seg k = .noOp := by
                    unfold getState
                    have h1 : ¬ seg ≥ s.offset + s.states.length := by omega
                    rw [if_neg h1, if_pos (Or.inr hb)]
                  rw [this] at hA; cases hA
                · rfl
            · exact getState_setState_other hs1 seg' stg' hcell
          exact step1.trans (ih s1 true s' sh' (setState_wf hs1 hw) h)
      · exact ih s sh s' sh' hw h

theorem markShadowedUnits_pstep (fix : Patch) (hf : fix.shadow = true) (s : Stages) (seg : Nat) (s' : Stages) (sh : Bool)
    (hw : s.WF) (h : s.markShadowedUnits fix seg = .ok (s', sh)) : PStep s s' := by
  unfold markShadowedUnits at h
  split at h
  · injection h with h; injection h with h1 h2; subst h1; exact Step.refl _ _
  · exact (allocSegments_pstep s seg).trans
      (markShadowedLoop_pstep fix hf seg _ _ _ _ _ (allocSegments_wf s seg hw) h)

/-- `markShadowedUnits` leaves the row of its segment allocated when it reports a shadowed unit -/
theorem markShadowedLoop_length (fix : Patch) (seg : Nat) :
    ∀ (k : Nat) (s : Stages) (sh : Bool) (s' : Stages) (sh' : Bool),
      markShadowedLoop fix seg k s sh = .ok (s', sh') → s'.states.length = s.states.length ∧ (sh' = true → sh = true ∨ True) := by
  intro k
  induction k with
  | zero =>
    intro s sh s' sh' h
    simp only [markShadowedLoop] at h
    injection h with h; injection h with h1 h2; subst h1; exact ⟨rfl, fun _ => Or.inr trivial⟩
  | succ k ih =>
    intro s sh s' sh' h
    simp only [markShadowedLoop] at h
    split at h
    · injection h with h; injection h with h1 h2; subst h1; exact ⟨rfl, fun _ => Or.inr trivial⟩
    · split at h
      · split at h
        · cases h
        · rename_i s1 hs1
          have := ih s1 true s' sh' h
          exact ⟨by rw [this.1, setState_length hs1], fun _ => Or.inr trivial⟩
      · exact ⟨(ih s sh s' sh' h).1, fun _ => Or.inr trivial⟩

theorem markShadowedUnits_allocated (fix : Patch) (s : Stages) (seg : Nat) (s' : Stages) (sh : Bool) (ho : s.offset ≤ seg)
    (h : s.markShadowedUnits fix seg = .ok (s', sh)) (hsh : sh = true) : seg - s'.offset < s'.states.length := by
  unfold markShadowedUnits at h
  split at h
  · injection h with h; injection h with h1 h2; subst h2; cases hsh
  · have hl := (markShadowedLoop_length fix seg _ _ _ _ _ h).1
    have hr := allocSegments_rest s seg
    have hcov := allocSegments_covers s seg ho
    have hoff : s'.offset = s.offset := by
      -- the loop only sets states
      have : ∀ (k : Nat) (a : Stages) (b : Bool) (a' : Stages) (b' : Bool),
          markShadowedLoop fix seg k a b = .ok (a', b') → a'.offset = a.offset := by
        intro k
        induction k with
        | zero => intro a b a' b' h; simp only [markShadowedLoop] at h; injection h with h; injection h with h1 _; subst h1; rfl
        | succ k ih =>
          intro a b a' b' h
          simp only [markShadowedLoop] at h
          split at h
          · injection h with h; injection h with h1 _; subst h1; rfl
          · split at h
            · split at h
              · cases h
              · rename_i a1 ha1; rw [ih a1 true a' b' h, (setState_rest ha1).offset]
            · exact ih a b a' b' h
      rw [this _ _ _ _ _ h, hr.offset]
    rw [hoff, hl]; exact hcov

/-! ### NextJob -/

theorem firstPending_some (s : Stages) (seg : Nat) : ∀ (fuel i j : Nat), firstPending s seg fuel i = some j →
    s.getState seg j = .pending ∧ i ≤ j ∧ j < i + fuel := by
  intro fuel
  induction fuel with
  | zero => intro i j h; simp [firstPending] at h
  | succ n ih =>
    intro i j h
    simp only [firstPending] at h
    split at h
    · injection h with h; subst h; rename_i hp; exact ⟨hp, Nat.le_refl _, by omega⟩
    · have := ih (i + 1) j h; exact ⟨this.1, by omega, by omega⟩

/-- no unit below `j` is Pending when `firstPending` answers `j` -/
theorem firstPending_min (s : Stages) (seg : Nat) : ∀ (fuel i j : Nat), firstPending s seg fuel i = some j →
    ∀ x, i ≤ x → x < j → s.getState seg x ≠ .pending := by
  intro fuel
  induction fuel with
  | zero => intro i j h; simp [firstPending] at h
  | succ n ih =>
    intro i j h x h1 h2
    simp only [firstPending] at h
    split at h
    · injection h with h; omega
    · rename_i hp
      by_cases hx : x = i
      · subst hx; exact hp
      · exact ih (i + 1) j h x (by omega) h2

/-- what `NextJob` knows about the unit it hands out; `s0` is the matrix at the moment of the choice -/
def Chosen (fix : Patch) (s s' : Stages) (u : WorkUnit) (r : Range) : Prop :=
  ∃ (s0 : Stages) (k : Nat), PStep s s0 ∧ s0.WF ∧ k < s0.nStages ∧
    s0.getState u.seg k = .pending ∧ dependenciesCompleted fix s0 ⟨u.seg, k⟩ = true ∧
    (s0.stageAt k).seg.firstIndex ≤ u.seg ∧ u.seg ≤ (s0.stageAt k).seg.lastIndex ∧
    (s0.stageAt k).seg.range? u.seg = some r ∧ r.stop - r.start ≠ 0 ∧
    (u.stage = k ∨ (k + 1 = s0.nStages ∧ firstPending s0 u.seg s0.nStages 0 = some u.stage ∧
      u.seg < s0.offset + s0.states.length)) ∧
    s0.getState u.seg u.stage = .pending ∧ u.stage < s0.nStages ∧ s0.markSegmentScheduled u = .ok s'

theorem nextJobStages_spec (fix : Patch) (seg : Nat) (sh : Bool) :
    ∀ (k : Nat) (s : Stages) (res : StageStep), s.WF → k ≤ s.nStages →
      (sh = true → seg < s.offset + s.states.length) → nextJobStages fix seg sh k s = .ok res →
      match res with
      | .next s' => PStep s s'
      | .found s' u r => u.seg = seg ∧ Chosen fix s s' u r := by
  intro k
  induction k with
  | zero =>
    intro s res _ _ _ h
    simp only [nextJobStages] at h
    injection h with h; subst h
    exact Step.refl _ _
  | succ k ih =>
    intro s res hw hk hal h
    simp only [nextJobStages] at h
    split at h
    · exact ih s res hw (by omega) hal h
    · rename_i hpend
      have hpend : s.getState seg k = .pending := by simpa using hpend
      split at h
      · exact ih s res hw (by omega) hal h
      · rename_i hfirst
        split at h
        · injection h with h; subst h; exact Step.refl _ _
        · rename_i hlast
          split at h
          · exact ih s res hw (by omega) hal h
          · rename_i hdeps
            have hdeps : dependenciesCompleted fix s ⟨seg, k⟩ = true := by simpa using hdeps
            split at h
            · cases h
            · rename_i r hr
              split at h
              · -- empty range: the unit is marked Completed and the loop goes on
                split at h
                · cases h
                · rename_i s1 hs1
                  have st1 : PStep s s1 := transition_pstep hs1 hpend
                  have hal1 : sh = true → seg < s1.offset + s1.states.length := by
                    intro hsh
                    have := hal hsh
                    rw [st1.rest.offset]
                    have hlen : s.states.length ≤ s1.states.length := by
                      rw [setState_length (transition_ok hs1).2]; exact allocSegments_length_le s seg
                    omega
                  have := ih s1 res (st1.wf hw) (by rw [st1.rest.nStages]; omega) hal1 h
                  cases res with
                  | next s' => exact st1.trans this
                  | found s' u r' =>
                    refine ⟨this.1, ?_⟩
                    obtain ⟨s0, k0, hp0, rest⟩ := this.2
                    exact ⟨s0, k0, st1.trans hp0, rest⟩
              · rename_i hnonempty
                have base : ∀ (i : Nat) (s' : Stages), (i = k ∨ (k + 1 = s.nStages ∧ firstPending s seg s.nStages 0 = some i ∧
                      seg < s.offset + s.states.length)) →
                    s.getState seg i = .pending → i < s.nStages → s.markSegmentScheduled ⟨seg, i⟩ = .ok s' →
                    Chosen fix s s' ⟨seg, i⟩ r :=
                  fun i s' hi hpi hlt hs' =>
                    ⟨s, k, Step.refl _ _, hw, by omega, hpend, hdeps, Nat.le_of_not_lt hfirst, Nat.le_of_not_gt hlast, hr,
                      hnonempty, hi, hpi, hlt, hs'⟩
                split at h
                · rename_i hsome
                  split at h
                  · rename_i i hi
                    split at h
                    · cases h
                    · rename_i s' hs'
                      injection h with h; subst h
                      have hfp := firstPending_some s seg _ _ _ hi
                      exact ⟨rfl, base i s' (Or.inr ⟨hsome.2, hi, hal hsome.1⟩) hfp.1 (by omega) hs'⟩
                  · split at h
                    · cases h
                    · rename_i s' hs'
                      injection h with h; subst h
                      exact ⟨rfl, base k s' (Or.inl rfl) hpend (by omega) hs'⟩
                · split at h
                  · cases h
                  · rename_i s' hs'
                    injection h with h; subst h
                    exact ⟨rfl, base k s' (Or.inl rfl) hpend (by omega) hs'⟩

/-- postcondition of `NextJob` -/
def JobPost (fix : Patch) (s s' : Stages) : Option (WorkUnit × Range) → Prop
  | none => PStep s s'
  | some (u, r) => Chosen fix s s' u r

theorem nextJobSegs_spec (fix : Patch) (hf : fix.shadow = true) :
    ∀ (fuel seg : Nat) (s s' : Stages) (res : Option (WorkUnit × Range)), s.WF → s.offset ≤ seg →
      nextJobSegs fix fuel seg s = .ok (s', res) → JobPost fix s s' res := by
  intro fuel
  induction fuel with
  | zero =>
    intro seg s s' res _ _ h
    simp only [nextJobSegs] at h
    injection h with h; injection h with h1 h2; subst h1; subst h2
    exact Step.refl _ _
  | succ n ih =>
    intro seg s s' res hw ho h
    simp only [nextJobSegs] at h
    have hall : ∀ (s1 : Stages) (sh : Bool), s.markShadowedUnits fix seg = .ok (s1, sh) → sh = true →
        seg < s1.offset + s1.states.length := by
      intro s1 sh hs1 hsh
      have := markShadowedUnits_allocated fix s seg s1 sh ho hs1 hsh
      have hoff : s1.offset ≤ seg := by rw [(markShadowedUnits_pstep fix hf s seg s1 sh hw hs1).rest.offset]; exact ho
      omega
    split at h
    · cases h
    · rename_i s1 sh hs1
      have st1 := markShadowedUnits_pstep fix hf s seg s1 sh hw hs1
      split at h
      · cases h
      · rename_i s2 u r hs2
        injection h with h; injection h with h1 h2; subst h1; subst h2
        have := nextJobStages_spec fix seg sh _ s1 _ (st1.wf hw) (Nat.le_refl _) (hall s1 sh hs1) hs2
        obtain ⟨s0, k0, hp0, rest⟩ := this.2
        exact ⟨s0, k0, st1.trans hp0, rest⟩
      · rename_i s2 hs2
        have st2 : PStep s1 s2 := nextJobStages_spec fix seg sh _ s1 _ (st1.wf hw) (Nat.le_refl _) (hall s1 sh hs1) hs2
        have st12 := st1.trans st2
        have := ih (seg + 1) s2 s' res (st12.wf hw) (by rw [st12.rest.offset]; omega) h
        cases res with
        | none => exact st12.trans this
        | some p =>
          obtain ⟨u, r⟩ := p
          obtain ⟨s0, k0, hp0, rest⟩ := this
          exact ⟨s0, k0, st12.trans hp0, rest⟩

theorem nextJob_spec (fix : Patch) (hf : fix.shadow = true) (s s' : Stages) (res : Option (WorkUnit × Range)) (hw : s.WF)
    (ho : s.offset ≤ s.globalSeg.firstIndex) (h : s.nextJob fix = .ok (s', res)) : JobPost fix s s' res :=
  nextJobSegs_spec fix hf _ _ s s' res hw ho h

/-- a unit that was chosen: the whole step from `s` to `s'` only changed Pending cells, the unit now is Scheduled
and it was not Scheduled/Merging/... before -/
theorem Chosen.pstep {fix : Patch} {s s' : Stages} {u : WorkUnit} {r : Range} (h : Chosen fix s s' u r) : PStep s s' := by
  obtain ⟨s0, k, hp0, _, _, _, _, _, _, _, _, _, hpu, _, hs'⟩ := h
  exact hp0.trans (transition_pstep hs' hpu)

theorem Chosen.scheduled {fix : Patch} {s s' : Stages} {u : WorkUnit} {r : Range} (h : Chosen fix s s' u r) :
    s'.getState u.seg u.stage = .scheduled := by
  obtain ⟨s0, k, _, hw0, _, _, _, _, _, _, _, _, _, _, hs'⟩ := h
  exact transition_target_eq hs' hw0 (by simp)

theorem Chosen.was_pending {fix : Patch} {s s' : Stages} {u : WorkUnit} {r : Range} (h : Chosen fix s s' u r) :
    s.getState u.seg u.stage = .pending := by
  obtain ⟨s0, k, hp0, _, _, _, _, _, _, _, _, _, hpu, _, _⟩ := h
  by_cases hc : s.getState u.seg u.stage = .pending
  · exact hc
  · have := hp0.frame u.seg u.stage (fun x => x) hc
    rw [this] at hpu; exact absurd hpu hc

/-! ### no panic in NextJob -/

/-- every stage's segmenter is sane: positive interval, and either a non-empty block range or no segment at all
(a stage that starts at or after the end of the range) -/
def StagesOK (s : Stages) : Prop :=
  ∀ st ∈ s.stages, 0 < st.seg.interval ∧ (st.seg.init < st.seg.end_ ∨ st.seg.lastIndex < st.seg.firstIndex)

theorem stageAt_mem (s : Stages) (k : Nat) (hk : k < s.nStages) : s.stageAt k ∈ s.stages := by
  unfold stageAt
  rw [List.getD_eq_getElem?_getD, List.getElem?_eq_getElem hk]
  exact List.getElem_mem _

theorem StagesOK.range (s : Stages) (h : s.StagesOK) (k seg : Nat) (hk : k < s.nStages)
    (h1 : (s.stageAt k).seg.firstIndex ≤ seg) (h2 : seg ≤ (s.stageAt k).seg.lastIndex) :
    ∃ r, (s.stageAt k).seg.range? seg = some r := by
  obtain ⟨hi, hr⟩ := h _ (stageAt_mem s k hk)
  rcases hr with hr | hr
  · exact ⟨_, Segmenter.range?_eq _ hi hr seg h1 h2⟩
  · omega

theorem Rest.stagesOK {s s' : Stages} (h : Rest s s') (ho : s.StagesOK) : s'.StagesOK := by
  unfold StagesOK; rw [h.stages]; exact ho

/-- a Pending cell at or above its stage's first segment is still Pending after the allocation of its row -/
theorem getState_alloc_pending (s : Stages) (seg stg : Nat) (hp : s.getState seg stg = .pending)
    (hoff : s.offset ≤ seg) (hfirst : (s.stageAt stg).seg.firstIndex ≤ seg) :
    (s.allocSegments seg).getState seg stg = .pending := by
  rcases getState_alloc s seg seg stg with h | ⟨_, h⟩
  · rw [h, hp]
  · exfalso
    have hr := allocSegments_rest s seg
    have hcov := allocSegments_covers s seg hoff
    have hu' : (s.allocSegments seg).getState seg stg = (if seg ≥ s.offset + (s.allocSegments seg).states.length then .pending
        else if seg < s.offset ∨ (s.stages ≠ [] ∧ seg < (s.stageAt stg).seg.firstIndex) then .noOp
        else matGet (s.allocSegments seg).states (seg - s.offset) stg) := by
      unfold getState; rw [hr.offset, hr.stages, hr.stageAt]
    rw [hu'] at h
    have h1 : ¬ seg ≥ s.offset + (s.allocSegments seg).states.length := by omega
    have h2 : ¬ (seg < s.offset ∨ (s.stages ≠ [] ∧ seg < (s.stageAt stg).seg.firstIndex)) := by
      intro hc; rcases hc with hc | hc <;> omega
    rw [if_neg h1, if_neg h2] at h
    by_cases h3 : seg ≥ s.offset + s.states.length
    · rw [allocSegments_matGet_new s seg _ _ (by omega)] at h; cases h
    · rw [allocSegments_matGet s seg _ _ (by omega)] at h
      have : s.getState seg stg = matGet s.states (seg - s.offset) stg := by
        unfold getState; rw [if_neg h3, if_neg h2]
      rw [this, h] at hp; cases hp

/-- a cell of an allocated row that reads Pending lies at or above its stage's first segment -/
theorem first_le_of_pending_allocated (s : Stages) (seg stg : Nat) (hp : s.getState seg stg = .pending)
    (hne : s.stages ≠ []) (hal : seg < s.offset + s.states.length) : (s.stageAt stg).seg.firstIndex ≤ seg := by
  apply Nat.le_of_not_lt
  intro hc
  unfold getState at hp
  have h1 : ¬ seg ≥ s.offset + s.states.length := by omega
  rw [if_neg h1, if_pos (Or.inr ⟨hne, hc⟩)] at hp
  cases hp

theorem markShadowedLoop_ok (fix : Patch) (seg : Nat) :
    ∀ (k : Nat) (s : Stages) (sh : Bool), s.offset ≤ seg → seg - s.offset < s.states.length → k ≤ s.nStages →
      ∃ r, markShadowedLoop fix seg k s sh = .ok r := by
  intro k
  induction k with
  | zero => intro s sh _ _ _; exact ⟨_, rfl⟩
  | succ k ih =>
    intro s sh ho hl hk
    simp only [markShadowedLoop]
    split
    · exact ⟨_, rfl⟩
    · split
      · obtain ⟨s1, hs1⟩ := (setState_ok_iff s seg k .shadowed).2 ⟨ho, hl, by omega⟩
        rw [hs1]
        have hr := setState_rest hs1
        exact ih s1 true (by rw [hr.offset]; exact ho) (by rw [hr.offset, setState_length hs1]; exact hl)
          (by rw [hr.nStages]; omega)
      · exact ih s sh ho hl (by omega)

theorem markShadowedUnits_ok (fix : Patch) (s : Stages) (seg : Nat) (ho : s.offset ≤ seg) :
    ∃ r, s.markShadowedUnits fix seg = .ok r := by
  unfold markShadowedUnits
  split
  · exact ⟨_, rfl⟩
  · have hr := allocSegments_rest s seg
    exact markShadowedLoop_ok fix seg _ _ _ (by rw [hr.offset]; exact ho)
      (by rw [hr.offset]; exact allocSegments_covers s seg ho) (by omega)

theorem nextJobStages_ok (fix : Patch) (seg : Nat) (sh : Bool) :
    ∀ (k : Nat) (s : Stages), s.WF → s.StagesOK → k ≤ s.nStages → s.offset ≤ seg →
      (sh = true → seg - s.offset < s.states.length) → ∃ res, nextJobStages fix seg sh k s = .ok res := by
  intro k
  induction k with
  | zero => intro s _ _ _ _ _; exact ⟨_, rfl⟩
  | succ k ih =>
    intro s hw hok hk ho hal
    simp only [nextJobStages]
    split
    · exact ih s hw hok (by omega) ho hal
    · rename_i hpend
      have hpend : s.getState seg k = .pending := by simpa using hpend
      split
      · exact ih s hw hok (by omega) ho hal
      · rename_i hfirst
        split
        · exact ⟨_, rfl⟩
        · rename_i hlast
          split
          · exact ih s hw hok (by omega) ho hal
          · obtain ⟨r, hr⟩ := StagesOK.range s hok k seg (by omega) (Nat.le_of_not_lt hfirst) (Nat.le_of_not_gt hlast)
            rw [hr]
            simp only
            have hsched : ∀ i, i < s.nStages → s.getState seg i = .pending → (s.stageAt i).seg.firstIndex ≤ seg →
                ∃ s', s.markSegmentScheduled ⟨seg, i⟩ = .ok s' := by
              intro i hi hp hf
              apply transition_succeeds s ⟨seg, i⟩ _ _ ho hi
              rw [getState_alloc_pending s seg i hp ho hf]; simp
            split
            · -- empty range
              obtain ⟨s1, hs1⟩ : ∃ s1, s.markSegmentCompleted ⟨seg, k⟩ = .ok s1 := by
                have hk' : k < s.nStages := by omega
                apply transition_succeeds s ⟨seg, k⟩ _ _ ho hk'
                rw [getState_alloc_pending s seg k hpend ho (Nat.le_of_not_lt hfirst)]; simp
              rw [hs1]
              have st1 := transition_rest hs1
              refine ih s1 (transition_wf hs1 hw) (st1.stagesOK hok) (by rw [st1.nStages]; omega) (by rw [st1.offset]; exact ho) ?_
              intro hsh
              have := hal hsh
              rw [st1.offset]
              have hlen : s.states.length ≤ s1.states.length := by
                have h2 := (transition_ok hs1).2
                rw [setState_length h2]; exact allocSegments_length_le s seg
              omega
            · split
              · rename_i hsome
                split
                · rename_i i hi
                  have hfp := firstPending_some s seg _ _ _ hi
                  have hne : s.stages ≠ [] := by
                    intro hc; have : s.nStages = 0 := by simp [Stages.nStages, hc]
                    omega
                  have hfi := first_le_of_pending_allocated s seg i hfp.1 hne (by have := hal hsome.1; omega)
                  obtain ⟨s', hs'⟩ := hsched i (by omega) hfp.1 hfi
                  rw [hs']; exact ⟨_, rfl⟩
                · obtain ⟨s', hs'⟩ := hsched k (by omega) hpend (Nat.le_of_not_lt hfirst)
                  rw [hs']; exact ⟨_, rfl⟩
              · obtain ⟨s', hs'⟩ := hsched k (by omega) hpend (Nat.le_of_not_lt hfirst)
                rw [hs']; exact ⟨_, rfl⟩

theorem nextJobSegs_ok (fix : Patch) (hf : fix.shadow = true) :
    ∀ (fuel seg : Nat) (s : Stages), s.WF → s.StagesOK → s.offset ≤ seg → ∃ res, nextJobSegs fix fuel seg s = .ok res := by
  intro fuel
  induction fuel with
  | zero => intro seg s _ _ _; exact ⟨_, rfl⟩
  | succ n ih =>
    intro seg s hw hok ho
    simp only [nextJobSegs]
    obtain ⟨⟨s1, sh⟩, hs1⟩ := markShadowedUnits_ok fix s seg ho
    rw [hs1]
    simp only
    have st1 := markShadowedUnits_pstep fix hf s seg s1 sh hw hs1
    have ho1 : s1.offset ≤ seg := by rw [st1.rest.offset]; exact ho
    obtain ⟨res, hres⟩ := nextJobStages_ok fix seg sh s1.nStages s1 (st1.wf hw) (st1.rest.stagesOK hok) (Nat.le_refl _) ho1
      (fun hsh => markShadowedUnits_allocated fix s seg s1 sh ho hs1 hsh)
    rw [hres]
    cases res with
    | found s2 u r => exact ⟨_, rfl⟩
    | next s2 =>
      simp only
      have st2 : PStep s1 s2 := nextJobStages_spec fix seg sh _ s1 _ (st1.wf hw) (Nat.le_refl _)
        (fun hsh => by have := markShadowedUnits_allocated fix s seg s1 sh ho hs1 hsh; omega) hres
      have st12 := st1.trans st2
      exact ih (seg + 1) s2 (st12.wf hw) (st12.rest.stagesOK hok) (by rw [st12.rest.offset]; omega)

theorem nextJob_ok (fix : Patch) (hf : fix.shadow = true) (s : Stages) (hw : s.WF) (hok : s.StagesOK)
    (ho : s.offset ≤ s.globalSeg.firstIndex) : ∃ res, s.nextJob fix = .ok res :=
  nextJobSegs_ok fix hf _ _ s hw hok ho

/-! ### steps with designated targets: every other cell is unchanged, or was Pending and now reads NoOp -/

structure TStep (T : Nat → Nat → Prop) (s s' : Stages) : Prop where
  rest  : Rest s s'
  wf    : s.WF → s'.WF
  frame : ∀ seg stg, ¬T seg stg →
    s'.getState seg stg = s.getState seg stg ∨ (s.getState seg stg = .pending ∧ s'.getState seg stg = .noOp)

theorem TStep.refl (T : Nat → Nat → Prop) (s : Stages) : TStep T s s := ⟨Rest.refl s, id, fun _ _ _ => Or.inl rfl⟩

theorem TStep.trans {T : Nat → Nat → Prop} {a b c : Stages} (h1 : TStep T a b) (h2 : TStep T b c) : TStep T a c := by
  refine ⟨h1.rest.trans h2.rest, fun h => h2.wf (h1.wf h), ?_⟩
  intro seg stg hT
  rcases h1.frame seg stg hT with e1 | ⟨e1, e1'⟩ <;> rcases h2.frame seg stg hT with e2 | ⟨e2, e2'⟩
  · left; rw [e2, e1]
  · right; exact ⟨by rw [← e1]; exact e2, e2'⟩
  · right; exact ⟨e1, by rw [e2]; exact e1'⟩
  · rw [e1'] at e2; cases e2

theorem TStep.mono {T T' : Nat → Nat → Prop} {a b : Stages} (h : TStep T a b) (hTT : ∀ x y, T x y → T' x y) : TStep T' a b :=
  ⟨h.rest, h.wf, fun seg stg hT => h.frame seg stg (fun hc => hT (hTT _ _ hc))⟩

theorem TStep.step {T : Nat → Nat → Prop} {a b : Stages} (h : TStep T a b) : Step T a b := by
  refine ⟨h.rest, h.wf, ?_⟩
  intro seg stg hT hp
  rcases h.frame seg stg hT with e | ⟨e, _⟩
  · exact e
  · exact absurd e hp

theorem transition_tstep {s s' : Stages} {u : WorkUnit} {to : UnitState} {al : List UnitState}
    (h : s.transition u to al = .ok s') : TStep (fun seg stg => seg = u.seg ∧ stg = u.stage) s s' :=
  ⟨transition_rest h, transition_wf h, fun seg stg hT => transition_frame' h seg stg hT⟩

/-- a cell whose answer is neither Pending nor NoOp is a real cell of the matrix -/
theorem in_range_of_state (s : Stages) (hw : s.WF) (seg stg : Nat) (h1 : s.getState seg stg ≠ .pending)
    (h2 : s.getState seg stg ≠ .noOp) : s.offset ≤ seg ∧ seg - s.offset < s.states.length ∧ stg < s.nStages := by
  unfold getState at h1 h2
  by_cases c1 : seg ≥ s.offset + s.states.length
  · rw [if_pos c1] at h1; exact absurd rfl h1
  · rw [if_neg c1] at h1 h2
    by_cases c2 : seg < s.offset ∨ (s.stages ≠ [] ∧ seg < (s.stageAt stg).seg.firstIndex)
    · rw [if_pos c2] at h2; exact absurd rfl h2
    · rw [if_neg c2] at h1
      refine ⟨by omega, by omega, ?_⟩
      apply Nat.lt_of_not_le
      intro hc
      apply h1
      unfold matGet
      have hlen : seg - s.offset < s.states.length := by omega
      have hrow : (s.states.getD (seg - s.offset) []) ∈ s.states := by
        rw [List.getD_eq_getElem?_getD, List.getElem?_eq_getElem hlen]
        exact List.getElem_mem _
      have := hw _ hrow
      rw [List.getD_eq_getElem?_getD (l := s.states.getD (seg - s.offset) []), List.getElem?_eq_none (by omega)]
      rfl

/-! ### MarkJobSuccess -/

theorem jobSuccessLoop_tstep (seg : Nat) (T : Nat → Nat → Prop) :
    ∀ (k : Nat) (s : Stages) (acc : List WorkUnit) (s' : Stages) (acc' : List WorkUnit) (s0 : Stages),
      TStep T s0 s → (∀ stg, s0.getState seg stg = .shadowed → T seg stg) →
      jobSuccessLoop seg k s acc = .ok (s', acc') → TStep T s0 s' := by
  intro k
  induction k with
  | zero =>
    intro s acc s' acc' s0 h0 _ h
    simp only [jobSuccessLoop] at h
    injection h with h; injection h with h1 _; subst h1; exact h0
  | succ k ih =>
    intro s acc s' acc' s0 h0 hT h
    simp only [jobSuccessLoop] at h
    split at h
    · rename_i hsh
      split at h
      · cases h
      · rename_i s1 hs1
        have st1 : TStep T s s1 := by
          refine ⟨transition_rest hs1, transition_wf hs1, ?_⟩
          intro seg' stg' hTc
          by_cases hc : seg' = seg ∧ stg' = k
          · exfalso
            rw [hc.1, hc.2] at hTc
            -- the cell is Shadowed now, so it was Shadowed at the start, hence a target
            rcases h0.frame seg k hTc with e | ⟨_, e⟩
            · exact hTc (hT k (by rw [← e]; exact hsh))
            · rw [e] at hsh; cases hsh
          · exact transition_frame' hs1 seg' stg' hc
        exact ih s1 _ s' acc' s0 (h0.trans st1) hT h
    · exact ih s acc s' acc' s0 h0 hT h

/-- `MarkJobSuccess(u)` touches the unit and the units of its segment that were Shadowed -/
theorem markJobSuccess_tstep {s s' : Stages} {u : WorkUnit} {l : List WorkUnit} (h : s.markJobSuccess u = .ok (s', l)) :
    TStep (fun seg stg => seg = u.seg ∧ (stg = u.stage ∨ s.getState seg stg = .shadowed)) s s' := by
  unfold markJobSuccess at h
  split at h
  · cases h
  · rename_i s1 hs1
    have st1 : TStep (fun seg stg => seg = u.seg ∧ (stg = u.stage ∨ s.getState seg stg = .shadowed)) s s1 :=
      (transition_tstep hs1).mono (fun x y hxy => ⟨hxy.1, Or.inl hxy.2⟩)
    split at h
    · exact jobSuccessLoop_tstep u.seg _ _ s1 _ s' l s st1 (fun stg hs => ⟨rfl, Or.inr hs⟩) h
    · injection h with h; injection h with h1 _; subst h1; exact st1

theorem jobSuccessLoop_ok (seg : Nat) :
    ∀ (k : Nat) (s : Stages) (acc : List WorkUnit), s.WF → ∃ r, jobSuccessLoop seg k s acc = .ok r := by
  intro k
  induction k with
  | zero => intro s acc _; exact ⟨_, rfl⟩
  | succ k ih =>
    intro s acc hw
    simp only [jobSuccessLoop]
    split
    · rename_i hsh
      have hr := in_range_of_state s hw seg k (by rw [hsh]; simp) (by rw [hsh]; simp)
      obtain ⟨s1, hs1⟩ := transition_succeeds s ⟨seg, k⟩ .partialPresent [.shadowed] hr.1 hr.2.2
        (by rw [getState_alloc_of_ne_pending s seg seg k (by rw [hsh]; simp), hsh]; simp)
      rw [hs1]
      exact ih s1 _ (transition_wf hs1 hw)
    · exact ih s acc hw

/-- `MarkJobSuccess` does not panic on a Scheduled unit -/
theorem markJobSuccess_ok (s : Stages) (u : WorkUnit) (hw : s.WF) (hs : s.getState u.seg u.stage = .scheduled) :
    ∃ r, s.markJobSuccess u = .ok r := by
  unfold markJobSuccess
  have hr := in_range_of_state s hw u.seg u.stage (by rw [hs]; simp) (by rw [hs]; simp)
  obtain ⟨s1, hs1⟩ := transition_succeeds s u .partialPresent [.scheduled, .pending] hr.1 hr.2.2
    (by rw [getState_alloc_of_ne_pending s u.seg u.seg u.stage (by rw [hs]; simp), hs]; simp)
  unfold markSegmentPartialPresent
  rw [hs1]
  simp only
  split
  · exact jobSuccessLoop_ok u.seg _ s1 _ (transition_wf hs1 hw)
  · exact ⟨_, rfl⟩

/-- the unit is PartialPresent afterwards -/
theorem markJobSuccess_target {s s' : Stages} {u : WorkUnit} {l : List WorkUnit} (h : s.markJobSuccess u = .ok (s', l))
    (hw : s.WF) : s'.getState u.seg u.stage = .partialPresent := by
  unfold markJobSuccess at h
  split at h
  · cases h
  · rename_i s1 hs1
    have e1 : s1.getState u.seg u.stage = .partialPresent := transition_target_eq hs1 hw (by simp)
    split at h
    · -- the loop only touches cells that are Shadowed
      have : ∀ (k : Nat) (a : Stages) (acc : List WorkUnit) (a' : Stages) (acc' : List WorkUnit),
          a.getState u.seg u.stage = .partialPresent → k ≤ u.stage →
          jobSuccessLoop u.seg k a acc = .ok (a', acc') → a'.getState u.seg u.stage = .partialPresent := by
        intro k
        induction k with
        | zero => intro a acc a' acc' ha _ h; simp only [jobSuccessLoop] at h; injection h with h; injection h with h1 _; subst h1; exact ha
        | succ k ih =>
          intro a acc a' acc' ha hk h
          simp only [jobSuccessLoop] at h
          split at h
          · split at h
            · cases h
            · rename_i a1 ha1
              refine ih a1 _ a' acc' ?_ (by omega) h
              rw [transition_frame ha1 u.seg u.stage (by intro hc; have := hc.2; simp at this; omega) (by rw [ha]; simp)]
              exact ha
          · exact ih a acc a' acc' ha (by omega) h
      exact this _ s1 _ s' l e1 (Nat.le_refl _) h
    · injection h with h; injection h with h1 _; subst h1; exact e1

/-! ### CmdTryMerge -/

/-- what `CmdTryMerge` guarantees when it starts a merge -/
theorem cmdTryMerge_merge {s s' : Stages} {i : Nat} {u : WorkUnit} (h : s.cmdTryMerge i = .ok (s', .merge u)) (hw : s.WF) :
    u = ⟨(s.stageAt i).next, (s.stageAt i).idx⟩ ∧ (s.stageAt i).kind = .store ∧ u.seg ≤ (s.stageAt i).seg.lastIndex ∧
    s.getState u.seg u.stage = .partialPresent ∧ s.previousUnitComplete u = true ∧
    s'.getState u.seg u.stage = .merging ∧ TStep (fun seg stg => seg = u.seg ∧ stg = u.stage) s s' := by
  unfold cmdTryMerge at h
  split at h
  · injection h with h; injection h with _ h2; cases h2
  · simp only at h
    split at h
    · injection h with h; injection h with _ h2; cases h2
    · rename_i hkind
      split at h
      · injection h with h; injection h with _ h2; cases h2
      · rename_i hlast
        split at h
        · injection h with h; injection h with _ h2; cases h2
        · rename_i hpp
          split at h
          · injection h with h; injection h with _ h2; cases h2
          · rename_i hprev
            split at h
            · cases h
            · rename_i s1 hs1
              injection h with h; injection h with h1 h2
              subst h1
              injection h2 with h2
              subst h2
              unfold markSegmentMerging at hs1
              split at hs1
              · cases hs1
              · refine ⟨rfl, by simpa using hkind, Nat.le_of_not_gt hlast, by simpa using hpp, by simpa using hprev,
                  transition_target_eq hs1 hw (by simp), transition_tstep hs1⟩

/-- in every other case the matrix is untouched -/
theorem cmdTryMerge_other {s s' : Stages} {i : Nat} {t : TryMerge} (h : s.cmdTryMerge i = .ok (s', t))
    (ht : ∀ u, t ≠ .merge u) : s' = s := by
  unfold cmdTryMerge at h
  split at h
  · injection h with h; injection h with h1 _; exact h1.symm
  · simp only at h
    split at h
    · injection h with h; injection h with h1 _; exact h1.symm
    · split at h
      · injection h with h; injection h with h1 _; exact h1.symm
      · split at h
        · injection h with h; injection h with h1 _; exact h1.symm
        · split at h
          · injection h with h; injection h with h1 _; exact h1.symm
          · split at h
            · cases h
            · injection h with h; injection h with _ h2; exact absurd h2.symm (ht _)

theorem cmdTryMerge_ok (s : Stages) (i : Nat) (hw : s.WF) : ∃ r, s.cmdTryMerge i = .ok r := by
  unfold cmdTryMerge
  split
  · exact ⟨_, rfl⟩
  · simp only
    split
    · exact ⟨_, rfl⟩
    · split
      · exact ⟨_, rfl⟩
      · split
        · exact ⟨_, rfl⟩
        · rename_i hpp
          split
          · exact ⟨_, rfl⟩
          · rename_i hprev
            have hpp' : s.getState (s.stageAt i).next (s.stageAt i).idx = .partialPresent := by simpa using hpp
            have hr := in_range_of_state s hw _ _ (by rw [hpp']; simp) (by rw [hpp']; simp)
            have : ∃ s1, s.markSegmentMerging ⟨(s.stageAt i).next, (s.stageAt i).idx⟩ = .ok s1 := by
              unfold markSegmentMerging
              have hp : s.previousUnitComplete ⟨(s.stageAt i).next, (s.stageAt i).idx⟩ = true := by simpa using hprev
              simp only [hp, Bool.not_true, Bool.false_eq_true, if_false]
              apply transition_succeeds s _ _ _ hr.1 hr.2.2
              rw [getState_alloc_of_ne_pending s _ _ _ (by rw [hpp']; simp), hpp']; simp
            obtain ⟨s1, hs1⟩ := this
            rw [hs1]; exact ⟨_, rfl⟩

/-! ### setStage (only `next` and the module states change) -/

theorem setStage_getState (s : Stages) (i : Nat) (st : Stage) (hseg : st.seg = (s.stageAt i).seg) (seg stg : Nat) :
    (s.setStage i st).getState seg stg = s.getState seg stg := by
  have hst : ∀ j, ((s.setStage i st).stageAt j).seg = (s.stageAt j).seg := by
    intro j
    unfold setStage stageAt
    simp only [List.getD_eq_getElem?_getD, List.getElem?_set]
    by_cases hij : i = j
    · subst hij
      by_cases hlt : i < s.stages.length
      · simp only [hlt, if_true, Option.getD_some]
        rw [hseg]; unfold stageAt; rw [List.getD_eq_getElem?_getD]
      · simp [hlt, List.getElem?_eq_none (Nat.le_of_not_lt hlt)]
    · simp [hij]
  have hne : (s.setStage i st).stages ≠ [] ↔ s.stages ≠ [] := by
    unfold setStage
    simp only [ne_eq]
    constructor
    · intro h hc; apply h; rw [hc]; rfl
    · intro h hc; apply h
      have : (s.stages.set i st).length = 0 := by rw [hc]; rfl
      rw [List.length_set] at this
      exact List.eq_nil_of_length_eq_zero this
  unfold getState
  rw [hst stg]
  show (if seg ≥ s.offset + s.states.length then UnitState.pending
      else if seg < s.offset ∨ ((s.setStage i st).stages ≠ [] ∧ seg < (s.stageAt stg).seg.firstIndex) then .noOp
      else matGet s.states (seg - s.offset) stg) = _
  by_cases h1 : seg ≥ s.offset + s.states.length
  · rw [if_pos h1, if_pos h1]
  · rw [if_neg h1, if_neg h1]
    by_cases h2 : seg < s.offset ∨ (s.stages ≠ [] ∧ seg < (s.stageAt stg).seg.firstIndex)
    · rw [if_pos h2, if_pos (by rcases h2 with h2 | h2; exact Or.inl h2; exact Or.inr ⟨hne.2 h2.1, h2.2⟩)]
    · rw [if_neg h2, if_neg (by intro hc; apply h2; rcases hc with hc | hc; exact Or.inl hc; exact Or.inr ⟨hne.1 hc.1, hc.2⟩)]

theorem setStage_stageAt (s : Stages) (i j : Nat) (st : Stage) :
    (s.setStage i st).stageAt j = if i = j ∧ i < s.nStages then st else s.stageAt j := by
  unfold setStage stageAt nStages
  simp only [List.getD_eq_getElem?_getD, List.getElem?_set]
  by_cases hij : i = j
  · subst hij
    by_cases hlt : i < s.stages.length
    · simp [hlt]
    · simp [hlt, List.getElem?_eq_none (Nat.le_of_not_lt hlt)]
  · simp [hij]

theorem setStage_nStages (s : Stages) (i : Nat) (st : Stage) : (s.setStage i st).nStages = s.nStages := by
  unfold setStage nStages; simp

theorem setStage_wf (s : Stages) (i : Nat) (st : Stage) (hw : s.WF) : (s.setStage i st).WF := by
  intro r hr
  rw [setStage_nStages]; exact hw r hr

theorem setStage_stagesOK (s : Stages) (i : Nat) (st : Stage) (hseg : st.seg = (s.stageAt i).seg) (hi : i < s.nStages)
    (hok : s.StagesOK) : (s.setStage i st).StagesOK := by
  intro x hx
  unfold setStage at hx
  simp only at hx
  rcases List.mem_or_eq_of_mem_set hx with hx | hx
  · exact hok x hx
  · subst hx; rw [hseg]; exact hok _ (stageAt_mem s i hi)

/-! ### MergeCompleted -/

theorem moveForward_getState (s : Stages) (i seg stg : Nat) :
    (s.moveSegmentCompletedForward i).getState seg stg = s.getState seg stg := by
  unfold moveSegmentCompletedForward
  simp only
  apply setStage_getState
  rfl

theorem mergeCompleted_spec {s s' : Stages} {u : WorkUnit} (h : s.mergeCompleted u = .ok s') (hw : s.WF) :
    ∃ s1, TStep (fun seg stg => seg = u.seg ∧ stg = u.stage) s s1 ∧ s1.WF ∧
      (∀ seg stg, s'.getState seg stg = s1.getState seg stg) ∧ s'.offset = s.offset ∧ s'.globalSeg = s.globalSeg ∧
      s'.nStages = s.nStages ∧ s'.WF ∧ (s.StagesOK → s'.StagesOK) ∧
      (s.getState u.seg u.stage = .merging → s'.getState u.seg u.stage = .completed) := by
  unfold mergeCompleted at h
  split at h
  · cases h
  · rename_i s1 hs1
    injection h with h; subst h
    have st1 := transition_tstep hs1
    have hw1 := transition_wf hs1 hw
    have hget : ∀ seg stg, (s1.moveSegmentCompletedForward u.stage).getState seg stg = s1.getState seg stg :=
      fun seg stg => moveForward_getState s1 _ seg stg
    refine ⟨s1, st1, hw1, hget, ?_, ?_, ?_, ?_, ?_, ?_⟩
    · unfold moveSegmentCompletedForward setStage; exact st1.rest.offset
    · unfold moveSegmentCompletedForward setStage; exact st1.rest.globalSeg
    · unfold moveSegmentCompletedForward; rw [setStage_nStages]; exact st1.rest.nStages
    · unfold moveSegmentCompletedForward; exact setStage_wf _ _ _ hw1
    · intro hok
      have hok1 := st1.rest.stagesOK hok
      unfold moveSegmentCompletedForward
      by_cases hi : u.stage < s1.nStages
      · exact setStage_stagesOK s1 _ _ rfl hi hok1
      · -- out of range: `List.set` does nothing
        intro x hx
        unfold setStage at hx
        simp only at hx
        rw [List.set_eq_of_length_le (by unfold Stages.nStages at hi; omega)] at hx
        exact hok1 x hx
    · intro hm
      rw [hget]
      rcases transition_target hs1 hw with e | ⟨e, _⟩
      · exact e
      · -- the target reads NoOp after the transition: it lies below the stage's first segment, where it could not
        -- have read Merging
        exfalso
        have h2 := (transition_ok hs1).2
        have hsame := getState_setState_same h2 (allocSegments_wf s u.seg hw)
        rw [e] at hsame
        split at hsame
        · rename_i hb
          have hok := (setState_ok_iff _ _ _ _).1 ⟨s1, h2⟩
          have ha := getState_alloc_of_ne_pending s u.seg u.seg u.stage (by rw [hm]; simp)
          rw [hm] at ha
          have : (s.allocSegments u.seg).getState u.seg u.stage = .noOp := by
            unfold getState
            have c1 : ¬ u.seg ≥ (s.allocSegments u.seg).offset + (s.allocSegments u.seg).states.length := by omega
            rw [if_neg c1, if_pos (Or.inr hb)]
          rw [this] at ha; cases ha
        · cases hsame

theorem mergeCompleted_eq {s s' : Stages} {u : WorkUnit} (h : s.mergeCompleted u = .ok s') :
    ∃ s0, s.markSegmentCompleted u = .ok s0 ∧ s' = s0.moveSegmentCompletedForward u.stage := by
  unfold mergeCompleted at h
  split at h
  · cases h
  · rename_i s1 hs1
    injection h with h
    exact ⟨s1, hs1, h.symm⟩

theorem moveForward_stageAt (s : Stages) (i j : Nat) :
    ((s.moveSegmentCompletedForward i).stageAt j).idx = (s.stageAt j).idx ∧
    ((s.moveSegmentCompletedForward i).stageAt j).kind = (s.stageAt j).kind ∧
    ((s.moveSegmentCompletedForward i).stageAt j).seg = (s.stageAt j).seg ∧
    (j ≠ i → ((s.moveSegmentCompletedForward i).stageAt j).next = (s.stageAt j).next) ∧
    (s.moveSegmentCompletedForward i).nStages = s.nStages := by
  unfold moveSegmentCompletedForward
  simp only
  rw [setStage_stageAt, setStage_nStages]
  split
  · rename_i hc
    rw [← hc.1]
    exact ⟨rfl, rfl, rfl, fun hne => absurd rfl hne, rfl⟩
  · exact ⟨rfl, rfl, rfl, fun _ => rfl, rfl⟩

/-- `MergeCompleted` does not panic on a Merging unit -/
theorem mergeCompleted_ok (s : Stages) (u : WorkUnit) (hw : s.WF) (hm : s.getState u.seg u.stage = .merging) :
    ∃ s', s.mergeCompleted u = .ok s' := by
  unfold mergeCompleted
  have hr := in_range_of_state s hw u.seg u.stage (by rw [hm]; simp) (by rw [hm]; simp)
  obtain ⟨s1, hs1⟩ := transition_succeeds s u .completed [.pending, .merging, .scheduled, .shadowed, .noOp, .completed] hr.1 hr.2.2
    (by rw [getState_alloc_of_ne_pending s u.seg u.seg u.stage (by rw [hm]; simp), hm]; simp)
  unfold markSegmentCompleted
  rw [hs1]; exact ⟨_, rfl⟩

/-! ### the store stages sit at the position their `idx` says -/

def IdxPos (s : Stages) : Prop := ∀ i, i < s.nStages → (s.stageAt i).kind = .store → (s.stageAt i).idx = i

theorem setStage_idxPos (s : Stages) (i : Nat) (st : Stage) (h1 : st.idx = (s.stageAt i).idx) (h2 : st.kind = (s.stageAt i).kind)
    (h : s.IdxPos) : (s.setStage i st).IdxPos := by
  intro j hj hk
  rw [setStage_nStages] at hj
  rw [setStage_stageAt] at hk ⊢
  split
  · rename_i hc
    rw [if_pos hc] at hk
    rw [h1, ← hc.1]; exact h i hc.2 (by rw [← h2]; exact hk)
  · rename_i hc
    rw [if_neg hc] at hk
    exact h j hj hk

theorem Rest.idxPos {s s' : Stages} (h : Rest s s') (hi : s.IdxPos) : s'.IdxPos := by
  intro j hj hk
  rw [h.nStages] at hj
  rw [h.stageAt] at hk ⊢
  exact hi j hj hk

theorem moveForward_idxPos (s : Stages) (i : Nat) (h : s.IdxPos) : (s.moveSegmentCompletedForward i).IdxPos := by
  unfold moveSegmentCompletedForward
  exact setStage_idxPos s i _ rfl rfl h

/-! ### the initial state (`NewStages`, `FetchStoresState`) keeps the basic well-formedness -/

/-- what every operation on `Stages` preserves -/
structure Keep (s s' : Stages) : Prop where
  wf     : s.WF → s'.WF
  ok     : s.StagesOK → s'.StagesOK
  offset : s'.offset = s.offset
  global : s'.globalSeg = s.globalSeg
  idx    : s.IdxPos → s'.IdxPos

theorem Keep.refl (s : Stages) : Keep s s := ⟨id, id, rfl, rfl, id⟩
theorem Keep.trans {a b c : Stages} (h1 : Keep a b) (h2 : Keep b c) : Keep a c :=
  ⟨fun h => h2.wf (h1.wf h), fun h => h2.ok (h1.ok h), h2.offset.trans h1.offset, h2.global.trans h1.global,
   fun h => h2.idx (h1.idx h)⟩

theorem Keep.of_rest {s s' : Stages} (h : Rest s s') (hw : s.WF → s'.WF) : Keep s s' :=
  ⟨hw, h.stagesOK, h.offset, h.globalSeg, h.idxPos⟩

theorem transition_keep {s s' : Stages} {u : WorkUnit} {to : UnitState} {al : List UnitState}
    (h : s.transition u to al = .ok s') : Keep s s' := Keep.of_rest (transition_rest h) (transition_wf h)

theorem allocSet_keep {s s' : Stages} {i stg : Nat} {v : UnitState} (h : (s.allocSegments i).setState i stg v = .ok s') :
    Keep s s' :=
  Keep.of_rest ((allocSegments_rest s i).trans (setState_rest h)) (fun hw => setState_wf h (allocSegments_wf s i hw))

theorem moveForward_keep (s : Stages) (i : Nat) : Keep s (s.moveSegmentCompletedForward i) := by
  unfold moveSegmentCompletedForward
  simp only
  refine ⟨setStage_wf s i _, ?_, rfl, rfl, setStage_idxPos s i _ rfl rfl⟩
  intro hok
  by_cases hi : i < s.nStages
  · exact setStage_stagesOK s i _ rfl hi hok
  · intro x hx
    unfold setStage at hx
    simp only at hx
    rw [List.set_eq_of_length_le (by unfold Stages.nStages at hi; omega)] at hx
    exact hok x hx

theorem setShadowable_keep (s : Stages) (x : Nat) : Keep s (s.setShadowableSegment x) := by
  unfold setShadowableSegment
  split <;> exact ⟨id, id, rfl, rfl, id⟩

theorem noOpLoop_keep (stage : Nat) : ∀ (fuel i : Nat) (s s' : Stages), noOpLoop stage fuel i s = .ok s' → Keep s s' := by
  intro fuel
  induction fuel with
  | zero => intro i s s' h; simp only [noOpLoop] at h; injection h with h; subst h; exact Keep.refl _
  | succ n ih =>
    intro i s s' h
    simp only [noOpLoop] at h
    split at h
    · cases h
    · rename_i s1 h1; exact (allocSet_keep h1).trans (ih _ _ _ h)

theorem noOpStoresRow_keep (ls i : Nat) : ∀ (k : Nat) (s s' : Stages), noOpStoresRow ls i k s = .ok s' → Keep s s' := by
  intro k
  induction k with
  | zero => intro s s' h; simp only [noOpStoresRow] at h; injection h with h; subst h; exact Keep.refl _
  | succ n ih =>
    intro s s' h
    simp only [noOpStoresRow] at h
    split at h
    · exact ih _ _ h
    · split at h
      · cases h
      · rename_i s1 h1; exact (allocSet_keep h1).trans (ih _ _ h)

theorem noOpStoresLoop_keep (ls : Nat) : ∀ (fuel i : Nat) (s s' : Stages), noOpStoresLoop ls fuel i s = .ok s' → Keep s s' := by
  intro fuel
  induction fuel with
  | zero => intro i s s' h; simp only [noOpStoresLoop] at h; injection h with h; subst h; exact Keep.refl _
  | succ n ih =>
    intro i s s' h
    simp only [noOpStoresLoop] at h
    split at h
    · cases h
    · rename_i s1 h1; exact (noOpStoresRow_keep ls i _ _ _ h1).trans (ih _ _ _ h)

theorem fullsLoop_keep (segm : Segmenter) (st : Stage) (a b : Nat) (ms : Segmenter) :
    ∀ (l : List StoreFile) (s : Stages) (cm : List (WorkUnit × List Nat)) (s' : Stages) (cm' : List (WorkUnit × List Nat)),
      fullsLoop segm st a b ms l s cm = .ok (s', cm') → Keep s s' := by
  intro l
  induction l with
  | nil => intro s cm s' cm' h; simp only [fullsLoop] at h; injection h with h; injection h with h1 _; subst h1; exact Keep.refl _
  | cons f rest ih =>
    intro s cm s' cm' h
    simp only [fullsLoop] at h
    split at h
    · exact ih _ _ _ _ h
    · split at h
      · exact ih _ _ _ _ h
      · split at h
        · split at h
          · cases h
          · rename_i s1 h1; exact (transition_keep h1).trans (ih _ _ _ _ h)
        · exact ih _ _ _ _ h

theorem partialsLoop_keep (segm : Segmenter) (st : Stage) (a b : Nat) (ms : Segmenter) :
    ∀ (l : List StoreFile) (s : Stages) (pm : List (WorkUnit × List Nat)) (s' : Stages) (pm' : List (WorkUnit × List Nat)),
      partialsLoop segm st a b ms l s pm = .ok (s', pm') → Keep s s' := by
  intro l
  induction l with
  | nil => intro s pm s' pm' h; simp only [partialsLoop] at h; injection h with h; injection h with h1 _; subst h1; exact Keep.refl _
  | cons f rest ih =>
    intro s pm s' pm' h
    simp only [partialsLoop] at h
    split at h
    · exact ih _ _ _ _ h
    · split at h
      · exact ih _ _ _ _ h
      · split at h
        · exact ih _ _ _ _ h
        · split at h
          · split at h
            · cases h
            · rename_i s1 h1; exact (transition_keep h1).trans (ih _ _ _ _ h)
          · exact ih _ _ _ _ h

theorem fetchMods_keep (segm : Segmenter) (files : List StoreFile) (st : Stage) (si : Nat) :
    ∀ (l : List ModState) (mp : Nat) (s : Stages) (cm pm : List (WorkUnit × List Nat)) (r : Stages × List (WorkUnit × List Nat) × List (WorkUnit × List Nat)),
      fetchMods segm files st si l mp s cm pm = .ok r → Keep s r.1 := by
  intro l
  induction l with
  | nil => intro mp s cm pm r h; simp only [fetchMods] at h; injection h with h; subst h; exact Keep.refl _
  | cons m rest ih =>
    intro mp s cm pm r h
    simp only [fetchMods] at h
    split at h
    · cases h
    · rename_i s1 cm1 h1
      split at h
      · cases h
      · rename_i s2 pm1 h2
        exact ((fullsLoop_keep _ _ _ _ _ _ _ _ _ _ h1).trans (partialsLoop_keep _ _ _ _ _ _ _ _ _ _ h2)).trans (ih _ _ _ _ _ h)

theorem mapperLoop_keep (ms : Segmenter) (st : Stage) (si : Nat) :
    ∀ (l : List OutFile) (s : Stages) (cm : List (WorkUnit × List Nat)) (s' : Stages) (cm' : List (WorkUnit × List Nat)),
      mapperLoop ms st si l s cm = .ok (s', cm') → Keep s s' := by
  intro l
  induction l with
  | nil => intro s cm s' cm' h; simp only [mapperLoop] at h; injection h with h; injection h with h1 _; subst h1; exact Keep.refl _
  | cons f rest ih =>
    intro s cm s' cm' h
    simp only [mapperLoop] at h
    split at h
    · exact ih _ _ _ _ h
    · split at h
      · exact ih _ _ _ _ h
      · split at h
        · split at h
          · cases h
          · rename_i s1 h1; exact (transition_keep h1).trans (ih _ _ _ _ h)
        · exact ih _ _ _ _ h

theorem fetchStages_keep (segm : Segmenter) (files : Files) (mf : Option (List OutFile)) :
    ∀ (fuel si : Nat) (s : Stages) (cm pm : List (WorkUnit × List Nat)) (s' : Stages),
      fetchStages segm files mf fuel si s cm pm = .ok s' → Keep s s' := by
  intro fuel
  induction fuel with
  | zero => intro si s cm pm s' h; simp only [fetchStages] at h; injection h with h; subst h; exact Keep.refl _
  | succ n ih =>
    intro si s cm pm s' h
    simp only [fetchStages] at h
    split at h
    · split at h
      · exact ih _ _ _ _ _ h
      · split at h
        · cases h
        · split at h
          · cases h
          · split at h
            · cases h
            · rename_i s1 cm1 h1
              exact (mapperLoop_keep _ _ _ _ _ _ _ _ h1).trans (ih _ _ _ _ _ h)
    · split at h
      · cases h
      · rename_i s1 cm1 pm1 h1
        exact ((fetchMods_keep _ _ _ _ _ _ _ _ _ _ h1).trans (moveForward_keep _ _)).trans (ih _ _ _ _ _ h)

theorem fetchStoresState_keep {c : Cfg} {files : Files} {s s' : Stages} (h : fetchStoresState c files s = .ok s') : Keep s s' := by
  unfold fetchStoresState at h
  simp only at h
  split at h
  · cases h
  · split at h
    · cases h
    · split at h
      · cases h
      · split at h
        · cases h
        · rename_i s1 h1
          injection h with h; subst h
          exact (fetchStages_keep _ _ _ _ _ _ _ _ _ h1).trans (setShadowable_keep _ _)

/-- the stages built by `NewStages` are sane when the plan is -/
theorem newStagesList_ok (c : Cfg) (hc : c.OK) : ∀ (l : List StageCfg) (idx : Nat), ∀ st ∈ newStagesList c l idx,
    0 < st.seg.interval ∧ (st.seg.init < st.seg.end_ ∨ st.seg.lastIndex < st.seg.firstIndex) := by
  intro l
  induction l with
  | nil => intro idx st h; simp [newStagesList] at h
  | cons sc rest ih =>
    intro idx st h
    simp only [newStagesList] at h
    split at h
    · exact ih _ st h
    · rename_i sg hsg
      rcases List.mem_cons.1 h with h | h
      · subst h
        simp only
        -- the segmenter comes from one of the two ranges of the plan
        have hsgok : sg.interval = c.interval ∧ 0 < sg.end_ ∧ sg.end_ % c.interval = 0 := by
          split at hsg
          · unfold Cfg.writeOutSegmenter at hsg
            cases hw : c.writeExecOut with
            | none => rw [hw] at hsg; simp at hsg
            | some r =>
              rw [hw] at hsg; simp only [Option.map_some, Option.some.injEq] at hsg; subst hsg
              exact ⟨rfl, hc.2.2.1 r hw⟩
          · unfold Cfg.storesSegmenter at hsg
            cases hw : c.buildStores with
            | none => rw [hw] at hsg; simp at hsg
            | some r =>
              rw [hw] at hsg; simp only [Option.map_some, Option.some.injEq] at hsg; subst hsg
              exact ⟨rfl, hc.2.1 r hw⟩
        obtain ⟨hi, hpos, hmod⟩ := hsgok
        refine ⟨by rw [hi]; exact hc.1, ?_⟩
        generalize minList (sc.mods.headD 0) sc.mods = lowest
        by_cases hlt : lowest < sg.end_
        · left; exact hlt
        · right
          show (sg.end_ - 1) / sg.interval < lowest / sg.interval
          rw [hi]
          have hk := hc.1
          -- end = q * k with q ≥ 1
          have hq : sg.end_ = (sg.end_ / c.interval) * c.interval := by
            have := Nat.div_add_mod sg.end_ c.interval
            rw [hmod, Nat.add_zero, Nat.mul_comm] at this; exact this.symm
          have hq1 : 1 ≤ sg.end_ / c.interval := by
            apply Nat.le_of_not_lt; intro hc0
            have : sg.end_ / c.interval = 0 := Nat.lt_one_iff.mp hc0
            rw [this, Nat.zero_mul] at hq; omega
          have h1 : (sg.end_ - 1) / c.interval < sg.end_ / c.interval := by
            apply (Nat.div_lt_iff_lt_mul hk).2
            rw [← hq]; omega
          have h2 : sg.end_ / c.interval ≤ lowest / c.interval := Nat.div_le_div_right (Nat.le_of_not_lt hlt)
          exact Nat.lt_of_lt_of_le h1 h2
      · exact ih _ st h

theorem initSegmentsOffset_base {c : Cfg} {s s' : Stages} (h : initSegmentsOffset c s = .ok s')
    (hw : s.WF) (hok : s.StagesOK) (hidx : s.IdxPos) :
    s'.WF ∧ s'.StagesOK ∧ s'.offset ≤ s'.globalSeg.firstIndex ∧ s'.IdxPos := by
  unfold initSegmentsOffset at h
  simp only at h
  -- the state with the offset set
  generalize hs0 : ({ s with offset := s.globalSeg.firstIndex } : Stages) = s0 at h
  have hw0 : s0.WF := by subst hs0; exact hw
  have hok0 : s0.StagesOK := by subst hs0; exact hok
  have hoff0 : s0.offset ≤ s0.globalSeg.firstIndex := by subst hs0; exact Nat.le_refl _
  have hidx0 : s0.IdxPos := by subst hs0; exact hidx
  have fin : ∀ s1, Keep s0 s1 → ∀ s2, Keep s1 s2 → s2.WF ∧ s2.StagesOK ∧ s2.offset ≤ s2.globalSeg.firstIndex ∧ s2.IdxPos := by
    intro s1 k1 s2 k2
    have k := k1.trans k2
    exact ⟨k.wf hw0, k.ok hok0, by rw [k.offset, k.global]; exact hoff0, k.idx hidx0⟩
  split at h
  · cases h
  · rename_i s1 hr1
    have k1 : Keep s0 s1 := by
      split at hr1
      · injection hr1 with hr1; subst hr1; exact Keep.refl _
      · split at hr1
        · cases hr1
        · exact noOpLoop_keep _ _ _ _ _ hr1
    split at h
    · injection h with h; subst h; exact fin s1 k1 s1 (Keep.refl _)
    · exact fin s1 k1 s' (noOpStoresLoop_keep _ _ _ _ _ h)

/-- positions and `idx` of the store stages built by `NewStages` agree -/
theorem newStagesList_idx (c : Cfg) : ∀ (l : List StageCfg) (idx : Nat),
    (∀ i, i + 1 < l.length → (l.getD i ⟨.map, []⟩).kind = .store) →
    ∀ j, j < (newStagesList c l idx).length → ((newStagesList c l idx).getD j default).kind = .store →
      ((newStagesList c l idx).getD j default).idx = idx + j := by
  intro l
  induction l with
  | nil => intro idx _ j hj; simp [newStagesList] at hj
  | cons sc rest ih =>
    intro idx hl j hj hk
    have hrest : ∀ i, i + 1 < rest.length → (rest.getD i ⟨.map, []⟩).kind = .store := by
      intro i hi
      have := hl (i + 1) (by simp; omega)
      simpa using this
    cases hsegm : (if sc.kind = .map then c.writeOutSegmenter else c.storesSegmenter) with
    | none =>
      -- the stage is skipped
      have hnone := hsegm
      simp only [newStagesList, hsegm] at hj hk ⊢
      by_cases hsk : sc.kind = .store
      · -- a store stage is skipped: no store is kept at all
        exfalso
        have hstores : c.storesSegmenter = none := by
          simp only [hsk] at hnone
          simpa using hnone
        have : ∀ (l' : List StageCfg) (n : Nat), ∀ x ∈ newStagesList c l' n, x.kind ≠ .store := by
          intro l'
          induction l' with
          | nil => intro n x hx; simp [newStagesList] at hx
          | cons a as iha =>
            intro n x hx
            simp only [newStagesList] at hx
            split at hx
            · exact iha _ x hx
            · rename_i sg hsg
              rcases List.mem_cons.1 hx with hx | hx
              · subst hx
                simp only
                intro hka
                simp only [hka] at hsg
                rw [hstores] at hsg
                simp at hsg
              · exact iha _ x hx
        have hmem : (newStagesList c rest (idx + 1)).getD j default ∈ newStagesList c rest (idx + 1) := by
          rw [List.getD_eq_getElem?_getD, List.getElem?_eq_getElem hj]; exact List.getElem_mem _
        exact this _ _ _ hmem hk
      · -- a mapper stage is skipped: it is the last one
        have : rest = [] := by
          cases rest with
          | nil => rfl
          | cons r rs =>
            exfalso
            have := hl 0 (by simp)
            simp at this
            exact hsk this
        subst this
        simp [newStagesList] at hj
    | some sg =>
      simp only [newStagesList, hsegm] at hj hk ⊢
      cases j with
      | zero => simp
      | succ j' =>
        simp only [List.getD_cons_succ] at hk ⊢
        simp only [List.length_cons] at hj
        rw [ih (idx + 1) hrest j' (by omega) hk]
        omega

theorem initStages_base {c : Cfg} {files : Files} {s : Stages} (hc : c.OK) (h : initStages c files = .ok s) :
    s.WF ∧ s.StagesOK ∧ s.offset ≤ s.globalSeg.firstIndex ∧ s.IdxPos := by
  unfold initStages at h
  split at h
  · cases h
  · rename_i s0 h0
    unfold newStages at h0
    split at h0
    · cases h0
    · rename_i g hg
      have b0 := initSegmentsOffset_base h0 (by intro r hr; simp at hr)
        (by intro st hst; exact newStagesList_ok c hc _ _ st hst)
        (by
          intro j hj hk
          have := newStagesList_idx c c.graph 0 hc.2.2.2 j hj hk
          rw [Nat.zero_add] at this
          exact this)
      have k := fetchStoresState_keep h
      exact ⟨k.wf b0.1, k.ok b0.2.1, by rw [k.offset, k.global]; exact b0.2.2.1, k.idx b0.2.2.2⟩

/-! ### units only move forward (patched `markShadowedUnits`) -/

theorem getState_below_first (s : Stages) (seg stg : Nat) (h1 : s.offset ≤ seg) (h2 : seg - s.offset < s.states.length)
    (hb : s.stages ≠ [] ∧ seg < (s.stageAt stg).seg.firstIndex) : s.getState seg stg = .noOp := by
  unfold getState
  have c1 : ¬ seg ≥ s.offset + s.states.length := by omega
  rw [if_neg c1, if_pos (Or.inr hb)]

/-- no cell's rank decreases -/
def Mono (s s' : Stages) : Prop := ∀ seg stg, rank (s.getState seg stg) ≤ rank (s'.getState seg stg)

theorem Mono.refl (s : Stages) : Mono s s := fun _ _ => Nat.le_refl _
theorem Mono.trans {a b c : Stages} (h1 : Mono a b) (h2 : Mono b c) : Mono a c :=
  fun seg stg => Nat.le_trans (h1 seg stg) (h2 seg stg)

theorem Mono.of_eq {s s' : Stages} (h : ∀ seg stg, s'.getState seg stg = s.getState seg stg) : Mono s s' :=
  fun seg stg => by rw [h]; exact Nat.le_refl _

theorem allocSegments_mono (s : Stages) (x : Nat) : Mono s (s.allocSegments x) := by
  intro seg stg
  rcases getState_alloc s x seg stg with e | ⟨e1, e2⟩
  · rw [e]; exact Nat.le_refl _
  · rw [e1, e2]; exact Nat.le_refl _

/-- a transition whose allowed previous states all rank at most the new state -/
theorem transition_mono {s s' : Stages} {u : WorkUnit} {to : UnitState} {al : List UnitState}
    (h : s.transition u to al = .ok s') (hw : s.WF) (hal : ∀ x ∈ al, rank x ≤ rank to) : Mono s s' := by
  intro seg stg
  by_cases hc : seg = u.seg ∧ stg = u.stage
  · rw [hc.1, hc.2]
    have h1 := (transition_ok h).1
    rcases transition_target h hw with e | ⟨e, _⟩
    · rw [e]
      rcases getState_alloc s u.seg u.seg u.stage with ea | ⟨ea, _⟩
      · rw [← ea]; exact hal _ h1
      · rw [ea]; exact Nat.zero_le _
    · -- the cell still reads NoOp: it read NoOp or Pending before
      rw [e]
      have h2 := (transition_ok h).2
      have hsame := getState_setState_same h2 (allocSegments_wf s u.seg hw)
      rw [e] at hsame
      split at hsame
      · rename_i hb
        have hok := (setState_ok_iff _ _ _ _).1 ⟨s', h2⟩
        have hn : (s.allocSegments u.seg).getState u.seg u.stage = .noOp := by
          unfold getState
          have c1 : ¬ u.seg ≥ (s.allocSegments u.seg).offset + (s.allocSegments u.seg).states.length := by omega
          rw [if_neg c1, if_pos (Or.inr hb)]
        rcases getState_alloc s u.seg u.seg u.stage with ea | ⟨ea, _⟩
        · rw [← ea, hn]; exact Nat.le_refl _
        · rw [ea]; exact Nat.le_refl _
      · -- `to = noOp`
        have hto : rank to = rank UnitState.noOp := by rw [← hsame]
        rw [← hto]
        rcases getState_alloc s u.seg u.seg u.stage with ea | ⟨ea, _⟩
        · rw [← ea]; exact hal _ h1
        · rw [ea]; exact Nat.zero_le _
  · rcases transition_frame' h seg stg hc with e | ⟨e1, e2⟩
    · rw [e]; exact Nat.le_refl _
    · rw [e1, e2]; exact Nat.le_refl _

theorem markSegmentCompleted_mono {s s' : Stages} {u : WorkUnit} (h : s.markSegmentCompleted u = .ok s') (hw : s.WF) : Mono s s' :=
  transition_mono h hw (by intro x hx; simp at hx; rcases hx with h | h | h | h | h | h <;> subst h <;> simp [rank])
theorem markSegmentScheduled_mono {s s' : Stages} {u : WorkUnit} (h : s.markSegmentScheduled u = .ok s') (hw : s.WF) : Mono s s' :=
  transition_mono h hw (by intro x hx; simp at hx; subst hx; simp [rank])
theorem markSegmentPartialPresent_mono {s s' : Stages} {u : WorkUnit} (h : s.markSegmentPartialPresent u = .ok s') (hw : s.WF) : Mono s s' :=
  transition_mono h hw (by intro x hx; simp at hx; rcases hx with h | h <;> subst h <;> simp [rank])

/-- PATCHED `markShadowedUnits`: a Pending or Shadowed cell becomes Shadowed -/
theorem markShadowedLoop_mono (fix : Patch) (hf : fix.shadow = true) (seg : Nat) :
    ∀ (k : Nat) (s : Stages) (sh : Bool) (s' : Stages) (sh' : Bool), s.WF →
      markShadowedLoop fix seg k s sh = .ok (s', sh') → Mono s s' := by
  intro k
  induction k with
  | zero =>
    intro s sh s' sh' _ h
    simp only [markShadowedLoop] at h
    injection h with h; injection h with h1 _; subst h1; exact Mono.refl _
  | succ k ih =>
    intro s sh s' sh' hw h
    simp only [markShadowedLoop] at h
    split at h
    · injection h with h; injection h with h1 _; subst h1; exact Mono.refl _
    · split at h
      · rename_i hc
        split at h
        · cases h
        · rename_i s1 hs1
          have hA : s.getState seg k = .pending ∨ s.getState seg k = .shadowed := by
            unfold shadowCond at hc
            simp only [hf, if_true, Bool.and_eq_true, Bool.or_eq_true, beq_iff_eq] at hc
            exact hc.1
          have m1 : Mono s s1 := by
            intro seg' stg'
            by_cases hcell : seg' = seg ∧ stg' = k
            · rw [hcell.1, hcell.2, getState_setState_same hs1 hw]
              have hok := (setState_ok_iff _ _ _ _).1 ⟨s1, hs1⟩
              split
              · rename_i hb
                rw [getState_below_first s seg k hok.1 hok.2.1 hb]; exact Nat.le_refl _
              · rcases hA with hA | hA <;> rw [hA] <;> simp [rank]
            · rw [getState_setState_other hs1 seg' stg' hcell]; exact Nat.le_refl _
          exact m1.trans (ih s1 true s' sh' (setState_wf hs1 hw) h)
      · exact ih s sh s' sh' hw h

theorem markShadowedUnits_mono (fix : Patch) (hf : fix.shadow = true) (s : Stages) (seg : Nat) (s' : Stages) (sh : Bool)
    (hw : s.WF) (h : s.markShadowedUnits fix seg = .ok (s', sh)) : Mono s s' := by
  unfold markShadowedUnits at h
  split at h
  · injection h with h; injection h with h1 _; subst h1; exact Mono.refl _
  · exact (allocSegments_mono s seg).trans (markShadowedLoop_mono fix hf seg _ _ _ _ _ (allocSegments_wf s seg hw) h)

theorem nextJobStages_mono (fix : Patch) (seg : Nat) (sh : Bool) :
    ∀ (k : Nat) (s : Stages) (res : StageStep), s.WF → nextJobStages fix seg sh k s = .ok res →
      match res with
      | .next s' => Mono s s'
      | .found s' _ _ => Mono s s' := by
  intro k
  induction k with
  | zero =>
    intro s res _ h
    simp only [nextJobStages] at h
    injection h with h; subst h; exact Mono.refl _
  | succ k ih =>
    intro s res hw h
    simp only [nextJobStages] at h
    split at h
    · exact ih s res hw h
    · split at h
      · exact ih s res hw h
      · split at h
        · injection h with h; subst h; exact Mono.refl _
        · split at h
          · exact ih s res hw h
          · split at h
            · cases h
            · split at h
              · split at h
                · cases h
                · rename_i s1 hs1
                  have m1 := markSegmentCompleted_mono hs1 hw
                  have := ih s1 res (transition_wf hs1 hw) h
                  cases res with
                  | next s' => exact m1.trans this
                  | found s' u r => exact m1.trans this
              · split at h
                · split at h
                  · split at h
                    · cases h
                    · rename_i s' hs'; injection h with h; subst h; exact markSegmentScheduled_mono hs' hw
                  · split at h
                    · cases h
                    · rename_i s' hs'; injection h with h; subst h; exact markSegmentScheduled_mono hs' hw
                · split at h
                  · cases h
                  · rename_i s' hs'; injection h with h; subst h; exact markSegmentScheduled_mono hs' hw

theorem nextJobSegs_mono (fix : Patch) (hf : fix.shadow = true) :
    ∀ (fuel seg : Nat) (s s' : Stages) (res : Option (WorkUnit × Range)), s.WF →
      nextJobSegs fix fuel seg s = .ok (s', res) → Mono s s' := by
  intro fuel
  induction fuel with
  | zero =>
    intro seg s s' res _ h
    simp only [nextJobSegs] at h
    injection h with h; injection h with h1 _; subst h1; exact Mono.refl _
  | succ n ih =>
    intro seg s s' res hw h
    simp only [nextJobSegs] at h
    split at h
    · cases h
    · rename_i s1 sh hs1
      have m1 := markShadowedUnits_mono fix hf s seg s1 sh hw hs1
      have hw1 := (markShadowedUnits_pstep fix hf s seg s1 sh hw hs1).wf hw
      split at h
      · cases h
      · rename_i s2 u r hs2
        injection h with h; injection h with h1 _; subst h1
        exact m1.trans (nextJobStages_mono fix seg sh _ s1 _ hw1 hs2)
      · rename_i s2 hs2
        have m2 : Mono s1 s2 := nextJobStages_mono fix seg sh _ s1 _ hw1 hs2
        -- well-formedness of s2: the loop only makes transitions
        have hw2 : s2.WF := by
          have : ∀ (k : Nat) (a : Stages) (res : StageStep), a.WF → nextJobStages fix seg sh k a = .ok res →
              match res with | .next a' => a'.WF | .found a' _ _ => a'.WF := by
            intro k
            induction k with
            | zero => intro a res ha h; simp only [nextJobStages] at h; injection h with h; subst h; exact ha
            | succ k ihk =>
              intro a res ha h
              simp only [nextJobStages] at h
              split at h
              · exact ihk a res ha h
              · split at h
                · exact ihk a res ha h
                · split at h
                  · injection h with h; subst h; exact ha
                  · split at h
                    · exact ihk a res ha h
                    · split at h
                      · cases h
                      · split at h
                        · split at h
                          · cases h
                          · rename_i a1 ha1; exact ihk a1 res (transition_wf ha1 ha) h
                        · split at h
                          · split at h
                            · split at h
                              · cases h
                              · rename_i a' ha'; injection h with h; subst h; exact transition_wf ha' ha
                            · split at h
                              · cases h
                              · rename_i a' ha'; injection h with h; subst h; exact transition_wf ha' ha
                          · split at h
                            · cases h
                            · rename_i a' ha'; injection h with h; subst h; exact transition_wf ha' ha
          exact this _ s1 _ hw1 hs2
        exact (m1.trans m2).trans (ih (seg + 1) s2 s' res hw2 h)

theorem nextJob_mono (fix : Patch) (hf : fix.shadow = true) (s s' : Stages) (res : Option (WorkUnit × Range)) (hw : s.WF)
    (h : s.nextJob fix = .ok (s', res)) : Mono s s' :=
  nextJobSegs_mono fix hf _ _ s s' res hw h

theorem jobSuccessLoop_mono (seg : Nat) :
    ∀ (k : Nat) (s : Stages) (acc : List WorkUnit) (s' : Stages) (acc' : List WorkUnit), s.WF →
      jobSuccessLoop seg k s acc = .ok (s', acc') → Mono s s' := by
  intro k
  induction k with
  | zero => intro s acc s' acc' _ h; simp only [jobSuccessLoop] at h; injection h with h; injection h with h1 _; subst h1; exact Mono.refl _
  | succ k ih =>
    intro s acc s' acc' hw h
    simp only [jobSuccessLoop] at h
    split at h
    · split at h
      · cases h
      · rename_i s1 hs1
        exact (transition_mono hs1 hw (by intro x hx; simp at hx; subst hx; simp [rank])).trans
          (ih s1 _ s' acc' (transition_wf hs1 hw) h)
    · exact ih s acc s' acc' hw h

theorem markJobSuccess_mono {s s' : Stages} {u : WorkUnit} {l : List WorkUnit} (h : s.markJobSuccess u = .ok (s', l)) (hw : s.WF) :
    Mono s s' := by
  unfold markJobSuccess at h
  split at h
  · cases h
  · rename_i s1 hs1
    have m1 := markSegmentPartialPresent_mono hs1 hw
    split at h
    · exact m1.trans (jobSuccessLoop_mono u.seg _ s1 _ s' l (transition_wf hs1 hw) h)
    · injection h with h; injection h with h1 _; subst h1; exact m1

theorem cmdTryMerge_mono {s s' : Stages} {i : Nat} {t : TryMerge} (h : s.cmdTryMerge i = .ok (s', t)) (hw : s.WF) : Mono s s' := by
  cases t with
  | merge u =>
    have sp := cmdTryMerge_merge h hw
    intro seg stg
    by_cases hc : seg = u.seg ∧ stg = u.stage
    · rw [hc.1, hc.2, sp.2.2.2.1, sp.2.2.2.2.2.1]; simp [rank]
    · rcases sp.2.2.2.2.2.2.frame seg stg hc with e | ⟨e1, e2⟩
      · rw [e]; exact Nat.le_refl _
      · rw [e1, e2]; exact Nat.le_refl _
  | allStoresCompleted => rw [cmdTryMerge_other h (by intro u; simp)]; exact Mono.refl _
  | nothing => rw [cmdTryMerge_other h (by intro u; simp)]; exact Mono.refl _
  | notReady u' => rw [cmdTryMerge_other h (by intro u; simp)]; exact Mono.refl _

theorem mergeCompleted_mono {s s' : Stages} {u : WorkUnit} (h : s.mergeCompleted u = .ok s') (hw : s.WF) : Mono s s' := by
  unfold mergeCompleted at h
  split at h
  · cases h
  · rename_i s1 hs1
    injection h with h; subst h
    exact (markSegmentCompleted_mono hs1 hw).trans (Mono.of_eq (fun seg stg => moveForward_getState s1 _ seg stg))

/-! ### the dependencies of a unit that was chosen (patched `dependenciesCompleted`) -/

theorem depsLoopFix_spec (s : Stages) (seg : Nat) : ∀ (k : Nat), depsLoopFix s seg k = true →
    ∀ i, i < k → (seg < (s.stageAt i).seg.firstIndex ∨
      (((s.stageAt i).seg.firstIndex < seg → s.previousUnitComplete ⟨seg, i⟩ = true) ∧
       (s.getState seg i = .completed ∨ s.getState seg i = .noOp ∨ s.getState seg i = .shadowed ∨
        s.getState seg i = .partialPresent))) := by
  intro k
  induction k with
  | zero => intro _ i hi; omega
  | succ k ih =>
    intro h i hi
    simp only [depsLoopFix] at h
    split at h
    · rename_i hlt
      by_cases hik : i = k
      · subst hik; exact Or.inl hlt
      · exact ih h i (by omega)
    · rename_i hnlt
      split at h
      · cases h
      · rename_i hprev
        split at h
        all_goals first
          | (rename_i hst
             by_cases hik : i = k
             · subst hik
               right
               refine ⟨?_, by simp [hst]⟩
               intro hgt
               simp only [Bool.and_eq_true, decide_eq_true_eq, Bool.not_eq_true', not_and, Bool.not_eq_false] at hprev
               exact hprev hgt
             · exact ih h i (by omega))
          | cases h

/-- a unit chosen by the patched `NextJob` is the unit whose dependencies were checked -/
theorem Chosen.stage_eq {fix : Patch} {s s' : Stages} {u : WorkUnit} {r : Range} (hd : fix.deps = true)
    (h : Chosen fix s s' u r) : ∃ s0, PStep s s0 ∧ s0.WF ∧ dependenciesCompleted fix s0 u = true ∧
      s0.markSegmentScheduled u = .ok s' := by
  obtain ⟨s0, k, hp0, hw0, hk, hpk, hdeps, hfirst, hlast, hr, hne, hor, hpu, hlt, hs'⟩ := h
  refine ⟨s0, hp0, hw0, ?_, hs'⟩
  rcases hor with e | ⟨hk1, hfp, hal⟩
  · have : u = ⟨u.seg, k⟩ := by cases u; simp at e; simp [e]
    rw [this]; exact hdeps
  · -- the first Pending unit of the column is the top one: the units below are Completed/NoOp/Shadowed/Present
    have hj := firstPending_some s0 u.seg _ _ _ hfp
    have hmin := firstPending_min s0 u.seg _ _ _ hfp
    have hle : u.stage ≤ k := by
      apply Nat.le_of_not_lt; intro hc
      exact hmin k (Nat.zero_le _) hc hpk
    have : u.stage = k := by
      apply Nat.le_antisymm hle
      apply Nat.le_of_not_lt; intro hc
      -- u.stage < k: its state is Pending, but the dependency check of (seg, k) saw it not Pending
      unfold dependenciesCompleted at hdeps
      simp only [hd, if_true] at hdeps
      split at hdeps
      · omega
      · rcases depsLoopFix_spec s0 u.seg k hdeps u.stage hc with hb | ⟨_, hst⟩
        · -- below the stage's first segment an allocated cell reads NoOp
          have hne' : s0.stages ≠ [] := by
            intro hc'; have : s0.nStages = 0 := by simp [Stages.nStages, hc']
            omega
          have := first_le_of_pending_allocated s0 u.seg u.stage hpu hne' hal
          omega
        · rw [hpu] at hst; simp at hst
    have hu : u = ⟨u.seg, k⟩ := by cases u; simp at this; simp [this]
    rw [hu]; exact hdeps

end Stages
end SV.Stg

/-!
Layer A of C02: the algebra behind "squash = sequential", per key, at the level of typed values.

A policy is described, for one key, by
  * `F`   the typed value a full store holds for the key (what the property compares),
  * `P`   what a partial store holds for it (for `set_sum`: the value *and* whether a `set` happened),
  * `updF w` / `updP w`  the effect of one write `w` on either side,
  * `mrg x y`            the merge of a partial-side state `y` into a full-side state `x`,
and the two laws `mrg_none` and `hom` (merging then writing = writing then merging).  Deletions
(`delete_prefix` hitting the key) reset either side to "absent"; the partial side also remembers that
it happened.  From the two laws alone: building a store by merging the partial states of consecutive
segments equals applying all events sequentially, for every event list and every cut.  Core Lean only.
-/
namespace SV

structure KeyAlg (F P W : Type) where
  updF : W → Option F → Option F
  updP : W → Option P → Option P
  mrg  : Option F → Option P → Option F
  mrg_none : ∀ x, mrg x none = x
  hom  : ∀ w x y, updF w (mrg x y) = mrg x (updP w y)

/-- what happens to one key during a block: a write, or a `delete_prefix` that matches the key -/
inductive Ev (W : Type)
  | write (w : W)
  | del
deriving Repr

namespace KeyAlg
variable {F P W : Type} (A : KeyAlg F P W)

def stepF (x : Option F) : Ev W → Option F
  | .write w => A.updF w x
  | .del => none

/-- partial side: (a deletion happened since the segment started, state) -/
def stepP (s : Bool × Option P) : Ev W → Bool × Option P
  | .write w => (s.1, A.updP w s.2)
  | .del => (true, none)

def runF (es : List (Ev W)) (x : Option F) : Option F := es.foldl A.stepF x
def runP (es : List (Ev W)) (s : Bool × Option P) : Bool × Option P := es.foldl A.stepP s

/-- `Merge`: the partial's deleted prefixes are applied first, then its value is merged -/
def mrgD (x : Option F) (s : Bool × Option P) : Option F := A.mrg (if s.1 then none else x) s.2

theorem step_hom (x : Option F) (s : Bool × Option P) (e : Ev W) :
    A.stepF (A.mrgD x s) e = A.mrgD x (A.stepP s e) := by
  cases e with
  | write w => exact A.hom w _ _
  | del => simp only [stepF, stepP, mrgD, A.mrg_none, ↓reduceIte]

theorem run_hom (es : List (Ev W)) : ∀ (x : Option F) (s : Bool × Option P),
    A.runF es (A.mrgD x s) = A.mrgD x (A.runP es s) := by
  induction es with
  | nil => intro x s; rfl
  | cons e rest ih =>
    intro x s
    simp only [runF, runP, List.foldl_cons] at ih ⊢
    rw [A.step_hom, ih]

/-- one segment: continuing sequentially from `x` = merging into `x` the partial built from scratch -/
theorem segment (es : List (Ev W)) (x : Option F) :
    A.runF es x = A.mrgD x (A.runP es (false, none)) := by
  have := A.run_hom es x (false, none)
  simpa [mrgD, A.mrg_none] using this

/-- the squashed value: merge, in order, the partial state of every segment -/
def squash (segs : List (List (Ev W))) (x : Option F) : Option F :=
  segs.foldl (fun x seg => A.mrgD x (A.runP seg (false, none))) x

/-- **Squash = sequential**, for every list of segments (= every cut of every event list). -/
theorem squash_eq_seq (segs : List (List (Ev W))) : ∀ x : Option F,
    A.squash segs x = A.runF segs.flatten x := by
  induction segs with
  | nil => intro x; rfl
  | cons seg rest ih =>
    intro x
    simp only [squash, List.foldl_cons, List.flatten_cons] at ih ⊢
    rw [ih, ← A.segment]
    simp [runF, List.foldl_append]

end KeyAlg

/-! ### the policies -/

/-- `set`: last write wins -/
def algSet (V : Type) : KeyAlg V V V where
  updF v _ := some v
  updP v _ := some v
  mrg x y := match y with | some b => some b | none => x
  mrg_none _ := rfl
  hom _ _ _ := rfl

/-- `set_if_not_exists`: first write wins -/
def algSine (V : Type) : KeyAlg V V V where
  updF v x := match x with | some a => some a | none => some v
  updP v x := match x with | some a => some a | none => some v
  mrg x y := match x with | some a => some a | none => y
  mrg_none x := by cases x <;> rfl
  hom v x y := by cases x <;> cases y <;> rfl

/-- `append`: concatenation (limits not hit) -/
def algAppend (α : Type) : KeyAlg (List α) (List α) (List α) where
  updF v x := match x with | some a => some (a ++ v) | none => some v
  updP v x := match x with | some a => some (a ++ v) | none => some v
  mrg x y := match y with
    | none => x
    | some b => match x with | some a => some (a ++ b) | none => some b
  mrg_none _ := rfl
  hom v x y := by cases x <;> cases y <;> simp [List.append_assoc]

/-- what `add`, `min`, `max` and `set_sum` need of a value type: an associative combination -/
structure Combine (M : Type) where
  op    : M → M → M
  assoc : ∀ a b c, op (op a b) c = op a (op b c)

/-- `add` / `min` / `max`: `op` = addition / minimum / maximum.  An absent key is "no value yet": the
first write stores the operand, the merge into an absent key stores the partial's value (for `add` the
Go code computes `0 + v`, which is `v`: see the instances). -/
def algCombine {M : Type} (C : Combine M) : KeyAlg M M M where
  updF v x := match x with | some a => some (C.op a v) | none => some v
  updP v x := match x with | some a => some (C.op a v) | none => some v
  mrg x y := match y with
    | none => x
    | some b => match x with | some a => some (C.op a b) | none => some b
  mrg_none _ := rfl
  hom v x y := by cases x <;> cases y <;> simp [C.assoc]

/-- the writes of a `set_sum` store -/
inductive SS (M : Type) | set (v : M) | sum (v : M)

/-- `set_sum`: a full store's typed value is the number; a partial store also knows whether a `set`
happened in its segment (its tag `set:`): then its value replaces the full store's, else it is added. -/
def algSetSum {M : Type} (C : Combine M) : KeyAlg M (Bool × M) (SS M) where
  updF w x := match w with
    | .set v => some v
    | .sum v => match x with | some a => some (C.op a v) | none => some v
  updP w y := match w with
    | .set v => some (true, v)
    | .sum v => match y with | some (t, a) => some (t, C.op a v) | none => some (false, v)
  mrg x y := match y with
    | none => x
    | some (true, b) => some b
    | some (false, b) => match x with | some a => some (C.op a b) | none => some b
  mrg_none _ := rfl
  hom w x y := by
    cases w with
    | set v => cases y <;> rfl
    | sum v =>
      cases y with
      | none => cases x <;> rfl
      | some tb =>
        obtain ⟨t, b⟩ := tb
        cases t <;> cases x <;> simp [C.assoc]

end SV

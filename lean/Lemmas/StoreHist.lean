import Lemmas.Store
import Model.Merge
/-! Lemmas for C09 (replay of an operation log) and C11 (size accounting over histories). -/
namespace SV

/-! ### replay -/

theorem record_fold_eq (calls : List Op) (s : Store) :
    calls.foldl record s = { s with ops := s.ops ++ calls } := by
  induction calls generalizing s with
  | nil => simp
  | cons c rest ih => simp only [List.foldl_cons, ih, record, List.append_assoc, List.singleton_append]

/-- a successful flush leaves the sorted log in `ops` -/
theorem flush_ops {cfg : Cfg} {sem : Sem} {s s' : Store} (h : Clean s) (hp : flush cfg sem s = .ok s') :
    s'.ops = sortOps s.ops := by
  obtain ⟨_, _, i2⟩ := flush_inv h hp
  exact i2

/-- flushing a store whose log is already the sorted log of `s` is the same computation -/
theorem flush_sorted_log {cfg : Cfg} {sem : Sem} (s : Store) :
    flush cfg sem { s with ops := sortOps s.ops } = flush cfg sem s := by
  unfold flush
  simp only [sortOps_of_sorted _ (sortOps_sorted s.ops)]

theorem mem_addPfx (dp : List Bytes) (op : Op) (x : Bytes) :
    x ∈ addPfx dp op ↔ (x ∈ dp ∨ (op.kind = .deletePrefix ∧ op.key = x)) := by
  unfold addPfx
  split
  · rename_i h
    simp only [List.mem_append, List.mem_singleton]
    constructor
    · rintro (h1 | h1)
      · exact Or.inl h1
      · exact Or.inr ⟨h.1, h1.symm⟩
    · rintro (h1 | ⟨_, h1⟩)
      · exact Or.inl h1
      · exact Or.inr h1.symm
  · rename_i h
    constructor
    · exact Or.inl
    · rintro (h1 | ⟨hk, h1⟩)
      · exact h1
      · have : dp.contains op.key = true := by
          cases hcc : dp.contains op.key with
          | true => rfl
          | false => exact absurd ⟨hk, by rw [hcc]; simp⟩ h
        rw [← h1]; simpa using this

theorem mem_foldl_addPfx (ops : List Op) : ∀ (dp : List Bytes) (x : Bytes),
    x ∈ ops.foldl addPfx dp ↔ (x ∈ dp ∨ ∃ o ∈ ops, o.kind = .deletePrefix ∧ o.key = x) := by
  induction ops with
  | nil => intro dp x; simp
  | cons c rest ih =>
    intro dp x
    simp only [List.foldl_cons, ih, mem_addPfx, List.mem_cons, exists_eq_or_imp]
    constructor
    · rintro ((h | h) | h)
      · exact Or.inl h
      · exact Or.inr (Or.inl h)
      · exact Or.inr (Or.inr h)
    · rintro (h | h | h)
      · exact Or.inl (Or.inl h)
      · exact Or.inl (Or.inr h)
      · exact Or.inr h

theorem partial_record_fold (calls : List Op) : ∀ q : Partial,
    calls.foldl Partial.record q = ⟨calls.foldl record q.store, calls.foldl addPfx q.deletedPrefixes⟩ := by
  induction calls with
  | nil => intro q; rfl
  | cons c rest ih => intro q; simp only [List.foldl_cons, ih]; rfl

/-! ### undo -/

def revOne (s : Store) (d : Delta) : Store := { s with kv := revDeltaKV s.kv d, size := revDeltaSize s.size d }

theorem applyDeltasReverse_snoc (s : Store) (l : List Delta) (d : Delta) :
    applyDeltasReverse s (l ++ [d]) = applyDeltasReverse (revOne s d) l := by
  unfold applyDeltasReverse
  rw [List.reverse_append]
  rfl

theorem look_revDeltaKV (kv : KV) (d : Delta) (f : Content) (hw : WFd f d) (hkv : look kv = stepF f d) :
    look (revDeltaKV kv d) = f := by
  funext k
  unfold revDeltaKV WFd at *
  cases hop : d.op <;> simp only [hop] at hw ⊢
  · rw [look_del]
    by_cases h : d.key = k
    · subst h; simp [hw]
    · simp only [h, ↓reduceIte, hkv, stepF_ne _ _ _ h]
  · rw [look_ins]
    by_cases h : d.key = k
    · subst h; simp [hw]
    · simp only [h, ↓reduceIte, hkv, stepF_ne _ _ _ h]
  · rw [look_ins]
    by_cases h : d.key = k
    · subst h; simp [hw]
    · simp only [h, ↓reduceIte, hkv, stepF_ne _ _ _ h]

theorem nodup_revDeltaKV {kv : KV} (hn : NodupKeys kv) (d : Delta) : NodupKeys (revDeltaKV kv d) := by
  unfold revDeltaKV
  cases d.op <;> simp [nodup_ins hn, nodup_del hn]

theorem size_revDelta {kv : KV} (hn : NodupKeys kv) (d : Delta) (f : Content) (hw : WFd f d)
    (hkv : look kv = stepF f d) (size : Nat) (hs : size = kvSize kv) :
    revDeltaSize size d = kvSize (revDeltaKV kv d) := by
  have hk : look kv d.key = (match d.op with | .delete => none | _ => some d.new) := by
    rw [hkv]; unfold stepF; simp only [↓reduceIte]; cases d.op <;> rfl
  unfold revDeltaSize revDeltaKV WFd at *
  subst hs
  cases hop : d.op <;> simp only [hop] at hw hk ⊢
  · have := kvSize_del hn hk; omega
  · have := kvSize_ins_some d.old hk
    have := kvSize_ge hk
    repeat' split
    all_goals omega
  · have := kvSize_ins_none d.old hk; omega

/-- undoing the deltas of a block restores the pre-block content, with exact size -/
theorem undo_spec (f : Content) : ∀ (ds : List Delta) (s : Store),
    Chain f ds → look s.kv = postF f ds → NodupKeys s.kv → s.size = kvSize s.kv →
    look (applyDeltasReverse s ds).kv = f ∧ NodupKeys (applyDeltasReverse s ds).kv ∧
    (applyDeltasReverse s ds).size = kvSize (applyDeltasReverse s ds).kv := by
  intro ds
  induction ds using snoc_induction with
  | hnil =>
    intro s _ hkv hn hs
    exact ⟨by simpa [applyDeltasReverse, postF] using hkv, hn, hs⟩
  | hsnoc l d ih =>
    intro s hch hkv hn hs
    obtain ⟨hcl, hw⟩ := (chain_snoc l d f).1 hch
    rw [postF_snoc] at hkv
    rw [applyDeltasReverse_snoc]
    apply ih (revOne s d) hcl
    · exact look_revDeltaKV s.kv d _ hw hkv
    · exact nodup_revDeltaKV hn d
    · exact size_revDelta hn d _ hw hkv s.size hs

/-! ### merge -/

/-- the size invariant of a store at rest -/
structure SInv (s : Store) : Prop where
  nodup : NodupKeys s.kv
  size  : s.size = kvSize s.kv

theorem setKV_inv {s : Store} (h : SInv s) (k v : Bytes) : SInv (setKV s k v) := by
  refine ⟨nodup_ins h.nodup k v, ?_⟩
  unfold setKV
  cases hl : look s.kv k with
  | none => simp only; rw [kvSize_ins_none v hl, h.size]
  | some prev =>
    simp only
    have := kvSize_ins_some v hl
    have := kvSize_ge hl
    rw [h.size]; omega

theorem setNewKV_inv {s : Store} (h : SInv s) (k v : Bytes) (hl : look s.kv k = none) : SInv (setNewKV s k v) := by
  refine ⟨nodup_ins h.nodup k v, ?_⟩
  unfold setNewKV
  simp only; rw [kvSize_ins_none v hl, h.size]; omega

theorem mergeKey_inv {cfg : Cfg} {s s' : Store} {k v : Bytes} (h : SInv s)
    (hm : mergeKey cfg s k v = some (.ok s')) : SInv s' := by
  unfold mergeKey at hm
  -- every successful branch is `s`, `setKV s k _` or `setNewKV s k _` under `look s.kv k = none`
  have A : ∀ x, SInv (setKV s k x) := fun x => setKV_inv h k x
  have B : ∀ x, look s.kv k = none → SInv (setNewKV s k x) := fun x hl => setNewKV_inv h k x hl
  revert hm
  dsimp only
  cases hl : look s.kv k <;> cases cfg.policy <;> cases cfg.vt <;>
    simp only [Option.isSome_none, Option.isSome_some, Bool.false_eq_true, ↓reduceIte] <;>
    (intro hm
     repeat' (split at hm)
     all_goals first
       | (simp at hm; done)
       | (simp only [Option.some.injEq, Except.ok.injEq] at hm; subst hm; first | exact h | exact A _ | exact B _ hl))

end SV

import Lemmas.ValidateStages
/-!
Helper lemmas for C17, part 3: the recursion of `hashModule` is bounded by the rank of the module in
the (acyclic) graph; the set of used modules satisfies `UsedOK`.
-/
namespace SV.Val

/-- what `newModuleGraph ms = ok g` establishes -/
structure GraphOK (ms : List Module) (g : MGraph) : Prop where
  hms : g.ms = ms
  hadj : g.adj = ms.map (edgesOf ms)
  hord : g.order = topoOrder g.adj
  hlen : g.order.length = ms.length

theorem graphOK_of_ok {ms : List Module} {g : MGraph} (h : newModuleGraph ms = .ok g) : GraphOK ms g := by
  rcases newModuleGraph_cases ms with he | ⟨hok, hlen⟩
  · rw [he] at h; cases h
  · rw [hok] at h; injection h with h; subst h
    exact ⟨rfl, rfl, rfl, hlen⟩

theorem GraphOK.adj_len {ms : List Module} {g : MGraph} (h : GraphOK ms g) : g.adj.length = ms.length := by
  rw [h.hadj]; simp

theorem GraphOK.adjOK {ms : List Module} {g : MGraph} (h : GraphOK ms g) : AdjOK g.adj := by
  rw [h.hadj]; exact adjOK_map ms

theorem GraphOK.rank_succ {ms : List Module} {g : MGraph} (h : GraphOK ms g) {v w : Nat}
    (hv : v < ms.length) (hw : w ∈ succs g.adj v) : rank g.order w < rank g.order v := by
  rw [h.hord]
  apply rank_succ_lt
  · rw [← h.hord, h.hlen, h.adj_len]
  · rw [h.adj_len]; exact hv
  · exact hw

theorem GraphOK.rank_lt {ms : List Module} {g : MGraph} (h : GraphOK ms g) {v : Nat}
    (hv : v < ms.length) : rank g.order v < ms.length := by
  have := rank_lt_length (adj := g.adj) (by rw [← h.hord, h.hlen, h.adj_len]) (v := v) (by rw [h.adj_len]; exact hv)
  rw [← h.hord, h.adj_len] at this
  exact this

/-- everything reachable from `v` other than `v` has a smaller rank; the reachable set is closed -/
theorem GraphOK.reach {ms : List Module} {g : MGraph} (h : GraphOK ms g) {v : Nat} (hv : v < ms.length) :
    ReachRes g.adj (fun u => u < ms.length ∧ (u = v ∨ rank g.order u < rank g.order v)) v (reach g.adj v) := by
  apply reach_spec h.adjOK
  · intro u w ⟨hu, hq⟩ hw
    have hwlt : w < ms.length := by have := succs_lt h.adjOK hw; rw [h.adj_len] at this; exact this
    refine ⟨hwlt, Or.inr ?_⟩
    have := h.rank_succ hu hw
    rcases hq with hq | hq
    · subst hq; exact this
    · omega
  · rw [h.adj_len]; exact hv
  · exact ⟨hv, Or.inl rfl⟩

/-! ### foldOutcome -/

theorem foldOutcome_good {σ α : Type} (step : σ → α → Outcome σ) (l : List α)
    (h : ∀ a ∈ l, ∀ s, Good (step s a)) : ∀ s, Good (foldOutcome step s l) := by
  induction l with
  | nil => intro s; simp [foldOutcome]
  | cons a r ih =>
    intro s
    unfold foldOutcome
    rw [good_bind]
    exact ⟨h a List.mem_cons_self s, fun s' _ => ih (fun b hb => h b (List.mem_cons_of_mem _ hb)) s'⟩

/-! ### the edges of a module -/

theorem filter_edge {ms : List Module} {m : Module} {bf : BlockFilter} {j : Nat}
    (hbf : m.blockFilter = some bf) (hj : lookupIdx bf.module ms = some j) : j ∈ edgesOf ms m := by
  unfold edgesOf
  apply List.mem_append_right
  rw [hbf]; simp [hj]

theorem input_edge_map {ms : List Module} {m : Module} {n : Str} {j : Nat}
    (hk : some (InputK.map n) ∈ m.inputs) (hne : n ≠ []) (hj : lookupIdx n ms = some j) :
    j ∈ edgesOf ms m := by
  unfold edgesOf
  apply List.mem_append_left
  apply List.mem_filterMap.2
  refine ⟨some (.map n), hk, ?_⟩
  simp [inputEdge, hne, hj]

theorem input_edge_store {ms : List Module} {m : Module} {n : Str} {md : Int} {j : Nat}
    (hk : some (InputK.store n md) ∈ m.inputs) (hne : n ≠ []) (hj : lookupIdx n ms = some j) :
    j ∈ edgesOf ms m := by
  unfold edgesOf
  apply List.mem_append_left
  apply List.mem_filterMap.2
  refine ⟨some (.store n md), hk, ?_⟩
  simp [inputEdge, hne, hj]

/-! ### hashModule -/

theorem module_spec {ms : List Module} {g : MGraph} (h : GraphOK ms g) (name : Str) :
    g.module name = .error ∨ ∃ j fm, lookupIdx name ms = some j ∧ ms[j]? = some fm ∧ g.module name = .ok fm := by
  unfold MGraph.module
  rw [h.hms]
  cases hl : lookupIdx name ms with
  | none => left; rfl
  | some j =>
    right
    obtain ⟨fm, hfm, _⟩ := lookupIdx_some hl
    exact ⟨j, fm, rfl, hfm, by simp [hfm]⟩

theorem hashBody_good {ms : List Module} {g : MGraph} (hg : GraphOK ms g)
    (hnd : (ms.map (·.name)).Nodup) (mods : Modules)
    (rec : List Str → Module → Outcome (List Str)) {m : Module} {v : Nat} (hv : ms[v]? = some m)
    (hrec : ∀ (w : Nat) (a : Module), ms[w]? = some a → rank g.order w < rank g.order v → ∀ c, Good (rec c a))
    (cache : List Str) : Good (hashBody mods g rec cache m) := by
  have hvlt : v < ms.length := (List.getElem?_eq_some_iff.1 hv).1
  unfold hashBody
  split
  · simp
  split
  · simp
  split
  · simp
  split
  · simp
  rw [good_bind]
  constructor
  · -- the block filter module
    cases hbf : m.blockFilter with
    | none => simp
    | some bf =>
      simp only
      rcases module_spec hg bf.module with he | ⟨j, fm, hj, hfm, hok⟩
      · rw [he]; simp
      · rw [hok]
        simp only [bind_ok]
        rw [good_bind]
        constructor
        · apply hrec j fm hfm
          apply hg.rank_succ hvlt
          rw [hg.hadj, succs_map hv]
          exact filter_edge hbf hj
        · intro c _; split <;> simp
  · intro c1 _
    rw [good_bind]
    have hidx : lookupIdx m.name ms = some v := lookupIdx_of_getElem hnd hv
    have hR := hg.reach hvlt
    constructor
    · have := ancestorsOf_good g m.name
      cases hanc : g.ancestorsOf m.name with
      | ok l => simp
      | error => simp
      | panic => rw [hanc] at this; simp at this
      | hang => rw [hanc] at this; simp at this
    · intro anc hanc
      rw [good_bind]
      constructor
      · apply foldOutcome_good
        intro a ha c
        -- every ancestor sits at an index reachable from v, other than v
        have hmem : ∃ w : Nat, ms[w]? = some a ∧ rank g.order w < rank g.order v := by
          unfold MGraph.ancestorsOf at hanc
          rw [hg.hms, hidx] at hanc
          simp only at hanc
          obtain ⟨l, hl, hl1, _⟩ := modulesAt_spec ms
            ((List.range ms.length).filter fun i => i != v && (reach g.adj v).contains i)
            (fun i hi => List.mem_range.1 (List.mem_filter.1 hi).1)
          rw [hl] at hanc
          simp only at hanc
          injection hanc with hanc
          subst hanc
          obtain ⟨w, hw, hwa⟩ := hl1 a ha
          have hw' := (List.mem_filter.1 hw).2
          simp only [Bool.and_eq_true, bne_iff_ne, ne_eq, List.contains_eq_mem, decide_eq_true_eq] at hw'
          obtain ⟨_, hq⟩ := hR.q w hw'.2
          rcases hq with hq | hq
          · exact absurd hq hw'.1
          · exact ⟨w, hwa, hq⟩
        obtain ⟨w, hwa, hlt⟩ := hmem
        exact hrec w a hwa hlt c
      · intro c2 _; simp

theorem hashModule_good {ms : List Module} {g : MGraph} (hg : GraphOK ms g)
    (hnd : (ms.map (·.name)).Nodup) (mods : Modules) :
    ∀ (fuel : Nat) (m : Module) (v : Nat), ms[v]? = some m → rank g.order v < fuel →
      ∀ cache, Good (hashModule mods g fuel cache m) := by
  intro fuel
  induction fuel with
  | zero => intro m v _ h; omega
  | succ k ih =>
    intro m v hv hlt cache
    unfold hashModule
    apply hashBody_good hg hnd mods _ hv
    intro w a hwa hw c
    exact ih a w hwa (by omega) c

theorem hashModules_good {ms : List Module} {g : MGraph} (hg : GraphOK ms g)
    (hnd : (ms.map (·.name)).Nodup) (mods : Modules) (used : List Module)
    (hused : ∀ m ∈ used, ∃ v : Nat, ms[v]? = some m) : Good (hashModules mods g used) := by
  unfold hashModules
  apply foldOutcome_good
  intro m hm c
  obtain ⟨v, hv⟩ := hused m hm
  have hvlt : v < ms.length := (List.getElem?_eq_some_iff.1 hv).1
  apply hashModule_good hg hnd mods (hashFuel g) m v hv
  unfold hashFuel
  rw [hg.hms]
  have := hg.rank_lt hvlt
  omega

/-! ### the used modules -/

/-- what validation establishes about the module list (see `validateModules_ok` in Lemmas/Validate) -/
structure ModsOK (ms : List Module) : Prop where
  nodup : (ms.map (·.name)).Nodup
  nameNe : ∀ m ∈ ms, m.name ≠ []
  kinds : ∀ m ∈ ms, m.kind ≠ none
  present : ∀ m ∈ ms, ∀ i ∈ m.inputs, i ≠ none
  refs : ∀ m ∈ ms, ∀ nm ∈ depNames m, ∃ m' ∈ ms, m'.name = nm
  count : ms.length ≤ 100
  inputCount : ∀ m ∈ ms, m.inputs.length ≤ 30

/-- rank of a module name -/
def nameRank (g : MGraph) (nm : Str) : Nat :=
  match lookupIdx nm g.ms with
  | some j => rank g.order j
  | none => 0

theorem dep_edge {ms : List Module} (hM : ModsOK ms) {m : Module} (hm : m ∈ ms) {nm : Str}
    (hnm : nm ∈ depNames m) : ∃ j, lookupIdx nm ms = some j ∧ j ∈ edgesOf ms m := by
  obtain ⟨m', hm', hn'⟩ := hM.refs m hm nm hnm
  obtain ⟨j, hj⟩ := lookupIdx_isSome_of_name ⟨m', hm', hn'⟩
  refine ⟨j, hj, ?_⟩
  have hne : nm ≠ [] := by rw [← hn']; exact hM.nameNe m' hm'
  unfold depNames at hnm
  rcases List.mem_append.1 hnm with h | h
  · obtain ⟨i, hi, hik⟩ := List.mem_filterMap.1 h
    cases i with
    | none => simp at hik
    | some k =>
      cases k with
      | params v => simp at hik
      | source t => simp at hik
      | map n =>
        simp at hik; subst hik
        exact input_edge_map hi hne hj
      | store n md =>
        simp at hik; subst hik
        exact input_edge_store hi hne hj
  · cases hbf : m.blockFilter with
    | none => rw [hbf] at h; simp at h
    | some bf =>
      rw [hbf] at h; simp at h; subst h
      exact filter_edge hbf hj

theorem modulesDownTo_spec {ms : List Module} {g : MGraph} (hg : GraphOK ms g) (hM : ModsOK ms)
    (out : Str) :
    g.modulesDownTo out = .error ∨
    ∃ used, g.modulesDownTo out = .ok used ∧ UsedOK used (nameRank g) ∧
      (∀ m ∈ used, ∃ v : Nat, ms[v]? = some m) ∧ (∃ m ∈ used, m.name = out) ∧
      used.length ≤ ms.length := by
  unfold MGraph.modulesDownTo
  have hts : g.topSortOk = true := by unfold MGraph.topSortOk; rw [hg.hms, hg.hlen]; simp
  simp only [hts, Bool.not_true, Bool.false_eq_true, if_false]
  rw [hg.hms]
  cases hl : lookupIdx out ms with
  | none => left; rfl
  | some v0 =>
    right
    simp only
    have hv0 : v0 < ms.length := lookupIdx_lt hl
    have hR := hg.reach hv0
    obtain ⟨l, hlok, hl1, hl2⟩ := modulesAt_spec ms
      ((List.range ms.length).filter (reach g.adj v0).contains)
      (fun i hi => List.mem_range.1 (List.mem_filter.1 hi).1)
    rw [hlok]
    simp only [bind_ok]
    obtain ⟨hd1, hd2, hd3⟩ := dedupByName_spec l [] (by simp)
    have hlmem : ∀ m ∈ l, ∃ w : Nat, w ∈ reach g.adj v0 ∧ ms[w]? = some m := by
      intro m hm
      obtain ⟨w, hw, hwm⟩ := hl1 m hm
      have := (List.mem_filter.1 hw).2
      exact ⟨w, by simpa using this, hwm⟩
    have hmem : ∀ m ∈ dedupByName l [], ∃ w : Nat, w ∈ reach g.adj v0 ∧ ms[w]? = some m := by
      intro m hm
      rcases hd2 m hm with h | h
      · cases h
      · exact hlmem m h
    -- every reachable index has its module (by name) among the result
    have hcover : ∀ w, w ∈ reach g.adj v0 → ∃ m a, ms[w]? = some m ∧ a ∈ dedupByName l [] ∧ a.name = m.name := by
      intro w hw
      have hwlt : w < ms.length := by have := hR.lt w hw; rw [hg.adj_len] at this; exact this
      have hwf : w ∈ (List.range ms.length).filter (reach g.adj v0).contains := by
        rw [List.mem_filter]; exact ⟨List.mem_range.2 hwlt, by simpa using hw⟩
      obtain ⟨m, hm, hwm⟩ := hl2 w hwf
      obtain ⟨a, ha, han⟩ := hd3 m (Or.inr hm)
      exact ⟨m, a, hwm, ha, han⟩
    refine ⟨_, rfl, ?_, ?_, ?_, ?_⟩
    · refine ⟨hd1, ?_, ?_, ?_⟩
      · intro m hm
        obtain ⟨w, _, hwm⟩ := hmem m hm
        exact hM.present m (List.mem_of_getElem? hwm)
      · intro m hm nm hnm
        obtain ⟨w, hw, hwm⟩ := hmem m hm
        obtain ⟨j, hj, hje⟩ := dep_edge hM (List.mem_of_getElem? hwm) hnm
        have hjs : j ∈ succs g.adj w := by rw [hg.hadj, succs_map hwm]; exact hje
        have hjr := hR.closed w hw j hjs
        obtain ⟨mj, a, hmj, ha, han⟩ := hcover j hjr
        obtain ⟨mj', hmj', hn'⟩ := lookupIdx_some hj
        rw [hmj] at hmj'; injection hmj' with hmj'; subst hmj'
        exact ⟨a, ha, by rw [han, hn']⟩
      · intro m hm nm hnm
        obtain ⟨w, hw, hwm⟩ := hmem m hm
        have hwlt : w < ms.length := (List.getElem?_eq_some_iff.1 hwm).1
        obtain ⟨j, hj, hje⟩ := dep_edge hM (List.mem_of_getElem? hwm) hnm
        have hjs : j ∈ succs g.adj w := by rw [hg.hadj, succs_map hwm]; exact hje
        have := hg.rank_succ hwlt hjs
        unfold nameRank
        rw [hg.hms, hj, lookupIdx_of_getElem hM.nodup hwm]
        exact this
    · intro m hm
      obtain ⟨w, _, hwm⟩ := hmem m hm
      exact ⟨w, hwm⟩
    · obtain ⟨m, a, hm, ha, han⟩ := hcover v0 hR.root
      obtain ⟨m', hm', hn'⟩ := lookupIdx_some hl
      rw [hm] at hm'; injection hm' with hm'; subst hm'
      exact ⟨a, ha, by rw [han, hn']⟩
    · -- distinct names, all of them names of modules of `ms`
      have h1 : ((dedupByName l []).map (·.name)).length ≤ (ms.map (·.name)).length := by
        apply List.Nodup.length_le_of_subset hd1
        intro x hx
        obtain ⟨a, ha, hax⟩ := List.mem_map.1 hx
        obtain ⟨w, _, hwm⟩ := hmem a ha
        exact List.mem_map.2 ⟨a, List.mem_of_getElem? hwm, hax⟩
      simpa using h1

end SV.Val

import Lemmas.Sched
/-!
# C05 — termination measure of the scheduler model

`LenLe B`: the unit-state matrix never grows beyond segment `B` (no function of `Stages` allocates a row beyond
the last segment of the request); the rank potential `potR`, the walker potential and the weight of the bag;
every step that is not a poll (file not there yet, worker ramp-up delay) decreases their lexicographic
combination.
-/
namespace SV.Stg.Stages
open SV SV.Stg

/-- the matrix has no row beyond segment `B` -/
def LenLe (B : Nat) (s : Stages) : Prop := s.offset + s.states.length ≤ B + 1

theorem allocSegments_lenLe {B : Nat} (s : Stages) (seg : Nat) (h : seg ≤ B) (hl : LenLe B s) :
    LenLe B (s.allocSegments seg) := by
  unfold allocSegments
  split
  · exact hl
  · split
    · exact hl
    · unfold LenLe at *
      simp only [List.length_append, List.length_replicate]
      omega

theorem setState_lenLe {B : Nat} {s s' : Stages} {seg stg : Nat} {v : UnitState} (h : s.setState seg stg v = .ok s')
    (hl : LenLe B s) : LenLe B s' := by
  unfold LenLe at *
  rw [setState_length h, (setState_rest h).offset]; exact hl

theorem transition_lenLe {B : Nat} {s s' : Stages} {u : WorkUnit} {to : UnitState} {al : List UnitState}
    (h : s.transition u to al = .ok s') (hu : u.seg ≤ B) (hl : LenLe B s) : LenLe B s' := by
  unfold transition at h
  simp only at h
  split at h
  · exact setState_lenLe h (allocSegments_lenLe s u.seg hu hl)
  · cases h

/-- a cell that answers neither Pending nor NoOp lies inside the matrix -/
theorem seg_le_of_state {B : Nat} (s : Stages) (hw : s.WF) (hl : LenLe B s) (seg stg : Nat)
    (h1 : s.getState seg stg ≠ .pending) (h2 : s.getState seg stg ≠ .noOp) : seg ≤ B ∧ stg < s.nStages := by
  obtain ⟨a, b, c⟩ := in_range_of_state s hw seg stg h1 h2
  unfold LenLe at hl
  exact ⟨by omega, c⟩

theorem markShadowedLoop_lenLe {B : Nat} (fix : Patch) (seg : Nat) :
    ∀ (k : Nat) (s : Stages) (sh : Bool) (s' : Stages) (sh' : Bool),
      markShadowedLoop fix seg k s sh = .ok (s', sh') → LenLe B s → LenLe B s' := by
  intro k
  induction k with
  | zero =>
    intro s sh s' sh' h hl
    simp only [markShadowedLoop] at h
    injection h with h; injection h with h1 _; subst h1; exact hl
  | succ k ih =>
    intro s sh s' sh' h hl
    simp only [markShadowedLoop] at h
    split at h
    · injection h with h; injection h with h1 _; subst h1; exact hl
    · split at h
      · split at h
        · cases h
        · rename_i s1 hs1
          exact ih s1 true s' sh' h (setState_lenLe hs1 hl)
      · exact ih s sh s' sh' h hl

theorem markShadowedUnits_lenLe {B : Nat} (fix : Patch) (s : Stages) (seg : Nat) (s' : Stages) (sh : Bool)
    (h : s.markShadowedUnits fix seg = .ok (s', sh)) (hseg : seg ≤ B) (hl : LenLe B s) : LenLe B s' := by
  unfold markShadowedUnits at h
  split at h
  · injection h with h; injection h with h1 _; subst h1; exact hl
  · exact markShadowedLoop_lenLe fix seg _ _ _ _ _ h (allocSegments_lenLe s seg hseg hl)

theorem nextJobStages_lenLe {B : Nat} (fix : Patch) (seg : Nat) (hseg : seg ≤ B) (sh : Bool) :
    ∀ (k : Nat) (s : Stages) (res : StageStep), LenLe B s → nextJobStages fix seg sh k s = .ok res →
      match res with
      | .next s' => LenLe B s'
      | .found s' _ _ => LenLe B s' := by
  intro k
  induction k with
  | zero =>
    intro s res hl h
    simp only [nextJobStages] at h
    injection h with h; subst h; exact hl
  | succ k ih =>
    intro s res hl h
    simp only [nextJobStages] at h
    split at h
    · exact ih s res hl h
    · split at h
      · exact ih s res hl h
      · split at h
        · injection h with h; subst h; exact hl
        · split at h
          · exact ih s res hl h
          · split at h
            · cases h
            · split at h
              · split at h
                · cases h
                · rename_i s1 hs1
                  exact ih s1 res (transition_lenLe hs1 hseg hl) h
              · split at h
                · split at h
                  · split at h
                    · cases h
                    · rename_i s' hs'; injection h with h; subst h; exact transition_lenLe hs' hseg hl
                  · split at h
                    · cases h
                    · rename_i s' hs'; injection h with h; subst h; exact transition_lenLe hs' hseg hl
                · split at h
                  · cases h
                  · rename_i s' hs'; injection h with h; subst h; exact transition_lenLe hs' hseg hl

theorem nextJobSegs_lenLe {B : Nat} (fix : Patch) :
    ∀ (fuel seg : Nat) (s s' : Stages) (res : Option (WorkUnit × Range)), seg + fuel ≤ B + 1 → LenLe B s →
      nextJobSegs fix fuel seg s = .ok (s', res) → LenLe B s' := by
  intro fuel
  induction fuel with
  | zero =>
    intro seg s s' res _ hl h
    simp only [nextJobSegs] at h
    injection h with h; injection h with h1 _; subst h1; exact hl
  | succ n ih =>
    intro seg s s' res hb hl h
    simp only [nextJobSegs] at h
    have hseg : seg ≤ B := by omega
    split at h
    · cases h
    · rename_i s1 sh hs1
      have hl1 := markShadowedUnits_lenLe fix s seg s1 sh hs1 hseg hl
      split at h
      · cases h
      · rename_i s2 u r hs2
        injection h with h; injection h with h1 _; subst h1
        exact nextJobStages_lenLe fix seg hseg sh _ s1 _ hl1 hs2
      · rename_i s2 hs2
        have hl2 : LenLe B s2 := nextJobStages_lenLe fix seg hseg sh _ s1 _ hl1 hs2
        exact ih (seg + 1) s2 s' res (by omega) hl2 h

theorem nextJob_lenLe {B : Nat} (fix : Patch) (s s' : Stages) (res : Option (WorkUnit × Range))
    (hB : s.globalSeg.lastIndex ≤ B) (hB' : s.globalSeg.firstIndex ≤ B + 1) (hl : LenLe B s)
    (h : s.nextJob fix = .ok (s', res)) : LenLe B s' :=
  nextJobSegs_lenLe fix _ _ s s' res (by omega) hl h

theorem jobSuccessLoop_lenLe {B : Nat} (seg : Nat) (hseg : seg ≤ B) :
    ∀ (k : Nat) (s : Stages) (acc : List WorkUnit) (s' : Stages) (acc' : List WorkUnit), LenLe B s →
      jobSuccessLoop seg k s acc = .ok (s', acc') → LenLe B s' := by
  intro k
  induction k with
  | zero => intro s acc s' acc' hl h; simp only [jobSuccessLoop] at h; injection h with h; injection h with h1 _; subst h1; exact hl
  | succ k ih =>
    intro s acc s' acc' hl h
    simp only [jobSuccessLoop] at h
    split at h
    · split at h
      · cases h
      · rename_i s1 hs1
        exact ih s1 _ s' acc' (transition_lenLe hs1 hseg hl) h
    · exact ih s acc s' acc' hl h

theorem markJobSuccess_lenLe {B : Nat} {s s' : Stages} {u : WorkUnit} {l : List WorkUnit}
    (h : s.markJobSuccess u = .ok (s', l)) (hu : u.seg ≤ B) (hl : LenLe B s) : LenLe B s' := by
  unfold markJobSuccess at h
  split at h
  · cases h
  · rename_i s1 hs1
    have hl1 := transition_lenLe hs1 hu hl
    split at h
    · exact jobSuccessLoop_lenLe u.seg hu _ s1 _ s' l hl1 h
    · injection h with h; injection h with h1 _; subst h1; exact hl1

theorem cmdTryMerge_lenLe {B : Nat} {s s' : Stages} {i : Nat} {t : TryMerge} (h : s.cmdTryMerge i = .ok (s', t))
    (hw : s.WF) (hl : LenLe B s) : LenLe B s' := by
  unfold cmdTryMerge at h
  split at h
  · injection h with h; injection h with h1 _; subst h1; exact hl
  · simp only at h
    split at h
    · injection h with h; injection h with h1 _; subst h1; exact hl
    · split at h
      · injection h with h; injection h with h1 _; subst h1; exact hl
      · split at h
        · injection h with h; injection h with h1 _; subst h1; exact hl
        · rename_i hpp
          split at h
          · injection h with h; injection h with h1 _; subst h1; exact hl
          · split at h
            · cases h
            · rename_i s1 hs1
              injection h with h; injection h with h1 _; subst h1
              have hpp' : s.getState (s.stageAt i).next (s.stageAt i).idx = .partialPresent := by
                simpa using hpp
              have hr := seg_le_of_state s hw hl _ _ (by rw [hpp']; simp) (by rw [hpp']; simp)
              unfold markSegmentMerging at hs1
              split at hs1
              · cases hs1
              · exact transition_lenLe hs1 hr.1 hl

theorem mergeCompleted_lenLe {B : Nat} {s s' : Stages} {u : WorkUnit} (h : s.mergeCompleted u = .ok s')
    (hu : u.seg ≤ B) (hl : LenLe B s) : LenLe B s' := by
  unfold mergeCompleted at h
  split at h
  · cases h
  · rename_i s1 hs1
    injection h with h; subst h
    have h1 : LenLe B s1 := transition_lenLe hs1 hu hl
    exact h1

end SV.Stg.Stages

namespace SV.Sch
open SV SV.Stg SV.Stg.Stages

theorem exec_states (st : State) (c : Cmd) :
    (exec st c).1.stages.states = st.stages.states ∧ (exec st c).1.stages.offset = st.stages.offset := by
  cases c with
  | merge u =>
    unfold exec
    simp only
    split
    · exact ⟨rfl, rfl⟩
    · rename_i s' f' h
      unfold runMerge at h
      simp only at h
      split at h
      · cases h
      · injection h with h; injection h with h1 _; subst h1; exact ⟨rfl, rfl⟩
  | downloadCurrent seg =>
    unfold exec
    simp only
    split
    · exact ⟨rfl, rfl⟩
    · split
      · exact ⟨rfl, rfl⟩
      · split <;> exact ⟨rfl, rfl⟩
  | batch l => exact ⟨rfl, rfl⟩
  | scheduleNextJob => exact ⟨rfl, rfl⟩
  | allStoresCompleted => exact ⟨rfl, rfl⟩
  | mergeNotReady u => exact ⟨rfl, rfl⟩
  | downloadSegment => exact ⟨rfl, rfl⟩
  | walkerCompleted => exact ⟨rfl, rfl⟩
  | shutdown => exact ⟨rfl, rfl⟩
  | quit e => exact ⟨rfl, rfl⟩
  | tick => exact ⟨rfl, rfl⟩
  | job u sb w => exact ⟨rfl, rfl⟩

theorem exec_lenLe {B : Nat} (st : State) (c : Cmd) (h : LenLe B st.stages) : LenLe B (exec st c).1.stages := by
  unfold LenLe at *
  rw [(exec_states st c).1, (exec_states st c).2]; exact h

theorem cmdTryMerge_wf {s s' : Stages} {i : Nat} {t : TryMerge} (h : s.cmdTryMerge i = .ok (s', t)) (hw : s.WF) : s'.WF := by
  cases t with
  | merge u => exact (cmdTryMerge_merge h hw).2.2.2.2.2.2.wf hw
  | allStoresCompleted => rw [cmdTryMerge_other h (by intro u; simp)]; exact hw
  | nothing => rw [cmdTryMerge_other h (by intro u; simp)]; exact hw
  | notReady u' => rw [cmdTryMerge_other h (by intro u; simp)]; exact hw

theorem cmdTryMerge_global {s s' : Stages} {i : Nat} {t : TryMerge} (h : s.cmdTryMerge i = .ok (s', t)) (hw : s.WF) :
    s'.globalSeg = s.globalSeg := by
  cases t with
  | merge u => exact (cmdTryMerge_merge h hw).2.2.2.2.2.2.rest.globalSeg
  | allStoresCompleted => rw [cmdTryMerge_other h (by intro u; simp)]
  | nothing => rw [cmdTryMerge_other h (by intro u; simp)]
  | notReady u' => rw [cmdTryMerge_other h (by intro u; simp)]

theorem tryMergeList_lenLe {B : Nat} : ∀ (l : List Nat) (s s' : Stages) (cmds : List (Option Cmd)), s.WF → LenLe B s →
    tryMergeList l s = .ok (s', cmds) → LenLe B s' := by
  intro l
  induction l with
  | nil => intro s s' cmds _ hl h; simp only [tryMergeList] at h; injection h with h; injection h with h1 _; subst h1; exact hl
  | cons i rest ih =>
    intro s s' cmds hw hl h
    simp only [tryMergeList] at h
    split at h
    · cases h
    · rename_i s1 t h1
      split at h
      · cases h
      · rename_i s2 l2 h2
        injection h with h; injection h with h3 _; subst h3
        exact ih s1 s2 l2 (cmdTryMerge_wf h1 hw) (cmdTryMerge_lenLe h1 hw hl) h2

/-- the bound `B` covers the request's segments and the allocated matrix; `n` stages -/
structure Bnd (B n : Nat) (s : Stages) : Prop where
  last  : s.globalSeg.lastIndex ≤ B
  first : s.globalSeg.firstIndex ≤ B + 1
  len   : LenLe B s
  nst   : s.nStages = n

theorem Bnd.of {B n : Nat} {s s' : Stages} (h : Bnd B n s) (hg : s'.globalSeg = s.globalSeg) (hn : s'.nStages = s.nStages)
    (hl : LenLe B s') : Bnd B n s' :=
  ⟨by rw [hg]; exact h.last, by rw [hg]; exact h.first, hl, by rw [hn]; exact h.nst⟩

theorem cmdTryMerge_nStages {s s' : Stages} {i : Nat} {t : TryMerge} (h : s.cmdTryMerge i = .ok (s', t)) (hw : s.WF) :
    s'.nStages = s.nStages := by
  cases t with
  | merge u => exact (cmdTryMerge_merge h hw).2.2.2.2.2.2.rest.nStages
  | allStoresCompleted => rw [cmdTryMerge_other h (by intro u; simp)]
  | nothing => rw [cmdTryMerge_other h (by intro u; simp)]
  | notReady u' => rw [cmdTryMerge_other h (by intro u; simp)]

theorem update_bnd {B n : Nat} (st st' : State) (m : Msg) (e : Bool) (oc : Option Cmd) (A : List Cmd)
    (hf : st.fix.shadow = true) (hw : st.stages.WF) (hoff : st.stages.offset ≤ st.stages.globalSeg.firstIndex)
    (hb : Bnd B n st.stages) (hpre : MsgPre st.stages st.pool A m)
    (h : update st m e = .ok (st', oc)) : Bnd B n st'.stages := by
  cases m with
  | jobSucceeded u w =>
    unfold update at h
    simp only at h
    split at h
    · cases h
    · rename_i s1 sh h1
      split at h
      · cases h
      · split at h
        · cases h
        · rename_i s2 tm h2
          injection h with h; injection h with h3 _; subst h3
          have hw1 := (markJobSuccess_tstep h1).wf hw
          have hu := seg_le_of_state st.stages hw hb.len u.seg u.stage (by rw [hpre.1]; simp) (by rw [hpre.1]; simp)
          have hl1 := markJobSuccess_lenLe h1 hu.1 hb.len
          have hr1 := (markJobSuccess_tstep h1).rest
          have hr2 := (tryMergeList_spec _ s1 s2 tm hw1 h2).1.rest
          exact hb.of (hr2.globalSeg.trans hr1.globalSeg) (hr2.nStages.trans hr1.nStages)
            (tryMergeList_lenLe _ s1 s2 tm hw1 hl1 h2)
  | scheduleNextJob =>
    unfold update at h
    simp only at h
    split at h
    · split at h
      · injection h with h; injection h with h3 _; subst h3; exact hb
      · injection h with h; injection h with h3 _; subst h3; exact hb
    · split at h
      · cases h
      · rename_i s1 hnj
        injection h with h; injection h with h3 _; subst h3
        have hp : PStep st.stages s1 := nextJob_spec st.fix hf _ s1 _ hw hoff hnj
        exact hb.of hp.rest.globalSeg hp.rest.nStages (nextJob_lenLe st.fix _ s1 _ hb.last hb.first hb.len hnj)
      · rename_i s1 u r hnj
        split at h
        · cases h
        · injection h with h; injection h with h3 _; subst h3
          have hp : Chosen st.fix st.stages s1 u r := nextJob_spec st.fix hf _ s1 _ hw hoff hnj
          exact hb.of hp.pstep.rest.globalSeg hp.pstep.rest.nStages
            (nextJob_lenLe st.fix _ s1 _ hb.last hb.first hb.len hnj)
  | mergeFinished u =>
    unfold update at h
    simp only at h
    split at h
    · cases h
    · rename_i s1 h1
      split at h
      · cases h
      · rename_i s2 t h2
        injection h with h; injection h with h3 _; subst h3
        obtain ⟨_, _, _, _, _, hg1, hn1, hw1, _, _⟩ := mergeCompleted_spec h1 hw
        have hu := seg_le_of_state st.stages hw hb.len u.seg u.stage (by rw [hpre.1]; simp) (by rw [hpre.1]; simp)
        have hl1 := mergeCompleted_lenLe h1 hu.1 hb.len
        exact hb.of ((cmdTryMerge_global h2 hw1).trans hg1) ((cmdTryMerge_nStages h2 hw1).trans hn1)
          (cmdTryMerge_lenLe h2 hw1 hl1)
  | jobFailed => simp only [update] at h; injection h with h; injection h with h3 _; subst h3; exact hb
  | mergeFailed u => simp only [update] at h; injection h with h; injection h with h3 _; subst h3; exact hb
  | mergeNotReady u => simp only [update] at h; injection h with h; injection h with h3 _; subst h3; exact hb
  | allStoresCompleted => simp only [update] at h; injection h with h; injection h with h3 _; subst h3; exact hb
  | fileNotPresent => simp only [update] at h; injection h with h; injection h with h3 _; subst h3; exact hb
  | fileDownloaded => simp only [update] at h; injection h with h; injection h with h3 _; subst h3; exact hb
  | walkerCompleted => simp only [update] at h; injection h with h; injection h with h3 _; subst h3; exact hb
  | downloadSegment =>
    unfold update at h
    simp only at h
    split at h
    · injection h with h; injection h with h3 _; subst h3; exact hb
    · split at h
      · injection h with h; injection h with h3 _; subst h3; exact hb
      · split at h <;> (injection h with h; injection h with h3 _; subst h3; exact hb)

/-! ### the potentials -/

theorem sum_map_le {α : Type} (l : List α) (f g : α → Nat) (h : ∀ x ∈ l, f x ≤ g x) : (l.map f).sum ≤ (l.map g).sum := by
  induction l with
  | nil => simp
  | cons a t ih =>
    simp only [List.map_cons, List.sum_cons]
    have h1 := h a (List.mem_cons_self)
    have h2 := ih (fun x hx => h x (List.mem_cons_of_mem _ hx))
    omega

theorem sum_map_lt {α : Type} (l : List α) (f g : α → Nat) (h : ∀ x ∈ l, f x ≤ g x) (a : α) (ha : a ∈ l)
    (hlt : f a < g a) : (l.map f).sum < (l.map g).sum := by
  induction l with
  | nil => cases ha
  | cons b t ih =>
    simp only [List.map_cons, List.sum_cons]
    have h1 := h b (List.mem_cons_self)
    have h2 := sum_map_le t f g (fun x hx => h x (List.mem_cons_of_mem _ hx))
    rcases List.mem_cons.1 ha with e | e
    · subst e; omega
    · have := ih (fun x hx => h x (List.mem_cons_of_mem _ hx)) e; omega

def cellPot (s : Stages) (seg stg : Nat) : Nat := 4 - rank (s.getState seg stg)
def rowPot (s : Stages) (n seg : Nat) : Nat := ((List.range n).map (cellPot s seg)).sum
/-- how far the units of the segments `0..B` × stages `0..n-1` are from Completed -/
def potR (B n : Nat) (s : Stages) : Nat := ((List.range (B + 1)).map (rowPot s n)).sum

theorem rank_le_four (x : UnitState) : rank x ≤ 4 := by cases x <;> simp [rank]

theorem potR_le {B n : Nat} {s s' : Stages} (h : Mono s s') : potR B n s' ≤ potR B n s := by
  unfold potR
  apply sum_map_le
  intro seg _
  unfold rowPot
  apply sum_map_le
  intro stg _
  unfold cellPot
  have := h seg stg
  omega

theorem potR_lt {B n : Nat} {s s' : Stages} (h : Mono s s') (seg stg : Nat) (h1 : seg ≤ B) (h2 : stg < n)
    (hlt : rank (s.getState seg stg) < rank (s'.getState seg stg)) : potR B n s' < potR B n s := by
  unfold potR
  apply sum_map_lt _ _ _ _ seg (List.mem_range.2 (by omega))
  · unfold rowPot
    apply sum_map_lt _ _ _ _ stg (List.mem_range.2 h2)
    · unfold cellPot
      have := rank_le_four (s'.getState seg stg)
      omega
    · intro x _
      unfold cellPot
      have := h seg x
      omega
  · intro x _
    unfold rowPot
    apply sum_map_le
    intro y _
    unfold cellPot
    have := h x y
    omega

/-- segments the walker still has to see -/
def potW (st : State) : Nat :=
  match st.walker with
  | none => 0
  | some w => w.seg.lastIndex + 1 - w.cur

mutual
/-- weight of a command: larger than the weight of what its message can put back into the bag when the answer
changes nothing else -/
def Cmd.weight : Cmd → Nat
  | .batch l => 1 + weightList l
  | .scheduleNextJob => 1
  | .allStoresCompleted => 5
  | .mergeNotReady _ => 1
  | .merge _ => 3
  | .downloadSegment => 4
  | .downloadCurrent _ => 2
  | .walkerCompleted => 2
  | .shutdown => 1
  | .quit _ => 1
  | .tick => 1
  | .job _ _ _ => 1
def weightList : List Cmd → Nat
  | [] => 0
  | c :: cs => c.weight + weightList cs
end

theorem weightList_append (a b : List Cmd) : weightList (a ++ b) = weightList a + weightList b := by
  induction a with
  | nil => simp [weightList]
  | cons x xs ih => simp only [List.cons_append, weightList, ih]; omega

theorem weightList_eraseIdx : ∀ (l : List Cmd) (i : Nat) (c : Cmd), l[i]? = some c →
    weightList l = c.weight + weightList (l.eraseIdx i) := by
  intro l
  induction l with
  | nil => intro i c h; simp at h
  | cons x xs ih =>
    intro i c h
    cases i with
    | zero => simp at h; subst h; simp [weightList]
    | succ j =>
      simp only [List.getElem?_cons_succ] at h
      simp only [List.eraseIdx_cons_succ, weightList]
      have := ih j c h
      omega

theorem mkBatch_weight (l : List (Option Cmd)) : weightList (mkBatch l).toList ≤ 1 + weightList (l.filterMap id) := by
  unfold mkBatch
  split
  · simp [weightList]
  · rename_i l' _ 
    simp [weightList, Cmd.weight]

def mu (B n : Nat) (st : State) : Nat × Nat × Nat := (potR B n st.stages, potW st, weightList st.bag)

def LT3 : (Nat × Nat × Nat) → (Nat × Nat × Nat) → Prop := Prod.Lex (· < ·) (Prod.Lex (· < ·) (· < ·))

theorem LT3_wf : WellFounded LT3 :=
  (Prod.lex ⟨_, Nat.lt_wfRel.wf⟩ (Prod.lex ⟨_, Nat.lt_wfRel.wf⟩ ⟨_, Nat.lt_wfRel.wf⟩)).wf

theorem LT3.r {a a' b b' c c' : Nat} (h : a' < a) : LT3 (a', b', c') (a, b, c) := Prod.Lex.left _ _ h
theorem LT3.w {a a' b b' c c' : Nat} (ha : a' ≤ a) (h : b' < b) : LT3 (a', b', c') (a, b, c) := by
  rcases Nat.lt_or_ge a' a with h1 | h1
  · exact Prod.Lex.left _ _ h1
  · have : a' = a := Nat.le_antisymm ha h1
    subst this
    exact Prod.Lex.right _ (Prod.Lex.left _ _ h)
theorem LT3.b {a a' b b' c c' : Nat} (ha : a' ≤ a) (hb : b' ≤ b) (h : c' < c) : LT3 (a', b', c') (a, b, c) := by
  rcases Nat.lt_or_ge b' b with h1 | h1
  · exact LT3.w ha h1
  · have : b' = b := Nat.le_antisymm hb h1
    subst this
    rcases Nat.lt_or_ge a' a with h2 | h2
    · exact Prod.Lex.left _ _ h2
    · have : a' = a := Nat.le_antisymm ha h2
      subst this
      exact Prod.Lex.right _ (Prod.Lex.right _ h)

/-! ### anatomy of a step that executes a command -/

theorem step_cases (st : State) (idx : Nat) (e : Bool) (c : Cmd) (hend : st.ended = none) (hc : st.bag[idx]? = some c) :
    (∃ l, c = .batch l ∧ step st idx e = { st with bag := st.bag.eraseIdx idx ++ l }) ∨
    (step st idx e).ended ≠ none ∨
    (∃ m st1 st2 oc, exec { st with bag := st.bag.eraseIdx idx } c = (st1, .msg m) ∧ update st1 m e = .ok (st2, oc) ∧
       step st idx e = { st2 with bag := st2.bag ++ oc.toList }) := by
  unfold step
  have hnot : st.ended.isSome = false := by rw [hend]; rfl
  simp only [hnot, Bool.false_eq_true, if_false, hc]
  cases hex : exec { st with bag := st.bag.eraseIdx idx } c with
  | mk st1 out =>
    cases out with
    | batch l =>
      left
      have hbi := exec_batch_inv { st with bag := st.bag.eraseIdx idx } c l (by rw [hex])
      have h1 : st1 = { st with bag := st.bag.eraseIdx idx } := by have := hbi.2; rw [hex] at this; exact this
      subst h1
      exact ⟨l, hbi.1, rfl⟩
    | quit b => right; left; simp
    | msg m =>
      simp only
      cases hupd : update st1 m e with
      | error err => right; left; simp
      | ok r =>
        obtain ⟨st2, oc⟩ := r
        right; right
        refine ⟨m, st1, st2, oc, rfl, hupd, ?_⟩
        cases oc <;> simp

/-- the state a command's message is delivered to -/
theorem msg_pre_of (st : State) (idx : Nat) (c : Cmd) (m : Msg) (st1 : State)
    (hg : Good st) (hc : st.bag[idx]? = some c)
    (hex : exec { st with bag := st.bag.eraseIdx idx } c = (st1, .msg m)) :
    st1.fix.shadow = true ∧ st1.stages.WF ∧ st1.stages.offset ≤ st1.stages.globalSeg.firstIndex ∧
    MsgPre st1.stages st1.pool (atomsList (st.bag.eraseIdx idx)) m ∧ st1.pool = st.pool ∧ st1.fix = st.fix := by
  have hperm := atomsList_eraseIdx_perm st.bag idx c hc
  have hnb : ∀ l, c ≠ .batch l := by intro l hl; subst hl; simp [exec] at hex
  rw [atoms_of_not_batch c hnb] at hperm
  have hs := exec_same { st with bag := st.bag.eraseIdx idx } c
  rw [hex] at hs
  simp only at hs
  obtain ⟨hfix1, _, hbag1, hend1, hpool1, hsm⟩ := hs
  have hbag : BagOK st.stages st.pool (c :: atomsList (st.bag.eraseIdx idx)) := hg.inv.bag.perm hperm
  have hpre : MsgPre st1.stages st1.pool (atomsList (st.bag.eraseIdx idx)) m := by
    have := exec_msg_pre { st with bag := st.bag.eraseIdx idx } c (atomsList (st.bag.eraseIdx idx)) m hbag (by rw [hex])
    rw [hex] at this; exact this
  exact ⟨by rw [hfix1]; exact hg.inv.fix, hsm.wf hg.inv.wf, by rw [hsm.offset, hsm.global]; exact hg.inv.off, hpre,
    hpool1, hfix1⟩

/-! ### what the messages put back into the bag -/

theorem cmdShutdown_weight (st : State) : weightList (cmdShutdownWhenComplete st).toList ≤ 1 := by
  unfold cmdShutdownWhenComplete
  split
  · split
    · simp [weightList, Cmd.weight]
    · split <;> simp [weightList, Cmd.weight]
  · simp [weightList]

theorem update_sched_cases (st1 st2 : State) (e : Bool) (oc : Option Cmd)
    (h : update st1 .scheduleNextJob e = .ok (st2, oc)) :
    oc = none ∨ ((st1.pool.workerAvailable e).2.1 = false ∧ (st1.pool.workerAvailable e).2.2 = true) ∨
    ∃ u r sb w, oc = some (.batch [.job u sb w, .scheduleNextJob]) ∧
      st1.stages.nextJob st1.fix = .ok (st2.stages, some (u, r)) := by
  unfold update at h
  simp only at h
  cases hwa : st1.pool.workerAvailable e with
  | mk pool rest =>
    cases rest with
    | mk avail retry =>
      rw [hwa] at h
      simp only at h
      cases avail with
      | false =>
        cases retry with
        | false => simp at h; left; exact h.2.symm
        | true => right; left; exact ⟨rfl, rfl⟩
      | true =>
        simp only [Bool.not_true, Bool.false_eq_true, if_false] at h
        split at h
        · cases h
        · injection h with h; injection h with _ h4; left; exact h4.symm
        · rename_i s1 u r hnj
          split at h
          · cases h
          · rename_i pool' w hb
            injection h with h; injection h with h3 h4
            right; right
            refine ⟨u, r, r.start, w, ?_, ?_⟩
            · rw [← h4]; simp [mkBatch]
            · rw [← h3]; exact hnj

theorem update_other_weight (st1 st2 : State) (m : Msg) (e : Bool) (oc : Option Cmd) (c : Cmd) (ha : Answers c m)
    (h : update st1 m e = .ok (st2, oc))
    (hm : m = .allStoresCompleted ∨ (∃ u, m = .mergeFailed u) ∨ (∃ u, m = .mergeNotReady u) ∨ m = .downloadSegment ∨
      m = .walkerCompleted) : weightList oc.toList < c.weight := by
  cases ha with
  | sched => simp at hm
  | tick => simp at hm
  | all =>
    simp only [update] at h
    injection h with h; injection h with _ h4; subst h4
    have h1 := mkBatch_weight [some Cmd.scheduleNextJob, cmdShutdownWhenComplete { st1 with storesDone := true }]
    have h2 := cmdShutdown_weight { st1 with storesDone := true }
    have h3 : weightList ([some Cmd.scheduleNextJob, cmdShutdownWhenComplete { st1 with storesDone := true }].filterMap id) ≤ 2 := by
      cases hx : cmdShutdownWhenComplete { st1 with storesDone := true } with
      | none => simp [weightList, Cmd.weight]
      | some x => rw [hx] at h2; simp [weightList, Cmd.weight] at h2 ⊢; omega
    simp only [Cmd.weight]
    omega
  | notReady u =>
    simp only [update] at h
    injection h with h; injection h with _ h4; subst h4
    simp [weightList, Cmd.weight]
  | merged u => simp at hm
  | mergeFailed u =>
    simp only [update] at h
    injection h with h; injection h with _ h4; subst h4
    simp [mkBatch, weightList, Cmd.weight]
  | dl =>
    unfold update at h
    simp only at h
    split at h
    · injection h with h; injection h with _ h4; subst h4; simp [weightList, Cmd.weight]
    · split at h
      · injection h with h; injection h with _ h4; subst h4; simp [weightList, Cmd.weight]
      · split at h <;> (injection h with h; injection h with _ h4; subst h4; simp [mkBatch, weightList, Cmd.weight])
  | absent seg => simp at hm
  | present seg => simp at hm
  | wc =>
    simp only [update] at h
    injection h with h; injection h with _ h4; subst h4
    have h2 := cmdShutdown_weight { st1 with outDone := true }
    simp only [Cmd.weight]
    omega
  | job u sb w => simp at hm

theorem update_bag (st st' : State) (m : Msg) (e : Bool) (oc : Option Cmd) (h : update st m e = .ok (st', oc)) :
    st'.bag = st.bag := by
  cases m with
  | jobSucceeded u w =>
    unfold update at h
    simp only at h
    split at h
    · cases h
    · split at h
      · cases h
      · split at h
        · cases h
        · injection h with h; injection h with h3 _; subst h3; rfl
  | scheduleNextJob =>
    unfold update at h
    simp only at h
    split at h
    · split at h <;> (injection h with h; injection h with h3 _; subst h3; rfl)
    · split at h
      · cases h
      · injection h with h; injection h with h3 _; subst h3; rfl
      · split at h
        · cases h
        · injection h with h; injection h with h3 _; subst h3; rfl
  | mergeFinished u =>
    unfold update at h
    simp only at h
    split at h
    · cases h
    · split at h
      · cases h
      · injection h with h; injection h with h3 _; subst h3; rfl
  | jobFailed => simp only [update] at h; injection h with h; injection h with h3 _; subst h3; rfl
  | mergeFailed u => simp only [update] at h; injection h with h; injection h with h3 _; subst h3; rfl
  | mergeNotReady u => simp only [update] at h; injection h with h; injection h with h3 _; subst h3; rfl
  | allStoresCompleted => simp only [update] at h; injection h with h; injection h with h3 _; subst h3; rfl
  | fileNotPresent => simp only [update] at h; injection h with h; injection h with h3 _; subst h3; rfl
  | fileDownloaded => simp only [update] at h; injection h with h; injection h with h3 _; subst h3; rfl
  | walkerCompleted => simp only [update] at h; injection h with h; injection h with h3 _; subst h3; rfl
  | downloadSegment =>
    unfold update at h
    simp only at h
    split at h
    · injection h with h; injection h with h3 _; subst h3; rfl
    · split at h
      · injection h with h; injection h with h3 _; subst h3; rfl
      · split at h <;> (injection h with h; injection h with h3 _; subst h3; rfl)

/-- a job's success moves its unit from Scheduled to PartialPresent or beyond -/
theorem update_job_rank (st st' : State) (u : WorkUnit) (w : Nat) (e : Bool) (oc : Option Cmd) (hw : st.stages.WF)
    (h : update st (.jobSucceeded u w) e = .ok (st', oc)) : 2 ≤ rank (st'.stages.getState u.seg u.stage) := by
  unfold update at h
  simp only at h
  split at h
  · cases h
  · rename_i s1 sh h1
    split at h
    · cases h
    · split at h
      · cases h
      · rename_i s2 tm h2
        injection h with h; injection h with h3 _; subst h3
        have hw1 := (markJobSuccess_tstep h1).wf hw
        have ht := markJobSuccess_target h1 hw
        have hm := tryMergeList_mono _ s1 s2 tm hw1 h2 u.seg u.stage
        rw [ht] at hm
        simpa [rank] using hm

/-- a finished merge moves its unit from Merging to Completed -/
theorem update_merged_rank (st st' : State) (u : WorkUnit) (e : Bool) (oc : Option Cmd) (hw : st.stages.WF)
    (hm : st.stages.getState u.seg u.stage = .merging)
    (h : update st (.mergeFinished u) e = .ok (st', oc)) : 4 ≤ rank (st'.stages.getState u.seg u.stage) := by
  unfold update at h
  simp only at h
  split at h
  · cases h
  · rename_i s1 h1
    split at h
    · cases h
    · rename_i s2 t h2
      injection h with h; injection h with h3 _; subst h3
      obtain ⟨_, _, _, _, _, _, _, hw1, _, hcompl⟩ := mergeCompleted_spec h1 hw
      have hmono := cmdTryMerge_mono h2 hw1 u.seg u.stage
      rw [hcompl hm] at hmono
      simpa [rank] using hmono

theorem potW_eq_of_walker {st st' : State} (h : st'.walker = st.walker) : potW st' = potW st := by
  unfold potW; rw [h]

/-! ### every step that executes a command and is not a poll decreases the measure -/

theorem step_decreases {B n : Nat} (st : State) (idx : Nat) (e : Bool) (c : Cmd) (hg : Good st) (hlw : LiveW st)
    (hb : Bnd B n st.stages) (hend : st.ended = none) (hc : st.bag[idx]? = some c) (hpoll : polls st idx e = false) :
    (step st idx e).ended ≠ none ∨ (Bnd B n (step st idx e).stages ∧ LT3 (mu B n (step st idx e)) (mu B n st)) := by
  have hwt := weightList_eraseIdx st.bag idx c hc
  rcases step_cases st idx e c hend hc with ⟨l, hcl, hs⟩ | hq | ⟨m, st1, st2, oc, hex, hupd, hs⟩
  · right
    rw [hs]
    refine ⟨hb, ?_⟩
    subst hcl
    apply LT3.b (Nat.le_refl _) (Nat.le_refl _)
    show weightList (st.bag.eraseIdx idx ++ l) < weightList st.bag
    rw [weightList_append, hwt]
    simp only [Cmd.weight]
    omega
  · left; exact hq
  · right
    have ms := msgStep_of st idx e c m st1 st2 oc hg hc hex hupd
    obtain ⟨hf1, hw1, hoff1, hpre, hpool1, hfix1⟩ := msg_pre_of st idx c m st1 hg hc hex
    have hmono : Mono st.stages st2.stages := by
      have := step_mono st idx e hg
      rw [hs] at this; exact this
    have hw2 : st2.stages.WF := by
      have := (step_good st idx e hg).inv.wf
      rw [hs] at this; exact this
    have hb1 : Bnd B n st1.stages := by
      refine ⟨by rw [ms.same1.global]; exact hb.last, by rw [ms.same1.global]; exact hb.first, ?_, ?_⟩
      · have := exec_lenLe (B := B) { st with bag := st.bag.eraseIdx idx } c hb.len
        rw [hex] at this; exact this
      · have := congrArg List.length ms.kinds1
        simp only [List.length_map] at this
        unfold Stages.nStages
        rw [this]; exact hb.nst
    have hb2 : Bnd B n st2.stages := update_bnd st1 st2 m e oc _ hf1 hw1 hoff1 hb1 hpre hupd
    have hbag2 : st2.bag = st.bag.eraseIdx idx := by
      rw [update_bag st1 st2 m e oc hupd]
      have := (exec_same { st with bag := st.bag.eraseIdx idx } c).2.2.1
      rw [hex] at this; exact this
    rw [hs]
    refine ⟨hb2, ?_⟩
    have hmu : mu B n { st2 with bag := st2.bag ++ oc.toList } =
        (potR B n st2.stages, potW st2, weightList (st.bag.eraseIdx idx) + weightList oc.toList) := by
      unfold mu
      simp only [weightList_append, hbag2]
      rfl
    rw [hmu]
    have hR : potR B n st2.stages ≤ potR B n st.stages := potR_le hmono
    have hcell : ∀ seg stg, rank (st.stages.getState seg stg) < rank (st2.stages.getState seg stg) →
        LT3 (potR B n st2.stages, potW st2, weightList (st.bag.eraseIdx idx) + weightList oc.toList) (mu B n st) := by
      intro seg stg hlt
      have hne1 : st2.stages.getState seg stg ≠ .pending := by intro hh; rw [hh] at hlt; simp [rank] at hlt
      have hne2 : st2.stages.getState seg stg ≠ .noOp := by intro hh; rw [hh] at hlt; simp [rank] at hlt
      have hr := seg_le_of_state st2.stages hw2 hb2.len seg stg hne1 hne2
      exact LT3.r (potR_lt hmono seg stg hr.1 (by rw [← hb2.nst]; exact hr.2) hlt)
    have hlight : potW st2 ≤ potW st → weightList oc.toList < c.weight →
        LT3 (potR B n st2.stages, potW st2, weightList (st.bag.eraseIdx idx) + weightList oc.toList) (mu B n st) := by
      intro h1 h2
      apply LT3.b hR h1
      show _ < weightList st.bag
      rw [hwt]; omega
    have hwalk0 : st1.walker = st.walker := ms.walker1
    cases hans : ms.ans with
    | sched =>
      rcases update_sched_cases st1 st2 e oc hupd with hnone | hp | ⟨u, r, sb, w, hoc, hnj⟩
      · subst hnone
        have hw' := ms.evo.walker
        exact hlight (Nat.le_of_eq (potW_eq_of_walker (hw'.trans hwalk0))) (by simp [weightList, Cmd.weight])
      · exfalso
        unfold polls at hpoll
        rw [hc] at hpoll
        rw [hpool1] at hp
        simp [hp.1, hp.2] at hpoll
      · have hch : Chosen st1.fix st1.stages st2.stages u r := nextJob_spec st1.fix hf1 _ _ _ hw1 hoff1 hnj
        apply hcell u.seg u.stage
        rw [← ms.same1.get, hch.was_pending, hch.scheduled]; simp [rank]
    | tick =>
      rcases update_sched_cases st1 st2 e oc hupd with hnone | hp | ⟨u, r, sb, w, hoc, hnj⟩
      · subst hnone
        have hw' := ms.evo.walker
        exact hlight (Nat.le_of_eq (potW_eq_of_walker (hw'.trans hwalk0))) (by simp [weightList, Cmd.weight])
      · exfalso
        unfold polls at hpoll
        rw [hc] at hpoll
        rw [hpool1] at hp
        simp [hp.1, hp.2] at hpoll
      · have hch : Chosen st1.fix st1.stages st2.stages u r := nextJob_spec st1.fix hf1 _ _ _ hw1 hoff1 hnj
        apply hcell u.seg u.stage
        rw [← ms.same1.get, hch.was_pending, hch.scheduled]; simp [rank]
    | all =>
      have hw' := ms.evo.walker
      exact hlight (Nat.le_of_eq (potW_eq_of_walker (hw'.trans hwalk0)))
        (update_other_weight st1 st2 _ e oc _ .all hupd (Or.inl rfl))
    | notReady u =>
      have hw' := ms.evo.walker
      exact hlight (Nat.le_of_eq (potW_eq_of_walker (hw'.trans hwalk0)))
        (update_other_weight st1 st2 _ e oc _ (.notReady u) hupd (Or.inr (Or.inr (Or.inl ⟨u, rfl⟩))))
    | mergeFailed u =>
      have hw' := ms.evo.walker
      exact hlight (Nat.le_of_eq (potW_eq_of_walker (hw'.trans hwalk0)))
        (update_other_weight st1 st2 _ e oc _ (.mergeFailed u) hupd (Or.inr (Or.inl ⟨u, rfl⟩)))
    | wc =>
      have hw' := ms.evo.walker
      exact hlight (Nat.le_of_eq (potW_eq_of_walker (hw'.trans hwalk0)))
        (update_other_weight st1 st2 _ e oc _ .wc hupd (Or.inr (Or.inr (Or.inr (Or.inr rfl)))))
    | dl =>
      have hw' := ms.evo.walker
      simp only at hw'
      refine hlight ?_ (update_other_weight st1 st2 _ e oc _ .dl hupd (Or.inr (Or.inr (Or.inr (Or.inl rfl)))))
      unfold potW
      rw [hw', hwalk0]
      cases st.walker with
      | none => exact Nat.le_refl _
      | some w => simp only [Option.map_some]; split <;> exact Nat.le_refl _
    | merged u =>
      apply hcell u.seg u.stage
      have h4 := update_merged_rank st1 st2 u e oc hw1 hpre.1 hupd
      rw [← ms.same1.get, hpre.1]
      have h0 : rank UnitState.merging = 3 := rfl
      omega
    | job u sb w =>
      apply hcell u.seg u.stage
      have h2 := update_job_rank st1 st2 u w e oc hw1 hupd
      rw [← ms.same1.get, hpre.1]
      have h0 : rank UnitState.scheduled = 1 := rfl
      omega
    | absent seg =>
      exfalso
      unfold polls at hpoll
      rw [hc] at hpoll
      simp only [hex] at hpoll
      cases hpoll
    | present seg =>
      have hw' := ms.evo.walker
      simp only at hw'
      have hmem : Cmd.downloadCurrent seg ∈ st.inFlight := ms.perm.mem_iff.2 (List.mem_cons_self)
      obtain ⟨w, hwk, _, hcur, hnd⟩ := hlw.dlCur seg hmem
      simp only [Walker.isDone, decide_eq_false_iff_not] at hnd
      apply LT3.w hR
      unfold potW
      rw [hw', hwalk0, hwk]
      simp only [Option.map_some]
      omega

/-- from every reachable state, the steps that execute a command and are not polls are well-founded -/
theorem acc_workStep {c : Cfg} {fix : Patch} {files : Files} (hc : c.OK) (hf : fix.shadow = true) (B n : Nat) :
    ∀ (x : Nat × Nat × Nat) (st : State), mu B n st = x → Reachable c fix files st → Bnd B n st.stages →
      Acc (WorkStep c fix files) st := by
  intro x
  induction x using LT3_wf.induction with
  | h x ih =>
    intro st hmu hr hb
    constructor
    intro b hstep
    obtain ⟨_, idx, e, hend, hidx, hpoll, hb'⟩ := hstep
    subst hb'
    have hcmd : st.bag[idx]? = some st.bag[idx] := List.getElem?_eq_getElem hidx
    rcases step_decreases st idx e _ (reachable_good hc hf hr) (reachable_liveW hc hf hr) hb hend hcmd hpoll with
      hended | ⟨hb2, hlt⟩
    · constructor
      intro b2 hstep2
      obtain ⟨_, _, _, hend2, _⟩ := hstep2
      exact absurd hend2 hended
    · exact ih _ (hmu ▸ hlt) _ rfl (Reachable.step idx e hr) hb2

theorem bnd_exists (s : Stages) : ∃ B n, Bnd B n s :=
  ⟨s.globalSeg.lastIndex + s.globalSeg.firstIndex + s.offset + s.states.length, s.nStages,
   ⟨by omega, by omega, by unfold LenLe; omega, rfl⟩⟩

end SV.Sch

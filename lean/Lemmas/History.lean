import Lemmas.StoreHist
import Model.History
/-! Invariant of store histories (C11; reused by C03). -/
namespace SV

/-- the stacked deltas of the applied blocks chain back from the current content -/
def StackInv (cur : Content) : List (List Delta) → Prop
  | [] => True
  | ds :: rest => ∃ f, Chain f ds ∧ postF f ds = cur ∧ StackInv f rest

theorem StackInv.dropLast : ∀ {stack : List (List Delta)} {cur : Content},
    StackInv cur stack → StackInv cur stack.dropLast
  | [], _, _ => trivial
  | [_], _, _ => trivial
  | ds :: d2 :: rest, cur, h => by
    obtain ⟨f, h1, h2, h3⟩ := h
    exact ⟨f, h1, h2, StackInv.dropLast (stack := d2 :: rest) h3⟩

theorem SInv.reset {s : Store} (h : SInv s) : Clean (reset s) := ⟨h.nodup, rfl, h.size⟩

theorem FInv.sinv {f : Content} {s : Store} {b : Nat} (h : FInv f s b) : SInv s := ⟨h.nodup, h.size⟩

theorem mergeFold_inv {cfg : Cfg} : ∀ (l : KV) (acc : Option (Except SErr Store)) (s' : Store),
    (∀ s, acc = some (.ok s) → SInv s) →
    l.foldl (fun (acc : Option (Except SErr Store)) kv =>
      match acc with
      | some (.ok s) => mergeKey cfg s kv.1 kv.2
      | other => other) acc = some (.ok s') → SInv s' := by
  intro l
  induction l with
  | nil => intro acc s' h hf; exact h s' (by simpa using hf)
  | cons p rest ih =>
    intro acc s' h hf
    simp only [List.foldl_cons] at hf
    apply ih _ s' _ hf
    intro s hs
    match acc, h, hs with
    | some (.ok s0), h, hs => exact mergeKey_inv (h s0 rfl) hs
    | some (.error e), _, hs => simp at hs
    | none, _, hs => simp at hs

theorem merge_inv {cfg : Cfg} {sem : Sem} {s s' : Store} {p : Partial} (hc : Clean s)
    (hm : merge cfg sem s p = some (.ok s')) : SInv s' := by
  unfold merge at hm
  dsimp only at hm
  have hfold : ∀ (l : List Bytes) (t : Store), Clean t →
      Clean (l.foldl (fun s pfx => record s ⟨.deletePrefix, p.store.lastOrd, pfx, []⟩) t) := by
    intro l
    induction l with
    | nil => intro t ht; exact ht
    | cons x xs ih =>
      intro t ht
      simp only [List.foldl_cons]
      exact ih _ ⟨ht.nodup, ht.deltas, ht.size⟩
  cases hf : flush cfg sem (p.deletedPrefixes.foldl (fun s pfx => record s ⟨.deletePrefix, p.store.lastOrd, pfx, []⟩) s) with
  | error e => rw [hf] at hm; simp at hm
  | ok s0 =>
    rw [hf] at hm
    dsimp only at hm
    obtain ⟨b, i1, _⟩ := flush_inv (hfold _ s hc) hf
    split at hm
    · rename_i s1 hfold1
      injection hm with hm; injection hm with hm; subst hm
      have := mergeFold_inv (cfg := cfg) p.store.kv (some (.ok s0)) s1
        (by intro t ht; injection ht with ht; injection ht with ht; subst ht; exact i1.sinv) hfold1
      exact ⟨this.nodup, this.size⟩
    · rename_i hne
      exact absurd hm (hne s')

/-- the invariant of a history state -/
structure HInv (st : HState) : Prop where
  sinv  : SInv st.s
  stack : StackInv (look st.s.kv) st.stack

theorem stepHist_inv {cfg : Cfg} {sem : Sem} {st : HState} (h : HInv st) (x : Hist) :
    HInv (stepHist cfg sem st x) := by
  unfold stepHist
  split
  · exact h
  · cases x with
    | block calls =>
      dsimp only
      cases hb : execBlock cfg sem (reset st.s) calls with
      | error e => exact ⟨h.sinv, h.stack⟩
      | ok s' =>
        dsimp only
        obtain ⟨b, i1, _⟩ := execBlock_inv h.sinv.reset hb
        exact ⟨i1.sinv, ⟨look st.s.kv, i1.chain, i1.kvpost.symm, h.stack⟩⟩
    | undo =>
      dsimp only
      cases hs : st.stack with
      | nil => exact h
      | cons ds rest =>
        dsimp only
        have hst := h.stack
        rw [hs] at hst
        obtain ⟨f, c1, c2, c3⟩ := hst
        obtain ⟨u1, u2, u3⟩ := undo_spec f ds st.s c1 c2.symm h.sinv.nodup h.sinv.size
        exact ⟨⟨u2, u3⟩, by show StackInv (look (applyDeltasReverse st.s ds).kv) rest; rw [u1]; exact c3⟩
    | final => exact ⟨h.sinv, h.stack.dropLast⟩
    | merge p =>
      dsimp only
      split
      · rename_i hempty
        split
        · rename_i s' hm
          exact ⟨merge_inv h.sinv.reset hm, by show StackInv _ st.stack; rw [hempty]; trivial⟩
        · exact ⟨h.sinv, h.stack⟩
      · exact h
    | saveLoad =>
      dsimp only
      split
      · rename_i hempty
        exact ⟨⟨h.sinv.nodup, rfl⟩, by show StackInv _ st.stack; rw [hempty]; trivial⟩
      · exact h

theorem runHist_inv {cfg : Cfg} {sem : Sem} (hs : List Hist) : ∀ st : HState, HInv st → HInv (runHist cfg sem st hs) := by
  induction hs with
  | nil => intro st h; exact h
  | cons x rest ih => intro st h; exact ih _ (stepHist_inv h x)

end SV

import Lemmas.WireItems
/-!
Helper lemmas for C18: the specification (protobuf) decoder on the output-cache encoder's bytes, equality of the
fast and the specification encoder, exactness of `SizeVT`.
-/
namespace SV.Wire

/-! ### `proto.Unmarshal` of an `Item` on the chunks `Item.MarshalVT` writes -/

theorem specItem_num (f n : Nat) (rest : Bytes) (it0 : Item) (hn : n < two64) :
    pwMsgLoop specItemField (f + 1) ((0x08 : UInt8) :: (encVarint n ++ rest)) it0
      = pwMsgLoop specItemField f rest { it0 with blockNum := n } := by
  rw [pwMsgLoop, if_neg (by simp)]
  simp only [pwVarint_08]
  rw [if_neg (by decide), if_neg (by decide)]
  simp only [specItemField, pwVarint_enc hn]
  simp

theorem specItem_id (f : Nat) (p rest : Bytes) (it0 : Item) (hp : p.length < two64) (hutf : validUTF8 p = true) :
    pwMsgLoop specItemField (f + 1) ((0x12 : UInt8) :: (encVarint p.length ++ (p ++ rest))) it0
      = pwMsgLoop specItemField f rest { it0 with blockId := p } := by
  rw [pwMsgLoop, if_neg (by simp)]
  simp only [pwVarint_12]
  rw [if_neg (by decide), if_neg (by decide)]
  simp only [specItemField, pwLenField, pwBytes_enc p rest hp, pwString, hutf, Except.map]
  simp

theorem specItem_payload (f : Nat) (p rest : Bytes) (it0 : Item) (hp : p.length < two64) :
    pwMsgLoop specItemField (f + 1) ((0x1a : UInt8) :: (encVarint p.length ++ (p ++ rest))) it0
      = pwMsgLoop specItemField f rest { it0 with payload := p } := by
  rw [pwMsgLoop, if_neg (by simp)]
  simp only [pwVarint_1a]
  rw [if_neg (by decide), if_neg (by decide)]
  simp only [specItemField, pwLenField, pwBytes_enc p rest hp]
  simp

theorem specItem_cursor (f : Nat) (p rest : Bytes) (it0 : Item) (hp : p.length < two64)
    (hutf : validUTF8 p = true) :
    pwMsgLoop specItemField (f + 1) ((0x2a : UInt8) :: (encVarint p.length ++ (p ++ rest))) it0
      = pwMsgLoop specItemField f rest { it0 with cursor := p } := by
  rw [pwMsgLoop, if_neg (by simp)]
  simp only [pwVarint_2a]
  rw [if_neg (by decide), if_neg (by decide)]
  simp only [specItemField, pwLenField, pwBytes_enc p rest hp, pwString, hutf, Except.map]
  simp

theorem specItem_ts (f : Nat) (t : Timestamp) (rest : Bytes) (it0 : Item)
    (hp : (encTimestamp t).length < two64) (h0 : it0.timestamp = none)
    (hs : t.secs < two64) (hn : t.nanos < two32) :
    pwMsgLoop specItemField (f + 1)
        ((0x22 : UInt8) :: (encVarint (encTimestamp t).length ++ (encTimestamp t ++ rest))) it0
      = pwMsgLoop specItemField f rest { it0 with timestamp := some t } := by
  rw [pwMsgLoop, if_neg (by simp)]
  simp only [pwVarint_22]
  rw [if_neg (by decide), if_neg (by decide)]
  simp only [specItemField, pwLenField, pwBytes_enc _ rest hp, h0, Option.getD_none,
    specDecodeTimestamp_enc t hs hn, Except.map]
  simp

theorem specItem_optNum (f n : Nat) (rest : Bytes) (it0 : Item) (hn : n < two64) (h0 : it0.blockNum = 0) :
    pwMsgLoop specItemField (f + bNat (n ≠ 0)) (optNum n ++ rest) it0
      = pwMsgLoop specItemField f rest { it0 with blockNum := n } := by
  unfold bNat optNum
  by_cases h : n = 0
  · subst h
    simp only [ne_eq, not_true_eq_false, if_false, Nat.add_zero, List.nil_append]
    rw [← h0]
  · simp only [ne_eq, h, not_false_eq_true, if_true, List.cons_append]
    exact specItem_num f n rest it0 hn

theorem specItem_optId (f : Nat) (p rest : Bytes) (it0 : Item) (hp : p.length < two64)
    (hutf : validUTF8 p = true) (h0 : it0.blockId = []) :
    pwMsgLoop specItemField (f + bNat (p.length > 0)) (optLen 0x12 p ++ rest) it0
      = pwMsgLoop specItemField f rest { it0 with blockId := p } := by
  unfold bNat optLen
  by_cases h : p.length > 0
  · simp only [h, if_true, List.cons_append, List.append_assoc]
    exact specItem_id f p rest it0 hp hutf
  · have hp' : p = [] := List.eq_nil_of_length_eq_zero (by omega)
    subst hp'
    simp only [List.length_nil, Nat.lt_irrefl, if_false, Nat.add_zero, List.nil_append, gt_iff_lt]
    rw [← h0]

theorem specItem_optPayload (f : Nat) (p rest : Bytes) (it0 : Item) (hp : p.length < two64)
    (h0 : it0.payload = []) :
    pwMsgLoop specItemField (f + bNat (p.length > 0)) (optLen 0x1a p ++ rest) it0
      = pwMsgLoop specItemField f rest { it0 with payload := p } := by
  unfold bNat optLen
  by_cases h : p.length > 0
  · simp only [h, if_true, List.cons_append, List.append_assoc]
    exact specItem_payload f p rest it0 hp
  · have hp' : p = [] := List.eq_nil_of_length_eq_zero (by omega)
    subst hp'
    simp only [List.length_nil, Nat.lt_irrefl, if_false, Nat.add_zero, List.nil_append, gt_iff_lt]
    rw [← h0]

theorem specItem_optCursor_end (f : Nat) (p : Bytes) (it0 : Item) (hp : p.length < two64)
    (hutf : validUTF8 p = true) (h0 : it0.cursor = []) :
    pwMsgLoop specItemField (f + 1 + bNat (p.length > 0)) (optLen 0x2a p) it0 = .ok { it0 with cursor := p } := by
  unfold bNat optLen
  by_cases h : p.length > 0
  · simp only [h, if_true]
    have := specItem_cursor (f + 1) p [] it0 hp hutf
    simp only [List.append_nil] at this
    rw [this, pwMsgLoop_nil]
  · have hp' : p = [] := List.eq_nil_of_length_eq_zero (by omega)
    subst hp'
    simp only [List.length_nil, Nat.lt_irrefl, if_false, Nat.add_zero, gt_iff_lt]
    rw [pwMsgLoop_nil, ← h0]

theorem specItem_optTs (f : Nat) (t : Option Timestamp) (rest : Bytes) (it0 : Item)
    (hp : (optTs t).length < two64) (h0 : it0.timestamp = none)
    (hts : ∀ x, t = some x → x.secs < two64 ∧ x.nanos < two32) :
    pwMsgLoop specItemField (f + bNat (t.isSome = true)) (optTs t ++ rest) it0
      = pwMsgLoop specItemField f rest { it0 with timestamp := t } := by
  cases t with
  | none =>
    simp only [bNat, optTs, Option.isSome_none, Bool.false_eq_true, if_false, Nat.add_zero, List.nil_append]
    rw [← h0]
  | some x =>
    simp only [bNat, optTs, Option.isSome_some, if_true, List.cons_append, List.append_assoc, List.length_cons,
      List.length_append] at *
    have hx := hts x rfl
    exact specItem_ts f x rest it0 (by omega) h0 hx.1 hx.2

theorem optLen_ge (tag : UInt8) (p : Bytes) : p.length ≤ (optLen tag p).length := by
  unfold optLen
  split
  · simp only [List.length_cons, List.length_append]; omega
  · simp only [List.length_nil]; omega

/-- `proto.Unmarshal` into an `Item` reads what `Item.MarshalVT` wrote (string fields must be UTF-8) -/
theorem specDecodeItem_enc (it : Item) (hwt : it.WellTyped) (hlen : (vtEncItemBody it).length < two64)
    (hid : validUTF8 it.blockId = true) (hcur : validUTF8 it.cursor = true) :
    specDecodeItem (vtEncItemBody it) = .ok it := by
  unfold specDecodeItem pwMsg
  rw [vtEncItemBody_chunks] at *
  have b1 := optNum_length it.blockNum
  have b2 := optLen_length 0x12 it.blockId
  have b3 := optLen_length 0x1a it.payload
  have b4 := optTs_length it.timestamp
  have b5 := optLen_length 0x2a it.cursor
  have l2 := optLen_ge 0x12 it.blockId
  have l3 := optLen_ge 0x1a it.payload
  have l5 := optLen_ge 0x2a it.cursor
  generalize hL : (optNum it.blockNum ++ (optLen 0x12 it.blockId ++ (optLen 0x1a it.payload ++
      (optTs it.timestamp ++ optLen 0x2a it.cursor)))).length = L at *
  have hL' := hL
  simp only [List.length_append] at hL'
  rw [show L + 1 = (((((L - bNat (it.blockNum ≠ 0) - bNat (it.blockId.length > 0) - bNat (it.payload.length > 0)
          - bNat (it.timestamp.isSome = true) - bNat (it.cursor.length > 0)) + 1
        + bNat (it.cursor.length > 0)) + bNat (it.timestamp.isSome = true)) + bNat (it.payload.length > 0))
        + bNat (it.blockId.length > 0)) + bNat (it.blockNum ≠ 0) by omega]
  rw [specItem_optNum _ it.blockNum _ {} hwt.1 rfl]
  rw [specItem_optId _ it.blockId _ _ (by omega) hid rfl]
  rw [specItem_optPayload _ it.payload _ _ (by omega) rfl]
  rw [specItem_optTs _ it.timestamp _ _ (by omega) rfl hwt.2]
  rw [specItem_optCursor_end _ it.cursor _ (by omega) hcur rfl]

theorem specArray_item (f : Nat) (it : Item) (tail : Bytes) (items : List Item)
    (hwt : it.WellTyped) (hlen : (vtEncItem it).length < two64)
    (hid : validUTF8 it.blockId = true) (hcur : validUTF8 it.cursor = true) :
    pwMsgLoop specArrayField (f + 1) (vtEncItem it ++ tail) items
      = pwMsgLoop specArrayField f tail (items ++ [it]) := by
  rw [vtEncItem_length] at hlen
  unfold vtEncItem
  simp only [List.append_assoc, List.cons_append, List.nil_append]
  rw [pwMsgLoop, if_neg (by simp)]
  simp only [pwVarint_0a]
  rw [if_neg (by decide), if_neg (by decide)]
  simp only [specArrayField, pwLenField,
    pwBytes_enc _ tail (show (vtEncItemBody it).length < two64 by omega),
    specDecodeItem_enc it hwt (by omega) hid hcur, Except.map]
  simp

theorem specArray_items (its : List Item) : ∀ (f : Nat) (tail : Bytes) (items : List Item),
    (∀ it ∈ its, it.WellTyped ∧ validUTF8 it.blockId = true ∧ validUTF8 it.cursor = true) →
    (its.flatMap vtEncItem).length < two64 →
    pwMsgLoop specArrayField (f + its.length) (its.flatMap vtEncItem ++ tail) items
      = pwMsgLoop specArrayField f tail (items ++ its) := by
  induction its with
  | nil => intro f tail items _ _; simp
  | cons it t ih =>
    intro f tail items h hlen
    simp only [List.flatMap_cons, List.append_assoc, List.length_cons, List.length_append] at *
    have hit := h it (by simp)
    rw [← Nat.add_assoc, specArray_item _ it _ items hit.1 (by omega) hit.2.1 hit.2.2]
    rw [ih f tail _ (fun x hx => h x (by simp [hx])) (by omega)]
    simp

/-- `proto.Unmarshal` into an `Array` reads what `Array.MarshalVT` (hence `Map.MarshalFast`) wrote -/
theorem specDecodeArray_enc (items : List Item)
    (h : ∀ it ∈ items, it.WellTyped ∧ validUTF8 it.blockId = true ∧ validUTF8 it.cursor = true)
    (hlen : (vtEncArray items).length < two64) : specDecodeArray (vtEncArray items) = .ok items := by
  unfold specDecodeArray pwMsg vtEncArray at *
  have h1 := length_le_flatMap vtEncItem (fun it => by rw [vtEncItem_length]; omega) items
  generalize hL : (items.flatMap vtEncItem).length = L at *
  rw [show L + 1 = ((L - items.length) + 1) + items.length by omega]
  have := specArray_items items ((L - items.length) + 1) [] [] h (by omega)
  simp only [List.append_nil, List.nil_append] at this
  rw [this, pwMsgLoop_nil]

/-! ### the specification encoder writes the same bytes; `SizeVT` is exact -/

theorem encTag_3_2 : encTag 3 2 = [0x1a] := by
  unfold encTag; rw [encVarint_lt (by decide)]; rfl
theorem encTag_4_2 : encTag 4 2 = [0x22] := by
  unfold encTag; rw [encVarint_lt (by decide)]; rfl
theorem encTag_5_2 : encTag 5 2 = [0x2a] := by
  unfold encTag; rw [encVarint_lt (by decide)]; rfl

theorem ne_nil_iff_length_pos (p : Bytes) : p ≠ [] ↔ p.length > 0 := by
  cases p <;> simp

theorem specEncItemBody_eq (it : Item) : specEncItemBody it = vtEncItemBody it := by
  unfold specEncItemBody vtEncItemBody
  simp only [encLenField, encVarintField_1, encTag_2_2, encTag_3_2, encTag_4_2, encTag_5_2, ne_nil_iff_length_pos,
    List.cons_append, List.nil_append, List.append_assoc]

theorem specEncArrayBytes_eq (items : List Item) : specEncArrayBytes items = vtEncArray items := by
  unfold specEncArrayBytes vtEncArray
  congr 1
  funext it
  simp only [encLenField, encTag_1_2, specEncItemBody_eq, vtEncItem, List.cons_append, List.nil_append,
    List.append_assoc]

theorem sizeTimestamp_eq (t : Timestamp) : sizeTimestamp t = (encTimestamp t).length := by
  unfold sizeTimestamp encTimestamp
  simp only [encVarintField_1, encVarintField_2, sov_eq, List.length_append]
  split <;> split <;> simp <;> omega

theorem sizeVTItem_eq (it : Item) : sizeVTItem it = (vtEncItemBody it).length := by
  unfold sizeVTItem vtEncItemBody
  simp only [sov_eq, sizeTimestamp_eq, List.length_append]
  cases it.timestamp <;> simp only [] <;> split <;> split <;> split <;> split <;>
    simp only [List.length_cons, List.length_append, List.length_nil] <;> omega

theorem sizeVTArray_eq (items : List Item) : sizeVTArray items = (vtEncArray items).length := by
  simp only [sizeVTArray, vtEncArray]
  rw [length_flatMap']
  apply sum_map_congr
  intro it
  rw [vtEncItem_length, sizeVTItem_eq, sov_eq]
  omega

theorem marshalArrayVT_eq (items : List Item) : marshalArrayVT items = .ok (vtEncArray items) := by
  simp only [marshalArrayVT]
  rw [if_pos (sizeVTArray_eq items)]

end SV.Wire

import Lemmas.Wire
/-!
Helper lemmas for C18 about the output-cache messages (`Item`, `Array`, nested `Timestamp`) of
`Model/Wire.lean`: the fast decoder and the specification decoder on encoder output.
-/
namespace SV.Wire

/-! ### Timestamp -/

theorem nanosToU64_lt {n : Nat} (h : n < two32) : nanosToU64 n < two64 := by
  unfold nanosToU64 two64 two32 two31 at *
  split <;> omega

theorem nanosToU64_mod {n : Nat} (h : n < two32) : nanosToU64 n % two32 = n := by
  unfold nanosToU64 two64 two32 two31 at *
  split <;> omega

theorem pwVarint_08 (r : Bytes) : pwVarint ((0x08 : UInt8) :: r) = .ok (8, r) := rfl
theorem pwVarint_10 (r : Bytes) : pwVarint ((0x10 : UInt8) :: r) = .ok (16, r) := rfl
theorem pwVarint_1a (r : Bytes) : pwVarint ((0x1a : UInt8) :: r) = .ok (26, r) := rfl
theorem pwVarint_22 (r : Bytes) : pwVarint ((0x22 : UInt8) :: r) = .ok (34, r) := rfl
theorem pwVarint_2a (r : Bytes) : pwVarint ((0x2a : UInt8) :: r) = .ok (42, r) := rfl

theorem encVarintField_1 (v : Nat) : encVarintField 1 v = (0x08 : UInt8) :: encVarint v := by
  unfold encVarintField encTag; rw [encVarint_lt (by decide)]; rfl
theorem encVarintField_2 (v : Nat) : encVarintField 2 v = (0x10 : UInt8) :: encVarint v := by
  unfold encVarintField encTag; rw [encVarint_lt (by decide)]; rfl

theorem specTs_secs (f : Nat) (v : Nat) (rest : Bytes) (t0 : Timestamp) (hv : v < two64) :
    pwMsgLoop specTsField (f + 1) ((0x08 : UInt8) :: (encVarint v ++ rest)) t0
      = pwMsgLoop specTsField f rest { t0 with secs := v } := by
  rw [pwMsgLoop, if_neg (by simp)]
  simp only [pwVarint_08]
  rw [if_neg (by decide), if_neg (by decide)]
  simp only [specTsField, pwVarint_enc hv]
  simp

theorem specTs_nanos (f : Nat) (v : Nat) (rest : Bytes) (t0 : Timestamp) (hv : v < two64) :
    pwMsgLoop specTsField (f + 1) ((0x10 : UInt8) :: (encVarint v ++ rest)) t0
      = pwMsgLoop specTsField f rest { t0 with nanos := v % two32 } := by
  rw [pwMsgLoop, if_neg (by simp)]
  simp only [pwVarint_10]
  rw [if_neg (by decide), if_neg (by decide)]
  simp only [specTsField, pwVarint_enc hv]
  simp

/-- `proto.Unmarshal` reads back `proto.Marshal` of a Timestamp -/
theorem specDecodeTimestamp_enc (t : Timestamp) (hs : t.secs < two64) (hn : t.nanos < two32) :
    specDecodeTimestampInto {} (encTimestamp t) = .ok t := by
  obtain ⟨secs, nanos⟩ := t
  simp only at hs hn
  unfold specDecodeTimestampInto pwMsg encTimestamp
  have hp1 := encVarint_length_pos secs
  have hp2 := encVarint_length_pos (nanosToU64 nanos)
  by_cases h1 : secs = 0 <;> by_cases h2 : nanos = 0
  · subst h1; subst h2
    simp only [ne_eq, not_true_eq_false, if_false, List.append_nil, List.length_nil]
    rw [pwMsgLoop_nil]
  · subst h1
    simp only [ne_eq, not_true_eq_false, if_false, h2, not_false_eq_true, if_true, List.nil_append,
      encVarintField_2, List.length_cons]
    have := specTs_nanos ((encVarint (nanosToU64 nanos)).length + 1) (nanosToU64 nanos) [] {} (nanosToU64_lt hn)
    simp only [List.append_nil] at this
    rw [this, nanosToU64_mod hn, pwMsgLoop_nil]
  · subst h2
    simp only [ne_eq, h1, not_false_eq_true, if_true, not_true_eq_false, if_false, List.append_nil,
      encVarintField_1, List.length_cons]
    have := specTs_secs ((encVarint secs).length + 1) secs [] {} hs
    simp only [List.append_nil] at this
    rw [this, pwMsgLoop_nil]
  · simp only [ne_eq, h1, h2, not_false_eq_true, if_true, encVarintField_1, encVarintField_2,
      List.cons_append, List.length_cons, List.length_append]
    rw [show (encVarint secs).length + ((encVarint (nanosToU64 nanos)).length + 1) + 1 + 1
        = ((encVarint secs).length + (encVarint (nanosToU64 nanos)).length + 1) + 1 + 1 by omega]
    rw [specTs_secs _ secs _ {} hs]
    have := specTs_nanos ((encVarint secs).length + (encVarint (nanosToU64 nanos)).length + 1)
      (nanosToU64 nanos) [] { secs := secs } (nanosToU64_lt hn)
    simp only [List.append_nil] at this
    rw [this, nanosToU64_mod hn, pwMsgLoop_nil]

/-! ### `Item.UnmarshalVTNoAlloc` on the chunks `Item.MarshalVT` writes -/

theorem vtVarint_08 (r : Bytes) : vtVarint ((0x08 : UInt8) :: r) = .ok (8, r) := rfl
theorem vtVarint_1a (r : Bytes) : vtVarint ((0x1a : UInt8) :: r) = .ok (26, r) := rfl
theorem vtVarint_22 (r : Bytes) : vtVarint ((0x22 : UInt8) :: r) = .ok (34, r) := rfl
theorem vtVarint_2a (r : Bytes) : vtVarint ((0x2a : UInt8) :: r) = .ok (42, r) := rfl

theorem vtItem_num (l f n : Nat) (rest : Bytes) (it0 : Item) (hn : n < two64) :
    vtItemLoop l (f + 1) ((0x08 : UInt8) :: (encVarint n ++ rest)) it0
      = vtItemLoop l f rest { it0 with blockNum := n } := by
  rw [vtItemLoop, if_neg (by simp)]
  simp only [vtVarint_08]
  rw [if_neg (by decide), if_neg (by decide), if_pos (by decide), if_neg (by decide)]
  simp only [vtVarint_enc hn]

theorem vtItem_id (l f : Nat) (p rest : Bytes) (it0 : Item)
    (hl : l < two63) (hlen : (p ++ rest).length < two63) :
    vtItemLoop l (f + 1) ((0x12 : UInt8) :: (encVarint p.length ++ (p ++ rest))) it0
      = vtItemLoop l f rest { it0 with blockId := p } := by
  have hp : p.length < two64 := by
    simp only [List.length_append] at hlen; unfold two63 at hlen; unfold two64; omega
  rw [vtItemLoop, if_neg (by simp)]
  simp only [vtVarint_12]
  rw [if_neg (by decide), if_neg (by decide), if_neg (by decide), if_pos (by decide), if_neg (by decide)]
  simp only [vtVarint_enc hp, vtCheckLen_ok hl hlen (show p.length ≤ (p ++ rest).length by simp),
    List.take_left, List.drop_left]

theorem vtItem_payload (l f : Nat) (p rest : Bytes) (it0 : Item)
    (hl : l < two63) (hlen : (p ++ rest).length < two63) :
    vtItemLoop l (f + 1) ((0x1a : UInt8) :: (encVarint p.length ++ (p ++ rest))) it0
      = vtItemLoop l f rest { it0 with payload := p } := by
  have hp : p.length < two64 := by
    simp only [List.length_append] at hlen; unfold two63 at hlen; unfold two64; omega
  rw [vtItemLoop, if_neg (by simp)]
  simp only [vtVarint_1a]
  rw [if_neg (by decide), if_neg (by decide), if_neg (by decide), if_neg (by decide), if_pos (by decide),
    if_neg (by decide)]
  simp only [vtVarint_enc hp, vtCheckLen_ok hl hlen (show p.length ≤ (p ++ rest).length by simp),
    List.take_left, List.drop_left]

theorem vtItem_cursor (l f : Nat) (p rest : Bytes) (it0 : Item)
    (hl : l < two63) (hlen : (p ++ rest).length < two63) :
    vtItemLoop l (f + 1) ((0x2a : UInt8) :: (encVarint p.length ++ (p ++ rest))) it0
      = vtItemLoop l f rest { it0 with cursor := p } := by
  have hp : p.length < two64 := by
    simp only [List.length_append] at hlen; unfold two63 at hlen; unfold two64; omega
  rw [vtItemLoop, if_neg (by simp)]
  simp only [vtVarint_2a]
  rw [if_neg (by decide), if_neg (by decide), if_neg (by decide), if_neg (by decide), if_neg (by decide),
    if_neg (by decide), if_pos (by decide), if_neg (by decide)]
  simp only [vtVarint_enc hp, vtCheckLen_ok hl hlen (show p.length ≤ (p ++ rest).length by simp),
    List.take_left, List.drop_left]

theorem vtItem_ts (l f : Nat) (t : Timestamp) (rest : Bytes) (it0 : Item)
    (hl : l < two63) (hlen : (encTimestamp t ++ rest).length < two63)
    (hs : t.secs < two64) (hn : t.nanos < two32) :
    vtItemLoop l (f + 1) ((0x22 : UInt8) :: (encVarint (encTimestamp t).length ++ (encTimestamp t ++ rest))) it0
      = vtItemLoop l f rest { it0 with timestamp := some t } := by
  have hp : (encTimestamp t).length < two64 := by
    simp only [List.length_append] at hlen; unfold two63 at hlen; unfold two64; omega
  rw [vtItemLoop, if_neg (by simp)]
  simp only [vtVarint_22]
  rw [if_neg (by decide), if_neg (by decide), if_neg (by decide), if_neg (by decide), if_neg (by decide),
    if_pos (by decide), if_neg (by decide)]
  simp only [vtVarint_enc hp,
    vtCheckLen_ok hl hlen (show (encTimestamp t).length ≤ (encTimestamp t ++ rest).length by simp),
    List.take_left, List.drop_left, specDecodeTimestamp_enc t hs hn]

theorem vtItemLoop_nil (l f : Nat) (it : Item) : vtItemLoop l (f + 1) [] it = .ok it := by
  rw [vtItemLoop, if_pos rfl]

/-! ### the item body as five optional chunks -/

def optNum (n : Nat) : Bytes := if n ≠ 0 then (0x08 : UInt8) :: encVarint n else []
def optLen (tag : UInt8) (p : Bytes) : Bytes := if p.length > 0 then tag :: (encVarint p.length ++ p) else []
def optTs : Option Timestamp → Bytes
  | some t => (0x22 : UInt8) :: (encVarint (encTimestamp t).length ++ encTimestamp t)
  | none => []
def bNat (b : Prop) [Decidable b] : Nat := if b then 1 else 0

theorem vtEncItemBody_chunks (it : Item) :
    vtEncItemBody it = optNum it.blockNum ++ (optLen 0x12 it.blockId ++ (optLen 0x1a it.payload ++
      (optTs it.timestamp ++ optLen 0x2a it.cursor))) := by
  unfold vtEncItemBody optNum optLen
  cases it.timestamp <;>
    simp only [optTs, List.append_assoc, List.cons_append, List.nil_append, List.append_nil] <;>
    split <;> split <;> split <;> split <;> simp

theorem optNum_length (n : Nat) : bNat (n ≠ 0) ≤ (optNum n).length := by
  unfold bNat optNum; split <;> simp
theorem optLen_length (tag : UInt8) (p : Bytes) : bNat (p.length > 0) ≤ (optLen tag p).length := by
  unfold bNat optLen; split <;> simp
theorem optTs_length (t : Option Timestamp) : bNat (t.isSome = true) ≤ (optTs t).length := by
  cases t <;> simp [bNat, optTs]

theorem vtItem_optNum (l f n : Nat) (rest : Bytes) (it0 : Item) (hn : n < two64) (h0 : it0.blockNum = 0) :
    vtItemLoop l (f + bNat (n ≠ 0)) (optNum n ++ rest) it0 = vtItemLoop l f rest { it0 with blockNum := n } := by
  unfold bNat optNum
  by_cases h : n = 0
  · subst h
    simp only [ne_eq, not_true_eq_false, if_false, Nat.add_zero, List.nil_append]
    rw [← h0]
  · simp only [ne_eq, h, not_false_eq_true, if_true, List.cons_append]
    exact vtItem_num l f n rest it0 hn

theorem vtItem_optId (l f : Nat) (p rest : Bytes) (it0 : Item) (hl : l < two63)
    (hlen : (optLen 0x12 p ++ rest).length < two63) (h0 : it0.blockId = []) :
    vtItemLoop l (f + bNat (p.length > 0)) (optLen 0x12 p ++ rest) it0
      = vtItemLoop l f rest { it0 with blockId := p } := by
  unfold bNat optLen at *
  by_cases h : p.length > 0
  · simp only [h, if_true, List.cons_append, List.append_assoc, List.length_cons, List.length_append] at *
    exact vtItem_id l f p rest it0 hl (by simp only [List.length_append]; omega)
  · have hp : p = [] := List.eq_nil_of_length_eq_zero (by omega)
    subst hp
    simp only [List.length_nil, Nat.lt_irrefl, if_false, Nat.add_zero, List.nil_append, gt_iff_lt]
    rw [← h0]

theorem vtItem_optPayload (l f : Nat) (p rest : Bytes) (it0 : Item) (hl : l < two63)
    (hlen : (optLen 0x1a p ++ rest).length < two63) (h0 : it0.payload = []) :
    vtItemLoop l (f + bNat (p.length > 0)) (optLen 0x1a p ++ rest) it0
      = vtItemLoop l f rest { it0 with payload := p } := by
  unfold bNat optLen at *
  by_cases h : p.length > 0
  · simp only [h, if_true, List.cons_append, List.append_assoc, List.length_cons, List.length_append] at *
    exact vtItem_payload l f p rest it0 hl (by simp only [List.length_append]; omega)
  · have hp : p = [] := List.eq_nil_of_length_eq_zero (by omega)
    subst hp
    simp only [List.length_nil, Nat.lt_irrefl, if_false, Nat.add_zero, List.nil_append, gt_iff_lt]
    rw [← h0]

theorem vtItem_optCursor (l f : Nat) (p rest : Bytes) (it0 : Item) (hl : l < two63)
    (hlen : (optLen 0x2a p ++ rest).length < two63) (h0 : it0.cursor = []) :
    vtItemLoop l (f + bNat (p.length > 0)) (optLen 0x2a p ++ rest) it0
      = vtItemLoop l f rest { it0 with cursor := p } := by
  unfold bNat optLen at *
  by_cases h : p.length > 0
  · simp only [h, if_true, List.cons_append, List.append_assoc, List.length_cons, List.length_append] at *
    exact vtItem_cursor l f p rest it0 hl (by simp only [List.length_append]; omega)
  · have hp : p = [] := List.eq_nil_of_length_eq_zero (by omega)
    subst hp
    simp only [List.length_nil, Nat.lt_irrefl, if_false, Nat.add_zero, List.nil_append, gt_iff_lt]
    rw [← h0]

theorem vtItem_optCursor_end (l f : Nat) (p : Bytes) (it0 : Item) (hl : l < two63)
    (hlen : (optLen 0x2a p).length < two63) (h0 : it0.cursor = []) :
    vtItemLoop l (f + 1 + bNat (p.length > 0)) (optLen 0x2a p) it0 = .ok { it0 with cursor := p } := by
  have := vtItem_optCursor l (f + 1) p [] it0 hl (by simpa using hlen) h0
  simp only [List.append_nil] at this
  rw [this, vtItemLoop_nil]

theorem vtItem_optTs (l f : Nat) (t : Option Timestamp) (rest : Bytes) (it0 : Item) (hl : l < two63)
    (hlen : (optTs t ++ rest).length < two63) (h0 : it0.timestamp = none)
    (hts : ∀ x, t = some x → x.secs < two64 ∧ x.nanos < two32) :
    vtItemLoop l (f + bNat (t.isSome = true)) (optTs t ++ rest) it0
      = vtItemLoop l f rest { it0 with timestamp := t } := by
  cases t with
  | none =>
    simp only [bNat, optTs, Option.isSome_none, Bool.false_eq_true, if_false, Nat.add_zero, List.nil_append]
    rw [← h0]
  | some x =>
    simp only [bNat, optTs, Option.isSome_some, if_true, List.cons_append, List.append_assoc, List.length_cons,
      List.length_append] at *
    have hx := hts x rfl
    exact vtItem_ts l f x rest it0 hl (by simp only [List.length_append]; omega) hx.1 hx.2

/-- `Item.UnmarshalVTNoAlloc` reads back what `Item.MarshalVT` wrote -/
theorem unmarshalItemVT_enc (it : Item) (hnum : it.blockNum < two64)
    (hts : ∀ x, it.timestamp = some x → x.secs < two64 ∧ x.nanos < two32)
    (hlen : (vtEncItemBody it).length < two63) :
    unmarshalItemVT (vtEncItemBody it) = .ok it := by
  unfold unmarshalItemVT
  rw [vtEncItemBody_chunks] at *
  have b1 := optNum_length it.blockNum
  have b2 := optLen_length 0x12 it.blockId
  have b3 := optLen_length 0x1a it.payload
  have b4 := optTs_length it.timestamp
  have b5 := optLen_length 0x2a it.cursor
  generalize hL : (optNum it.blockNum ++ (optLen 0x12 it.blockId ++ (optLen 0x1a it.payload ++
      (optTs it.timestamp ++ optLen 0x2a it.cursor)))).length = L at *
  have hL' := hL
  simp only [List.length_append] at hL'
  have hl : L < two63 := hlen
  rw [show L + 1 = (((((L - bNat (it.blockNum ≠ 0) - bNat (it.blockId.length > 0) - bNat (it.payload.length > 0)
          - bNat (it.timestamp.isSome = true) - bNat (it.cursor.length > 0)) + 1
        + bNat (it.cursor.length > 0)) + bNat (it.timestamp.isSome = true)) + bNat (it.payload.length > 0))
        + bNat (it.blockId.length > 0)) + bNat (it.blockNum ≠ 0) by omega]
  rw [vtItem_optNum L _ it.blockNum _ {} hnum rfl]
  rw [vtItem_optId L _ it.blockId _ _ hl (by simp only [List.length_append]; omega) rfl]
  rw [vtItem_optPayload L _ it.payload _ _ hl (by simp only [List.length_append]; omega) rfl]
  rw [vtItem_optTs L _ it.timestamp _ _ hl (by simp only [List.length_append]; omega) rfl hts]
  rw [vtItem_optCursor_end L _ it.cursor _ hl (by omega) rfl]

/-! ### `Array` and `Map` (fast decoder) -/

/-- what the Go types guarantee: `BlockNum uint64`, `Seconds int64`, `Nanos int32` -/
def Item.WellTyped (it : Item) : Prop :=
  it.blockNum < two64 ∧ ∀ x, it.timestamp = some x → x.secs < two64 ∧ x.nanos < two32

theorem vtEncItem_length (it : Item) :
    (vtEncItem it).length = 1 + (encVarint (vtEncItemBody it).length).length + (vtEncItemBody it).length := by
  unfold vtEncItem
  simp only [List.length_append, List.length_cons, List.length_nil]

theorem vtArrayLoop_item (l f : Nat) (it : Item) (tail : Bytes) (items : List Item)
    (hwt : it.WellTyped) (hl : l < two63) (hlen : (vtEncItem it ++ tail).length < two63) :
    vtArrayLoop l (f + 1) (vtEncItem it ++ tail) items = vtArrayLoop l f tail (items ++ [it]) := by
  rw [List.length_append, vtEncItem_length] at hlen
  have hb64 : (vtEncItemBody it).length < two64 := by unfold two63 at hlen; unfold two64; omega
  unfold vtEncItem
  simp only [List.append_assoc, List.cons_append, List.nil_append]
  rw [vtArrayLoop, if_neg (by simp)]
  simp only [vtVarint_0a, fieldNum32_10, vtVarint_enc hb64]
  rw [if_neg (by decide), if_neg (by unfold two31; omega), if_pos trivial, if_neg (by decide)]
  rw [vtCheckLen_ok hl (by simp only [List.length_append]; omega) (by simp)]
  simp only [List.take_left, List.drop_left, unmarshalItemVT_enc it hwt.1 hwt.2 (by omega)]

theorem vtArrayLoop_items (l : Nat) (its : List Item) : ∀ (f : Nat) (tail : Bytes) (items : List Item),
    (∀ it ∈ its, it.WellTyped) → l < two63 → (its.flatMap vtEncItem ++ tail).length < two63 →
    vtArrayLoop l (f + its.length) (its.flatMap vtEncItem ++ tail) items = vtArrayLoop l f tail (items ++ its) := by
  induction its with
  | nil => intro f tail items _ _ _; simp
  | cons it t ih =>
    intro f tail items hwt hl hlen
    simp only [List.flatMap_cons, List.append_assoc, List.length_cons] at *
    rw [← Nat.add_assoc, vtArrayLoop_item l _ it _ items (hwt it (by simp)) hl hlen]
    rw [ih f tail _ (fun x hx => hwt x (by simp [hx])) hl (by simp only [List.length_append] at *; omega)]
    simp

/-- `Array.UnmarshalVTNoAlloc` reads back `Array.MarshalVT` -/
theorem unmarshalArrayVT_enc (items : List Item) (hwt : ∀ it ∈ items, it.WellTyped)
    (hlen : (vtEncArray items).length < two63) : unmarshalArrayVT (vtEncArray items) = .ok items := by
  unfold unmarshalArrayVT vtEncArray at *
  have h1 := length_le_flatMap vtEncItem (fun it => by rw [vtEncItem_length]; omega) items
  generalize hL : (items.flatMap vtEncItem).length = L at *
  rw [show L + 1 = ((L - items.length) + 1) + items.length by omega]
  have := vtArrayLoop_items L items ((L - items.length) + 1) [] [] hwt hlen (by simpa [hL] using hlen)
  simp only [List.append_nil, List.nil_append] at this
  rw [this, vtArrayLoop, if_pos rfl]

theorem itemInsert_new (m : ItemMap) (k : Bytes) (v : Item) (h : k ∉ m.map (·.1)) :
    itemInsert m k v = m ++ [(k, v)] := by
  induction m with
  | nil => rfl
  | cons a t ih =>
    obtain ⟨k', v'⟩ := a
    simp only [List.map_cons, List.mem_cons, not_or] at h
    simp only [itemInsert]
    rw [if_neg (fun hc => h.1 hc.symm), ih h.2]
    rfl

theorem foldl_itemInsert (es : ItemMap) : ∀ acc : ItemMap, (acc.map (·.1) ++ es.map (·.1)).Nodup →
    (∀ e ∈ es, e.2.blockId = e.1) →
    (es.map (·.2)).foldl (fun m it => itemInsert m it.blockId it) acc = acc ++ es := by
  induction es with
  | nil => intro acc _ _; simp
  | cons e t ih =>
    intro acc h hk
    have hnot : e.1 ∉ acc.map (·.1) := by
      intro hc
      rw [List.nodup_append] at h
      exact h.2.2 _ hc _ (by simp) rfl
    rw [List.map_cons, List.foldl_cons, hk e (by simp), itemInsert_new acc e.1 e.2 hnot, ih]
    · simp
    · simpa [List.map_append, List.append_assoc] using h
    · exact fun x hx => hk x (by simp [hx])

/-- `Map.UnmarshalFast` reads back `Map.MarshalFast`: the map is keyed by block id (`File.SetItem`). -/
theorem unmarshalFast_enc (m : ItemMap) (hnd : (m.map (·.1)).Nodup) (hkey : ∀ e ∈ m, e.2.blockId = e.1)
    (hwt : ∀ e ∈ m, e.2.WellTyped) (hlen : (vtEncArray (m.map (·.2))).length < two63) :
    unmarshalFast (vtEncArray (m.map (·.2))) = .ok m := by
  unfold unmarshalFast
  rw [unmarshalArrayVT_enc _ (by
    intro it hit
    simp only [List.mem_map] at hit
    obtain ⟨e, he, rfl⟩ := hit
    exact hwt e he) hlen]
  simp only
  rw [foldl_itemInsert m [] (by simpa using hnd) hkey]
  simp

end SV.Wire

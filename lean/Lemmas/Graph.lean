import Model.Graph
/-! Helper lemmas for C14 (`Props/C14.lean`).  Core Lean only. -/
namespace SV.Graph

/-! ### small list facts -/

theorem nodupB_iff {l : List String} : nodupB l = true ↔ l.Nodup := by
  induction l with
  | nil => simp [nodupB]
  | cons a t ih => simp [nodupB, ih, List.nodup_cons]

/-- pigeonhole, equality case -/
theorem subset_of_nodup_of_length_le {l₁ l₂ : List String} (h₁ : l₁.Nodup) (hs : l₁ ⊆ l₂)
    (hl : l₂.length ≤ l₁.length) : l₂ ⊆ l₁ := by
  intro x hx
  apply Classical.byContradiction
  intro hnx
  have hnd : (x :: l₁).Nodup := List.nodup_cons.2 ⟨hnx, h₁⟩
  have hsub : (x :: l₁) ⊆ l₂ := by
    intro y hy
    rcases List.mem_cons.1 hy with rfl | hy
    · exact hx
    · exact hs hy
  have := List.Nodup.length_le_of_subset hnd hsub
  simp at this
  omega

theorem eq_of_name_eq {mods : List Module} (hn : (names mods).Nodup) {a b : Module}
    (ha : a ∈ mods) (hb : b ∈ mods) (h : a.name = b.name) : a = b := by
  induction mods with
  | nil => cases ha
  | cons c t ih =>
    simp only [names, List.map_cons, List.nodup_cons, List.mem_map, not_exists, not_and] at hn
    rcases List.mem_cons.1 ha with rfl | ha' <;> rcases List.mem_cons.1 hb with rfl | hb'
    · rfl
    · exact absurd h.symm (hn.1 b hb')
    · exact absurd h (hn.1 a ha')
    · exact ih hn.2 ha' hb'

theorem lookup_of_mem {mods : List Module} (hn : (names mods).Nodup) {m : Module} (hm : m ∈ mods) :
    lookup mods m.name = some m := by
  unfold lookup
  have hs : (mods.find? fun x => x.name == m.name).isSome := by
    rw [List.find?_isSome]; exact ⟨m, hm, by simp⟩
  obtain ⟨x, hx⟩ := Option.isSome_iff_exists.1 hs
  have hxm := List.mem_of_find?_eq_some hx
  have hxn : x.name = m.name := by simpa using List.find?_some hx
  rw [hx, eq_of_name_eq hn hxm hm hxn]

theorem lookup_some {mods : List Module} {n : String} {m : Module} (h : lookup mods n = some m) :
    m ∈ mods ∧ m.name = n := by
  unfold lookup at h
  exact ⟨List.mem_of_find?_eq_some h, by simpa using List.find?_some h⟩

theorem hasModule_iff {mods : List Module} {n : String} :
    hasModule mods n = true ↔ ∃ m ∈ mods, m.name = n := by
  simp [hasModule, names]

theorem lookup_isSome_of_hasModule {mods : List Module} {n : String} (h : hasModule mods n = true) :
    ∃ m, lookup mods n = some m := by
  obtain ⟨m, hm, rfl⟩ := hasModule_iff.1 h
  have hs : (mods.find? fun x => x.name == m.name).isSome := by
    rw [List.find?_isSome]; exact ⟨m, hm, by simp⟩
  exact Option.isSome_iff_exists.1 hs

/-! ### `scanInputs`, `consider`, `buildLayer` -/

/-- is the module this input depends on (if any) already placed -/
def depSeen (seen : List String) : Input → Bool
  | .map n => seen.contains n
  | .store n _ => seen.contains n
  | _ => true

theorem scanInputs_eq (seen : List String) (init : String → Nat) (m : Module) (ins : List Input) (v : Bool) :
    scanInputs seen init m ins v =
      if ins.all (depSeen seen) then some (v || ins.any (inputAvailable init m)) else none := by
  induction ins generalizing v with
  | nil => simp [scanInputs]
  | cons a rest ih =>
    cases a with
    | source t => simp [scanInputs, ih, depSeen, inputAvailable]
    | params p => simp [scanInputs, ih, depSeen, inputAvailable, Bool.or_assoc]
    | map n =>
      by_cases hs : n ∈ seen
      · simp [scanInputs, ih, depSeen, inputAvailable, hs, Bool.or_assoc]
      · simp [scanInputs, depSeen, hs]
    | store n md =>
      by_cases hs : n ∈ seen
      · simp [scanInputs, ih, depSeen, inputAvailable, hs, Bool.or_assoc]
      · simp [scanInputs, depSeen, hs]

theorem mem_deps {m : Module} {d : String} :
    d ∈ m.deps ↔ (.map d ∈ m.inputs ∨ (∃ md, .store d md ∈ m.inputs)) ∨ m.blockFilter = some d := by
  unfold Module.deps
  rw [List.mem_append, List.mem_filterMap]
  constructor
  · rintro (⟨i, hi, hd⟩ | h)
    · cases i with
      | source t => simp [Input.dep?] at hd
      | params p => simp [Input.dep?] at hd
      | map n => simp [Input.dep?] at hd; subst hd; exact .inl (.inl hi)
      | store n md => simp [Input.dep?] at hd; subst hd; exact .inl (.inr ⟨md, hi⟩)
    · right; cases hb : m.blockFilter with
      | none => simp [hb] at h
      | some f => simp [hb] at h; rw [h]
  · rintro ((h | ⟨md, h⟩) | h)
    · exact .inl ⟨_, h, rfl⟩
    · exact .inl ⟨_, h, rfl⟩
    · right; simp [h]

/-- all dependencies placed = the inner loop does not `continue modLoop` and the block filter test passes -/
theorem depsSeen_iff (seen : List String) (m : Module) :
    (∀ d ∈ m.deps, d ∈ seen) ↔
      (m.inputs.all (depSeen seen) = true ∧ ∀ f, m.blockFilter = some f → f ∈ seen) := by
  constructor
  · intro h
    refine ⟨?_, fun f hf => h f (mem_deps.2 (.inr hf))⟩
    rw [List.all_eq_true]
    intro i hi
    cases i with
    | source t => rfl
    | params p => rfl
    | map n => simpa [depSeen] using h n (mem_deps.2 (.inl (.inl hi)))
    | store n md => simpa [depSeen] using h n (mem_deps.2 (.inl (.inr ⟨md, hi⟩)))
  · rintro ⟨h1, h2⟩ d hd
    rw [List.all_eq_true] at h1
    rcases mem_deps.1 hd with (h | ⟨md, h⟩) | h
    · simpa [depSeen] using h1 _ h
    · simpa [depSeen] using h1 _ h
    · exact h2 d h

theorem consider_place_iff (i : Nat) (seen : List String) (init : String → Nat) (m : Module) :
    consider i seen init m = .place ↔
      (wrongParity i m = false ∧ m.name ∉ seen ∧ (∀ d ∈ m.deps, d ∈ seen) ∧ hasInputAt init m = true) := by
  rw [depsSeen_iff]
  unfold consider hasInputAt
  rw [scanInputs_eq]
  by_cases hp : wrongParity i m = true
  · simp [hp]
  · by_cases hs : m.name ∈ seen
    · simp [hp, hs]
    · by_cases hd : m.inputs.all (depSeen seen) = true
      · by_cases hv : m.inputs.any (inputAvailable init m) = true
        · cases hb : m.blockFilter with
          | none => simp [hp, hs, hd, hv]
          | some f => by_cases hf : f ∈ seen <;> simp [hp, hs, hd, hv, hf]
        · simp [hp, hs, hd, hv]
      · simp [hp, hs, hd]

theorem consider_noInput_iff (i : Nat) (seen : List String) (init : String → Nat) (m : Module) :
    consider i seen init m = .noInput ↔
      (wrongParity i m = false ∧ m.name ∉ seen ∧ m.inputs.all (depSeen seen) = true ∧
        hasInputAt init m = false) := by
  unfold consider hasInputAt
  rw [scanInputs_eq]
  by_cases hp : wrongParity i m = true
  · simp [hp]
  · by_cases hs : m.name ∈ seen
    · simp [hp, hs]
    · by_cases hd : m.inputs.all (depSeen seen) = true
      · by_cases hv : m.inputs.any (inputAvailable init m) = true
        · cases hb : m.blockFilter with
          | none => simp [hp, hs, hd, hv]
          | some f => by_cases hf : f ∈ seen <;> simp [hp, hs, hd, hv, hf]
        · simp [hp, hs, hd, hv]
      · simp [hp, hs, hd]

theorem buildLayer_some {i : Nat} {seen : List String} {init : String → Nat} :
    ∀ {mods layer : List Module}, buildLayer i seen init mods = some layer →
      layer = mods.filter (fun m => decide (consider i seen init m = .place)) ∧
      ∀ m ∈ mods, consider i seen init m ≠ .noInput := by
  intro mods
  induction mods with
  | nil => intro layer h; simp [buildLayer] at h; simp [h]
  | cons a rest ih =>
    intro layer h
    unfold buildLayer at h
    cases hc : consider i seen init a with
    | noInput => simp [hc] at h
    | skip =>
      simp only [hc] at h
      obtain ⟨h1, h2⟩ := ih h
      refine ⟨?_, ?_⟩
      · simp [hc, h1]
      · intro m hm
        rcases List.mem_cons.1 hm with rfl | hm
        · simp [hc]
        · exact h2 m hm
    | place =>
      simp only [hc] at h
      cases hr : buildLayer i seen init rest with
      | none => simp [hr] at h
      | some l =>
        simp only [hr, Option.some.injEq] at h
        obtain ⟨h1, h2⟩ := ih hr
        refine ⟨?_, ?_⟩
        · simp [hc, ← h, h1]
        · intro m hm
          rcases List.mem_cons.1 hm with rfl | hm
          · simp [hc]
          · exact h2 m hm

theorem buildLayer_none {i : Nat} {seen : List String} {init : String → Nat} :
    ∀ {mods : List Module}, buildLayer i seen init mods = none →
      ∃ m ∈ mods, consider i seen init m = .noInput := by
  intro mods
  induction mods with
  | nil => intro h; simp [buildLayer] at h
  | cons a rest ih =>
    intro h
    unfold buildLayer at h
    cases hc : consider i seen init a with
    | noInput => exact ⟨a, List.mem_cons_self, hc⟩
    | skip =>
      simp only [hc] at h
      obtain ⟨m, hm, hm'⟩ := ih h
      exact ⟨m, List.mem_cons_of_mem _ hm, hm'⟩
    | place =>
      simp only [hc] at h
      cases hr : buildLayer i seen init rest with
      | none =>
        obtain ⟨m, hm, hm'⟩ := ih hr
        exact ⟨m, List.mem_cons_of_mem _ hm, hm'⟩
      | some l => simp [hr] at h

/-! ### the layering loop: invariant -/

def Homogeneous (l : List Module) : Prop :=
  (∀ m ∈ l, m.isStore = true) ∨ (∀ m ∈ l, m.isStore = false)

/-- every dependency of a module of layer `j` is in a layer `k < j` -/
def DepsEarlier (layers : List (List Module)) : Prop :=
  ∀ (j : Nat) (l : List Module), layers[j]? = some l → ∀ m ∈ l, ∀ d ∈ Module.deps m,
    ∃ (k : Nat) (l' : List Module), k < j ∧ layers[k]? = some l' ∧ d ∈ names l'

structure Inv (used : List Module) (init : String → Nat) (seen : List String)
    (layers : List (List Module)) : Prop where
  seen_eq  : seen = names layers.flatten
  sub      : ∀ m ∈ layers.flatten, m ∈ used
  nodup    : seen.Nodup
  nonempty : ∀ l ∈ layers, l ≠ []
  homog    : ∀ l ∈ layers, Homogeneous l
  ordered  : DepsEarlier layers
  valid    : ∀ m ∈ layers.flatten, hasInputAt init m = true

theorem Inv.init (used : List Module) (init : String → Nat) : Inv used init [] [] :=
  ⟨rfl, by simp, by simp, by simp, by simp, by unfold DepsEarlier; intro j l h; simp at h, by simp⟩

theorem wrongParity_false_even {i : Nat} {m : Module} (hi : i % 2 = 0) (h : wrongParity i m = false) :
    m.isStore = true := by
  unfold wrongParity at h; unfold Module.isStore
  cases hk : m.kind <;> simp [hk, hi] at h ⊢

theorem wrongParity_false_odd {i : Nat} {m : Module} (hi : i % 2 = 1) (h : wrongParity i m = false) :
    m.isStore = false := by
  unfold wrongParity at h; unfold Module.isStore
  cases hk : m.kind <;> simp [hk, hi] at h ⊢

theorem wrongParity_flip {i : Nat} {m : Module} (h : wrongParity i m = true) :
    wrongParity (i + 1) m = false := by
  unfold wrongParity at h ⊢
  cases hk : m.kind <;> simp [hk] at h ⊢ <;> omega

theorem mem_layer {i : Nat} {seen : List String} {init : String → Nat} {used layer : List Module}
    (hb : buildLayer i seen init used = some layer) {m : Module} :
    m ∈ layer ↔ m ∈ used ∧ consider i seen init m = .place := by
  rw [(buildLayer_some hb).1]; simp

theorem mem_names {l : List Module} {n : String} : n ∈ names l ↔ ∃ m ∈ l, m.name = n := by
  simp [names]

theorem Inv.step {used : List Module} {init : String → Nat} {seen : List String}
    {layers : List (List Module)} {i : Nat} {layer : List Module}
    (hu : (names used).Nodup) (h : Inv used init seen layers)
    (hb : buildLayer i seen init used = some layer) (hne : layer ≠ []) :
    Inv used init (seen ++ names layer) (layers ++ [layer]) := by
  have hmem := @mem_layer i seen init used layer hb
  refine ⟨?_, ?_, ?_, ?_, ?_, ?_, ?_⟩
  · simp [names, h.seen_eq]
  · intro m hm
    simp only [List.flatten_append, List.mem_append, List.flatten_cons, List.flatten_nil,
      List.append_nil] at hm
    rcases hm with hm | hm
    · exact h.sub m hm
    · exact (hmem.1 hm).1
  · rw [List.nodup_append]
    refine ⟨h.nodup, ?_, ?_⟩
    · have hsl : List.Sublist layer used := by
        rw [(buildLayer_some hb).1]; exact List.filter_sublist
      exact List.Nodup.sublist (hsl.map _) hu
    · intro a ha b hb' hab
      obtain ⟨m, hm, rfl⟩ := mem_names.1 hb'
      have := ((consider_place_iff i seen init m).1 (hmem.1 hm).2).2.1
      exact this (hab ▸ ha)
  · intro l hl
    rcases List.mem_append.1 hl with hl | hl
    · exact h.nonempty l hl
    · simp at hl; subst hl; exact hne
  · intro l hl
    rcases List.mem_append.1 hl with hl | hl
    · exact h.homog l hl
    · simp at hl; subst hl
      rcases Nat.mod_two_eq_zero_or_one i with hi | hi
      · left; intro m hm
        exact wrongParity_false_even hi ((consider_place_iff i seen init m).1 (hmem.1 hm).2).1
      · right; intro m hm
        exact wrongParity_false_odd hi ((consider_place_iff i seen init m).1 (hmem.1 hm).2).1
  · unfold DepsEarlier
    intro j l hj m hm d hd
    by_cases hlt : j < layers.length
    · rw [List.getElem?_append_left hlt] at hj
      obtain ⟨k, l', hk, hk', hd'⟩ := h.ordered j l hj m hm d hd
      exact ⟨k, l', hk, by rw [List.getElem?_append_left (by omega)]; exact hk', hd'⟩
    · have hjl : j = layers.length := by
        have := (List.getElem?_eq_some_iff.1 hj).1
        simp at this; omega
      subst hjl
      simp at hj; subst hj
      have hds := ((consider_place_iff i seen init m).1 (hmem.1 hm).2).2.2.1 d hd
      rw [h.seen_eq] at hds
      obtain ⟨m', hm', rfl⟩ := mem_names.1 hds
      obtain ⟨l', hl', hml'⟩ := List.mem_flatten.1 hm'
      obtain ⟨k, hk'⟩ := List.mem_iff_getElem?.1 hl'
      have hk : k < layers.length := (List.getElem?_eq_some_iff.1 hk').1
      exact ⟨k, l', hk, by rw [List.getElem?_append_left hk]; exact hk', mem_names.2 ⟨m', hml', rfl⟩⟩
  · intro m hm
    simp only [List.flatten_append, List.mem_append, List.flatten_cons, List.flatten_nil,
      List.append_nil] at hm
    rcases hm with hm | hm
    · exact h.valid m hm
    · exact ((consider_place_iff i seen init m).1 (hmem.1 hm).2).2.2.2

theorem Inv.seen_sub {used : List Module} {init : String → Nat} {seen : List String}
    {layers : List (List Module)} (h : Inv used init seen layers) : seen ⊆ names used := by
  intro n hn
  rw [h.seen_eq] at hn
  obtain ⟨m, hm, rfl⟩ := mem_names.1 hn
  exact mem_names.2 ⟨m, h.sub m hm, rfl⟩

theorem Inv.length_le {used : List Module} {init : String → Nat} {seen : List String}
    {layers : List (List Module)} (h : Inv used init seen layers) : seen.length ≤ used.length := by
  have := List.Nodup.length_le_of_subset h.nodup h.seen_sub
  simpa [names] using this

/-- when the loop stops, the invariant holds of the result and every module has been placed -/
theorem loop_ok {used : List Module} {init : String → Nat} (hu : (names used).Nodup) :
    ∀ (fuel i : Nat) (seen : List String) (layers L : List (List Module)),
      Inv used init seen layers → stagesLoop used init fuel i seen layers = .ok L →
      Inv used init (names L.flatten) L ∧ ∀ m ∈ used, m ∈ L.flatten := by
  intro fuel
  induction fuel with
  | zero => intro i seen layers L _ h; simp [stagesLoop] at h
  | succ f ih =>
    intro i seen layers L hinv h
    unfold stagesLoop at h
    by_cases hdone : seen.length = used.length
    · simp [hdone] at h; subst h
      refine ⟨hinv.seen_eq ▸ hinv, ?_⟩
      intro m hm
      have hsub : names used ⊆ seen :=
        subset_of_nodup_of_length_le hinv.nodup hinv.seen_sub (by simp [names, hdone])
      have hn := hsub (mem_names.2 ⟨m, hm, rfl⟩)
      rw [hinv.seen_eq] at hn
      obtain ⟨m', hm', hmn⟩ := mem_names.1 hn
      rw [← eq_of_name_eq hu (hinv.sub m' hm') hm hmn]; exact hm'
    · simp only [beq_iff_eq, hdone, if_false] at h
      cases hb : buildLayer i seen init used with
      | none => simp [hb] at h
      | some layer =>
        simp only [hb] at h
        by_cases he : layer.isEmpty = true
        · simp only [he, if_true] at h
          exact ih _ _ _ _ hinv h
        · simp only [he] at h
          exact ih _ _ _ _ (hinv.step hu hb (by simpa using he)) h

/-! ### the layering loop: progress and termination -/

/-- the module list is closed under dependencies and admits a rank that strictly decreases along
every dependency (what acyclicity of the module graph gives for `ModulesDownTo`'s result) -/
structure Ranked (used : List Module) (r : String → Nat) : Prop where
  closed : ∀ m ∈ used, ∀ d ∈ Module.deps m, d ∈ names used
  dec    : ∀ m ∈ used, ∀ d ∈ Module.deps m, r d < r m.name

/-- as long as a module is missing from `seen`, some missing module has all its dependencies in `seen` -/
theorem exists_ready {used : List Module} {r : String → Nat} (hr : Ranked used r) (seen : List String) :
    ∀ (k : Nat) (m : Module), m ∈ used → m.name ∉ seen → r m.name = k →
      ∃ m' ∈ used, m'.name ∉ seen ∧ ∀ d ∈ Module.deps m', d ∈ seen := by
  intro k
  induction k using Nat.strongRecOn with
  | _ k ih =>
    intro m hm hns hk
    by_cases hall : ∀ d ∈ Module.deps m, d ∈ seen
    · exact ⟨m, hm, hns, hall⟩
    · have : ∃ d, d ∈ Module.deps m ∧ d ∉ seen := by
        apply Classical.byContradiction
        intro hne
        apply hall
        intro d hd
        apply Classical.byContradiction
        intro hds
        exact hne ⟨d, hd, hds⟩
      obtain ⟨d, hd, hds⟩ := this
      obtain ⟨m2, hm2, hn2⟩ := mem_names.1 (hr.closed m hm d hd)
      have hlt := hr.dec m hm d hd
      exact ih (r d) (hk ▸ hlt) m2 hm2 (hn2 ▸ hds) (by rw [hn2])

/-- a ready module is placed (or rejected) by iteration `i` or, if its kind has the other parity and
nothing happened in iteration `i`, by iteration `i+1` -/
theorem ready_verdict {i : Nat} {seen : List String} {init : String → Nat} {m : Module}
    (hns : m.name ∉ seen) (hd : ∀ d ∈ Module.deps m, d ∈ seen) (hp : wrongParity i m = false) :
    consider i seen init m = .place ∨ consider i seen init m = .noInput := by
  by_cases hv : hasInputAt init m = true
  · exact .inl ((consider_place_iff i seen init m).2 ⟨hp, hns, hd, hv⟩)
  · exact .inr ((consider_noInput_iff i seen init m).2
      ⟨hp, hns, ((depsSeen_iff seen m).1 hd).1, by simpa using hv⟩)

theorem length_step (seen : List String) (layer : List Module) :
    (seen ++ names layer).length = seen.length + layer.length := by simp [names]

theorem loop_no_hang {used : List Module} {init : String → Nat} {r : String → Nat}
    (hu : (names used).Nodup) (hr : Ranked used r) :
    ∀ (fuel i : Nat) (seen : List String) (layers : List (List Module)),
      Inv used init seen layers → 2 * (used.length - seen.length) + 1 ≤ fuel →
      stagesLoop used init fuel i seen layers ≠ .hang := by
  intro fuel
  induction fuel using Nat.strongRecOn with
  | _ fuel ih =>
    intro i seen layers hinv hf
    cases fuel with
    | zero => omega
    | succ f =>
      unfold stagesLoop
      by_cases hdone : seen.length = used.length
      · simp [hdone]
      · simp only [beq_iff_eq, hdone, if_false]
        have hle := hinv.length_le
        cases hb : buildLayer i seen init used with
        | none => simp
        | some layer =>
          simp only
          by_cases he : layer.isEmpty = true
          · simp only [he, if_true]
            have hnil : layer = [] := by simpa using he
            -- nothing was placed: the next iteration (other parity) must place something
            cases f with
            | zero => omega
            | succ f' =>
              unfold stagesLoop
              simp only [beq_iff_eq, hdone, if_false]
              cases hb2 : buildLayer (i + 1) seen init used with
              | none => simp
              | some layer2 =>
                simp only
                -- a ready module exists
                have hex : ∃ m ∈ used, m.name ∉ seen := by
                  apply Classical.byContradiction
                  intro hne
                  have hsub : names used ⊆ seen := by
                    intro n hn
                    obtain ⟨m, hm, rfl⟩ := mem_names.1 hn
                    apply Classical.byContradiction
                    intro hns
                    exact hne ⟨m, hm, hns⟩
                  have := List.Nodup.length_le_of_subset hu hsub
                  simp [names] at this
                  omega
                obtain ⟨m0, hm0, hns0⟩ := hex
                obtain ⟨m, hm, hns, hd⟩ := exists_ready hr seen _ m0 hm0 hns0 rfl
                have hnot1 : consider i seen init m ≠ .place := by
                  intro hc
                  have : m ∈ layer := (mem_layer hb).2 ⟨hm, hc⟩
                  rw [hnil] at this; cases this
                have hnot2 := (buildLayer_some hb).2 m hm
                have hwp : wrongParity i m = true := by
                  cases hw : wrongParity i m with
                  | true => rfl
                  | false =>
                    rcases ready_verdict (init := init) hns hd hw with h | h
                    · exact absurd h hnot1
                    · exact absurd h hnot2
                have hin2 : m ∈ layer2 := by
                  rcases ready_verdict (init := init) hns hd (wrongParity_flip hwp) with h | h
                  · exact (mem_layer hb2).2 ⟨hm, h⟩
                  · exact absurd h ((buildLayer_some hb2).2 m hm)
                have hne2 : layer2 ≠ [] := by intro h; rw [h] at hin2; cases hin2
                have he2 : layer2.isEmpty = false := by simpa using hne2
                simp only [he2]
                have hlen : 1 ≤ layer2.length := List.length_pos_iff.2 hne2
                apply ih f' (by omega) _ _ _ (hinv.step hu hb2 hne2)
                rw [length_step]; omega
          · simp only [he]
            have hne : layer ≠ [] := by simpa using he
            have hlen : 1 ≤ layer.length := List.length_pos_iff.2 hne
            apply ih f (by omega) _ _ _ (hinv.step hu hb hne)
            rw [length_step]; omega

/-- more fuel does not change an answer that was not `hang` -/
theorem loop_fuel_mono {used : List Module} {init : String → Nat} :
    ∀ (fuel extra i : Nat) (seen : List String) (layers : List (List Module)),
      stagesLoop used init fuel i seen layers ≠ .hang →
      stagesLoop used init (fuel + extra) i seen layers = stagesLoop used init fuel i seen layers := by
  intro fuel
  induction fuel with
  | zero => intro extra i seen layers h; simp [stagesLoop] at h
  | succ f ih =>
    intro extra i seen layers h
    rw [show f + 1 + extra = (f + extra) + 1 by omega]
    unfold stagesLoop at h ⊢
    by_cases hdone : seen.length = used.length
    · simp [hdone]
    · simp only [beq_iff_eq, hdone, if_false] at h ⊢
      cases hb : buildLayer i seen init used with
      | none => simp
      | some layer =>
        simp only [hb] at h ⊢
        by_cases he : layer.isEmpty = true
        · simp only [he, if_true] at h ⊢; exact ih _ _ _ _ h
        · simp only [he] at h ⊢; exact ih _ _ _ _ h

/-- an error of the loop comes from a module of the list without input at its initial block -/
theorem loop_noInput {used : List Module} {init : String → Nat} :
    ∀ (fuel i : Nat) (seen : List String) (layers : List (List Module)),
      stagesLoop used init fuel i seen layers = .noInput →
      ∃ m ∈ used, hasInputAt init m = false := by
  intro fuel
  induction fuel with
  | zero => intro i seen layers h; simp [stagesLoop] at h
  | succ f ih =>
    intro i seen layers h
    unfold stagesLoop at h
    by_cases hdone : seen.length = used.length
    · simp [hdone] at h
    · simp only [beq_iff_eq, hdone, if_false] at h
      cases hb : buildLayer i seen init used with
      | none =>
        obtain ⟨m, hm, hc⟩ := buildLayer_none hb
        exact ⟨m, hm, ((consider_noInput_iff i seen init m).1 hc).2.2.2⟩
      | some layer =>
        simp only [hb] at h
        by_cases he : layer.isEmpty = true
        · simp only [he, if_true] at h; exact ih _ _ _ h
        · simp only [he] at h; exact ih _ _ _ h

/-! ### grouping layers into stages -/

theorem isStoreLayer_iff {l : List Module} (hne : l ≠ []) (hh : Homogeneous l) :
    isStoreLayer l = true ↔ ∀ m ∈ l, m.isStore = true := by
  cases l with
  | nil => exact absurd rfl hne
  | cons a t =>
    simp only [isStoreLayer]
    constructor
    · intro ha
      rcases hh with h | h
      · exact h
      · have := h a List.mem_cons_self; rw [ha] at this; cases this
    · intro h; exact h a List.mem_cons_self

/-- shape of one stage `cur ++ [l]` whose front layers are not store layers -/
theorem stage_shape {cur : List (List Module)} {l : List Module}
    (hc : ∀ x ∈ cur, isStoreLayer x = false) :
    ∀ (k : Nat) (x : List Module), (cur ++ [l])[k]? = some x → isStoreLayer x = true →
      k + 1 = (cur ++ [l]).length := by
  intro k x hk hx
  by_cases hlt : k < cur.length
  · rw [List.getElem?_append_left hlt] at hk
    have := hc x (List.mem_of_getElem? hk)
    rw [hx] at this; cases this
  · have := (List.getElem?_eq_some_iff.1 hk).1
    simp at this ⊢; omega

structure StagesOK (stages : List (List (List Module))) : Prop where
  nonempty : ∀ st ∈ stages, st ≠ []
  /-- a store layer is the last layer of its stage -/
  storeLast : ∀ st ∈ stages, ∀ (k : Nat) (x : List Module), st[k]? = some x → isStoreLayer x = true →
      k + 1 = st.length
  /-- every stage but the last one ends with a store layer -/
  closed : ∀ (j : Nat) (st : List (List Module)), stages[j]? = some st → j + 1 < stages.length →
      ∃ x, st.getLast? = some x ∧ isStoreLayer x = true

theorem groupStages_ok (layers cur : List (List Module)) (hc : ∀ x ∈ cur, isStoreLayer x = false) :
    StagesOK (groupStages layers cur) ∧
      (layers ≠ [] → (groupStages layers cur).flatten = cur ++ layers) := by
  fun_induction groupStages layers cur with
  | case1 cur => exact ⟨⟨by simp, by simp, by simp⟩, by simp⟩
  | case2 cur l =>
    refine ⟨⟨by simp, ?_, ?_⟩, by simp⟩
    · intro st hst k x hk hx
      simp at hst; subst hst
      exact stage_shape hc k x hk hx
    · intro j st hj hlt; simp at hlt
  | case3 l rest cur hrest hstore ih =>
    obtain ⟨ih1, ih2⟩ := ih (by simp)
    have hrne : rest ≠ [] := by
      intro h; subst h; exact hrest rfl
    refine ⟨⟨?_, ?_, ?_⟩, ?_⟩
    · intro st hst
      rcases List.mem_cons.1 hst with rfl | hst
      · simp
      · exact ih1.nonempty st hst
    · intro st hst k x hk hx
      rcases List.mem_cons.1 hst with rfl | hst
      · exact stage_shape hc k x hk hx
      · exact ih1.storeLast st hst k x hk hx
    · intro j st hj hlt
      cases j with
      | zero =>
        simp at hj; subst hj
        exact ⟨l, by simp, hstore⟩
      | succ j =>
        simp at hj hlt
        exact ih1.closed j st hj (by omega)
    · intro _
      simp [ih2 hrne]
  | case4 l rest cur hrest hstore ih =>
    have hrne : rest ≠ [] := by
      intro h; subst h; exact hrest rfl
    have hc' : ∀ x ∈ cur ++ [l], isStoreLayer x = false := by
      intro x hx
      rcases List.mem_append.1 hx with hx | hx
      · exact hc x hx
      · simp at hx; subst hx; simpa using hstore
    obtain ⟨ih1, ih2⟩ := ih hc'
    exact ⟨ih1, fun _ => by simp [ih2 hrne]⟩

/-! ### the module graph: acyclicity certificate, reachability -/

def rank (mods : List Module) (n : String) : Nat := (topoOrder mods).idxOf n

theorem acyclicB_spec {mods : List Module} (h : acyclicB mods = true) {n : String}
    (hn : n ∈ names mods) :
    n ∈ topoOrder mods ∧ ∀ d ∈ succOf mods n, rank mods d < rank mods n := by
  unfold acyclicB at h
  simp only [List.all_eq_true, Bool.and_eq_true, decide_eq_true_eq] at h
  obtain ⟨h1, h2⟩ := h n hn
  exact ⟨by simpa using h1, fun d hd => h2 d hd⟩

theorem succOf_src {mods : List Module} {b c : String} (h : c ∈ succOf mods b) : b ∈ names mods := by
  unfold succOf at h
  cases hl : lookup mods b with
  | none => simp [hl] at h
  | some m =>
    obtain ⟨hm, hn⟩ := lookup_some hl
    exact mem_names.2 ⟨m, hm, hn⟩

theorem succOf_dst {mods : List Module} {b c : String} (h : c ∈ succOf mods b) :
    hasModule mods c = true := by
  unfold succOf at h
  cases hl : lookup mods b with
  | none => simp [hl] at h
  | some m =>
    simp only [hl, succ, List.mem_filter] at h
    exact h.2

theorem succOf_of_mem {mods : List Module} (hn : (names mods).Nodup) {m : Module} (hm : m ∈ mods) :
    succOf mods m.name = succ mods m := by
  unfold succOf; rw [lookup_of_mem hn hm]

inductive PathLen (mods : List Module) : String → Nat → String → Prop
  | refl (a : String) : PathLen mods a 0 a
  | step {a b c : String} {k : Nat} : PathLen mods a k b → c ∈ succOf mods b → PathLen mods a (k + 1) c

theorem PathLen.rank_le {mods : List Module} (ha : acyclicB mods = true) {a x : String} {k : Nat}
    (h : PathLen mods a k x) : rank mods x + k ≤ rank mods a := by
  induction h with
  | refl => simp
  | step _ hs ih =>
    have := (acyclicB_spec ha (succOf_src hs)).2 _ hs
    omega

theorem subset_closeStep (mods : List Module) (s : List String) : s ⊆ closeStep mods s := by
  intro x hx; unfold closeStep; exact List.mem_append_left _ hx

theorem closure_mono (mods : List Module) (root : String) {k k' : Nat} (h : k ≤ k') :
    closure mods root k ⊆ closure mods root k' := by
  induction k' with
  | zero => have : k = 0 := by omega
            subst this; exact fun _ hx => hx
  | succ n ih =>
    by_cases hk : k = n + 1
    · subst hk; exact fun _ hx => hx
    · exact fun x hx => subset_closeStep _ _ (ih (by omega) hx)

theorem closeStep_succ {mods : List Module} {s : List String} {x y : String} (hx : x ∈ s)
    (hy : y ∈ succOf mods x) : y ∈ closeStep mods s := by
  unfold closeStep
  by_cases hys : y ∈ s
  · exact List.mem_append_left _ hys
  · apply List.mem_append_right
    rw [List.mem_filter]
    exact ⟨List.mem_flatMap.2 ⟨x, hx, hy⟩, by simpa using hys⟩

theorem PathLen.mem_closure {mods : List Module} {a x : String} {k : Nat} (h : PathLen mods a k x) :
    x ∈ closure mods a k := by
  induction h with
  | refl => simp [closure]
  | step _ hs ih => exact closeStep_succ ih hs

theorem Star.mono {E E' : String → String → Prop} (hE : ∀ b c, E b c → E' b c) {a b : String}
    (h : Star E a b) : Star E' a b := by
  induction h with
  | refl => exact .refl _
  | step _ he ih => exact .step ih (hE _ _ he)

theorem Star.trans {E : String → String → Prop} {a b c : String} (h1 : Star E a b) (h2 : Star E b c) :
    Star E a c := by
  induction h2 with
  | refl => exact h1
  | step _ he ih => exact .step ih he

theorem closure_sound {mods : List Module} {root : String} :
    ∀ (k : Nat) (x : String), x ∈ closure mods root k → GraphReach mods root x := by
  intro k
  induction k with
  | zero => intro x hx; simp [closure] at hx; subst hx; exact .refl _
  | succ n ih =>
    intro x hx
    simp only [closure, closeStep, List.mem_append, List.mem_filter, List.mem_flatMap] at hx
    rcases hx with hx | ⟨⟨y, hy, hxy⟩, _⟩
    · exact ih x hx
    · exact .step (ih y hy) hxy

theorem GraphReach.pathLen {mods : List Module} {a x : String} (h : GraphReach mods a x) :
    ∃ k, PathLen mods a k x := by
  induction h with
  | refl => exact ⟨0, .refl _⟩
  | step _ he ih => obtain ⟨k, hk⟩ := ih; exact ⟨k + 1, .step hk he⟩

/-- `reachable` is exactly reachability in the graph `NewModuleGraph` builds (acyclic graphs) -/
theorem mem_reachable_iff {mods : List Module} (ha : acyclicB mods = true) {root : String}
    (hr : root ∈ names mods) (x : String) :
    x ∈ reachable mods root ↔ GraphReach mods root x := by
  constructor
  · exact closure_sound _ x
  · intro h
    obtain ⟨k, hk⟩ := h.pathLen
    have h1 := hk.rank_le ha
    have h2 : rank mods root < (topoOrder mods).length :=
      List.idxOf_lt_length_of_mem (acyclicB_spec ha hr).1
    exact closure_mono mods root (by omega) hk.mem_closure

theorem GraphReach.mem_names {mods : List Module} {a x : String} (h : GraphReach mods a x)
    (ha : a ∈ names mods) : x ∈ names mods := by
  induction h with
  | refl => exact ha
  | step _ he _ => simpa [hasModule] using succOf_dst he

/-! ### dependencies versus graph edges -/

theorem dep_mem_succ {mods : List Module} (he : "" ∉ names mods) {m : Module} {d : String}
    (hd : d ∈ m.deps) (hm : hasModule mods d = true) : d ∈ succ mods m := by
  have hne : d ≠ "" := by
    intro h; subst h; exact he (by simpa [hasModule] using hm)
  unfold succ Module.edgeNames
  rw [List.mem_filter]
  refine ⟨?_, hm⟩
  unfold Module.deps at hd
  rcases List.mem_append.1 hd with h | h
  · apply List.mem_append_left
    rw [List.mem_filter]
    exact ⟨h, by simpa using hne⟩
  · exact List.mem_append_right _ h

/-- every edge of the graph is a true dependency (since the fix in `NewModuleGraph`) -/
theorem succ_mem_dep {mods : List Module} {m : Module} {d : String} (hd : d ∈ succ mods m) :
    d ∈ m.deps ∧ hasModule mods d = true := by
  unfold succ Module.edgeNames at hd
  rw [List.mem_filter] at hd
  obtain ⟨hd, hh⟩ := hd
  refine ⟨?_, hh⟩
  unfold Module.deps
  rcases List.mem_append.1 hd with hd | hd
  · exact List.mem_append_left _ (List.mem_filter.1 hd).1
  · exact List.mem_append_right _ hd

theorem depEdge_graphEdge {mods : List Module} (hn : (names mods).Nodup) (he : "" ∉ names mods)
    (b c : String) (h : DepEdge mods b c) : GraphEdge mods b c := by
  obtain ⟨m, hm, rfl, hd, hh⟩ := h
  unfold GraphEdge
  rw [succOf_of_mem hn hm]
  exact dep_mem_succ he hd hh

theorem graphEdge_depEdge {mods : List Module}
    (b c : String) (h : GraphEdge mods b c) : DepEdge mods b c := by
  unfold GraphEdge succOf at h
  cases hl : lookup mods b with
  | none => simp [hl] at h
  | some m =>
    simp only [hl] at h
    obtain ⟨hm, hmn⟩ := lookup_some hl
    obtain ⟨hd, hh⟩ := succ_mem_dep h
    exact ⟨m, hm, hmn, hd, hh⟩

/-! ### `ModulesDownTo` is dependency-closed and ranked -/

theorem used_nodup {mods : List Module} (hn : (names mods).Nodup) (p : Module → Bool) :
    (names (mods.filter p)).Nodup :=
  List.Nodup.sublist ((List.filter_sublist (l := mods)).map _) hn

theorem refsResolve_spec {mods : List Module} (h : refsResolve mods = true) {m : Module}
    (hm : m ∈ mods) {d : String} (hd : d ∈ m.deps) : hasModule mods d = true := by
  unfold refsResolve at h
  rw [List.all_eq_true] at h
  have := h m hm
  rw [List.all_eq_true] at this
  exact this d hd

theorem used_ranked {mods : List Module} (hn : (names mods).Nodup) (he : "" ∉ names mods)
    (hrefs : refsResolve mods = true) (ha : acyclicB mods = true) {out : String}
    (ho : out ∈ names mods) :
    Ranked (mods.filter fun m => (reachable mods out).contains m.name) (rank mods) := by
  constructor
  · intro m hm d hd
    rw [List.mem_filter] at hm
    obtain ⟨hm, hreach⟩ := hm
    have hh := refsResolve_spec hrefs hm hd
    have hsucc : d ∈ succOf mods m.name := by
      rw [succOf_of_mem hn hm]; exact dep_mem_succ he hd hh
    have hr : GraphReach mods out m.name := (mem_reachable_iff ha ho _).1 (by simpa using hreach)
    have hdreach : d ∈ reachable mods out := (mem_reachable_iff ha ho _).2 (.step hr hsucc)
    obtain ⟨m', hm', hn'⟩ := hasModule_iff.1 hh
    exact mem_names.2 ⟨m', List.mem_filter.2 ⟨hm', by simpa [hn'] using hdreach⟩, hn'⟩
  · intro m hm d hd
    rw [List.mem_filter] at hm
    have hh := refsResolve_spec hrefs hm.1 hd
    have hsucc : d ∈ succOf mods m.name := by
      rw [succOf_of_mem hn hm.1]; exact dep_mem_succ he hd hh
    exact (acyclicB_spec ha (mem_names.2 ⟨m, hm.1, rfl⟩)).2 d hsucc

/-! ### unpacking `computeGraph` and `validated` -/

theorem validated_spec {mods : List Module} (h : validated mods = true) :
    (names mods).Nodup ∧ "" ∉ names mods ∧ refsResolve mods = true := by
  unfold validated at h
  simp only [Bool.and_eq_true, Bool.not_eq_true', List.all_eq_true] at h
  obtain ⟨⟨h1, h2⟩, h3⟩ := h
  refine ⟨nodupB_iff.1 h1, by simpa using h2, ?_⟩
  unfold refsResolve
  rw [List.all_eq_true]
  intro m hm
  rw [List.all_eq_true]
  intro d hd
  obtain ⟨hf, hi⟩ := h3 m hm
  -- every input passes `validInput`, at whatever position
  have hall : ∀ (ins : List Input) (idx : Nat), validInputsFrom mods idx ins = true →
      ∀ i ∈ ins, ∃ k, validInput mods k i = true := by
    intro ins
    induction ins with
    | nil => intro _ _ i hi; cases hi
    | cons a t ih =>
      intro idx hv i hi
      simp only [validInputsFrom, Bool.and_eq_true] at hv
      rcases List.mem_cons.1 hi with rfl | hi
      · exact ⟨idx, hv.1⟩
      · exact ih _ hv.2 i hi
  rcases mem_deps.1 hd with (hd | ⟨md, hd⟩) | hd
  · obtain ⟨k, hk⟩ := hall _ _ hi _ hd
    simp only [validInput] at hk
    cases hl : lookup mods d with
    | none => simp [hl] at hk
    | some x => obtain ⟨hx, hxn⟩ := lookup_some hl; exact hasModule_iff.2 ⟨x, hx, hxn⟩
  · obtain ⟨k, hk⟩ := hall _ _ hi _ hd
    simp only [validInput] at hk
    cases hl : lookup mods d with
    | none => simp [hl] at hk
    | some x => obtain ⟨hx, hxn⟩ := lookup_some hl; exact hasModule_iff.2 ⟨x, hx, hxn⟩
  · simp only [validFilter, hd] at hf
    cases hl : lookup mods d with
    | none => simp [hl] at hf
    | some x => obtain ⟨hx, hxn⟩ := lookup_some hl; exact hasModule_iff.2 ⟨x, hx, hxn⟩

/-- the list `ModulesDownTo` returns -/
def usedOf (mods : List Module) (out : String) : List Module :=
  mods.filter fun m => (reachable mods out).contains m.name

theorem computeGraph_ok {mods : List Module} {out : String} {prod : Bool} {fsb : Nat} {g : GraphOut}
    (h : computeGraph mods out prod fsb = .ok g) :
    acyclicB mods = true ∧ out ∈ names mods ∧
    g.used = usedOf mods out ∧
    (∀ m ∈ g.used, m.initialBlock = 0 ∨ fsb ≤ m.initialBlock) ∧
    g.initBlocks = initTable fsb g.used ∧
    computeLayers g.used (initOf g.initBlocks) = .ok g.layers ∧
    g.stages = groupStages g.layers [] := by
  unfold computeGraph at h
  by_cases ha : acyclicB mods = true
  · simp only [ha, if_true] at h
    unfold computeGraphAcyclic modulesDownTo at h
    by_cases ho : hasModule mods out = true
    · simp only [ho, if_true] at h
      split at h
      · cases h
      · rename_i hany
        split at h
        · cases h
        · cases h
        · rename_i layers hl
          simp only [Outcome.ok.injEq] at h
          subst h
          refine ⟨ha, by simpa [hasModule] using ho, rfl, ?_, rfl, hl, rfl⟩
          intro m hm
          simp only [List.any_eq_true, not_exists, not_and, Bool.and_eq_true, bne_iff_ne,
            decide_eq_true_eq] at hany
          have := hany m hm
          by_cases h0 : m.initialBlock = 0
          · exact .inl h0
          · right; have := this h0; omega
    · simp [ho] at h
  · simp [ha] at h

theorem initOf_table {used : List Module} (fsb : Nat) (hu : (names used).Nodup) {m : Module}
    (hm : m ∈ used) : initOf (initTable fsb used) m.name = resolvedInit fsb m := by
  induction used with
  | nil => cases hm
  | cons a t ih =>
    simp only [names, List.map_cons, List.nodup_cons, List.mem_map, not_exists, not_and] at hu
    rcases List.mem_cons.1 hm with rfl | hm'
    · simp [initOf, initTable]
    · have hne : ¬ (m.name == a.name) = true := by
        simpa using fun h => hu.1 m hm' h
      have := ih hu.2 hm'
      simp only [initOf, initTable, List.map_cons, List.lookup, hne] at this ⊢
      exact this

/-- layers with pairwise different module names: a name occurs in one layer only -/
theorem layer_unique : ∀ {layers : List (List Module)}, (names layers.flatten).Nodup →
    ∀ {j k : Nat} {a b : List Module} {n : String}, layers[j]? = some a → layers[k]? = some b →
      n ∈ names a → n ∈ names b → j = k := by
  intro layers
  induction layers with
  | nil => intro _ j k a b n hj; simp at hj
  | cons l rest ih =>
    intro hnd j k a b n hj hk ha hb
    simp only [List.flatten_cons, names, List.map_append] at hnd
    rw [List.nodup_append] at hnd
    obtain ⟨_, hrest, hdis⟩ := hnd
    have inRest : ∀ {i : Nat} {c : List Module}, rest[i]? = some c → n ∈ names c →
        n ∈ List.map (fun x => x.name) rest.flatten := by
      intro i c hc hn
      obtain ⟨m, hm, rfl⟩ := mem_names.1 hn
      exact List.mem_map.2 ⟨m, List.mem_flatten.2 ⟨c, List.mem_of_getElem? hc, hm⟩, rfl⟩
    cases j with
    | zero =>
      cases k with
      | zero => rfl
      | succ k =>
        simp at hj hk; subst hj
        exact absurd rfl (hdis n ha n (inRest hk hb))
    | succ j =>
      cases k with
      | zero =>
        simp at hj hk; subst hk
        exact absurd rfl (hdis n hb n (inRest hj ha))
      | succ k =>
        simp at hj hk
        rw [ih hrest hj hk ha hb]

/-- `computeGraph` once the graph is acyclic, the output module exists and no initial block is below
the first streamable block -/
theorem computeGraph_eq {mods : List Module} {out : String} (prod : Bool) {fsb : Nat}
    (ha : acyclicB mods = true) (ho : out ∈ names mods)
    (hi : ∀ m ∈ usedOf mods out, m.initialBlock = 0 ∨ fsb ≤ m.initialBlock) :
    (∃ g, computeGraph mods out prod fsb = .ok g) ∨
    (computeGraph mods out prod fsb = .hang ∧
      computeLayers (usedOf mods out) (initOf (initTable fsb (usedOf mods out))) = .hang) ∨
    (computeGraph mods out prod fsb = .error .noInput ∧
      computeLayers (usedOf mods out) (initOf (initTable fsb (usedOf mods out))) = .noInput) := by
  have ho' : hasModule mods out = true := by simpa [hasModule] using ho
  have hany : (usedOf mods out).any (fun m => m.initialBlock != 0 && decide (m.initialBlock < fsb)) = false := by
    rw [Bool.eq_false_iff]
    intro h
    simp only [List.any_eq_true, Bool.and_eq_true, bne_iff_ne, decide_eq_true_eq] at h
    obtain ⟨m, hm, h0, hlt⟩ := h
    rcases hi m hm with h | h
    · exact h0 h
    · omega
  unfold usedOf at hany ⊢
  unfold computeGraph computeGraphAcyclic modulesDownTo
  simp only [ha, ho', if_true, hany, Bool.false_eq_true, if_false]
  cases hl : computeLayers (mods.filter fun m => (reachable mods out).contains m.name)
      (initOf (initTable fsb (mods.filter fun m => (reachable mods out).contains m.name))) with
  | ok layers => left; simp
  | hang => right; left; simp
  | noInput => right; right; simp

/-! ### facts shared by the theorems of `Props/C14.lean` -/

/-- the module list handed to `computeStages` has distinct names, is closed under dependencies and
ranked by the topological order -/
theorem used_facts {mods : List Module} {out : String} (hv : validated mods = true) (ha : acyclicB mods = true) (ho : out ∈ names mods) :
    (names (usedOf mods out)).Nodup ∧ Ranked (usedOf mods out) (rank mods) := by
  obtain ⟨hn, he, hr⟩ := validated_spec hv
  exact ⟨used_nodup hn _, used_ranked hn he hr ha ho⟩

/-- everything the loop invariant gives about an accepted graph -/
theorem accepted {mods : List Module} {out : String} {prod : Bool} {fsb : Nat} {g : GraphOut} (hv : validated mods = true) (h : computeGraph mods out prod fsb = .ok g) :
    Inv g.used (initOf g.initBlocks) (names g.layers.flatten) g.layers ∧ (∀ m ∈ g.used, m ∈ g.layers.flatten) := by
  obtain ⟨_, _, hused, _, _, hl, _⟩ := computeGraph_ok h
  obtain ⟨hn, _, _⟩ := validated_spec hv
  have hu : (names g.used).Nodup := by rw [hused]; exact used_nodup hn _
  exact loop_ok hu _ 0 [] [] g.layers (Inv.init _ _) hl


end SV.Graph

import Model.Store
/-! Helper lemmas about the store model (readers vs deltas, flush invariant).  Core Lean only. -/
namespace SV

/-! ### association lists -/

def NodupKeys (kv : KV) : Prop := (kv.map (·.1)).Nodup

theorem look_ins (kv : KV) (k v k' : Bytes) :
    look (ins kv k v) k' = if k = k' then some v else look kv k' := by
  induction kv with
  | nil => simp [ins, look]
  | cons p rest ih =>
    obtain ⟨pk, pv⟩ := p
    unfold ins
    by_cases h : pk = k
    · subst h; simp only [↓reduceIte, look]
      by_cases h2 : pk = k' <;> simp [h2]
    · simp only [h, ↓reduceIte, look]
      by_cases h2 : pk = k'
      · subst h2; simp [Ne.symm h]
      · simp only [h2, ↓reduceIte, ih]

theorem look_del (kv : KV) (k k' : Bytes) :
    look (del kv k) k' = if k = k' then none else look kv k' := by
  induction kv with
  | nil => simp [del, look]
  | cons p rest ih =>
    obtain ⟨pk, pv⟩ := p
    unfold del at ih ⊢
    by_cases h : pk = k
    · subst h
      simp only [List.filter_cons, ne_eq, not_true_eq_false, decide_false, Bool.false_eq_true, ↓reduceIte, ih, look]
      by_cases h2 : pk = k' <;> simp [h2]
    · simp only [List.filter_cons, ne_eq, h, not_false_eq_true, decide_true, ↓reduceIte, look, ih]
      by_cases h2 : pk = k'
      · subst h2; simp [Ne.symm h]
      · simp [h2]

theorem mem_keys_of_look {kv : KV} {k v : Bytes} (h : look kv k = some v) : (k, v) ∈ kv := by
  induction kv with
  | nil => simp [look] at h
  | cons p rest ih =>
    obtain ⟨pk, pv⟩ := p
    unfold look at h
    by_cases hk : pk = k
    · simp only [hk, ↓reduceIte, Option.some.injEq] at h; subst hk; subst h; exact List.mem_cons_self
    · simp only [hk, ↓reduceIte] at h; exact List.mem_cons_of_mem _ (ih h)

theorem look_of_mem {kv : KV} (hn : NodupKeys kv) {k v : Bytes} (h : (k, v) ∈ kv) : look kv k = some v := by
  induction kv with
  | nil => simp at h
  | cons p rest ih =>
    obtain ⟨pk, pv⟩ := p
    unfold NodupKeys at hn ih
    simp only [List.map_cons, List.nodup_cons] at hn
    unfold look
    rcases List.mem_cons.1 h with heq | hmem
    · injection heq with h1 h2; subst h1; subst h2; simp
    · have : pk ≠ k := by
        intro hc; subst hc
        exact hn.1 (List.mem_map.2 ⟨(pk, v), hmem, rfl⟩)
      simp only [this, ↓reduceIte]; exact ih hn.2 hmem

theorem keys_ins (kv : KV) (k v : Bytes) :
    ∀ x, x ∈ (ins kv k v).map (·.1) ↔ (x = k ∨ x ∈ kv.map (·.1)) := by
  induction kv with
  | nil => intro x; simp [ins]
  | cons p rest ih =>
    obtain ⟨pk, pv⟩ := p
    intro x
    unfold ins
    by_cases h : pk = k
    · subst h; simp
    · simp only [h, ↓reduceIte, List.map_cons, List.mem_cons, ih x]
      constructor
      · rintro (h1 | h1 | h1) <;> simp [h1]
      · rintro (h1 | h1 | h1) <;> simp [h1]

theorem nodup_ins {kv : KV} (hn : NodupKeys kv) (k v : Bytes) : NodupKeys (ins kv k v) := by
  induction kv with
  | nil => simp [ins, NodupKeys]
  | cons p rest ih =>
    obtain ⟨pk, pv⟩ := p
    unfold NodupKeys at hn ih ⊢
    simp only [List.map_cons, List.nodup_cons] at hn
    unfold ins
    by_cases h : pk = k
    · subst h; simpa using hn
    · simp only [h, ↓reduceIte, List.map_cons, List.nodup_cons]
      refine ⟨?_, ih hn.2⟩
      intro hc
      rcases (keys_ins rest k v pk).1 hc with h1 | h1
      · exact h h1
      · exact hn.1 h1

theorem nodup_del {kv : KV} (hn : NodupKeys kv) (k : Bytes) : NodupKeys (del kv k) := by
  unfold NodupKeys del at *
  exact (List.Nodup.sublist (List.Sublist.map _ List.filter_sublist) hn)

/-! ### deltas as functions on contents -/

abbrev Content := Bytes → Option Bytes

def stepF (f : Content) (d : Delta) : Content := fun k =>
  if d.key = k then (match d.op with | .delete => none | _ => some d.new) else f k

/-- content after the deltas -/
def postF (f : Content) (ds : List Delta) : Content := ds.foldl stepF f

/-- a delta is well formed w.r.t. the content before it -/
def WFd (f : Content) (d : Delta) : Prop :=
  match d.op with
  | .create => f d.key = none
  | .update | .delete => f d.key = some d.old

/-- every delta is well formed w.r.t. the content produced by those before it -/
def Chain (f : Content) : List Delta → Prop
  | [] => True
  | d :: rest => WFd f d ∧ Chain (stepF f d) rest

theorem postF_snoc (f : Content) (l : List Delta) (d : Delta) : postF f (l ++ [d]) = stepF (postF f l) d := by
  simp [postF, List.foldl_append]

theorem chain_snoc (l : List Delta) (d : Delta) : ∀ f : Content,
    Chain f (l ++ [d]) ↔ (Chain f l ∧ WFd (postF f l) d) := by
  induction l with
  | nil => intro f; simp [Chain, postF]
  | cons x xs ih =>
    intro f
    simp only [List.cons_append, Chain, ih (stepF f x), postF, List.foldl_cons]
    constructor
    · rintro ⟨a, b, c⟩; exact ⟨⟨a, b⟩, c⟩
    · rintro ⟨⟨a, b⟩, c⟩; exact ⟨a, b, c⟩

theorem look_applyDeltaKV (kv : KV) (d : Delta) : look (applyDeltaKV kv d) = stepF (look kv) d := by
  funext k
  unfold applyDeltaKV stepF
  cases h : d.op <;> simp [look_ins, look_del]

theorem nodup_applyDeltaKV {kv : KV} (hn : NodupKeys kv) (d : Delta) : NodupKeys (applyDeltaKV kv d) := by
  unfold applyDeltaKV
  cases d.op <;> simp [nodup_ins hn, nodup_del hn]

def applyDeltas (kv : KV) (ds : List Delta) : KV := ds.foldl applyDeltaKV kv

theorem snoc_induction {α : Type} {P : List α → Prop} (hnil : P [])
    (hsnoc : ∀ l a, P l → P (l ++ [a])) : ∀ l, P l := by
  intro l
  have h : ∀ r : List α, P r.reverse := by
    intro r
    induction r with
    | nil => exact hnil
    | cons a r ih => rw [List.reverse_cons]; exact hsnoc _ _ ih
  simpa using h l.reverse

theorem look_applyDeltas (ds : List Delta) : ∀ kv : KV,
    look (applyDeltas kv ds) = postF (look kv) ds := by
  unfold applyDeltas postF
  induction ds with
  | nil => intro kv; rfl
  | cons d rest ih => intro kv; simp only [List.foldl_cons, ih, look_applyDeltaKV]

/-! ### the readers against the delta semantics -/

theorem stepF_ne (f : Content) (d : Delta) (k : Bytes) (h : d.key ≠ k) : stepF f d k = f k := by
  simp [stepF, h]

/-- `getFirst` is the pre-block value -/
theorem getFirstIn_spec (ds : List Delta) : ∀ (f : Content) (kv : KV) (k : Bytes),
    Chain f ds → look kv k = postF f ds k → getFirstIn ds kv k = f k := by
  induction ds with
  | nil => intro f kv k _ hkv; simpa [getFirstIn, postF] using hkv
  | cons d rest ih =>
    intro f kv k hch hkv
    obtain ⟨hw, hc⟩ := hch
    unfold getFirstIn
    by_cases h : d.key = k
    · simp only [h, ↓reduceIte]
      unfold WFd at hw
      subst h
      cases hop : d.op <;> simp [hop] at hw ⊢ <;> exact hw.symm
    · simp only [h, ↓reduceIte]
      rw [ih (stepF f d) kv k hc (by simpa [postF] using hkv)]
      exact stepF_ne _ _ _ h

/-- `getLast` is the post-block value -/
theorem getLastIn_spec (f : Content) (kv : KV) (k : Bytes) : ∀ ds : List Delta,
    look kv k = postF f ds k → getLastIn ds.reverse kv k = postF f ds k := by
  intro ds
  induction ds using snoc_induction with
  | hnil => intro hkv; simpa [getLastIn, postF] using hkv
  | hsnoc l d ih =>
    intro hkv
    rw [List.reverse_append, List.reverse_cons, List.reverse_nil, List.nil_append, List.singleton_append]
    unfold getLastIn
    rw [postF_snoc] at hkv ⊢
    by_cases h : d.key = k
    · simp only [h, ↓reduceIte, stepF]
      cases d.op <;> rfl
    · simp only [h, ↓reduceIte]
      rw [stepF_ne _ _ _ h] at hkv ⊢
      exact ih hkv

/-- the deltas (in order) that the backward walk of `getAt` does *not* undo -/
def keepUpTo (ord : Nat) (ds : List Delta) : List Delta :=
  (ds.reverse.dropWhile (fun d => decide (ord < d.ord))).reverse

theorem keepUpTo_snoc_le (ord : Nat) (l : List Delta) (d : Delta) (h : d.ord ≤ ord) :
    keepUpTo ord (l ++ [d]) = l ++ [d] := by
  unfold keepUpTo
  rw [List.reverse_append, List.reverse_cons, List.reverse_nil, List.nil_append, List.singleton_append]
  have : ¬ ord < d.ord := by omega
  simp [List.dropWhile, this]

theorem keepUpTo_snoc_gt (ord : Nat) (l : List Delta) (d : Delta) (h : ¬ d.ord ≤ ord) :
    keepUpTo ord (l ++ [d]) = keepUpTo ord l := by
  unfold keepUpTo
  rw [List.reverse_append, List.reverse_cons, List.reverse_nil, List.nil_append, List.singleton_append]
  have : ord < d.ord := by omega
  simp [List.dropWhile, this]

/-- `getAt`: the backward walk undoes exactly the deltas after the kept prefix -/
theorem walkBack_spec (f : Content) (ord : Nat) (k : Bytes) : ∀ ds : List Delta,
    Chain f ds → walkBack ds.reverse ord k (postF f ds k) = postF f (keepUpTo ord ds) k := by
  intro ds
  induction ds using snoc_induction with
  | hnil => intro _; rfl
  | hsnoc l d ih =>
    intro hch
    obtain ⟨hcl, hw⟩ := (chain_snoc l d f).1 hch
    rw [List.reverse_append, List.reverse_cons, List.reverse_nil, List.nil_append, List.singleton_append]
    unfold walkBack
    by_cases hle : d.ord ≤ ord
    · simp only [hle, ↓reduceIte, keepUpTo_snoc_le ord l d hle]
    · simp only [hle, ↓reduceIte, keepUpTo_snoc_gt ord l d hle]
      by_cases h : d.key = k
      · simp only [h, ↓reduceIte]
        unfold WFd at hw
        subst h
        cases hop : d.op <;> simp only [hop] at hw ⊢
        · rw [← hw]; exact ih hcl
        · rw [← hw]; exact ih hcl
        · rw [← hw]; exact ih hcl
      · simp only [h, ↓reduceIte]
        rw [postF_snoc, stepF_ne _ _ _ h]
        exact ih hcl

/-- for deltas in non-decreasing ordinal order, the kept prefix is "all deltas with ordinal ≤ ord" -/
theorem keepUpTo_eq_filter (ord : Nat) : ∀ ds : List Delta,
    ds.Pairwise (fun a b => a.ord ≤ b.ord) → keepUpTo ord ds = ds.filter (fun d => decide (d.ord ≤ ord)) := by
  intro ds
  induction ds using snoc_induction with
  | hnil => intro _; rfl
  | hsnoc l d ih =>
    intro hs
    rw [List.pairwise_append] at hs
    obtain ⟨hl, _, hld⟩ := hs
    by_cases hle : d.ord ≤ ord
    · rw [keepUpTo_snoc_le ord l d hle, List.filter_append]
      have : l.filter (fun d => decide (d.ord ≤ ord)) = l := by
        apply List.filter_eq_self.2
        intro a ha
        have := hld a ha d (by simp)
        simp; omega
      simp [this, hle]
    · rw [keepUpTo_snoc_gt ord l d hle, List.filter_append, ih hl]
      simp [hle]

/-! ### has_* = (get_*).isSome -/

theorem hasFirstIn_eq (ds : List Delta) (kv : KV) (k : Bytes) :
    Store.hasFirstIn ds kv k = (getFirstIn ds kv k).isSome := by
  induction ds with
  | nil => rfl
  | cons d rest ih =>
    unfold Store.hasFirstIn getFirstIn
    by_cases h : d.key = k
    · simp only [h, ↓reduceIte]; cases d.op <;> rfl
    · simp only [h, ↓reduceIte, ih]

theorem hasLastIn_eq (rds : List Delta) (kv : KV) (k : Bytes) :
    Store.hasLastIn rds kv k = (getLastIn rds kv k).isSome := by
  induction rds with
  | nil => rfl
  | cons d rest ih =>
    unfold Store.hasLastIn getLastIn
    by_cases h : d.key = k
    · simp only [h, ↓reduceIte]; cases d.op <;> rfl
    · simp only [h, ↓reduceIte, ih]

theorem walkBackHas_eq (rds : List Delta) (ord : Nat) (k : Bytes) : ∀ (cur : Option Bytes),
    Store.walkBackHas rds ord k cur.isSome = (walkBack rds ord k cur).isSome := by
  induction rds with
  | nil => intro cur; rfl
  | cons d rest ih =>
    intro cur
    unfold Store.walkBackHas walkBack
    by_cases hle : d.ord ≤ ord
    · simp only [hle, ↓reduceIte]
    · simp only [hle, ↓reduceIte]
      by_cases h : d.key = k
      · simp only [h, ↓reduceIte]
        cases d.op
        · exact ih none
        · exact ih (some d.old)
        · exact ih (some d.old)
      · simp only [h, ↓reduceIte]; exact ih cur

end SV

namespace SV

/-! ### size of a content -/

theorem kvSize_cons (p : Bytes × Bytes) (kv : KV) : kvSize (p :: kv) = p.1.length + p.2.length + kvSize kv := by
  simp [kvSize]

theorem kvSize_ge {kv : KV} {k v : Bytes} (h : look kv k = some v) : k.length + v.length ≤ kvSize kv := by
  induction kv with
  | nil => simp [look] at h
  | cons p rest ih =>
    obtain ⟨pk, pv⟩ := p
    rw [kvSize_cons]
    unfold look at h
    by_cases hk : pk = k
    · simp only [hk, ↓reduceIte, Option.some.injEq] at h; subst hk; subst h; simp
    · simp only [hk, ↓reduceIte] at h; have := ih h; omega

theorem kvSize_ins_none {kv : KV} {k : Bytes} (v : Bytes) (h : look kv k = none) :
    kvSize (ins kv k v) = kvSize kv + k.length + v.length := by
  induction kv with
  | nil => simp [ins, kvSize]
  | cons p rest ih =>
    obtain ⟨pk, pv⟩ := p
    unfold look at h
    by_cases hk : pk = k
    · simp [hk] at h
    · simp only [hk, ↓reduceIte] at h
      unfold ins
      simp only [hk, ↓reduceIte, kvSize_cons, ih h]
      omega

theorem kvSize_ins_some {kv : KV} {k old : Bytes} (v : Bytes) (h : look kv k = some old) :
    kvSize (ins kv k v) + old.length = kvSize kv + v.length := by
  induction kv with
  | nil => simp [look] at h
  | cons p rest ih =>
    obtain ⟨pk, pv⟩ := p
    unfold look at h
    unfold ins
    by_cases hk : pk = k
    · simp only [hk, ↓reduceIte, Option.some.injEq] at h
      subst h
      simp only [hk, ↓reduceIte, kvSize_cons]
      omega
    · simp only [hk, ↓reduceIte] at h
      simp only [hk, ↓reduceIte, kvSize_cons]
      have := ih h
      omega

theorem look_none_of_not_mem {kv : KV} {k : Bytes} (h : k ∉ kv.map (·.1)) : look kv k = none := by
  induction kv with
  | nil => rfl
  | cons p rest ih =>
    obtain ⟨pk, pv⟩ := p
    simp only [List.map_cons, List.mem_cons, not_or] at h
    unfold look
    simp only [Ne.symm h.1, ↓reduceIte]
    exact ih h.2

theorem del_of_not_mem {kv : KV} {k : Bytes} (h : k ∉ kv.map (·.1)) : del kv k = kv := by
  unfold del
  apply List.filter_eq_self.2
  intro p hp
  have : p.1 ≠ k := by
    intro hc; exact h (List.mem_map.2 ⟨p, hp, hc⟩)
  simp [this]

theorem kvSize_del {kv : KV} (hn : NodupKeys kv) {k old : Bytes} (h : look kv k = some old) :
    kvSize (del kv k) + old.length + k.length = kvSize kv := by
  induction kv with
  | nil => simp [look] at h
  | cons p rest ih =>
    obtain ⟨pk, pv⟩ := p
    unfold NodupKeys at hn ih
    simp only [List.map_cons, List.nodup_cons] at hn
    unfold look at h
    by_cases hk : pk = k
    · simp only [hk, ↓reduceIte, Option.some.injEq] at h
      subst h; subst hk
      have hd : del ((pk, pv) :: rest) pk = rest := by
        have := del_of_not_mem hn.1
        unfold del at this ⊢
        rw [List.filter_cons]
        simpa using this
      rw [hd, kvSize_cons]; simp; omega
    · simp only [hk, ↓reduceIte] at h
      have hd : del ((pk, pv) :: rest) k = (pk, pv) :: del rest k := by
        unfold del; simp [List.filter_cons, hk]
      rw [hd, kvSize_cons, kvSize_cons]
      have := ih hn.2 h
      omega

/-! ### the flush invariant -/

/-- invariant of a store while it executes a block that started from content `f` -/
structure FInv (f : Content) (s : Store) (bound : Nat) : Prop where
  nodup   : NodupKeys s.kv
  chain   : Chain f s.deltas
  kvpost  : look s.kv = postF f s.deltas
  sorted  : s.deltas.Pairwise (fun a b => a.ord ≤ b.ord)
  bounded : ∀ d ∈ s.deltas, d.ord ≤ bound
  size    : s.size = kvSize s.kv

theorem FInv.getLast {f : Content} {s : Store} {b : Nat} (h : FInv f s b) (k : Bytes) :
    s.getLast k = look s.kv k := by
  unfold Store.getLast
  rw [getLastIn_spec f s.kv k s.deltas (by rw [h.kvpost]), h.kvpost]

theorem FInv.mono {f : Content} {s : Store} {b b' : Nat} (h : FInv f s b) (hb : b ≤ b') : FInv f s b' :=
  { h with bounded := fun d hd => Nat.le_trans (h.bounded d hd) hb }

theorem pushDelta_inv {cfg : Cfg} {f : Content} {s s' : Store} {b : Nat} {d : Delta}
    (h : FInv f s b) (hw : WFd (look s.kv) d) (hb : b ≤ d.ord)
    (hp : pushDelta cfg s d = .ok s') :
    FInv f s' d.ord ∧ s'.ops = s.ops ∧ s'.deltas = s.deltas ++ [d] ∧ look s'.kv = stepF (look s.kv) d := by
  unfold pushDelta applyDelta at hp
  split at hp
  · simp at hp
  · rename_i s1 heq
    injection hp with hp; subst hp
    split at heq
    · simp at heq
    · split at heq
      · simp at heq
      · dsimp only at heq
        split at heq
        · simp at heq
        · injection heq with heq; subst heq
          refine ⟨?_, rfl, rfl, look_applyDeltaKV _ _⟩
          constructor
          · exact nodup_applyDeltaKV h.nodup d
          · exact (chain_snoc _ _ _).2 ⟨h.chain, by rw [← h.kvpost]; exact hw⟩
          · show look (applyDeltaKV s.kv d) = postF f (s.deltas ++ [d])
            rw [look_applyDeltaKV, postF_snoc, h.kvpost]
          · show (s.deltas ++ [d]).Pairwise _
            rw [List.pairwise_append]
            refine ⟨h.sorted, by simp, ?_⟩
            intro a ha c hc
            simp at hc; subst hc
            exact Nat.le_trans (h.bounded a ha) hb
          · intro a ha
            show a.ord ≤ d.ord
            simp at ha
            rcases ha with ha | ha
            · exact Nat.le_trans (h.bounded a ha) hb
            · subst ha; exact Nat.le_refl _
          · show applyDeltaSize s.size d = kvSize (applyDeltaKV s.kv d)
            unfold applyDeltaSize applyDeltaKV WFd at *
            rw [h.size]
            cases hop : d.op <;> simp only [hop] at hw ⊢
            · have := kvSize_ins_none d.new hw; omega
            · have := kvSize_ins_some d.new hw
              have := kvSize_ge hw
              repeat' split
              all_goals omega
            · have := kvSize_del h.nodup hw; omega

end SV

namespace SV

theorem setRaw_inv {cfg : Cfg} {f : Content} {s s' : Store} {b ord : Nat} {k v : Bytes}
    (h : FInv f s b) (hb : b ≤ ord) (hp : setRaw cfg s ord k v = .ok s') :
    FInv f s' ord ∧ s'.ops = s.ops := by
  unfold setRaw at hp
  split at hp; · simp at hp
  split at hp; · simp at hp
  split at hp; · simp at hp
  rw [h.getLast k] at hp
  split at hp
  · rename_i old hlook
    have := pushDelta_inv (d := ⟨.update, ord, k, old, v⟩) h (by simpa [WFd] using hlook) hb hp
    exact ⟨this.1, this.2.1⟩
  · rename_i hlook
    have := pushDelta_inv (d := ⟨.create, ord, k, [], v⟩) h (by simpa [WFd] using hlook) hb hp
    exact ⟨this.1, this.2.1⟩

theorem setIfNotExistsRaw_inv {cfg : Cfg} {f : Content} {s s' : Store} {b ord : Nat} {k v : Bytes}
    (h : FInv f s b) (hb : b ≤ ord) (hp : setIfNotExistsRaw cfg s ord k v = .ok s') :
    FInv f s' ord ∧ s'.ops = s.ops := by
  unfold setIfNotExistsRaw at hp
  rw [h.getLast k] at hp
  split at hp
  · injection hp with hp; subst hp; exact ⟨h.mono hb, rfl⟩
  · rename_i hlook
    have := pushDelta_inv (d := ⟨.create, ord, k, [], v⟩) h (by simpa [WFd] using hlook) hb hp
    exact ⟨this.1, this.2.1⟩

theorem insByKey_perm (p : Bytes × Bytes) (l : KV) : (insByKey p l).Perm (p :: l) := by
  induction l with
  | nil => exact List.Perm.refl _
  | cons q rest ih =>
    unfold insByKey
    split
    · exact List.Perm.refl _
    · exact (List.Perm.cons q ih).trans (List.Perm.swap p q rest)

theorem sortByKey_perm (l : KV) : (sortByKey l).Perm l := by
  induction l with
  | nil => exact List.Perm.refl _
  | cons p rest ih =>
    show (insByKey p (sortByKey rest)).Perm (p :: rest)
    exact (insByKey_perm p _).trans (List.Perm.cons p ih)

/-- the fold of `deletePrefix` over a list of distinct present keys -/
theorem deleteFold_inv {cfg : Cfg} {f : Content} {ord : Nat} : ∀ (L : KV) (s s' : Store),
    FInv f s ord → (∀ p ∈ L, look s.kv p.1 = some p.2) → (L.map (·.1)).Nodup →
    L.foldlM (fun s p => pushDelta cfg s ⟨.delete, ord, p.1, p.2, []⟩) s = .ok s' →
    FInv f s' ord ∧ s'.ops = s.ops := by
  intro L
  induction L with
  | nil => intro s s' h _ _ hp; simp [List.foldlM] at hp; cases hp; exact ⟨h, rfl⟩
  | cons p rest ih =>
    intro s s' h hl hnd hp
    rw [List.foldlM_cons] at hp
    cases hpd : pushDelta cfg s ⟨.delete, ord, p.1, p.2, []⟩ with
    | error e => rw [hpd] at hp; simp [bind, Except.bind] at hp
    | ok s1 =>
      rw [hpd] at hp
      simp only [bind, Except.bind] at hp
      have hw : WFd (look s.kv) ⟨.delete, ord, p.1, p.2, []⟩ := by
        simpa [WFd] using hl p List.mem_cons_self
      obtain ⟨i1, i2, _, i4⟩ := pushDelta_inv h hw (Nat.le_refl _) hpd
      simp only [List.map_cons, List.nodup_cons] at hnd
      have hl' : ∀ q ∈ rest, look s1.kv q.1 = some q.2 := by
        intro q hq
        rw [i4, stepF_ne]
        · exact hl q (List.mem_cons_of_mem _ hq)
        · intro hc
          exact hnd.1 (List.mem_map.2 ⟨q, hq, hc.symm⟩)
      have := ih s1 s' i1 hl' hnd.2 hp
      exact ⟨this.1, this.2.trans i2⟩

theorem deletePrefixRaw_inv {cfg : Cfg} {f : Content} {s s' : Store} {b ord : Nat} {pfx : Bytes}
    (h : FInv f s b) (hb : b ≤ ord) (hp : deletePrefixRaw cfg s ord pfx = .ok s') :
    FInv f s' ord ∧ s'.ops = s.ops := by
  unfold deletePrefixRaw at hp
  have hperm := sortByKey_perm (s.kv.filter (fun p => isPrefix pfx p.1))
  refine deleteFold_inv _ s s' (h.mono hb) ?_ ?_ hp
  · intro p hp'
    have : p ∈ s.kv := (List.mem_filter.1 ((hperm.mem_iff).1 hp')).1
    exact look_of_mem h.nodup this
  · have h1 : ((s.kv.filter (fun p => isPrefix pfx p.1)).map (·.1)).Nodup :=
      List.Nodup.sublist (List.Sublist.map _ List.filter_sublist) h.nodup
    exact ((hperm.map (·.1)).nodup_iff).2 h1

theorem flushOp_inv {cfg : Cfg} {sem : Sem} {f : Content} {s s' : Store} {b : Nat} {op : Op}
    (h : FInv f s b) (hb : b ≤ op.ord) (hp : flushOp cfg sem s op = .ok s') :
    FInv f s' op.ord ∧ s'.ops = s.ops := by
  unfold flushOp at hp
  split at hp
  · simp at hp
  · rename_i s1 hbody
    injection hp with hp; subst hp
    have key : FInv f s1 op.ord ∧ s1.ops = s.ops := by
      unfold flushOpBody at hbody
      split at hbody
      · exact setRaw_inv h hb hbody
      · exact setIfNotExistsRaw_inv h hb hbody
      · exact deletePrefixRaw_inv h hb hbody
      · dsimp only at hbody
        split at hbody
        · simp at hbody
        · exact setRaw_inv h hb hbody
    exact ⟨{ key.1 with }, key.2⟩

/-! ### the stable sort of the operation log -/

def OrdSorted (l : List Op) : Prop := l.Pairwise (fun a b => a.ord ≤ b.ord)

theorem insByOrd_perm (o : Op) (l : List Op) : (insByOrd o l).Perm (o :: l) := by
  induction l with
  | nil => exact List.Perm.refl _
  | cons q rest ih =>
    unfold insByOrd
    split
    · exact List.Perm.refl _
    · exact (List.Perm.cons q ih).trans (List.Perm.swap o q rest)

theorem insByOrd_sorted (o : Op) (l : List Op) (h : OrdSorted l) : OrdSorted (insByOrd o l) := by
  induction l with
  | nil => simp [insByOrd, OrdSorted]
  | cons q rest ih =>
    unfold OrdSorted at *
    unfold insByOrd
    rw [List.pairwise_cons] at h
    split
    · rename_i hle
      rw [List.pairwise_cons]
      refine ⟨?_, List.pairwise_cons.2 h⟩
      intro a ha
      rcases List.mem_cons.1 ha with rfl | ha
      · exact hle
      · exact Nat.le_trans hle (h.1 a ha)
    · rename_i hgt
      rw [List.pairwise_cons]
      refine ⟨?_, ih h.2⟩
      intro a ha
      rcases List.mem_cons.1 ((insByOrd_perm o rest).mem_iff.1 ha) with rfl | ha
      · omega
      · exact h.1 a ha

theorem sortOps_sorted (l : List Op) : OrdSorted (sortOps l) := by
  induction l with
  | nil => simp [sortOps, OrdSorted]
  | cons o rest ih => exact insByOrd_sorted o _ ih

theorem sortOps_perm (l : List Op) : (sortOps l).Perm l := by
  induction l with
  | nil => exact List.Perm.refl _
  | cons o rest ih => exact (insByOrd_perm o _).trans (List.Perm.cons o ih)

/-- insertion into an already sorted list in front of the first strictly greater... : the insertion sort
is the identity on sorted input (idempotence of `Sort`) -/
theorem insByOrd_of_le (o : Op) (l : List Op) (h : ∀ a ∈ l, o.ord ≤ a.ord) : insByOrd o l = o :: l := by
  cases l with
  | nil => rfl
  | cons q rest => unfold insByOrd; simp [h q List.mem_cons_self]

theorem sortOps_of_sorted (l : List Op) (h : OrdSorted l) : sortOps l = l := by
  induction l with
  | nil => rfl
  | cons o rest ih =>
    unfold OrdSorted at h
    rw [List.pairwise_cons] at h
    show insByOrd o (sortOps rest) = o :: rest
    rw [ih h.2]
    exact insByOrd_of_le o rest h.1

/-- stability: operations with the same ordinal keep their call order -/
theorem insByOrd_filter (o : Op) (l : List Op) (n : Nat) (hs : OrdSorted l) :
    (insByOrd o l).filter (fun a => a.ord == n) = (o :: l).filter (fun a => a.ord == n) := by
  induction l with
  | nil => rfl
  | cons q rest ih =>
    unfold OrdSorted at hs
    rw [List.pairwise_cons] at hs
    unfold insByOrd
    split
    · rfl
    · rename_i hgt
      have hq : q.ord < o.ord := by omega
      simp only [List.filter_cons]
      have ih' := ih hs.2
      simp only [List.filter_cons] at ih'
      rw [ih']
      by_cases h1 : o.ord = n <;> by_cases h2 : q.ord = n
      · omega
      · simp [h1, h2]
      · simp [h1, h2]
      · simp [h1, h2]

theorem sortOps_stable (l : List Op) (n : Nat) :
    (sortOps l).filter (fun a => a.ord == n) = l.filter (fun a => a.ord == n) := by
  induction l with
  | nil => rfl
  | cons o rest ih =>
    show (insByOrd o (sortOps rest)).filter _ = _
    rw [insByOrd_filter o _ n (sortOps_sorted rest)]
    simp only [List.filter_cons, ih]

/-! ### Flush -/

theorem flushFold_inv {cfg : Cfg} {sem : Sem} {f : Content} : ∀ (ops : List Op) (s s' : Store) (b : Nat),
    FInv f s b → OrdSorted ops → (∀ o ∈ ops, b ≤ o.ord) →
    ops.foldlM (flushOp cfg sem) s = .ok s' → ∃ b', FInv f s' b' ∧ s'.ops = s.ops := by
  intro ops
  induction ops with
  | nil => intro s s' b h _ _ hp; simp [List.foldlM] at hp; cases hp; exact ⟨b, h, rfl⟩
  | cons o rest ih =>
    intro s s' b h hs hb hp
    rw [List.foldlM_cons] at hp
    cases hfo : flushOp cfg sem s o with
    | error e => rw [hfo] at hp; simp [bind, Except.bind] at hp
    | ok s1 =>
      rw [hfo] at hp
      simp only [bind, Except.bind] at hp
      unfold OrdSorted at hs
      rw [List.pairwise_cons] at hs
      obtain ⟨i1, i2⟩ := flushOp_inv h (hb o List.mem_cons_self) hfo
      obtain ⟨b', j1, j2⟩ := ih s1 s' o.ord i1 hs.2 hs.1 hp
      exact ⟨b', j1, j2.trans i2⟩

/-- a store as `NewCall` leaves it before a block: no deltas, consistent size, distinct keys -/
structure Clean (s : Store) : Prop where
  nodup  : NodupKeys s.kv
  deltas : s.deltas = []
  size   : s.size = kvSize s.kv

theorem Clean.finv {s : Store} (h : Clean s) : FInv (look s.kv) s 0 :=
  { nodup := h.nodup
    chain := by rw [h.deltas]; trivial
    kvpost := by rw [h.deltas]; rfl
    sorted := by rw [h.deltas]; exact List.Pairwise.nil
    bounded := by rw [h.deltas]; intro d hd; simp at hd
    size := h.size }

theorem flush_inv {cfg : Cfg} {sem : Sem} {s s' : Store} (h : Clean s) (hp : flush cfg sem s = .ok s') :
    ∃ b, FInv (look s.kv) s' b ∧ s'.ops = sortOps s.ops := by
  unfold flush at hp
  have hc : FInv (look s.kv) { s with ops := sortOps s.ops } 0 :=
    { nodup := h.nodup
      chain := by show Chain _ s.deltas; rw [h.deltas]; trivial
      kvpost := by show _ = postF _ s.deltas; rw [h.deltas]; rfl
      sorted := by show s.deltas.Pairwise _; rw [h.deltas]; exact List.Pairwise.nil
      bounded := by show ∀ d ∈ s.deltas, _; rw [h.deltas]; intro d hd; simp at hd
      size := h.size }
  obtain ⟨b, i1, i2⟩ := flushFold_inv (sortOps s.ops) _ s' 0 hc (sortOps_sorted _) (by intro o _; omega) hp
  exact ⟨b, i1, i2⟩

end SV

namespace SV

theorem chain_split (l1 : List Delta) (d : Delta) (l2 : List Delta) : ∀ f : Content,
    Chain f (l1 ++ d :: l2) → WFd (postF f l1) d := by
  induction l1 with
  | nil => intro f h; exact h.1
  | cons x xs ih => intro f h; exact ih (stepF f x) h.2

theorem record_fold_fields (calls : List Op) (s : Store) :
    (calls.foldl record s).kv = s.kv ∧ (calls.foldl record s).deltas = s.deltas ∧
    (calls.foldl record s).size = s.size ∧ (calls.foldl record s).ops = s.ops ++ calls := by
  induction calls generalizing s with
  | nil => simp
  | cons c rest ih =>
    obtain ⟨a, b, c', d⟩ := ih (record s c)
    simp only [List.foldl_cons]
    refine ⟨a, b, c', ?_⟩
    rw [d]; simp [record]

theorem Clean.record_fold {s : Store} (h : Clean s) (calls : List Op) : Clean (calls.foldl record s) := by
  obtain ⟨a, b, c, _⟩ := record_fold_fields calls s
  exact ⟨by rw [a]; exact h.nodup, by rw [b]; exact h.deltas, by rw [c, a]; exact h.size⟩

/-- everything `C08` needs about one executed block -/
theorem execBlock_inv {cfg : Cfg} {sem : Sem} {pre post : Store} {calls : List Op} (h : Clean pre)
    (hp : execBlock cfg sem pre calls = .ok post) :
    ∃ b, FInv (look pre.kv) post b ∧ post.ops = sortOps (pre.ops ++ calls) := by
  unfold execBlock at hp
  obtain ⟨a, _, _, d⟩ := record_fold_fields calls pre
  obtain ⟨b, i1, i2⟩ := flush_inv (h.record_fold calls) hp
  rw [a] at i1; rw [d] at i2
  exact ⟨b, i1, i2⟩

end SV

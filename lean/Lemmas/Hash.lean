import Model.Hash
/-!
Helper lemmas for C06 (Props/C06.lean).  Core Lean only.
-/
namespace SV.Hash

/-! ## lists -/

theorem flatten_inj_of_lengths {α} : ∀ (l l' : List (List α)),
    l.map List.length = l'.map List.length → l.flatten = l'.flatten → l = l'
  | [], [], _, _ => rfl
  | [], _ :: _, h, _ => by simp at h
  | _ :: _, [], h, _ => by simp at h
  | x :: l, y :: l', h, hf => by
    simp only [List.map_cons, List.cons.injEq] at h
    simp only [List.flatten_cons] at hf
    obtain ⟨h1, h2⟩ := List.append_inj hf h.1
    rw [h1, flatten_inj_of_lengths l l' h.2 h2]

theorem length_flatten_of_lengths {α} (l l' : List (List α))
    (h : l.map List.length = l'.map List.length) : l.flatten.length = l'.flatten.length := by
  rw [List.length_flatten, List.length_flatten, h]

/-! ## `findM` -/

theorem findM_name {G : List Module} {n : Bytes} {m : Module} (h : findM G n = some m) : m.name = n := by
  induction G with
  | nil => simp [findM] at h
  | cons a G ih =>
    simp only [findM] at h
    split at h
    · cases h; assumption
    · exact ih h

theorem findM_mem {G : List Module} {n : Bytes} {m : Module} (h : findM G n = some m) : m ∈ G := by
  induction G with
  | nil => simp [findM] at h
  | cons a G ih =>
    simp only [findM] at h
    split at h
    · cases h; exact List.mem_cons_self
    · exact List.mem_cons_of_mem _ (ih h)

theorem findM_none_iff {G : List Module} {n : Bytes} : findM G n = none ↔ ∀ m ∈ G, m.name ≠ n := by
  induction G with
  | nil => simp [findM]
  | cons a G ih =>
    simp only [findM, List.mem_cons, forall_eq_or_imp]
    split
    · rename_i h; simp [h]
    · rename_i h; simp [h, ih]

theorem hasName_iff {G : List Module} {n : Bytes} : hasName G n = true ↔ ∃ m ∈ G, m.name = n := by
  unfold hasName
  cases h : findM G n with
  | none =>
    simp only [Option.isSome_none, Bool.false_eq_true, false_iff]
    rintro ⟨m, hm, hn⟩
    exact (findM_none_iff.1 h) m hm hn
  | some m => simp only [Option.isSome_some, true_iff]; exact ⟨m, findM_mem h, findM_name h⟩

/-- `findM` through a map of the module list that renames injectively -/
theorem findM_map (ρ : Bytes → Bytes) (f : Module → Module) (hρ : ∀ a b, ρ a = ρ b → a = b)
    (hf : ∀ m, (f m).name = ρ m.name) (G : List Module) (n : Bytes) :
    findM (G.map f) (ρ n) = (findM G n).map f := by
  induction G with
  | nil => rfl
  | cons a G ih =>
    simp only [List.map_cons, findM, hf]
    by_cases h : a.name = n
    · simp [h]
    · have : ρ a.name ≠ ρ n := fun e => h (hρ _ _ e)
      simp [h, this, ih]

theorem hasName_map (ρ : Bytes → Bytes) (f : Module → Module) (hρ : ∀ a b, ρ a = ρ b → a = b)
    (hf : ∀ m, (f m).name = ρ m.name) (G : List Module) (n : Bytes) :
    hasName (G.map f) (ρ n) = hasName G n := by
  simp [hasName, findM_map ρ f hρ hf]

/-! ## the pre-image as a function of the "name view" of a module -/

/-- apply `g` to the hash slots of a segment record -/
def Segs.mapH (g : Bytes → Bytes) (s : Segs) : Segs :=
  { s with flt := s.flt.map (fun p => (g p.1, p.2)), anc := s.anc.map g }

/-- `segsOf` with the names left in the hash slots (`hf := id`) is the name view -/
theorem segsOf_eq_mapH (P : Modules) (r : Nat) (hf : Bytes → Bytes) (m : Module) :
    segsOf P r hf m = (segsOf P r id m).mapH hf := by
  simp [segsOf, Segs.mapH, Option.map_map, Function.comp_def]

theorem mapH_mapH (g h : Bytes → Bytes) (s : Segs) : (s.mapH g).mapH h = s.mapH (h ∘ g) := by
  cases s with
  | mk ib kind bty bct ins flt anc entry =>
    simp [Segs.mapH, Option.map_map, Function.comp_def]

theorem mapH_congr (g h : Bytes → Bytes) (s : Segs)
    (hflt : ∀ p, s.flt = some p → g p.1 = h p.1) (hanc : ∀ a ∈ s.anc, g a = h a) :
    s.mapH g = s.mapH h := by
  cases s with
  | mk ib kind bty bct ins flt anc entry =>
    simp only [Segs.mapH, Segs.mk.injEq, true_and, and_true]
    refine ⟨?_, List.map_congr_left hanc⟩
    cases flt with
    | none => rfl
    | some p => simp [hflt p rfl]

/-- **Master congruence.**  `C` is a set of names closed under "filter module of" and "ancestor of"
(in `P`); on `C`, module `ρ b` of `P'` has the same name view as module `b` of `P` up to `ρ`.
Then the hashes agree on `C`, for every hash function and every depth. -/
theorem hashN_congr (H : Bytes → Bytes) (P P' : Modules) (r : Nat) (ρ : Bytes → Bytes) (C : Bytes → Prop)
    (hview : ∀ b, C b → (findM P'.modules (ρ b)).map (segsOf P' r id) =
                         (findM P.modules b).map (fun m => (segsOf P r id m).mapH ρ))
    (hclosed : ∀ b m, C b → findM P.modules b = some m →
        (∀ a ∈ ancestorNames P.modules r m.name, C a) ∧ (∀ f, m.filter = some f → C f.module)) :
    ∀ k b, C b → hashN H P' r k (ρ b) = hashN H P r k b := by
  intro k
  induction k with
  | zero => intro b _; rfl
  | succ k ih =>
    intro b hb
    have hv := hview b hb
    simp only [hashN]
    cases hm : findM P.modules b with
    | none =>
      rw [hm] at hv
      cases hm' : findM P'.modules (ρ b) with
      | none => rfl
      | some m' => rw [hm'] at hv; simp at hv
    | some m =>
      rw [hm] at hv
      cases hm' : findM P'.modules (ρ b) with
      | none => rw [hm'] at hv; simp at hv
      | some m' =>
        rw [hm'] at hv
        simp only [Option.map_some, Option.some.injEq] at hv
        obtain ⟨hanc, hflt⟩ := hclosed b m hb hm
        simp only [preimage]
        rw [segsOf_eq_mapH P' r (hashN H P' r k) m', hv, mapH_mapH, segsOf_eq_mapH P r (hashN H P r k) m]
        congr 2
        apply mapH_congr
        · intro p hp
          simp only [segsOf, Option.map_eq_some_iff] at hp
          obtain ⟨f, hf, rfl⟩ := hp
          exact ih _ (hflt f hf)
        · intro a ha
          simp only [segsOf, List.map_id_fun, id_eq] at ha
          exact ih _ (hanc a ha)

/-! ## reachability -/

/-- `b` is reachable from `a` along at least one dependency edge (no bound on the length) -/
inductive Reach (G : List Module) : Bytes → Bytes → Prop
  | step {a b : Bytes} : b ∈ succs G a → Reach G a b
  | trans {a b c : Bytes} : b ∈ succs G a → Reach G b c → Reach G a c

theorem Reach.tail {G : List Module} {a b c : Bytes} (h : Reach G a b) (h2 : Reach G b c) : Reach G a c := by
  induction h with
  | step hs => exact .trans hs h2
  | trans hs _ ih => exact .trans hs (ih h2)

theorem reachF_sound {G : List Module} : ∀ {k : Nat} {a b : Bytes}, reachF G k a b = true → Reach G a b
  | 0, _, _, h => by simp [reachF] at h
  | k + 1, a, b, h => by
    simp only [reachF, List.any_eq_true, Bool.or_eq_true, decide_eq_true_eq] at h
    obtain ⟨s, hs, h⟩ := h
    rcases h with rfl | h
    · exact .step hs
    · exact .trans hs (reachF_sound h)

/-- a set of names closed under `succs` contains everything reachable from its members -/
theorem Reach.closed {G : List Module} (S : Bytes → Prop) (hS : ∀ a, S a → ∀ s ∈ succs G a, S s)
    {a b : Bytes} (h : Reach G a b) (ha : S a) : S b := by
  induction h with
  | step hs => exact hS _ ha _ hs
  | trans hs _ ih => exact ih (hS _ ha _ hs)

theorem any_congr_mem {α} (l : List α) (p q : α → Bool) (h : ∀ x ∈ l, p x = q x) : l.any p = l.any q := by
  induction l with
  | nil => rfl
  | cons a l ih =>
    simp only [List.any_cons]
    rw [h a List.mem_cons_self, ih fun x hx => h x (List.mem_cons_of_mem _ hx)]

/-- simulation: if on a `succs`-closed set `S` the successors in `G'` are the `ρ`-images of the
successors in `G`, bounded reachability agrees -/
theorem reachF_sim (G G' : List Module) (ρ : Bytes → Bytes) (hρ : ∀ a b, ρ a = ρ b → a = b)
    (S : Bytes → Prop)
    (hs : ∀ a, S a → succs G' (ρ a) = (succs G a).map ρ ∧ ∀ s ∈ succs G a, S s) :
    ∀ k a b, S a → reachF G' k (ρ a) (ρ b) = reachF G k a b := by
  intro k
  induction k with
  | zero => intros; rfl
  | succ k ih =>
    intro a b ha
    obtain ⟨h1, h2⟩ := hs a ha
    simp only [reachF, h1, List.any_map]
    apply any_congr_mem
    intro s hsm
    simp only [Function.comp_apply]
    rw [ih s b (h2 s hsm)]
    congr 1
    by_cases e : s = b
    · simp [e]
    · have : ρ s ≠ ρ b := fun x => e (hρ _ _ x)
      simp [e, this]

/-! ## edges under a renaming map of modules -/

/-- `f` renames a module and its module references by `ρ` and keeps the rest of the graph data -/
structure GraphMap (ρ : Bytes → Bytes) (f : Module → Module) : Prop where
  name : ∀ m, (f m).name = ρ m.name
  inputs : ∀ m, (f m).inputs = m.inputs.map (renameInput ρ)
  filter : ∀ m, (f m).filter = m.filter.map fun x => { x with module := ρ x.module }

/-- no module has the empty name (`ValidateModules`: names match `[a-zA-Z][a-zA-Z0-9_]{0,63}` segments) -/
def NonEmptyNames (G : List Module) : Prop := ∀ m ∈ G, m.name ≠ []

theorem ne_nil_of_hasName {G : List Module} (h : NonEmptyNames G) {t : Bytes} (ht : hasName G t = true) : t ≠ [] := by
  obtain ⟨m, hm, rfl⟩ := hasName_iff.1 ht
  exact h m hm

theorem edgeTargets_map (ρ : Bytes → Bytes) (f : Module → Module) (hρ : ∀ a b, ρ a = ρ b → a = b)
    (hf : GraphMap ρ f) (G : List Module) (hne : NonEmptyNames G) (hne' : NonEmptyNames (G.map f))
    (m : Module) :
    edgeTargets (G.map f) (f m) = (edgeTargets G m).map ρ := by
  have hN : ∀ t, hasName (G.map f) (ρ t) = hasName G t := hasName_map ρ f hρ hf.name G
  unfold edgeTargets
  rw [hf.inputs, hf.filter, List.map_append]
  congr 1
  · -- inputs
    generalize m.inputs = ins
    induction ins with
    | nil => rfl
    | cons i rest ih =>
      have ih' := ih
      simp only [List.map_cons, List.filter_cons]
      have key : (decide (inputRef (renameInput ρ i) ≠ []) && hasName (G.map f) (inputRef (renameInput ρ i)))
            = (decide (inputRef i ≠ []) && hasName G (inputRef i)) ∧
          ((decide (inputRef i ≠ []) && hasName G (inputRef i)) = true →
            inputRef (renameInput ρ i) = ρ (inputRef i)) := by
        cases i with
        | map t =>
          simp only [renameInput, inputRef, hN]
          refine ⟨?_, fun _ => trivial⟩
          by_cases h : hasName G t = true
          · have := ne_nil_of_hasName hne h
            have := ne_nil_of_hasName hne' ((hN t).trans h)
            simp [*]
          · simp [h]
        | store t mode =>
          simp only [renameInput, inputRef, hN]
          refine ⟨?_, fun _ => trivial⟩
          by_cases h : hasName G t = true
          · have := ne_nil_of_hasName hne h
            have := ne_nil_of_hasName hne' ((hN t).trans h)
            simp [*]
          · simp [h]
        | source t => simp [renameInput, inputRef]
        | params t => simp [renameInput, inputRef]
        | unset => simp [renameInput, inputRef]
      rw [key.1]
      split
      · rename_i hk
        rw [List.map_cons, key.2 hk, ih']
      · exact ih'
  · -- filter module
    cases m.filter with
    | none => rfl
    | some x =>
      simp only [Option.map_some, hN]
      split <;> rfl

theorem succs_map (ρ : Bytes → Bytes) (f : Module → Module) (hρ : ∀ a b, ρ a = ρ b → a = b)
    (hf : GraphMap ρ f) (G : List Module) (hne : NonEmptyNames G) (hne' : NonEmptyNames (G.map f))
    (a : Bytes) :
    succs (G.map f) (ρ a) = (succs G a).map ρ := by
  unfold succs
  rw [findM_map ρ f hρ hf.name]
  cases h : findM G a with
  | none => rfl
  | some m => exact edgeTargets_map ρ f hρ hf G hne hne' m

theorem reachF_map (ρ : Bytes → Bytes) (f : Module → Module) (hρ : ∀ a b, ρ a = ρ b → a = b)
    (hf : GraphMap ρ f) (G : List Module) (hne : NonEmptyNames G) (hne' : NonEmptyNames (G.map f))
    (k : Nat) (a b : Bytes) :
    reachF (G.map f) k (ρ a) (ρ b) = reachF G k a b :=
  reachF_sim G (G.map f) ρ hρ (fun _ => True)
    (fun a _ => ⟨succs_map ρ f hρ hf G hne hne' a, fun _ _ => trivial⟩) k a b trivial

theorem ancestorNames_map (ρ : Bytes → Bytes) (f : Module → Module) (hρ : ∀ a b, ρ a = ρ b → a = b)
    (hf : GraphMap ρ f) (G : List Module) (hne : NonEmptyNames G) (hne' : NonEmptyNames (G.map f))
    (r : Nat) (n : Bytes) :
    ancestorNames (G.map f) r (ρ n) = (ancestorNames G r n).map ρ := by
  unfold ancestorNames
  rw [List.filter_map, List.map_map, List.map_map]
  have : ((fun a => reachF (G.map f) r (ρ n) a.name) ∘ f) = fun a => reachF G r n a.name := by
    funext a
    simp only [Function.comp_apply, hf.name, reachF_map ρ f hρ hf G hne hne']
  rw [this]
  apply List.map_congr_left
  intro a _
  simp [hf.name]

/-! ## hashes under a renaming map of modules (rename, alias prefix, binary re-indexing) -/

theorem encInput_rename (ρ : Bytes → Bytes) (i : Input) : encInput (renameInput ρ i) = encInput i := by
  cases i <;> rfl

theorem encInputs_rename (ρ : Bytes → Bytes) (l : List Input) : encInputs (l.map (renameInput ρ)) = encInputs l := by
  simp [encInputs, List.map_map, Function.comp_def, encInput_rename]

theorem firstParams_rename (ρ : Bytes → Bytes) (l : List Input) : firstParams (l.map (renameInput ρ)) = firstParams l := by
  induction l with
  | nil => rfl
  | cons i l ih => cases i <;> simp [firstParams, renameInput, ih]

theorem queryString_map (ρ : Bytes → Bytes) (f : Module → Module) (hf : GraphMap ρ f) (m : Module) :
    queryString (f m) = queryString m := by
  unfold queryString
  rw [hf.filter, hf.inputs, firstParams_rename]
  cases m.filter <;> rfl

/-- `f` keeps the fields the pre-image reads from the module itself -/
structure OwnPreserved (P P' : Modules) (f : Module → Module) : Prop where
  ib : ∀ m, (f m).initialBlock = m.initialBlock
  kind : ∀ m, kindLabel (f m).kind = kindLabel m.kind
  entry : ∀ m, (f m).entrypoint = m.entrypoint
  bin : ∀ m ∈ P.modules, binaryOf P' (f m) = binaryOf P m

theorem hashN_graphMap (H : Bytes → Bytes) (P : Modules) (bins' : List Binary) (ρ : Bytes → Bytes)
    (f : Module → Module) (hρ : ∀ a b, ρ a = ρ b → a = b) (hf : GraphMap ρ f)
    (hown : OwnPreserved P ⟨P.modules.map f, bins'⟩ f)
    (hne : NonEmptyNames P.modules) (hne' : NonEmptyNames (P.modules.map f))
    (r k : Nat) (b : Bytes) :
    hashN H ⟨P.modules.map f, bins'⟩ r k (ρ b) = hashN H P r k b := by
  apply hashN_congr H P ⟨P.modules.map f, bins'⟩ r ρ (fun _ => True) ?_ ?_ k b trivial
  · intro b _
    show (findM (P.modules.map f) (ρ b)).map _ = _
    rw [findM_map ρ f hρ hf.name, Option.map_map]
    cases hm : findM P.modules b with
    | none => rfl
    | some m =>
      simp only [Option.map_some, Function.comp_apply, Option.some.injEq]
      have hmem := findM_mem hm
      simp only [segsOf, Segs.mapH, hown.ib, hown.kind, hown.entry, hown.bin m hmem, hf.inputs,
        encInputs_rename, queryString_map ρ f hf, hf.filter, Option.map_map, hf.name,
        ancestorNames_map ρ f hρ hf P.modules hne hne', List.map_id_fun, id_eq, List.map_map]
      simp [Function.comp_def]
  · intros; exact ⟨fun _ _ => trivial, fun _ _ => trivial⟩

/-! ## editing one module: everything that does not reach it is unaffected -/

theorem setModule_map_name (x : Bytes) (m' : Module) (hn : m'.name = x) (m : Module) :
    (if m.name = x then m' else m).name = m.name := by
  split
  · rename_i h; rw [hn, h]
  · rfl

theorem findM_setModule (G : List Module) (x : Bytes) (m' : Module) (hn : m'.name = x) (n : Bytes) :
    findM (G.map fun m => if m.name = x then m' else m) n =
      (findM G n).map fun m => if m.name = x then m' else m := by
  have := findM_map id (fun m => if m.name = x then m' else m) (fun _ _ h => h)
    (setModule_map_name x m' hn) G n
  simpa using this

theorem hasName_setModule (G : List Module) (x : Bytes) (m' : Module) (hn : m'.name = x) (n : Bytes) :
    hasName (G.map fun m => if m.name = x then m' else m) n = hasName G n := by
  simp [hasName, findM_setModule G x m' hn]

theorem edgeTargets_congr_hasName (G G' : List Module) (m : Module)
    (h : ∀ t, hasName G' t = hasName G t) : edgeTargets G' m = edgeTargets G m := by
  unfold edgeTargets
  simp only [h]

theorem succs_setModule_ne (G : List Module) (x : Bytes) (m' : Module) (hn : m'.name = x) (b : Bytes)
    (hb : b ≠ x) : succs (G.map fun m => if m.name = x then m' else m) b = succs G b := by
  unfold succs
  rw [findM_setModule G x m' hn]
  cases h : findM G b with
  | none => rfl
  | some m =>
    have : m.name ≠ x := by rw [findM_name h]; exact hb
    simp only [Option.map_some, this, if_false]
    exact edgeTargets_congr_hasName _ _ _ (hasName_setModule G x m' hn)

/-- the names that neither are `x` nor reach `x` -/
def Away (G : List Module) (x : Bytes) (b : Bytes) : Prop := b ≠ x ∧ ¬ Reach G b x

theorem Away.succ {G : List Module} {x a s : Bytes} (ha : Away G x a) (hs : s ∈ succs G a) : Away G x s := by
  refine ⟨?_, fun h => ha.2 (.trans hs h)⟩
  rintro rfl
  exact ha.2 (.step hs)

theorem reachF_setModule (G : List Module) (x : Bytes) (m' : Module) (hn : m'.name = x) (k : Nat) (a b : Bytes)
    (ha : Away G x a) : reachF (G.map fun m => if m.name = x then m' else m) k a b = reachF G k a b := by
  have := reachF_sim G (G.map fun m => if m.name = x then m' else m) id (fun _ _ h => h) (Away G x)
    (fun a ha => ⟨by simpa using succs_setModule_ne G x m' hn a ha.1, fun s hs => ha.succ hs⟩) k a b ha
  simpa using this

theorem ancestorNames_setModule (G : List Module) (x : Bytes) (m' : Module) (hn : m'.name = x) (r : Nat) (b : Bytes)
    (hb : Away G x b) : ancestorNames (G.map fun m => if m.name = x then m' else m) r b = ancestorNames G r b := by
  unfold ancestorNames
  rw [List.filter_map, List.map_map]
  have : ((fun a => reachF (G.map fun m => if m.name = x then m' else m) r b a.name) ∘
      fun m => if m.name = x then m' else m) = fun a => reachF G r b a.name := by
    funext a
    simp only [Function.comp_apply, setModule_map_name x m' hn, reachF_setModule G x m' hn r b _ hb]
  rw [this]
  apply List.map_congr_left
  intro a _
  simp [setModule_map_name x m' hn]

theorem mapH_id (s : Segs) : s.mapH id = s := by
  cases s with
  | mk ib kind bty bct ins flt anc entry =>
    simp only [Segs.mapH, List.map_id_fun, id_eq, Segs.mk.injEq, true_and, and_true]
    cases flt <;> simp

theorem mem_edgeTargets_filter {G : List Module} {m : Module} {f : Filter} (hf : m.filter = some f)
    (h : hasName G f.module = true) : f.module ∈ edgeTargets G m := by
  unfold edgeTargets
  simp [hf, h]

theorem mem_edgeTargets_input {G : List Module} {m : Module} {t : Bytes} (ht : t ∈ m.inputs.map inputRef)
    (hne : t ≠ []) (h : hasName G t = true) : t ∈ edgeTargets G m := by
  unfold edgeTargets
  apply List.mem_append_left
  simp only [List.mem_filter, Bool.and_eq_true, decide_eq_true_eq]
  exact ⟨ht, hne, h⟩

/-- **Locality.** Replace module `x` by anything of the same name: every module that is not `x` and
does not reach `x` keeps its hash — for every hash function, every depth. -/
theorem hashN_setModule_away (H : Bytes → Bytes) (P : Modules) (x : Bytes) (m' : Module) (hn : m'.name = x)
    (hx : hasName P.modules x = true) (r k : Nat) (b : Bytes) (hb : Away P.modules x b) :
    hashN H (setModule P x m') r k b = hashN H P r k b := by
  apply hashN_congr H P (setModule P x m') r id (Away P.modules x) ?_ ?_ k b hb
  · intro b hb
    show (findM (P.modules.map _) b).map _ = _
    rw [findM_setModule P.modules x m' hn, Option.map_map]
    cases hm : findM P.modules b with
    | none => rfl
    | some m =>
      have hne : m.name ≠ x := by rw [findM_name hm]; exact hb.1
      have hb' : Away P.modules x m.name := by rw [findM_name hm]; exact hb
      simp only [Option.map_some, Function.comp_apply, hne, if_false, Option.some.injEq, mapH_id]
      simp only [segsOf, setModule, binaryOf, ancestorNames_setModule P.modules x m' hn r _ hb']
  · intro b m hb hm
    have hname := findM_name hm
    refine ⟨fun a ha => ?_, fun f hf => ?_⟩
    · simp only [ancestorNames, List.mem_map, List.mem_filter] at ha
      obtain ⟨am, ⟨_, hreach⟩, rfl⟩ := ha
      rw [hname] at hreach
      have hR := reachF_sound hreach
      exact Reach.closed (Away P.modules x) (fun a ha s hs => ha.succ hs) hR hb
    · by_cases hh : hasName P.modules f.module = true
      · have : f.module ∈ succs P.modules b := by
          unfold succs; rw [hm]; exact mem_edgeTargets_filter hf hh
        exact hb.succ this
      · -- a filter module that does not exist: it is not `x` (which exists) and has no successors
        refine ⟨fun e => hh (e ▸ hx), fun hR => ?_⟩
        have hnone : succs P.modules f.module = [] := by
          unfold succs
          cases hf' : findM P.modules f.module with
          | none => rfl
          | some _ => exact absurd (by simp [hasName, hf']) hh
        cases hR with
        | step hs => rw [hnone] at hs; simp at hs
        | trans hs _ => rw [hnone] at hs; simp at hs

/-! ## adding modules -/

theorem findM_sublist {l l' : List Module} (hs : l.Sublist l') (hnd : (l'.map (·.name)).Nodup)
    {n : Bytes} {m : Module} (h : findM l n = some m) : findM l' n = some m := by
  induction hs with
  | slnil => exact h
  | @cons l1 l1' a hs ih =>
    simp only [List.map_cons, List.nodup_cons] at hnd
    simp only [findM]
    split
    · rename_i e
      exfalso
      apply hnd.1
      have hm := hs.subset (findM_mem h)
      rw [e, ← findM_name h]
      exact List.mem_map_of_mem hm
    · exact ih hnd.2 h
  | @cons_cons l1 l1' a hs ih =>
    simp only [List.map_cons, List.nodup_cons] at hnd
    simp only [findM] at h ⊢
    split
    · rename_i e; simpa [e] using h
    · rename_i e; simp only [e, if_false] at h; exact ih hnd.2 h

theorem hasName_sublist {l l' : List Module} (hs : l.Sublist l') {n : Bytes} (h : hasName l n = true) :
    hasName l' n = true := by
  obtain ⟨m, hm, hn⟩ := hasName_iff.1 h
  exact hasName_iff.2 ⟨m, hs.subset hm, hn⟩

theorem inj_of_nodup_map {α β} (f : α → β) : ∀ {l : List α}, (l.map f).Nodup →
    ∀ {a b : α}, a ∈ l → b ∈ l → f a = f b → a = b
  | [], _, _, _, ha, _, _ => by simp at ha
  | x :: l, h, a, b, ha, hb, e => by
    simp only [List.map_cons, List.nodup_cons, List.mem_map, not_exists, not_and] at h
    rcases List.mem_cons.1 ha with rfl | ha' <;> rcases List.mem_cons.1 hb with rfl | hb'
    · rfl
    · exact absurd e.symm (h.1 b hb')
    · exact absurd e (h.1 a ha')
    · exact inj_of_nodup_map f h.2 ha' hb' e

theorem nodup_of_nodup_map {α β} (f : α → β) : ∀ {l : List α}, (l.map f).Nodup → l.Nodup
  | [], _ => List.nodup_nil
  | x :: l, h => by
    simp only [List.map_cons, List.nodup_cons] at h ⊢
    exact ⟨fun hx => h.1 (List.mem_map_of_mem hx), nodup_of_nodup_map f h.2⟩

theorem filter_sublist_eq {α} {l l' : List α} (hs : l.Sublist l') (hnd : l'.Nodup) (p p' : α → Bool)
    (h1 : ∀ a ∈ l', p' a = true → a ∈ l) (h2 : ∀ a ∈ l, p a = p' a) : l'.filter p' = l.filter p := by
  induction hs with
  | slnil => rfl
  | @cons l1 l1' a hs ih =>
    simp only [List.nodup_cons] at hnd
    have hna : a ∉ l1 := fun h => hnd.1 (hs.subset h)
    have hpa : p' a = false := by
      cases e : p' a with
      | false => rfl
      | true => exact absurd (h1 a List.mem_cons_self e) hna
    simp only [List.filter_cons, hpa, Bool.false_eq_true, if_false]
    exact ih hnd.2 (fun b hb hp => h1 b (List.mem_cons_of_mem _ hb) hp) h2
  | @cons_cons l1 l1' a hs ih =>
    simp only [List.nodup_cons] at hnd
    simp only [List.filter_cons, h2 a List.mem_cons_self]
    have := ih hnd.2
      (fun b hb hp => by
        have := h1 b (List.mem_cons_of_mem _ hb) hp
        rcases List.mem_cons.1 this with rfl | h
        · exact absurd hb hnd.1
        · exact h)
      (fun b hb => h2 b (List.mem_cons_of_mem _ hb))
    rw [this]

/-- the names reachable from `m0` (or `m0` itself) in `G'` -/
def Cone (G' : List Module) (m0 : Bytes) (c : Bytes) : Prop := c = m0 ∨ Reach G' m0 c

theorem Cone.succ {G' : List Module} {m0 a s : Bytes} (ha : Cone G' m0 a) (hs : s ∈ succs G' a) : Cone G' m0 s := by
  rcases ha with rfl | h
  · exact .inr (.step hs)
  · exact .inr (h.tail (.step hs))

/-- **Adding modules.** `P.modules` is a sub-list of `P'.modules` (order kept), names in `P'` are
distinct, the old modules see the same binaries, and nothing reachable from `m0` in the bigger graph
is new.  Then `m0` (and everything it reaches) hashes the same in both. -/
theorem hashN_sublist (H : Bytes → Bytes) (P P' : Modules) (hs : P.modules.Sublist P'.modules)
    (hnd : (P'.modules.map (·.name)).Nodup)
    (hbin : ∀ m ∈ P.modules, binaryOf P' m = binaryOf P m)
    (m0 : Bytes) (hold : ∀ c, Cone P'.modules m0 c → hasName P.modules c = true)
    (r k : Nat) (b : Bytes) (hb : Cone P'.modules m0 b) :
    hashN H P' r k b = hashN H P r k b := by
  have hfind : ∀ c, Cone P'.modules m0 c → findM P'.modules c = findM P.modules c := by
    intro c hc
    have := hold c hc
    unfold hasName at this
    cases h : findM P.modules c with
    | none => rw [h] at this; simp at this
    | some m => exact findM_sublist hs hnd h
  -- successors agree on the cone
  have hsuccs : ∀ c, Cone P'.modules m0 c → succs P'.modules c = succs P.modules c := by
    intro c hc
    unfold succs
    rw [hfind c hc]
    cases h : findM P.modules c with
    | none => rfl
    | some m =>
      have hsP' : ∀ t, t ∈ edgeTargets P'.modules m → hasName P.modules t = true := by
        intro t ht
        apply hold t
        apply hc.succ
        unfold succs; rw [hfind c hc, h]; exact ht
      show edgeTargets P'.modules m = edgeTargets P.modules m
      unfold edgeTargets
      congr 1
      · apply List.filter_congr
        intro t ht
        by_cases hne : t = []
        · simp [hne]
        · by_cases h' : hasName P'.modules t = true
          · have := hsP' t (mem_edgeTargets_input ht hne h')
            simp [h', this]
          · have : ¬ hasName P.modules t = true := fun hp => h' (hasName_sublist hs hp)
            simp [h', this]
      · cases hf : m.filter with
        | none => rfl
        | some f =>
          simp only
          by_cases h' : hasName P'.modules f.module = true
          · have := hsP' _ (mem_edgeTargets_filter hf h')
            simp [h', this]
          · have : ¬ hasName P.modules f.module = true := fun hp => h' (hasName_sublist hs hp)
            simp [h', this]
  have hreach : ∀ k a c, Cone P'.modules m0 a → reachF P'.modules k a c = reachF P.modules k a c := by
    intro k a c ha
    have := reachF_sim P.modules P'.modules id (fun _ _ h => h) (Cone P'.modules m0)
      (fun a ha => ⟨by simpa using hsuccs a ha, fun s hs' => ha.succ (by rw [hsuccs a ha]; exact hs')⟩) k a c ha
    simpa using this
  have hanc : ∀ c, Cone P'.modules m0 c → ancestorNames P'.modules r c = ancestorNames P.modules r c := by
    intro c hc
    unfold ancestorNames
    congr 1
    apply filter_sublist_eq hs (nodup_of_nodup_map _ hnd)
    · intro a ha hr
      have hca : Cone P'.modules m0 a.name := by
        rcases hc with rfl | h
        · exact .inr (reachF_sound hr)
        · exact .inr (h.tail (reachF_sound hr))
      have := hold _ hca
      unfold hasName at this
      cases h : findM P.modules a.name with
      | none => rw [h] at this; simp at this
      | some m =>
        -- the module of that name in P is also in P', names are distinct: it is `a`
        have hmP' : m ∈ P'.modules := hs.subset (findM_mem h)
        have hmn : m.name = a.name := findM_name h
        have : m = a := by
          exact inj_of_nodup_map _ hnd hmP' ha hmn
        rw [← this]; exact findM_mem h
    · intro a _
      exact (hreach r c a.name hc).symm
  apply hashN_congr H P P' r id
    (fun c => Cone P'.modules m0 c ∨ (findM P'.modules c = none ∧ findM P.modules c = none)) ?_ ?_ k b (.inl hb)
  · intro c hc
    rcases hc with hc | ⟨h1, h2⟩
    · simp only [id_eq, hfind c hc]
      cases hm : findM P.modules c with
      | none => rfl
      | some m =>
        have hname := findM_name hm
        simp only [Option.map_some, Option.some.injEq, mapH_id]
        simp only [segsOf, hbin m (findM_mem hm), hname, hanc c hc]
    · simp [h1, h2]
  · intro c m hc hm
    rcases hc with hc | ⟨_, h2⟩
    · have hname := findM_name hm
      refine ⟨fun a ha => ?_, fun f hf => ?_⟩
      · rw [hname, ← hanc c hc] at ha
        simp only [ancestorNames, List.mem_map, List.mem_filter] at ha
        obtain ⟨am, ⟨_, hr⟩, rfl⟩ := ha
        rcases hc with rfl | h
        · exact .inl (.inr (reachF_sound hr))
        · exact .inl (.inr (h.tail (reachF_sound hr)))
      · by_cases h' : hasName P'.modules f.module = true
        · refine .inl (hc.succ ?_)
          unfold succs; rw [hfind c hc, hm]; exact mem_edgeTargets_filter hf h'
        · have n1 : findM P'.modules f.module = none := by
            cases e : findM P'.modules f.module with
            | none => rfl
            | some _ => exact absurd (by simp [hasName, e]) h'
          have n2 : findM P.modules f.module = none := by
            cases e : findM P.modules f.module with
            | none => rfl
            | some x => exact absurd (hasName_sublist hs (by simp [hasName, e])) h'
          exact .inr ⟨n1, n2⟩
    · rw [h2] at hm; cases hm

/-! ## decoding the pre-image when segment lengths are known -/

theorem lblAncestors_ne_lblFilterModule : lblAncestors ≠ lblFilterModule := by decide

/-- If corresponding segments have equal lengths, equal pre-images have equal segments. -/
theorem Segs.enc_inj (s s' : Segs) (hl : s.list.map List.length = s'.list.map List.length)
    (he : s.enc = s'.enc) : s = s' := by
  have hlist := flatten_inj_of_lengths _ _ hl he
  cases s with
  | mk ib kind bty bct ins flt anc entry =>
  cases s' with
  | mk ib' kind' bty' bct' ins' flt' anc' entry' =>
    have tail : ∀ (a a' : List Bytes) (e e' : Bytes),
        a ++ [lblEntrypoint, e] = a' ++ [lblEntrypoint, e'] → a = a' ∧ e = e' := by
      intro a a' e e' h
      have := List.append_inj' h rfl
      simp only [List.cons.injEq, and_true, true_and] at this
      exact this
    cases flt with
    | none =>
      cases flt' with
      | none =>
        simp only [Segs.list, List.append_nil, List.cons_append, List.nil_append, List.cons.injEq,
          true_and] at hlist
        obtain ⟨h1, h2, h3, h4, h5, h6⟩ := hlist
        obtain ⟨h7, h8⟩ := tail _ _ _ _ h6
        simp [*]
      | some p' =>
        obtain ⟨h', q'⟩ := p'
        simp only [Segs.list, List.append_nil, List.cons_append, List.nil_append, List.cons.injEq,
          true_and] at hlist
        exact absurd hlist.2.2.2.2.2.1 lblAncestors_ne_lblFilterModule
    | some p =>
      obtain ⟨h, q⟩ := p
      cases flt' with
      | none =>
        simp only [Segs.list, List.append_nil, List.cons_append, List.nil_append, List.cons.injEq,
          true_and] at hlist
        exact absurd hlist.2.2.2.2.2.1.symm lblAncestors_ne_lblFilterModule
      | some p' =>
        obtain ⟨h', q'⟩ := p'
        simp only [Segs.list, List.cons_append, List.nil_append, List.cons.injEq,
          true_and] at hlist
        obtain ⟨h1, h2, h3, h4, h5, h6, h7, h8⟩ := hlist
        obtain ⟨h9, h10⟩ := tail _ _ _ _ h8
        simp [*]

theorem sum_map_length_const {α} (n : Nat) : ∀ (l : List (List α)), (∀ x ∈ l, x.length = n) →
    (l.map List.length).sum = n * l.length
  | [], _ => by simp
  | x :: l, h => by
    simp only [List.map_cons, List.sum_cons, List.length_cons]
    rw [sum_map_length_const n l fun y hy => h y (List.mem_cons_of_mem _ hy), h x List.mem_cons_self,
      Nat.mul_succ]
    omega

theorem map_length_const {α} (n : Nat) : ∀ (l : List (List α)), (∀ x ∈ l, x.length = n) →
    l.map List.length = List.replicate l.length n
  | [], _ => rfl
  | x :: l, h => by
    simp only [List.map_cons, List.length_cons, List.replicate_succ]
    rw [map_length_const n l fun y hy => h y (List.mem_cons_of_mem _ hy), h x List.mem_cons_self]

/-- the part of the pre-image a module contributes by itself (no hashes) -/
def ownSegs (P : Modules) (m : Module) : List Bytes :=
  [le64 m.initialBlock, kindLabel m.kind, (binaryOf P m).type, (binaryOf P m).content,
   encInputs m.inputs, queryString m, m.entrypoint]

/-- every hash has `n` bytes (SHA-1: 20) -/
def FixedLen (H : Bytes → Bytes) (n : Nat) : Prop := ∀ b, (H b).length = n

theorem hashN_length (H : Bytes → Bytes) (n : Nat) (hH : FixedLen H n) (P : Modules) (r k : Nat) (b : Bytes)
    (hb : hasName P.modules b = true) : (hashN H P r (k + 1) b).length = n := by
  unfold hasName at hb
  simp only [hashN]
  cases h : findM P.modules b with
  | none => rw [h] at hb; simp at hb
  | some m => exact hH _

/-- length of the pre-image in terms of its segments -/
theorem Segs.enc_length (s : Segs) : s.enc.length =
    (48 + s.ib.length + s.kind.length + s.bty.length + s.bct.length + s.ins.length + s.entry.length) +
    (match s.flt with | none => 0 | some p => 39 + p.1.length + p.2.length) +
    (s.anc.map List.length).sum := by
  cases s with
  | mk ib kind bty bct ins flt anc entry =>
    cases flt with
    | none =>
      simp only [Segs.enc, Segs.list, List.length_flatten, List.map_append, List.map_cons, List.map_nil,
        List.sum_append, List.sum_cons, List.sum_nil, lblInitialBlock, lblKind, lblBinary, lblInputs,
        lblAncestors, lblEntrypoint, List.length_cons, List.length_nil]
      omega
    | some p =>
      simp only [Segs.enc, Segs.list, List.length_flatten, List.map_append, List.map_cons, List.map_nil,
        List.sum_append, List.sum_cons, List.sum_nil, lblInitialBlock, lblKind, lblBinary, lblInputs,
        lblAncestors, lblEntrypoint, lblFilterModule, lblFilterQuery, List.length_cons, List.length_nil]
      omega

/-! ## sensitivity -/

/-- `H` does not collide on the two pre-images of module `b` (in `P` and in `P'`) at depth `k + 1`.
(The idealisation of collision resistance used by the sensitivity theorems; `Function.Injective H`
implies it, but no function with fixed output length is injective.) -/
def NoCollisionAt (H : Bytes → Bytes) (P P' : Modules) (r k : Nat) (b : Bytes) : Prop :=
  H (preN H P' r k b) = H (preN H P r k b) → preN H P' r k b = preN H P r k b

theorem NoCollisionAt.of_injective {H : Bytes → Bytes} (hH : ∀ a b, H a = H b → a = b) (P P' : Modules) (r k : Nat)
    (b : Bytes) : NoCollisionAt H P P' r k b := fun h => hH _ _ h

def slotLen (n k : Nat) : Nat := if k = 0 then 0 else n

theorem hashN_len (H : Bytes → Bytes) (n : Nat) (hH : FixedLen H n) (P : Modules) (r k : Nat) (a : Bytes)
    (ha : hasName P.modules a = true) : (hashN H P r k a).length = slotLen n k := by
  cases k with
  | zero => rfl
  | succ k => simpa [slotLen] using hashN_length H n hH P r k a ha

theorem hashN_len_none (H : Bytes → Bytes) (P : Modules) (r k : Nat) (a : Bytes)
    (ha : hasName P.modules a = false) : (hashN H P r k a).length = 0 := by
  unfold hasName at ha
  cases k with
  | zero => rfl
  | succ k =>
    simp only [hashN]
    cases h : findM P.modules a with
    | none => rfl
    | some m => rw [h] at ha; simp at ha

theorem hashN_len_eq (H : Bytes → Bytes) (n : Nat) (hH : FixedLen H n) (P P' : Modules) (r k : Nat) (a a' : Bytes)
    (h : hasName P.modules a = hasName P'.modules a') :
    (hashN H P r k a).length = (hashN H P' r k a').length := by
  cases e : hasName P.modules a with
  | true => rw [hashN_len H n hH P r k a e, hashN_len H n hH P' r k a' (h ▸ e)]
  | false => rw [hashN_len_none H P r k a e, hashN_len_none H P' r k a' (h ▸ e)]

theorem hasName_of_mem_ancestorNames {G : List Module} {r : Nat} {b a : Bytes}
    (h : a ∈ ancestorNames G r b) : hasName G a = true := by
  simp only [ancestorNames, List.mem_map, List.mem_filter] at h
  obtain ⟨am, ⟨hm, _⟩, rfl⟩ := h
  exact hasName_iff.2 ⟨am, hm, rfl⟩

theorem anc_slot_lengths (H : Bytes → Bytes) (n : Nat) (hH : FixedLen H n) (P : Modules) (r k : Nat) (b : Bytes) :
    ∀ x ∈ (ancestorNames P.modules r b).map (hashN H P r k), x.length = slotLen n k := by
  intro x hx
  obtain ⟨a, ha, rfl⟩ := List.mem_map.1 hx
  exact hashN_len H n hH P r k a (hasName_of_mem_ancestorNames ha)

/-- same filter presence, and the filter modules exist in both graphs or in neither -/
def FilterShape (P P' : Modules) (m m' : Module) : Prop :=
  match m.filter, m'.filter with
  | none, none => True
  | some f, some f' => hasName P.modules f.module = hasName P'.modules f'.module
  | _, _ => False

theorem preN_of_find {H : Bytes → Bytes} {P : Modules} {r k : Nat} {b : Bytes} {m : Module}
    (hm : findM P.modules b = some m) : preN H P r k b = (segsOf P r (hashN H P r k) m).enc := by
  simp [preN, hm, preimage]

theorem hashN_succ_of_find {H : Bytes → Bytes} {P : Modules} {r k : Nat} {b : Bytes} {m : Module}
    (hm : findM P.modules b = some m) : hashN H P r (k + 1) b = H (preN H P r k b) := by
  simp [hashN, preN, hm]

/-- **Own fields.** Same module name in two packages; the fields the module itself contributes
differ, and not by a mere re-splitting of the same bytes (`hshape`: either all own segments kept
their lengths or the total own length changed); the hash slots have the same shape.  Then the
hash differs (fixed-length hash without a collision on these two pre-images). -/
theorem hashN_ne_of_own (H : Bytes → Bytes) (n : Nat) (hH : FixedLen H n) (P P' : Modules) (r k : Nat) (b : Bytes)
    (m m' : Module) (hm : findM P.modules b = some m) (hm' : findM P'.modules b = some m')
    (hfs : FilterShape P P' m m')
    (hcount : (ancestorNames P'.modules r b).length = (ancestorNames P.modules r b).length)
    (hdiff : ownSegs P' m' ≠ ownSegs P m)
    (hshape : (ownSegs P' m').map List.length = (ownSegs P m).map List.length ∨
              ((ownSegs P' m').map List.length).sum ≠ ((ownSegs P m).map List.length).sum)
    (hnc : NoCollisionAt H P P' r k b) :
    hashN H P' r (k + 1) b ≠ hashN H P r (k + 1) b := by
  intro heq
  rw [hashN_succ_of_find hm, hashN_succ_of_find hm'] at heq
  have e := hnc heq
  rw [preN_of_find hm, preN_of_find hm'] at e
  have hname : m.name = b := findM_name hm
  have hname' : m'.name = b := findM_name hm'
  -- lengths of the hash slots
  have hanc := anc_slot_lengths H n hH P r k b
  have hanc' := anc_slot_lengths H n hH P' r k b
  have hsum := sum_map_length_const _ _ hanc
  have hsum' := sum_map_length_const _ _ hanc'
  have hml := map_length_const _ _ hanc
  have hml' := map_length_const _ _ hanc'
  simp only [List.length_map] at hsum hsum' hml hml'
  have L := congrArg List.length e
  rw [Segs.enc_length, Segs.enc_length] at L
  simp only [segsOf, hname, hname', hsum, hsum', hcount] at L
  -- all own lengths equal
  have hlens : (ownSegs P' m').map List.length = (ownSegs P m).map List.length := by
    rcases hshape with h | h
    · exact h
    · exfalso
      apply h
      unfold FilterShape at hfs
      simp only [ownSegs, List.map_cons, List.map_nil, List.sum_cons, List.sum_nil, queryString]
      cases hf : m.filter with
      | none =>
        cases hf' : m'.filter with
        | none => simp only [hf, hf', Option.map_none] at L ⊢; omega
        | some f' => simp [hf, hf'] at hfs
      | some f =>
        cases hf' : m'.filter with
        | none => simp [hf, hf'] at hfs
        | some f' =>
          simp only [hf, hf'] at hfs
          have := hashN_len_eq H n hH P P' r k _ _ hfs
          simp only [hf, hf', Option.map_some, queryString, this] at L ⊢
          omega
  simp only [ownSegs, List.map_cons, List.map_nil, List.cons.injEq, and_true] at hlens
  obtain ⟨l1, l2, l3, l4, l5, l6, l7⟩ := hlens
  have hseg : segsOf P' r (hashN H P' r k) m' = segsOf P r (hashN H P r k) m := by
    apply Segs.enc_inj _ _ _ e
    unfold FilterShape at hfs
    cases hf : m.filter with
    | none =>
      cases hf' : m'.filter with
      | none =>
        simp only [Segs.list, segsOf, hf, hf', Option.map_none, List.append_nil, List.map_append,
          List.map_cons, List.map_nil, List.map_map, hname, hname', l1, l2, l3, l4, l5, l7]
        simp only [← List.map_map, hml, hml', hcount]
      | some f' => simp [hf, hf'] at hfs
    | some f =>
      cases hf' : m'.filter with
      | none => simp [hf, hf'] at hfs
      | some f' =>
        simp only [hf, hf'] at hfs
        have := hashN_len_eq H n hH P P' r k _ _ hfs
        simp only [Segs.list, segsOf, hf, hf', Option.map_some, List.map_append,
          List.map_cons, List.map_nil, List.map_map, hname, hname', l1, l2, l3, l4, l5, l6, l7, this]
        simp only [← List.map_map, hml, hml', hcount]
  apply hdiff
  have hq : queryString m' = queryString m := by
    have := congrArg Segs.flt hseg
    simp only [segsOf] at this
    unfold FilterShape at hfs
    cases hf : m.filter with
    | none =>
      cases hf' : m'.filter with
      | none => simp [queryString, hf, hf']
      | some f' => simp [hf, hf'] at hfs
    | some f =>
      cases hf' : m'.filter with
      | none => simp [hf, hf'] at hfs
      | some f' =>
        simp only [hf, hf', Option.map_some, Option.some.injEq, Prod.mk.injEq] at this
        exact this.2
  have h1 := congrArg Segs.ib hseg
  have h2 := congrArg Segs.kind hseg
  have h3 := congrArg Segs.bty hseg
  have h4 := congrArg Segs.bct hseg
  have h5 := congrArg Segs.ins hseg
  have h7 := congrArg Segs.entry hseg
  simp only [segsOf] at h1 h2 h3 h4 h5 h7
  simp only [ownSegs, h1, h2, h3, h4, h5, hq, h7]

theorem segsOf_list_lengths (H : Bytes → Bytes) (n : Nat) (hH : FixedLen H n) (P P' : Modules) (r k : Nat) (b : Bytes)
    (m m' : Module) (hname : m.name = b) (hname' : m'.name = b)
    (hfs : FilterShape P P' m m')
    (hcount : (ancestorNames P'.modules r b).length = (ancestorNames P.modules r b).length)
    (hlens : (ownSegs P' m').map List.length = (ownSegs P m).map List.length) :
    (segsOf P' r (hashN H P' r k) m').list.map List.length =
      (segsOf P r (hashN H P r k) m).list.map List.length := by
  have hml := map_length_const _ _ (anc_slot_lengths H n hH P r k b)
  have hml' := map_length_const _ _ (anc_slot_lengths H n hH P' r k b)
  simp only [List.length_map] at hml hml'
  simp only [ownSegs, List.map_cons, List.map_nil, List.cons.injEq, and_true] at hlens
  obtain ⟨l1, l2, l3, l4, l5, l6, l7⟩ := hlens
  unfold FilterShape at hfs
  cases hf : m.filter with
  | none =>
    cases hf' : m'.filter with
    | none =>
      simp only [Segs.list, segsOf, hf, hf', Option.map_none, List.append_nil, List.map_append,
        List.map_cons, List.map_nil, List.map_map, hname, hname', l1, l2, l3, l4, l5, l7]
      simp only [← List.map_map, hml, hml', hcount]
    | some f' => simp [hf, hf'] at hfs
  | some f =>
    cases hf' : m'.filter with
    | none => simp [hf, hf'] at hfs
    | some f' =>
      simp only [hf, hf'] at hfs
      have := hashN_len_eq H n hH P P' r k _ _ hfs
      simp only [Segs.list, segsOf, hf, hf', Option.map_some, List.map_append,
        List.map_cons, List.map_nil, List.map_map, hname, hname', l1, l2, l3, l4, l5, l6, l7, this]
      simp only [← List.map_map, hml, hml', hcount]

/-- **Descendants.** Module `d` keeps the lengths of its own segments and its list of ancestors, and
one of those ancestors changed its hash: then `d`'s hash changes. -/
theorem hashN_ne_of_ancestor (H : Bytes → Bytes) (n : Nat) (hH : FixedLen H n) (P P' : Modules) (r k : Nat) (d : Bytes)
    (m m' : Module) (hm : findM P.modules d = some m) (hm' : findM P'.modules d = some m')
    (hfs : FilterShape P P' m m')
    (hlens : (ownSegs P' m').map List.length = (ownSegs P m).map List.length)
    (hanc : ancestorNames P'.modules r d = ancestorNames P.modules r d)
    (a : Bytes) (ha : a ∈ ancestorNames P.modules r d) (hne : hashN H P' r k a ≠ hashN H P r k a)
    (hnc : NoCollisionAt H P P' r k d) :
    hashN H P' r (k + 1) d ≠ hashN H P r (k + 1) d := by
  intro heq
  rw [hashN_succ_of_find hm, hashN_succ_of_find hm'] at heq
  have e := hnc heq
  rw [preN_of_find hm, preN_of_find hm'] at e
  have hname : m.name = d := findM_name hm
  have hname' : m'.name = d := findM_name hm'
  have hseg := Segs.enc_inj _ _
    (segsOf_list_lengths H n hH P P' r k d m m' hname hname' hfs (by rw [hanc]) hlens) e
  have h := congrArg Segs.anc hseg
  simp only [segsOf, hname, hname', hanc] at h
  exact hne (List.map_inj_left.1 h a ha)

/-! ## helpers for the per-field corollaries -/

theorem le64_inj {a b : Nat} (ha : a < 2 ^ 64) (hb : b < 2 ^ 64) (h : le64 a = le64 b) : a = b := by
  simp only [le64, List.cons.injEq, and_true] at h
  obtain ⟨h0, h1, h2, h3, h4, h5, h6, h7⟩ := h
  have e0 := congrArg UInt8.toNat h0
  have e1 := congrArg UInt8.toNat h1
  have e2 := congrArg UInt8.toNat h2
  have e3 := congrArg UInt8.toNat h3
  have e4 := congrArg UInt8.toNat h4
  have e5 := congrArg UInt8.toNat h5
  have e6 := congrArg UInt8.toNat h6
  have e7 := congrArg UInt8.toNat h7
  simp only [UInt8.toNat_ofNat'] at e0 e1 e2 e3 e4 e5 e6 e7
  omega

theorem le64_length (a : Nat) : (le64 a).length = 8 := rfl

/-- two lists of segments that differ in one position only: they differ, and either all lengths
agree or the total length differs -/
theorem single_diff {pre post : List Bytes} {u v : Bytes} (h : u ≠ v) :
    (pre ++ u :: post ≠ pre ++ v :: post) ∧
    (((pre ++ u :: post).map List.length = (pre ++ v :: post).map List.length) ∨
     (((pre ++ u :: post).map List.length).sum ≠ ((pre ++ v :: post).map List.length).sum)) := by
  refine ⟨fun e => h (by simpa using e), ?_⟩
  by_cases hl : u.length = v.length
  · left; simp [hl]
  · right
    simp only [List.map_append, List.map_cons, List.sum_append, List.sum_cons]
    omega

/-- editing module `x` without changing its outgoing edges leaves every ancestor list unchanged -/
theorem ancestorNames_setModule_sameEdges (G : List Module) (x : Bytes) (mx mx' : Module)
    (hx : findM G x = some mx) (hn : mx'.name = x) (he : edgeTargets G mx' = edgeTargets G mx) (r : Nat) (b : Bytes) :
    ancestorNames (G.map fun m => if m.name = x then mx' else m) r b = ancestorNames G r b := by
  have hsuccs : ∀ a, succs (G.map fun m => if m.name = x then mx' else m) a = succs G a := by
    intro a
    by_cases ha : a = x
    · subst ha
      unfold succs
      rw [findM_setModule G _ mx' hn, hx]
      simp only [Option.map_some, findM_name hx, if_true]
      rw [edgeTargets_congr_hasName _ _ _ (hasName_setModule G _ mx' hn), he]
    · exact succs_setModule_ne G x mx' hn a ha
  have hreach : ∀ k a c, reachF (G.map fun m => if m.name = x then mx' else m) k a c = reachF G k a c := by
    intro k a c
    have := reachF_sim G (G.map fun m => if m.name = x then mx' else m) id (fun _ _ h => h) (fun _ => True)
      (fun a _ => ⟨by simpa using hsuccs a, fun _ _ => trivial⟩) k a c trivial
    simpa using this
  unfold ancestorNames
  rw [List.filter_map, List.map_map]
  have : ((fun a => reachF (G.map fun m => if m.name = x then mx' else m) r b a.name) ∘
      fun m => if m.name = x then mx' else m) = fun a => reachF G r b a.name := by
    funext a
    simp only [Function.comp_apply, setModule_map_name x mx' hn, hreach]
  rw [this]
  apply List.map_congr_left
  intro a _
  simp [setModule_map_name x mx' hn]

/-- `edgeTargets` only reads the reference strings of the inputs and the filter module -/
theorem edgeTargets_congr_refs (G : List Module) (m m' : Module)
    (hi : m'.inputs.map inputRef = m.inputs.map inputRef)
    (hf : m'.filter.map (·.module) = m.filter.map (·.module)) : edgeTargets G m' = edgeTargets G m := by
  unfold edgeTargets
  rw [hi]
  congr 1
  cases h : m.filter with
  | none => cases h' : m'.filter with
    | none => rfl
    | some f' => simp [h, h'] at hf
  | some f => cases h' : m'.filter with
    | none => simp [h, h'] at hf
    | some f' =>
      simp only [h, h', Option.map_some, Option.some.injEq] at hf
      simp [hf]

/-! ## left-to-right decoding up to the inputs (no assumption on the hash lengths) -/

/-- what follows the inputs in the pre-image -/
def Segs.tail (s : Segs) : Bytes :=
  ((match s.flt with
    | none => []
    | some (h, q) => [lblFilterModule, h, lblFilterQuery, q]) ++
   [lblAncestors] ++ s.anc ++ [lblEntrypoint, s.entry]).flatten

theorem Segs.enc_split (s : Segs) :
    s.enc = lblInitialBlock ++ (s.ib ++ (lblKind ++ (s.kind ++ (lblBinary ++ (s.bty ++ (s.bct ++
      (lblInputs ++ (s.ins ++ s.tail)))))))) := by
  cases s with
  | mk ib kind bty bct ins flt anc entry =>
    cases flt <;> simp [Segs.enc, Segs.list, Segs.tail, List.flatten_append]

theorem Segs.tail_head (s : Segs) : ∃ t, s.tail = 98 :: t ∨ s.tail = 97 :: t := by
  cases s with
  | mk ib kind bty bct ins flt anc entry =>
    cases flt with
    | none => exact ⟨_, .inr rfl⟩
    | some p => exact ⟨_, .inl rfl⟩

/-- kind of an input as a number (source 0, params 1, map 2, store 3, unset 4) -/
def Input.tag : Input → Nat
  | .source _ => 0 | .params _ => 1 | .map _ => 2 | .store _ _ => 3 | .unset => 4

theorem encInput_incompat (i i' : Input) (ht : i.tag ≠ i'.tag) (h1 : i ≠ .unset) (h2 : i' ≠ .unset) (u v : Bytes) :
    encInput i ++ u ≠ encInput i' ++ v := by
  cases i <;> cases i' <;>
    first
    | exact absurd rfl ht
    | exact absurd rfl h1
    | exact absurd rfl h2
    | simp [encInput, lblSource, lblParams, lblMap, lblStore]

theorem encInput_head (i : Input) (h : i ≠ .unset) : ∃ c t, encInput i = c :: t ∧ c ≠ 98 ∧ c ≠ 97 := by
  cases i with
  | source t => exact ⟨115, _, rfl, by decide, by decide⟩
  | params t => exact ⟨112, _, rfl, by decide, by decide⟩
  | map t => exact ⟨109, _, rfl, by decide, by decide⟩
  | store t m => exact ⟨115, _, rfl, by decide, by decide⟩
  | unset => exact absurd rfl h

/-- how two input lists part after a common prefix: a different kind at the first difference, or
one list ends where the other goes on -/
inductive Diverge : List Input → List Input → Prop
  | kind (i i' : Input) (R R' : List Input) : i.tag ≠ i'.tag → i ≠ .unset → i' ≠ .unset → Diverge (i :: R) (i' :: R')
  | more (j : Input) (R' : List Input) : j ≠ .unset → Diverge [] (j :: R')
  | fewer (j : Input) (R : List Input) : j ≠ .unset → Diverge (j :: R) []

theorem enc_ne_of_diverge (s s' : Segs) (hib : s.ib = s'.ib) (hk : s.kind = s'.kind) (hbt : s.bty = s'.bty)
    (hbc : s.bct = s'.bct) (C R R' : List Input) (hi : s.ins = encInputs (C ++ R)) (hi' : s'.ins = encInputs (C ++ R'))
    (hd : Diverge R R') : s.enc ≠ s'.enc := by
  intro e
  rw [Segs.enc_split, Segs.enc_split, hib, hk, hbt, hbc, hi, hi'] at e
  simp only [encInputs, List.map_append, List.flatten_append, List.append_assoc] at e
  have e' := List.append_cancel_left (List.append_cancel_left (List.append_cancel_left (List.append_cancel_left
    (List.append_cancel_left (List.append_cancel_left (List.append_cancel_left (List.append_cancel_left
    (List.append_cancel_left e))))))))
  cases hd with
  | kind i i' R R' ht h1 h2 =>
    simp only [List.map_cons, List.flatten_cons, List.append_assoc] at e'
    exact encInput_incompat i i' ht h1 h2 _ _ e'
  | more j R' hj =>
    obtain ⟨c, t, hc, n1, n2⟩ := encInput_head j hj
    obtain ⟨t', ht'⟩ := s.tail_head
    simp only [List.map_nil, List.flatten_nil, List.nil_append, List.map_cons, List.flatten_cons,
      List.append_assoc, hc, List.cons_append] at e'
    rcases ht' with h | h <;> rw [h] at e' <;> simp only [List.cons.injEq] at e'
    · exact n1 e'.1.symm
    · exact n2 e'.1.symm
  | fewer j R hj =>
    obtain ⟨c, t, hc, n1, n2⟩ := encInput_head j hj
    obtain ⟨t', ht'⟩ := s'.tail_head
    simp only [List.map_nil, List.flatten_nil, List.nil_append, List.map_cons, List.flatten_cons,
      List.append_assoc, hc, List.cons_append] at e'
    rcases ht' with h | h <;> rw [h] at e' <;> simp only [List.cons.injEq] at e'
    · exact n1 e'.1
    · exact n2 e'.1

/-! ## alias import = prefix (rename) + re-index + merge (add) -/

theorem renameInput_id (i : Input) : renameInput id i = i := by cases i <;> rfl

theorem findM_of_mem_nodup {G : List Module} (hnd : (G.map (·.name)).Nodup) {m : Module} (hm : m ∈ G) :
    findM G m.name = some m := by
  induction G with
  | nil => simp at hm
  | cons a G ih =>
    simp only [List.map_cons, List.nodup_cons] at hnd
    simp only [findM]
    rcases List.mem_cons.1 hm with rfl | h
    · simp
    · have : a.name ≠ m.name := fun e => hnd.1 (e ▸ List.mem_map_of_mem h)
      simp only [this, if_false]
      exact ih hnd.2 h

/-- the module map of `importPkg`: prefix, then shift the binary index -/
def importMap (alias : Bytes) (base : Nat) (m : Module) : Module :=
  { renameModule (withPrefix alias) m with binaryIndex := m.binaryIndex + base }

theorem importPkg_eq (alias : Bytes) (src dest : Modules) :
    importPkg alias src dest =
      ⟨dest.modules ++ src.modules.map (importMap alias dest.binaries.length), dest.binaries ++ src.binaries⟩ := by
  simp [importPkg, reindexAndMerge, prefixModules, rename, List.map_map, Function.comp_def, importMap, renameModule]

theorem withPrefix_inj (alias : Bytes) (a b : Bytes) (h : withPrefix alias a = withPrefix alias b) : a = b := by
  simpa [withPrefix] using h

theorem withPrefix_ne_nil (alias t : Bytes) : withPrefix alias t ≠ [] := by simp [withPrefix]

/-- hypotheses of the alias-import theorem -/
structure ImportOK (alias : Bytes) (src dest : Modules) : Prop where
  /-- `ValidateModules`: module names are not empty -/
  nonempty : NonEmptyNames src.modules
  /-- the importing package has no module called `alias:…` -/
  fresh : ∀ d ∈ dest.modules, ∀ t, d.name ≠ withPrefix alias t
  /-- module names of the merged package are distinct (`ValidateModules`) -/
  nodup : ((importPkg alias src dest).modules.map (·.name)).Nodup

theorem hashN_importPkg (H : Bytes → Bytes) (alias : Bytes) (src dest : Modules) (ok : ImportOK alias src dest)
    (r k : Nat) (b : Bytes) (hb : hasName src.modules b = true) :
    hashN H (importPkg alias src dest) r k (withPrefix alias b) = hashN H src r k b := by
  let ρ := withPrefix alias
  let f := importMap alias dest.binaries.length
  let X : Modules := ⟨src.modules.map f, dest.binaries ++ src.binaries⟩
  have hP' : importPkg alias src dest = ⟨dest.modules ++ X.modules, X.binaries⟩ := importPkg_eq alias src dest
  have hρ : ∀ a b, ρ a = ρ b → a = b := withPrefix_inj alias
  have hf : GraphMap ρ f := ⟨fun _ => rfl, fun _ => rfl, fun _ => rfl⟩
  have hsub : X.modules.Sublist (importPkg alias src dest).modules := by
    rw [hP']; exact List.sublist_append_right _ _
  have hneX : NonEmptyNames X.modules := by
    intro m hm
    obtain ⟨m0, _, rfl⟩ := List.mem_map.1 hm
    exact withPrefix_ne_nil alias _
  -- step 1: prefixing and shifting the binary index
  have step1 : hashN H X r k (ρ b) = hashN H src r k b := by
    apply hashN_graphMap H src (dest.binaries ++ src.binaries) ρ f hρ hf ?_ ok.nonempty hneX
    refine ⟨fun _ => rfl, fun _ => rfl, fun _ => rfl, fun m _ => ?_⟩
    simp [binaryOf, f, importMap, List.getElem?_append_right]
  -- step 2: the importing package's own modules are not reachable from the imported ones
  have hXname : ∀ c, hasName X.modules c = true → ∃ m ∈ src.modules, c = ρ m.name := by
    intro c hc
    obtain ⟨fm, hfm, rfl⟩ := hasName_iff.1 hc
    obtain ⟨m, hm, rfl⟩ := List.mem_map.1 hfm
    exact ⟨m, hm, rfl⟩
  have hnotdest : ∀ t, hasName (importPkg alias src dest).modules (ρ t) = true → hasName X.modules (ρ t) = true := by
    intro t ht
    obtain ⟨m, hm, hn⟩ := hasName_iff.1 ht
    rw [hP'] at hm
    rcases List.mem_append.1 hm with hd | hx
    · exact absurd hn (ok.fresh m hd t)
    · exact hasName_iff.2 ⟨m, hx, hn⟩
  have hclosed : ∀ a, hasName X.modules a = true → ∀ s ∈ succs (importPkg alias src dest).modules a,
      hasName X.modules s = true := by
    intro a ha s hs
    obtain ⟨m, hm, rfl⟩ := hXname a ha
    have hfm : f m ∈ (importPkg alias src dest).modules := hsub.subset (List.mem_map_of_mem hm)
    have hfind := findM_of_mem_nodup ok.nodup hfm
    unfold succs at hs
    rw [show ρ m.name = (f m).name from rfl, hfind] at hs
    unfold edgeTargets at hs
    rcases List.mem_append.1 hs with hi | hfl
    · simp only [List.mem_filter, List.mem_map, Bool.and_eq_true, decide_eq_true_eq] at hi
      obtain ⟨⟨i', hi', rfl⟩, _, hhas⟩ := hi
      have : i' ∈ m.inputs.map (renameInput ρ) := hi'
      obtain ⟨i, hi, rfl⟩ := List.mem_map.1 this
      cases i with
      | map t => exact hnotdest t hhas
      | store t mode => exact hnotdest t hhas
      | source t => simp [renameInput, inputRef] at *
      | params t => simp [renameInput, inputRef] at *
      | unset => simp [renameInput, inputRef] at *
    · have hflt : (f m).filter = m.filter.map fun x => { x with module := ρ x.module } := rfl
      rw [hflt] at hfl
      cases hmf : m.filter with
      | none => rw [hmf] at hfl; simp at hfl
      | some x =>
        rw [hmf] at hfl
        simp only [Option.map_some] at hfl
        split at hfl
        · rename_i hh
          simp only [List.mem_singleton] at hfl
          subst hfl
          exact hnotdest _ hh
        · simp at hfl
  have hbX : hasName X.modules (ρ b) = true := by
    rw [show X.modules = src.modules.map f from rfl, hasName_map ρ f hρ hf.name]; exact hb
  have step2 : hashN H (importPkg alias src dest) r k (ρ b) = hashN H X r k (ρ b) := by
    apply hashN_sublist H X (importPkg alias src dest) hsub ok.nodup ?_ (ρ b) ?_ r k (ρ b) (.inl rfl)
    · intro m _; rw [hP']; rfl
    · intro c hc
      rcases hc with rfl | h
      · exact hbX
      · exact Reach.closed (fun c => hasName X.modules c = true) hclosed h hbX
  exact step2.trans step1

/-! ## single-field edits -/

/-- what the sensitivity theorems need to know about an edit `m ↦ m'` of one module of `P` -/
structure EditFacts (P : Modules) (m m' : Module) : Prop where
  name : m'.name = m.name
  /-- the edit does not change the module's dependency edges -/
  edges : edgeTargets P.modules m' = edgeTargets P.modules m
  flt : m'.filter.map (·.module) = m.filter.map (·.module)
  /-- the module's own contribution to the pre-image changes … -/
  diff : ownSegs P m' ≠ ownSegs P m
  /-- … and not by a re-splitting of the same bytes between adjacent unframed fields -/
  shape : (ownSegs P m').map List.length = (ownSegs P m).map List.length ∨
          ((ownSegs P m').map List.length).sum ≠ ((ownSegs P m).map List.length).sum

theorem encInputs_append (a b : List Input) : encInputs (a ++ b) = encInputs a ++ encInputs b := by
  simp [encInputs]

theorem encInputs_cons (i : Input) (b : List Input) : encInputs (i :: b) = encInput i ++ encInputs b := by
  simp [encInputs]

theorem encInputs_ne_of_value (pre post : List Input) (i i' : Input) (l v v' : Bytes)
    (hi : encInput i = l ++ v) (hi' : encInput i' = l ++ v') (hv : v' ≠ v) :
    encInputs (pre ++ i' :: post) ≠ encInputs (pre ++ i :: post) := by
  intro e
  rw [encInputs_append, encInputs_append, encInputs_cons, encInputs_cons, hi, hi'] at e
  have := List.append_cancel_left e
  rw [List.append_assoc, List.append_assoc] at this
  exact hv (List.append_cancel_right (List.append_cancel_left this))

theorem inputRef_map_value (pre post : List Input) (i i' : Input) (h : inputRef i' = inputRef i) :
    (pre ++ i' :: post).map inputRef = (pre ++ i :: post).map inputRef := by
  simp [h]

/-- the single-field edits of the property that keep the shape of the dependency graph -/
inductive FieldEdit (P : Modules) : Module → Module → Prop
  /-- the initial block (a `uint64`) -/
  | initialBlock (m : Module) (ib' : Nat) : m.initialBlock < 2 ^ 64 → ib' < 2 ^ 64 → ib' ≠ m.initialBlock →
      FieldEdit P m { m with initialBlock := ib' }
  /-- the kind (map / store / block index) -/
  | kind (m : Module) (k' : Kind) : kindLabel k' ≠ kindLabel m.kind → FieldEdit P m { m with kind := k' }
  /-- another binary with a different type, same content -/
  | binaryType (m : Module) (i' : Nat) :
      (binaryOf P { m with binaryIndex := i' }).type ≠ (binaryOf P m).type →
      (binaryOf P { m with binaryIndex := i' }).content = (binaryOf P m).content →
      FieldEdit P m { m with binaryIndex := i' }
  /-- another binary with different content, same type -/
  | binaryContent (m : Module) (i' : Nat) :
      (binaryOf P { m with binaryIndex := i' }).content ≠ (binaryOf P m).content →
      (binaryOf P { m with binaryIndex := i' }).type = (binaryOf P m).type →
      FieldEdit P m { m with binaryIndex := i' }
  /-- the entrypoint -/
  | entrypoint (m : Module) (e' : Bytes) : e' ≠ m.entrypoint → FieldEdit P m { m with entrypoint := e' }
  /-- the value of a params input (the filter query is not taken from this value) -/
  | paramsValue (m : Module) (pre post : List Input) (v v' : Bytes) :
      m.inputs = pre ++ .params v :: post → v' ≠ v →
      queryString { m with inputs := pre ++ .params v' :: post } = queryString m →
      FieldEdit P m { m with inputs := pre ++ .params v' :: post }
  /-- the type of a source input -/
  | sourceType (m : Module) (pre post : List Input) (t t' : Bytes) :
      m.inputs = pre ++ .source t :: post → t' ≠ t →
      FieldEdit P m { m with inputs := pre ++ .source t' :: post }
  /-- the block-filter query (same filter module) -/
  | filterQuery (m : Module) (f : Filter) (q' : FQuery) : m.filter = some f →
      queryString { m with filter := some { f with query := q' } } ≠ queryString m →
      FieldEdit P m { m with filter := some { f with query := q' } }

theorem firstParams_source (pre post : List Input) (t t' : Bytes) :
    firstParams (pre ++ .source t' :: post) = firstParams (pre ++ .source t :: post) := by
  induction pre with
  | nil => rfl
  | cons i pre ih => cases i <;> simp [firstParams, ih]

theorem FieldEdit.facts {P : Modules} {m m' : Module} (h : FieldEdit P m m') : EditFacts P m m' := by
  cases h with
  | initialBlock ib' h1 h2 h3 =>
    have hne : le64 ib' ≠ le64 m.initialBlock := fun e => h3 (le64_inj h2 h1 e)
    have := single_diff (pre := []) (post := [kindLabel m.kind, (binaryOf P m).type, (binaryOf P m).content,
      encInputs m.inputs, queryString m, m.entrypoint]) hne
    exact ⟨rfl, edgeTargets_congr_refs _ _ _ rfl rfl, rfl, this.1, this.2⟩
  | kind k' h1 =>
    have := single_diff (pre := [le64 m.initialBlock]) (post := [(binaryOf P m).type, (binaryOf P m).content,
      encInputs m.inputs, queryString m, m.entrypoint]) h1
    exact ⟨rfl, edgeTargets_congr_refs _ _ _ rfl rfl, rfl, this.1, this.2⟩
  | binaryType i' h1 h2 =>
    have := single_diff (pre := [le64 m.initialBlock, kindLabel m.kind]) (post := [(binaryOf P m).content,
      encInputs m.inputs, queryString m, m.entrypoint]) h1
    have hown : ownSegs P { m with binaryIndex := i' } = [le64 m.initialBlock, kindLabel m.kind] ++
        (binaryOf P { m with binaryIndex := i' }).type :: [(binaryOf P m).content, encInputs m.inputs,
          queryString m, m.entrypoint] := by
      simp only [ownSegs, h2, List.cons_append, List.nil_append]; rfl
    exact ⟨rfl, edgeTargets_congr_refs _ _ _ rfl rfl, rfl, by rw [hown]; exact this.1, by rw [hown]; exact this.2⟩
  | binaryContent i' h1 h2 =>
    have := single_diff (pre := [le64 m.initialBlock, kindLabel m.kind, (binaryOf P m).type])
      (post := [encInputs m.inputs, queryString m, m.entrypoint]) h1
    have hown : ownSegs P { m with binaryIndex := i' } = [le64 m.initialBlock, kindLabel m.kind, (binaryOf P m).type] ++
        (binaryOf P { m with binaryIndex := i' }).content :: [encInputs m.inputs, queryString m, m.entrypoint] := by
      simp only [ownSegs, h2, List.cons_append, List.nil_append]; rfl
    exact ⟨rfl, edgeTargets_congr_refs _ _ _ rfl rfl, rfl, by rw [hown]; exact this.1, by rw [hown]; exact this.2⟩
  | entrypoint e' h1 =>
    have := single_diff (pre := [le64 m.initialBlock, kindLabel m.kind, (binaryOf P m).type,
      (binaryOf P m).content, encInputs m.inputs, queryString m]) (post := []) h1
    exact ⟨rfl, edgeTargets_congr_refs _ _ _ rfl rfl, rfl, this.1, this.2⟩
  | paramsValue pre post v v' hm hv hq =>
    have hne : encInputs (pre ++ .params v' :: post) ≠ encInputs m.inputs := by
      rw [hm]; exact encInputs_ne_of_value pre post (.params v) (.params v') lblParams v v' rfl rfl hv
    have := single_diff (pre := [le64 m.initialBlock, kindLabel m.kind, (binaryOf P m).type,
      (binaryOf P m).content]) (post := [queryString m, m.entrypoint]) hne
    have hown : ownSegs P { m with inputs := pre ++ .params v' :: post } =
        [le64 m.initialBlock, kindLabel m.kind, (binaryOf P m).type, (binaryOf P m).content] ++
        encInputs (pre ++ .params v' :: post) :: [queryString m, m.entrypoint] := by
      simp only [ownSegs, hq, List.cons_append, List.nil_append]; rfl
    exact ⟨rfl, edgeTargets_congr_refs _ _ _ (by rw [hm]; exact inputRef_map_value pre post (.params v) (.params v') rfl) rfl, rfl,
      by rw [hown]; exact this.1, by rw [hown]; exact this.2⟩
  | sourceType pre post t t' hm ht =>
    have hne : encInputs (pre ++ .source t' :: post) ≠ encInputs m.inputs := by
      rw [hm]; exact encInputs_ne_of_value pre post (.source t) (.source t') lblSource t t' rfl rfl ht
    have hq : queryString { m with inputs := pre ++ .source t' :: post } = queryString m := by
      unfold queryString
      simp only [hm, firstParams_source pre post t t']
    have := single_diff (pre := [le64 m.initialBlock, kindLabel m.kind, (binaryOf P m).type,
      (binaryOf P m).content]) (post := [queryString m, m.entrypoint]) hne
    have hown : ownSegs P { m with inputs := pre ++ .source t' :: post } =
        [le64 m.initialBlock, kindLabel m.kind, (binaryOf P m).type, (binaryOf P m).content] ++
        encInputs (pre ++ .source t' :: post) :: [queryString m, m.entrypoint] := by
      simp only [ownSegs, hq, List.cons_append, List.nil_append]; rfl
    exact ⟨rfl, edgeTargets_congr_refs _ _ _ (by rw [hm]; exact inputRef_map_value pre post (.source t) (.source t') rfl) rfl, rfl,
      by rw [hown]; exact this.1, by rw [hown]; exact this.2⟩
  | filterQuery f q' hf hq =>
    have := single_diff (pre := [le64 m.initialBlock, kindLabel m.kind, (binaryOf P m).type,
      (binaryOf P m).content, encInputs m.inputs]) (post := [m.entrypoint]) hq
    exact ⟨rfl, edgeTargets_congr_refs _ _ _ rfl (by simp [hf]), by simp [hf], this.1, this.2⟩

/-! ## own-field sensitivity when the hash slots are known to have equal lengths (no `FixedLen`) -/

theorem hashN_ne_of_own_gen (H : Bytes → Bytes) (P P' : Modules) (r k : Nat) (b : Bytes)
    (m m' : Module) (hm : findM P.modules b = some m) (hm' : findM P'.modules b = some m')
    (hpres : m.filter.isSome = m'.filter.isSome)
    (hfl : ∀ f f', m.filter = some f → m'.filter = some f' →
      (hashN H P' r k f'.module).length = (hashN H P r k f.module).length)
    (hal : ((ancestorNames P'.modules r b).map (hashN H P' r k)).map List.length =
           ((ancestorNames P.modules r b).map (hashN H P r k)).map List.length)
    (hdiff : ownSegs P' m' ≠ ownSegs P m)
    (hshape : (ownSegs P' m').map List.length = (ownSegs P m).map List.length ∨
              ((ownSegs P' m').map List.length).sum ≠ ((ownSegs P m).map List.length).sum)
    (hnc : NoCollisionAt H P P' r k b) :
    hashN H P' r (k + 1) b ≠ hashN H P r (k + 1) b := by
  intro heq
  rw [hashN_succ_of_find hm, hashN_succ_of_find hm'] at heq
  have e := hnc heq
  rw [preN_of_find hm, preN_of_find hm'] at e
  have hname : m.name = b := findM_name hm
  have hname' : m'.name = b := findM_name hm'
  have hsumeq := congrArg List.sum hal
  have L := congrArg List.length e
  rw [Segs.enc_length, Segs.enc_length] at L
  simp only [segsOf, hname, hname', hsumeq] at L
  have hlens : (ownSegs P' m').map List.length = (ownSegs P m).map List.length := by
    rcases hshape with h | h
    · exact h
    · exfalso
      apply h
      simp only [ownSegs, List.map_cons, List.map_nil, List.sum_cons, List.sum_nil, queryString]
      cases hf : m.filter with
      | none =>
        cases hf' : m'.filter with
        | none => simp only [hf, hf', Option.map_none] at L ⊢; omega
        | some f' => simp [hf, hf'] at hpres
      | some f =>
        cases hf' : m'.filter with
        | none => simp [hf, hf'] at hpres
        | some f' =>
          have := hfl f f' hf hf'
          simp only [hf, hf', Option.map_some, queryString, this] at L ⊢
          omega
  simp only [ownSegs, List.map_cons, List.map_nil, List.cons.injEq, and_true] at hlens
  obtain ⟨l1, l2, l3, l4, l5, l6, l7⟩ := hlens
  have hseg : segsOf P' r (hashN H P' r k) m' = segsOf P r (hashN H P r k) m := by
    apply Segs.enc_inj _ _ _ e
    cases hf : m.filter with
    | none =>
      cases hf' : m'.filter with
      | none =>
        simp only [Segs.list, segsOf, hf, hf', Option.map_none, List.append_nil, List.map_append,
          List.map_cons, List.map_nil, hname, hname', l1, l2, l3, l4, l5, l7, hal]
      | some f' => simp [hf, hf'] at hpres
    | some f =>
      cases hf' : m'.filter with
      | none => simp [hf, hf'] at hpres
      | some f' =>
        have := hfl f f' hf hf'
        simp only [Segs.list, segsOf, hf, hf', Option.map_some, List.map_append,
          List.map_cons, List.map_nil, hname, hname', l1, l2, l3, l4, l5, l6, l7, this, hal]
  apply hdiff
  have hq : queryString m' = queryString m := by
    have := congrArg Segs.flt hseg
    simp only [segsOf] at this
    cases hf : m.filter with
    | none =>
      cases hf' : m'.filter with
      | none => simp [queryString, hf, hf']
      | some f' => simp [hf, hf'] at hpres
    | some f =>
      cases hf' : m'.filter with
      | none => simp [hf, hf'] at hpres
      | some f' =>
        simp only [hf, hf', Option.map_some, Option.some.injEq, Prod.mk.injEq] at this
        exact this.2
  have h1 := congrArg Segs.ib hseg
  have h2 := congrArg Segs.kind hseg
  have h3 := congrArg Segs.bty hseg
  have h4 := congrArg Segs.bct hseg
  have h5 := congrArg Segs.ins hseg
  have h7 := congrArg Segs.entry hseg
  simp only [segsOf] at h1 h2 h3 h4 h5 h7
  simp only [ownSegs, h1, h2, h3, h4, h5, hq, h7]

theorem length_ge_two_of_two_names {G : List Module} {a b : Bytes} {ma mb : Module}
    (ha : findM G a = some ma) (hb : findM G b = some mb) (hne : a ≠ b) : 2 ≤ G.length := by
  have h1 := findM_mem ha
  have h2 := findM_mem hb
  have hn : ma ≠ mb := fun e => hne (by rw [← findM_name ha, ← findM_name hb, e])
  match G, h1, h2 with
  | [], h1, _ => simp at h1
  | [x], h1, h2 =>
    simp only [List.mem_singleton] at h1 h2
    exact absurd (h1.trans h2.symm) hn
  | _ :: _ :: _, _, _ => simp

/-! ## edits the pre-image cannot see -/

theorem any_congr_set {α} (l l' : List α) (p : α → Bool) (h : ∀ x, x ∈ l' ↔ x ∈ l) : l'.any p = l.any p := by
  rw [Bool.eq_iff_iff, List.any_eq_true, List.any_eq_true]
  constructor
  · rintro ⟨x, hx, hp⟩; exact ⟨x, (h x).1 hx, hp⟩
  · rintro ⟨x, hx, hp⟩; exact ⟨x, (h x).2 hx, hp⟩

theorem reachF_congr_set (G G' : List Module) (h : ∀ a s, s ∈ succs G' a ↔ s ∈ succs G a) :
    ∀ k a b, reachF G' k a b = reachF G k a b := by
  intro k
  induction k with
  | zero => intros; rfl
  | succ k ih =>
    intro a b
    simp only [reachF]
    rw [any_congr_set (succs G a) (succs G' a) _ (h a)]
    apply any_congr_mem
    intro s _
    rw [ih]

/-- An edit of module `x` that keeps its name, its encoded own fields, the *set* of its dependency
edges and its filter module is invisible: **every** hash of the package stays the same. -/
theorem hashN_setModule_sameView (H : Bytes → Bytes) (P : Modules) (x : Bytes) (mx mx' : Module)
    (hx : findM P.modules x = some mx) (hn : mx'.name = x)
    (hown : ownSegs P mx' = ownSegs P mx)
    (hflt : mx'.filter.map (·.module) = mx.filter.map (·.module))
    (hedges : ∀ t, t ∈ edgeTargets P.modules mx' ↔ t ∈ edgeTargets P.modules mx)
    (r k : Nat) (b : Bytes) : hashN H (setModule P x mx') r k b = hashN H P r k b := by
  have hsuccs : ∀ a s, s ∈ succs (P.modules.map fun m => if m.name = x then mx' else m) a ↔ s ∈ succs P.modules a := by
    intro a s
    by_cases ha : a = x
    · subst ha
      unfold succs
      rw [findM_setModule P.modules _ mx' hn, hx]
      simp only [Option.map_some, findM_name hx, if_true]
      rw [edgeTargets_congr_hasName _ _ _ (hasName_setModule P.modules _ mx' hn)]
      exact hedges s
    · rw [succs_setModule_ne P.modules x mx' hn a ha]
  have hreach := reachF_congr_set P.modules _ hsuccs
  have hanc : ∀ b, ancestorNames (P.modules.map fun m => if m.name = x then mx' else m) r b = ancestorNames P.modules r b := by
    intro b
    unfold ancestorNames
    rw [List.filter_map, List.map_map]
    have : ((fun a => reachF (P.modules.map fun m => if m.name = x then mx' else m) r b a.name) ∘
        fun m => if m.name = x then mx' else m) = fun a => reachF P.modules r b a.name := by
      funext a
      simp only [Function.comp_apply, setModule_map_name x mx' hn, hreach]
    rw [this]
    apply List.map_congr_left
    intro a _
    simp [setModule_map_name x mx' hn]
  apply hashN_congr H P (setModule P x mx') r id (fun _ => True) ?_ ?_ k b trivial
  · intro b _
    show (findM (P.modules.map _) b).map _ = _
    rw [findM_setModule P.modules x mx' hn, Option.map_map]
    cases hm : findM P.modules b with
    | none => rfl
    | some m =>
      simp only [Option.map_some, Function.comp_apply, Option.some.injEq, mapH_id]
      by_cases hmx : m.name = x
      · have hbx : b = x := by rw [← findM_name hm, hmx]
        subst hbx
        have hmm : m = mx := by rw [hx] at hm; cases hm; rfl
        subst hmm
        simp only [hmx, if_true]
        simp only [ownSegs, List.cons.injEq, and_true] at hown
        obtain ⟨h1, h2, h3, h4, h5, h6, h7⟩ := hown
        have hbin : ∀ (ms : List Module) (m0 : Module), binaryOf ⟨ms, P.binaries⟩ m0 = binaryOf P m0 :=
          fun _ _ => rfl
        have hfl : mx'.filter.map (fun f => (id f.module, queryString mx')) =
            m.filter.map (fun f => (id f.module, queryString m)) := by
          cases hf : m.filter with
          | none => cases hf' : mx'.filter with
            | none => rfl
            | some f' => simp [hf, hf'] at hflt
          | some f => cases hf' : mx'.filter with
            | none => simp [hf, hf'] at hflt
            | some f' =>
              simp only [hf, hf', Option.map_some, Option.some.injEq] at hflt
              simp [hflt, h6]
        simp only [segsOf, setModule, hbin, h1, h2, h3, h4, h5, h7, hfl, hn, hmx, hanc]
      · simp only [hmx, if_false]
        simp only [segsOf, setModule, binaryOf, hanc]
  · intros; exact ⟨fun _ _ => trivial, fun _ _ => trivial⟩

/-! ## small helpers used by Props/C06 -/

/-- a map or store input -/
def isModuleInput : Input → Bool
  | .map _ => true
  | .store _ _ => true
  | _ => false

theorem findM_set_self {P : Modules} {x : Bytes} {mx mx' : Module} (hx : findM P.modules x = some mx)
    (hn : mx'.name = x) : findM (setModule P x mx').modules x = some mx' := by
  simp [setModule, findM_setModule _ _ _ hn, hx, findM_name hx]

theorem findM_set_other {P : Modules} {x d : Bytes} {mx' md : Module} (hd : findM P.modules d = some md)
    (hn : mx'.name = x) (hdx : d ≠ x) : findM (setModule P x mx').modules d = some md := by
  have : md.name ≠ x := by rw [findM_name hd]; exact hdx
  simp [setModule, findM_setModule _ _ _ hn, hd, this]

theorem filterShape_of_flt {P : Modules} {x : Bytes} {m m' mx' : Module} (hn : mx'.name = x)
    (h : m'.filter.map (·.module) = m.filter.map (·.module)) : FilterShape P (setModule P x mx') m m' := by
  unfold FilterShape
  cases hf : m.filter with
  | none => cases hf' : m'.filter with
    | none => trivial
    | some f' => simp [hf, hf'] at h
  | some f => cases hf' : m'.filter with
    | none => simp [hf, hf'] at h
    | some f' =>
      simp only [hf, hf', Option.map_some, Option.some.injEq] at h
      simp only [h, setModule]
      exact (hasName_setModule P.modules x mx' hn _).symm

theorem firstParams_store (pre post : List Input) (s : Bytes) (a b : Nat) :
    firstParams (pre ++ .store s a :: post) = firstParams (pre ++ .store s b :: post) := by
  induction pre with
  | nil => rfl
  | cons i pre ih => cases i <;> simp [firstParams, ih]

theorem firstParams_swap (pre post : List Input) (i j : Input) (hi : isModuleInput i = true)
    (hj : isModuleInput j = true) :
    firstParams (pre ++ j :: i :: post) = firstParams (pre ++ i :: j :: post) := by
  induction pre with
  | nil => cases i <;> cases j <;> simp_all [firstParams, isModuleInput]
  | cons a pre ih => cases a <;> simp [firstParams, ih]

end SV.Hash

import Model.Sched
import Lemmas.Stages
/-!
Helper lemmas about `Model/Sched.lean`: the commands in flight (`atomsList`), the invariant that ties them to
the unit-state matrix and to the worker pool, and its preservation by every step.
-/
namespace SV.Sch
open SV SV.Stg SV.Stg.Stages

/-! ### commands in flight -/

theorem atomsList_append (a b : List Cmd) : atomsList (a ++ b) = atomsList a ++ atomsList b := by
  induction a with
  | nil => simp [atomsList]
  | cons c cs ih => simp [atomsList, ih]

theorem atomsList_cons (c : Cmd) (l : List Cmd) : atomsList (c :: l) = c.atoms ++ atomsList l := by
  simp [atomsList]

theorem atomsList_eraseIdx_perm : ∀ (l : List Cmd) (i : Nat) (c : Cmd), l[i]? = some c →
    (atomsList l).Perm (c.atoms ++ atomsList (l.eraseIdx i)) := by
  intro l
  induction l with
  | nil => intro i c h; simp at h
  | cons x xs ih =>
    intro i c h
    cases i with
    | zero =>
      simp only [List.getElem?_cons_zero, Option.some.injEq] at h
      subst h
      simp [atomsList]
    | succ n =>
      simp only [List.getElem?_cons_succ] at h
      have := ih n c h
      simp only [List.eraseIdx_cons_succ, atomsList]
      -- x.atoms ++ atomsList xs ~ c.atoms ++ (x.atoms ++ atomsList (xs.eraseIdx n))
      refine ((List.Perm.append_left x.atoms this).trans ?_)
      rw [← List.append_assoc, ← List.append_assoc]
      exact List.Perm.append_right _ List.perm_append_comm

/-- atoms of an optional command -/
def optAtoms (o : Option Cmd) : List Cmd := atomsList o.toList

theorem optAtoms_none : optAtoms none = [] := rfl
theorem optAtoms_some (c : Cmd) : optAtoms (some c) = c.atoms := by
  simp [optAtoms, atomsList]

theorem optAtoms_mkBatch (l : List (Option Cmd)) : optAtoms (mkBatch l) = atomsList (l.filterMap id) := by
  unfold mkBatch
  split
  · rename_i h; rw [h]; rfl
  · rename_i l' h
    rw [optAtoms_some]
    simp [Cmd.atoms]

/-! ### the invariant on commands in flight -/

/-- the commands in flight agree with the unit-state matrix and the worker pool -/
structure BagOK (s : Stages) (p : Pool) (A : List Cmd) : Prop where
  jobs   : ∀ u sb w, Cmd.job u sb w ∈ A → s.getState u.seg u.stage = .scheduled ∧ p.workers[w]? = some .working
  jobU   : (A.filterMap Cmd.jobUnit).Nodup
  jobW   : (A.filterMap Cmd.jobWorker).Nodup
  merges : ∀ u, Cmd.merge u ∈ A → s.getState u.seg u.stage = .merging
  mergeU : (A.filterMap Cmd.mergeUnit).Nodup

theorem BagOK.perm {s : Stages} {p : Pool} {A B : List Cmd} (h : BagOK s p A) (hp : A.Perm B) : BagOK s p B :=
  ⟨fun u sb w hm => h.jobs u sb w (hp.mem_iff.2 hm),
   (hp.filterMap _).nodup_iff.1 h.jobU, (hp.filterMap _).nodup_iff.1 h.jobW,
   fun u hm => h.merges u (hp.mem_iff.2 hm), (hp.filterMap _).nodup_iff.1 h.mergeU⟩

theorem BagOK.sublist {s : Stages} {p : Pool} {A B : List Cmd} (h : BagOK s p A) (hs : B.Sublist A) : BagOK s p B :=
  ⟨fun u sb w hm => h.jobs u sb w (hs.subset hm),
   h.jobU.sublist (hs.filterMap _), h.jobW.sublist (hs.filterMap _),
   fun u hm => h.merges u (hs.subset hm), h.mergeU.sublist (hs.filterMap _)⟩

/-- a command that is neither a job nor a merge -/
def Cmd.plain (c : Cmd) : Prop := c.jobUnit = none ∧ c.jobWorker = none ∧ c.mergeUnit = none

theorem filterMap_append_plain {β : Type} (f : Cmd → Option β) (A B : List Cmd) (hB : ∀ c ∈ B, f c = none) :
    (A ++ B).filterMap f = A.filterMap f := by
  rw [List.filterMap_append]
  have : B.filterMap f = [] := by
    apply List.filterMap_eq_nil_iff.2
    exact hB
  rw [this, List.append_nil]

/-- adding plain commands keeps the invariant -/
theorem BagOK.append_plain {s : Stages} {p : Pool} {A B : List Cmd} (h : BagOK s p A) (hB : ∀ c ∈ B, c.plain) :
    BagOK s p (A ++ B) := by
  refine ⟨?_, ?_, ?_, ?_, ?_⟩
  · intro u sb w hm
    rcases List.mem_append.1 hm with hm | hm
    · exact h.jobs u sb w hm
    · have := (hB _ hm).1; simp [Cmd.jobUnit] at this
  · rw [filterMap_append_plain _ _ _ (fun c hc => (hB c hc).1)]; exact h.jobU
  · rw [filterMap_append_plain _ _ _ (fun c hc => (hB c hc).2.1)]; exact h.jobW
  · intro u hm
    rcases List.mem_append.1 hm with hm | hm
    · exact h.merges u hm
    · have := (hB _ hm).2.2; simp [Cmd.mergeUnit] at this
  · rw [filterMap_append_plain _ _ _ (fun c hc => (hB c hc).2.2)]; exact h.mergeU

/-- the matrix may change as long as Scheduled and Merging cells are kept; the pool as long as working workers
keep working -/
theorem BagOK.change {s s' : Stages} {p p' : Pool} {A : List Cmd} (h : BagOK s p A)
    (hs : ∀ seg stg, (s.getState seg stg = .scheduled ∨ s.getState seg stg = .merging) →
      s'.getState seg stg = s.getState seg stg)
    (hp : ∀ w : Nat, p.workers[w]? = some WState.working → p'.workers[w]? = some WState.working) : BagOK s' p' A :=
  ⟨fun u sb w hm => by
      have := h.jobs u sb w hm
      exact ⟨by rw [hs _ _ (Or.inl this.1)]; exact this.1, hp w this.2⟩,
   h.jobU, h.jobW,
   fun u hm => by have := h.merges u hm; rw [hs _ _ (Or.inr this)]; exact this,
   h.mergeU⟩

/-! ### the worker pool -/

namespace Pool

theorem workerAvailable_keeps (p : Pool) (e : Bool) (w : Nat) (h : p.workers[w]? = some WState.working) :
    (p.workerAvailable e).1.workers[w]? = some WState.working := by
  unfold workerAvailable
  simp only
  split
  · split
    · simp only [List.getElem?_map, h, Option.map_some]; simp
    · simp only [List.getElem?_map, h, Option.map_some]; simp
  · split <;> exact h

theorem firstFree_spec : ∀ (l : List WState) (i j : Nat), firstFree l i = some j → i ≤ j ∧ l[j - i]? = some WState.free := by
  intro l
  induction l with
  | nil => intro i j h; simp [firstFree] at h
  | cons x xs ih =>
    intro i j h
    simp only [firstFree] at h
    split at h
    · injection h with h; subst h; rename_i hx; simp [hx]
    · have := ih (i + 1) j h
      refine ⟨by omega, ?_⟩
      have e : j - i = (j - (i + 1)) + 1 := by omega
      rw [e, List.getElem?_cons_succ]; exact this.2

theorem firstFree_some_of_mem : ∀ (l : List WState) (i : Nat), WState.free ∈ l → ∃ j, firstFree l i = some j := by
  intro l
  induction l with
  | nil => intro i h; simp at h
  | cons x xs ih =>
    intro i h
    simp only [firstFree]
    split
    · exact ⟨_, rfl⟩
    · rename_i hx
      rcases List.mem_cons.1 h with h | h
      · exact absurd h.symm hx
      · exact ih (i + 1) h

theorem borrow_spec {p p' : Pool} {w : Nat} (h : p.borrow = .ok (p', w)) :
    p.workers[w]? = some WState.free ∧ p'.workers = p.workers.set w WState.working := by
  unfold borrow at h
  split at h
  · cases h
  · rename_i i hi
    injection h with h; injection h with h1 h2; subst h1; subst h2
    have := firstFree_spec _ _ _ hi
    exact ⟨by simpa using this.2, rfl⟩

theorem borrow_ok (p : Pool) (h : p.workers.contains WState.free = true) : ∃ r, p.borrow = .ok r := by
  unfold borrow
  obtain ⟨j, hj⟩ := firstFree_some_of_mem p.workers 0 (by simpa using h)
  rw [hj]; exact ⟨_, rfl⟩

theorem giveBack_ok (p : Pool) (w : Nat) (h : p.workers[w]? = some WState.working) :
    ∃ p', p.giveBack w = .ok p' ∧ p'.workers = p.workers.set w WState.free := by
  unfold giveBack
  have hlt : w < p.workers.length := by
    apply Nat.lt_of_not_le; intro hc; rw [List.getElem?_eq_none hc] at h; cases h
  simp only [hlt, if_true]
  simp [h]

theorem workerAvailable_avail (p : Pool) (e : Bool) (h : (p.workerAvailable e).2.1 = true) :
    (p.workerAvailable e).1.workers.contains WState.free = true := by
  unfold workerAvailable at h ⊢
  simp only at h ⊢
  generalize (if p.rampup = true ∧ e = true then
      ({ workers := p.workers.map fun w => if w = WState.initialWait then WState.free else w, rampup := false } : Pool)
    else p) = p1 at h ⊢
  split at h
  · rename_i hc; rw [if_pos hc]; exact hc
  · simp at h

end Pool

/-! ### CmdTryMerge for a list of stages -/

/-- a command that is not a batch -/
def Cmd.atomic (c : Cmd) : Prop := c.atoms = [c]

theorem atomsList_of_atomic : ∀ (l : List Cmd), (∀ c ∈ l, c.atomic) → atomsList l = l := by
  intro l
  induction l with
  | nil => intro _; rfl
  | cons x xs ih =>
    intro h
    rw [atomsList_cons, h x (List.mem_cons_self), ih (fun c hc => h c (List.mem_cons_of_mem _ hc))]
    rfl

theorem tryMergeCmd_atomic (t : TryMerge) : ∀ c, tryMergeCmd t = some c → c.atomic ∧ c.jobUnit = none ∧ c.jobWorker = none := by
  intro c h
  cases t <;> simp [tryMergeCmd] at h <;> subst h <;> simp [Cmd.atomic, Cmd.atoms, Cmd.jobUnit, Cmd.jobWorker]

theorem tryMergeList_length : ∀ (l : List Nat) (s s' : Stages) (cmds : List (Option Cmd)),
    tryMergeList l s = .ok (s', cmds) → cmds.length = l.length := by
  intro l
  induction l with
  | nil => intro s s' cmds h; simp only [tryMergeList] at h; injection h with h; injection h with _ h2; subst h2; rfl
  | cons i rest ih =>
    intro s s' cmds h
    simp only [tryMergeList] at h
    split at h
    · cases h
    · rename_i s1 t h1
      split at h
      · cases h
      · rename_i s2 l2 h2
        injection h with h; injection h with _ h3; subst h3
        simp [ih s1 s2 l2 h2]

theorem tryMergeList_ok : ∀ (l : List Nat) (s : Stages), s.WF → ∃ r, tryMergeList l s = .ok r := by
  intro l
  induction l with
  | nil => intro s _; exact ⟨_, rfl⟩
  | cons i rest ih =>
    intro s hw
    simp only [tryMergeList]
    obtain ⟨⟨s1, t⟩, h1⟩ := cmdTryMerge_ok s i hw
    rw [h1]
    simp only
    have hw1 : s1.WF := by
      cases t with
      | merge u => exact (cmdTryMerge_merge h1 hw).2.2.2.2.2.2.wf hw
      | allStoresCompleted => rw [cmdTryMerge_other h1 (by intro u; simp)]; exact hw
      | nothing => rw [cmdTryMerge_other h1 (by intro u; simp)]; exact hw
      | notReady u' => rw [cmdTryMerge_other h1 (by intro u; simp)]; exact hw
    obtain ⟨⟨s2, l2⟩, h2⟩ := ih s1 hw1
    rw [h2]; exact ⟨_, rfl⟩

/-- the merges started by `tryMergeList`: every one turns a PartialPresent unit into a Merging one; nothing else
changes -/
theorem tryMergeList_spec : ∀ (l : List Nat) (s s' : Stages) (cmds : List (Option Cmd)), s.WF →
    tryMergeList l s = .ok (s', cmds) →
    TStep (fun seg stg => s.getState seg stg = .partialPresent) s s' ∧
    (∀ u, some (Cmd.merge u) ∈ cmds → s'.getState u.seg u.stage = .merging ∧ s.getState u.seg u.stage = .partialPresent) ∧
    ((cmds.filterMap id).filterMap Cmd.mergeUnit).Nodup ∧
    (∀ c ∈ cmds.filterMap id, c.atomic ∧ c.jobUnit = none ∧ c.jobWorker = none) := by
  intro l
  induction l with
  | nil =>
    intro s s' cmds _ h
    simp only [tryMergeList] at h
    injection h with h; injection h with h1 h2; subst h1; subst h2
    exact ⟨TStep.refl _ _, by intro u hu; simp at hu, by simp, by intro c hc; simp at hc⟩
  | cons i rest ih =>
    intro s s' cmds hw h
    simp only [tryMergeList] at h
    split at h
    · cases h
    · rename_i s1 t h1
      split at h
      · cases h
      · rename_i s2 l2 h2
        injection h with h; injection h with h3 h4; subst h3; subst h4
        -- first command
        have first : TStep (fun seg stg => s.getState seg stg = .partialPresent) s s1 ∧ s1.WF ∧
            (∀ u, t = .merge u → s1.getState u.seg u.stage = .merging ∧ s.getState u.seg u.stage = .partialPresent) := by
          cases t with
          | merge u =>
            have sp := cmdTryMerge_merge h1 hw
            refine ⟨sp.2.2.2.2.2.2.mono (fun x y hxy => by rw [hxy.1, hxy.2]; exact sp.2.2.2.1), sp.2.2.2.2.2.2.wf hw, ?_⟩
            intro u' hu'; injection hu' with hu'; subst hu'
            exact ⟨sp.2.2.2.2.2.1, sp.2.2.2.1⟩
          | allStoresCompleted =>
            rw [cmdTryMerge_other h1 (by intro u; simp)]; exact ⟨TStep.refl _ _, hw, by intro u hu; cases hu⟩
          | nothing =>
            rw [cmdTryMerge_other h1 (by intro u; simp)]; exact ⟨TStep.refl _ _, hw, by intro u hu; cases hu⟩
          | notReady u' =>
            rw [cmdTryMerge_other h1 (by intro u; simp)]; exact ⟨TStep.refl _ _, hw, by intro u hu; cases hu⟩
        obtain ⟨st1, hw1, hm1⟩ := first
        obtain ⟨st2, hm2, hnd2, hat2⟩ := ih s1 s2 l2 hw1 h2
        -- cells PartialPresent in s1 were PartialPresent in s
        have hPP : ∀ seg stg, s1.getState seg stg = .partialPresent → s.getState seg stg = .partialPresent := by
          intro seg stg hpp
          by_cases hc : s.getState seg stg = .partialPresent
          · exact hc
          · rcases st1.frame seg stg hc with e | ⟨_, e⟩
            · rw [← e]; exact hpp
            · rw [e] at hpp; cases hpp
        have st2' : TStep (fun seg stg => s.getState seg stg = .partialPresent) s1 s2 := st2.mono hPP
        refine ⟨st1.trans st2', ?_, ?_, ?_⟩
        · intro u hu
          rcases List.mem_cons.1 hu with hu | hu
          · -- the first command is this merge
            have ht : t = .merge u := by
              cases t <;> simp [tryMergeCmd] at hu
              · subst hu; rfl
            have := hm1 u ht
            refine ⟨?_, this.2⟩
            -- later merges do not touch a Merging cell
            rcases st2.frame u.seg u.stage (by rw [this.1]; simp) with e | ⟨e, _⟩
            · rw [e]; exact this.1
            · rw [this.1] at e; cases e
          · have := hm2 u hu
            exact ⟨this.1, hPP _ _ this.2⟩
        · -- no duplicate merge unit
          cases t with
          | merge u =>
            simp only [tryMergeCmd, List.filterMap_cons, id, Cmd.mergeUnit]
            refine List.nodup_cons.2 ⟨?_, hnd2⟩
            intro hmem
            obtain ⟨c, hc, hcu⟩ := List.mem_filterMap.1 hmem
            obtain ⟨oc, hoc, hocc⟩ := List.mem_filterMap.1 hc
            simp only [id] at hocc; subst hocc
            have hcm : c = .merge u := by
              cases c <;> simp [Cmd.mergeUnit] at hcu
              subst hcu; rfl
            subst hcm
            have := (hm2 u hoc).2
            rw [(hm1 u rfl).1] at this; cases this
          | allStoresCompleted =>
            simp only [tryMergeCmd, List.filterMap_cons, id, Cmd.mergeUnit]; exact hnd2
          | nothing =>
            simp only [tryMergeCmd, List.filterMap_cons, id]; exact hnd2
          | notReady u' =>
            simp only [tryMergeCmd, List.filterMap_cons, id, Cmd.mergeUnit]; exact hnd2
        · intro c hc
          simp only [List.filterMap_cons, id] at hc
          cases htc : tryMergeCmd t with
          | none => rw [htc] at hc; exact hat2 c hc
          | some c0 =>
            rw [htc] at hc
            rcases List.mem_cons.1 hc with hc | hc
            · subst hc; exact tryMergeCmd_atomic t c htc
            · exact hat2 c hc

/-! ### membership in the projections of the commands in flight -/

theorem mem_jobUnit {A : List Cmd} {u : WorkUnit} (h : u ∈ A.filterMap Cmd.jobUnit) : ∃ sb w, Cmd.job u sb w ∈ A := by
  obtain ⟨c, hc, hcu⟩ := List.mem_filterMap.1 h
  cases c <;> simp [Cmd.jobUnit] at hcu
  subst hcu; exact ⟨_, _, hc⟩

theorem mem_jobWorker {A : List Cmd} {w : Nat} (h : w ∈ A.filterMap Cmd.jobWorker) : ∃ u sb, Cmd.job u sb w ∈ A := by
  obtain ⟨c, hc, hcu⟩ := List.mem_filterMap.1 h
  cases c <;> simp [Cmd.jobWorker] at hcu
  subst hcu; exact ⟨_, _, hc⟩

theorem mem_mergeUnit {A : List Cmd} {u : WorkUnit} (h : u ∈ A.filterMap Cmd.mergeUnit) : Cmd.merge u ∈ A := by
  obtain ⟨c, hc, hcu⟩ := List.mem_filterMap.1 h
  cases c <;> simp [Cmd.mergeUnit] at hcu
  subst hcu; exact hc

/-! ### the invariant of the scheduler state -/

structure Inv (st : State) : Prop where
  fix : st.fix.shadow = true
  wf  : st.stages.WF
  ok  : st.stages.StagesOK
  off : st.stages.offset ≤ st.stages.globalSeg.firstIndex
  bag : BagOK st.stages st.pool st.inFlight

/-- what the message delivered must satisfy with respect to the OTHER commands in flight -/
def MsgPre (s : Stages) (p : Pool) (A : List Cmd) : Msg → Prop
  | .jobSucceeded u w => s.getState u.seg u.stage = .scheduled ∧ p.workers[w]? = some WState.working ∧
      u ∉ A.filterMap Cmd.jobUnit ∧ w ∉ A.filterMap Cmd.jobWorker
  | .mergeFinished u => s.getState u.seg u.stage = .merging ∧ u ∉ A.filterMap Cmd.mergeUnit
  | _ => True

/-- postcondition of `update`: no panic, the structural facts and the invariant on the commands in flight
(the old ones `A` plus those of the returned command) hold again -/
structure UpdPost (st : State) (A : List Cmd) (st' : State) (oc : Option Cmd) : Prop where
  fix  : st'.fix = st.fix
  cfg  : st'.cfg = st.cfg
  bagE : st'.bag = st.bag
  endE : st'.ended = st.ended
  wf   : st'.stages.WF
  ok   : st'.stages.StagesOK
  off  : st'.stages.offset ≤ st'.stages.globalSeg.firstIndex
  bag  : BagOK st'.stages st'.pool (A ++ optAtoms oc)

theorem plain_of_simple (c : Cmd) (h1 : c.jobUnit = none) (h2 : c.jobWorker = none) (h3 : c.mergeUnit = none) : c.plain :=
  ⟨h1, h2, h3⟩

theorem update_scheduleNextJob (st : State) (A : List Cmd) (e : Bool) (hf : st.fix.shadow = true)
    (hw : st.stages.WF) (hok : st.stages.StagesOK) (hoff : st.stages.offset ≤ st.stages.globalSeg.firstIndex)
    (hA : BagOK st.stages st.pool A) :
    ∃ st' oc, update st .scheduleNextJob e = .ok (st', oc) ∧ UpdPost st A st' oc := by
  unfold update
  simp only
  cases hwa : st.pool.workerAvailable e with
  | mk pool rest =>
    cases rest with
    | mk avail retry =>
      simp only
      have hkeep : ∀ w : Nat, st.pool.workers[w]? = some WState.working → pool.workers[w]? = some WState.working := by
        intro w hwk
        have := Pool.workerAvailable_keeps st.pool e w hwk
        rw [hwa] at this; exact this
      have hA1 : BagOK st.stages pool A := hA.change (fun _ _ _ => rfl) hkeep
      cases avail with
      | false =>
        simp only [Bool.not_false, if_true]
        cases retry with
        | false =>
          refine ⟨_, _, rfl, ⟨rfl, rfl, rfl, rfl, hw, hok, hoff, ?_⟩⟩
          rw [optAtoms_none, List.append_nil]; exact hA1
        | true =>
          refine ⟨_, _, rfl, ⟨rfl, rfl, rfl, rfl, hw, hok, hoff, ?_⟩⟩
          simp only [Bool.not_true, Bool.false_eq_true, if_false]
          rw [optAtoms_mkBatch]
          apply hA1.append_plain
          intro c hc
          simp [atomsList, Cmd.atoms] at hc
          subst hc; exact ⟨rfl, rfl, rfl⟩
      | true =>
        simp only [Bool.not_true, Bool.false_eq_true, if_false]
        obtain ⟨⟨s1, res⟩, hnj⟩ := nextJob_ok st.fix hf st.stages hw hok hoff
        have hspec := nextJob_spec st.fix hf st.stages s1 res hw hoff hnj
        rw [hnj]
        cases res with
        | none =>
          simp only
          have hp : PStep st.stages s1 := hspec
          refine ⟨_, _, rfl, ⟨rfl, rfl, rfl, rfl, hp.wf hw, hp.rest.stagesOK hok, ?_, ?_⟩⟩
          · show s1.offset ≤ s1.globalSeg.firstIndex
            rw [hp.rest.offset, hp.rest.globalSeg]; exact hoff
          · rw [optAtoms_none, List.append_nil]
            exact hA1.change (fun seg stg hst => hp.frame seg stg (fun x => x) (by rcases hst with h | h <;> rw [h] <;> simp))
              (fun _ h => h)
        | some p =>
          obtain ⟨u, r⟩ := p
          simp only
          have hch : Chosen st.fix st.stages s1 u r := hspec
          have hp := hch.pstep
          have hav : pool.workers.contains WState.free = true := by
            have := Pool.workerAvailable_avail st.pool e (by rw [hwa])
            rw [hwa] at this; exact this
          obtain ⟨⟨pool2, w⟩, hb⟩ := Pool.borrow_ok pool hav
          rw [hb]
          simp only
          have hbs := Pool.borrow_spec hb
          have hwlt : w < pool.workers.length := by
            apply Nat.lt_of_not_le; intro hc; rw [List.getElem?_eq_none hc] at hbs; cases hbs.1
          refine ⟨_, _, rfl, ⟨rfl, rfl, rfl, rfl, hp.wf hw, hp.rest.stagesOK hok, ?_, ?_⟩⟩
          · show s1.offset ≤ s1.globalSeg.firstIndex
            rw [hp.rest.offset, hp.rest.globalSeg]; exact hoff
          · rw [optAtoms_mkBatch]
            show BagOK s1 pool2 (A ++ atomsList [Cmd.job u r.start w, Cmd.scheduleNextJob])
            have hat : atomsList [Cmd.job u r.start w, Cmd.scheduleNextJob] = [Cmd.job u r.start w, Cmd.scheduleNextJob] := by
              simp [atomsList, Cmd.atoms]
            rw [hat]
            -- the old commands
            have hA2 : BagOK s1 pool2 A := hA1.change
              (fun seg stg hst => hp.frame seg stg (fun x => x) (by rcases hst with h | h <;> rw [h] <;> simp))
              (by
                intro w' hw'
                rw [hbs.2, List.getElem?_set]
                by_cases hww : w = w'
                · subst hww; rw [hbs.1] at hw'; cases hw'
                · simp [hww, hw'])
            have hunew : u ∉ A.filterMap Cmd.jobUnit := by
              intro hmem
              obtain ⟨sb, w', hj⟩ := mem_jobUnit hmem
              have := (hA.jobs u sb w' hj).1
              rw [hch.was_pending] at this; cases this
            have hwnew : w ∉ A.filterMap Cmd.jobWorker := by
              intro hmem
              obtain ⟨u', sb, hj⟩ := mem_jobWorker hmem
              have := (hA1.jobs u' sb w hj).2
              rw [hbs.1] at this; cases this
            refine ⟨?_, ?_, ?_, ?_, ?_⟩
            · intro u' sb' w' hm
              rcases List.mem_append.1 hm with hm | hm
              · exact hA2.jobs u' sb' w' hm
              · simp at hm
                obtain ⟨h1, _, h3⟩ := hm
                subst h1; subst h3
                refine ⟨hch.scheduled, ?_⟩
                rw [hbs.2, List.getElem?_set]; simp [hwlt]
            · rw [List.filterMap_append]
              simp only [List.filterMap_cons, Cmd.jobUnit, List.filterMap_nil]
              exact List.nodup_append.2 ⟨hA2.jobU, by simp, by intro a ha b hb hab; simp at hb; subst hb; subst hab; exact hunew ha⟩
            · rw [List.filterMap_append]
              simp only [List.filterMap_cons, Cmd.jobWorker, List.filterMap_nil]
              exact List.nodup_append.2 ⟨hA2.jobW, by simp, by intro a ha b hb hab; simp at hb; subst hb; subst hab; exact hwnew ha⟩
            · intro u' hm
              rcases List.mem_append.1 hm with hm | hm
              · exact hA2.merges u' hm
              · simp at hm
            · rw [filterMap_append_plain _ _ _ (by intro c hc; simp at hc; rcases hc with hc | hc <;> subst hc <;> rfl)]
              exact hA2.mergeU

/-- new merge commands created from PartialPresent cells can be added to the commands in flight -/
theorem BagOK.add_merges {s s' : Stages} {p : Pool} {A : List Cmd} {cmds : List (Option Cmd)}
    (hA : BagOK s p A) (hA' : BagOK s' p A)
    (hm : ∀ u, some (Cmd.merge u) ∈ cmds → s'.getState u.seg u.stage = .merging ∧ s.getState u.seg u.stage = .partialPresent)
    (hnd : ((cmds.filterMap id).filterMap Cmd.mergeUnit).Nodup)
    (hat : ∀ c ∈ cmds.filterMap id, c.atomic ∧ c.jobUnit = none ∧ c.jobWorker = none) :
    BagOK s' p (A ++ cmds.filterMap id) := by
  refine ⟨?_, ?_, ?_, ?_, ?_⟩
  · intro u sb w hmem
    rcases List.mem_append.1 hmem with hmem | hmem
    · exact hA'.jobs u sb w hmem
    · have := (hat _ hmem).2.1; simp [Cmd.jobUnit] at this
  · rw [filterMap_append_plain _ _ _ (fun c hc => (hat c hc).2.1)]; exact hA'.jobU
  · rw [filterMap_append_plain _ _ _ (fun c hc => (hat c hc).2.2)]; exact hA'.jobW
  · intro u hmem
    rcases List.mem_append.1 hmem with hmem | hmem
    · exact hA'.merges u hmem
    · obtain ⟨oc, hoc, hid⟩ := List.mem_filterMap.1 hmem
      simp only [id] at hid; subst hid
      exact (hm u hoc).1
  · rw [List.filterMap_append]
    refine List.nodup_append.2 ⟨hA'.mergeU, hnd, ?_⟩
    intro a ha b hb hab
    subst hab
    have h1 := hA.merges a (mem_mergeUnit ha)
    obtain ⟨oc, hoc, hid⟩ := List.mem_filterMap.1 (mem_mergeUnit hb)
    simp only [id] at hid; subst hid
    have h2 := (hm a hoc).2
    rw [h1] at h2; cases h2

theorem update_jobSucceeded (st : State) (A : List Cmd) (u : WorkUnit) (w : Nat) (e : Bool)
    (hw : st.stages.WF) (hok : st.stages.StagesOK) (hoff : st.stages.offset ≤ st.stages.globalSeg.firstIndex)
    (hA : BagOK st.stages st.pool A) (hpre : MsgPre st.stages st.pool A (.jobSucceeded u w)) :
    ∃ st' oc, update st (.jobSucceeded u w) e = .ok (st', oc) ∧ UpdPost st A st' oc := by
  obtain ⟨hsched, hwork, hunew, hwnew⟩ := hpre
  unfold update
  simp only
  obtain ⟨⟨s1, shadowed⟩, h1⟩ := markJobSuccess_ok st.stages u hw hsched
  rw [h1]
  simp only
  obtain ⟨pool1, hgb, hgbw⟩ := Pool.giveBack_ok st.pool w hwork
  rw [hgb]
  simp only
  have t1 := markJobSuccess_tstep h1
  have hw1 := t1.wf hw
  obtain ⟨⟨s2, tm⟩, h2⟩ := tryMergeList_ok (u.stage :: shadowed.map (·.stage)) s1 hw1
  rw [h2]
  simp only
  obtain ⟨t2, hm2, hnd2, hat2⟩ := tryMergeList_spec _ s1 s2 tm hw1 h2
  have hw2 := t2.wf hw1
  have hrest := t1.rest.trans t2.rest
  -- cells that are Scheduled or Merging in the old matrix and are not the unit itself are kept
  have keep : ∀ seg stg, (st.stages.getState seg stg = .scheduled ∨ st.stages.getState seg stg = .merging) →
      ¬(seg = u.seg ∧ stg = u.stage) → s2.getState seg stg = st.stages.getState seg stg := by
    intro seg stg hst hne
    have e1 : s1.getState seg stg = st.stages.getState seg stg := by
      rcases t1.frame seg stg (by
          intro hc
          rcases hc.2 with hc2 | hc2
          · exact hne ⟨hc.1, hc2⟩
          · rcases hst with h | h <;> rw [h] at hc2 <;> cases hc2) with e | ⟨e, _⟩
      · exact e
      · rcases hst with h | h <;> rw [h] at e <;> cases e
    rcases t2.frame seg stg (by rw [e1]; rcases hst with h | h <;> rw [h] <;> simp) with e | ⟨e, _⟩
    · rw [e, e1]
    · rw [e1] at e; rcases hst with h | h <;> rw [h] at e <;> cases e
  have hA2 : BagOK s2 pool1 A := by
    refine ⟨?_, hA.jobU, hA.jobW, ?_, hA.mergeU⟩
    · intro u' sb' w' hm
      have hj := hA.jobs u' sb' w' hm
      have hne : ¬(u'.seg = u.seg ∧ u'.stage = u.stage) := by
        intro hc
        apply hunew
        have : u' = u := by cases u'; cases u; simp at hc; simp [hc.1, hc.2]
        subst this
        exact List.mem_filterMap.2 ⟨_, hm, rfl⟩
      refine ⟨by rw [keep _ _ (Or.inl hj.1) hne]; exact hj.1, ?_⟩
      rw [hgbw, List.getElem?_set]
      have hww : w ≠ w' := by
        intro hc; subst hc
        exact hwnew (List.mem_filterMap.2 ⟨_, hm, rfl⟩)
      simp [hww, hj.2]
    · intro u' hm
      have hmg := hA.merges u' hm
      have hne : ¬(u'.seg = u.seg ∧ u'.stage = u.stage) := by
        intro hc; rw [hc.1, hc.2, hsched] at hmg; cases hmg
      rw [keep _ _ (Or.inr hmg) hne]; exact hmg
  -- the old commands seen from the matrix before the merges were started (for the freshness of the new merges)
  have hA1 : BagOK s1 pool1 A := by
    refine ⟨?_, hA.jobU, hA.jobW, ?_, hA.mergeU⟩
    · intro u' sb' w' hm; have := hA2.jobs u' sb' w' hm
      refine ⟨?_, this.2⟩
      have hj := hA.jobs u' sb' w' hm
      have hne : ¬(u'.seg = u.seg ∧ u'.stage = u.stage) := by
        intro hc
        apply hunew
        have : u' = u := by cases u'; cases u; simp at hc; simp [hc.1, hc.2]
        subst this
        exact List.mem_filterMap.2 ⟨_, hm, rfl⟩
      rcases t1.frame u'.seg u'.stage (by
          intro hc
          rcases hc.2 with hc2 | hc2
          · exact hne ⟨hc.1, hc2⟩
          · rw [hj.1] at hc2; cases hc2) with e | ⟨e, _⟩
      · rw [e]; exact hj.1
      · rw [hj.1] at e; cases e
    · intro u' hm
      have hmg := hA.merges u' hm
      have hne : ¬(u'.seg = u.seg ∧ u'.stage = u.stage) := by
        intro hc; rw [hc.1, hc.2, hsched] at hmg; cases hmg
      rcases t1.frame u'.seg u'.stage (by
          intro hc
          rcases hc.2 with hc2 | hc2
          · exact hne ⟨hc.1, hc2⟩
          · rw [hmg] at hc2; cases hc2) with e | ⟨e, _⟩
      · rw [e]; exact hmg
      · rw [hmg] at e; cases e
  have hAm := BagOK.add_merges hA1 hA2 hm2 hnd2 hat2
  refine ⟨_, _, rfl, ⟨rfl, rfl, rfl, rfl, hw2, hrest.stagesOK hok, ?_, ?_⟩⟩
  · show s2.offset ≤ s2.globalSeg.firstIndex
    rw [hrest.offset, hrest.globalSeg]; exact hoff
  · show BagOK s2 pool1 (A ++ optAtoms (mkBatch _))
    rw [optAtoms_mkBatch]
    -- the atoms of the returned batch: the try-merge commands, then N, then possibly D
    have hatoms : ∀ (first : Option Cmd) (dl : Option Cmd), optAtoms first = tm.filterMap id →
        (∀ c ∈ dl.toList, c = Cmd.downloadSegment) →
        ∃ B, atomsList ([first, some Cmd.scheduleNextJob, dl].filterMap id) = tm.filterMap id ++ B ∧ ∀ c ∈ B, c.plain := by
      intro first dl hfirst hdl
      refine ⟨Cmd.scheduleNextJob :: dl.toList, ?_, ?_⟩
      · cases first with
        | none =>
          rw [optAtoms_none] at hfirst
          cases dl with
          | none => simp [atomsList, Cmd.atoms, ← hfirst]
          | some d =>
            have := hdl d (by simp); subst this
            simp [atomsList, Cmd.atoms, ← hfirst]
        | some f =>
          rw [optAtoms_some] at hfirst
          cases dl with
          | none => simp [atomsList, Cmd.atoms, hfirst]
          | some d =>
            have := hdl d (by simp); subst this
            simp [atomsList, Cmd.atoms, hfirst]
      · intro c hc
        rcases List.mem_cons.1 hc with hc | hc
        · subst hc; exact ⟨rfl, rfl, rfl⟩
        · rw [hdl c hc]; exact ⟨rfl, rfl, rfl⟩
    have hfirst : optAtoms (if shadowed.isEmpty then tm.headD none else mkBatch tm) = tm.filterMap id := by
      have htm_atoms : atomsList (tm.filterMap id) = tm.filterMap id :=
        atomsList_of_atomic _ (fun c hc => (hat2 c hc).1)
      split
      · rename_i hemp
        have hlen := tryMergeList_length _ _ _ _ h2
        have : shadowed = [] := by simpa using hemp
        subst this
        simp only [List.map_nil, List.length_cons, List.length_nil] at hlen
        match tm, hlen with
        | [x], _ =>
          simp only [List.headD_cons]
          cases x with
          | none => rfl
          | some c =>
            rw [optAtoms_some]
            have := (hat2 c (by simp)).1
            simpa [Cmd.atomic] using this
      · rw [optAtoms_mkBatch]; exact htm_atoms
    obtain ⟨B, hB, hBp⟩ := hatoms _ (if st.walker.isSome then some Cmd.downloadSegment else none) hfirst
      (by intro c hc; split at hc <;> simp at hc; exact hc)
    rw [hB, ← List.append_assoc]
    exact hAm.append_plain hBp

theorem update_mergeFinished (st : State) (A : List Cmd) (u : WorkUnit) (e : Bool)
    (hw : st.stages.WF) (hok : st.stages.StagesOK) (hoff : st.stages.offset ≤ st.stages.globalSeg.firstIndex)
    (hA : BagOK st.stages st.pool A) (hpre : MsgPre st.stages st.pool A (.mergeFinished u)) :
    ∃ st' oc, update st (.mergeFinished u) e = .ok (st', oc) ∧ UpdPost st A st' oc := by
  obtain ⟨hmerging, hunew⟩ := hpre
  unfold update
  simp only
  obtain ⟨s1, h1⟩ := mergeCompleted_ok st.stages u hw hmerging
  rw [h1]
  simp only
  obtain ⟨s0, t0, hw0, hget, hoff1, hglob1, hn1, hw1, hok1, hcompl⟩ := mergeCompleted_spec h1 hw
  obtain ⟨⟨s2, t⟩, h2⟩ := cmdTryMerge_ok s1 u.stage hw1
  rw [h2]
  simp only
  -- the matrix after MergeCompleted: only the unit changed
  have keep1 : ∀ seg stg, (st.stages.getState seg stg = .scheduled ∨ st.stages.getState seg stg = .merging) →
      ¬(seg = u.seg ∧ stg = u.stage) → s1.getState seg stg = st.stages.getState seg stg := by
    intro seg stg hst hne
    rw [hget]
    rcases t0.frame seg stg hne with e | ⟨e, _⟩
    · exact e
    · rcases hst with h | h <;> rw [h] at e <;> cases e
  have hA1 : BagOK s1 st.pool A := by
    refine ⟨?_, hA.jobU, hA.jobW, ?_, hA.mergeU⟩
    · intro u' sb' w' hm
      have hj := hA.jobs u' sb' w' hm
      have hne : ¬(u'.seg = u.seg ∧ u'.stage = u.stage) := by
        intro hc; rw [hc.1, hc.2, hmerging] at hj; cases hj.1
      exact ⟨by rw [keep1 _ _ (Or.inl hj.1) hne]; exact hj.1, hj.2⟩
    · intro u' hm
      have hmg := hA.merges u' hm
      have hne : ¬(u'.seg = u.seg ∧ u'.stage = u.stage) := by
        intro hc
        apply hunew
        have : u' = u := by cases u'; cases u; simp at hc; simp [hc.1, hc.2]
        subst this
        exact List.mem_filterMap.2 ⟨_, hm, rfl⟩
      rw [keep1 _ _ (Or.inr hmg) hne]; exact hmg
  -- then CmdTryMerge
  have hspec := tryMergeList_spec [u.stage] s1 s2 [tryMergeCmd t] hw1 (by simp [tryMergeList, h2])
  obtain ⟨t2, hm2, hnd2, hat2⟩ := hspec
  have hA2 : BagOK s2 st.pool A := hA1.change (fun seg stg hst => by
      rcases t2.frame seg stg (by rcases hst with h | h <;> rw [h] <;> simp) with e | ⟨e, _⟩
      · exact e
      · rcases hst with h | h <;> rw [h] at e <;> cases e) (fun _ h => h)
  have hAm := BagOK.add_merges hA1 hA2 hm2 hnd2 hat2
  have hoff2 : s2.offset ≤ s2.globalSeg.firstIndex := by
    rw [t2.rest.offset, t2.rest.globalSeg, hoff1, hglob1]; exact hoff
  refine ⟨_, _, rfl, ⟨rfl, rfl, rfl, rfl, t2.wf hw1, t2.rest.stagesOK (hok1 hok), hoff2, ?_⟩⟩
  show BagOK s2 st.pool (A ++ optAtoms (mkBatch [some Cmd.scheduleNextJob, tryMergeCmd t]))
  rw [optAtoms_mkBatch]
  have : (atomsList ([some Cmd.scheduleNextJob, tryMergeCmd t].filterMap id)).Perm
      ([tryMergeCmd t].filterMap id ++ [Cmd.scheduleNextJob]) := by
    cases htc : tryMergeCmd t with
    | none => simp [atomsList, Cmd.atoms]
    | some c =>
      have := (tryMergeCmd_atomic t c htc).1
      simp only [List.filterMap_cons, id, List.filterMap_nil, atomsList, Cmd.atoms, List.append_nil]
      unfold Cmd.atomic at this
      rw [this]
      exact List.Perm.swap _ _ _
  refine BagOK.perm ?_ (List.Perm.append_left A this.symm)
  rw [← List.append_assoc]
  exact hAm.append_plain (by intro c hc; simp at hc; subst hc; exact ⟨rfl, rfl, rfl⟩)

/-- a message that leaves the matrix and the pool alone and answers with plain commands -/
theorem UpdPost.of_plain {st st' : State} {A : List Cmd} {oc : Option Cmd}
    (hw : st.stages.WF) (hok : st.stages.StagesOK) (hoff : st.stages.offset ≤ st.stages.globalSeg.firstIndex)
    (hA : BagOK st.stages st.pool A)
    (h1 : st'.stages = st.stages) (h2 : st'.pool = st.pool) (h3 : st'.fix = st.fix) (h4 : st'.cfg = st.cfg)
    (h5 : st'.bag = st.bag) (h6 : st'.ended = st.ended) (hp : ∀ c ∈ optAtoms oc, c.plain) : UpdPost st A st' oc :=
  ⟨h3, h4, h5, h6, by rw [h1]; exact hw, by rw [h1]; exact hok, by rw [h1]; exact hoff,
   by rw [h1, h2]; exact hA.append_plain hp⟩

theorem plain_quit (b : Bool) : (Cmd.quit b).plain := ⟨rfl, rfl, rfl⟩

theorem update_other (st : State) (A : List Cmd) (m : Msg) (e : Bool)
    (hw : st.stages.WF) (hok : st.stages.StagesOK) (hoff : st.stages.offset ≤ st.stages.globalSeg.firstIndex)
    (hA : BagOK st.stages st.pool A)
    (hm : (∀ u w, m ≠ .jobSucceeded u w) ∧ m ≠ .scheduleNextJob ∧ (∀ u, m ≠ .mergeFinished u)) :
    ∃ st' oc, update st m e = .ok (st', oc) ∧ UpdPost st A st' oc := by
  cases m with
  | jobSucceeded u w => exact absurd rfl (hm.1 u w)
  | scheduleNextJob => exact absurd rfl hm.2.1
  | mergeFinished u => exact absurd rfl (hm.2.2 u)
  | jobFailed =>
    refine ⟨_, _, rfl, UpdPost.of_plain hw hok hoff hA rfl rfl rfl rfl rfl rfl ?_⟩
    intro c hc; rw [optAtoms_mkBatch] at hc; simp [atomsList, Cmd.atoms] at hc; subst hc; exact plain_quit _
  | mergeFailed u =>
    refine ⟨_, _, rfl, UpdPost.of_plain hw hok hoff hA rfl rfl rfl rfl rfl rfl ?_⟩
    intro c hc; rw [optAtoms_mkBatch] at hc; simp [atomsList, Cmd.atoms] at hc; subst hc; exact plain_quit _
  | mergeNotReady u =>
    refine ⟨_, _, rfl, UpdPost.of_plain hw hok hoff hA rfl rfl rfl rfl rfl rfl ?_⟩
    intro c hc; rw [optAtoms_none] at hc; cases hc
  | allStoresCompleted =>
    refine ⟨_, _, rfl, UpdPost.of_plain hw hok hoff hA rfl rfl rfl rfl rfl rfl ?_⟩
    intro c hc
    rw [optAtoms_mkBatch] at hc
    unfold cmdShutdownWhenComplete at hc
    simp only at hc
    split at hc
    · split at hc
      · simp [atomsList, Cmd.atoms] at hc; rcases hc with hc | hc <;> subst hc <;> exact ⟨rfl, rfl, rfl⟩
      · split at hc
        · simp [atomsList, Cmd.atoms] at hc; subst hc; exact ⟨rfl, rfl, rfl⟩
        · simp [atomsList, Cmd.atoms] at hc; rcases hc with hc | hc <;> subst hc <;> exact ⟨rfl, rfl, rfl⟩
    · simp [atomsList, Cmd.atoms] at hc; subst hc; exact ⟨rfl, rfl, rfl⟩
  | fileNotPresent =>
    refine ⟨_, _, rfl, UpdPost.of_plain hw hok hoff hA rfl rfl rfl rfl rfl rfl ?_⟩
    intro c hc; rw [optAtoms_mkBatch] at hc; simp [atomsList, Cmd.atoms] at hc; subst hc; exact ⟨rfl, rfl, rfl⟩
  | fileDownloaded =>
    refine ⟨_, _, rfl, UpdPost.of_plain hw hok hoff hA rfl rfl rfl rfl rfl rfl ?_⟩
    intro c hc; rw [optAtoms_mkBatch] at hc; simp [atomsList, Cmd.atoms] at hc; subst hc; exact ⟨rfl, rfl, rfl⟩
  | downloadSegment =>
    unfold update
    simp only
    split
    · refine ⟨_, _, rfl, UpdPost.of_plain hw hok hoff hA rfl rfl rfl rfl rfl rfl ?_⟩
      intro c hc; rw [optAtoms_none] at hc; cases hc
    · split
      · refine ⟨_, _, rfl, UpdPost.of_plain hw hok hoff hA rfl rfl rfl rfl rfl rfl ?_⟩
        intro c hc; rw [optAtoms_none] at hc; cases hc
      · split
        · refine ⟨_, _, rfl, UpdPost.of_plain hw hok hoff hA rfl rfl rfl rfl rfl rfl ?_⟩
          intro c hc; rw [optAtoms_some] at hc; simp [Cmd.atoms] at hc; subst hc; exact ⟨rfl, rfl, rfl⟩
        · refine ⟨_, _, rfl, UpdPost.of_plain hw hok hoff hA rfl rfl rfl rfl rfl rfl ?_⟩
          intro c hc; rw [optAtoms_mkBatch] at hc; simp [atomsList, Cmd.atoms] at hc; subst hc; exact ⟨rfl, rfl, rfl⟩
  | walkerCompleted =>
    refine ⟨_, _, rfl, UpdPost.of_plain hw hok hoff hA rfl rfl rfl rfl rfl rfl ?_⟩
    intro c hc
    unfold cmdShutdownWhenComplete at hc
    simp only at hc
    split at hc
    · split at hc
      · rw [optAtoms_some] at hc; simp [Cmd.atoms] at hc; subst hc; exact ⟨rfl, rfl, rfl⟩
      · split at hc
        · rw [optAtoms_none] at hc; cases hc
        · rw [optAtoms_some] at hc; simp [Cmd.atoms] at hc; subst hc; exact ⟨rfl, rfl, rfl⟩
    · rw [optAtoms_none] at hc; cases hc

/-- `update` never panics and re-establishes the invariant, for every message whose precondition holds -/
theorem update_spec (st : State) (A : List Cmd) (m : Msg) (e : Bool) (hf : st.fix.shadow = true)
    (hw : st.stages.WF) (hok : st.stages.StagesOK) (hoff : st.stages.offset ≤ st.stages.globalSeg.firstIndex)
    (hA : BagOK st.stages st.pool A) (hpre : MsgPre st.stages st.pool A m) :
    ∃ st' oc, update st m e = .ok (st', oc) ∧ UpdPost st A st' oc := by
  cases m with
  | jobSucceeded u w => exact update_jobSucceeded st A u w e hw hok hoff hA hpre
  | scheduleNextJob => exact update_scheduleNextJob st A e hf hw hok hoff hA
  | mergeFinished u => exact update_mergeFinished st A u e hw hok hoff hA hpre
  | jobFailed => exact update_other st A _ e hw hok hoff hA ⟨nofun, nofun, nofun⟩
  | mergeFailed u => exact update_other st A _ e hw hok hoff hA ⟨nofun, nofun, nofun⟩
  | mergeNotReady u => exact update_other st A _ e hw hok hoff hA ⟨nofun, nofun, nofun⟩
  | allStoresCompleted => exact update_other st A _ e hw hok hoff hA ⟨nofun, nofun, nofun⟩
  | fileNotPresent => exact update_other st A _ e hw hok hoff hA ⟨nofun, nofun, nofun⟩
  | fileDownloaded => exact update_other st A _ e hw hok hoff hA ⟨nofun, nofun, nofun⟩
  | downloadSegment => exact update_other st A _ e hw hok hoff hA ⟨nofun, nofun, nofun⟩
  | walkerCompleted => exact update_other st A _ e hw hok hoff hA ⟨nofun, nofun, nofun⟩

/-! ### executing a command -/

/-- two `Stages` that answer `getState` alike and share what the invariant needs -/
structure SameMatrix (s s' : Stages) : Prop where
  get    : ∀ seg stg, s'.getState seg stg = s.getState seg stg
  wf     : s.WF → s'.WF
  ok     : s.StagesOK → s'.StagesOK
  offset : s'.offset = s.offset
  global : s'.globalSeg = s.globalSeg

theorem SameMatrix.refl (s : Stages) : SameMatrix s s := ⟨fun _ _ => rfl, id, id, rfl, rfl⟩

theorem setStage_sameMatrix (s : Stages) (i : Nat) (st : Stage) (hseg : st.seg = (s.stageAt i).seg) :
    SameMatrix s (s.setStage i st) := by
  refine ⟨setStage_getState s i st hseg, setStage_wf s i st, ?_, rfl, rfl⟩
  intro hok
  by_cases hi : i < s.nStages
  · exact setStage_stagesOK s i st hseg hi hok
  · intro x hx
    unfold Stages.setStage at hx
    simp only at hx
    rw [List.set_eq_of_length_le (by unfold Stages.nStages at hi; omega)] at hx
    exact hok x hx

theorem runMerge_sameMatrix {s s' : Stages} {u : WorkUnit} {f f' : Files} (h : runMerge s u f = some (s', f')) :
    SameMatrix s s' := by
  unfold runMerge at h
  simp only at h
  split at h
  · cases h
  · injection h with h; injection h with h1 _; subst h1
    exact setStage_sameMatrix s u.stage _ rfl

/-- executing a command leaves everything the invariant talks about alone -/
theorem exec_same (st : State) (c : Cmd) :
    (exec st c).1.fix = st.fix ∧ (exec st c).1.cfg = st.cfg ∧ (exec st c).1.bag = st.bag ∧
    (exec st c).1.ended = st.ended ∧ (exec st c).1.pool = st.pool ∧ SameMatrix st.stages (exec st c).1.stages := by
  cases c with
  | merge u =>
    unfold exec
    simp only
    split
    · exact ⟨rfl, rfl, rfl, rfl, rfl, SameMatrix.refl _⟩
    · rename_i s' f' h
      exact ⟨rfl, rfl, rfl, rfl, rfl, runMerge_sameMatrix h⟩
  | downloadCurrent seg =>
    unfold exec
    simp only
    split
    · exact ⟨rfl, rfl, rfl, rfl, rfl, SameMatrix.refl _⟩
    · split
      · exact ⟨rfl, rfl, rfl, rfl, rfl, SameMatrix.refl _⟩
      · split <;> exact ⟨rfl, rfl, rfl, rfl, rfl, SameMatrix.refl _⟩
  | batch l => exact ⟨rfl, rfl, rfl, rfl, rfl, SameMatrix.refl _⟩
  | scheduleNextJob => exact ⟨rfl, rfl, rfl, rfl, rfl, SameMatrix.refl _⟩
  | allStoresCompleted => exact ⟨rfl, rfl, rfl, rfl, rfl, SameMatrix.refl _⟩
  | mergeNotReady u => exact ⟨rfl, rfl, rfl, rfl, rfl, SameMatrix.refl _⟩
  | downloadSegment => exact ⟨rfl, rfl, rfl, rfl, rfl, SameMatrix.refl _⟩
  | walkerCompleted => exact ⟨rfl, rfl, rfl, rfl, rfl, SameMatrix.refl _⟩
  | shutdown => exact ⟨rfl, rfl, rfl, rfl, rfl, SameMatrix.refl _⟩
  | quit e => exact ⟨rfl, rfl, rfl, rfl, rfl, SameMatrix.refl _⟩
  | tick => exact ⟨rfl, rfl, rfl, rfl, rfl, SameMatrix.refl _⟩
  | job u sb w => exact ⟨rfl, rfl, rfl, rfl, rfl, SameMatrix.refl _⟩

theorem BagOK.sameMatrix {s s' : Stages} {p : Pool} {A : List Cmd} (h : BagOK s p A) (hs : SameMatrix s s') : BagOK s' p A :=
  h.change (fun seg stg _ => hs.get seg stg) (fun _ hw => hw)

/-- the message a command answers with satisfies its precondition -/
theorem exec_msg_pre (st : State) (c : Cmd) (A : List Cmd) (m : Msg)
    (hA : BagOK st.stages st.pool (c :: A)) (hm : (exec st c).2 = .msg m) :
    MsgPre (exec st c).1.stages (exec st c).1.pool A m := by
  have hs := exec_same st c
  cases c with
  | job u sb w =>
    simp only [exec] at hm
    injection hm with hm; subst hm
    have hj := hA.jobs u sb w (List.mem_cons_self)
    have hU := hA.jobU
    have hW := hA.jobW
    simp only [List.filterMap_cons, Cmd.jobUnit, Cmd.jobWorker] at hU hW
    exact ⟨by rw [hs.2.2.2.2.2.get]; exact hj.1, by rw [hs.2.2.2.2.1]; exact hj.2,
      (List.nodup_cons.1 hU).1, (List.nodup_cons.1 hW).1⟩
  | merge u =>
    have hmg := hA.merges u (List.mem_cons_self)
    have hU := hA.mergeU
    simp only [List.filterMap_cons, Cmd.mergeUnit] at hU
    unfold exec at hm ⊢
    simp only at hm ⊢
    split at hm
    · injection hm with hm; subst hm; trivial
    · rename_i s' f' hr
      injection hm with hm; subst hm
      exact ⟨by rw [(runMerge_sameMatrix hr).get]; exact hmg, (List.nodup_cons.1 hU).1⟩
  | downloadCurrent seg =>
    unfold exec at hm
    simp only at hm
    split at hm
    · injection hm with hm; subst hm; trivial
    · split at hm
      · injection hm with hm; subst hm; trivial
      · split at hm <;> (injection hm with hm; subst hm; trivial)
  | batch l => simp [exec] at hm
  | scheduleNextJob => simp only [exec] at hm; injection hm with hm; subst hm; trivial
  | allStoresCompleted => simp only [exec] at hm; injection hm with hm; subst hm; trivial
  | mergeNotReady u => simp only [exec] at hm; injection hm with hm; subst hm; trivial
  | downloadSegment => simp only [exec] at hm; injection hm with hm; subst hm; trivial
  | walkerCompleted => simp only [exec] at hm; injection hm with hm; subst hm; trivial
  | shutdown => simp [exec] at hm
  | quit e => simp [exec] at hm
  | tick => simp only [exec] at hm; injection hm with hm; subst hm; trivial

theorem exec_batch_inv (st : State) (c : Cmd) (l : List Cmd) (h : (exec st c).2 = .batch l) :
    c = .batch l ∧ (exec st c).1 = st := by
  cases c with
  | batch l' => simp only [exec] at h ⊢; injection h with h; subst h; exact ⟨rfl, trivial⟩
  | merge u => unfold exec at h; simp only at h; split at h <;> cases h
  | downloadCurrent seg =>
    unfold exec at h; simp only at h
    split at h
    · cases h
    · split at h
      · cases h
      · split at h <;> cases h
  | scheduleNextJob => simp [exec] at h
  | allStoresCompleted => simp [exec] at h
  | mergeNotReady u => simp [exec] at h
  | downloadSegment => simp [exec] at h
  | walkerCompleted => simp [exec] at h
  | shutdown => simp [exec] at h
  | quit e => simp [exec] at h
  | tick => simp [exec] at h
  | job u sb w => simp [exec] at h

/-! ### every step keeps the invariant, and never panics -/

/-- the invariant plus "the scheduler has not panicked" -/
structure Good (st : State) : Prop where
  inv     : Inv st
  noPanic : ∀ e, st.ended ≠ some (.panic e)

theorem atoms_of_not_batch (c : Cmd) (h : ∀ l, c ≠ .batch l) : c.atoms = [c] := by
  cases c <;> simp [Cmd.atoms] at h ⊢

theorem step_good (st : State) (idx : Nat) (e : Bool) (h : Good st) : Good (step st idx e) := by
  unfold step
  split
  · exact h
  · split
    · exact h
    · rename_i c hc
      simp only
      have hperm := atomsList_eraseIdx_perm st.bag idx c hc
      have hbag : BagOK st.stages st.pool (c.atoms ++ atomsList (st.bag.eraseIdx idx)) := h.inv.bag.perm hperm
      -- the state with the command taken out of the bag
      generalize hst0 : ({ st with bag := st.bag.eraseIdx idx } : State) = st0
      have e0 : st0.stages = st.stages ∧ st0.pool = st.pool ∧ st0.fix = st.fix ∧ st0.ended = st.ended ∧
          st0.bag = st.bag.eraseIdx idx := by subst hst0; exact ⟨rfl, rfl, rfl, rfl, rfl⟩
      have hs := exec_same st0 c
      cases hex : exec st0 c with
      | mk st1 out =>
        rw [hex] at hs
        simp only at hs
        obtain ⟨hfix1, hcfg1, hbag1, hend1, hpool1, hsm⟩ := hs
        rw [e0.1] at hsm
        cases out with
        | batch l =>
          simp only
          have hbi := exec_batch_inv st0 c l (by rw [hex])
          have hcl : c = .batch l := hbi.1
          subst hcl
          have hst1 : st1 = st0 := by have := hbi.2; rw [hex] at this; exact this
          subst hst1
          refine ⟨⟨by show st1.fix.shadow = true; rw [e0.2.2.1]; exact h.inv.fix,
            by show st1.stages.WF; rw [e0.1]; exact h.inv.wf, by show st1.stages.StagesOK; rw [e0.1]; exact h.inv.ok,
            by show st1.stages.offset ≤ _; rw [e0.1]; exact h.inv.off, ?_⟩, ?_⟩
          · show BagOK st1.stages st1.pool (atomsList (st1.bag ++ l))
            rw [e0.1, e0.2.1, e0.2.2.2.2, atomsList_append]
            refine hbag.perm ?_
            simp only [Cmd.atoms]
            exact List.perm_append_comm
          · intro err; show st1.ended ≠ _; rw [e0.2.2.2.1]; exact h.noPanic err
        | quit b =>
          simp only
          have hbagA : BagOK st.stages st.pool (atomsList (st.bag.eraseIdx idx)) :=
            hbag.sublist (List.sublist_append_right _ _)
          refine ⟨⟨by show st1.fix.shadow = true; rw [hfix1, e0.2.2.1]; exact h.inv.fix,
            hsm.wf h.inv.wf, hsm.ok h.inv.ok,
            by show st1.stages.offset ≤ _; rw [hsm.offset, hsm.global]; exact h.inv.off, ?_⟩, ?_⟩
          · show BagOK st1.stages st1.pool (atomsList st1.bag)
            rw [hbag1, e0.2.2.2.2, hpool1, e0.2.1]
            exact hbagA.sameMatrix hsm
          · intro err hc'; split at hc' <;> cases hc'
        | msg m =>
          simp only
          have hnb : ∀ l, c ≠ .batch l := by intro l hl; subst hl; simp [exec] at hex
          rw [atoms_of_not_batch c hnb] at hbag
          have hbagA : BagOK st.stages st.pool (atomsList (st.bag.eraseIdx idx)) :=
            hbag.sublist (List.sublist_append_right _ _)
          have hpre : MsgPre st1.stages st1.pool (atomsList (st.bag.eraseIdx idx)) m := by
            have := exec_msg_pre st0 c (atomsList (st.bag.eraseIdx idx)) m (by rw [e0.1, e0.2.1]; exact hbag) (by rw [hex])
            rw [hex] at this; exact this
          have hbag1' : BagOK st1.stages st1.pool (atomsList (st.bag.eraseIdx idx)) := by
            rw [hpool1, e0.2.1]; exact hbagA.sameMatrix hsm
          obtain ⟨st2, oc, hupd, hpost⟩ := update_spec st1 _ m e (by rw [hfix1, e0.2.2.1]; exact h.inv.fix)
            (hsm.wf h.inv.wf) (hsm.ok h.inv.ok) (by rw [hsm.offset, hsm.global]; exact h.inv.off) hbag1' hpre
          rw [hupd]
          have hfix2 : st2.fix.shadow = true := by rw [hpost.fix, hfix1, e0.2.2.1]; exact h.inv.fix
          have hend2 : ∀ err, st2.ended ≠ some (.panic err) := by
            intro err; rw [hpost.endE, hend1, e0.2.2.2.1]; exact h.noPanic err
          cases oc with
          | none =>
            simp only
            refine ⟨⟨hfix2, hpost.wf, hpost.ok, hpost.off, ?_⟩, hend2⟩
            show BagOK st2.stages st2.pool (atomsList st2.bag)
            rw [hpost.bagE, hbag1, e0.2.2.2.2]
            have := hpost.bag
            rw [optAtoms_none, List.append_nil] at this
            exact this
          | some c' =>
            simp only
            refine ⟨⟨hfix2, hpost.wf, hpost.ok, hpost.off, ?_⟩, hend2⟩
            show BagOK st2.stages st2.pool (atomsList (st2.bag ++ [c']))
            rw [hpost.bagE, hbag1, e0.2.2.2.2, atomsList_append]
            have := hpost.bag
            rw [optAtoms_some] at this
            simpa [atomsList] using this

/-! ### units only move forward -/

theorem tryMergeList_mono : ∀ (l : List Nat) (s s' : Stages) (cmds : List (Option Cmd)), s.WF →
    tryMergeList l s = .ok (s', cmds) → Mono s s' := by
  intro l
  induction l with
  | nil => intro s s' cmds _ h; simp only [tryMergeList] at h; injection h with h; injection h with h1 _; subst h1; exact Mono.refl _
  | cons i rest ih =>
    intro s s' cmds hw h
    simp only [tryMergeList] at h
    split at h
    · cases h
    · rename_i s1 t h1
      split at h
      · cases h
      · rename_i s2 l2 h2
        injection h with h; injection h with h3 _; subst h3
        have hw1 : s1.WF := by
          cases t with
          | merge u => exact (cmdTryMerge_merge h1 hw).2.2.2.2.2.2.wf hw
          | allStoresCompleted => rw [cmdTryMerge_other h1 (by intro u; simp)]; exact hw
          | nothing => rw [cmdTryMerge_other h1 (by intro u; simp)]; exact hw
          | notReady u' => rw [cmdTryMerge_other h1 (by intro u; simp)]; exact hw
        exact (cmdTryMerge_mono h1 hw).trans (ih s1 s2 l2 hw1 h2)

theorem update_mono (st st' : State) (m : Msg) (e : Bool) (oc : Option Cmd) (hf : st.fix.shadow = true)
    (hw : st.stages.WF) (h : update st m e = .ok (st', oc)) : Mono st.stages st'.stages := by
  cases m with
  | jobSucceeded u w =>
    unfold update at h
    simp only at h
    split at h
    · cases h
    · rename_i s1 sh h1
      split at h
      · cases h
      · split at h
        · cases h
        · rename_i s2 tm h2
          injection h with h; injection h with h3 _; subst h3
          have hw1 := (markJobSuccess_tstep h1).wf hw
          exact (markJobSuccess_mono h1 hw).trans (tryMergeList_mono _ s1 s2 tm hw1 h2)
  | scheduleNextJob =>
    unfold update at h
    simp only at h
    split at h
    · split at h
      · injection h with h; injection h with h3 _; subst h3; exact Mono.refl _
      · injection h with h; injection h with h3 _; subst h3; exact Mono.refl _
    · split at h
      · cases h
      · rename_i s1 hnj
        injection h with h; injection h with h3 _; subst h3
        exact nextJob_mono st.fix hf _ s1 _ hw hnj
      · rename_i s1 u r hnj
        split at h
        · cases h
        · injection h with h; injection h with h3 _; subst h3
          exact nextJob_mono st.fix hf _ s1 _ hw hnj
  | mergeFinished u =>
    unfold update at h
    simp only at h
    split at h
    · cases h
    · rename_i s1 h1
      split at h
      · cases h
      · rename_i s2 t h2
        injection h with h; injection h with h3 _; subst h3
        obtain ⟨_, _, _, _, _, _, _, hw1, _, _⟩ := mergeCompleted_spec h1 hw
        exact (mergeCompleted_mono h1 hw).trans (cmdTryMerge_mono h2 hw1)
  | jobFailed => simp only [update] at h; injection h with h; injection h with h3 _; subst h3; exact Mono.refl _
  | mergeFailed u => simp only [update] at h; injection h with h; injection h with h3 _; subst h3; exact Mono.refl _
  | mergeNotReady u => simp only [update] at h; injection h with h; injection h with h3 _; subst h3; exact Mono.refl _
  | allStoresCompleted => simp only [update] at h; injection h with h; injection h with h3 _; subst h3; exact Mono.refl _
  | fileNotPresent => simp only [update] at h; injection h with h; injection h with h3 _; subst h3; exact Mono.refl _
  | fileDownloaded => simp only [update] at h; injection h with h; injection h with h3 _; subst h3; exact Mono.refl _
  | walkerCompleted => simp only [update] at h; injection h with h; injection h with h3 _; subst h3; exact Mono.refl _
  | downloadSegment =>
    unfold update at h
    simp only at h
    split at h
    · injection h with h; injection h with h3 _; subst h3; exact Mono.refl _
    · split at h
      · injection h with h; injection h with h3 _; subst h3; exact Mono.refl _
      · split at h <;> (injection h with h; injection h with h3 _; subst h3; exact Mono.refl _)

/-- no unit ever moves backwards (patched `markShadowedUnits`) -/
theorem step_mono (st : State) (idx : Nat) (e : Bool) (h : Good st) : Mono st.stages (step st idx e).stages := by
  unfold step
  split
  · exact Mono.refl _
  · split
    · exact Mono.refl _
    · rename_i c hc
      simp only
      generalize hst0 : ({ st with bag := st.bag.eraseIdx idx } : State) = st0
      have e0 : st0.stages = st.stages ∧ st0.fix = st.fix := by subst hst0; exact ⟨rfl, rfl⟩
      have hs := exec_same st0 c
      cases hex : exec st0 c with
      | mk st1 out =>
        rw [hex] at hs
        simp only at hs
        obtain ⟨hfix1, _, _, _, _, hsm⟩ := hs
        rw [e0.1] at hsm
        have m01 : Mono st.stages st1.stages := Mono.of_eq hsm.get
        cases out with
        | batch l => exact m01
        | quit b => exact m01
        | msg m =>
          simp only
          cases hupd : update st1 m e with
          | error err => exact m01
          | ok r =>
            obtain ⟨st2, oc⟩ := r
            have := update_mono st1 st2 m e oc (by rw [hfix1, e0.2]; exact h.inv.fix) (hsm.wf h.inv.wf) hupd
            cases oc with
            | none => exact m01.trans this
            | some c' => exact m01.trans this

/-! ### merges in flight are for the stage's next segment, after a complete one -/

structure MergeOK (s : Stages) (A : List Cmd) : Prop where
  prev : ∀ u, Cmd.merge u ∈ A → s.previousUnitComplete u = true
  next : ∀ u, Cmd.merge u ∈ A → ∃ i, (s.stageAt i).kind = .store ∧ u = ⟨(s.stageAt i).next, (s.stageAt i).idx⟩

/-- Completed and NoOp cells are kept -/
def StableCN (s s' : Stages) : Prop :=
  ∀ seg stg, (s.getState seg stg = .completed ∨ s.getState seg stg = .noOp) → s'.getState seg stg = s.getState seg stg

theorem StableCN.refl (s : Stages) : StableCN s s := fun _ _ _ => rfl
theorem StableCN.trans {a b c : Stages} (h1 : StableCN a b) (h2 : StableCN b c) : StableCN a c := by
  intro seg stg hst
  have e1 := h1 seg stg hst
  rw [h2 seg stg (by rw [e1]; exact hst), e1]

theorem StableCN.of_step {T : Nat → Nat → Prop} {s s' : Stages} (h : Step T s s')
    (hT : ∀ seg stg, T seg stg → s.getState seg stg ≠ .completed ∧ s.getState seg stg ≠ .noOp) : StableCN s s' := by
  intro seg stg hst
  apply h.frame seg stg
  · intro hc
    have := hT seg stg hc
    rcases hst with e | e
    · exact this.1 e
    · exact this.2 e
  · rcases hst with e | e <;> rw [e] <;> simp

theorem previousUnitComplete_stable {s s' : Stages} (h : StableCN s s') (u : WorkUnit) (hp : s.previousUnitComplete u = true) :
    s'.previousUnitComplete u = true := by
  unfold Stages.previousUnitComplete Stages.getStatePrev at hp ⊢
  simp only at hp ⊢
  split
  · simp
  · rename_i hne
    simp only [hne, if_false] at hp
    have : s.getState (u.seg - 1) u.stage = .completed ∨ s.getState (u.seg - 1) u.stage = .noOp := by
      simpa [Bool.or_eq_true, beq_iff_eq] using hp
    rw [h _ _ this]
    simpa [Bool.or_eq_true, beq_iff_eq] using this

theorem MergeOK.change {s s' : Stages} {A : List Cmd} (h : MergeOK s A) (hcn : StableCN s s') (hst : s'.stages = s.stages) :
    MergeOK s' A :=
  ⟨fun u hm => previousUnitComplete_stable hcn u (h.prev u hm),
   fun u hm => by unfold Stages.stageAt; rw [hst]; exact h.next u hm⟩

theorem MergeOK.sublist {s : Stages} {A B : List Cmd} (h : MergeOK s A) (hs : B.Sublist A) : MergeOK s B :=
  ⟨fun u hm => h.prev u (hs.subset hm), fun u hm => h.next u (hs.subset hm)⟩

theorem MergeOK.perm {s : Stages} {A B : List Cmd} (h : MergeOK s A) (hp : A.Perm B) : MergeOK s B :=
  ⟨fun u hm => h.prev u (hp.mem_iff.2 hm), fun u hm => h.next u (hp.mem_iff.2 hm)⟩

theorem MergeOK.append {s : Stages} {A B : List Cmd} (h1 : MergeOK s A) (h2 : MergeOK s B) : MergeOK s (A ++ B) :=
  ⟨fun u hm => by rcases List.mem_append.1 hm with hm | hm; exact h1.prev u hm; exact h2.prev u hm,
   fun u hm => by rcases List.mem_append.1 hm with hm | hm; exact h1.next u hm; exact h2.next u hm⟩

theorem MergeOK.of_no_merge (s : Stages) (B : List Cmd) (h : ∀ c ∈ B, c.mergeUnit = none) : MergeOK s B :=
  ⟨fun u hm => by have := h _ hm; simp [Cmd.mergeUnit] at this,
   fun u hm => by have := h _ hm; simp [Cmd.mergeUnit] at this⟩

/-- the merges that `tryMergeList` starts satisfy `MergeOK` in the final matrix -/
theorem tryMergeList_mergeOK : ∀ (l : List Nat) (s s' : Stages) (cmds : List (Option Cmd)), s.WF →
    tryMergeList l s = .ok (s', cmds) → MergeOK s' (cmds.filterMap id) := by
  intro l
  induction l with
  | nil =>
    intro s s' cmds _ h
    simp only [tryMergeList] at h
    injection h with h; injection h with _ h2; subst h2
    exact MergeOK.of_no_merge _ _ (by intro c hc; simp at hc)
  | cons i rest ih =>
    intro s s' cmds hw h
    simp only [tryMergeList] at h
    split at h
    · cases h
    · rename_i s1 t h1
      split at h
      · cases h
      · rename_i s2 l2 h2
        injection h with h; injection h with h3 h4; subst h3; subst h4
        have hw1 : s1.WF := by
          cases t with
          | merge u => exact (cmdTryMerge_merge h1 hw).2.2.2.2.2.2.wf hw
          | allStoresCompleted => rw [cmdTryMerge_other h1 (by intro u; simp)]; exact hw
          | nothing => rw [cmdTryMerge_other h1 (by intro u; simp)]; exact hw
          | notReady u' => rw [cmdTryMerge_other h1 (by intro u; simp)]; exact hw
        have hrest := ih s1 s2 l2 hw1 h2
        obtain ⟨t2, _, _, _⟩ := tryMergeList_spec rest s1 s2 l2 hw1 h2
        have hcn2 : StableCN s1 s2 := StableCN.of_step t2.step (by
          intro seg stg hT; rw [hT]; simp)
        cases t with
        | merge u =>
          have sp := cmdTryMerge_merge h1 hw
          have hstages1 : s1.stages = s.stages := sp.2.2.2.2.2.2.rest.stages
          have hcn1 : StableCN s s1 := StableCN.of_step sp.2.2.2.2.2.2.step (by
            intro seg stg hT; rw [hT.1, hT.2, sp.2.2.2.1]; simp)
          have hfirst : MergeOK s2 [Cmd.merge u] := by
            refine ⟨?_, ?_⟩
            · intro u' hm; simp at hm; subst hm
              exact previousUnitComplete_stable (hcn1.trans hcn2) u' sp.2.2.2.2.1
            · intro u' hm; simp at hm; subst hm
              refine ⟨i, ?_, ?_⟩
              · unfold Stages.stageAt; rw [t2.rest.stages, hstages1]; exact sp.2.1
              · have : s2.stageAt i = s.stageAt i := by unfold Stages.stageAt; rw [t2.rest.stages, hstages1]
                rw [this]; exact sp.1
          simpa [tryMergeCmd] using hfirst.append hrest
        | allStoresCompleted =>
          simp only [tryMergeCmd, List.filterMap_cons, id]
          exact (MergeOK.of_no_merge s2 [Cmd.allStoresCompleted] (by intro c hc; simp at hc; subst hc; rfl)).append hrest
        | nothing => simpa [tryMergeCmd] using hrest
        | notReady u' =>
          simp only [tryMergeCmd, List.filterMap_cons, id]
          exact (MergeOK.of_no_merge s2 [Cmd.mergeNotReady u'] (by intro c hc; simp at hc; subst hc; rfl)).append hrest

/-! ### the initial state -/

theorem BagOK.nil (s : Stages) (p : Pool) : BagOK s p [] :=
  ⟨nofun, List.nodup_nil, List.nodup_nil, nofun, List.nodup_nil⟩

theorem ite_some_toList (p : Prop) [Decidable p] (a : Cmd) : ∀ x ∈ (if p then some a else none).toList, x = a := by
  intro x hx
  split at hx
  · simpa using hx
  · cases hx

/-- the atoms of the initial batch `[dl, N, all, batch tm]` -/
theorem init_atoms (dl all : Option Cmd) (tm : List (Option Cmd))
    (hdl : ∀ x ∈ dl.toList, x = Cmd.downloadSegment) (hall : ∀ x ∈ all.toList, x = Cmd.allStoresCompleted)
    (htm : atomsList (tm.filterMap id) = tm.filterMap id) :
    ∃ B, (atomsList ([dl, some Cmd.scheduleNextJob, all, mkBatch tm].filterMap id)).Perm (tm.filterMap id ++ B) ∧
      ∀ x ∈ B, x.plain := by
  refine ⟨dl.toList ++ [Cmd.scheduleNextJob] ++ all.toList, ?_, ?_⟩
  · have hmb : optAtoms (mkBatch tm) = tm.filterMap id := by rw [optAtoms_mkBatch]; exact htm
    have e1 : atomsList ([dl, some Cmd.scheduleNextJob, all, mkBatch tm].filterMap id) =
        (dl.toList ++ [Cmd.scheduleNextJob] ++ all.toList) ++ tm.filterMap id := by
      rw [← hmb]
      cases dl with
      | none =>
        cases all with
        | none => cases hmk : mkBatch tm <;> simp [atomsList, Cmd.atoms, optAtoms]
        | some a =>
          have := hall a (by simp); subst this
          cases hmk : mkBatch tm <;> simp [atomsList, Cmd.atoms, optAtoms]
      | some d =>
        have := hdl d (by simp); subst this
        cases all with
        | none => cases hmk : mkBatch tm <;> simp [atomsList, Cmd.atoms, optAtoms]
        | some a =>
          have := hall a (by simp); subst this
          cases hmk : mkBatch tm <;> simp [atomsList, Cmd.atoms, optAtoms]
    rw [e1]; exact List.perm_append_comm
  · intro x hx
    simp only [List.mem_append, List.mem_singleton] at hx
    rcases hx with (hx | hx) | hx
    · rw [hdl x hx]; exact ⟨rfl, rfl, rfl⟩
    · subst hx; exact ⟨rfl, rfl, rfl⟩
    · rw [hall x hx]; exact ⟨rfl, rfl, rfl⟩

theorem init_good {c : Cfg} {fix : Patch} {files : Files} {st : State} (hc : c.OK) (hf : fix.shadow = true)
    (h : init c fix files = .ok st) : Good st := by
  unfold init at h
  split at h
  · cases h
  · rename_i s hs
    obtain ⟨hw, hok, hoff, _⟩ := initStages_base hc hs
    simp only at h
    split at h
    · cases h
    · rename_i s1 tm htm
      injection h with h; subst h
      obtain ⟨t, hm, hnd, hat⟩ := tryMergeList_spec _ s s1 tm hw htm
      refine ⟨⟨hf, t.wf hw, t.rest.stagesOK hok, ?_, ?_⟩, by intro e he; cases he⟩
      · show s1.offset ≤ s1.globalSeg.firstIndex
        rw [t.rest.offset, t.rest.globalSeg]; exact hoff
      · have hAm := BagOK.add_merges (BagOK.nil s (Pool.new c.workers)) (BagOK.nil s1 (Pool.new c.workers)) hm hnd hat
        rw [List.nil_append] at hAm
        have htm_atoms : atomsList (tm.filterMap id) = tm.filterMap id := atomsList_of_atomic _ (fun c hc => (hat c hc).1)
        show BagOK s1 (Pool.new c.workers) (optAtoms (mkBatch _))
        rw [optAtoms_mkBatch]
        have key : ∀ (dl all : Option Cmd), (∀ x ∈ dl.toList, x = Cmd.downloadSegment) →
            (∀ x ∈ all.toList, x = Cmd.allStoresCompleted) →
            BagOK s1 (Pool.new c.workers) (atomsList ([dl, some Cmd.scheduleNextJob, all, mkBatch tm].filterMap id)) := by
          intro dl all hdl hall
          obtain ⟨B, hperm, hB⟩ := init_atoms dl all tm hdl hall htm_atoms
          exact (hAm.append_plain hB).perm hperm.symm
        apply key
        · exact ite_some_toList _ _
        · exact ite_some_toList _ _

/-! ### second invariant: merges in flight are in order -/

/-- executing a command keeps `next`, `idx`, `kind` of every stage -/
theorem runMerge_stageAt {s s' : Stages} {u : WorkUnit} {f f' : Files} (h : runMerge s u f = some (s', f')) (i : Nat) :
    (s'.stageAt i).next = (s.stageAt i).next ∧ (s'.stageAt i).idx = (s.stageAt i).idx ∧
    (s'.stageAt i).kind = (s.stageAt i).kind ∧ s'.nStages = s.nStages := by
  unfold runMerge at h
  simp only at h
  split at h
  · cases h
  · injection h with h; injection h with h1 _; subst h1
    rw [setStage_stageAt, setStage_nStages]
    split
    · rename_i hc; rw [← hc.1]; exact ⟨rfl, rfl, rfl, rfl⟩
    · exact ⟨rfl, rfl, rfl, rfl⟩

structure Good2 (st : State) : Prop where
  good   : Good st
  merges : MergeOK st.stages st.inFlight
  idx    : st.stages.IdxPos

theorem mem_optAtoms_batch3 (x : Cmd) (a b c : Option Cmd) (h : x ∈ optAtoms (mkBatch [a, b, c])) :
    x ∈ optAtoms a ∨ x ∈ optAtoms b ∨ x ∈ optAtoms c := by
  rw [optAtoms_mkBatch] at h
  cases a <;> cases b <;> cases c <;>
    simp only [List.filterMap_cons, List.filterMap_nil, id, atomsList_cons, atomsList, List.mem_append, List.append_nil,
      optAtoms_some, optAtoms_none, List.not_mem_nil, false_or, or_false] at h ⊢ <;>
    first | exact h | (cases h)

theorem mem_optAtoms_batch2 (x : Cmd) (a b : Option Cmd) (h : x ∈ optAtoms (mkBatch [a, b])) :
    x ∈ optAtoms a ∨ x ∈ optAtoms b := by
  rw [optAtoms_mkBatch] at h
  cases a <;> cases b <;>
    simp only [List.filterMap_cons, List.filterMap_nil, id, atomsList_cons, atomsList, List.mem_append, List.append_nil,
      optAtoms_some, optAtoms_none, List.not_mem_nil, false_or, or_false] at h ⊢ <;>
    first | exact h | (cases h)

/-- a merge among the atoms of the answer to `MsgJobSucceeded` is one of the try-merge commands -/
theorem jobSucceeded_answer_merges (sh : List WorkUnit) (tm : List (Option Cmd)) (dl : Option Cmd)
    (hdl : ∀ c ∈ dl.toList, c = Cmd.downloadSegment) (hat : ∀ c ∈ tm.filterMap id, c.atomic) (u' : WorkUnit)
    (h : Cmd.merge u' ∈ optAtoms (mkBatch [if sh.isEmpty then tm.headD none else mkBatch tm, some Cmd.scheduleNextJob, dl])) :
    Cmd.merge u' ∈ tm.filterMap id := by
  have htm_atoms : atomsList (tm.filterMap id) = tm.filterMap id := atomsList_of_atomic _ hat
  rcases mem_optAtoms_batch3 _ _ _ _ h with hs | hs | hs
  · split at hs
    · cases htm : tm with
      | nil => rw [htm] at hs; simp [optAtoms, atomsList] at hs
      | cons x xs =>
        rw [htm] at hs
        simp only [List.headD_cons] at hs
        cases x with
        | none => simp [optAtoms, atomsList] at hs
        | some c0 =>
          rw [optAtoms_some] at hs
          have hc0 : c0 ∈ tm.filterMap id := by rw [htm]; simp
          have := hat c0 hc0
          unfold Cmd.atomic at this
          rw [this] at hs
          simp at hs; subst hs
          simp
    · rw [optAtoms_mkBatch, htm_atoms] at hs; exact hs
  · rw [optAtoms_some] at hs; simp [Cmd.atoms] at hs
  · cases dl with
    | none => rw [optAtoms_none] at hs; cases hs
    | some d =>
      have := hdl d (by simp); subst this
      rw [optAtoms_some] at hs; simp [Cmd.atoms] at hs

theorem stageAt_store_lt (s : Stages) (i : Nat) (h : (s.stageAt i).kind = .store) : i < s.nStages := by
  apply Nat.lt_of_not_le
  intro hc
  unfold Stages.stageAt at h
  rw [List.getD_eq_getElem?_getD, List.getElem?_eq_none hc] at h
  cases h

theorem previousUnitComplete_congr {s s' : Stages} (h : ∀ seg stg, s'.getState seg stg = s.getState seg stg) (u : WorkUnit) :
    s'.previousUnitComplete u = s.previousUnitComplete u := by
  unfold Stages.previousUnitComplete Stages.getStatePrev
  simp only
  split
  · rfl
  · rw [h]

/-- what `update` does to the merges in flight -/
theorem update_mergeOK (st st' : State) (A : List Cmd) (m : Msg) (e : Bool) (oc : Option Cmd) (hf : st.fix.shadow = true)
    (hw : st.stages.WF) (hoff : st.stages.offset ≤ st.stages.globalSeg.firstIndex)
    (hpre : MsgPre st.stages st.pool A m)
    (hM : MergeOK st.stages A) (hidx : st.stages.IdxPos)
    (hM0 : ∀ u0, m = .mergeFinished u0 → ∃ i, (st.stages.stageAt i).kind = .store ∧
      u0 = ⟨(st.stages.stageAt i).next, (st.stages.stageAt i).idx⟩)
    (h : update st m e = .ok (st', oc)) :
    MergeOK st'.stages (A ++ optAtoms oc) ∧ st'.stages.IdxPos := by
  cases m with
  | scheduleNextJob =>
    unfold update at h
    simp only at h
    split at h
    · split at h
      · injection h with h; injection h with h3 h4; subst h3; subst h4
        rw [optAtoms_none, List.append_nil]; exact ⟨hM, hidx⟩
      · injection h with h; injection h with h3 h4; subst h3; subst h4
        refine ⟨hM.append (MergeOK.of_no_merge _ _ ?_), hidx⟩
        intro c hc; rw [optAtoms_mkBatch] at hc; simp [atomsList, Cmd.atoms] at hc; subst hc; rfl
    · split at h
      · cases h
      · rename_i s1 hnj
        injection h with h; injection h with h3 h4; subst h3; subst h4
        have hp : PStep st.stages s1 := nextJob_spec st.fix hf _ s1 none hw hoff hnj
        rw [optAtoms_none, List.append_nil]
        exact ⟨hM.change (StableCN.of_step hp (fun _ _ hF => hF.elim)) hp.rest.stages, hp.rest.idxPos hidx⟩
      · rename_i s1 u r hnj
        split at h
        · cases h
        · injection h with h; injection h with h3 h4; subst h3; subst h4
          have hch : Chosen st.fix st.stages s1 u r := nextJob_spec st.fix hf _ s1 (some (u, r)) hw hoff hnj
          have hp := hch.pstep
          refine ⟨(hM.change (StableCN.of_step hp (fun _ _ hF => hF.elim)) hp.rest.stages).append (MergeOK.of_no_merge _ _ ?_),
            hp.rest.idxPos hidx⟩
          intro c hc; rw [optAtoms_mkBatch] at hc; simp [atomsList, Cmd.atoms] at hc
          rcases hc with hc | hc <;> subst hc <;> rfl
  | jobSucceeded u w =>
    obtain ⟨hsched, _, _, _⟩ := hpre
    unfold update at h
    simp only at h
    split at h
    · cases h
    · rename_i s1 sh h1
      split at h
      · cases h
      · split at h
        · cases h
        · rename_i s2 tm h2
          injection h with h; injection h with h3 h4; subst h3; subst h4
          have t1 := markJobSuccess_tstep h1
          have hw1 := t1.wf hw
          obtain ⟨t2, hm2, hnd2, hat2⟩ := tryMergeList_spec _ s1 s2 tm hw1 h2
          have hcn1 : StableCN st.stages s1 := StableCN.of_step t1.step (by
            intro seg stg hT
            rcases hT.2 with e1 | e1
            · rw [hT.1, e1, hsched]; simp
            · rw [e1]; simp)
          have hcn2 : StableCN s1 s2 := StableCN.of_step t2.step (by intro seg stg hT; rw [hT]; simp)
          have hold : MergeOK s2 A := hM.change (hcn1.trans hcn2) (t1.rest.trans t2.rest).stages
          have hnew := tryMergeList_mergeOK _ s1 s2 tm hw1 h2
          have hmem : ∀ u', Cmd.merge u' ∈ optAtoms (mkBatch [if sh.isEmpty then tm.headD none else mkBatch tm,
              some Cmd.scheduleNextJob, if st.walker.isSome then some Cmd.downloadSegment else none]) →
              Cmd.merge u' ∈ tm.filterMap id :=
            fun u' hu' => jobSucceeded_answer_merges sh tm _ (ite_some_toList _ _) (fun c hc => (hat2 c hc).1) u' hu'
          exact ⟨hold.append ⟨fun u' hu' => hnew.prev u' (hmem u' hu'), fun u' hu' => hnew.next u' (hmem u' hu')⟩,
            (t1.rest.trans t2.rest).idxPos hidx⟩
  | mergeFinished u0 =>
    obtain ⟨hmerging, hunew⟩ := hpre
    unfold update at h
    simp only at h
    split at h
    · cases h
    · rename_i s1 h1
      split at h
      · cases h
      · rename_i s2 t h2
        injection h with h; injection h with h3 h4; subst h3; subst h4
        obtain ⟨s0, hs0, hs1⟩ := mergeCompleted_eq h1
        have t0 := transition_tstep hs0
        have hw0 := t0.wf hw
        have hw1 : s1.WF := by rw [hs1]; exact (moveForward_keep s0 u0.stage).wf hw0
        have hget : ∀ seg stg, s1.getState seg stg = s0.getState seg stg := by
          intro seg stg; rw [hs1]; exact moveForward_getState s0 _ seg stg
        have hcn0 : StableCN st.stages s0 := StableCN.of_step t0.step (by
          intro seg stg hT; rw [hT.1, hT.2, hmerging]; simp)
        obtain ⟨i0, hk0, hu0⟩ := hM0 u0 rfl
        have hi0 : i0 < st.stages.nStages := stageAt_store_lt _ _ hk0
        have hpos0 : u0.stage = i0 := by rw [hu0]; exact hidx i0 hi0 hk0
        -- the old merges, seen from s1
        have hold1 : MergeOK s1 A := by
          refine ⟨?_, ?_⟩
          · intro u hu
            rw [previousUnitComplete_congr hget u]
            exact previousUnitComplete_stable hcn0 u (hM.prev u hu)
          · intro u hu
            obtain ⟨i, hk, hui⟩ := hM.next u hu
            have hne : i ≠ u0.stage := by
              intro hc
              apply hunew
              have : u = u0 := by rw [hui, hu0, hc, hpos0]
              subst this
              exact List.mem_filterMap.2 ⟨_, hu, rfl⟩
            have hst := moveForward_stageAt s0 u0.stage i
            have hs0st : s0.stageAt i = st.stages.stageAt i := t0.rest.stageAt i
            refine ⟨i, ?_, ?_⟩
            · rw [hs1, hst.2.1, hs0st]; exact hk
            · rw [hs1, hst.1, hst.2.2.2.1 hne, hs0st]; exact hui
        have hidx1 : s1.IdxPos := by rw [hs1]; exact moveForward_idxPos s0 _ (t0.rest.idxPos hidx)
        -- then CmdTryMerge
        have hlist : tryMergeList [u0.stage] s1 = .ok (s2, [tryMergeCmd t]) := by simp [tryMergeList, h2]
        obtain ⟨t2, _, _, hat2⟩ := tryMergeList_spec _ s1 s2 _ hw1 hlist
        have hcn2 : StableCN s1 s2 := StableCN.of_step t2.step (by intro seg stg hT; rw [hT]; simp)
        have hnew := tryMergeList_mergeOK _ s1 s2 _ hw1 hlist
        have hold2 : MergeOK s2 A := hold1.change hcn2 t2.rest.stages
        refine ⟨hold2.append ⟨?_, ?_⟩, t2.rest.idxPos hidx1⟩
        all_goals
          intro u' hu'
          have hmem : Cmd.merge u' ∈ [tryMergeCmd t].filterMap id := by
            rcases mem_optAtoms_batch2 _ _ _ hu' with hs | hs
            · rw [optAtoms_some] at hs; simp [Cmd.atoms] at hs
            · cases htc : tryMergeCmd t with
              | none => rw [htc, optAtoms_none] at hs; cases hs
              | some c0 =>
                rw [htc, optAtoms_some] at hs
                have := (tryMergeCmd_atomic t c0 htc).1
                unfold Cmd.atomic at this
                rw [this] at hs
                simp at hs; subst hs; simp
          first
            | exact hnew.prev u' hmem
            | exact hnew.next u' hmem
  | jobFailed =>
    simp only [update] at h; injection h with h; injection h with h3 h4; subst h3; subst h4
    exact ⟨hM.append (MergeOK.of_no_merge _ _ (by
      intro c hc; rw [optAtoms_mkBatch] at hc; simp [atomsList, Cmd.atoms] at hc; subst hc; rfl)), hidx⟩
  | mergeFailed u =>
    simp only [update] at h; injection h with h; injection h with h3 h4; subst h3; subst h4
    exact ⟨hM.append (MergeOK.of_no_merge _ _ (by
      intro c hc; rw [optAtoms_mkBatch] at hc; simp [atomsList, Cmd.atoms] at hc; subst hc; rfl)), hidx⟩
  | mergeNotReady u =>
    simp only [update] at h; injection h with h; injection h with h3 h4; subst h3; subst h4
    rw [optAtoms_none, List.append_nil]; exact ⟨hM, hidx⟩
  | allStoresCompleted =>
    simp only [update] at h; injection h with h; injection h with h3 h4; subst h3; subst h4
    refine ⟨hM.append (MergeOK.of_no_merge _ _ ?_), hidx⟩
    intro c hc
    rcases mem_optAtoms_batch2 _ _ _ hc with hs | hs
    · rw [optAtoms_some] at hs; simp [Cmd.atoms] at hs; subst hs; rfl
    · unfold cmdShutdownWhenComplete at hs
      simp only at hs
      split at hs
      · split at hs
        · rw [optAtoms_some] at hs; simp [Cmd.atoms] at hs; subst hs; rfl
        · split at hs
          · rw [optAtoms_none] at hs; cases hs
          · rw [optAtoms_some] at hs; simp [Cmd.atoms] at hs; subst hs; rfl
      · rw [optAtoms_none] at hs; cases hs
  | fileNotPresent =>
    simp only [update] at h; injection h with h; injection h with h3 h4; subst h3; subst h4
    exact ⟨hM.append (MergeOK.of_no_merge _ _ (by
      intro c hc; rw [optAtoms_mkBatch] at hc; simp [atomsList, Cmd.atoms] at hc; subst hc; rfl)), hidx⟩
  | fileDownloaded =>
    simp only [update] at h; injection h with h; injection h with h3 h4; subst h3; subst h4
    exact ⟨hM.append (MergeOK.of_no_merge _ _ (by
      intro c hc; rw [optAtoms_mkBatch] at hc; simp [atomsList, Cmd.atoms] at hc; subst hc; rfl)), hidx⟩
  | walkerCompleted =>
    simp only [update] at h; injection h with h; injection h with h3 h4; subst h3; subst h4
    refine ⟨hM.append (MergeOK.of_no_merge _ _ ?_), hidx⟩
    intro c hs
    unfold cmdShutdownWhenComplete at hs
    simp only at hs
    split at hs
    · split at hs
      · rw [optAtoms_some] at hs; simp [Cmd.atoms] at hs; subst hs; rfl
      · split at hs
        · rw [optAtoms_none] at hs; cases hs
        · rw [optAtoms_some] at hs; simp [Cmd.atoms] at hs; subst hs; rfl
    · rw [optAtoms_none] at hs; cases hs
  | downloadSegment =>
    unfold update at h
    simp only at h
    split at h
    · injection h with h; injection h with h3 h4; subst h3; subst h4
      rw [optAtoms_none, List.append_nil]; exact ⟨hM, hidx⟩
    · split at h
      · injection h with h; injection h with h3 h4; subst h3; subst h4
        rw [optAtoms_none, List.append_nil]; exact ⟨hM, hidx⟩
      · split at h
        · injection h with h; injection h with h3 h4; subst h3; subst h4
          refine ⟨hM.append (MergeOK.of_no_merge _ _ ?_), hidx⟩
          intro c hc; rw [optAtoms_some] at hc; simp [Cmd.atoms] at hc; subst hc; rfl
        · injection h with h; injection h with h3 h4; subst h3; subst h4
          refine ⟨hM.append (MergeOK.of_no_merge _ _ ?_), hidx⟩
          intro c hc; rw [optAtoms_mkBatch] at hc; simp [atomsList, Cmd.atoms] at hc; subst hc; rfl

/-- executing a command keeps the stage skeleton -/
theorem exec_stageAt (st : State) (c : Cmd) (i : Nat) :
    ((exec st c).1.stages.stageAt i).next = (st.stages.stageAt i).next ∧
    ((exec st c).1.stages.stageAt i).idx = (st.stages.stageAt i).idx ∧
    ((exec st c).1.stages.stageAt i).kind = (st.stages.stageAt i).kind ∧
    (exec st c).1.stages.nStages = st.stages.nStages := by
  cases c with
  | merge u =>
    unfold exec
    simp only
    split
    · exact ⟨rfl, rfl, rfl, rfl⟩
    · rename_i s' f' h; exact runMerge_stageAt h i
  | downloadCurrent seg =>
    unfold exec
    simp only
    split
    · exact ⟨rfl, rfl, rfl, rfl⟩
    · split
      · exact ⟨rfl, rfl, rfl, rfl⟩
      · split <;> exact ⟨rfl, rfl, rfl, rfl⟩
  | batch l => exact ⟨rfl, rfl, rfl, rfl⟩
  | scheduleNextJob => exact ⟨rfl, rfl, rfl, rfl⟩
  | allStoresCompleted => exact ⟨rfl, rfl, rfl, rfl⟩
  | mergeNotReady u => exact ⟨rfl, rfl, rfl, rfl⟩
  | downloadSegment => exact ⟨rfl, rfl, rfl, rfl⟩
  | walkerCompleted => exact ⟨rfl, rfl, rfl, rfl⟩
  | shutdown => exact ⟨rfl, rfl, rfl, rfl⟩
  | quit e => exact ⟨rfl, rfl, rfl, rfl⟩
  | tick => exact ⟨rfl, rfl, rfl, rfl⟩
  | job u sb w => exact ⟨rfl, rfl, rfl, rfl⟩

theorem MergeOK.exec {st : State} {A : List Cmd} (c : Cmd) (h : MergeOK st.stages A) : MergeOK (exec st c).1.stages A := by
  have hsm := (exec_same st c).2.2.2.2.2
  refine ⟨?_, ?_⟩
  · intro u hu
    rw [previousUnitComplete_congr hsm.get u]; exact h.prev u hu
  · intro u hu
    obtain ⟨i, hk, hui⟩ := h.next u hu
    have := exec_stageAt st c i
    exact ⟨i, by rw [this.2.2.1]; exact hk, by rw [this.1, this.2.1]; exact hui⟩

theorem IdxPos.exec {st : State} (c : Cmd) (h : st.stages.IdxPos) : (exec st c).1.stages.IdxPos := by
  intro i hi hk
  have := exec_stageAt st c i
  rw [this.2.2.2] at hi
  rw [this.2.2.1] at hk
  rw [this.2.1]; exact h i hi hk

theorem step_good2 (st : State) (idx : Nat) (e : Bool) (h : Good2 st) : Good2 (step st idx e) := by
  suffices aux : MergeOK (step st idx e).stages (step st idx e).inFlight ∧ (step st idx e).stages.IdxPos from
    ⟨step_good st idx e h.good, aux.1, aux.2⟩
  unfold step
  split
  · exact ⟨h.merges, h.idx⟩
  · split
    · exact ⟨h.merges, h.idx⟩
    · rename_i c hc
      simp only
      have hperm := atomsList_eraseIdx_perm st.bag idx c hc
      have hbag : BagOK st.stages st.pool (c.atoms ++ atomsList (st.bag.eraseIdx idx)) := h.good.inv.bag.perm hperm
      have hmrg : MergeOK st.stages (c.atoms ++ atomsList (st.bag.eraseIdx idx)) := h.merges.perm hperm
      generalize hst0 : ({ st with bag := st.bag.eraseIdx idx } : State) = st0
      have e0 : st0.stages = st.stages ∧ st0.pool = st.pool ∧ st0.fix = st.fix ∧ st0.ended = st.ended ∧
          st0.bag = st.bag.eraseIdx idx := by subst hst0; exact ⟨rfl, rfl, rfl, rfl, rfl⟩
      have hs := exec_same st0 c
      have hmx : MergeOK (exec st0 c).1.stages (c.atoms ++ atomsList (st.bag.eraseIdx idx)) := by
        apply MergeOK.exec; rw [e0.1]; exact hmrg
      have hix : (exec st0 c).1.stages.IdxPos := by apply IdxPos.exec; rw [e0.1]; exact h.idx
      cases hex : exec st0 c with
      | mk st1 out =>
        rw [hex] at hs hmx hix
        simp only at hs hmx hix
        obtain ⟨hfix1, hcfg1, hbag1, hend1, hpool1, hsm⟩ := hs
        rw [e0.1] at hsm
        cases out with
        | batch l =>
          simp only
          have hbi := exec_batch_inv st0 c l (by rw [hex])
          have hcl : c = .batch l := hbi.1
          subst hcl
          refine ⟨?_, hix⟩
          show MergeOK st1.stages (atomsList (st1.bag ++ l))
          rw [hbag1, e0.2.2.2.2, atomsList_append]
          refine hmx.perm ?_
          simp only [Cmd.atoms]
          exact List.perm_append_comm
        | quit b =>
          simp only
          refine ⟨?_, hix⟩
          show MergeOK st1.stages (atomsList st1.bag)
          rw [hbag1, e0.2.2.2.2]
          exact hmx.sublist (List.sublist_append_right _ _)
        | msg m =>
          simp only
          have hnb : ∀ l, c ≠ .batch l := by intro l hl; subst hl; simp [exec] at hex
          rw [atoms_of_not_batch c hnb] at hbag hmx
          have hbagA : BagOK st.stages st.pool (atomsList (st.bag.eraseIdx idx)) :=
            hbag.sublist (List.sublist_append_right _ _)
          have hpre : MsgPre st1.stages st1.pool (atomsList (st.bag.eraseIdx idx)) m := by
            have := exec_msg_pre st0 c (atomsList (st.bag.eraseIdx idx)) m (by rw [e0.1, e0.2.1]; exact hbag) (by rw [hex])
            rw [hex] at this; exact this
          have hmA : MergeOK st1.stages (atomsList (st.bag.eraseIdx idx)) := hmx.sublist (List.sublist_append_right _ _)
          have hM0 : ∀ u0, m = .mergeFinished u0 → ∃ i, (st1.stages.stageAt i).kind = .store ∧
              u0 = ⟨(st1.stages.stageAt i).next, (st1.stages.stageAt i).idx⟩ := by
            intro u0 hm0
            subst hm0
            -- the command was the merge of u0
            have hc0 : c = .merge u0 := by
              cases c with
              | merge u => unfold exec at hex; simp only at hex; split at hex <;> (injection hex with _ h2; injection h2 with h2) <;> first | (injection h2 with h2; subst h2; rfl) | cases h2
              | downloadCurrent seg =>
                unfold exec at hex; simp only at hex
                split at hex
                · injection hex with _ h2; injection h2 with h2; cases h2
                · split at hex
                  · injection hex with _ h2; injection h2 with h2; cases h2
                  · split at hex <;> (injection hex with _ h2; injection h2 with h2; cases h2)
              | batch l => simp [exec] at hex
              | scheduleNextJob => simp [exec] at hex
              | allStoresCompleted => simp [exec] at hex
              | mergeNotReady u => simp [exec] at hex
              | downloadSegment => simp [exec] at hex
              | walkerCompleted => simp [exec] at hex
              | shutdown => simp [exec] at hex
              | quit e => simp [exec] at hex
              | tick => simp [exec] at hex
              | job u sb w => simp [exec] at hex
            subst hc0
            exact hmx.next u0 (List.mem_cons_self)
          cases hupd : update st1 m e with
          | error err =>
            simp only
            refine ⟨?_, hix⟩
            show MergeOK st1.stages (atomsList st1.bag)
            rw [hbag1, e0.2.2.2.2]; exact hmA
          | ok r =>
            obtain ⟨st2, oc⟩ := r
            have hpost := update_mergeOK st1 st2 _ m e oc (by rw [hfix1, e0.2.2.1]; exact h.good.inv.fix)
              (hsm.wf h.good.inv.wf) (by rw [hsm.offset, hsm.global]; exact h.good.inv.off) hpre hmA hix hM0 hupd
            obtain ⟨st2', oc', hupd', hp'⟩ := update_spec st1 _ m e (by rw [hfix1, e0.2.2.1]; exact h.good.inv.fix)
              (hsm.wf h.good.inv.wf) (hsm.ok h.good.inv.ok) (by rw [hsm.offset, hsm.global]; exact h.good.inv.off)
              (by rw [hpool1, e0.2.1]; exact hbagA.sameMatrix hsm) hpre
            rw [hupd] at hupd'
            injection hupd' with hupd'; injection hupd' with e1 e2; subst e1; subst e2
            cases oc with
            | none =>
              simp only
              refine ⟨?_, hpost.2⟩
              show MergeOK st2.stages (atomsList st2.bag)
              rw [hp'.bagE, hbag1, e0.2.2.2.2]
              have := hpost.1
              rw [optAtoms_none, List.append_nil] at this; exact this
            | some c' =>
              simp only
              refine ⟨?_, hpost.2⟩
              show MergeOK st2.stages (atomsList (st2.bag ++ [c']))
              rw [hp'.bagE, hbag1, e0.2.2.2.2, atomsList_append]
              have := hpost.1
              rw [optAtoms_some] at this
              simpa [atomsList] using this

theorem init_good2 {c : Cfg} {fix : Patch} {files : Files} {st : State} (hc : c.OK) (hf : fix.shadow = true)
    (h : init c fix files = .ok st) : Good2 st := by
  suffices aux : MergeOK st.stages st.inFlight ∧ st.stages.IdxPos from ⟨init_good hc hf h, aux.1, aux.2⟩
  unfold init at h
  split at h
  · cases h
  · rename_i s hs
    obtain ⟨hw, hok, hoff, hidx⟩ := initStages_base hc hs
    simp only at h
    split at h
    · cases h
    · rename_i s1 tm htm
      injection h with h; subst h
      obtain ⟨t, hm, hnd, hat⟩ := tryMergeList_spec _ s s1 tm hw htm
      have hnew := tryMergeList_mergeOK _ s s1 tm hw htm
      refine ⟨?_, t.rest.idxPos hidx⟩
      show MergeOK s1 (optAtoms (mkBatch _))
      have htm_atoms : atomsList (tm.filterMap id) = tm.filterMap id := atomsList_of_atomic _ (fun c hc => (hat c hc).1)
      have key : ∀ (dl all : Option Cmd), (∀ x ∈ dl.toList, x = Cmd.downloadSegment) →
          (∀ x ∈ all.toList, x = Cmd.allStoresCompleted) →
          MergeOK s1 (optAtoms (mkBatch [dl, some Cmd.scheduleNextJob, all, mkBatch tm])) := by
        intro dl all hdl hall
        rw [optAtoms_mkBatch]
        obtain ⟨B, hperm, hB⟩ := init_atoms dl all tm hdl hall htm_atoms
        exact (hnew.append (MergeOK.of_no_merge s1 B (fun c hc => (hB c hc).2.2))).perm hperm.symm
      apply key
      · exact ite_some_toList _ _
      · exact ite_some_toList _ _

theorem reachable_good2 {c : Cfg} {fix : Patch} {files : Files} {st : State} (hc : c.OK) (hf : fix.shadow = true)
    (h : Reachable c fix files st) : Good2 st := by
  induction h with
  | init h0 => exact init_good2 hc hf h0
  | step idx e _ ih => exact step_good2 _ idx e ih

/-! ### the unit handed to a worker -/

theorem update_schedule_job {st st' : State} {e : Bool} {u : WorkUnit} {sb w : Nat} {rest : List Cmd}
    (h : update st .scheduleNextJob e = .ok (st', some (.batch (.job u sb w :: rest)))) :
    ∃ r, st.stages.nextJob st.fix = .ok (st'.stages, some (u, r)) := by
  unfold update at h
  simp only at h
  split at h
  · split at h
    · injection h with h; injection h with _ h4; cases h4
    · injection h with h; injection h with _ h4
      simp [mkBatch] at h4
  · split at h
    · cases h
    · injection h with h; injection h with _ h4; cases h4
    · rename_i s1 u' r hnj
      split at h
      · cases h
      · injection h with h; injection h with h3 h4
        subst h3
        simp [mkBatch] at h4
        exact ⟨r, by rw [hnj, h4.1.1]⟩

/-- when a step hands out a unit, the stages of the new state are those `update` produced -/
theorem handedOut_step {st : State} {idx : Nat} {e : Bool} {u : WorkUnit} (h : handedOut st idx e = some u) :
    ∃ r, st.stages.nextJob st.fix = .ok ((step st idx e).stages, some (u, r)) := by
  unfold handedOut at h
  split at h
  · cases h
  · rename_i hend
    have key : ∀ (c : Cmd), st.bag[idx]? = some c → (exec { st with bag := st.bag.eraseIdx idx } c) =
        ({ st with bag := st.bag.eraseIdx idx }, .msg .scheduleNextJob) →
        (match update { st with bag := st.bag.eraseIdx idx } .scheduleNextJob e with
          | .ok (_, some (.batch (.job u _ _ :: _))) => some u
          | _ => none) = some u →
        ∃ r, st.stages.nextJob st.fix = .ok ((step st idx e).stages, some (u, r)) := by
      intro c hc hex hm
      split at hm
      · rename_i st' u' sb w rest hupd
        injection hm with hm; subst hm
        obtain ⟨r, hr⟩ := update_schedule_job hupd
        refine ⟨r, ?_⟩
        have hstep : (step st idx e).stages = st'.stages := by
          unfold step
          simp only [hend, Bool.false_eq_true, if_false, hc, hex, hupd]
        rw [hstep]; exact hr
      · cases hm
    split at h
    · rename_i hc; exact key _ hc rfl h
    · rename_i hc; exact key _ hc rfl h
    · cases h

/-- the dependencies of the unit handed out (patched `dependenciesCompleted`) -/
theorem handedOut_deps {st : State} {idx : Nat} {e : Bool} {u : WorkUnit} (hg : Good st) (hd : st.fix.deps = true)
    (h : handedOut st idx e = some u) :
    (step st idx e).stages.getState u.seg u.stage = .scheduled ∧
    ∀ i, i < u.stage → (st.stages.stageAt i).seg.firstIndex ≤ u.seg →
      ((st.stages.stageAt i).seg.firstIndex < u.seg → (step st idx e).stages.previousUnitComplete ⟨u.seg, i⟩ = true) ∧
      ((step st idx e).stages.getState u.seg i = .completed ∨ (step st idx e).stages.getState u.seg i = .noOp ∨
       (step st idx e).stages.getState u.seg i = .shadowed ∨ (step st idx e).stages.getState u.seg i = .partialPresent) := by
  obtain ⟨r, hnj⟩ := handedOut_step h
  have hch : Chosen st.fix st.stages (step st idx e).stages u r :=
    nextJob_spec st.fix hg.inv.fix _ _ (some (u, r)) hg.inv.wf hg.inv.off hnj
  refine ⟨hch.scheduled, ?_⟩
  obtain ⟨s0, hp0, hw0, hdeps, hs'⟩ := hch.stage_eq hd
  intro i hi hfi
  unfold dependenciesCompleted at hdeps
  simp only [hd, if_true] at hdeps
  split at hdeps
  · omega
  · have hst0 : s0.stageAt i = st.stages.stageAt i := hp0.rest.stageAt i
    rcases depsLoopFix_spec s0 u.seg u.stage hdeps i hi with hb | ⟨hprev, hst⟩
    · rw [hst0] at hb; omega
    · have tr := transition_tstep hs'
      constructor
      · intro hlt
        have hp := hprev (by rw [hst0]; exact hlt)
        -- the previous segment's cell is not the one that was scheduled
        have hcn : StableCN s0 (step st idx e).stages := StableCN.of_step tr.step (by
          intro seg stg hT
          have hpu : s0.getState u.seg u.stage = .pending := by
            have := (transition_ok hs').1
            -- the allocated target was Pending; hence before the allocation too
            rcases getState_alloc s0 u.seg u.seg u.stage with ea | ⟨ea, _⟩
            · rw [ea] at this; simpa using this
            · exact ea
          rw [hT.1, hT.2, hpu]; simp)
        exact previousUnitComplete_stable hcn ⟨u.seg, i⟩ hp
      · have hne : ¬(u.seg = u.seg ∧ i = u.stage) := by intro hc; omega
        rcases tr.frame u.seg i hne with e1 | ⟨e1, _⟩
        · rw [e1]; exact hst
        · rw [e1] at hst; simp at hst

/-- delivering the result of a successful merge completes the unit -/
theorem step_merge_completes {st : State} {idx : Nat} {e : Bool} {u : WorkUnit} (hg : Good st) (hend : st.ended = none)
    (hc : st.bag[idx]? = some (.merge u)) (hrun : (runMerge st.stages u st.files).isSome) :
    (step st idx e).stages.getState u.seg u.stage = .completed := by
  have hperm := atomsList_eraseIdx_perm st.bag idx _ hc
  have hmerging : st.stages.getState u.seg u.stage = .merging :=
    (hg.inv.bag.perm hperm).merges u (by simp [Cmd.atoms])
  cases hr : runMerge st.stages u st.files with
  | none => rw [hr] at hrun; cases hrun
  | some p =>
    obtain ⟨s', f'⟩ := p
    have hsm := runMerge_sameMatrix hr
    unfold step
    have hnot : st.ended.isSome = false := by rw [hend]; rfl
    simp only [hnot, Bool.false_eq_true, if_false, hc]
    have hex : exec { st with bag := st.bag.eraseIdx idx } (.merge u) =
        ({ st with bag := st.bag.eraseIdx idx, stages := s', files := f' }, .msg (.mergeFinished u)) := by
      simp only [exec, hr]
    rw [hex]
    simp only
    have hm1 : s'.getState u.seg u.stage = .merging := by rw [hsm.get]; exact hmerging
    have hw1 : s'.WF := hsm.wf hg.inv.wf
    obtain ⟨s1, h1⟩ := mergeCompleted_ok s' u hw1 hm1
    obtain ⟨s0, t0, hw0, hget, _, _, _, hw1', _, hcompl⟩ := mergeCompleted_spec h1 hw1
    obtain ⟨⟨s2, t⟩, h2⟩ := cmdTryMerge_ok s1 u.stage hw1'
    have hupd : update { st with bag := st.bag.eraseIdx idx, stages := s', files := f' } (.mergeFinished u) e =
        .ok ({ st with bag := st.bag.eraseIdx idx, stages := s2, files := f' }, mkBatch [some .scheduleNextJob, tryMergeCmd t]) := by
      simp only [update, h1, h2]
    rw [hupd]
    have hc1 : s1.getState u.seg u.stage = .completed := hcompl hm1
    have hc2 : s2.getState u.seg u.stage = .completed := by
      obtain ⟨t2, _, _, _⟩ := tryMergeList_spec [u.stage] s1 s2 [tryMergeCmd t] hw1' (by simp [tryMergeList, h2])
      rcases t2.frame u.seg u.stage (by rw [hc1]; simp) with e1 | ⟨e1, _⟩
      · rw [e1]; exact hc1
      · rw [hc1] at e1; cases e1
    cases hmk : mkBatch [some Cmd.scheduleNextJob, tryMergeCmd t] with
    | none => exact hc2
    | some c' => exact hc2

/-! ### the patch flags and the configuration never change -/

theorem update_fix (st st' : State) (m : Msg) (e : Bool) (oc : Option Cmd) (h : update st m e = .ok (st', oc)) :
    st'.fix = st.fix ∧ st'.cfg = st.cfg := by
  cases m with
  | jobSucceeded u w =>
    unfold update at h
    simp only at h
    split at h
    · cases h
    · split at h
      · cases h
      · split at h
        · cases h
        · injection h with h; injection h with h3 _; subst h3; exact ⟨rfl, rfl⟩
  | scheduleNextJob =>
    unfold update at h
    simp only at h
    split at h
    · split at h <;> (injection h with h; injection h with h3 _; subst h3; exact ⟨rfl, rfl⟩)
    · split at h
      · cases h
      · injection h with h; injection h with h3 _; subst h3; exact ⟨rfl, rfl⟩
      · split at h
        · cases h
        · injection h with h; injection h with h3 _; subst h3; exact ⟨rfl, rfl⟩
  | mergeFinished u =>
    unfold update at h
    simp only at h
    split at h
    · cases h
    · split at h
      · cases h
      · injection h with h; injection h with h3 _; subst h3; exact ⟨rfl, rfl⟩
  | jobFailed => simp only [update] at h; injection h with h; injection h with h3 _; subst h3; exact ⟨rfl, rfl⟩
  | mergeFailed u => simp only [update] at h; injection h with h; injection h with h3 _; subst h3; exact ⟨rfl, rfl⟩
  | mergeNotReady u => simp only [update] at h; injection h with h; injection h with h3 _; subst h3; exact ⟨rfl, rfl⟩
  | allStoresCompleted => simp only [update] at h; injection h with h; injection h with h3 _; subst h3; exact ⟨rfl, rfl⟩
  | fileNotPresent => simp only [update] at h; injection h with h; injection h with h3 _; subst h3; exact ⟨rfl, rfl⟩
  | fileDownloaded => simp only [update] at h; injection h with h; injection h with h3 _; subst h3; exact ⟨rfl, rfl⟩
  | walkerCompleted => simp only [update] at h; injection h with h; injection h with h3 _; subst h3; exact ⟨rfl, rfl⟩
  | downloadSegment =>
    unfold update at h
    simp only at h
    split at h
    · injection h with h; injection h with h3 _; subst h3; exact ⟨rfl, rfl⟩
    · split at h
      · injection h with h; injection h with h3 _; subst h3; exact ⟨rfl, rfl⟩
      · split at h <;> (injection h with h; injection h with h3 _; subst h3; exact ⟨rfl, rfl⟩)

theorem step_fix (st : State) (idx : Nat) (e : Bool) : (step st idx e).fix = st.fix ∧ (step st idx e).cfg = st.cfg := by
  unfold step
  split
  · exact ⟨rfl, rfl⟩
  · split
    · exact ⟨rfl, rfl⟩
    · rename_i c hc
      simp only
      have hs := exec_same { st with bag := st.bag.eraseIdx idx } c
      cases hex : exec { st with bag := st.bag.eraseIdx idx } c with
      | mk st1 out =>
        rw [hex] at hs
        cases out with
        | batch l => exact ⟨hs.1, hs.2.1⟩
        | quit b => exact ⟨hs.1, hs.2.1⟩
        | msg m =>
          simp only
          cases hupd : update st1 m e with
          | error err => exact ⟨hs.1, hs.2.1⟩
          | ok r =>
            obtain ⟨st2, oc⟩ := r
            have := update_fix st1 st2 m e oc hupd
            cases oc with
            | none => exact ⟨this.1.trans hs.1, this.2.trans hs.2.1⟩
            | some c' => exact ⟨this.1.trans hs.1, this.2.trans hs.2.1⟩

theorem reachable_fix {c : Cfg} {fix : Patch} {files : Files} {st : State} (h : Reachable c fix files st) :
    st.fix = fix ∧ st.cfg = c := by
  induction h with
  | init h0 =>
    unfold init at h0
    split at h0
    · cases h0
    · simp only at h0
      split at h0
      · cases h0
      · injection h0 with h0; subst h0; exact ⟨rfl, rfl⟩
  | @step st0 idx e _ ih =>
    have := step_fix st0 idx e
    exact ⟨this.1.trans ih.1, this.2.trans ih.2⟩

/-- every reachable state is good: the invariant holds and the scheduler has not panicked -/
theorem reachable_good {c : Cfg} {fix : Patch} {files : Files} {st : State} (hc : c.OK) (hf : fix.shadow = true)
    (h : Reachable c fix files st) : Good st := by
  induction h with
  | init h0 => exact init_good hc hf h0
  | step idx e _ ih => exact step_good _ idx e ih

/-! ### Completed and NoOp units are for ever; `AllStoresCompleted` is monotone -/

theorem update_stableCN (st st' : State) (A : List Cmd) (m : Msg) (e : Bool) (oc : Option Cmd) (hf : st.fix.shadow = true)
    (hw : st.stages.WF) (hoff : st.stages.offset ≤ st.stages.globalSeg.firstIndex)
    (hpre : MsgPre st.stages st.pool A m) (h : update st m e = .ok (st', oc)) :
    StableCN st.stages st'.stages ∧ st'.stages.stages.map (·.kind) = st.stages.stages.map (·.kind) ∧
    st'.stages.storeSeg = st.stages.storeSeg := by
  cases m with
  | scheduleNextJob =>
    unfold update at h
    simp only at h
    split at h
    · split at h <;> (injection h with h; injection h with h3 _; subst h3; exact ⟨StableCN.refl _, rfl, rfl⟩)
    · split at h
      · cases h
      · rename_i s1 hnj
        injection h with h; injection h with h3 _; subst h3
        have hp : PStep st.stages s1 := nextJob_spec st.fix hf _ s1 none hw hoff hnj
        exact ⟨StableCN.of_step hp (fun _ _ hF => hF.elim), by show s1.stages.map _ = _; rw [hp.rest.stages], hp.rest.storeSeg⟩
      · rename_i s1 u r hnj
        split at h
        · cases h
        · injection h with h; injection h with h3 _; subst h3
          have hch : Chosen st.fix st.stages s1 u r := nextJob_spec st.fix hf _ s1 (some (u, r)) hw hoff hnj
          have hp := hch.pstep
          exact ⟨StableCN.of_step hp (fun _ _ hF => hF.elim), by show s1.stages.map _ = _; rw [hp.rest.stages], hp.rest.storeSeg⟩
  | jobSucceeded u w =>
    obtain ⟨hsched, _, _, _⟩ := hpre
    unfold update at h
    simp only at h
    split at h
    · cases h
    · rename_i s1 sh h1
      split at h
      · cases h
      · split at h
        · cases h
        · rename_i s2 tm h2
          injection h with h; injection h with h3 _; subst h3
          have t1 := markJobSuccess_tstep h1
          have hw1 := t1.wf hw
          obtain ⟨t2, _, _, _⟩ := tryMergeList_spec _ s1 s2 tm hw1 h2
          have hcn1 : StableCN st.stages s1 := StableCN.of_step t1.step (by
            intro seg stg hT
            rcases hT.2 with e1 | e1
            · rw [hT.1, e1, hsched]; simp
            · rw [e1]; simp)
          have hcn2 : StableCN s1 s2 := StableCN.of_step t2.step (by intro seg stg hT; rw [hT]; simp)
          exact ⟨hcn1.trans hcn2, by show s2.stages.map _ = _; rw [(t1.rest.trans t2.rest).stages], (t1.rest.trans t2.rest).storeSeg⟩
  | mergeFinished u0 =>
    obtain ⟨hmerging, _⟩ := hpre
    unfold update at h
    simp only at h
    split at h
    · cases h
    · rename_i s1 h1
      split at h
      · cases h
      · rename_i s2 t h2
        injection h with h; injection h with h3 _; subst h3
        obtain ⟨s0, hs0, hs1⟩ := mergeCompleted_eq h1
        have t0 := transition_tstep hs0
        have hw0 := t0.wf hw
        have hw1 : s1.WF := by rw [hs1]; exact (moveForward_keep s0 u0.stage).wf hw0
        have hcn0 : StableCN st.stages s0 := StableCN.of_step t0.step (by
          intro seg stg hT; rw [hT.1, hT.2, hmerging]; simp)
        have hcn01 : StableCN st.stages s1 := by
          intro seg stg hst
          rw [hs1, moveForward_getState]; exact hcn0 seg stg hst
        have hlist : tryMergeList [u0.stage] s1 = .ok (s2, [tryMergeCmd t]) := by simp [tryMergeList, h2]
        obtain ⟨t2, _, _, _⟩ := tryMergeList_spec _ s1 s2 _ hw1 hlist
        have hcn2 : StableCN s1 s2 := StableCN.of_step t2.step (by intro seg stg hT; rw [hT]; simp)
        refine ⟨hcn01.trans hcn2, ?_, ?_⟩
        · show s2.stages.map _ = _
          rw [t2.rest.stages, hs1]
          unfold Stages.moveSegmentCompletedForward Stages.setStage
          simp only
          rw [← t0.rest.stages]
          -- `List.set` with an element of the same kind
          apply List.ext_getElem?
          intro j
          simp only [List.getElem?_map, List.getElem?_set]
          by_cases hj : u0.stage = j
          · subst hj
            by_cases hlt : u0.stage < s0.stages.length
            · simp only [hlt, if_true, Option.map_some]
              unfold Stages.stageAt
              rw [List.getD_eq_getElem?_getD, List.getElem?_eq_getElem hlt]
              simp
            · simp [hlt, List.getElem?_eq_none (Nat.le_of_not_lt hlt)]
          · simp [hj]
        · rw [t2.rest.storeSeg, hs1]
          unfold Stages.moveSegmentCompletedForward Stages.setStage
          exact t0.rest.storeSeg
  | jobFailed => simp only [update] at h; injection h with h; injection h with h3 _; subst h3; exact ⟨StableCN.refl _, rfl, rfl⟩
  | mergeFailed u => simp only [update] at h; injection h with h; injection h with h3 _; subst h3; exact ⟨StableCN.refl _, rfl, rfl⟩
  | mergeNotReady u => simp only [update] at h; injection h with h; injection h with h3 _; subst h3; exact ⟨StableCN.refl _, rfl, rfl⟩
  | allStoresCompleted => simp only [update] at h; injection h with h; injection h with h3 _; subst h3; exact ⟨StableCN.refl _, rfl, rfl⟩
  | fileNotPresent => simp only [update] at h; injection h with h; injection h with h3 _; subst h3; exact ⟨StableCN.refl _, rfl, rfl⟩
  | fileDownloaded => simp only [update] at h; injection h with h; injection h with h3 _; subst h3; exact ⟨StableCN.refl _, rfl, rfl⟩
  | walkerCompleted => simp only [update] at h; injection h with h; injection h with h3 _; subst h3; exact ⟨StableCN.refl _, rfl, rfl⟩
  | downloadSegment =>
    unfold update at h
    simp only at h
    split at h
    · injection h with h; injection h with h3 _; subst h3; exact ⟨StableCN.refl _, rfl, rfl⟩
    · split at h
      · injection h with h; injection h with h3 _; subst h3; exact ⟨StableCN.refl _, rfl, rfl⟩
      · split at h <;> (injection h with h; injection h with h3 _; subst h3; exact ⟨StableCN.refl _, rfl, rfl⟩)

theorem allDoneFrom_mono {s s' : Stages} (hcn : StableCN s s') (stage : Nat) :
    ∀ (fuel seg : Nat), s.allDoneFrom stage fuel seg = true → s'.allDoneFrom stage fuel seg = true := by
  intro fuel
  induction fuel with
  | zero => intro seg _; rfl
  | succ n ih =>
    intro seg h
    simp only [Stages.allDoneFrom, Bool.and_eq_true, Bool.or_eq_true, beq_iff_eq] at h ⊢
    refine ⟨?_, ih _ h.2⟩
    rw [hcn seg stage h.1]; exact h.1

theorem allStoresCompletedStages_mono {s s' : Stages} (hcn : StableCN s s') (ss : Segmenter) :
    ∀ (l l' : List Stage) (i : Nat), l'.map (·.kind) = l.map (·.kind) →
      s.allStoresCompletedStages ss l i = true → s'.allStoresCompletedStages ss l' i = true := by
  intro l
  induction l with
  | nil =>
    intro l' i hk _
    cases l' with
    | nil => rfl
    | cons a as => simp at hk
  | cons x xs ih =>
    intro l' i hk h
    cases l' with
    | nil => simp at hk
    | cons a as =>
      simp only [List.map_cons, List.cons.injEq] at hk
      simp only [Stages.allStoresCompletedStages, Bool.and_eq_true] at h ⊢
      refine ⟨?_, ih as (i + 1) hk.2 h.2⟩
      rw [hk.1]
      split
      · rename_i hkx
        have := h.1
        rw [if_pos hkx] at this
        exact allDoneFrom_mono hcn i _ _ this
      · rfl

theorem allStoresCompleted_mono {s s' : Stages} (hcn : StableCN s s')
    (hk : s'.stages.map (·.kind) = s.stages.map (·.kind)) (hss : s'.storeSeg = s.storeSeg)
    (h : s.allStoresCompleted = true) : s'.allStoresCompleted = true := by
  unfold Stages.allStoresCompleted at h ⊢
  rw [hss]
  split
  · rfl
  · rename_i ss hs
    rw [hs] at h
    simp only at h
    split
    · rfl
    · rename_i hne
      rw [if_neg hne] at h
      exact allStoresCompletedStages_mono hcn ss _ _ 0 hk h

/-! ### anatomy of a step -/

/-- what a step does, in terms of the command executed -/
inductive StepKind (st : State) (idx : Nat) (e : Bool) : State → Prop
  | idle : StepKind st idx e st
  | batch (l : List Cmd) : st.ended = none → st.bag[idx]? = some (.batch l) →
      StepKind st idx e { st with bag := st.bag.eraseIdx idx ++ l }
  | quit (c : Cmd) (b : Bool) (st1 : State) : st.ended = none → st.bag[idx]? = some c →
      exec { st with bag := st.bag.eraseIdx idx } c = (st1, .quit b) →
      StepKind st idx e { st1 with ended := some (if b then .quitErr else .quitNil) }
  | panic (c : Cmd) (m : Msg) (st1 : State) (err : Err) : st.ended = none → st.bag[idx]? = some c →
      exec { st with bag := st.bag.eraseIdx idx } c = (st1, .msg m) → update st1 m e = .error err →
      StepKind st idx e { st1 with ended := some (.panic err) }
  | msg (c : Cmd) (m : Msg) (st1 st2 : State) (oc : Option Cmd) : st.ended = none → st.bag[idx]? = some c →
      exec { st with bag := st.bag.eraseIdx idx } c = (st1, .msg m) → update st1 m e = .ok (st2, oc) →
      StepKind st idx e { st2 with bag := st2.bag ++ oc.toList }

theorem step_kind (st : State) (idx : Nat) (e : Bool) : StepKind st idx e (step st idx e) := by
  unfold step
  split
  · exact .idle
  · rename_i hend
    have hend' : st.ended = none := by
      cases h : st.ended with
      | none => rfl
      | some x => rw [h] at hend; simp at hend
    split
    · exact .idle
    · rename_i c hc
      simp only
      cases hex : exec { st with bag := st.bag.eraseIdx idx } c with
      | mk st1 out =>
        cases out with
        | batch l =>
          simp only
          have hbi := exec_batch_inv { st with bag := st.bag.eraseIdx idx } c l (by rw [hex])
          have h1 : st1 = { st with bag := st.bag.eraseIdx idx } := by have := hbi.2; rw [hex] at this; exact this
          subst h1
          have hcl := hbi.1
          subst hcl
          exact .batch l hend' hc
        | quit b => exact .quit c b st1 hend' hc hex
        | msg m =>
          simp only
          cases hupd : update st1 m e with
          | error err => exact .panic c m st1 err hend' hc hex hupd
          | ok r =>
            obtain ⟨st2, oc⟩ := r
            have := StepKind.msg (st := st) (idx := idx) (e := e) c m st1 st2 oc hend' hc hex hupd
            cases oc with
            | none => simpa using this
            | some c' => simpa using this

/-- what executing a plain command answers -/
theorem exec_plain (st : State) (c : Cmd) (hc : c.plain) (hnb : ∀ l, c ≠ .batch l) :
    (exec st c).1.stages = st.stages ∧ (exec st c).1.files = st.files ∧ (exec st c).1.walker = st.walker ∧
    (exec st c).1.outDone = st.outDone ∧ (exec st c).1.storesDone = st.storesDone := by
  cases c with
  | merge u => have := hc.2.2; simp [Cmd.mergeUnit] at this
  | job u sb w => have := hc.1; simp [Cmd.jobUnit] at this
  | batch l => exact absurd rfl (hnb l)
  | downloadCurrent seg =>
    unfold exec
    simp only
    split
    · exact ⟨rfl, rfl, rfl, rfl, rfl⟩
    · split
      · exact ⟨rfl, rfl, rfl, rfl, rfl⟩
      · split <;> exact ⟨rfl, rfl, rfl, rfl, rfl⟩
  | scheduleNextJob => exact ⟨rfl, rfl, rfl, rfl, rfl⟩
  | allStoresCompleted => exact ⟨rfl, rfl, rfl, rfl, rfl⟩
  | mergeNotReady u => exact ⟨rfl, rfl, rfl, rfl, rfl⟩
  | downloadSegment => exact ⟨rfl, rfl, rfl, rfl, rfl⟩
  | walkerCompleted => exact ⟨rfl, rfl, rfl, rfl, rfl⟩
  | shutdown => exact ⟨rfl, rfl, rfl, rfl, rfl⟩
  | quit e => exact ⟨rfl, rfl, rfl, rfl, rfl⟩
  | tick => exact ⟨rfl, rfl, rfl, rfl, rfl⟩

/-! ### the walker, the two final flags, the shutdown -/

def Cmd.isDlCur : Cmd → Bool
  | .downloadCurrent _ => true
  | _ => false

/-- files are only added to the output store -/
theorem runJob_outputs (c : Cfg) (t seg : Nat) (f : Files) (a b : Nat) (h : f.hasOutput a b = true) :
    (runJob c t seg f).hasOutput a b = true := by
  have hstores : ∀ (k seg t : Nat) (l : List StageCfg) (j : Nat) (f : Files), (jobStages k seg t l j f).outputs = f.outputs := by
    intro k seg t l
    induction l with
    | nil => intro j f; rfl
    | cons sc rest ih =>
      intro j f
      simp only [jobStages]
      split
      · rfl
      · split
        · rw [ih]
          -- jobMods only touches the stores
          have : ∀ (l : List Nat) (i : Nat) (f : Files), (jobMods k seg t j l i f).outputs = f.outputs := by
            intro l
            induction l with
            | nil => intro i f; rfl
            | cons x xs ihx =>
              intro i f
              simp only [jobMods]
              split
              · exact ihx _ _
              · split
                · exact ihx _ _
                · split
                  · rw [ihx]; unfold Files.addPartial; split <;> rfl
                  · rw [ihx]; unfold Files.addFull; split <;> rfl
          exact this _ _ _
        · exact ih _ _
  unfold runJob
  simp only
  split
  · exact h
  · split
    · split
      · unfold Files.addOutput
        split
        · unfold Files.hasOutput at h ⊢; rw [hstores]; exact h
        · unfold Files.hasOutput at h ⊢
          simp only [List.any_append, Bool.or_eq_true]
          left; rw [hstores]; exact h
      · unfold Files.hasOutput at h ⊢; rw [hstores]; exact h
    · unfold Files.hasOutput at h ⊢; rw [hstores]; exact h

theorem squashMods_outputs (st : Stage) (seg : Nat) : ∀ (l : List ModState) (i : Nat) (f : Files) (ms : List ModState) (f' : Files),
    squashMods st seg l i f = some (ms, f') → f'.outputs = f.outputs := by
  intro l
  induction l with
  | nil => intro i f ms f' h; simp only [squashMods] at h; injection h with h; injection h with _ h2; rw [← h2]
  | cons m rest ih =>
    intro i f ms f' h
    simp only [squashMods] at h
    split at h
    · cases h
    · rename_i m' f1 h1
      split at h
      · cases h
      · rename_i ms2 f2 h2
        injection h with h; injection h with _ h3; subst h3
        rw [ih _ _ _ _ h2]
        -- one module
        unfold squashMod at h1
        simp only at h1
        split at h1
        · injection h1 with h1; injection h1 with _ h4; rw [← h4]
        · split at h1
          · split at h1
            · cases h1
            · split at h1
              · injection h1 with h1; injection h1 with _ h4; rw [← h4]
              · split at h1
                · injection h1 with h1; injection h1 with _ h4; rw [← h4]
                  split
                  · unfold Files.addFull; split <;> (unfold Files.delPartial; rfl)
                  · unfold Files.delPartial; rfl
                · cases h1
          · cases h1

theorem exec_outputs (st : State) (c : Cmd) (a b : Nat) (h : st.files.hasOutput a b = true) :
    (exec st c).1.files.hasOutput a b = true := by
  cases c with
  | job u sb w => simp only [exec]; exact runJob_outputs _ _ _ _ a b h
  | merge u =>
    unfold exec
    simp only
    split
    · exact h
    · rename_i s' f' hr
      unfold runMerge at hr
      simp only at hr
      split at hr
      · cases hr
      · rename_i ms f2 hsq
        injection hr with hr; injection hr with _ h2; subst h2
        unfold Files.hasOutput at h ⊢
        rw [squashMods_outputs _ _ _ _ _ _ _ hsq]; exact h
  | downloadCurrent seg =>
    unfold exec
    simp only
    split
    · exact h
    · split
      · exact h
      · split <;> exact h
  | batch l => exact h
  | scheduleNextJob => exact h
  | allStoresCompleted => exact h
  | mergeNotReady u => exact h
  | downloadSegment => exact h
  | walkerCompleted => exact h
  | shutdown => exact h
  | quit e => exact h
  | tick => exact h

/-- how `update` changes the walker, the flags, the files -/
structure Evo (st st' : State) (m : Msg) : Prop where
  files      : st'.files = st.files
  ended      : st'.ended = st.ended
  outDone    : st'.outDone = (st.outDone || m == .walkerCompleted)
  storesDone : st'.storesDone = (st.storesDone || m == .allStoresCompleted)
  outIsIndex : st'.stages.outIsIndex = st.stages.outIsIndex
  walker     : st'.walker = match m with
    | .fileNotPresent => st.walker.map fun w => { w with working := false }
    | .fileDownloaded => st.walker.map fun w => { w with cur := w.cur + 1, working := false }
    | .downloadSegment => st.walker.map fun w => if w.working then w else { w with working := true }
    | _ => st.walker

theorem cmdTryMerge_outIsIndex {s s' : Stages} {i : Nat} {t : TryMerge} (h : s.cmdTryMerge i = .ok (s', t)) :
    s'.outIsIndex = s.outIsIndex := by
  cases t with
  | merge u' =>
    unfold Stages.cmdTryMerge at h
    split at h
    · injection h with h; injection h with _ hh; cases hh
    · simp only at h
      split at h
      · injection h with h; injection h with _ hh; cases hh
      · split at h
        · injection h with h; injection h with _ hh; cases hh
        · split at h
          · injection h with h; injection h with _ hh; cases hh
          · split at h
            · injection h with h; injection h with _ hh; cases hh
            · split at h
              · cases h
              · rename_i ax hax
                injection h with h; injection h with hh _; subst hh
                unfold Stages.markSegmentMerging at hax
                split at hax
                · cases hax
                · exact (transition_rest hax).outIsIndex
  | allStoresCompleted => rw [cmdTryMerge_other h (by intro u; simp)]
  | nothing => rw [cmdTryMerge_other h (by intro u; simp)]
  | notReady u' => rw [cmdTryMerge_other h (by intro u; simp)]

theorem tryMergeList_outIsIndex : ∀ (l : List Nat) (a a' : Stages) (cs : List (Option Cmd)),
    tryMergeList l a = .ok (a', cs) → a'.outIsIndex = a.outIsIndex := by
  intro l
  induction l with
  | nil => intro a a' cs h; simp only [tryMergeList] at h; injection h with h; injection h with h1 _; subst h1; rfl
  | cons i rest ih =>
    intro a a' cs h
    simp only [tryMergeList] at h
    split at h
    · cases h
    · rename_i a1 t ha1
      split at h
      · cases h
      · rename_i a2 l2 ha2
        injection h with h; injection h with h3 _; subst h3
        rw [ih _ _ _ ha2, cmdTryMerge_outIsIndex ha1]

theorem update_evo (st st' : State) (m : Msg) (e : Bool) (oc : Option Cmd) (hf : st.fix.shadow = true)
    (hw : st.stages.WF) (hoff : st.stages.offset ≤ st.stages.globalSeg.firstIndex)
    (h : update st m e = .ok (st', oc)) : Evo st st' m := by
  cases m with
  | jobSucceeded u w =>
    unfold update at h
    simp only at h
    split at h
    · cases h
    · rename_i s1 sh h1
      split at h
      · cases h
      · split at h
        · cases h
        · rename_i s2 tm h2
          injection h with h; injection h with h3 _; subst h3
          refine ⟨rfl, rfl, by simp, by simp, ?_, rfl⟩
          show s2.outIsIndex = st.stages.outIsIndex
          rw [tryMergeList_outIsIndex _ _ _ _ h2]; exact (markJobSuccess_tstep h1).rest.outIsIndex
  | scheduleNextJob =>
    unfold update at h
    simp only at h
    split at h
    · split at h <;> (injection h with h; injection h with h3 _; subst h3; exact ⟨rfl, rfl, by simp, by simp, rfl, rfl⟩)
    · split at h
      · cases h
      · rename_i s1 hnj
        injection h with h; injection h with h3 _; subst h3
        have hp : PStep st.stages s1 := nextJob_spec st.fix hf _ s1 none hw hoff hnj
        exact ⟨rfl, rfl, by simp, by simp, hp.rest.outIsIndex, rfl⟩
      · rename_i s1 u r hnj
        split at h
        · cases h
        · injection h with h; injection h with h3 _; subst h3
          have hch : Chosen st.fix st.stages s1 u r := nextJob_spec st.fix hf _ s1 (some (u, r)) hw hoff hnj
          exact ⟨rfl, rfl, by simp, by simp, hch.pstep.rest.outIsIndex, rfl⟩
  | mergeFinished u =>
    unfold update at h
    simp only at h
    split at h
    · cases h
    · rename_i s1 h1
      split at h
      · cases h
      · rename_i s2 t h2
        injection h with h; injection h with h3 _; subst h3
        refine ⟨rfl, rfl, by simp, by simp, ?_, rfl⟩
        show s2.outIsIndex = st.stages.outIsIndex
        obtain ⟨s0, hs0, hs1⟩ := mergeCompleted_eq h1
        rw [cmdTryMerge_outIsIndex h2, hs1]
        unfold Stages.moveSegmentCompletedForward Stages.setStage
        exact (transition_rest hs0).outIsIndex
  | jobFailed => simp only [update] at h; injection h with h; injection h with h3 _; subst h3; exact ⟨rfl, rfl, by simp, by simp, rfl, rfl⟩
  | mergeFailed u => simp only [update] at h; injection h with h; injection h with h3 _; subst h3; exact ⟨rfl, rfl, by simp, by simp, rfl, rfl⟩
  | mergeNotReady u => simp only [update] at h; injection h with h; injection h with h3 _; subst h3; exact ⟨rfl, rfl, by simp, by simp, rfl, rfl⟩
  | allStoresCompleted => simp only [update] at h; injection h with h; injection h with h3 _; subst h3; exact ⟨rfl, rfl, by simp, by simp, rfl, rfl⟩
  | fileNotPresent => simp only [update] at h; injection h with h; injection h with h3 _; subst h3; exact ⟨rfl, rfl, by simp, by simp, rfl, rfl⟩
  | fileDownloaded => simp only [update] at h; injection h with h; injection h with h3 _; subst h3; exact ⟨rfl, rfl, by simp, by simp, rfl, rfl⟩
  | walkerCompleted => simp only [update] at h; injection h with h; injection h with h3 _; subst h3; exact ⟨rfl, rfl, by simp, by simp, rfl, rfl⟩
  | downloadSegment =>
    unfold update at h
    simp only at h
    split at h
    · rename_i hwk
      injection h with h; injection h with h3 _; subst h3
      exact ⟨rfl, rfl, by simp, by simp, rfl, by simp [hwk]⟩
    · rename_i w hwk
      split at h
      · rename_i hworking
        injection h with h; injection h with h3 _; subst h3
        exact ⟨rfl, rfl, by simp, by simp, rfl, by simp [hwk, hworking]⟩
      · rename_i hworking
        split at h <;>
          (injection h with h; injection h with h3 _; subst h3
           exact ⟨rfl, rfl, by simp, by simp, rfl, by simp [hwk, hworking]⟩)

/-- every atom of the answer to `MsgJobSucceeded` is a try-merge command, N or D -/
theorem jobSucceeded_answer_atoms (sh : List WorkUnit) (tm : List (Option Cmd)) (dl : Option Cmd)
    (hdl : ∀ c ∈ dl.toList, c = Cmd.downloadSegment) (hat : ∀ c ∈ tm.filterMap id, c.atomic) (x : Cmd)
    (h : x ∈ optAtoms (mkBatch [if sh.isEmpty then tm.headD none else mkBatch tm, some Cmd.scheduleNextJob, dl])) :
    x ∈ tm.filterMap id ∨ x = Cmd.scheduleNextJob ∨ x = Cmd.downloadSegment := by
  have htm_atoms : atomsList (tm.filterMap id) = tm.filterMap id := atomsList_of_atomic _ hat
  rcases mem_optAtoms_batch3 _ _ _ _ h with hs | hs | hs
  · left
    split at hs
    · cases htm : tm with
      | nil => rw [htm] at hs; simp [optAtoms, atomsList] at hs
      | cons y ys =>
        rw [htm] at hs
        simp only [List.headD_cons] at hs
        cases y with
        | none => simp [optAtoms, atomsList] at hs
        | some c0 =>
          rw [optAtoms_some] at hs
          have hc0 : c0 ∈ tm.filterMap id := by rw [htm]; simp
          have := hat c0 hc0
          unfold Cmd.atomic at this
          rw [this] at hs
          simp at hs; subst hs
          simp
    · rw [optAtoms_mkBatch, htm_atoms] at hs; exact hs
  · right; left; rw [optAtoms_some] at hs; simpa [Cmd.atoms] using hs
  · right; right
    cases dl with
    | none => rw [optAtoms_none] at hs; cases hs
    | some d =>
      have := hdl d (by simp); subst this
      rw [optAtoms_some] at hs; simpa [Cmd.atoms] using hs

/-- the try-merge commands: what they are, and `CmdAllStoresCompleted` only when all stores are complete -/
theorem tryMergeList_ctrl : ∀ (l : List Nat) (s s' : Stages) (cmds : List (Option Cmd)), s.WF →
    tryMergeList l s = .ok (s', cmds) →
    ∀ c ∈ cmds.filterMap id, (c = Cmd.allStoresCompleted ∨ (∃ u, c = Cmd.mergeNotReady u) ∨ (∃ u, c = Cmd.merge u)) ∧
      (c = Cmd.allStoresCompleted → s'.allStoresCompleted = true) := by
  intro l
  induction l with
  | nil => intro s s' cmds _ h c hc; simp only [tryMergeList] at h; injection h with h; injection h with _ h2; subst h2; simp at hc
  | cons i rest ih =>
    intro s s' cmds hw h c hc
    simp only [tryMergeList] at h
    split at h
    · cases h
    · rename_i s1 t h1
      split at h
      · cases h
      · rename_i s2 l2 h2
        injection h with h; injection h with h3 h4; subst h3; subst h4
        have hw1 : s1.WF := by
          cases t with
          | merge u => exact (cmdTryMerge_merge h1 hw).2.2.2.2.2.2.wf hw
          | allStoresCompleted => rw [cmdTryMerge_other h1 (by intro u; simp)]; exact hw
          | nothing => rw [cmdTryMerge_other h1 (by intro u; simp)]; exact hw
          | notReady u' => rw [cmdTryMerge_other h1 (by intro u; simp)]; exact hw
        simp only [List.filterMap_cons, id] at hc
        have hrest := ih s1 s2 l2 hw1 h2
        obtain ⟨t2, _, _, _⟩ := tryMergeList_spec rest s1 s2 l2 hw1 h2
        have hcn2 : StableCN s1 s2 := StableCN.of_step t2.step (by intro seg stg hT; rw [hT]; simp)
        cases t with
        | allStoresCompleted =>
          simp only [tryMergeCmd] at hc
          rcases List.mem_cons.1 hc with hc | hc
          · subst hc
            refine ⟨Or.inl rfl, fun _ => ?_⟩
            have hs1 : s1 = s := cmdTryMerge_other h1 (by intro u; simp)
            have hall : s.allStoresCompleted = true := by
              unfold Stages.cmdTryMerge at h1
              split at h1
              · assumption
              · simp only at h1
                split at h1
                · injection h1 with h1; injection h1 with _ hh; cases hh
                · split at h1
                  · injection h1 with h1; injection h1 with _ hh; cases hh
                  · split at h1
                    · injection h1 with h1; injection h1 with _ hh; cases hh
                    · split at h1
                      · injection h1 with h1; injection h1 with _ hh; cases hh
                      · split at h1
                        · cases h1
                        · injection h1 with h1; injection h1 with _ hh; cases hh
            rw [← hs1] at hall
            exact allStoresCompleted_mono hcn2 (by rw [t2.rest.stages]) t2.rest.storeSeg hall
          · exact hrest c hc
        | nothing => simp only [tryMergeCmd] at hc; exact hrest c hc
        | notReady u' =>
          simp only [tryMergeCmd] at hc
          rcases List.mem_cons.1 hc with hc | hc
          · subst hc; exact ⟨Or.inr (Or.inl ⟨u', rfl⟩), fun hcc => by cases hcc⟩
          · exact hrest c hc
        | merge u' =>
          simp only [tryMergeCmd] at hc
          rcases List.mem_cons.1 hc with hc | hc
          · subst hc; exact ⟨Or.inr (Or.inr ⟨u', rfl⟩), fun hcc => by cases hcc⟩
          · exact hrest c hc

/-- the control commands in the answer of `update` -/
structure CtrlAtoms (st st' : State) (m : Msg) (oc : Option Cmd) : Prop where
  dlOut : (m = .fileNotPresent ∨ m = .fileDownloaded) → Cmd.downloadSegment ∈ optAtoms oc
  curIn : ∀ seg, Cmd.downloadCurrent seg ∈ optAtoms oc →
    m = .downloadSegment ∧ ∃ w, st.walker = some w ∧ w.working = false ∧ w.isDone = false ∧ seg = w.cur
  curOut : m = .downloadSegment → ∀ w, st.walker = some w → w.working = false →
    (w.isDone = true → Cmd.walkerCompleted ∈ optAtoms oc) ∧ (w.isDone = false → Cmd.downloadCurrent w.cur ∈ optAtoms oc)
  wcIn : Cmd.walkerCompleted ∈ optAtoms oc →
    m = .downloadSegment ∧ ∃ w, st.walker = some w ∧ w.working = false ∧ w.isDone = true
  curCount : ((optAtoms oc).filter Cmd.isDlCur).length ≤ 1
  shutIn : Cmd.shutdown ∈ optAtoms oc → st'.outDone = true ∧ st'.storesDone = true
  shutOut : (m = .allStoresCompleted ∨ m = .walkerCompleted) → st'.outDone = true → st'.storesDone = true →
    (st'.walker.isSome = true ∨ st'.stages.outIsIndex = false) → Cmd.shutdown ∈ optAtoms oc
  quitF : Cmd.quit false ∉ optAtoms oc
  allIn : Cmd.allStoresCompleted ∈ optAtoms oc → st'.stages.allStoresCompleted = true

/-- a list of atoms without any control command -/
def NoCtrl (l : List Cmd) : Prop :=
  (∀ seg, Cmd.downloadCurrent seg ∉ l) ∧ Cmd.walkerCompleted ∉ l ∧ Cmd.shutdown ∉ l ∧ Cmd.quit false ∉ l ∧
  Cmd.allStoresCompleted ∉ l

theorem CtrlAtoms.of_noCtrl {st st' : State} {m : Msg} {oc : Option Cmd} (h : NoCtrl (optAtoms oc))
    (hm1 : m ≠ .fileNotPresent) (hm2 : m ≠ .fileDownloaded) (hm3 : m ≠ .downloadSegment)
    (hm4 : m ≠ .allStoresCompleted) (hm5 : m ≠ .walkerCompleted) : CtrlAtoms st st' m oc := by
  refine ⟨?_, ?_, ?_, ?_, ?_, ?_, ?_, h.2.2.2.1, ?_⟩
  · intro hc; rcases hc with hc | hc; exact absurd hc hm1; exact absurd hc hm2
  · intro seg hs; exact absurd hs (h.1 seg)
  · intro hc; exact absurd hc hm3
  · intro hs; exact absurd hs h.2.1
  · have : (optAtoms oc).filter Cmd.isDlCur = [] := by
      apply List.filter_eq_nil_iff.2
      intro c hc hcur
      cases c <;> simp [Cmd.isDlCur] at hcur
      exact h.1 _ hc
    rw [this]; simp
  · intro hs; exact absurd hs h.2.2.1
  · intro hc; rcases hc with hc | hc; exact absurd hc hm4; exact absurd hc hm5
  · intro hs; exact absurd hs h.2.2.2.2

theorem shutdown_atoms (st : State) (x : Cmd) (h : x ∈ optAtoms (cmdShutdownWhenComplete st)) :
    x = Cmd.shutdown ∧ st.outDone = true ∧ st.storesDone = true := by
  unfold cmdShutdownWhenComplete at h
  split at h
  · rename_i hb
    split at h
    · rw [optAtoms_some] at h; simp [Cmd.atoms] at h; exact ⟨h, hb.1, hb.2⟩
    · split at h
      · rw [optAtoms_none] at h; cases h
      · rw [optAtoms_some] at h; simp [Cmd.atoms] at h; exact ⟨h, hb.1, hb.2⟩
  · rw [optAtoms_none] at h; cases h

theorem shutdown_present (st : State) (h1 : st.outDone = true) (h2 : st.storesDone = true)
    (h3 : st.walker.isSome = true ∨ st.stages.outIsIndex = false) :
    Cmd.shutdown ∈ optAtoms (cmdShutdownWhenComplete st) := by
  unfold cmdShutdownWhenComplete
  rw [if_pos ⟨h1, h2⟩]
  split
  · rw [optAtoms_some]; simp [Cmd.atoms]
  · rename_i hnone
    rcases h3 with h3 | h3
    · rw [hnone] at h3; simp at h3
    · have : ¬(st.stages.outIsIndex = true ∧ (!st.stages.lastStageCompleted) = true) := by
        intro hc; rw [h3] at hc; simp at hc
      rw [if_neg this, optAtoms_some]; simp [Cmd.atoms]

theorem update_ctrl (st st' : State) (m : Msg) (e : Bool) (oc : Option Cmd) (hw : st.stages.WF)
    (h : update st m e = .ok (st', oc)) : CtrlAtoms st st' m oc := by
  cases m with
  | scheduleNextJob =>
    apply CtrlAtoms.of_noCtrl _ (by simp) (by simp) (by simp) (by simp) (by simp)
    unfold update at h
    simp only at h
    split at h
    · split at h
      · injection h with h; injection h with _ h4; subst h4
        rw [optAtoms_none]; exact ⟨(by simp), (by simp), (by simp), (by simp), (by simp)⟩
      · injection h with h; injection h with _ h4; subst h4
        rw [optAtoms_mkBatch]; simp [atomsList, Cmd.atoms, NoCtrl]
    · split at h
      · cases h
      · injection h with h; injection h with _ h4; subst h4
        rw [optAtoms_none]; exact ⟨(by simp), (by simp), (by simp), (by simp), (by simp)⟩
      · split at h
        · cases h
        · injection h with h; injection h with _ h4; subst h4
          rw [optAtoms_mkBatch]; simp [atomsList, Cmd.atoms, NoCtrl]
  | jobFailed =>
    apply CtrlAtoms.of_noCtrl _ (by simp) (by simp) (by simp) (by simp) (by simp)
    simp only [update] at h; injection h with h; injection h with _ h4; subst h4
    rw [optAtoms_mkBatch]; simp [atomsList, Cmd.atoms, NoCtrl]
  | mergeFailed u =>
    apply CtrlAtoms.of_noCtrl _ (by simp) (by simp) (by simp) (by simp) (by simp)
    simp only [update] at h; injection h with h; injection h with _ h4; subst h4
    rw [optAtoms_mkBatch]; simp [atomsList, Cmd.atoms, NoCtrl]
  | mergeNotReady u =>
    apply CtrlAtoms.of_noCtrl _ (by simp) (by simp) (by simp) (by simp) (by simp)
    simp only [update] at h; injection h with h; injection h with _ h4; subst h4
    rw [optAtoms_none]; exact ⟨(by simp), (by simp), (by simp), (by simp), (by simp)⟩
  | jobSucceeded u w =>
    unfold update at h
    simp only at h
    split at h
    · cases h
    · rename_i s1 sh h1
      split at h
      · cases h
      · split at h
        · cases h
        · rename_i s2 tm h2
          injection h with h; injection h with h3 h4; subst h3; subst h4
          have hw1 := (markJobSuccess_tstep h1).wf hw
          obtain ⟨_, _, _, hat2⟩ := tryMergeList_spec _ s1 s2 tm hw1 h2
          have hctrl := tryMergeList_ctrl _ s1 s2 tm hw1 h2
          have hmem : ∀ x, x ∈ optAtoms (mkBatch [if sh.isEmpty then tm.headD none else mkBatch tm,
              some Cmd.scheduleNextJob, if st.walker.isSome then some Cmd.downloadSegment else none]) →
              x ∈ tm.filterMap id ∨ x = Cmd.scheduleNextJob ∨ x = Cmd.downloadSegment :=
            fun x hx => jobSucceeded_answer_atoms sh tm _ (ite_some_toList _ _) (fun c hc => (hat2 c hc).1) x hx
          -- no L, K, Q, quit among the atoms
          have none_of : ∀ x, x ∈ optAtoms (mkBatch [if sh.isEmpty then tm.headD none else mkBatch tm,
              some Cmd.scheduleNextJob, if st.walker.isSome then some Cmd.downloadSegment else none]) →
              (∀ seg, x ≠ Cmd.downloadCurrent seg) ∧ x ≠ Cmd.walkerCompleted ∧ x ≠ Cmd.shutdown ∧ x ≠ Cmd.quit false := by
            intro x hx
            rcases hmem x hx with hx | hx | hx
            · rcases (hctrl x hx).1 with e1 | ⟨u', e1⟩ | ⟨u', e1⟩ <;> subst e1 <;> simp
            · subst hx; simp
            · subst hx; simp
          refine ⟨(fun hc => hc.elim (fun h => nomatch h) (fun h => nomatch h)), ?_, (fun hc => nomatch hc), ?_, ?_, ?_,
            (fun hc => hc.elim (fun h => nomatch h) (fun h => nomatch h)), ?_, ?_⟩
          · intro seg hs; exact absurd rfl ((none_of _ hs).1 seg)
          · intro hs; exact absurd rfl (none_of _ hs).2.1
          · have : (optAtoms (mkBatch [if sh.isEmpty then tm.headD none else mkBatch tm,
                some Cmd.scheduleNextJob, if st.walker.isSome then some Cmd.downloadSegment else none])).filter Cmd.isDlCur = [] := by
              apply List.filter_eq_nil_iff.2
              intro c hc hcur
              cases c <;> simp [Cmd.isDlCur] at hcur
              exact (none_of _ hc).1 _ rfl
            rw [this]; simp
          · intro hs; exact absurd rfl (none_of _ hs).2.2.1
          · intro hs; exact absurd rfl (none_of _ hs).2.2.2
          · intro hs
            rcases hmem _ hs with hx | hx | hx
            · exact (hctrl _ hx).2 rfl
            · cases hx
            · cases hx
  | mergeFinished u0 =>
    unfold update at h
    simp only at h
    split at h
    · cases h
    · rename_i s1 h1
      split at h
      · cases h
      · rename_i s2 t h2
        injection h with h; injection h with h3 h4; subst h3; subst h4
        obtain ⟨_, _, _, _, _, _, _, hw1, _, _⟩ := mergeCompleted_spec h1 hw
        have hlist : tryMergeList [u0.stage] s1 = .ok (s2, [tryMergeCmd t]) := by simp [tryMergeList, h2]
        have hctrl := tryMergeList_ctrl _ s1 s2 _ hw1 hlist
        have hmem : ∀ x, x ∈ optAtoms (mkBatch [some Cmd.scheduleNextJob, tryMergeCmd t]) →
            x = Cmd.scheduleNextJob ∨ x ∈ [tryMergeCmd t].filterMap id := by
          intro x hx
          rcases mem_optAtoms_batch2 _ _ _ hx with hs | hs
          · left; rw [optAtoms_some] at hs; simpa [Cmd.atoms] using hs
          · right
            cases htc : tryMergeCmd t with
            | none => rw [htc, optAtoms_none] at hs; cases hs
            | some c0 =>
              rw [htc, optAtoms_some] at hs
              have := (tryMergeCmd_atomic t c0 htc).1
              unfold Cmd.atomic at this
              rw [this] at hs
              simp at hs; subst hs; simp
        have none_of : ∀ x, x ∈ optAtoms (mkBatch [some Cmd.scheduleNextJob, tryMergeCmd t]) →
            (∀ seg, x ≠ Cmd.downloadCurrent seg) ∧ x ≠ Cmd.walkerCompleted ∧ x ≠ Cmd.shutdown ∧ x ≠ Cmd.quit false := by
          intro x hx
          rcases hmem x hx with hx | hx
          · subst hx; simp
          · rcases (hctrl x hx).1 with e1 | ⟨u', e1⟩ | ⟨u', e1⟩ <;> subst e1 <;> simp
        refine ⟨(fun hc => hc.elim (fun h => nomatch h) (fun h => nomatch h)), ?_, (fun hc => nomatch hc), ?_, ?_, ?_,
          (fun hc => hc.elim (fun h => nomatch h) (fun h => nomatch h)), ?_, ?_⟩
        · intro seg hs; exact absurd rfl ((none_of _ hs).1 seg)
        · intro hs; exact absurd rfl (none_of _ hs).2.1
        · have : (optAtoms (mkBatch [some Cmd.scheduleNextJob, tryMergeCmd t])).filter Cmd.isDlCur = [] := by
            apply List.filter_eq_nil_iff.2
            intro c hc hcur
            cases c <;> simp [Cmd.isDlCur] at hcur
            exact (none_of _ hc).1 _ rfl
          rw [this]; simp
        · intro hs; exact absurd rfl (none_of _ hs).2.2.1
        · intro hs; exact absurd rfl (none_of _ hs).2.2.2
        · intro hs
          rcases hmem _ hs with hx | hx
          · cases hx
          · exact (hctrl _ hx).2 rfl
  | allStoresCompleted =>
    simp only [update] at h; injection h with h; injection h with h3 h4; subst h3; subst h4
    have hmem : ∀ x, x ∈ optAtoms (mkBatch [some Cmd.scheduleNextJob, cmdShutdownWhenComplete { st with storesDone := true }]) →
        x = Cmd.scheduleNextJob ∨ (x = Cmd.shutdown ∧ st.outDone = true) := by
      intro x hx
      rcases mem_optAtoms_batch2 _ _ _ hx with hs | hs
      · left; rw [optAtoms_some] at hs; simpa [Cmd.atoms] using hs
      · right; have := shutdown_atoms _ x hs; exact ⟨this.1, this.2.1⟩
    refine ⟨(fun hc => hc.elim (fun h => nomatch h) (fun h => nomatch h)), ?_, (fun hc => nomatch hc), ?_, ?_, ?_, ?_, ?_, ?_⟩
    · intro seg hs; rcases hmem _ hs with hx | hx; cases hx; cases hx.1
    · intro hs; rcases hmem _ hs with hx | hx; cases hx; cases hx.1
    · have : (optAtoms (mkBatch [some Cmd.scheduleNextJob, cmdShutdownWhenComplete { st with storesDone := true }])).filter Cmd.isDlCur = [] := by
        apply List.filter_eq_nil_iff.2
        intro c hc hcur
        rcases hmem c hc with hx | hx
        · subst hx; simp [Cmd.isDlCur] at hcur
        · rw [hx.1] at hcur; simp [Cmd.isDlCur] at hcur
      rw [this]; simp
    · intro hs; rcases hmem _ hs with hx | hx; cases hx; exact ⟨hx.2, rfl⟩
    · intro _ ho _ hidx
      have := shutdown_present { st with storesDone := true } ho rfl hidx
      rw [optAtoms_mkBatch]
      cases hq : cmdShutdownWhenComplete { st with storesDone := true } with
      | none => rw [hq, optAtoms_none] at this; cases this
      | some q =>
        rw [hq, optAtoms_some] at this
        simp only [List.filterMap_cons, id, List.filterMap_nil, atomsList_cons, atomsList, List.append_nil, List.mem_append]
        right; exact this
    · intro hs; rcases hmem _ hs with hx | hx; cases hx; cases hx.1
    · intro hs; rcases hmem _ hs with hx | hx; cases hx; cases hx.1
  | walkerCompleted =>
    simp only [update] at h; injection h with h; injection h with h3 h4; subst h3; subst h4
    have hmem : ∀ x, x ∈ optAtoms (cmdShutdownWhenComplete { st with outDone := true }) → x = Cmd.shutdown ∧ st.storesDone = true := by
      intro x hx; have := shutdown_atoms _ x hx; exact ⟨this.1, this.2.2⟩
    refine ⟨(fun hc => hc.elim (fun h => nomatch h) (fun h => nomatch h)), ?_, (fun hc => nomatch hc), ?_, ?_, ?_, ?_, ?_, ?_⟩
    · intro seg hs; cases (hmem _ hs).1
    · intro hs; cases (hmem _ hs).1
    · have : (optAtoms (cmdShutdownWhenComplete { st with outDone := true })).filter Cmd.isDlCur = [] := by
        apply List.filter_eq_nil_iff.2
        intro c hc hcur
        rw [(hmem c hc).1] at hcur; simp [Cmd.isDlCur] at hcur
      rw [this]; simp
    · intro hs; exact ⟨rfl, (hmem _ hs).2⟩
    · intro _ _ hsd hidx; exact shutdown_present { st with outDone := true } rfl hsd hidx
    · intro hs; cases (hmem _ hs).1
    · intro hs; cases (hmem _ hs).1
  | fileNotPresent =>
    simp only [update] at h; injection h with h; injection h with h3 h4; subst h3; subst h4
    have hat : optAtoms (mkBatch [some Cmd.downloadSegment]) = [Cmd.downloadSegment] := by
      rw [optAtoms_mkBatch]; simp [atomsList, Cmd.atoms]
    constructor
    · intro _; rw [hat]; simp
    · intro seg hs; rw [hat] at hs; simp at hs
    · intro hc; cases hc
    · intro hs; rw [hat] at hs; simp at hs
    · rw [hat]; simp [Cmd.isDlCur]
    · intro hs; rw [hat] at hs; simp at hs
    · intro hc; rcases hc with hc | hc <;> cases hc
    · rw [hat]; simp
    · intro hs; rw [hat] at hs; simp at hs
  | fileDownloaded =>
    simp only [update] at h; injection h with h; injection h with h3 h4; subst h3; subst h4
    have hat : optAtoms (mkBatch [some Cmd.downloadSegment]) = [Cmd.downloadSegment] := by
      rw [optAtoms_mkBatch]; simp [atomsList, Cmd.atoms]
    constructor
    · intro _; rw [hat]; simp
    · intro seg hs; rw [hat] at hs; simp at hs
    · intro hc; cases hc
    · intro hs; rw [hat] at hs; simp at hs
    · rw [hat]; simp [Cmd.isDlCur]
    · intro hs; rw [hat] at hs; simp at hs
    · intro hc; rcases hc with hc | hc <;> cases hc
    · rw [hat]; simp
    · intro hs; rw [hat] at hs; simp at hs
  | downloadSegment =>
    have empty : ∀ (st' : State), (∀ w, st.walker = some w → w.working = true) → CtrlAtoms st st' .downloadSegment none := by
      intro st' hwk
      constructor
      · intro hc; rcases hc with hc | hc <;> cases hc
      · intro seg hs; rw [optAtoms_none] at hs; cases hs
      · intro _ w hw' hnw; rw [hwk w hw'] at hnw; cases hnw
      · intro hs; rw [optAtoms_none] at hs; cases hs
      · rw [optAtoms_none]; simp
      · intro hs; rw [optAtoms_none] at hs; cases hs
      · intro hc; rcases hc with hc | hc <;> cases hc
      · rw [optAtoms_none]; simp
      · intro hs; rw [optAtoms_none] at hs; cases hs
    unfold update at h
    simp only at h
    split at h
    · rename_i hwk
      injection h with h; injection h with h3 h4; subst h3; subst h4
      exact empty _ (by intro w hw'; rw [hwk] at hw'; cases hw')
    · rename_i w hwk
      split at h
      · rename_i hworking
        injection h with h; injection h with h3 h4; subst h3; subst h4
        exact empty _ (by intro w' hw'; rw [hwk] at hw'; injection hw' with hw'; subst hw'; exact hworking)
      · rename_i hworking
        have hnw : w.working = false := by simpa using hworking
        split at h
        · rename_i hdone
          have hdone' : w.isDone = true := by simpa [Walker.isDone] using hdone
          injection h with h; injection h with h3 h4; subst h3; subst h4
          have hat : optAtoms (some Cmd.walkerCompleted) = [Cmd.walkerCompleted] := by rw [optAtoms_some]; rfl
          constructor
          · intro hc; rcases hc with hc | hc <;> cases hc
          · intro seg hs; rw [hat] at hs; simp at hs
          · intro _ w' hw' _
            rw [hwk] at hw'; injection hw' with hw'; subst hw'
            refine ⟨fun _ => ?_, fun hnd => ?_⟩
            · rw [hat]; simp
            · rw [hdone'] at hnd; cases hnd
          · intro _; exact ⟨rfl, w, hwk, hnw, hdone'⟩
          · rw [hat]; simp [Cmd.isDlCur]
          · intro hs; rw [hat] at hs; simp at hs
          · intro hc; rcases hc with hc | hc <;> cases hc
          · rw [hat]; simp
          · intro hs; rw [hat] at hs; simp at hs
        · rename_i hdone
          have hdone' : w.isDone = false := by simpa [Walker.isDone] using hdone
          injection h with h; injection h with h3 h4; subst h3; subst h4
          have hat : optAtoms (mkBatch [some (Cmd.downloadCurrent w.cur)]) = [Cmd.downloadCurrent w.cur] := by
            rw [optAtoms_mkBatch]; simp [atomsList, Cmd.atoms]
          constructor
          · intro hc; rcases hc with hc | hc <;> cases hc
          · intro seg hs
            rw [hat] at hs; simp at hs; subst hs
            exact ⟨rfl, w, hwk, hnw, hdone', rfl⟩
          · intro _ w' hw' _
            rw [hwk] at hw'; injection hw' with hw'; subst hw'
            refine ⟨fun hd => ?_, fun _ => ?_⟩
            · rw [hdone'] at hd; cases hd
            · rw [hat]; simp
          · intro hs; rw [hat] at hs; simp at hs
          · rw [hat]; exact Nat.le_refl 1
          · intro hs; rw [hat] at hs; simp at hs
          · intro hc; rcases hc with hc | hc <;> cases hc
          · rw [hat]; simp
          · intro hs; rw [hat] at hs; simp at hs

/-! ### which message a command answers with -/

inductive Answers : Cmd → Msg → Prop
  | sched : Answers .scheduleNextJob .scheduleNextJob
  | tick : Answers .tick .scheduleNextJob
  | all : Answers .allStoresCompleted .allStoresCompleted
  | notReady (u : WorkUnit) : Answers (.mergeNotReady u) (.mergeNotReady u)
  | merged (u : WorkUnit) : Answers (.merge u) (.mergeFinished u)
  | mergeFailed (u : WorkUnit) : Answers (.merge u) (.mergeFailed u)
  | dl : Answers .downloadSegment .downloadSegment
  | absent (seg : Nat) : Answers (.downloadCurrent seg) .fileNotPresent
  | present (seg : Nat) : Answers (.downloadCurrent seg) .fileDownloaded
  | wc : Answers .walkerCompleted .walkerCompleted
  | job (u : WorkUnit) (sb w : Nat) : Answers (.job u sb w) (.jobSucceeded u w)

theorem exec_answers (st : State) (c : Cmd) (m : Msg) (h : (exec st c).2 = .msg m) : Answers c m := by
  cases c with
  | merge u =>
    unfold exec at h; simp only at h
    split at h <;> (injection h with h; subst h)
    · exact .mergeFailed u
    · exact .merged u
  | downloadCurrent seg =>
    unfold exec at h; simp only at h
    split at h
    · injection h with h; subst h; exact .absent seg
    · split at h
      · injection h with h; subst h; exact .absent seg
      · split at h <;> (injection h with h; subst h)
        · exact .present seg
        · exact .absent seg
  | batch l => simp [exec] at h
  | scheduleNextJob => simp only [exec] at h; injection h with h; subst h; exact .sched
  | allStoresCompleted => simp only [exec] at h; injection h with h; subst h; exact .all
  | mergeNotReady u => simp only [exec] at h; injection h with h; subst h; exact .notReady u
  | downloadSegment => simp only [exec] at h; injection h with h; subst h; exact .dl
  | walkerCompleted => simp only [exec] at h; injection h with h; subst h; exact .wc
  | shutdown => simp [exec] at h
  | quit e => simp [exec] at h
  | tick => simp only [exec] at h; injection h with h; subst h; exact .tick
  | job u sb w => simp only [exec] at h; injection h with h; subst h; exact .job u sb w

/-- a file that was downloaded exists -/
theorem exec_present (st : State) (seg : Nat) (h : (exec st (.downloadCurrent seg)).2 = .msg .fileDownloaded) :
    ∃ w r, st.walker = some w ∧ w.seg.range? seg = some r ∧ st.files.hasOutput r.start r.stop = true := by
  unfold exec at h; simp only at h
  split at h
  · injection h with h; cases h
  · rename_i w hw
    split at h
    · injection h with h; cases h
    · rename_i r hr
      split at h
      · rename_i hf; exact ⟨w, r, hw, hr, hf⟩
      · injection h with h; cases h

theorem exec_quit_cases (st : State) (c : Cmd) (b : Bool) (h : (exec st c).2 = .quit b) :
    (c = .shutdown ∧ b = false) ∨ c = .quit b := by
  cases c with
  | merge u => unfold exec at h; simp only at h; split at h <;> cases h
  | downloadCurrent seg =>
    unfold exec at h; simp only at h
    split at h
    · cases h
    · split at h
      · cases h
      · split at h <;> cases h
  | shutdown => simp only [exec] at h; injection h with h; exact Or.inl ⟨rfl, h.symm⟩
  | quit e => simp only [exec] at h; injection h with h; subst h; exact Or.inr rfl
  | batch l => simp [exec] at h
  | scheduleNextJob => simp [exec] at h
  | allStoresCompleted => simp [exec] at h
  | mergeNotReady u => simp [exec] at h
  | downloadSegment => simp [exec] at h
  | walkerCompleted => simp [exec] at h
  | tick => simp [exec] at h
  | job u sb w => simp [exec] at h

/-- executing a command does not touch the walker nor the flags -/
theorem exec_walker (st : State) (c : Cmd) :
    (exec st c).1.walker = st.walker ∧ (exec st c).1.outDone = st.outDone ∧ (exec st c).1.storesDone = st.storesDone := by
  cases c with
  | merge u => unfold exec; simp only; split <;> exact ⟨rfl, rfl, rfl⟩
  | downloadCurrent seg =>
    unfold exec; simp only
    split
    · exact ⟨rfl, rfl, rfl⟩
    · split
      · exact ⟨rfl, rfl, rfl⟩
      · split <;> exact ⟨rfl, rfl, rfl⟩
  | batch l => exact ⟨rfl, rfl, rfl⟩
  | scheduleNextJob => exact ⟨rfl, rfl, rfl⟩
  | allStoresCompleted => exact ⟨rfl, rfl, rfl⟩
  | mergeNotReady u => exact ⟨rfl, rfl, rfl⟩
  | downloadSegment => exact ⟨rfl, rfl, rfl⟩
  | walkerCompleted => exact ⟨rfl, rfl, rfl⟩
  | shutdown => exact ⟨rfl, rfl, rfl⟩
  | quit e => exact ⟨rfl, rfl, rfl⟩
  | tick => exact ⟨rfl, rfl, rfl⟩
  | job u sb w => exact ⟨rfl, rfl, rfl⟩

theorem mem_of_perm_not_head {F A : List Cmd} {c x : Cmd} (hp : F.Perm (c :: A)) (hx : x ∈ F) (hne : x ≠ c) : x ∈ A := by
  have := hp.mem_iff.1 hx
  rcases List.mem_cons.1 this with h | h
  · exact absurd h hne
  · exact h

/-- everything known about a step that delivers a message -/
structure MsgStep (st : State) (idx : Nat) (e : Bool) (c : Cmd) (m : Msg) (st1 st2 : State) (oc : Option Cmd) : Prop where
  perm    : st.inFlight.Perm (c :: atomsList (st.bag.eraseIdx idx))
  ans     : Answers c m
  walker1 : st1.walker = st.walker
  out1    : st1.outDone = st.outDone
  stores1 : st1.storesDone = st.storesDone
  ended1  : st1.ended = st.ended
  same1   : SameMatrix st.stages st1.stages
  kinds1  : st1.stages.stages.map (·.kind) = st.stages.stages.map (·.kind)
  sseg1   : st1.stages.storeSeg = st.stages.storeSeg
  idx1    : st1.stages.outIsIndex = st.stages.outIsIndex
  evo     : Evo st1 st2 m
  ctrl    : CtrlAtoms st1 st2 m oc
  cn      : StableCN st1.stages st2.stages
  kinds2  : st2.stages.stages.map (·.kind) = st1.stages.stages.map (·.kind)
  sseg2   : st2.stages.storeSeg = st1.stages.storeSeg
  flight  : ({ st2 with bag := st2.bag ++ oc.toList } : State).inFlight = atomsList (st.bag.eraseIdx idx) ++ optAtoms oc
  outs    : ∀ a b, st.files.hasOutput a b = true → st2.files.hasOutput a b = true

theorem runMerge_kinds {s s' : Stages} {u : WorkUnit} {f f' : Files} (h : runMerge s u f = some (s', f')) :
    s'.stages.map (·.kind) = s.stages.map (·.kind) ∧ s'.storeSeg = s.storeSeg ∧ s'.outIsIndex = s.outIsIndex := by
  unfold runMerge at h
  simp only at h
  split at h
  · cases h
  · injection h with h; injection h with h1 _; subst h1
    refine ⟨?_, rfl, rfl⟩
    unfold Stages.setStage
    simp only
    apply List.ext_getElem?
    intro j
    simp only [List.getElem?_map, List.getElem?_set]
    by_cases hj : u.stage = j
    · subst hj
      by_cases hlt : u.stage < s.stages.length
      · simp only [hlt, if_true, Option.map_some]
        unfold Stages.stageAt
        rw [List.getD_eq_getElem?_getD, List.getElem?_eq_getElem hlt]
        simp
      · simp [hlt, List.getElem?_eq_none (Nat.le_of_not_lt hlt)]
    · simp [hj]

theorem exec_kinds (st : State) (c : Cmd) :
    (exec st c).1.stages.stages.map (·.kind) = st.stages.stages.map (·.kind) ∧
    (exec st c).1.stages.storeSeg = st.stages.storeSeg ∧ (exec st c).1.stages.outIsIndex = st.stages.outIsIndex := by
  cases c with
  | merge u =>
    unfold exec; simp only
    split
    · exact ⟨rfl, rfl, rfl⟩
    · rename_i s' f' h; exact runMerge_kinds h
  | downloadCurrent seg =>
    unfold exec; simp only
    split
    · exact ⟨rfl, rfl, rfl⟩
    · split
      · exact ⟨rfl, rfl, rfl⟩
      · split <;> exact ⟨rfl, rfl, rfl⟩
  | batch l => exact ⟨rfl, rfl, rfl⟩
  | scheduleNextJob => exact ⟨rfl, rfl, rfl⟩
  | allStoresCompleted => exact ⟨rfl, rfl, rfl⟩
  | mergeNotReady u => exact ⟨rfl, rfl, rfl⟩
  | downloadSegment => exact ⟨rfl, rfl, rfl⟩
  | walkerCompleted => exact ⟨rfl, rfl, rfl⟩
  | shutdown => exact ⟨rfl, rfl, rfl⟩
  | quit e => exact ⟨rfl, rfl, rfl⟩
  | tick => exact ⟨rfl, rfl, rfl⟩
  | job u sb w => exact ⟨rfl, rfl, rfl⟩

theorem msgStep_of (st : State) (idx : Nat) (e : Bool) (c : Cmd) (m : Msg) (st1 st2 : State) (oc : Option Cmd)
    (hg : Good st) (hc : st.bag[idx]? = some c)
    (hex : exec { st with bag := st.bag.eraseIdx idx } c = (st1, .msg m)) (hupd : update st1 m e = .ok (st2, oc)) :
    MsgStep st idx e c m st1 st2 oc := by
  have hperm := atomsList_eraseIdx_perm st.bag idx c hc
  have hnb : ∀ l, c ≠ .batch l := by intro l hl; subst hl; simp [exec] at hex
  rw [atoms_of_not_batch c hnb] at hperm
  have hs := exec_same { st with bag := st.bag.eraseIdx idx } c
  have hwk := exec_walker { st with bag := st.bag.eraseIdx idx } c
  have hkd := exec_kinds { st with bag := st.bag.eraseIdx idx } c
  rw [hex] at hs hwk hkd
  simp only at hs hwk hkd
  obtain ⟨hfix1, _, hbag1, hend1, hpool1, hsm⟩ := hs
  have hbag : BagOK st.stages st.pool (c :: atomsList (st.bag.eraseIdx idx)) := hg.inv.bag.perm hperm
  have hpre : MsgPre st1.stages st1.pool (atomsList (st.bag.eraseIdx idx)) m := by
    have := exec_msg_pre { st with bag := st.bag.eraseIdx idx } c (atomsList (st.bag.eraseIdx idx)) m hbag (by rw [hex])
    rw [hex] at this; exact this
  have hf1 : st1.fix.shadow = true := by rw [hfix1]; exact hg.inv.fix
  have hw1 : st1.stages.WF := hsm.wf hg.inv.wf
  have hoff1 : st1.stages.offset ≤ st1.stages.globalSeg.firstIndex := by rw [hsm.offset, hsm.global]; exact hg.inv.off
  have hcn := update_stableCN st1 st2 _ m e oc hf1 hw1 hoff1 hpre hupd
  have hevo := update_evo st1 st2 m e oc hf1 hw1 hoff1 hupd
  obtain ⟨st2', oc', hupd', hp'⟩ := update_spec st1 (atomsList (st.bag.eraseIdx idx)) m e hf1 hw1 (hsm.ok hg.inv.ok) hoff1
    (by rw [hpool1]; exact (hbag.sublist (List.sublist_cons_self _ _)).sameMatrix hsm) hpre
  rw [hupd] at hupd'
  injection hupd' with hupd'; injection hupd' with e1 e2; subst e1; subst e2
  refine ⟨hperm, exec_answers _ c m (by rw [hex]), hwk.1, hwk.2.1, hwk.2.2, hend1, hsm, hkd.1, hkd.2.1, hkd.2.2, hevo,
    update_ctrl st1 st2 m e oc hw1 hupd, hcn.1, hcn.2.1, hcn.2.2, ?_, ?_⟩
  · show atomsList (st2.bag ++ oc.toList) = _
    rw [hp'.bagE, hbag1, atomsList_append]; rfl
  · intro a b hab
    rw [hevo.files]
    have := exec_outputs { st with bag := st.bag.eraseIdx idx } c a b hab
    rw [hex] at this; exact this

/-! ### the two final flags, the shutdown command, the all-stores-completed signal -/

structure LiveF (st : State) : Prop where
  both   : st.outDone = true → st.storesDone = true → st.ended = none →
    (st.walker.isSome = true ∨ st.stages.outIsIndex = false) → Cmd.shutdown ∈ st.inFlight
  shut   : Cmd.shutdown ∈ st.inFlight → st.outDone = true ∧ st.storesDone = true
  quitF  : Cmd.quit false ∉ st.inFlight
  allA   : (Cmd.allStoresCompleted ∈ st.inFlight ∨ st.storesDone = true) → st.stages.allStoresCompleted = true
  endNil : st.ended = some .quitNil → st.outDone = true ∧ st.storesDone = true ∧ st.stages.allStoresCompleted = true

theorem walker_isSome_evo {st st' : State} {m : Msg} (h : Evo st st' m) : st'.walker.isSome = st.walker.isSome := by
  rw [h.walker]
  cases m <;> simp

theorem step_liveF (st : State) (idx : Nat) (e : Bool) (hg : Good st) (h : LiveF st) : LiveF (step st idx e) := by
  have hk := step_kind st idx e
  have hgood' := step_good st idx e hg
  generalize step st idx e = s' at hk hgood'
  cases hk with
  | idle => exact h
  | batch l hend hc =>
    have hperm := atomsList_eraseIdx_perm st.bag idx _ hc
    have hfl : ({ st with bag := st.bag.eraseIdx idx ++ l } : State).inFlight.Perm st.inFlight := by
      show (atomsList (st.bag.eraseIdx idx ++ l)).Perm _
      rw [atomsList_append]
      have hp2 : (atomsList l ++ atomsList (st.bag.eraseIdx idx)).Perm (atomsList st.bag) := by
        simpa [Cmd.atoms] using hperm.symm
      exact List.perm_append_comm.trans hp2
    exact ⟨fun h1 h2 h3 h4 => hfl.mem_iff.2 (h.both h1 h2 h3 h4), fun hq => h.shut (hfl.mem_iff.1 hq),
      fun hq => h.quitF (hfl.mem_iff.1 hq),
      fun ha => h.allA (ha.elim (fun x => Or.inl (hfl.mem_iff.1 x)) Or.inr), h.endNil⟩
  | quit c b st1 hend hc hex =>
    have hperm := atomsList_eraseIdx_perm st.bag idx c hc
    have hcases := exec_quit_cases _ c b (by rw [hex])
    have hs := exec_same { st with bag := st.bag.eraseIdx idx } c
    have hwk := exec_walker { st with bag := st.bag.eraseIdx idx } c
    rw [hex] at hs hwk
    simp only at hs hwk
    have hnb : ∀ l, c ≠ .batch l := by intro l hl; subst hl; simp [exec] at hex
    rw [atoms_of_not_batch c hnb] at hperm
    have hsub : ∀ x, x ∈ atomsList st1.bag → x ∈ st.inFlight := by
      intro x hx
      rw [hs.2.2.1] at hx
      exact hperm.mem_iff.2 (List.mem_cons_of_mem _ hx)
    have hst1 : st1 = { st with bag := st.bag.eraseIdx idx } := by
      rcases hcases with ⟨hc1, _⟩ | hc1 <;> subst hc1 <;> simp [exec] at hex <;> first | exact hex.1.symm | exact hex.symm
    refine ⟨?_, ?_, ?_, ?_, ?_⟩
    · intro _ _ he _; simp at he
    · intro hq; have := h.shut (hsub _ hq); rw [hwk.2.1, hwk.2.2]; exact this
    · intro hq; exact h.quitF (hsub _ hq)
    · intro ha
      show st1.stages.allStoresCompleted = true
      rw [hst1]
      apply h.allA
      rcases ha with ha | ha
      · exact Or.inl (hsub _ ha)
      · right; rw [← hwk.2.2]; exact ha
    · intro hq
      have hb : b = false := by
        simp only [Option.some.injEq] at hq
        cases b
        · rfl
        · simp at hq
      subst hb
      have hcq : c = .shutdown := by
        rcases hcases with ⟨hc1, _⟩ | hc1
        · exact hc1
        · exfalso; subst hc1; exact h.quitF (hperm.mem_iff.2 (List.mem_cons_self))
      subst hcq
      have hfl := h.shut (hperm.mem_iff.2 (List.mem_cons_self))
      refine ⟨by show st1.outDone = true; rw [hwk.2.1]; exact hfl.1, by show st1.storesDone = true; rw [hwk.2.2]; exact hfl.2, ?_⟩
      show st1.stages.allStoresCompleted = true
      rw [hst1]; exact h.allA (Or.inr hfl.2)
  | panic c m st1 err hend hc hex hupd =>
    exact absurd rfl (hgood'.noPanic err)
  | msg c m st1 st2 oc hend hc hex hupd =>
    have ms := msgStep_of st idx e c m st1 st2 oc hg hc hex hupd
    have hflight := ms.flight
    have hneq : ∀ x, x ∈ st.inFlight → x ≠ c → x ∈ atomsList (st.bag.eraseIdx idx) := fun x hx hne => mem_of_perm_not_head ms.perm hx hne
    have hsub : ∀ x, x ∈ atomsList (st.bag.eraseIdx idx) → x ∈ st.inFlight := fun x hx => ms.perm.mem_iff.2 (List.mem_cons_of_mem _ hx)
    have hcin : c ∈ st.inFlight := ms.perm.mem_iff.2 (List.mem_cons_self)
    have hout2 : st2.outDone = (st.outDone || m == .walkerCompleted) := by rw [ms.evo.outDone, ms.out1]
    have hsto2 : st2.storesDone = (st.storesDone || m == .allStoresCompleted) := by rw [ms.evo.storesDone, ms.stores1]
    have hall_mono : st.stages.allStoresCompleted = true → st2.stages.allStoresCompleted = true := by
      intro ha
      have h1 : st1.stages.allStoresCompleted = true :=
        allStoresCompleted_mono (fun seg stg _ => ms.same1.get seg stg) ms.kinds1 ms.sseg1 ha
      exact allStoresCompleted_mono ms.cn ms.kinds2 ms.sseg2 h1
    refine ⟨?_, ?_, ?_, ?_, ?_⟩
    · intro ho hs he hcond
      show Cmd.shutdown ∈ ({ st2 with bag := st2.bag ++ oc.toList } : State).inFlight
      rw [hflight]
      have ho' : st2.outDone = true := ho
      have hs' : st2.storesDone = true := hs
      have hcond' : st2.walker.isSome = true ∨ st2.stages.outIsIndex = false := hcond
      by_cases hold : st.outDone = true ∧ st.storesDone = true
      · -- both flags were set before: the shutdown command is already in flight
        have hq := h.both hold.1 hold.2 hend (by
          rcases hcond' with hw | hi
          · left; rw [walker_isSome_evo ms.evo, ms.walker1] at hw; exact hw
          · right; rw [ms.evo.outIsIndex, ms.idx1] at hi; exact hi)
        refine List.mem_append.2 (Or.inl (hneq _ hq ?_))
        intro hcq; subst hcq; cases ms.ans
      · -- one of them is set by this message
        refine List.mem_append.2 (Or.inr (ms.ctrl.shutOut ?_ ho' hs' hcond'))
        rw [hout2] at ho'; rw [hsto2] at hs'
        by_cases hm1 : m = .allStoresCompleted
        · exact Or.inl hm1
        · by_cases hm2 : m = .walkerCompleted
          · exact Or.inr hm2
          · exfalso; apply hold
            simp [hm1, hm2] at ho' hs'
            exact ⟨ho', hs'⟩
    · intro hq
      have hq' : Cmd.shutdown ∈ atomsList (st.bag.eraseIdx idx) ++ optAtoms oc := by rw [← hflight]; exact hq
      show st2.outDone = true ∧ st2.storesDone = true
      rcases List.mem_append.1 hq' with hq' | hq'
      · have := h.shut (hsub _ hq')
        rw [hout2, hsto2, this.1, this.2]; simp
      · exact ms.ctrl.shutIn hq'
    · intro hq
      have hq' : Cmd.quit false ∈ atomsList (st.bag.eraseIdx idx) ++ optAtoms oc := by rw [← hflight]; exact hq
      rcases List.mem_append.1 hq' with hq' | hq'
      · exact h.quitF (hsub _ hq')
      · exact ms.ctrl.quitF hq'
    · intro ha
      show st2.stages.allStoresCompleted = true
      rcases ha with ha | ha
      · have ha' : Cmd.allStoresCompleted ∈ atomsList (st.bag.eraseIdx idx) ++ optAtoms oc := by rw [← hflight]; exact ha
        rcases List.mem_append.1 ha' with ha' | ha'
        · exact hall_mono (h.allA (Or.inl (hsub _ ha')))
        · exact ms.ctrl.allIn ha'
      · have ha' : st2.storesDone = true := ha
        rw [hsto2] at ha'
        by_cases hold : st.storesDone = true
        · exact hall_mono (h.allA (Or.inr hold))
        · have hm : m = .allStoresCompleted := by
            simp [hold] at ha'; exact ha'
          subst hm
          have hca : c = .allStoresCompleted := by cases ms.ans; rfl
          subst hca
          exact hall_mono (h.allA (Or.inl hcin))
    · intro hq
      exfalso
      have : st2.ended = some .quitNil := hq
      rw [ms.evo.ended, ms.ended1, hend] at this; cases this

/-- the atoms of the initial batch, explicitly -/
theorem init_atoms_explicit (dl all : Option Cmd) (tm : List (Option Cmd))
    (hdl : ∀ x ∈ dl.toList, x = Cmd.downloadSegment) (hall : ∀ x ∈ all.toList, x = Cmd.allStoresCompleted)
    (htm : atomsList (tm.filterMap id) = tm.filterMap id) :
    atomsList ([dl, some Cmd.scheduleNextJob, all, mkBatch tm].filterMap id) =
      (dl.toList ++ [Cmd.scheduleNextJob] ++ all.toList) ++ tm.filterMap id := by
  have hmb : optAtoms (mkBatch tm) = tm.filterMap id := by rw [optAtoms_mkBatch]; exact htm
  rw [← hmb]
  cases dl with
  | none =>
    cases all with
    | none => cases hmk : mkBatch tm <;> simp [atomsList, Cmd.atoms, optAtoms]
    | some a =>
      have := hall a (by simp); subst this
      cases hmk : mkBatch tm <;> simp [atomsList, Cmd.atoms, optAtoms]
  | some d =>
    have := hdl d (by simp); subst this
    cases all with
    | none => cases hmk : mkBatch tm <;> simp [atomsList, Cmd.atoms, optAtoms]
    | some a =>
      have := hall a (by simp); subst this
      cases hmk : mkBatch tm <;> simp [atomsList, Cmd.atoms, optAtoms]

theorem init_liveF {c : Cfg} {fix : Patch} {files : Files} {st : State} (hc : c.OK)
    (h : init c fix files = .ok st) : LiveF st := by
  unfold init at h
  split at h
  · cases h
  · rename_i s hs
    obtain ⟨hw, _, _, _⟩ := initStages_base hc hs
    simp only at h
    split at h
    · cases h
    · rename_i s1 tm htm
      injection h with h; subst h
      obtain ⟨t, _, _, hat⟩ := tryMergeList_spec _ s s1 tm hw htm
      have hctrl := tryMergeList_ctrl _ s s1 tm hw htm
      have hcn : StableCN s s1 := StableCN.of_step t.step (by intro seg stg hT; rw [hT]; simp)
      have htm_atoms : atomsList (tm.filterMap id) = tm.filterMap id := atomsList_of_atomic _ (fun c hc => (hat c hc).1)
      -- the commands in flight
      have key : ∀ (dl all : Option Cmd), (∀ x ∈ dl.toList, x = Cmd.downloadSegment) →
          (∀ x ∈ all.toList, x = Cmd.allStoresCompleted) → (all.isSome = true → s.allStoresCompleted = true) →
          ∀ x ∈ optAtoms (mkBatch [dl, some Cmd.scheduleNextJob, all, mkBatch tm]),
            x ≠ Cmd.shutdown ∧ x ≠ Cmd.quit false ∧ (x = Cmd.allStoresCompleted → s1.allStoresCompleted = true) := by
        intro dl all hdl hall hallc x hx
        rw [optAtoms_mkBatch, init_atoms_explicit dl all tm hdl hall htm_atoms] at hx
        simp only [List.mem_append, List.mem_singleton] at hx
        rcases hx with ((hx | hx) | hx) | hx
        · rw [hdl x hx]; exact ⟨by simp, by simp, by intro hh; cases hh⟩
        · subst hx; exact ⟨by simp, by simp, by intro hh; cases hh⟩
        · rw [hall x hx]
          refine ⟨by simp, by simp, fun _ => ?_⟩
          have : all.isSome = true := by cases all <;> simp at hx ⊢
          exact allStoresCompleted_mono hcn (by rw [t.rest.stages]) t.rest.storeSeg (hallc this)
        · rcases (hctrl x hx).1 with e1 | ⟨u, e1⟩ | ⟨u, e1⟩
          · subst e1; exact ⟨by simp, by simp, fun _ => (hctrl _ hx).2 rfl⟩
          · subst e1; exact ⟨by simp, by simp, by intro hh; cases hh⟩
          · subst e1; exact ⟨by simp, by simp, by intro hh; cases hh⟩
      have hfl : ∀ x, x ∈ (atomsList (Option.toList (mkBatch
          [if (match c.readExecOut, c.writeExecOut with
              | some _, some w => if c.outIsMap = true then
                  some (⟨⟨c.interval, max w.start c.outInit, w.stop⟩, (⟨c.interval, max w.start c.outInit, w.stop⟩ : Segmenter).firstIndex, false⟩ : Walker)
                else none
              | _, _ => none).isSome = true then some Cmd.downloadSegment else none,
           some Cmd.scheduleNextJob,
           if s.allStoresCompleted = true then some Cmd.allStoresCompleted else none, mkBatch tm]))) →
          x ≠ Cmd.shutdown ∧ x ≠ Cmd.quit false ∧ (x = Cmd.allStoresCompleted → s1.allStoresCompleted = true) := by
        apply key
        · exact ite_some_toList _ _
        · exact ite_some_toList _ _
        · intro hsome
          split at hsome
          · assumption
          · simp at hsome
      refine ⟨?_, ?_, ?_, ?_, ?_⟩
      · intro _ hsd; cases hsd
      · intro hq; exact absurd rfl (hfl _ hq).1
      · intro hq; exact absurd rfl (hfl _ hq).2.1
      · intro ha
        rcases ha with ha | ha
        · exact (hfl _ ha).2.2 rfl
        · cases ha
      · intro he; cases he

theorem reachable_liveF {c : Cfg} {fix : Patch} {files : Files} {st : State} (hc : c.OK) (hf : fix.shadow = true)
    (h : Reachable c fix files st) : LiveF st := by
  induction h with
  | init h0 => exact init_liveF hc h0
  | @step st0 idx e hr ih => exact step_liveF st0 idx e (reachable_good hc hf hr) ih

/-! ### the walker -/

structure LiveW (st : State) : Prop where
  noWalker : st.walker = none → st.outDone = true
  walkA : ∀ w, st.walker = some w → st.outDone = false → w.working = true →
    (∃ seg, Cmd.downloadCurrent seg ∈ st.inFlight) ∨ Cmd.walkerCompleted ∈ st.inFlight
  walkB : ∀ w, st.walker = some w → st.outDone = false → w.working = false → Cmd.downloadSegment ∈ st.inFlight
  dlCur : ∀ seg, Cmd.downloadCurrent seg ∈ st.inFlight →
    ∃ w, st.walker = some w ∧ w.working = true ∧ seg = w.cur ∧ w.isDone = false
  dlOne : (st.inFlight.filter Cmd.isDlCur).length ≤ 1
  wc : Cmd.walkerCompleted ∈ st.inFlight → ∃ w, st.walker = some w ∧ w.working = true ∧ w.isDone = true
  doneW : st.outDone = true → ∀ w, st.walker = some w → w.isDone = true
  outs : ∀ w, st.walker = some w → ∀ i, w.seg.firstIndex ≤ i → i < w.cur →
    ∃ r, w.seg.range? i = some r ∧ st.files.hasOutput r.start r.stop = true

theorem filter_len_perm_cons {F A : List Cmd} {c : Cmd} (p : Cmd → Bool) (hp : F.Perm (c :: A)) :
    (A.filter p).length ≤ (F.filter p).length ∧ (p c = true → (A.filter p).length + 1 = (F.filter p).length) := by
  rw [(hp.filter p).length_eq, List.filter_cons]
  split
  · rename_i hpc; simp
  · rename_i hpc; exact ⟨Nat.le_refl _, fun h => absurd h hpc⟩

theorem no_dlCur_of_filter_nil {l : List Cmd} (h : (l.filter Cmd.isDlCur).length = 0) : ∀ seg, Cmd.downloadCurrent seg ∉ l := by
  intro seg hm
  have : Cmd.downloadCurrent seg ∈ l.filter Cmd.isDlCur := List.mem_filter.2 ⟨hm, rfl⟩
  have hnil : l.filter Cmd.isDlCur = [] := List.eq_nil_of_length_eq_zero h
  rw [hnil] at this; cases this

theorem filter_dlCur_nil {l : List Cmd} (h : ∀ seg, Cmd.downloadCurrent seg ∉ l) : (l.filter Cmd.isDlCur).length = 0 := by
  have : l.filter Cmd.isDlCur = [] := by
    apply List.filter_eq_nil_iff.2
    intro c hc hcur
    cases c <;> simp [Cmd.isDlCur] at hcur
    exact h _ hc
  rw [this]; rfl

theorem step_liveW (st : State) (idx : Nat) (e : Bool) (hg : Good st) (h : LiveW st) : LiveW (step st idx e) := by
  have hk := step_kind st idx e
  have hgood' := step_good st idx e hg
  generalize step st idx e = s' at hk hgood'
  cases hk with
  | idle => exact h
  | batch l hend hc =>
    have hperm := atomsList_eraseIdx_perm st.bag idx _ hc
    have hfl : ({ st with bag := st.bag.eraseIdx idx ++ l } : State).inFlight.Perm st.inFlight := by
      show (atomsList (st.bag.eraseIdx idx ++ l)).Perm _
      rw [atomsList_append]
      have hp2 : (atomsList l ++ atomsList (st.bag.eraseIdx idx)).Perm (atomsList st.bag) := by
        simpa [Cmd.atoms] using hperm.symm
      exact List.perm_append_comm.trans hp2
    refine ⟨h.noWalker, ?_, ?_, ?_, ?_, ?_, h.doneW, h.outs⟩
    · intro w hw ho hwk
      rcases h.walkA w hw ho hwk with ⟨seg, hs⟩ | hs
      · exact Or.inl ⟨seg, hfl.mem_iff.2 hs⟩
      · exact Or.inr (hfl.mem_iff.2 hs)
    · intro w hw ho hwk; exact hfl.mem_iff.2 (h.walkB w hw ho hwk)
    · intro seg hs; exact h.dlCur seg (hfl.mem_iff.1 hs)
    · rw [(hfl.filter _).length_eq]; exact h.dlOne
    · intro hs; exact h.wc (hfl.mem_iff.1 hs)
  | quit c b st1 hend hc hex =>
    have hperm := atomsList_eraseIdx_perm st.bag idx c hc
    have hcases := exec_quit_cases _ c b (by rw [hex])
    have hnb : ∀ l, c ≠ .batch l := by intro l hl; subst hl; simp [exec] at hex
    rw [atoms_of_not_batch c hnb] at hperm
    have hst1 : st1 = { st with bag := st.bag.eraseIdx idx } := by
      rcases hcases with ⟨hc1, _⟩ | hc1 <;> subst hc1 <;> simp [exec] at hex <;> first | exact hex.1.symm | exact hex.symm
    subst hst1
    have hsub : ∀ x, x ∈ atomsList (st.bag.eraseIdx idx) → x ∈ st.inFlight :=
      fun x hx => hperm.mem_iff.2 (List.mem_cons_of_mem _ hx)
    have hkeep : ∀ x, x ∈ st.inFlight → x ≠ Cmd.shutdown → (∀ b', x ≠ Cmd.quit b') → x ∈ atomsList (st.bag.eraseIdx idx) := by
      intro x hx h1 h2
      apply mem_of_perm_not_head hperm hx
      intro hxc; subst hxc
      rcases hcases with ⟨hc1, _⟩ | hc1
      · exact h1 hc1
      · exact h2 _ hc1
    refine ⟨h.noWalker, ?_, ?_, ?_, ?_, ?_, h.doneW, h.outs⟩
    · intro w hw ho hwk
      rcases h.walkA w hw ho hwk with ⟨seg, hs⟩ | hs
      · exact Or.inl ⟨seg, hkeep _ hs (by simp) (by simp)⟩
      · exact Or.inr (hkeep _ hs (by simp) (by simp))
    · intro w hw ho hwk; exact hkeep _ (h.walkB w hw ho hwk) (by simp) (by simp)
    · intro seg hs; exact h.dlCur seg (hsub _ hs)
    · have hperm' : st.inFlight.Perm (c :: atomsList (st.bag.eraseIdx idx)) := hperm
      have := (filter_len_perm_cons Cmd.isDlCur hperm').1
      have h1 := h.dlOne
      show ((atomsList (st.bag.eraseIdx idx)).filter Cmd.isDlCur).length ≤ 1
      omega
    · intro hs; exact h.wc (hsub _ hs)
  | panic c m st1 err hend hc hex hupd => exact absurd rfl (hgood'.noPanic err)
  | msg c m st1 st2 oc hend hc hex hupd =>
    have ms := msgStep_of st idx e c m st1 st2 oc hg hc hex hupd
    have hflight := ms.flight
    have hneq : ∀ x, x ∈ st.inFlight → x ≠ c → x ∈ atomsList (st.bag.eraseIdx idx) := fun x hx hne => mem_of_perm_not_head ms.perm hx hne
    have hsub : ∀ x, x ∈ atomsList (st.bag.eraseIdx idx) → x ∈ st.inFlight := fun x hx => ms.perm.mem_iff.2 (List.mem_cons_of_mem _ hx)
    have hcin : c ∈ st.inFlight := ms.perm.mem_iff.2 (List.mem_cons_self)
    have hout2 : st2.outDone = (st.outDone || m == .walkerCompleted) := by rw [ms.evo.outDone, ms.out1]
    have hcount := filter_len_perm_cons Cmd.isDlCur ms.perm
    have hmemNew : ∀ x, x ∈ ({ st2 with bag := st2.bag ++ oc.toList } : State).inFlight ↔
        x ∈ atomsList (st.bag.eraseIdx idx) ∨ x ∈ optAtoms oc := by
      intro x; rw [hflight]; exact List.mem_append
    have hfiles : ∀ a b, st.files.hasOutput a b = true → st2.files.hasOutput a b = true := ms.outs
    -- generic preservation when the walker is untouched and the command is none of L, K, D
    have generic : st2.walker = st.walker → (∀ seg, c ≠ .downloadCurrent seg) → c ≠ .walkerCompleted → c ≠ .downloadSegment →
        m ≠ .downloadSegment → st2.outDone = st.outDone → LiveW { st2 with bag := st2.bag ++ oc.toList } := by
      intro hw2 hc1 hc2 hc3 hm3 ho2
      refine ⟨?_, ?_, ?_, ?_, ?_, ?_, ?_, ?_⟩
      · intro hwn; show st2.outDone = true; rw [ho2]; exact h.noWalker (by rw [← hw2]; exact hwn)
      · intro w hw ho hwk
        have hw' : st.walker = some w := by rw [← hw2]; exact hw
        have ho' : st.outDone = false := by rw [← ho2]; exact ho
        rcases h.walkA w hw' ho' hwk with ⟨seg, hs⟩ | hs
        · exact Or.inl ⟨seg, (hmemNew _).2 (Or.inl (hneq _ hs (fun hcc => hc1 seg hcc.symm)))⟩
        · exact Or.inr ((hmemNew _).2 (Or.inl (hneq _ hs (fun hcc => hc2 hcc.symm))))
      · intro w hw ho hwk
        have hw' : st.walker = some w := by rw [← hw2]; exact hw
        have ho' : st.outDone = false := by rw [← ho2]; exact ho
        exact (hmemNew _).2 (Or.inl (hneq _ (h.walkB w hw' ho' hwk) (fun hcc => hc3 hcc.symm)))
      · intro seg hs
        rcases (hmemNew _).1 hs with hs | hs
        · obtain ⟨w, hw, rest⟩ := h.dlCur seg (hsub _ hs)
          exact ⟨w, by show st2.walker = some w; rw [hw2]; exact hw, rest⟩
        · exact absurd (ms.ctrl.curIn seg hs).1 hm3
      · show (({ st2 with bag := st2.bag ++ oc.toList } : State).inFlight.filter Cmd.isDlCur).length ≤ 1
        rw [hflight, List.filter_append, List.length_append]
        have h0 : ((optAtoms oc).filter Cmd.isDlCur).length = 0 :=
          filter_dlCur_nil (fun seg hs => hm3 (ms.ctrl.curIn seg hs).1)
        have h1 := h.dlOne
        have := hcount.1
        omega
      · intro hs
        rcases (hmemNew _).1 hs with hs | hs
        · obtain ⟨w, hw, rest⟩ := h.wc (hsub _ hs)
          exact ⟨w, by show st2.walker = some w; rw [hw2]; exact hw, rest⟩
        · exact absurd (ms.ctrl.wcIn hs).1 hm3
      · intro ho w hw
        exact h.doneW (by rw [← ho2]; exact ho) w (by rw [← hw2]; exact hw)
      · intro w hw i h1 h2
        obtain ⟨r, hr, hf⟩ := h.outs w (by rw [← hw2]; exact hw) i h1 h2
        exact ⟨r, hr, hfiles _ _ hf⟩
    cases hans : ms.ans with
    | sched => exact generic (by rw [ms.evo.walker, ms.walker1]) (by simp) (by simp) (by simp) (by simp) (by rw [hout2]; simp)
    | tick => exact generic (by rw [ms.evo.walker, ms.walker1]) (by simp) (by simp) (by simp) (by simp) (by rw [hout2]; simp)
    | all => exact generic (by rw [ms.evo.walker, ms.walker1]) (by simp) (by simp) (by simp) (by simp) (by rw [hout2]; simp)
    | notReady u => exact generic (by rw [ms.evo.walker, ms.walker1]) (by simp) (by simp) (by simp) (by simp) (by rw [hout2]; simp)
    | merged u => exact generic (by rw [ms.evo.walker, ms.walker1]) (by simp) (by simp) (by simp) (by simp) (by rw [hout2]; simp)
    | mergeFailed u => exact generic (by rw [ms.evo.walker, ms.walker1]) (by simp) (by simp) (by simp) (by simp) (by rw [hout2]; simp)
    | job u sb w => exact generic (by rw [ms.evo.walker, ms.walker1]) (by simp) (by simp) (by simp) (by simp) (by rw [hout2]; simp)
    | wc =>
      -- the walker is done: outputStreamCompleted is set
      have hw2 : st2.walker = st.walker := by rw [ms.evo.walker, ms.walker1]
      have ho2 : st2.outDone = true := by rw [hout2]; simp
      obtain ⟨w0, hw0, hwk0, hdone0⟩ := h.wc hcin
      refine ⟨fun _ => ho2, ?_, ?_, ?_, ?_, ?_, ?_, ?_⟩
      · intro w _ ho; rw [ho2] at ho; cases ho
      · intro w _ ho; rw [ho2] at ho; cases ho
      · intro seg hs
        rcases (hmemNew _).1 hs with hs | hs
        · obtain ⟨w, hw, rest⟩ := h.dlCur seg (hsub _ hs)
          exact ⟨w, by show st2.walker = some w; rw [hw2]; exact hw, rest⟩
        · have := (ms.ctrl.curIn seg hs).1; cases this
      · show (({ st2 with bag := st2.bag ++ oc.toList } : State).inFlight.filter Cmd.isDlCur).length ≤ 1
        rw [hflight, List.filter_append, List.length_append]
        have h0 : ((optAtoms oc).filter Cmd.isDlCur).length = 0 :=
          filter_dlCur_nil (fun seg hs => by have := (ms.ctrl.curIn seg hs).1; cases this)
        have h1 := h.dlOne
        have := hcount.1
        omega
      · intro hs
        rcases (hmemNew _).1 hs with hs | hs
        · obtain ⟨w, hw, rest⟩ := h.wc (hsub _ hs)
          exact ⟨w, by show st2.walker = some w; rw [hw2]; exact hw, rest⟩
        · have := (ms.ctrl.wcIn hs).1; cases this
      · intro _ w hw
        have hw' : st.walker = some w := by rw [← hw2]; exact hw
        rw [hw0] at hw'; injection hw' with hw'; subst hw'; exact hdone0
      · intro w hw i h1 h2
        obtain ⟨r, hr, hf⟩ := h.outs w (by rw [← hw2]; exact hw) i h1 h2
        exact ⟨r, hr, hfiles _ _ hf⟩
    | dl =>
      have ho2 : st2.outDone = st.outDone := by rw [hout2]; simp
      have hw2 : st2.walker = st.walker.map fun w => if w.working then w else { w with working := true } := by
        rw [ms.evo.walker, ms.walker1]
      cases hwk : st.walker with
      | none =>
        rw [hwk] at hw2
        simp only [Option.map_none] at hw2
        refine ⟨?_, ?_, ?_, ?_, ?_, ?_, ?_, ?_⟩
        · intro _; show st2.outDone = true; rw [ho2]; exact h.noWalker hwk
        · intro w hw; rw [hw2] at hw; cases hw
        · intro w hw; rw [hw2] at hw; cases hw
        rotate_left 3
        · intro _ w hw; rw [hw2] at hw; cases hw
        · intro w hw; rw [hw2] at hw; cases hw
        · intro seg hs
          rcases (hmemNew _).1 hs with hs | hs
          · obtain ⟨w, hw, _⟩ := h.dlCur seg (hsub _ hs); rw [hwk] at hw; cases hw
          · obtain ⟨_, w, hw, _⟩ := ms.ctrl.curIn seg hs; rw [ms.walker1, hwk] at hw; cases hw
        · show (({ st2 with bag := st2.bag ++ oc.toList } : State).inFlight.filter Cmd.isDlCur).length ≤ 1
          rw [hflight, List.filter_append, List.length_append]
          have h0 : ((optAtoms oc).filter Cmd.isDlCur).length = 0 :=
            filter_dlCur_nil (fun seg hs => by
              obtain ⟨_, w, hw, _⟩ := ms.ctrl.curIn seg hs; rw [ms.walker1, hwk] at hw; cases hw)
          have h1 := h.dlOne
          have := hcount.1
          omega
        · intro hs
          rcases (hmemNew _).1 hs with hs | hs
          · obtain ⟨w, hw, _⟩ := h.wc (hsub _ hs); rw [hwk] at hw; cases hw
          · obtain ⟨_, w, hw, _⟩ := ms.ctrl.wcIn hs; rw [ms.walker1, hwk] at hw; cases hw
      | some w0 =>
        rw [hwk] at hw2
        simp only [Option.map_some] at hw2
        cases hworking : w0.working with
        | true =>
          -- the message is dropped
          have hw2' : st2.walker = some w0 := by rw [hw2, hworking]; rfl
          have noL : ∀ seg, Cmd.downloadCurrent seg ∉ optAtoms oc := by
            intro seg hs
            obtain ⟨_, w, hw, hnw, _⟩ := ms.ctrl.curIn seg hs
            rw [ms.walker1, hwk] at hw; injection hw with hw; subst hw
            rw [hworking] at hnw; cases hnw
          have noK : Cmd.walkerCompleted ∉ optAtoms oc := by
            intro hs
            obtain ⟨_, w, hw, hnw, _⟩ := ms.ctrl.wcIn hs
            rw [ms.walker1, hwk] at hw; injection hw with hw; subst hw
            rw [hworking] at hnw; cases hnw
          refine ⟨(fun hn => by rw [hw2'] at hn; cases hn), ?_, ?_, ?_, ?_, ?_, ?_, ?_⟩
          · intro w hw ho _
            rw [hw2'] at hw; injection hw with hw; subst hw
            rcases h.walkA w0 hwk (by rw [← ho2]; exact ho) hworking with ⟨seg, hs⟩ | hs
            · exact Or.inl ⟨seg, (hmemNew _).2 (Or.inl (hneq _ hs (by simp)))⟩
            · exact Or.inr ((hmemNew _).2 (Or.inl (hneq _ hs (by simp))))
          · intro w hw _ hnw
            rw [hw2'] at hw; injection hw with hw; subst hw
            rw [hworking] at hnw; cases hnw
          · intro seg hs
            rcases (hmemNew _).1 hs with hs | hs
            · obtain ⟨w, hw, rest⟩ := h.dlCur seg (hsub _ hs)
              rw [hwk] at hw; injection hw with hw; subst hw
              exact ⟨w0, hw2', rest⟩
            · exact absurd hs (noL seg)
          · show (({ st2 with bag := st2.bag ++ oc.toList } : State).inFlight.filter Cmd.isDlCur).length ≤ 1
            rw [hflight, List.filter_append, List.length_append]
            have h0 : ((optAtoms oc).filter Cmd.isDlCur).length = 0 := filter_dlCur_nil noL
            have h1 := h.dlOne
            have := hcount.1
            omega
          · intro hs
            rcases (hmemNew _).1 hs with hs | hs
            · obtain ⟨w, hw, rest⟩ := h.wc (hsub _ hs)
              rw [hwk] at hw; injection hw with hw; subst hw
              exact ⟨w0, hw2', rest⟩
            · exact absurd hs noK
          · intro ho w hw
            rw [hw2'] at hw; injection hw with hw; subst hw
            exact h.doneW (by rw [← ho2]; exact ho) w0 hwk
          · intro w hw i h1 h2
            rw [hw2'] at hw; injection hw with hw; subst hw
            obtain ⟨r, hr, hf⟩ := h.outs w0 hwk i h1 h2
            exact ⟨r, hr, hfiles _ _ hf⟩
        | false =>
          -- the walker starts to work: a download or the completion signal is issued
          have hw2' : st2.walker = some { w0 with working := true } := by rw [hw2, hworking]; rfl
          have hcur := ms.ctrl.curOut rfl w0 (by rw [ms.walker1]; exact hwk) hworking
          have noLA : ∀ seg, Cmd.downloadCurrent seg ∉ atomsList (st.bag.eraseIdx idx) := by
            intro seg hs
            obtain ⟨w, hw, hwk', _⟩ := h.dlCur seg (hsub _ hs)
            rw [hwk] at hw; injection hw with hw; subst hw
            rw [hworking] at hwk'; cases hwk'
          have noKA : Cmd.walkerCompleted ∉ atomsList (st.bag.eraseIdx idx) := by
            intro hs
            obtain ⟨w, hw, hwk', _⟩ := h.wc (hsub _ hs)
            rw [hwk] at hw; injection hw with hw; subst hw
            rw [hworking] at hwk'; cases hwk'
          refine ⟨(fun hn => by rw [hw2'] at hn; cases hn), ?_, ?_, ?_, ?_, ?_, ?_, ?_⟩
          · intro w hw _ _
            cases hd : w0.isDone with
            | true => exact Or.inr ((hmemNew _).2 (Or.inr (hcur.1 hd)))
            | false => exact Or.inl ⟨w0.cur, (hmemNew _).2 (Or.inr (hcur.2 hd))⟩
          · intro w hw _ hnw
            rw [hw2'] at hw; injection hw with hw; subst hw
            cases hnw
          · intro seg hs
            rcases (hmemNew _).1 hs with hs | hs
            · exact absurd hs (noLA seg)
            · obtain ⟨_, w, hw, _, hnd, hseg⟩ := ms.ctrl.curIn seg hs
              rw [ms.walker1, hwk] at hw; injection hw with hw; subst hw
              exact ⟨_, hw2', rfl, hseg, hnd⟩
          · show (({ st2 with bag := st2.bag ++ oc.toList } : State).inFlight.filter Cmd.isDlCur).length ≤ 1
            rw [hflight, List.filter_append, List.length_append]
            have h0 : ((atomsList (st.bag.eraseIdx idx)).filter Cmd.isDlCur).length = 0 := filter_dlCur_nil noLA
            have h1 := ms.ctrl.curCount
            omega
          · intro hs
            rcases (hmemNew _).1 hs with hs | hs
            · exact absurd hs noKA
            · obtain ⟨_, w, hw, _, hd⟩ := ms.ctrl.wcIn hs
              rw [ms.walker1, hwk] at hw; injection hw with hw; subst hw
              exact ⟨_, hw2', rfl, hd⟩
          · intro ho w hw
            rw [hw2'] at hw; injection hw with hw; subst hw
            exact h.doneW (by rw [← ho2]; exact ho) w0 hwk
          · intro w hw i h1 h2
            rw [hw2'] at hw; injection hw with hw; subst hw
            obtain ⟨r, hr, hf⟩ := h.outs w0 hwk i h1 h2
            exact ⟨r, hr, hfiles _ _ hf⟩
    | absent seg =>
      have ho2 : st2.outDone = st.outDone := by rw [hout2]; simp
      obtain ⟨w0, hwk, hworking, hseg, hnd⟩ := h.dlCur seg hcin
      have hw2' : st2.walker = some { w0 with working := false } := by rw [ms.evo.walker, ms.walker1, hwk]; rfl
      -- this was the only download in flight
      have noLA : ∀ s', Cmd.downloadCurrent s' ∉ atomsList (st.bag.eraseIdx idx) := by
        apply no_dlCur_of_filter_nil
        have := hcount.2 rfl
        have h1 := h.dlOne
        omega
      have noKA : Cmd.walkerCompleted ∉ atomsList (st.bag.eraseIdx idx) := by
        intro hs
        obtain ⟨w, hw, _, hd⟩ := h.wc (hsub _ hs)
        rw [hwk] at hw; injection hw with hw; subst hw
        rw [hnd] at hd; cases hd
      have noL : ∀ s', Cmd.downloadCurrent s' ∉ optAtoms oc := fun s' hs => by have := (ms.ctrl.curIn s' hs).1; cases this
      have noK : Cmd.walkerCompleted ∉ optAtoms oc := fun hs => by have := (ms.ctrl.wcIn hs).1; cases this
      refine ⟨(fun hn => by rw [hw2'] at hn; cases hn), ?_, ?_, ?_, ?_, ?_, ?_, ?_⟩
      · intro w hw _ hwk'
        rw [hw2'] at hw; injection hw with hw; subst hw
        cases hwk'
      · intro w _ _ _
        exact (hmemNew _).2 (Or.inr (ms.ctrl.dlOut (Or.inl rfl)))
      · intro s' hs
        rcases (hmemNew _).1 hs with hs | hs
        · exact absurd hs (noLA s')
        · exact absurd hs (noL s')
      · show (({ st2 with bag := st2.bag ++ oc.toList } : State).inFlight.filter Cmd.isDlCur).length ≤ 1
        rw [hflight, List.filter_append, List.length_append, filter_dlCur_nil noLA, filter_dlCur_nil noL]
        omega
      · intro hs
        rcases (hmemNew _).1 hs with hs | hs
        · exact absurd hs noKA
        · exact absurd hs noK
      · intro ho w hw
        exfalso
        have := h.doneW (by rw [← ho2]; exact ho) w0 hwk
        rw [hnd] at this; cases this
      · intro w hw i h1 h2
        rw [hw2'] at hw; injection hw with hw; subst hw
        obtain ⟨r, hr, hf⟩ := h.outs w0 hwk i h1 h2
        exact ⟨r, hr, hfiles _ _ hf⟩
    | present seg =>
      have ho2 : st2.outDone = st.outDone := by rw [hout2]; simp
      obtain ⟨w0, hwk, hworking, hseg, hnd⟩ := h.dlCur seg hcin
      have hw2' : st2.walker = some { w0 with cur := w0.cur + 1, working := false } := by
        rw [ms.evo.walker, ms.walker1, hwk]; rfl
      have noLA : ∀ s', Cmd.downloadCurrent s' ∉ atomsList (st.bag.eraseIdx idx) := by
        apply no_dlCur_of_filter_nil
        have := hcount.2 rfl
        have h1 := h.dlOne
        omega
      have noKA : Cmd.walkerCompleted ∉ atomsList (st.bag.eraseIdx idx) := by
        intro hs
        obtain ⟨w, hw, _, hd⟩ := h.wc (hsub _ hs)
        rw [hwk] at hw; injection hw with hw; subst hw
        rw [hnd] at hd; cases hd
      have noL : ∀ s', Cmd.downloadCurrent s' ∉ optAtoms oc := fun s' hs => by have := (ms.ctrl.curIn s' hs).1; cases this
      have noK : Cmd.walkerCompleted ∉ optAtoms oc := fun hs => by have := (ms.ctrl.wcIn hs).1; cases this
      -- the file that was downloaded exists
      have hfile := exec_present { st with bag := st.bag.eraseIdx idx } seg (by rw [hex])
      refine ⟨(fun hn => by rw [hw2'] at hn; cases hn), ?_, ?_, ?_, ?_, ?_, ?_, ?_⟩
      · intro w hw _ hwk'
        rw [hw2'] at hw; injection hw with hw; subst hw
        cases hwk'
      · intro w _ _ _
        exact (hmemNew _).2 (Or.inr (ms.ctrl.dlOut (Or.inr rfl)))
      · intro s' hs
        rcases (hmemNew _).1 hs with hs | hs
        · exact absurd hs (noLA s')
        · exact absurd hs (noL s')
      · show (({ st2 with bag := st2.bag ++ oc.toList } : State).inFlight.filter Cmd.isDlCur).length ≤ 1
        rw [hflight, List.filter_append, List.length_append, filter_dlCur_nil noLA, filter_dlCur_nil noL]
        omega
      · intro hs
        rcases (hmemNew _).1 hs with hs | hs
        · exact absurd hs noKA
        · exact absurd hs noK
      · intro ho w hw
        exfalso
        have := h.doneW (by rw [← ho2]; exact ho) w0 hwk
        rw [hnd] at this; cases this
      · intro w hw i h1 h2
        rw [hw2'] at hw; injection hw with hw; subst hw
        simp only at h1 h2 ⊢
        by_cases hi : i < w0.cur
        · obtain ⟨r, hr, hf⟩ := h.outs w0 hwk i h1 hi
          exact ⟨r, hr, hfiles _ _ hf⟩
        · have hic : i = w0.cur := by omega
          obtain ⟨w', r, hw', hr, hf⟩ := hfile
          have hw'' : st.walker = some w' := hw'
          rw [hwk] at hw''; injection hw'' with hw''; subst hw''
          rw [hic, ← hseg]
          exact ⟨r, hr, hfiles _ _ hf⟩

theorem init_liveW_aux (c : Cfg) (fix : Patch) (files : Files) (s s1 : Stages) (tm : List (Option Cmd))
    (walker : Option Walker) (hwshape : ∀ w, walker = some w → w.working = false ∧ w.cur = w.seg.firstIndex)
    (hw : s.WF) (htm : tryMergeList (storeStagePositions s.stages 0) s = .ok (s1, tm)) :
    LiveW { cfg := c, fix := fix, stages := s1, pool := Pool.new c.workers, walker := walker,
            outDone := walker.isNone, storesDone := false,
            bag := (mkBatch [if walker.isSome = true then some Cmd.downloadSegment else none, some Cmd.scheduleNextJob,
                     if s.allStoresCompleted = true then some Cmd.allStoresCompleted else none, mkBatch tm]).toList,
            files := files, ended := none } := by
  obtain ⟨t, _, _, hat⟩ := tryMergeList_spec _ s s1 tm hw htm
  have hctrl := tryMergeList_ctrl _ s s1 tm hw htm
  have htm_atoms : atomsList (tm.filterMap id) = tm.filterMap id := atomsList_of_atomic _ (fun c hc => (hat c hc).1)
  have key : ∀ (dl all : Option Cmd), (∀ x ∈ dl.toList, x = Cmd.downloadSegment) →
      (∀ x ∈ all.toList, x = Cmd.allStoresCompleted) →
      (∀ x ∈ optAtoms (mkBatch [dl, some Cmd.scheduleNextJob, all, mkBatch tm]),
        (∀ seg, x ≠ Cmd.downloadCurrent seg) ∧ x ≠ Cmd.walkerCompleted) ∧
      (dl.isSome = true → Cmd.downloadSegment ∈ optAtoms (mkBatch [dl, some Cmd.scheduleNextJob, all, mkBatch tm])) := by
    intro dl all hdl hall
    rw [optAtoms_mkBatch, init_atoms_explicit dl all tm hdl hall htm_atoms]
    constructor
    · intro x hx
      simp only [List.mem_append, List.mem_singleton] at hx
      rcases hx with ((hx | hx) | hx) | hx
      · rw [hdl x hx]; exact ⟨by simp, by simp⟩
      · subst hx; exact ⟨by simp, by simp⟩
      · rw [hall x hx]; exact ⟨by simp, by simp⟩
      · rcases (hctrl x hx).1 with e1 | ⟨u, e1⟩ | ⟨u, e1⟩ <;> subst e1 <;> exact ⟨by simp, by simp⟩
    · intro hsome
      cases dl with
      | none => simp at hsome
      | some d => have := hdl d (by simp); subst this; simp
  obtain ⟨hno, hdl⟩ := key (if walker.isSome = true then some Cmd.downloadSegment else none)
    (if s.allStoresCompleted = true then some Cmd.allStoresCompleted else none) (ite_some_toList _ _) (ite_some_toList _ _)
  refine ⟨?_, ?_, ?_, ?_, ?_, ?_, ?_, ?_⟩
  · intro hn
    show walker.isNone = true
    have : walker = none := hn
    rw [this]; rfl
  · intro w hw _ hwk
    have : walker = some w := hw
    rw [(hwshape w this).1] at hwk; cases hwk
  · intro w hw _ _
    have hws : walker = some w := hw
    apply hdl
    rw [hws]; rfl
  · intro seg hs; exact absurd rfl ((hno _ hs).1 seg)
  · have : ∀ seg, Cmd.downloadCurrent seg ∉ atomsList (Option.toList (mkBatch
        [if walker.isSome = true then some Cmd.downloadSegment else none, some Cmd.scheduleNextJob,
         if s.allStoresCompleted = true then some Cmd.allStoresCompleted else none, mkBatch tm])) :=
      fun seg hs => absurd rfl ((hno _ hs).1 seg)
    show ((atomsList _).filter Cmd.isDlCur).length ≤ 1
    rw [filter_dlCur_nil this]; omega
  · intro hs; exact absurd rfl (hno _ hs).2
  · intro ho w hw
    have hws : walker = some w := hw
    have : walker.isNone = true := ho
    rw [hws] at this; cases this
  · intro w hw i h1 h2
    have hws : walker = some w := hw
    rw [(hwshape w hws).2] at h2; omega

theorem init_liveW {c : Cfg} {fix : Patch} {files : Files} {st : State} (hc : c.OK)
    (h : init c fix files = .ok st) : LiveW st := by
  unfold init at h
  split at h
  · cases h
  · rename_i s hs
    obtain ⟨hw, _, _, _⟩ := initStages_base hc hs
    simp only at h
    split at h
    · cases h
    · rename_i s1 tm htm
      injection h with h; subst h
      refine init_liveW_aux c fix files s s1 tm _ ?_ hw htm
      intro w hw
      split at hw
      · split at hw
        · injection hw with hw; subst hw; exact ⟨rfl, rfl⟩
        · cases hw
      · cases hw

theorem reachable_liveW {c : Cfg} {fix : Patch} {files : Files} {st : State} (hc : c.OK) (hf : fix.shadow = true)
    (h : Reachable c fix files st) : LiveW st := by
  induction h with
  | init h0 => exact init_liveW hc h0
  | @step st0 idx e hr ih => exact step_liveW st0 idx e (reachable_good hc hf hr) ih

/-! ### witnesses (configurations and schedules) used by the `example`s of `Props/C05.lean`; every one was found
by the model's explorer (`Driver/C05.lean`) and replayed on the real code by `harness/cmd/vh_c05` -/
namespace Witness

def mkCfg (k : Nat) (bs we re : Option Range) (graph : List StageCfg) (start xi w : Nat) : Cfg where
  interval := k
  buildStores := bs
  writeExecOut := we
  readExecOut := re
  graph := graph
  start := start
  outIsIndex := false
  outIsMap := true
  outInit := xi
  workers := w

/-- F15: S0@5 (stage 0), S1@25 (stage 1), mapper x@25; segment size 10; start 25; hand-off 40; empty cache; 1 worker -/
def cfgF15 : Cfg := mkCfg 10 (some ⟨5, 40⟩) (some ⟨20, 40⟩) (some ⟨25, 40⟩) [⟨.store, [5]⟩, ⟨.store, [25]⟩, ⟨.map, [25]⟩] 25 25 1
def schedF15 : List (Nat × Bool) := [(0,false),(2,false),(0,false),(3,false),(0,false),(3,false),(0,false),(0,false),(2,false),(2,false),(1,false),(2,false),(3,false),(4,false),(3,false),(4,false),(4,false),(1,true),(1,true),(3,true),(3,true),(3,true),(1,true),(2,true)]

/-- F20: development mode, two store stages from block 0, hand-off 20, start 15; the cache holds the snapshot of the
lower store at block 20 but not at block 10; 2 workers -/
def cfgF20 : Cfg := mkCfg 10 (some ⟨0, 20⟩) none none [⟨.store, [0]⟩, ⟨.store, [0]⟩, ⟨.map, [0]⟩] 15 0 2
def filesF20 : Files := ⟨[⟨0, 0, false, 0, 20⟩], []⟩
def schedF20 : List (Nat × Bool) := [(0,false),(1,false),(0,false),(2,false),(0,false),(0,false),(1,false),(1,false)]

/-- F19 (merged twice): one store S@0 and the mapper; range [0,20); an interrupted earlier request left S's partial
for segment 0; 1 worker -/
def cfgTwice : Cfg := mkCfg 10 (some ⟨0, 20⟩) (some ⟨0, 20⟩) (some ⟨0, 20⟩) [⟨.store, [0]⟩, ⟨.map, [0]⟩] 0 0 1
def filesTwice : Files := ⟨[⟨0, 0, true, 0, 10⟩], []⟩
def schedTwice : List (Nat × Bool) := [(0,false),(2,false),(0,false),(2,false),(0,false),(2,false),(3,false),(3,false),(2,false),(3,false),(3,false),(3,false),(5,false),(3,false),(5,false),(5,false)]

/-- F19 (deadlock, EMPTY cache): three store stages and the mapper, all from block 0; range [0,30), start 6; 2 workers -/
def cfgDead : Cfg := mkCfg 10 (some ⟨0, 30⟩) (some ⟨0, 30⟩) (some ⟨6, 30⟩)
  [⟨.store, [0]⟩, ⟨.store, [0]⟩, ⟨.store, [0]⟩, ⟨.map, [0]⟩] 6 0 2
def schedDead : List (Nat × Bool) := [(0,false),(2,false),(0,false),(4,false),(0,false),(4,false),(0,false),(0,false),(0,false),(2,false),(2,false),(1,false),(2,false),(2,false),(2,false),(6,false),(2,false),(6,false),(6,false),(0,false),(6,false),(6,false),(6,false),(0,true),(6,true),(7,true),(0,true),(6,true),(6,true),(6,true),(1,true),(5,true),(5,true),(5,true),(1,true),(4,true),(5,true),(5,true),(1,true),(2,true),(3,true),(3,true),(3,true),(3,true),(2,true),(2,true),(2,true),(3,true),(4,true),(2,true),(3,true),(3,true),(4,true),(3,true),(4,true),(2,true),(3,true),(3,true),(3,true),(3,true),(4,true),(0,true),(3,true),(3,true),(3,true),(0,true),(2,true),(2,true),(2,true),(0,true),(2,true),(2,true),(2,true),(2,true),(0,true),(1,true),(1,true),(2,true),(1,true),(2,true),(1,true),(1,true),(1,true),(1,true),(1,true),(0,true),(1,true),(1,true),(1,true),(0,true),(0,true),(0,true),(0,true)]

/-- F19 (panic): development mode, three store stages from block 0, hand-off 20; the cache holds the partial of the top
store for segment 1; 2 workers -/
def cfgPanic : Cfg := mkCfg 10 (some ⟨0, 20⟩) none none [⟨.store, [0]⟩, ⟨.store, [0]⟩, ⟨.store, [0]⟩, ⟨.map, [0]⟩] 15 0 2
def filesPanic : Files := ⟨[⟨2, 0, true, 10, 20⟩], []⟩
def schedPanic : List (Nat × Bool) := [(0,false),(1,false),(0,false),(3,false),(0,false),(0,false),(0,false),(1,false),(1,false),(0,false),(1,false),(1,false),(1,false),(4,false),(5,false),(5,false),(0,true),(1,true),(4,true),(4,true),(4,true),(1,true),(3,true),(3,true),(3,true),(1,true),(2,true),(3,true),(1,true),(1,true),(1,true),(1,true),(2,true),(1,true),(2,true),(0,true),(1,true),(1,true)]

/-- F21 (fixed at HEAD by commit 38ce9883): the only store starts at block 30, after the hand-off 20; mapper from 0 -/
def cfgShift : Cfg := mkCfg 10 none (some ⟨0, 20⟩) (some ⟨0, 20⟩) [⟨.store, [30]⟩, ⟨.map, [0]⟩] 0 0 1
def schedShift : List (Nat × Bool) := [(0,false),(0,false),(2,false)]

/-- a decidable check of `Cfg.OK` -/
def check (c : Cfg) : Bool :=
  decide (0 < c.interval) &&
  (match c.buildStores with | none => true | some r => decide (0 < r.stop) && r.stop % c.interval == 0) &&
  (match c.writeExecOut with | none => true | some r => decide (0 < r.stop) && r.stop % c.interval == 0) &&
  (List.range (c.graph.length - 1)).all fun i => (c.graph.getD i ⟨.map, []⟩).kind == .store

theorem ok_of_check (c : Cfg) (h : check c = true) : c.OK := by
  unfold check at h
  simp only [Bool.and_eq_true, decide_eq_true_eq, List.all_eq_true, List.mem_range, beq_iff_eq] at h
  obtain ⟨⟨⟨h1, h2⟩, h3⟩, h4⟩ := h
  refine ⟨h1, ?_, ?_, ?_⟩
  · intro r hr; rw [hr] at h2; simpa using h2
  · intro r hr; rw [hr] at h3; simpa using h3
  · intro i hi; exact h4 i (by omega)

/-- the state reached from the initial state by a schedule (`none` if the initial state panics) -/
def after (c : Cfg) (fix : Patch) (files : Files) (sched : List (Nat × Bool)) : Option State :=
  match init c fix files with
  | .ok st => some (runSched st sched)
  | .error _ => none

end Witness

end SV.Sch

import Model.Plan
import Lemmas.Segmenter
/-! Helper lemmas for C12 (`Props/C12.lean`): arithmetic of boundaries, the loops of
`computeLowest*InitBlock` and `reprocStateRequired`, inversion lemmas for the `Except` pipelines. -/
namespace SV.Plan
open SV SV.Resolve

/-! ### boundaries -/

theorem sub_mod_mod (x k : Nat) : (x - x % k) % k = 0 := by
  rw [sub_mod_eq]; exact Nat.mul_mod_left _ _

theorem sub_mod_le (x k : Nat) : x - x % k ≤ x := Nat.sub_le _ _

theorem lt_sub_mod_add (x k : Nat) (hk : 0 < k) : x < x - x % k + k := by
  have := Nat.mod_lt x hk
  have := Nat.mod_le x k
  omega

theorem nextBoundary_mod (s k : Nat) (_hk : 0 < k) : nextBoundary s k % k = 0 := by
  unfold nextBoundary
  split
  · rw [Nat.add_mod, sub_mod_mod, Nat.mod_self]; simp
  · rename_i h; simpa using h

theorem nextBoundary_ge (s k : Nat) (hk : 0 < k) : s ≤ nextBoundary s k := by
  unfold nextBoundary
  split
  · have := lt_sub_mod_add s k hk; omega
  · exact Nat.le_refl _

/-- a multiple of `k` above `a`'s segment start is at least one segment further -/
theorem mul_div_lt_of_mod_zero (a h k : Nat) (hk : 0 < k) (hm : h % k = 0) (hlt : a < h) :
    a / k * k + k ≤ h := by
  have h1 : h = h / k * k := by
    have := Nat.div_add_mod h k; rw [hm, Nat.add_zero, Nat.mul_comm] at this; exact this.symm
  have h2 : a / k < h / k := by
    apply Nat.lt_of_not_le; intro hc
    have : h / k * k ≤ a / k * k := Nat.mul_le_mul_right _ hc
    have := div_mul_le' a k
    omega
  have : (a / k + 1) * k ≤ h / k * k := Nat.mul_le_mul_right _ h2
  rw [Nat.add_mul, Nat.one_mul] at this
  omega

theorem pred_div_of_mod_zero (h k : Nat) (hk : 0 < k) (hm : h % k = 0) (hpos : 0 < h) :
    (h - 1) / k + 1 = h / k := by
  have h1 : h = h / k * k := by
    have := Nat.div_add_mod h k; rw [hm, Nat.add_zero, Nat.mul_comm] at this; exact this.symm
  have hq : 0 < h / k := by
    apply Nat.pos_of_ne_zero; intro hc; rw [hc] at h1; omega
  have : (h - 1) / k = h / k - 1 := by
    apply (div_eq_iff' (h - 1) k (h / k - 1) hk).2
    have e : (h / k - 1 + 1) * k = h / k * k := by rw [Nat.sub_add_cancel hq]
    have e2 : (h / k - 1) * k + k = h / k * k := by rw [← e, Nat.add_mul, Nat.one_mul]
    constructor <;> omega
  omega

/-! ### `lowestOf` -/

theorem lowestOf_eq_none {l : List Nat} : lowestOf l = none ↔ l = [] := by
  cases l with
  | nil => simp [lowestOf]
  | cons x xs =>
    simp only [lowestOf]
    split <;> simp

theorem lowestOf_spec : ∀ {l : List Nat} {x : Nat}, lowestOf l = some x → x ∈ l ∧ ∀ y ∈ l, x ≤ y
  | [], x, h => by simp [lowestOf] at h
  | a :: xs, x, h => by
    simp only [lowestOf] at h
    split at h
    · rename_i hn
      injection h with h; subst h
      have := lowestOf_eq_none.1 hn; subst this
      simp
    · rename_i y hy
      injection h with h
      have ih := lowestOf_spec hy
      refine ⟨?_, ?_⟩
      · by_cases hc : a ≤ y
        · rw [Nat.min_eq_left hc] at h; subst h; simp
        · rw [Nat.min_eq_right (by omega)] at h; subst h; exact List.mem_cons_of_mem _ ih.1
      · intro z hz
        cases hz with
        | head => rw [← h]; exact Nat.min_le_left _ _
        | tail _ hz => rw [← h]; exact Nat.le_trans (Nat.min_le_right _ _) (ih.2 z hz)

theorem lowestOf_isSome_of_mem {l : List Nat} {y : Nat} (h : y ∈ l) : ∃ x, lowestOf l = some x := by
  cases hl : lowestOf l with
  | none => rw [lowestOf_eq_none.1 hl] at h; simp at h
  | some x => exact ⟨x, rfl⟩

/-! ### `reprocStateRequired` -/

/-- invariant of the loop: `acc` is the least element below `start` seen so far -/
def ReprocInv (start : Nat) (seen : List Nat) : Option Nat → Prop
  | none => ∀ s ∈ seen, start ≤ s
  | some x => x ∈ seen ∧ x < start ∧ ∀ s ∈ seen, s < start → x ≤ s

theorem reproc_foldl (start : Nat) : ∀ (rest seen : List Nat) (acc : Option Nat),
    ReprocInv start seen acc → ReprocInv start (seen ++ rest) (rest.foldl (reprocStep start) acc)
  | [], seen, acc, h => by simpa using h
  | s :: rest, seen, acc, h => by
    have key : ReprocInv start (seen ++ [s]) (reprocStep start acc s) := by
      cases acc with
      | none =>
        simp only [reprocStep]
        split
        · rename_i hlt
          refine ⟨by simp, hlt, ?_⟩
          intro t ht hts
          rcases List.mem_append.1 ht with ht | ht
          · have := h t ht; omega
          · simp at ht; omega
        · rename_i hge
          intro t ht
          rcases List.mem_append.1 ht with ht | ht
          · exact h t ht
          · simp at ht; omega
      | some x =>
        obtain ⟨hx1, hx2, hx3⟩ := h
        simp only [reprocStep]
        split
        · rename_i hlt
          refine ⟨by simp, hlt.1, ?_⟩
          intro t ht hts
          rcases List.mem_append.1 ht with ht | ht
          · have := hx3 t ht hts; omega
          · simp at ht; omega
        · rename_i hge
          refine ⟨List.mem_append_left _ hx1, hx2, ?_⟩
          intro t ht hts
          rcases List.mem_append.1 ht with ht | ht
          · exact hx3 t ht hts
          · simp at ht; subst ht; omega
    have := reproc_foldl start rest (seen ++ [s]) _ key
    simpa [List.foldl] using this

theorem reproc_inv (start : Nat) (l : List Nat) : ReprocInv start l (reprocStateRequired start l) := by
  have := reproc_foldl start l [] none (by intro s hs; simp at hs)
  simpa [reprocStateRequired] using this

theorem reproc_none {start : Nat} {l : List Nat} (h : reprocStateRequired start l = none) :
    ∀ s ∈ l, start ≤ s := by
  have := reproc_inv start l; rw [h] at this; exact this

/-- the store returned is the lowest of *all* required stores, and lies below the start block -/
theorem reproc_some {start : Nat} {l : List Nat} {x : Nat} (h : reprocStateRequired start l = some x) :
    x ∈ l ∧ x < start ∧ ∀ s ∈ l, x ≤ s := by
  have := reproc_inv start l; rw [h] at this
  refine ⟨this.1, this.2.1, ?_⟩
  intro s hs
  have hlt := this.2.1
  by_cases hc : s < start
  · exact this.2.2 s hs hc
  · omega

/-! ### module graph facts -/

theorem mapInit_ge (fsb raw : Nat) (h : raw = 0 ∨ fsb ≤ raw) : fsb ≤ mapInit fsb raw := by
  unfold mapInit; split <;> omega

theorem raw_le_mapInit (fsb raw : Nat) : raw ≤ mapInit fsb raw := by
  unfold mapInit; split <;> omega

theorem graphOk_iff (fsb : Nat) (m : Mods) :
    m.graphOk fsb = true ↔ (m.out = 0 ∨ fsb ≤ m.out) ∧ ∀ s ∈ m.stores, s = 0 ∨ fsb ≤ s := by
  simp [Mods.graphOk]

/-- `LowestInitBlock` is at least the first streamable block and at most every used module's (mapped)
initial block -/
theorem lowestInit_le_out (fsb : Nat) (m : Mods) (hg : m.graphOk fsb = true) :
    fsb ≤ m.lowestInitBlock fsb ∧ m.lowestInitBlock fsb ≤ mapInit fsb m.out := by
  have hg' := (graphOk_iff fsb m).1 hg
  unfold Mods.lowestInitBlock
  cases hl : lowestOf (m.out :: m.stores) with
  | none => simp [lowestOf_eq_none] at hl
  | some l =>
    have hs := lowestOf_spec hl
    have h1 : l ≤ m.out := hs.2 _ (by simp)
    simp only []
    unfold mapInit
    rcases hg'.1 with h0 | h0
    · repeat' split
      all_goals omega
    · repeat' split
      all_goals omega

theorem mem_reqStores {m : Mods} {x : Nat} (h : x ∈ m.reqStores) : x ∈ m.out :: m.stores := by
  unfold Mods.reqStores at h
  split at h
  · rcases List.mem_append.1 h with h | h
    · exact List.mem_cons_of_mem _ h
    · simp at h; subst h; simp
  · exact List.mem_cons_of_mem _ h

theorem stores_sub_reqStores {m : Mods} {x : Nat} (h : x ∈ m.stores) : x ∈ m.reqStores := by
  unfold Mods.reqStores; split
  · exact List.mem_append_left _ h
  · exact h

theorem out_mem_reqStores {m : Mods} (h : m.outIsStore = true) : m.out ∈ m.reqStores := by
  simp [Mods.reqStores, h]

theorem graphOk_reqStores (fsb : Nat) (m : Mods) (hg : m.graphOk fsb = true) :
    ∀ s ∈ m.reqStores, s = 0 ∨ fsb ≤ s := by
  intro s hs
  have h := (graphOk_iff fsb m).1 hg
  rcases List.mem_cons.1 (mem_reqStores hs) with h1 | h1
  · subst h1; exact h.1
  · exact h.2 s h1

theorem lowestInit_le_lowestStores (fsb : Nat) (m : Mods) (ls : Nat)
    (h : m.lowestStoresInitBlock fsb = some ls) : m.lowestInitBlock fsb ≤ ls := by
  unfold Mods.lowestStoresInitBlock at h
  unfold Mods.lowestInitBlock
  cases hs : lowestOf m.reqStores with
  | none => rw [hs] at h; simp at h
  | some x =>
    rw [hs] at h
    simp only [Option.some.injEq] at h
    have hx := lowestOf_spec hs
    cases hl : lowestOf (m.out :: m.stores) with
    | none => simp [lowestOf_eq_none] at hl
    | some l =>
      have hl' := lowestOf_spec hl
      have : l ≤ x := hl'.2 x (mem_reqStores hx.1)
      simp only []
      subst h
      split <;> split <;> omega

theorem lowestStores_none_iff (fsb : Nat) (m : Mods) :
    m.lowestStoresInitBlock fsb = none ↔ m.reqStores = [] := by
  unfold Mods.lowestStoresInitBlock
  cases hs : lowestOf m.reqStores with
  | none => simp [lowestOf_eq_none.1 hs]
  | some x =>
    simp only [reduceCtorEq, false_iff]
    intro hc; rw [hc] at hs; simp [lowestOf] at hs

/-- with a graph that `NewOutputModuleGraph` accepts, `LowestStoresInitBlock` is the least of the stores'
(mapped) initial blocks -/
theorem lowestStores_spec (fsb : Nat) (m : Mods) (hg : m.graphOk fsb = true) (ls : Nat)
    (h : m.lowestStoresInitBlock fsb = some ls) :
    (∃ s ∈ m.reqStores, mapInit fsb s = ls) ∧ ∀ s ∈ m.reqStores, ls ≤ mapInit fsb s := by
  have hg' := graphOk_reqStores fsb m hg
  unfold Mods.lowestStoresInitBlock at h
  cases hs : lowestOf m.reqStores with
  | none => rw [hs] at h; simp at h
  | some x =>
    rw [hs] at h
    simp only [Option.some.injEq] at h
    have hx := lowestOf_spec hs
    refine ⟨⟨x, hx.1, ?_⟩, ?_⟩
    · rcases hg' x hx.1 with h0 | h0
      · subst h0; subst h; simp [mapInit]
      · subst h; unfold mapInit; split <;> split <;> omega
    · intro s hs'
      have h1 := hx.2 s hs'
      have h2 := raw_le_mapInit fsb s
      have h3 := mapInit_ge fsb s (hg' s hs')
      subst h
      split <;> omega

/-- the raw lowest store block is a lower bound of `LowestStoresInitBlock` (no assumption on the graph) -/
theorem lowestStores_ge_raw (fsb : Nat) (m : Mods) (ls x : Nat)
    (h : m.lowestStoresInitBlock fsb = some ls) (hx : ∀ s ∈ m.reqStores, x ≤ s) : x ≤ ls := by
  unfold Mods.lowestStoresInitBlock at h
  cases hs : lowestOf m.reqStores with
  | none => rw [hs] at h; simp at h
  | some y =>
    rw [hs] at h
    simp only [Option.some.injEq] at h
    have := hx y (lowestOf_spec hs).1
    subst h
    split <;> omega

/-! ### inversion of `BuildTier1RequestPlan` -/

theorem goRange_start {seg li stop idx : Nat} {r : Range} (hseg : 0 < seg)
    (h : goRange? ⟨seg, li, stop⟩ idx = some r) (hidx : li / seg ≤ idx) :
    r.start = max li (idx * seg) := by
  unfold goRange? at h
  simp only [Segmenter.firstIndex] at h
  split at h
  · omega
  · split at h
    · rename_i heq
      unfold Segmenter.firstRange at h
      split at h
      · simp at h
      · injection h with h; subst h
        have := div_mul_le' li seg
        simp only []
        rw [heq, Nat.max_eq_left this]
    · rename_i hne
      split at h
      · simp at h
      · injection h with h; subst h
        have h1 : li / seg + 1 ≤ idx := by omega
        have h2 : (li / seg + 1) * seg ≤ idx * seg := Nat.mul_le_mul_right _ h1
        have h3 := lt_div_succ_mul li seg hseg
        simp only []
        rw [Nat.max_eq_right (by omega)]

theorem buildPlan_ok {production : Bool} {seg li lsi start handoff stop : Nat} {ss : Bool} {p : Plan}
    (h : buildTier1RequestPlan production seg li lsi start handoff stop ss = .ok p) :
    li ≤ start ∧ p.seg = seg ∧
    p.linear = (if handoff < stop ∨ stop = 0 ∨ handoff = 0 then some ⟨handoff, stop⟩ else none) ∧
    p.buildStores = (if ¬(start = handoff ∧ li = start) ∧ ss = true ∧ handoff > lsi
        then some ⟨lsi, handoff⟩ else none) ∧
    p.readExecOut = (if production = true ∧ start < handoff
        then some ⟨start, if stop ≠ 0 ∧ stop < handoff then stop else handoff⟩ else none) ∧
    (p.writeExecOut = none ↔ ¬(production = true ∧ start < handoff)) ∧
    (∀ w, p.writeExecOut = some w → w.stop = handoff ∧
        ∃ r, goRange? ⟨seg, li, stop⟩ (max start li / seg) = some r ∧ w.start = r.start) := by
  unfold buildTier1RequestPlan at h
  split at h
  · simp at h
  · rename_i hli
    have hli : li ≤ start := by omega
    refine ⟨hli, ?_⟩
    simp only [] at h
    split at h
    · rename_i heq
      injection h with h; subst h
      have : ¬ start < handoff := by omega
      simp [heq]
    · rename_i hne
      split at h
      · rename_i hprod
        split at h
        · rename_i hlt
          simp only [Segmenter.indexForStartBlock] at h
          split at h
          · simp at h
          · rename_i r hr
            injection h with h; subst h
            have hne' : ¬(start = handoff ∧ li = start) := hne
            refine ⟨rfl, rfl, ?_, ?_, ?_, ?_⟩
            · simp [hne', hprod]
            · simp [hlt, hprod]
            · simp [hlt, hprod]
            · intro w hw
              injection hw with hw; subst hw
              exact ⟨rfl, r, hr, rfl⟩
        · rename_i hge
          injection h with h; subst h
          have hne' : ¬(start = handoff ∧ li = start) := hne
          simp [hprod, hge, hne']
      · rename_i hdev
        injection h with h; subst h
        have hne' : ¬(start = handoff ∧ li = start) := hne
        simp [hdev, hne']

/-! ### inversion of `BuildRequestDetails` -/

theorem buildRequestDetails_ok {env : Env} {m : Mods} {req : Request} {d : Details} {u : Option Undo}
    (h : buildRequestDetails env m req = .ok (d, u)) :
    ∃ r, resolveStartBlockNum env req = .ok r ∧ d.start = r.start ∧ u = r.undo ∧ d.stop = req.stop ∧
      d.production = req.production ∧ d.rpath = r.path ∧
      (computeLinearHandoffP req.production r.start req.stop env.final
          (reprocStateRequired r.start m.reqStores) env.seg).1 ≠ .prodNoFinalOpenEnded ∧
      d.hpath = (computeLinearHandoffP req.production r.start req.stop env.final
          (reprocStateRequired r.start m.reqStores) env.seg).1 ∧
      d.handoff = (computeLinearHandoffP req.production r.start req.stop env.final
          (reprocStateRequired r.start m.reqStores) env.seg).2 ∧
      d.gate = (if d.start > d.handoff then d.start else d.handoff) ∧
      d.cursor = (if d.start < d.handoff then none else r.cursor) := by
  unfold buildRequestDetails at h
  cases hr : resolveStartBlockNum env req with
  | error e => rw [hr] at h; simp [bind, Except.bind] at h
  | ok r =>
    rw [hr] at h
    simp only [bind, Except.bind] at h
    refine ⟨r, rfl, ?_⟩
    unfold computeLinearHandoff at h
    generalize hph : computeLinearHandoffP req.production r.start req.stop env.final
      (reprocStateRequired r.start m.reqStores) env.seg = ph at h
    obtain ⟨path, hv⟩ := ph
    cases path <;> simp only [] at h <;>
      first
      | (simp at h; done)
      | (simp only [Except.ok.injEq, Prod.mk.injEq] at h
         obtain ⟨hd, hu⟩ := h
         subst hd; subst hu
         simp)

/-! ### `computeLinearHandoffBlockNum`: what every return path gives -/

/-- Every non-error return path yields a segment boundary, or the start block when no store lies below it,
or (development mode only) the initial block of the store found by `reprocStateRequired`. -/
theorem handoff_cases (production : Bool) (start stop : Nat) (final sra : Option Nat) (seg : Nat)
    (hseg : 0 < seg) :
    let ph := computeLinearHandoffP production start stop final sra seg
    ph.2 % seg = 0 ∨
    (ph.2 = start ∧ (sra = none ∨ ∃ x, sra = some x ∧ start < x)) ∨
    (production = false ∧ sra = some ph.2 ∧ ph.2 ≤ start) := by
  simp only [computeLinearHandoffP]
  have hnb := nextBoundary_mod stop seg hseg
  cases sra with
  | none =>
    cases production <;> cases final <;> simp <;> repeat' split
    all_goals first | omega | (left; exact sub_mod_mod _ _) | simp_all
  | some x =>
    by_cases hx : x ≤ start
    · cases production <;> cases final <;> simp [hx] <;> repeat' split
      all_goals first | omega | (left; exact sub_mod_mod _ _) | simp_all
    · have hx' : start < x := by omega
      cases production <;> cases final <;> simp [hx] <;> repeat' split
      all_goals first | omega | (left; exact sub_mod_mod _ _) | simp_all

end SV.Plan

import Lemmas.ValidateGraph
/-!
Helper lemmas for C17, part 2: `computeStages`.  Under the facts established by validation and graph
construction (`UsedOK`: distinct names, every input oneof present, dependencies inside the set of
used modules, a rank that strictly decreases along dependencies) the layering loop neither panics
nor runs out of fuel, and what it returns has no empty layer and no empty stage.
-/
namespace SV.Val

/-- the module names computeStages waits for: map inputs, store inputs, the block filter module -/
def depNames (m : Module) : List Str :=
  m.inputs.filterMap (fun i => match i with
    | some (.map n) => some n
    | some (.store n _) => some n
    | _ => none) ++
  (match m.blockFilter with
   | some bf => [bf.module]
   | none => [])

theorem mem_depNames_map {m : Module} {n : Str} (h : some (InputK.map n) ∈ m.inputs) : n ∈ depNames m := by
  unfold depNames
  exact List.mem_append_left _ (List.mem_filterMap.2 ⟨_, h, rfl⟩)

theorem mem_depNames_store {m : Module} {n : Str} {md : Int} (h : some (InputK.store n md) ∈ m.inputs) :
    n ∈ depNames m := by
  unfold depNames
  exact List.mem_append_left _ (List.mem_filterMap.2 ⟨_, h, rfl⟩)

theorem mem_depNames_filter {m : Module} {bf : BlockFilter} (h : m.blockFilter = some bf) :
    bf.module ∈ depNames m := by
  unfold depNames
  rw [h]; simp

structure UsedOK (used : List Module) (rk : Str → Nat) : Prop where
  nodup : (used.map (·.name)).Nodup
  present : ∀ m ∈ used, ∀ i ∈ m.inputs, i ≠ none
  closed : ∀ m ∈ used, ∀ nm ∈ depNames m, ∃ m' ∈ used, m'.name = nm
  rank : ∀ m ∈ used, ∀ nm ∈ depNames m, rk nm < rk m.name

def Ready (seen : List Str) (m : Module) : Prop := ∀ nm ∈ depNames m, nm ∈ seen

/-! ### one module -/

theorem inputsLoop_good (tbl : List (Str × Nat)) (seen : List Str) (m : Module) :
    ∀ (ins : List (Option InputK)) (valid : Bool), (∀ i ∈ ins, i ≠ none) →
      Good (inputsLoop tbl seen m ins valid) := by
  intro ins
  induction ins with
  | nil => intro valid _; simp [inputsLoop]
  | cons i r ih =>
    intro valid h
    have hr : ∀ j ∈ r, j ≠ none := fun j hj => h j (List.mem_cons_of_mem _ hj)
    cases i with
    | none => exact absurd rfl (h none List.mem_cons_self)
    | some k =>
      cases k with
      | params v => simp only [inputsLoop]; exact ih _ hr
      | source t => simp only [inputsLoop]; exact ih _ hr
      | map nm =>
        simp only [inputsLoop]
        split
        · simp
        · exact ih _ hr
      | store nm md =>
        simp only [inputsLoop]
        split
        · simp
        · exact ih _ hr

theorem inputsLoop_ready (tbl : List (Str × Nat)) (seen : List Str) (m : Module) :
    ∀ (ins : List (Option InputK)) (valid : Bool), (∀ i ∈ ins, i ≠ none) →
      (∀ n, some (InputK.map n) ∈ ins → n ∈ seen) → (∀ n md, some (InputK.store n md) ∈ ins → n ∈ seen) →
      ∃ v, inputsLoop tbl seen m ins valid = .ok (some v) := by
  intro ins
  induction ins with
  | nil => intro valid _ _ _; exact ⟨valid, rfl⟩
  | cons i r ih =>
    intro valid h hm hs
    have hr : ∀ j ∈ r, j ≠ none := fun j hj => h j (List.mem_cons_of_mem _ hj)
    have hmr : ∀ n, some (InputK.map n) ∈ r → n ∈ seen := fun n hn => hm n (List.mem_cons_of_mem _ hn)
    have hsr : ∀ n md, some (InputK.store n md) ∈ r → n ∈ seen :=
      fun n md hn => hs n md (List.mem_cons_of_mem _ hn)
    cases i with
    | none => exact absurd rfl (h none List.mem_cons_self)
    | some k =>
      cases k with
      | params v => simp only [inputsLoop]; exact ih _ hr hmr hsr
      | source t => simp only [inputsLoop]; exact ih _ hr hmr hsr
      | map nm =>
        have : seen.contains nm = true := by simpa using hm nm List.mem_cons_self
        simp only [inputsLoop, this]
        exact ih _ hr hmr hsr
      | store nm md =>
        have : seen.contains nm = true := by simpa using hs nm md List.mem_cons_self
        simp only [inputsLoop, this]
        exact ih _ hr hmr hsr

theorem modStep_good (tbl : List (Str × Nat)) (seen : List Str) (i : Nat) (m : Module)
    (h : ∀ j ∈ m.inputs, j ≠ none) : Good (modStep tbl seen i m) := by
  unfold modStep
  split
  · simp
  · split
    · simp
    · rw [good_bind]
      refine ⟨inputsLoop_good tbl seen m _ _ h, ?_⟩
      intro res _
      cases res with
      | none => simp
      | some valid =>
        simp only
        split
        · simp
        · split
          · simp
          · split <;> simp

/-- a module that is ready, not yet placed and of the parity of this iteration is placed (or the
whole computation returns the "no input available" error) -/
theorem modStep_ready (tbl : List (Str × Nat)) (seen : List Str) (i : Nat) (m : Module)
    (h : ∀ j ∈ m.inputs, j ≠ none) (hr : Ready seen m) (hp : paritySkip i m.kind = false)
    (hs : m.name ∉ seen) : modStep tbl seen i m = .error ∨ modStep tbl seen i m = .ok true := by
  unfold modStep
  have hs' : seen.contains m.name = false := by simpa using hs
  simp only [hp, hs']
  obtain ⟨v, hv⟩ := inputsLoop_ready tbl seen m m.inputs false h
    (fun n hn => hr n (mem_depNames_map hn)) (fun n md hn => hr n (mem_depNames_store hn))
  rw [hv]
  simp only [bind_ok]
  cases v with
  | false => left; simp
  | true =>
    right
    cases hbf : m.blockFilter with
    | none => simp
    | some bf =>
      have : bf.module ∈ seen := hr bf.module (mem_depNames_filter hbf)
      simp [this]

theorem modStep_take_unseen (tbl : List (Str × Nat)) (seen : List Str) (i : Nat) (m : Module)
    (h : modStep tbl seen i m = .ok true) : m.name ∉ seen := by
  unfold modStep at h
  split at h
  · cases h
  · split at h
    · cases h
    · rename_i hs
      simpa using hs

/-! ### one layer -/

theorem layerOf_good (tbl : List (Str × Nat)) (seen : List Str) (i : Nat) (mods : List Module)
    (h : ∀ m ∈ mods, ∀ j ∈ m.inputs, j ≠ none) : Good (layerOf tbl seen i mods) := by
  induction mods with
  | nil => simp [layerOf]
  | cons m r ih =>
    unfold layerOf
    rw [good_bind]
    refine ⟨modStep_good tbl seen i m (h m List.mem_cons_self), ?_⟩
    intro take _
    rw [good_bind]
    refine ⟨ih (fun m' hm' => h m' (List.mem_cons_of_mem _ hm')), ?_⟩
    intro l _; simp

theorem layerOf_ok (tbl : List (Str × Nat)) (seen : List Str) (i : Nat) (mods : List Module)
    {l : List Module} (h : layerOf tbl seen i mods = .ok l) :
    l.Sublist mods ∧ ∀ m ∈ l, m.name ∉ seen := by
  induction mods generalizing l with
  | nil => simp [layerOf] at h; subst h; simp
  | cons m r ih =>
    unfold layerOf at h
    obtain ⟨take, ht, h⟩ := bind_eq_ok.1 h
    obtain ⟨l', hl', h⟩ := bind_eq_ok.1 h
    obtain ⟨ih1, ih2⟩ := ih hl'
    cases take with
    | false =>
      simp at h; subst h
      exact ⟨List.Sublist.cons _ ih1, ih2⟩
    | true =>
      simp at h; subst h
      refine ⟨List.Sublist.cons_cons _ ih1, ?_⟩
      intro x hx
      rcases List.mem_cons.1 hx with hx | hx
      · subst hx; exact modStep_take_unseen tbl seen i _ ht
      · exact ih2 x hx

theorem layerOf_takes (tbl : List (Str × Nat)) (seen : List Str) (i : Nat) (mods : List Module)
    {m : Module} (hm : m ∈ mods)
    (hstep : modStep tbl seen i m = .error ∨ modStep tbl seen i m = .ok true)
    {l : List Module} (h : layerOf tbl seen i mods = .ok l) : m ∈ l := by
  induction mods generalizing l with
  | nil => cases hm
  | cons a r ih =>
    unfold layerOf at h
    obtain ⟨take, ht, h⟩ := bind_eq_ok.1 h
    obtain ⟨l', hl', h⟩ := bind_eq_ok.1 h
    rcases List.mem_cons.1 hm with hm | hm
    · subst hm
      rcases hstep with hs | hs
      · rw [hs] at ht; cases ht
      · rw [hs] at ht; injection ht with ht; subst ht
        simp at h; subst h; exact List.mem_cons_self
    · have := ih hm hl'
      cases take <;> simp at h <;> subst h
      · exact this
      · exact List.mem_cons_of_mem _ this

/-! ### the set of placed modules -/

theorem mem_addSeen {seen : List Str} {l : List Module} {x : Str} :
    x ∈ addSeen seen l ↔ x ∈ seen ∨ ∃ m ∈ l, m.name = x := by
  induction l generalizing seen with
  | nil => simp [addSeen]
  | cons a r ih =>
    unfold addSeen
    rw [ih]
    by_cases hc : seen.contains a.name = true
    · simp only [hc, if_true]
      have : a.name ∈ seen := by simpa using hc
      constructor
      · rintro (h | ⟨m, hm, hn⟩)
        · exact Or.inl h
        · exact Or.inr ⟨m, List.mem_cons_of_mem _ hm, hn⟩
      · rintro (h | ⟨m, hm, hn⟩)
        · exact Or.inl h
        · rcases List.mem_cons.1 hm with hm | hm
          · subst hm; subst hn; exact Or.inl this
          · exact Or.inr ⟨m, hm, hn⟩
    · simp only [hc]
      constructor
      · rintro (h | ⟨m, hm, hn⟩)
        · rcases List.mem_append.1 h with h | h
          · exact Or.inl h
          · simp at h; exact Or.inr ⟨a, List.mem_cons_self, h.symm⟩
        · exact Or.inr ⟨m, List.mem_cons_of_mem _ hm, hn⟩
      · rintro (h | ⟨m, hm, hn⟩)
        · exact Or.inl (List.mem_append_left _ h)
        · rcases List.mem_cons.1 hm with hm | hm
          · subst hm; subst hn; exact Or.inl (List.mem_append_right _ (by simp))
          · exact Or.inr ⟨m, hm, hn⟩

theorem addSeen_nodup {seen : List Str} {l : List Module} (h : seen.Nodup) : (addSeen seen l).Nodup := by
  induction l generalizing seen with
  | nil => simpa [addSeen]
  | cons a r ih =>
    unfold addSeen
    apply ih
    by_cases hn : a.name ∈ seen
    · simpa [hn] using h
    · simp only [List.contains_eq_mem, hn, decide_false, Bool.false_eq_true, if_false]
      apply List.nodup_append.2
      refine ⟨h, by simp, ?_⟩
      intro x hx y hy hxy
      simp at hy; subst hy; subst hxy; exact hn hx

theorem addSeen_length_ge (seen : List Str) (l : List Module) : seen.length ≤ (addSeen seen l).length := by
  induction l generalizing seen with
  | nil => simp [addSeen]
  | cons a r ih =>
    unfold addSeen
    by_cases hn : a.name ∈ seen
    · simpa [hn] using ih seen
    · have := ih (seen ++ [a.name])
      simp at this
      simp only [List.contains_eq_mem, hn, decide_false, Bool.false_eq_true, if_false]
      omega

theorem addSeen_length_gt {seen : List Str} {l : List Module} (h : ∃ m ∈ l, m.name ∉ seen) :
    seen.length < (addSeen seen l).length := by
  induction l generalizing seen with
  | nil => obtain ⟨m, hm, _⟩ := h; cases hm
  | cons a r ih =>
    unfold addSeen
    by_cases hc : a.name ∈ seen
    · simp only [List.contains_eq_mem, hc, decide_true, if_true]
      apply ih
      obtain ⟨m, hm, hn⟩ := h
      rcases List.mem_cons.1 hm with hm | hm
      · subst hm; exact absurd hc hn
      · exact ⟨m, hm, hn⟩
    · have := addSeen_length_ge (seen ++ [a.name]) r
      simp at this
      simp only [List.contains_eq_mem, hc, decide_false, Bool.false_eq_true, if_false]
      omega

/-! ### progress -/

theorem exists_min {α : Type} (f : α → Nat) : ∀ (l : List α), l ≠ [] → ∃ a ∈ l, ∀ b ∈ l, f a ≤ f b := by
  intro l
  induction l with
  | nil => intro h; exact absurd rfl h
  | cons a r ih =>
    intro _
    by_cases hr : r = []
    · subst hr; exact ⟨a, List.mem_cons_self, by simp⟩
    · obtain ⟨b, hb, hmin⟩ := ih hr
      by_cases hab : f a ≤ f b
      · refine ⟨a, List.mem_cons_self, ?_⟩
        intro c hc
        rcases List.mem_cons.1 hc with hc | hc
        · subst hc; exact Nat.le_refl _
        · exact Nat.le_trans hab (hmin c hc)
      · refine ⟨b, List.mem_cons_of_mem _ hb, ?_⟩
        intro c hc
        rcases List.mem_cons.1 hc with hc | hc
        · subst hc; omega
        · exact hmin c hc

structure SeenInv (used : List Module) (seen : List Str) : Prop where
  nodup : seen.Nodup
  sub : ∀ s ∈ seen, ∃ m ∈ used, m.name = s

theorem seen_length_le {used : List Module} {seen : List Str} (h : SeenInv used seen) :
    seen.length ≤ used.length := by
  have : seen.length ≤ (used.map (·.name)).length :=
    List.Nodup.length_le_of_subset h.nodup (fun s hs => by
      obtain ⟨m, hm, hn⟩ := h.sub s hs
      exact List.mem_map.2 ⟨m, hm, hn⟩)
  simpa using this

/-- as long as some module is not placed, one of them has all its dependencies placed -/
theorem exists_ready {used : List Module} {rk : Str → Nat} (hU : UsedOK used rk) {seen : List Str}
    (hlt : seen.length < used.length) :
    ∃ m ∈ used, m.name ∉ seen ∧ Ready seen m := by
  have hne : used.filter (fun m => !seen.contains m.name) ≠ [] := by
    intro hemp
    have hall : ∀ x ∈ used.map (·.name), x ∈ seen := by
      intro x hx
      obtain ⟨m, hm, hn⟩ := List.mem_map.1 hx
      have : m ∉ used.filter (fun m => !seen.contains m.name) := by rw [hemp]; simp
      rw [List.mem_filter] at this
      have h2 : ¬ ((!seen.contains m.name) = true) := fun h => this ⟨hm, h⟩
      subst hn
      simpa using h2
    have := List.Nodup.length_le_of_subset hU.nodup hall
    simp at this
    omega
  obtain ⟨m, hm, hmin⟩ := exists_min (fun m => rk m.name) _ hne
  obtain ⟨hmu, hms⟩ := List.mem_filter.1 hm
  refine ⟨m, hmu, by simpa using hms, ?_⟩
  intro nm hnm
  apply Classical.byContradiction
  intro hns
  obtain ⟨m', hm', hn'⟩ := hU.closed m hmu nm hnm
  have hm'f : m' ∈ used.filter (fun m => !seen.contains m.name) := by
    rw [List.mem_filter]; refine ⟨hm', ?_⟩
    rw [hn']; simpa using hns
  have h1 := hmin m' hm'f
  have h2 := hU.rank m hmu nm hnm
  simp only [hn'] at h1
  omega

theorem paritySkip_succ (i : Nat) (k : Option Kind) (h : paritySkip i k = true) :
    paritySkip (i + 1) k = false := by
  cases k with
  | none => simp [paritySkip] at h
  | some k =>
    cases k <;> simp [paritySkip] at h ⊢ <;> omega

structure LoopInv (used : List Module) (seen : List Str) (layers : List (List Module)) : Prop where
  sinv : SeenInv used seen
  layersNe : ∀ l ∈ layers, l ≠ []
  layersSub : ∀ l ∈ layers, l.Sublist used
  layersLen : layers.length ≤ seen.length
  layersPos : seen ≠ [] → layers ≠ []

structure LayersOK (used : List Module) (ls : List (List Module)) : Prop where
  ne : ∀ l ∈ ls, l ≠ []
  sub : ∀ l ∈ ls, l.Sublist used
  len : ls.length ≤ used.length
  pos : used ≠ [] → ls ≠ []

theorem stagesLoop_spec {used : List Module} {rk : Str → Nat} (hU : UsedOK used rk)
    (tbl : List (Str × Nat)) :
    ∀ (fuel i : Nat) (seen : List Str) (layers : List (List Module)), LoopInv used seen layers →
      (2 * (used.length - seen.length) + 1 ≤ fuel ∨
        (2 * (used.length - seen.length) ≤ fuel ∧
          ∃ m ∈ used, m.name ∉ seen ∧ Ready seen m ∧ paritySkip i m.kind = false)) →
      Good (stagesLoop tbl used fuel i seen layers) ∧
        ∀ ls, stagesLoop tbl used fuel i seen layers = .ok ls → LayersOK used ls := by
  intro fuel
  induction fuel with
  | zero =>
    intro i seen layers inv h
    have hle := seen_length_le inv.sinv
    rcases h with h | ⟨h, m, hm, hms, _, _⟩
    · omega
    · -- some module is not placed, so seen.length < used.length
      have : seen.length < used.length := by
        apply Nat.lt_of_le_of_ne hle
        intro heq
        have hall : ∀ x ∈ used.map (·.name), x ∈ seen := by
          intro x hx
          apply Classical.byContradiction
          intro hxs
          have hsub : ∀ s ∈ seen, s ∈ (used.map (·.name)).erase x := by
            intro s hs
            have hne : s ≠ x := fun h => hxs (h ▸ hs)
            obtain ⟨m', hm', hn'⟩ := inv.sinv.sub s hs
            exact (List.mem_erase_of_ne hne).2 (List.mem_map.2 ⟨m', hm', hn'⟩)
          have h1 := List.Nodup.length_le_of_subset inv.sinv.nodup hsub
          rw [List.length_erase_of_mem hx] at h1
          have hpos : 0 < (used.map (·.name)).length := List.length_pos_of_mem hx
          simp at h1 hpos
          omega
        exact hms (hall _ (List.mem_map.2 ⟨m, hm, rfl⟩))
      omega
  | succ fuel ih =>
    intro i seen layers inv h
    have hle := seen_length_le inv.sinv
    unfold stagesLoop
    by_cases heq : seen.length = used.length
    · simp only [heq, beq_self_eq_true, if_true]
      refine ⟨by simp, ?_⟩
      intro ls hls
      injection hls with hls; subst hls
      refine ⟨inv.layersNe, inv.layersSub, by have := inv.layersLen; omega, ?_⟩
      intro hu
      apply inv.layersPos
      intro hs
      rw [hs] at heq
      exact hu (List.length_eq_zero_iff.1 heq.symm)
    · have hlt : seen.length < used.length := Nat.lt_of_le_of_ne hle heq
      have hbeq : (seen.length == used.length) = false := by simpa using heq
      simp only [hbeq, Bool.false_eq_true, if_false]
      have hgood := layerOf_good tbl seen i used hU.present
      cases hlay : layerOf tbl seen i used with
      | error => simp
      | panic => rw [hlay] at hgood; simp at hgood
      | hang => rw [hlay] at hgood; simp at hgood
      | ok layer =>
        simp only [bind_ok]
        obtain ⟨hsub, hunseen⟩ := layerOf_ok tbl seen i used hlay
        by_cases hemp : layer = []
        · subst hemp
          simp only [List.isEmpty_nil, if_true]
          -- nothing placed at i: the ready module of lowest rank must be of the other parity
          have hready : ∃ m ∈ used, m.name ∉ seen ∧ Ready seen m ∧ paritySkip (i + 1) m.kind = false := by
            rcases h with _ | ⟨_, m, hm, hms, hr, hp⟩
            · obtain ⟨m, hm, hms, hr⟩ := exists_ready hU hlt
              by_cases hp : paritySkip i m.kind = false
              · have := layerOf_takes tbl seen i used hm
                  (modStep_ready tbl seen i m (hU.present m hm) hr hp hms) hlay
                cases this
              · exact ⟨m, hm, hms, hr, paritySkip_succ i m.kind (by simpa using hp)⟩
            · have := layerOf_takes tbl seen i used hm
                (modStep_ready tbl seen i m (hU.present m hm) hr hp hms) hlay
              cases this
          apply ih (i + 1) seen layers inv
          right
          refine ⟨?_, hready⟩
          rcases h with h | ⟨h, m, hm, hms, hr, hp⟩
          · omega
          · have := layerOf_takes tbl seen i used hm
              (modStep_ready tbl seen i m (hU.present m hm) hr hp hms) hlay
            cases this
        · have hisE : layer.isEmpty = false := by
            cases layer with
            | nil => exact absurd rfl hemp
            | cons a r => rfl
          simp only [hisE, Bool.false_eq_true, if_false]
          have hex : ∃ m ∈ layer, m.name ∉ seen := by
            cases layer with
            | nil => exact absurd rfl hemp
            | cons a r => exact ⟨a, List.mem_cons_self, hunseen a List.mem_cons_self⟩
          have hgt := addSeen_length_gt hex
          have inv' : LoopInv used (addSeen seen layer) (layers ++ [layer]) := by
            refine ⟨⟨addSeen_nodup inv.sinv.nodup, ?_⟩, ?_, ?_, ?_, ?_⟩
            · intro s hs
              rcases mem_addSeen.1 hs with hs | ⟨m, hm, hn⟩
              · exact inv.sinv.sub s hs
              · exact ⟨m, hsub.subset hm, hn⟩
            · intro l hl
              rcases List.mem_append.1 hl with hl | hl
              · exact inv.layersNe l hl
              · simp at hl; subst hl; exact hemp
            · intro l hl
              rcases List.mem_append.1 hl with hl | hl
              · exact inv.layersSub l hl
              · simp at hl; subst hl; exact hsub
            · have := inv.layersLen
              simp only [List.length_append, List.length_singleton]
              omega
            · intro _; simp
          have hle' := seen_length_le inv'.sinv
          apply ih (i + 1) _ _ inv'
          left
          rcases h with h | ⟨h, _⟩ <;> omega

/-! ### grouping layers into stages -/

theorem groupStages_spec : ∀ (layers cur : List (List Module)), (∀ l ∈ layers, l ≠ []) →
    ∃ ss, groupStages layers cur = .ok ss ∧ (layers ≠ [] → ss ≠ []) ∧
      (∀ st ∈ ss, st ≠ [] ∧ ∀ l ∈ st, l ∈ cur ∨ l ∈ layers) ∧ ss.length ≤ layers.length := by
  intro layers
  induction layers with
  | nil => intro cur _; exact ⟨[], rfl, by simp, by simp, by simp⟩
  | cons l r ih =>
    intro cur h
    have hr : ∀ x ∈ r, x ≠ [] := fun x hx => h x (List.mem_cons_of_mem _ hx)
    have hl : l ≠ [] := h l List.mem_cons_self
    unfold groupStages
    cases l with
    | nil => exact absurd rfl hl
    | cons a t =>
      simp only [isStoreLayer, bind_ok]
      split
      · obtain ⟨ss, h1, _, h3, h4⟩ := ih [] hr
        rw [h1]
        refine ⟨(cur ++ [a :: t]) :: ss, rfl, by simp, ?_, by simp; omega⟩
        intro st hst
        rcases List.mem_cons.1 hst with hst | hst
        · subst hst
          refine ⟨by simp, ?_⟩
          intro x hx
          rcases List.mem_append.1 hx with hx | hx
          · exact Or.inl hx
          · simp at hx; subst hx; exact Or.inr List.mem_cons_self
        · obtain ⟨h5, h6⟩ := h3 st hst
          refine ⟨h5, ?_⟩
          intro x hx
          rcases h6 x hx with hx | hx
          · cases hx
          · exact Or.inr (List.mem_cons_of_mem _ hx)
      · rename_i hcond
        have hrne : r ≠ [] := by
          intro hr0; subst hr0; simp at hcond
        obtain ⟨ss, h1, h2, h3, h4⟩ := ih (cur ++ [a :: t]) hr
        refine ⟨ss, h1, fun _ => h2 hrne, ?_, by simp; omega⟩
        intro st hst
        obtain ⟨h5, h6⟩ := h3 st hst
        refine ⟨h5, ?_⟩
        intro x hx
        rcases h6 x hx with hx | hx
        · rcases List.mem_append.1 hx with hx | hx
          · exact Or.inl hx
          · simp at hx; subst hx; exact Or.inr List.mem_cons_self
        · exact Or.inr (List.mem_cons_of_mem _ hx)

structure StagesOK (used : List Module) (ss : List (List (List Module))) : Prop where
  ne : used ≠ [] → ss ≠ []
  stageNe : ∀ st ∈ ss, st ≠ []
  layerNe : ∀ st ∈ ss, ∀ l ∈ st, l ≠ []
  sub : ∀ st ∈ ss, ∀ l ∈ st, l.Sublist used
  len : ss.length ≤ used.length

theorem computeStages_spec {used : List Module} {rk : Str → Nat} (hU : UsedOK used rk)
    (tbl : List (Str × Nat)) :
    Good (computeStages used tbl) ∧ ∀ ss, computeStages used tbl = .ok ss → StagesOK used ss := by
  have hinv : LoopInv used [] [] :=
    ⟨⟨List.nodup_nil, by simp⟩, by simp, by simp, by simp, by simp⟩
  obtain ⟨hg, hok⟩ := stagesLoop_spec hU tbl (stagesFuel used) 0 [] [] hinv
    (Or.inl (by unfold stagesFuel; simp))
  unfold computeStages
  cases hloop : stagesLoop tbl used (stagesFuel used) 0 [] [] with
  | error => simp
  | panic => rw [hloop] at hg; simp at hg
  | hang => rw [hloop] at hg; simp at hg
  | ok layers =>
    have hL := hok layers hloop
    obtain ⟨ss, h1, h2, h3, h4⟩ := groupStages_spec layers [] hL.ne
    simp only [bind_ok, h1]
    refine ⟨by simp, ?_⟩
    intro ss' hss'
    injection hss' with hss'; subst hss'
    refine ⟨fun hu => h2 (hL.pos hu), fun st hst => (h3 st hst).1, ?_, ?_, ?_⟩
    · intro st hst l hl
      rcases (h3 st hst).2 l hl with h | h
      · cases h
      · exact hL.ne l h
    · intro st hst l hl
      rcases (h3 st hst).2 l hl with h | h
      · cases h
      · exact hL.sub l h
    · have := hL.len; omega

end SV.Val

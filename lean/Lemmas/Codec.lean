import Model.Policy
/-!
Round trips of the text codecs of `Model/Policy.lean` (decimal text of naturals and integers), used by
layer B of C02.  Core Lean only.
-/
namespace SV

/-! ### digits -/

theorem digit_toNat (d : Nat) (h : d < 10) : (c0 + UInt8.ofNat d).toNat = 48 + d := by
  have : ∀ d : Fin 10, (c0 + UInt8.ofNat d.val).toNat = 48 + d.val := by decide
  exact this ⟨d, h⟩

theorem digit_isDigit (d : Nat) (h : d < 10) : isDigit (c0 + UInt8.ofNat d) = true := by
  have : ∀ d : Fin 10, isDigit (c0 + UInt8.ofNat d.val) = true := by decide
  exact this ⟨d, h⟩

/-- little-endian value of a digit string -/
def valRev (l : List UInt8) : Nat := l.foldr (fun c acc => acc * 10 + (c.toNat - 48)) 0

theorem digitsRev_spec : ∀ (fuel n : Nat), n < fuel →
    digitsRev fuel n ≠ [] ∧ (digitsRev fuel n).all isDigit = true ∧ valRev (digitsRev fuel n) = n := by
  intro fuel
  induction fuel with
  | zero => intro n h; omega
  | succ fuel ih =>
    intro n h
    unfold digitsRev
    by_cases h10 : n < 10
    · simp only [h10, ↓reduceIte]
      refine ⟨by simp, by simp [digit_isDigit n h10], ?_⟩
      simp [valRev, digit_toNat n h10]
    · simp only [h10, ↓reduceIte]
      have hlt : n / 10 < fuel := by omega
      obtain ⟨_, i2, i3⟩ := ih (n / 10) hlt
      have hm : n % 10 < 10 := Nat.mod_lt _ (by omega)
      refine ⟨by simp, ?_, ?_⟩
      · simp only [List.all_cons, digit_isDigit _ hm, i2, Bool.and_self]
      · have : valRev ((c0 + UInt8.ofNat (n % 10)) :: digitsRev fuel (n / 10)) =
            valRev (digitsRev fuel (n / 10)) * 10 + ((c0 + UInt8.ofNat (n % 10)).toNat - 48) := rfl
        rw [this, i3, digit_toNat _ hm]
        omega

theorem renderNat_ne_nil (n : Nat) : renderNat n ≠ [] := by
  unfold renderNat
  have := (digitsRev_spec (n + 1) n (by omega)).1
  simpa using this

theorem renderNat_all_digit (n : Nat) : (renderNat n).all isDigit = true := by
  unfold renderNat
  rw [List.all_reverse]
  exact (digitsRev_spec (n + 1) n (by omega)).2.1

/-- `strconv.ParseUint ∘ FormatUint = id` -/
theorem parseNat_renderNat (n : Nat) : parseNat (renderNat n) = some n := by
  unfold parseNat
  simp only [renderNat_ne_nil, ↓reduceIte, renderNat_all_digit]
  unfold renderNat
  rw [List.foldl_reverse]
  exact congrArg some (digitsRev_spec (n + 1) n (by omega)).2.2

theorem renderNat_head_digit (n : Nat) : ∃ c rest, renderNat n = c :: rest ∧ isDigit c = true := by
  cases h : renderNat n with
  | nil => exact absurd h (renderNat_ne_nil n)
  | cons c rest =>
    refine ⟨c, rest, rfl, ?_⟩
    have := renderNat_all_digit n
    rw [h] at this
    simp only [List.all_cons, Bool.and_eq_true] at this
    exact this.1

/-- `big.Int.SetString ∘ String = id` (and `ParseInt ∘ FormatInt` before the range check) -/
theorem parseInt_renderInt (i : Int) : parseInt (renderInt i) = some i := by
  unfold renderInt
  by_cases hneg : i < 0
  · simp only [hneg, ↓reduceIte, parseInt, parseNat_renderNat]
    simp only [Option.bind_eq_bind, Option.bind_some, Option.pure_def, Option.map_some, Option.some.injEq]
    omega
  · simp only [hneg, ↓reduceIte]
    obtain ⟨c, rest, hc, hd⟩ := renderNat_head_digit i.natAbs
    have h1 : c ≠ cMinus := by
      intro hh; subst hh; revert hd; decide
    have h2 : c ≠ cPlus := by
      intro hh; subst hh; revert hd; decide
    have hp := parseNat_renderNat i.natAbs
    rw [hc] at hp ⊢
    simp only [parseInt, h1, h2, ↓reduceIte, hp]
    simp only [Option.bind_eq_bind, Option.bind_some, Option.pure_def, Option.map_some, Option.some.injEq]
    omega

def InRange64 (i : Int) : Prop := -two63 ≤ i ∧ i < two63

/-- `strconv.ParseInt(FormatInt(i), 10, 64) = i` for `i` in the int64 range -/
theorem parseInt64_renderInt (i : Int) (h : InRange64 i) : parseInt64 (renderInt i) = some i := by
  unfold parseInt64
  rw [parseInt_renderInt]
  simp only [h.1, h.2, and_self, ↓reduceIte]

theorem wrap64_inRange (x : Int) : InRange64 (wrap64 x) := by
  unfold InRange64 wrap64 two63 two64; omega

theorem wrap64_id (x : Int) (h : InRange64 x) : wrap64 x = x := by
  unfold InRange64 wrap64 two63 two64 at *; omega

theorem argInt64_inRange (v : Bytes) : InRange64 (argInt64 v) := wrap64_inRange _

/-- the rendering of an integer never starts with the bytes of a tag (used for `set_sum`) -/
theorem renderInt_ne_nil (i : Int) : renderInt i ≠ [] := by
  unfold renderInt
  split
  · simp
  · exact renderNat_ne_nil _

/-! ### shopspring/decimal: `NewFromString (d.String())` is `d` up to trailing zeros -/

/-- big-endian value of a digit string -/
def valBE (b : Bytes) : Nat := b.foldl (fun acc c => acc * 10 + (c.toNat - 48)) 0

theorem valBE_foldl (b : Bytes) : ∀ acc : Nat,
    b.foldl (fun acc c => acc * 10 + (c.toNat - 48)) acc = acc * 10 ^ b.length + valBE b := by
  induction b with
  | nil => intro acc; simp [valBE]
  | cons c rest ih =>
    intro acc
    simp only [List.foldl_cons, valBE, List.length_cons]
    rw [ih, ih (0 * 10 + (c.toNat - 48))]
    rw [Nat.pow_succ]
    simp only [Nat.zero_mul, Nat.zero_add, Nat.add_mul]
    rw [Nat.mul_assoc, Nat.mul_comm 10]
    omega

theorem valBE_append (a b : Bytes) : valBE (a ++ b) = valBE a * 10 ^ b.length + valBE b := by
  unfold valBE
  rw [List.foldl_append, valBE_foldl]
  rfl

theorem parseNat_eq {b : Bytes} (hne : b ≠ []) (hd : b.all isDigit = true) : parseNat b = some (valBE b) := by
  unfold parseNat
  simp only [hne, ↓reduceIte, hd]
  rfl

theorem valBE_renderNat (n : Nat) : valBE (renderNat n) = n := by
  have := parseNat_renderNat n
  rw [parseNat_eq (renderNat_ne_nil n) (renderNat_all_digit n)] at this
  exact Option.some.inj this

theorem valBE_zeros (n : Nat) : valBE (List.replicate n c0) = 0 := by
  induction n with
  | zero => rfl
  | succ n ih =>
    rw [List.replicate_succ, ← List.singleton_append, valBE_append, ih]
    simp [valBE, c0]

theorem digit_ne_dot {c : UInt8} (h : isDigit c = true) : c ≠ cDot := by
  intro hh; subst hh; revert h; decide

theorem takeWhile_split (p : UInt8 → Bool) (sep : UInt8) (hs : p sep = false) (r : Bytes) :
    ∀ a : Bytes, (∀ c ∈ a, p c = true) →
    (a ++ sep :: r).takeWhile p = a ∧ (a ++ sep :: r).dropWhile p = sep :: r ∧
    a.takeWhile p = a ∧ a.dropWhile p = [] := by
  intro a
  induction a with
  | nil => intro _; simp [hs]
  | cons c rest ih =>
    intro ha
    have hc := ha c List.mem_cons_self
    obtain ⟨i1, i2, i3, i4⟩ := ih (fun x hx => ha x (List.mem_cons_of_mem _ hx))
    simp only [List.cons_append, List.takeWhile_cons, List.dropWhile_cons, hc, ↓reduceIte, i1, i2, i3, i4,
      and_self]

/-- the sign handling of `Dec.parse` -/
def signSplit (b : Bytes) : Bool × Bytes :=
  match b with
  | c :: rest => if c = cMinus then (true, rest) else if c = cPlus then (false, rest) else (false, b)
  | [] => (false, [])

/-- `Dec.parse` after the sign -/
def parseBody (sign : Bool) (body : Bytes) : Option Dec :=
  let ip := body.takeWhile (· ≠ cDot)
  let rest := body.dropWhile (· ≠ cDot)
  let fp := rest.drop 1
  if fp.any (· = cDot) then none
  else
    match parseNat (ip ++ fp) with
    | none => none
    | some n => some ⟨if sign then - (n : Int) else (n : Int), fp.length⟩

theorem Dec.parse_eq (b : Bytes) : Dec.parse b = parseBody (signSplit b).1 (signSplit b).2 := by
  unfold Dec.parse signSplit parseBody
  rfl

theorem parseBody_number (sign : Bool) (ip fp' : Bytes) (h1 : ip ≠ []) (h2 : ip.all isDigit = true)
    (h3 : fp'.all isDigit = true) :
    parseBody sign (if fp' = [] then ip else ip ++ [cDot] ++ fp') =
      some ⟨if sign then -(valBE (ip ++ fp') : Int) else (valBE (ip ++ fp') : Int), fp'.length⟩ := by
  have hp : ∀ c ∈ ip, decide (c ≠ cDot) = true := by
    intro c hc
    have := digit_ne_dot (List.all_eq_true.1 h2 c hc)
    simpa using this
  have hs : decide (cDot ≠ cDot) = false := by simp
  obtain ⟨t1, t2, t3, t4⟩ := takeWhile_split (fun x => decide (x ≠ cDot)) cDot hs fp' ip hp
  have hany : fp'.any (fun x => decide (x = cDot)) = false := by
    rw [List.any_eq_false]
    intro c hc
    have := digit_ne_dot (List.all_eq_true.1 h3 c hc)
    simpa using this
  unfold parseBody
  by_cases hf : fp' = []
  · subst hf
    simp only [↓reduceIte, t3, t4, List.drop_nil, List.any_nil, Bool.false_eq_true, List.append_nil,
      parseNat_eq h1 h2, List.length_nil]
  · simp only [hf, ↓reduceIte, List.append_assoc, List.singleton_append, t1, t2, List.drop_one, List.tail_cons,
      hany, Bool.false_eq_true]
    have hne : ip ++ fp' ≠ [] := by simp [h1]
    have hd : (ip ++ fp').all isDigit = true := by simp [List.all_append, h2, h3]
    rw [parseNat_eq hne hd]

/-- parsing a signed plain-notation number: integer digits `ip`, fraction digits `fp'` -/
theorem parse_signed (neg : Bool) (ip fp' : Bytes) (h1 : ip ≠ []) (h2 : ip.all isDigit = true)
    (h3 : fp'.all isDigit = true) :
    Dec.parse (if neg then cMinus :: (if fp' = [] then ip else ip ++ [cDot] ++ fp')
               else (if fp' = [] then ip else ip ++ [cDot] ++ fp')) =
      some ⟨if neg then -(valBE (ip ++ fp') : Int) else (valBE (ip ++ fp') : Int), fp'.length⟩ := by
  rw [Dec.parse_eq]
  cases neg with
  | true =>
    simp only [↓reduceIte, signSplit]
    exact parseBody_number true ip fp' h1 h2 h3
  | false =>
    simp only [Bool.false_eq_true, ↓reduceIte]
    cases hip : ip with
    | nil => exact absurd hip h1
    | cons c rest =>
      have hc : isDigit c = true := by
        rw [hip] at h2
        simp only [List.all_cons, Bool.and_eq_true] at h2
        exact h2.1
      have hm : c ≠ cMinus := by intro hh; subst hh; revert hc; decide
      have hpl : c ≠ cPlus := by intro hh; subst hh; revert hc; decide
      have hsp : signSplit (if fp' = [] then c :: rest else c :: rest ++ [cDot] ++ fp') =
          (false, if fp' = [] then c :: rest else c :: rest ++ [cDot] ++ fp') := by
        split <;> simp [signSplit, hm, hpl]
      rw [hsp]
      have := parseBody_number false ip fp' h1 h2 h3
      rw [hip] at this
      simpa using this

theorem takeWhile_eq_replicate (c : UInt8) : ∀ l : Bytes,
    l.takeWhile (fun x => decide (x = c)) = List.replicate (l.takeWhile (fun x => decide (x = c))).length c := by
  intro l
  induction l with
  | nil => rfl
  | cons a rest ih =>
    rw [List.takeWhile_cons]
    by_cases h : a = c
    · subst h
      simp only [decide_true, ↓reduceIte, List.length_cons, List.replicate_succ]
      rw [← ih]
    · simp [h]

/-- a digit string is its trimmed part followed by zeros -/
theorem dropTrailingZeros_spec (l : Bytes) :
    ∃ z, l = Dec.dropTrailingZeros l ++ List.replicate z c0 := by
  unfold Dec.dropTrailingZeros
  refine ⟨(l.reverse.takeWhile (fun x => decide (x = c0))).length, ?_⟩
  have h := List.takeWhile_append_dropWhile (p := fun x => decide (x = c0)) (l := l.reverse)
  have h2 : l = (l.reverse.dropWhile (fun x => decide (x = c0))).reverse ++
      (l.reverse.takeWhile (fun x => decide (x = c0))).reverse := by
    rw [← List.reverse_append, h, List.reverse_reverse]
  rw [takeWhile_eq_replicate c0 l.reverse, List.reverse_replicate] at h2
  simpa using h2

theorem all_take {l : Bytes} (h : l.all isDigit = true) (n : Nat) : (l.take n).all isDigit = true := by
  rw [List.all_eq_true] at h ⊢
  intro x hx; exact h x (List.mem_of_mem_take hx)

theorem all_drop {l : Bytes} (h : l.all isDigit = true) (n : Nat) : (l.drop n).all isDigit = true := by
  rw [List.all_eq_true] at h ⊢
  intro x hx; exact h x (List.mem_of_mem_drop hx)

/-- the integer and fraction digit strings `String()` splits the coefficient's digits into -/
theorem split_spec (str : Bytes) (s : Nat) (_hne : str ≠ []) (hd : str.all isDigit = true)
    (ipfp : Bytes × Bytes)
    (he : ipfp = if str.length > s then (str.take (str.length - s), str.drop (str.length - s))
      else ([c0], List.replicate (s - str.length) c0 ++ str)) :
    ipfp.1 ≠ [] ∧ ipfp.1.all isDigit = true ∧ ipfp.2.all isDigit = true ∧ ipfp.2.length = s ∧
    valBE (ipfp.1 ++ ipfp.2) = valBE str := by
  by_cases h : str.length > s
  · simp only [h, ↓reduceIte] at he
    rw [he]
    refine ⟨?_, all_take hd _, all_drop hd _, ?_, ?_⟩
    · intro hc
      have := congrArg List.length hc
      simp at this; omega
    · simp; omega
    · simp only [List.take_append_drop]
  · simp only [h, ↓reduceIte] at he
    rw [he]
    refine ⟨by simp, ?_, ?_, ?_, ?_⟩
    · show [c0].all isDigit = true
      decide
    · show (List.replicate (s - str.length) c0 ++ str).all isDigit = true
      rw [List.all_append, hd, Bool.and_true, List.all_eq_true]
      intro x hx
      rw [List.eq_of_mem_replicate hx]; decide
    · simp; omega
    · show valBE ([c0] ++ (List.replicate (s - str.length) c0 ++ str)) = valBE str
      rw [← List.append_assoc, valBE_append]
      have : [c0] ++ List.replicate (s - str.length) c0 = List.replicate (s - str.length + 1) c0 := by
        rw [List.replicate_succ]; rfl
      rw [this, valBE_zeros]; simp

/-- the shape of `d.String()`: sign, integer digits, trimmed fraction digits `fp'`, and the `z` zeros
that were trimmed -/
theorem render_shape (d : Dec) : ∃ (ip fp' : Bytes) (z : Nat),
    ip ≠ [] ∧ ip.all isDigit = true ∧ fp'.all isDigit = true ∧
    d.render = (if decide (d.coef < 0) then cMinus :: (if fp' = [] then ip else ip ++ [cDot] ++ fp')
                else (if fp' = [] then ip else ip ++ [cDot] ++ fp')) ∧
    fp'.length + z = d.scale ∧ valBE (ip ++ fp') * 10 ^ z = d.coef.natAbs := by
  by_cases hs : d.scale = 0
  · refine ⟨renderNat d.coef.natAbs, [], 0, renderNat_ne_nil _, renderNat_all_digit _, rfl, ?_, by simp [hs], ?_⟩
    · simp only [Dec.render, hs, ↓reduceIte, renderInt]
      by_cases hneg : d.coef < 0 <;> simp [hneg]
    · simp [valBE_renderNat]
  · have hstr := split_spec (renderNat d.coef.natAbs) d.scale (renderNat_ne_nil _) (renderNat_all_digit _) _ rfl
    generalize hipfp : (if (renderNat d.coef.natAbs).length > d.scale then
        ((renderNat d.coef.natAbs).take ((renderNat d.coef.natAbs).length - d.scale),
         (renderNat d.coef.natAbs).drop ((renderNat d.coef.natAbs).length - d.scale))
      else ([c0], List.replicate (d.scale - (renderNat d.coef.natAbs).length) c0 ++ renderNat d.coef.natAbs)) = ipfp at hstr
    obtain ⟨ip, fp⟩ := ipfp
    obtain ⟨s1, s2, s3, s4, s5⟩ := hstr
    obtain ⟨z, hz⟩ := dropTrailingZeros_spec fp
    have hfp' : (Dec.dropTrailingZeros fp).all isDigit = true := by
      rw [hz, List.all_append, Bool.and_eq_true] at s3
      exact s3.1
    refine ⟨ip, Dec.dropTrailingZeros fp, z, s1, s2, hfp', ?_, ?_, ?_⟩
    · simp only [Dec.render, hs, ↓reduceIte, hipfp]
      by_cases hneg : d.coef < 0 <;> simp [hneg]
    · have := congrArg List.length hz
      simp only [List.length_append, List.length_replicate] at this
      dsimp only at s4
      omega
    · dsimp only at s5
      rw [valBE_renderNat] at s5
      rw [← s5]
      generalize Dec.dropTrailingZeros fp = g at hz ⊢
      rw [hz, ← List.append_assoc, valBE_append (ip ++ g), valBE_zeros]
      simp

/-- **`NewFromString(d.String())`** succeeds and gives `d` with `z ≥ 0` trailing zeros of the coefficient
removed: the same number, at a scale that is not larger. -/
theorem Dec.parse_render (d : Dec) : ∃ d' : Dec, Dec.parse d.render = some d' ∧ d'.scale ≤ d.scale ∧
    d.coef = d'.coef * (10 : Int) ^ (d.scale - d'.scale) := by
  obtain ⟨ip, fp', z, h1, h2, h3, h4, h5, h6⟩ := render_shape d
  rw [h4, parse_signed _ ip fp' h1 h2 h3]
  refine ⟨_, rfl, by dsimp only; omega, ?_⟩
  dsimp only
  have hz : d.scale - fp'.length = z := by omega
  rw [hz]
  have h6' : ((valBE (ip ++ fp') : Int)) * (10 : Int) ^ z = (d.coef.natAbs : Int) := by
    have := congrArg (fun n : Nat => (n : Int)) h6
    simpa using this
  by_cases hneg : d.coef < 0
  · simp only [hneg, decide_true, ↓reduceIte]
    rw [Int.neg_mul, h6']; omega
  · simp only [hneg, decide_false, Bool.false_eq_true, ↓reduceIte]
    rw [h6']; omega

/-! ### bigdecimal values with at most 34 decimals, as integers (value × 10^34) -/

/-- the number `d` stands for, scaled by 10^34 (exact when `d.scale ≤ 34`) -/
def Dec.val34 (d : Dec) : Int := d.coef * (10 : Int) ^ (34 - d.scale)

/-- the typed value of a stored bigdecimal text with at most 34 decimals -/
def typedDec34 (b : Bytes) : Option Int :=
  match Dec.parse b with
  | some d => if d.scale ≤ 34 then some d.val34 else none
  | none => none

theorem pow10_split {x y z : Nat} (hxy : x ≤ y) (hyz : y ≤ z) :
    (10 : Int) ^ (y - x) * (10 : Int) ^ (z - y) = (10 : Int) ^ (z - x) := by
  rw [← Int.pow_add]; congr 1; omega

theorem Dec.val34_add (a b : Dec) (ha : a.scale ≤ 34) (hb : b.scale ≤ 34) :
    (a.add b).scale ≤ 34 ∧ (a.add b).val34 = a.val34 + b.val34 := by
  have hS : max a.scale b.scale ≤ 34 := Nat.max_le.2 ⟨ha, hb⟩
  refine ⟨hS, ?_⟩
  unfold Dec.val34 Dec.add Dec.rescaleUp
  simp only
  rw [Int.add_mul, Int.mul_assoc, Int.mul_assoc, pow10_split (Nat.le_max_left _ _) hS,
    pow10_split (Nat.le_max_right _ _) hS]

theorem Dec.cmp_gt (a b : Dec) (ha : a.scale ≤ 34) (hb : b.scale ≤ 34) :
    a.cmp b = .gt ↔ b.val34 < a.val34 := by
  have hS : max a.scale b.scale ≤ 34 := Nat.max_le.2 ⟨ha, hb⟩
  unfold Dec.cmp Dec.val34 Dec.rescaleUp
  simp only
  rw [Int.compare_eq_gt, ← pow10_split (Nat.le_max_left a.scale b.scale) hS,
    ← pow10_split (Nat.le_max_right a.scale b.scale) hS, ← Int.mul_assoc, ← Int.mul_assoc]
  have hpos : (0 : Int) < (10 : Int) ^ (34 - max a.scale b.scale) := Int.pow_pos (by decide)
  constructor
  · intro h; exact Int.mul_lt_mul_of_pos_right h hpos
  · intro h; exact Int.lt_of_mul_lt_mul_right h (Int.le_of_lt hpos)

theorem Dec.truncate_id (d : Dec) (h : d.scale ≤ 34) : d.truncate 34 = d := by
  unfold Dec.truncate
  simp only [show ¬ 34 < d.scale by omega, ↓reduceIte]

theorem Dec.truncate_scale (d : Dec) : (d.truncate 34).scale ≤ 34 := by
  unfold Dec.truncate
  split
  · exact Nat.le_refl _
  · omega

/-- a stored text that reads as a bigdecimal with at most 34 decimals and value `i` (× 10^34) -/
def RepDec (b : Bytes) (i : Int) : Prop := ∃ d, Dec.parse b = some d ∧ d.scale ≤ 34 ∧ d.val34 = i

theorem RepDec.typed {b : Bytes} {i : Int} (h : RepDec b i) : typedDec34 b = some i := by
  obtain ⟨d, h1, h2, h3⟩ := h
  simp only [typedDec34, h1, h2, ↓reduceIte, h3]

/-- the rendering of a decimal with at most 34 decimals reads back as the same number -/
theorem repDec_render (d : Dec) (h : d.scale ≤ 34) : RepDec d.render d.val34 := by
  obtain ⟨d', p1, p2, p3⟩ := Dec.parse_render d
  refine ⟨d', p1, by omega, ?_⟩
  unfold Dec.val34
  rw [p3, Int.mul_assoc, pow10_split p2 h]

/-! ### bigdecimal values of any scale: equality as numbers -/

/-- `a` and `b` stand for the same number (cross-multiplied: no division) -/
def Dec.Eqv (a b : Dec) : Prop := a.coef * (10 : Int) ^ b.scale = b.coef * (10 : Int) ^ a.scale

theorem Dec.Eqv.refl (a : Dec) : a.Eqv a := rfl

theorem Dec.Eqv.symm {a b : Dec} (h : a.Eqv b) : b.Eqv a := Eq.symm h

theorem Dec.Eqv.trans {a b c : Dec} (h1 : a.Eqv b) (h2 : b.Eqv c) : a.Eqv c := by
  unfold Dec.Eqv at *
  have hne : (10 : Int) ^ b.scale ≠ 0 := Int.ne_of_gt (Int.pow_pos (by decide))
  apply Int.eq_of_mul_eq_mul_right hne
  calc a.coef * 10 ^ c.scale * 10 ^ b.scale
      = a.coef * 10 ^ b.scale * 10 ^ c.scale := Int.mul_right_comm _ _ _
    _ = b.coef * 10 ^ a.scale * 10 ^ c.scale := by rw [h1]
    _ = b.coef * 10 ^ c.scale * 10 ^ a.scale := Int.mul_right_comm _ _ _
    _ = c.coef * 10 ^ b.scale * 10 ^ a.scale := by rw [h2]
    _ = c.coef * 10 ^ a.scale * 10 ^ b.scale := Int.mul_right_comm _ _ _

theorem Dec.add_comm (a b : Dec) : a.add b = b.add a := by
  unfold Dec.add Dec.rescaleUp
  simp only [Nat.max_comm a.scale b.scale, Int.add_comm]

theorem Dec.add_congr_left {a a' : Dec} (b : Dec) (h : a.Eqv a') : (a.add b).Eqv (a'.add b) := by
  unfold Dec.Eqv at *
  unfold Dec.add Dec.rescaleUp
  simp only
  generalize hS : max a.scale b.scale = S
  generalize hS' : max a'.scale b.scale = S'
  have l1 : a.scale ≤ S := by rw [← hS]; exact Nat.le_max_left _ _
  have l2 : b.scale ≤ S := by rw [← hS]; exact Nat.le_max_right _ _
  have l3 : a'.scale ≤ S' := by rw [← hS']; exact Nat.le_max_left _ _
  have l4 : b.scale ≤ S' := by rw [← hS']; exact Nat.le_max_right _ _
  have e1 : a.coef * 10 ^ (S - a.scale) * 10 ^ S' =
      a.coef * 10 ^ a'.scale * 10 ^ (S - a.scale + (S' - a'.scale)) := by
    rw [Int.mul_assoc, Int.mul_assoc, ← Int.pow_add, ← Int.pow_add]; congr 2; omega
  have e2 : a'.coef * 10 ^ (S' - a'.scale) * 10 ^ S =
      a'.coef * 10 ^ a.scale * 10 ^ (S - a.scale + (S' - a'.scale)) := by
    rw [Int.mul_assoc, Int.mul_assoc, ← Int.pow_add, ← Int.pow_add]; congr 2; omega
  have e3 : b.coef * 10 ^ (S - b.scale) * 10 ^ S' = b.coef * 10 ^ (S' - b.scale) * 10 ^ S := by
    rw [Int.mul_assoc, Int.mul_assoc, ← Int.pow_add, ← Int.pow_add]; congr 2; omega
  rw [Int.add_mul, Int.add_mul, e1, e2, e3, h]

theorem Dec.add_congr {a a' b b' : Dec} (ha : a.Eqv a') (hb : b.Eqv b') : (a.add b).Eqv (a'.add b') := by
  have h1 := Dec.add_congr_left b ha
  have h2 := Dec.add_congr_left a' hb
  rw [Dec.add_comm b a', Dec.add_comm b' a'] at h2
  exact h1.trans h2

/-- bigdecimal addition is associative (on the nose: the scale of a sum is the larger scale) -/
theorem Dec.add_assoc (a b c : Dec) : (a.add b).add c = a.add (b.add c) := by
  unfold Dec.add Dec.rescaleUp
  simp only
  have hs : max (max a.scale b.scale) c.scale = max a.scale (max b.scale c.scale) := by
    simp only [Nat.max_def]; repeat' split
    all_goals omega
  rw [hs]
  congr 1
  generalize hS : max a.scale (max b.scale c.scale) = S
  have h1 : max a.scale b.scale ≤ S := by rw [← hS]; simp only [Nat.max_def]; repeat' split
                                          all_goals omega
  have h2 : max b.scale c.scale ≤ S := by rw [← hS]; simp only [Nat.max_def]; repeat' split
                                          all_goals omega
  have ha : a.scale ≤ max a.scale b.scale := Nat.le_max_left _ _
  have hb : b.scale ≤ max a.scale b.scale := Nat.le_max_right _ _
  have hb' : b.scale ≤ max b.scale c.scale := Nat.le_max_left _ _
  have hc' : c.scale ≤ max b.scale c.scale := Nat.le_max_right _ _
  simp only [Int.add_mul, Int.mul_assoc]
  rw [pow10_split ha h1, pow10_split hb h1, pow10_split hb' h2, pow10_split hc' h2, Int.add_assoc]

/-- a text that reads as a decimal standing for the same number as `d` -/
def RepDecQ (t : Bytes) (d : Dec) : Prop := ∃ d0, Dec.parse t = some d0 ∧ d0.Eqv d

theorem repDecQ_render (d : Dec) : RepDecQ d.render d := by
  obtain ⟨d', p1, p2, p3⟩ := Dec.parse_render d
  refine ⟨d', p1, ?_⟩
  unfold Dec.Eqv
  rw [p3, Int.mul_assoc, ← Int.pow_add]
  congr 2; omega

end SV

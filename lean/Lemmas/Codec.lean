import Model.Policy
/-!
Round trips of the text codecs of `Model/Policy.lean` (decimal text of naturals and integers), used by
layer B of C02.  Core Lean only.
-/
namespace SV

/-! ### digits -/

theorem digit_toNat (d : Nat) (h : d < 10) : (c0 + UInt8.ofNat d).toNat = 48 + d := by
  have : ∀ d : Fin 10, (c0 + UInt8.ofNat d.val).toNat = 48 + d.val := by decide
  exact this ⟨d, h⟩

theorem digit_isDigit (d : Nat) (h : d < 10) : isDigit (c0 + UInt8.ofNat d) = true := by
  have : ∀ d : Fin 10, isDigit (c0 + UInt8.ofNat d.val) = true := by decide
  exact this ⟨d, h⟩

/-- little-endian value of a digit string -/
def valRev (l : List UInt8) : Nat := l.foldr (fun c acc => acc * 10 + (c.toNat - 48)) 0

theorem digitsRev_spec : ∀ (fuel n : Nat), n < fuel →
    digitsRev fuel n ≠ [] ∧ (digitsRev fuel n).all isDigit = true ∧ valRev (digitsRev fuel n) = n := by
  intro fuel
  induction fuel with
  | zero => intro n h; omega
  | succ fuel ih =>
    intro n h
    unfold digitsRev
    by_cases h10 : n < 10
    · simp only [h10, ↓reduceIte]
      refine ⟨by simp, by simp [digit_isDigit n h10], ?_⟩
      simp [valRev, digit_toNat n h10]
    · simp only [h10, ↓reduceIte]
      have hlt : n / 10 < fuel := by omega
      obtain ⟨_, i2, i3⟩ := ih (n / 10) hlt
      have hm : n % 10 < 10 := Nat.mod_lt _ (by omega)
      refine ⟨by simp, ?_, ?_⟩
      · simp only [List.all_cons, digit_isDigit _ hm, i2, Bool.and_self]
      · have : valRev ((c0 + UInt8.ofNat (n % 10)) :: digitsRev fuel (n / 10)) =
            valRev (digitsRev fuel (n / 10)) * 10 + ((c0 + UInt8.ofNat (n % 10)).toNat - 48) := rfl
        rw [this, i3, digit_toNat _ hm]
        omega

theorem renderNat_ne_nil (n : Nat) : renderNat n ≠ [] := by
  unfold renderNat
  have := (digitsRev_spec (n + 1) n (by omega)).1
  simpa using this

theorem renderNat_all_digit (n : Nat) : (renderNat n).all isDigit = true := by
  unfold renderNat
  rw [List.all_reverse]
  exact (digitsRev_spec (n + 1) n (by omega)).2.1

/-- `strconv.ParseUint ∘ FormatUint = id` -/
theorem parseNat_renderNat (n : Nat) : parseNat (renderNat n) = some n := by
  unfold parseNat
  simp only [renderNat_ne_nil, ↓reduceIte, renderNat_all_digit]
  unfold renderNat
  rw [List.foldl_reverse]
  exact congrArg some (digitsRev_spec (n + 1) n (by omega)).2.2

theorem renderNat_head_digit (n : Nat) : ∃ c rest, renderNat n = c :: rest ∧ isDigit c = true := by
  cases h : renderNat n with
  | nil => exact absurd h (renderNat_ne_nil n)
  | cons c rest =>
    refine ⟨c, rest, rfl, ?_⟩
    have := renderNat_all_digit n
    rw [h] at this
    simp only [List.all_cons, Bool.and_eq_true] at this
    exact this.1

/-- `big.Int.SetString ∘ String = id` (and `ParseInt ∘ FormatInt` before the range check) -/
theorem parseInt_renderInt (i : Int) : parseInt (renderInt i) = some i := by
  unfold renderInt
  by_cases hneg : i < 0
  · simp only [hneg, ↓reduceIte, parseInt, parseNat_renderNat]
    simp only [Option.bind_eq_bind, Option.bind_some, Option.pure_def, Option.map_some, Option.some.injEq]
    omega
  · simp only [hneg, ↓reduceIte]
    obtain ⟨c, rest, hc, hd⟩ := renderNat_head_digit i.natAbs
    have h1 : c ≠ cMinus := by
      intro hh; subst hh; revert hd; decide
    have h2 : c ≠ cPlus := by
      intro hh; subst hh; revert hd; decide
    have hp := parseNat_renderNat i.natAbs
    rw [hc] at hp ⊢
    simp only [parseInt, h1, h2, ↓reduceIte, hp]
    simp only [Option.bind_eq_bind, Option.bind_some, Option.pure_def, Option.map_some, Option.some.injEq]
    omega

def InRange64 (i : Int) : Prop := -two63 ≤ i ∧ i < two63

/-- `strconv.ParseInt(FormatInt(i), 10, 64) = i` for `i` in the int64 range -/
theorem parseInt64_renderInt (i : Int) (h : InRange64 i) : parseInt64 (renderInt i) = some i := by
  unfold parseInt64
  rw [parseInt_renderInt]
  simp only [h.1, h.2, and_self, ↓reduceIte]

theorem wrap64_inRange (x : Int) : InRange64 (wrap64 x) := by
  unfold InRange64 wrap64 two63 two64; omega

theorem wrap64_id (x : Int) (h : InRange64 x) : wrap64 x = x := by
  unfold InRange64 wrap64 two63 two64 at *; omega

theorem argInt64_inRange (v : Bytes) : InRange64 (argInt64 v) := wrap64_inRange _

/-- the rendering of an integer never starts with the bytes of a tag (used for `set_sum`) -/
theorem renderInt_ne_nil (i : Int) : renderInt i ≠ [] := by
  unfold renderInt
  split
  · simp
  · exact renderNat_ne_nil _

end SV

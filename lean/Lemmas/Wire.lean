import Model.Wire
/-!
Helper lemmas for C18 / C10 about `Model/Wire.lean`: varint round trips for the three decoders, exactness of the
size functions, one-iteration lemmas of the decoder loops on encoder output.
-/
namespace SV.Wire

/-! ### bytes -/

theorem toNat_ofNat_lt {n : Nat} (h : n < 256) : (UInt8.ofNat n).toNat = n := by
  rw [UInt8.toNat_ofNat']; exact Nat.mod_eq_of_lt h

theorem encVarint_lt {n : Nat} (h : n < 128) : encVarint n = [UInt8.ofNat n] := by
  rw [encVarint]; simp [h]

theorem encVarint_ge {n : Nat} (h : ¬ n < 128) :
    encVarint n = UInt8.ofNat (n % 128 + 128) :: encVarint (n / 128) := by
  rw [encVarint]; simp [h]

theorem encVarint_ne_nil (n : Nat) : encVarint n ≠ [] := by
  by_cases h : n < 128
  · rw [encVarint_lt h]; simp
  · rw [encVarint_ge h]; simp

theorem encVarint_length_pos (n : Nat) : 0 < (encVarint n).length :=
  List.length_pos_iff.mpr (encVarint_ne_nil n)

theorem pow_shift7 (s : Nat) : 2 ^ (s + 7) = 2 ^ s * 128 := by
  rw [Nat.pow_add]

theorem split128 (a n X : Nat) : a + n % 128 * X + n / 128 * (X * 128) = a + n * X := by
  have h := Nat.div_add_mod n 128
  generalize n / 128 = q at *
  generalize n % 128 = r at *
  subst h
  grind

theorem div128_lt {n f : Nat} (h : n < 2 ^ (7 * (f + 1))) : n / 128 < 2 ^ (7 * f) := by
  apply Nat.div_lt_of_lt_mul
  have : 2 ^ (7 * (f + 1)) = 128 * 2 ^ (7 * f) := by
    rw [show 7 * (f + 1) = 7 + 7 * f by omega, Nat.pow_add]
  omega

/-! ### the vtproto varint loop -/

theorem vtVarintGo_enc (f : Nat) : ∀ (n shift acc : Nat) (rest : Bytes),
    n < 2 ^ (7 * (f + 1)) → acc + n * 2 ^ shift < two64 →
    vtVarintGo (f + 1) shift acc (encVarint n ++ rest) = .ok (acc + n * 2 ^ shift, rest) := by
  induction f with
  | zero =>
    intro n shift acc rest hn hacc
    have hn' : n < 128 := by simpa using hn
    rw [encVarint_lt hn']
    simp only [List.cons_append, List.nil_append, vtVarintGo]
    rw [toNat_ofNat_lt (by omega), Nat.mod_eq_of_lt hn', Nat.mod_eq_of_lt hacc]
    simp [hn']
  | succ f ih =>
    intro n shift acc rest hn hacc
    by_cases hn' : n < 128
    · rw [encVarint_lt hn']
      simp only [List.cons_append, List.nil_append, vtVarintGo]
      rw [toNat_ofNat_lt (by omega), Nat.mod_eq_of_lt hn', Nat.mod_eq_of_lt hacc]
      simp [hn']
    · rw [encVarint_ge hn']
      simp only [List.cons_append, vtVarintGo]
      rw [toNat_ofNat_lt (by omega)]
      have hm : (n % 128 + 128) % 128 = n % 128 := by omega
      have hsplit := split128 acc n (2 ^ shift)
      have hle : acc + n % 128 * 2 ^ shift ≤ acc + n * 2 ^ shift := by
        have : n % 128 * 2 ^ shift ≤ n * 2 ^ shift := Nat.mul_le_mul_right _ (Nat.mod_le _ _)
        omega
      have hlt : acc + n % 128 * 2 ^ shift < two64 := by omega
      rw [hm, Nat.mod_eq_of_lt hlt]
      have hnot : ¬ (n % 128 + 128 < 128) := by omega
      simp only [hnot, if_false]
      rw [ih (n / 128) (shift + 7) _ rest (div128_lt hn) (by rw [pow_shift7]; omega)]
      rw [pow_shift7, hsplit]

theorem vtVarint_enc {n : Nat} (h : n < two64) (rest : Bytes) :
    vtVarint (encVarint n ++ rest) = .ok (n, rest) := by
  have := vtVarintGo_enc 9 n 0 0 rest (by unfold two64 at h; omega) (by simpa using h)
  simpa [vtVarint] using this

/-! ### protowire.ConsumeVarint -/

theorem pwVarintGo_enc (f : Nat) : ∀ (n shift acc : Nat) (rest : Bytes),
    f ≤ 9 → shift = 7 * (9 - f) → acc + n * 2 ^ shift < two64 →
    pwVarintGo (f + 1) shift acc (encVarint n ++ rest) = .ok (acc + n * 2 ^ shift, rest) := by
  induction f with
  | zero =>
    intro n shift acc rest _ hs hacc
    subst hs
    have hn' : n < 2 := by
      unfold two64 at hacc
      have : n * 2 ^ 63 < 2 * 2 ^ 63 := by simp at hacc ⊢; omega
      exact Nat.lt_of_mul_lt_mul_right this
    rw [encVarint_lt (by omega)]
    simp only [List.cons_append, List.nil_append, pwVarintGo]
    rw [toNat_ofNat_lt (by omega)]
    simp [hn']
  | succ f ih =>
    intro n shift acc rest hf hs hacc
    by_cases hn' : n < 128
    · rw [encVarint_lt hn']
      simp only [List.cons_append, List.nil_append, pwVarintGo]
      rw [toNat_ofNat_lt (by omega)]
      simp [hn']
    · rw [encVarint_ge hn']
      simp only [List.cons_append, pwVarintGo]
      rw [toNat_ofNat_lt (by omega)]
      have hm : (n % 128 + 128) % 128 = n % 128 := by omega
      have hsplit := split128 acc n (2 ^ shift)
      have hnot : ¬ (n % 128 + 128 < 128) := by omega
      simp only [hnot, if_false, hm, Nat.add_one_ne_zero]
      rw [ih (n / 128) (shift + 7) _ rest (by omega) (by omega) (by rw [pow_shift7]; omega)]
      rw [pow_shift7, hsplit]

theorem pwVarint_enc {n : Nat} (h : n < two64) (rest : Bytes) :
    pwVarint (encVarint n ++ rest) = .ok (n, rest) := by
  have := pwVarintGo_enc 9 n 0 0 rest (by omega) (by omega) (by simpa using h)
  simpa [pwVarint] using this

/-! ### encoding/binary.Uvarint -/

theorem uvarintGo_enc (f : Nat) : ∀ (i n shift acc : Nat) (rest : Bytes),
    i + f = 9 → shift = 7 * i → acc + n * 2 ^ shift < two64 →
    uvarintGo i shift acc (encVarint n ++ rest) = .ok (acc + n * 2 ^ shift) rest := by
  induction f with
  | zero =>
    intro i n shift acc rest hi hs hacc
    have hi' : i = 9 := by omega
    subst hi'; subst hs
    have hn' : n < 2 := by
      unfold two64 at hacc
      have : n * 2 ^ 63 < 2 * 2 ^ 63 := by simp at hacc ⊢; omega
      exact Nat.lt_of_mul_lt_mul_right this
    rw [encVarint_lt (by omega)]
    simp only [List.cons_append, List.nil_append, uvarintGo]
    rw [toNat_ofNat_lt (by omega)]
    have : ¬ n > 1 := by omega
    simp [this]; omega
  | succ f ih =>
    intro i n shift acc rest hi hs hacc
    have hi10 : ¬ i = 10 := by omega
    have hi9 : ¬ i = 9 := by omega
    by_cases hn' : n < 128
    · rw [encVarint_lt hn']
      simp only [List.cons_append, List.nil_append, uvarintGo]
      rw [toNat_ofNat_lt (by omega)]
      simp [hn', hi10, hi9]
    · rw [encVarint_ge hn']
      simp only [List.cons_append, uvarintGo]
      rw [toNat_ofNat_lt (by omega)]
      have hm : (n % 128 + 128) % 128 = n % 128 := by omega
      have hsplit := split128 acc n (2 ^ shift)
      have hnot : ¬ (n % 128 + 128 < 128) := by omega
      simp only [hnot, if_false, hm, hi10]
      rw [ih (i + 1) (n / 128) (shift + 7) _ rest (by omega) (by omega) (by rw [pow_shift7]; omega)]
      rw [pow_shift7, hsplit]

theorem uvarint_enc {n : Nat} (h : n < two64) (rest : Bytes) :
    uvarint (encVarint n ++ rest) = .ok n rest := by
  have := uvarintGo_enc 9 0 n 0 0 rest (by omega) (by omega) (by simpa using h)
  simpa [uvarint] using this

/-! ### size functions -/

theorem uvarintByteCount_eq (n : Nat) : uvarintByteCount n = (encVarint n).length := by
  induction n using Nat.strongRecOn with
  | _ n ih =>
    by_cases h : n < 128
    · rw [uvarintByteCount, encVarint_lt h]; simp [h]
    · rw [uvarintByteCount, encVarint_ge h]
      simp only [h, if_false, List.length_cons]
      rw [ih (n / 128) (by omega)]

theorem log2_or_one {x : Nat} (h : x ≠ 0) : Nat.log2 (x ||| 1) = Nat.log2 x := by
  have hx : x ||| 1 ≠ 0 := by
    have := @Nat.left_le_or x 1
    omega
  rw [Nat.log2_eq_iff hx]
  have h1 := Nat.log2_self_le h
  have h2 := @Nat.lt_log2_self x
  refine ⟨Nat.le_trans h1 Nat.left_le_or, ?_⟩
  apply Nat.or_lt_two_pow h2
  have : 2 ^ 0 < 2 ^ (x.log2 + 1) := Nat.pow_lt_pow_right (by omega) (by omega)
  simpa using this

theorem log2_ge128 {x : Nat} (h : 128 ≤ x) : Nat.log2 x = Nat.log2 (x / 128) + 7 := by
  have hx : x ≠ 0 := by omega
  have hq : x / 128 ≠ 0 := by omega
  rw [Nat.log2_eq_iff hx]
  have h1 := Nat.log2_self_le hq
  have h2 := @Nat.lt_log2_self (x / 128)
  have hm := Nat.div_add_mod x 128
  constructor
  · rw [Nat.pow_add]
    have : 2 ^ (x / 128).log2 * 2 ^ 7 ≤ (x / 128) * 128 := Nat.mul_le_mul_right _ h1
    omega
  · rw [show (x / 128).log2 + 7 + 1 = ((x / 128).log2 + 1) + 7 by omega, Nat.pow_add]
    have : (x / 128 + 1) * 2 ^ 7 ≤ 2 ^ ((x / 128).log2 + 1) * 2 ^ 7 := Nat.mul_le_mul_right _ h2
    omega

theorem sov_eq (n : Nat) : sov n = (encVarint n).length := by
  induction n using Nat.strongRecOn with
  | _ n ih =>
    by_cases h : n < 128
    · rw [encVarint_lt h]
      unfold sov len64
      by_cases h0 : n = 0
      · subst h0; decide
      · rw [log2_or_one h0]
        have hne : n ||| 1 ≠ 0 := by
          have := @Nat.left_le_or n 1
          omega
        simp only [hne, if_false, List.length_singleton]
        have : n.log2 < 7 := (Nat.log2_lt h0).2 (by simpa using h)
        omega
    · rw [encVarint_ge h, List.length_cons, ← ih (n / 128) (by omega)]
      unfold sov len64
      have h0 : n ≠ 0 := by omega
      have hq : n / 128 ≠ 0 := by omega
      have hne : n ||| 1 ≠ 0 := by
        have := @Nat.left_le_or n 1
        omega
      have hne' : n / 128 ||| 1 ≠ 0 := by
        have := @Nat.left_le_or (n / 128) 1
        omega
      simp only [hne, hne', if_false]
      rw [log2_or_one h0, log2_or_one hq, log2_ge128 (by omega)]
      omega

/-! ### StoreData: the fast decoder on encoder output -/

theorem vtVarint_0a (r : Bytes) : vtVarint ((0x0a : UInt8) :: r) = .ok (10, r) := rfl
theorem vtVarint_12 (r : Bytes) : vtVarint ((0x12 : UInt8) :: r) = .ok (18, r) := rfl
theorem fieldNum32_10 : fieldNum32 10 = 1 := by decide
theorem fieldNum32_18 : fieldNum32 18 = 2 := by decide

theorem vtCheckLen_ok {l len : Nat} {rest : Bytes} (hl : l < two63) (hr : rest.length < two63)
    (hlen : len ≤ rest.length) : vtCheckLen l rest len = .ok () := by
  unfold vtCheckLen
  rw [if_neg (by omega), if_neg (by omega), if_neg (by omega)]

theorem vtEntryLoop_key (l stop f : Nat) (k rest' key val : Bytes)
    (hl : l < two63) (hlen : (k ++ rest').length < two63)
    (hstop : stop ≤ (k ++ rest').length) :
    vtEntryLoop l stop (f + 1) ((0x0a : UInt8) :: (encVarint k.length ++ (k ++ rest'))) key val
      = vtEntryLoop l stop f rest' k val := by
  have hk : k.length < two64 := by
    simp only [List.length_append] at hlen; unfold two63 at hlen; unfold two64; omega
  have hpos := encVarint_length_pos k.length
  rw [vtEntryLoop, if_neg (by simp only [List.length_cons, List.length_append] at *; omega)]
  simp only [vtVarint_0a, fieldNum32_10, vtVarint_enc hk, if_true]
  rw [vtCheckLen_ok hl hlen (by simp)]
  simp only [List.take_left, List.drop_left]

theorem vtEntryLoop_val (l stop f : Nat) (v rest' key val : Bytes)
    (hl : l < two63) (hlen : (v ++ rest').length < two63)
    (hstop : stop ≤ (v ++ rest').length) :
    vtEntryLoop l stop (f + 1) ((0x12 : UInt8) :: (encVarint v.length ++ (v ++ rest'))) key val
      = vtEntryLoop l stop f rest' key v := by
  have hk : v.length < two64 := by
    simp only [List.length_append] at hlen; unfold two63 at hlen; unfold two64; omega
  have hpos := encVarint_length_pos v.length
  rw [vtEntryLoop, if_neg (by simp only [List.length_cons, List.length_append] at *; omega)]
  simp only [vtVarint_12, fieldNum32_18, vtVarint_enc hk, if_true]
  rw [vtCheckLen_ok hl hlen (by simp)]
  simp only [List.take_left, List.drop_left]
  rw [if_neg (by decide)]

theorem vtEntryLoop_exit (l stop f : Nat) (rest key val : Bytes) (h : rest.length ≤ stop) :
    vtEntryLoop l stop (f + 1) rest key val = .ok (key, val) := by
  rw [vtEntryLoop, if_pos h]

/-- the entry loop on one encoded entry body followed by `tail` -/
theorem vtEntryLoop_enc (l f : Nat) (k v tail : Bytes)
    (hl : l < two63) (hlen : (vtEncEntryBody k v ++ tail).length < two63) :
    vtEntryLoop l tail.length (f + 3) (vtEncEntryBody k v ++ tail) [] [] = .ok (k, v) := by
  unfold vtEncEntryBody at *
  simp only [List.append_assoc, List.cons_append, List.nil_append] at *
  simp only [List.length_cons, List.length_append] at hlen
  rw [vtEntryLoop_key l _ (f + 2) k _ [] [] hl
        (by simp only [List.length_cons, List.length_append]; omega)
        (by simp only [List.length_cons, List.length_append]; omega)]
  rw [vtEntryLoop_val l _ (f + 1) v tail k [] hl
        (by simp only [List.length_append]; omega)
        (by simp only [List.length_append]; omega)]
  exact vtEntryLoop_exit l _ f tail k v (Nat.le_refl _)

theorem vtEncEntryBody_length (k v : Bytes) :
    (vtEncEntryBody k v).length =
      1 + (encVarint k.length).length + k.length + (1 + (encVarint v.length).length + v.length) := by
  unfold vtEncEntryBody
  simp only [List.length_append, List.length_cons, List.length_nil]
  try omega

theorem vtEncEntry_length (e : Bytes × Bytes) :
    (vtEncEntry e).length = 1 + (encVarint (vtEncEntryBody e.1 e.2).length).length + (vtEncEntryBody e.1 e.2).length := by
  unfold vtEncEntry
  simp only [List.length_append, List.length_cons, List.length_nil]

theorem vtEncPrefix_length (p : Bytes) : (vtEncPrefix p).length = 1 + (encVarint p.length).length + p.length := by
  unfold vtEncPrefix
  simp only [List.length_append, List.length_cons, List.length_nil]

/-- one iteration of `unmarshalVT` on an encoded map entry -/
theorem unmarshalVTLoop_entry (l f : Nat) (e : Bytes × Bytes) (tail : Bytes) (d : StoreData) (s : Nat)
    (hl : l < two63) (hlen : (vtEncEntry e ++ tail).length < two63)
    (hs : s + (e.1.length + e.2.length) < two64) :
    unmarshalVTLoop l (f + 1) (vtEncEntry e ++ tail) d s
      = unmarshalVTLoop l f tail { d with kv := kvInsert d.kv e.1 e.2 } (s + (e.1.length + e.2.length)) := by
  have hbl := vtEncEntryBody_length e.1 e.2
  have hp1 := encVarint_length_pos e.1.length
  have hp2 := encVarint_length_pos e.2.length
  rw [List.length_append, vtEncEntry_length] at hlen
  have hb64 : (vtEncEntryBody e.1 e.2).length < two64 := by unfold two63 at hlen; unfold two64; omega
  unfold vtEncEntry
  simp only [List.append_assoc, List.cons_append, List.nil_append]
  rw [unmarshalVTLoop, if_neg (by simp)]
  simp only [vtVarint_0a, fieldNum32_10, vtVarint_enc hb64]
  rw [if_neg (by decide), if_neg (by unfold two31; omega), if_pos trivial, if_neg (by decide)]
  rw [vtCheckLen_ok hl (by simp only [List.length_append]; omega) (by simp)]
  simp only [List.length_append, Nat.add_sub_cancel_left, List.drop_left]
  rw [show (vtEncEntryBody e.1 e.2).length + tail.length + 1
        = ((vtEncEntryBody e.1 e.2).length + tail.length - 2) + 3 by omega]
  rw [vtEntryLoop_enc l _ e.1 e.2 tail hl (by simp only [List.length_append]; omega)]
  simp only [Nat.mod_eq_of_lt hs]

theorem vtVarint_12' (r : Bytes) : vtVarint ((0x12 : UInt8) :: r) = .ok (18, r) := rfl

/-- one iteration of `unmarshalVT` on an encoded delete prefix -/
theorem unmarshalVTLoop_prefix (l f : Nat) (p tail : Bytes) (d : StoreData) (s : Nat)
    (hl : l < two63) (hlen : (vtEncPrefix p ++ tail).length < two63) :
    unmarshalVTLoop l (f + 1) (vtEncPrefix p ++ tail) d s
      = unmarshalVTLoop l f tail { d with dp := d.dp ++ [p] } s := by
  rw [List.length_append, vtEncPrefix_length] at hlen
  have hp64 : p.length < two64 := by unfold two63 at hlen; unfold two64; omega
  unfold vtEncPrefix
  simp only [List.append_assoc, List.cons_append, List.nil_append]
  rw [unmarshalVTLoop, if_neg (by simp)]
  simp only [vtVarint_12, fieldNum32_18, vtVarint_enc hp64]
  rw [if_neg (by decide), if_neg (by unfold two31; omega), if_neg (by decide), if_pos trivial, if_neg (by decide)]
  rw [vtCheckLen_ok hl (by simp only [List.length_append]; omega) (by simp)]
  simp only [List.take_left, List.drop_left]

theorem length_le_flatMap {α β : Type} (g : α → List β) (hg : ∀ x, 1 ≤ (g x).length) (l : List α) :
    l.length ≤ (l.flatMap g).length := by
  induction l with
  | nil => simp
  | cons a t ih =>
    simp only [List.flatMap_cons, List.length_cons, List.length_append]
    have := hg a
    omega

theorem kvSize_cons (e : Bytes × Bytes) (es : KV) : kvSize (e :: es) = e.1.length + e.2.length + kvSize es := by
  simp [kvSize]

theorem kvSize_le (es : KV) : kvSize es ≤ (es.flatMap vtEncEntry).length := by
  induction es with
  | nil => simp [kvSize]
  | cons e t ih =>
    rw [kvSize_cons, List.flatMap_cons, List.length_append, vtEncEntry_length, vtEncEntryBody_length]
    omega

theorem unmarshalVTLoop_entries (l : Nat) (es : KV) : ∀ (f : Nat) (tail : Bytes) (d : StoreData) (s : Nat),
    l < two63 → (es.flatMap vtEncEntry ++ tail).length < two63 → s + kvSize es < two64 →
    unmarshalVTLoop l (f + es.length) (es.flatMap vtEncEntry ++ tail) d s
      = unmarshalVTLoop l f tail { d with kv := es.foldl (fun m e => kvInsert m e.1 e.2) d.kv } (s + kvSize es) := by
  induction es with
  | nil => intro f tail d s _ _ _; simp [kvSize]
  | cons e t ih =>
    intro f tail d s hl hlen hs
    rw [kvSize_cons] at hs
    simp only [List.flatMap_cons, List.append_assoc, List.length_cons, List.foldl_cons] at *
    rw [← Nat.add_assoc, unmarshalVTLoop_entry l _ e _ d s hl hlen (by omega)]
    rw [ih f tail _ _ hl (by simp only [List.length_append] at *; omega) (by omega)]
    rw [kvSize_cons, Nat.add_assoc]

theorem unmarshalVTLoop_prefixes (l : Nat) (ps : List Bytes) : ∀ (f : Nat) (tail : Bytes) (d : StoreData) (s : Nat),
    l < two63 → (ps.flatMap vtEncPrefix ++ tail).length < two63 →
    unmarshalVTLoop l (f + ps.length) (ps.flatMap vtEncPrefix ++ tail) d s
      = unmarshalVTLoop l f tail { d with dp := d.dp ++ ps } s := by
  induction ps with
  | nil => intro f tail d s _ _; simp
  | cons p t ih =>
    intro f tail d s hl hlen
    simp only [List.flatMap_cons, List.append_assoc, List.length_cons] at *
    rw [← Nat.add_assoc, unmarshalVTLoop_prefix l _ p _ d s hl hlen]
    rw [ih f tail _ _ hl (by simp only [List.length_append] at *; omega)]
    simp

theorem kvInsert_new (m : KV) (k v : Bytes) (h : k ∉ m.map (·.1)) : kvInsert m k v = m ++ [(k, v)] := by
  induction m with
  | nil => rfl
  | cons a t ih =>
    obtain ⟨k', v'⟩ := a
    simp only [List.map_cons, List.mem_cons, not_or] at h
    simp only [kvInsert]
    rw [if_neg (fun hc => h.1 hc.symm), ih h.2]
    rfl

theorem foldl_kvInsert (es : KV) : ∀ acc : KV, (acc.map (·.1) ++ es.map (·.1)).Nodup →
    es.foldl (fun m e => kvInsert m e.1 e.2) acc = acc ++ es := by
  induction es with
  | nil => intro acc _; simp
  | cons e t ih =>
    intro acc h
    have hnot : e.1 ∉ acc.map (·.1) := by
      intro hc
      rw [List.nodup_append] at h
      exact h.2.2 _ hc _ (by simp) rfl
    rw [List.foldl_cons, kvInsert_new acc e.1 e.2 hnot, ih]
    · simp
    · simpa [List.map_append, List.append_assoc] using h

/-- `unmarshalVT` reads `MarshalVT`'s bytes back: content, delete prefixes and the byte count. -/
theorem unmarshalVT_enc (es : KV) (ps : List Bytes) (hnd : (es.map (·.1)).Nodup)
    (hlen : (vtEncStoreData es ps).length < two63) :
    unmarshalVT (vtEncStoreData es ps) = .ok (⟨es, ps⟩, kvSize es) := by
  unfold unmarshalVT
  unfold vtEncStoreData at *
  have h1 := length_le_flatMap vtEncEntry (fun e => by rw [vtEncEntry_length]; omega) es
  have h2 := length_le_flatMap vtEncPrefix (fun p => by rw [vtEncPrefix_length]; omega) ps
  have hk := kvSize_le es
  rw [List.length_append] at hlen
  generalize hL : (es.flatMap vtEncEntry ++ ps.flatMap vtEncPrefix).length = L
  have hL' : L = (es.flatMap vtEncEntry).length + (ps.flatMap vtEncPrefix).length := by
    rw [← hL, List.length_append]
  rw [show L + 1 = ((L - es.length - ps.length) + 1 + ps.length) + es.length by omega]
  rw [unmarshalVTLoop_entries L es _ _ _ _ (by omega) (by rw [List.length_append]; omega)
        (by unfold two63 at hlen; unfold two64; omega)]
  have := unmarshalVTLoop_prefixes L ps ((L - es.length - ps.length) + 1) []
  simp only [List.append_nil] at this
  rw [this _ _ (by omega) (by omega)]
  rw [unmarshalVTLoop, if_pos rfl]
  rw [foldl_kvInsert es [] (by simpa using hnd)]
  simp

/-! ### the three StoreData encoders produce the same bytes; the size pre-computations are exact -/

theorem sum_map_congr {α : Type} (f g : α → Nat) (l : List α) (h : ∀ x, f x = g x) :
    (l.map f).sum = (l.map g).sum := by
  have : f = g := funext h
  rw [this]

theorem length_flatMap' {α β : Type} (g : α → List β) (l : List α) :
    (l.flatMap g).length = (l.map fun x => (g x).length).sum := by
  induction l with
  | nil => simp
  | cons a t ih => simp [ih]

theorem sizeVT_eq (kv : KV) (dp : List Bytes) : sizeVTStoreData kv dp = (vtEncStoreData kv dp).length := by
  simp only [sizeVTStoreData, vtEncStoreData]
  rw [List.length_append, length_flatMap', length_flatMap']
  congr 1
  · apply sum_map_congr
    intro e
    rw [vtEncEntry_length, vtEncEntryBody_length, sov_eq e.2.length, sov_eq e.1.length]
    have h : 1 + e.1.length + (encVarint e.1.length).length + (1 + e.2.length + (encVarint e.2.length).length)
        = 1 + (encVarint e.1.length).length + e.1.length + (1 + (encVarint e.2.length).length + e.2.length) := by
      omega
    rw [h, sov_eq]
    omega
  · apply sum_map_congr
    intro p
    rw [vtEncPrefix_length, sov_eq]
    omega

theorem marshalVT_eq (kv : KV) (dp : List Bytes) : marshalVT kv dp = .ok (vtEncStoreData kv dp) := by
  simp only [marshalVT]
  rw [if_pos (sizeVT_eq kv dp)]

theorem kvEntryByteSize_eq (k v : Bytes) : kvEntryByteSize k v = (vtEncEntryBody k v).length := by
  rw [vtEncEntryBody_length, kvEntryByteSize, uvarintByteCount_eq, uvarintByteCount_eq]
  omega

theorem pfEncEntry_eq (e : Bytes × Bytes) : pfEncEntry e = vtEncEntry e := by
  unfold pfEncEntry vtEncEntry
  rw [kvEntryByteSize_eq]
  simp only [vtEncEntryBody, List.append_assoc, List.cons_append, List.nil_append]

theorem pfEncStoreData_eq (kv : KV) (dp : List Bytes) : pfEncStoreData kv dp = vtEncStoreData kv dp := by
  unfold pfEncStoreData vtEncStoreData
  have : pfEncEntry = vtEncEntry := funext pfEncEntry_eq
  rw [this]

theorem pfSize_eq (kv : KV) (dp : List Bytes) : pfSize kv dp = (pfEncStoreData kv dp).length := by
  rw [pfEncStoreData_eq]
  simp only [pfSize, vtEncStoreData]
  rw [List.length_append, length_flatMap', length_flatMap']
  congr 1
  · apply sum_map_congr
    intro e
    rw [vtEncEntry_length, kvEntryByteSize_eq, uvarintByteCount_eq]
  · apply sum_map_congr
    intro p
    rw [vtEncPrefix_length, uvarintByteCount_eq]

theorem marshalPF_eq (kv : KV) (dp : List Bytes) : marshalPF kv dp = .ok (vtEncStoreData kv dp) := by
  simp only [marshalPF]
  rw [if_pos (pfSize_eq kv dp), pfEncStoreData_eq]

theorem encTag_1_2 : encTag 1 2 = [0x0a] := by
  unfold encTag; rw [encVarint_lt (by decide)]; rfl
theorem encTag_2_2 : encTag 2 2 = [0x12] := by
  unfold encTag; rw [encVarint_lt (by decide)]; rfl

theorem specEncStoreDataBytes_eq (kv : KV) (dp : List Bytes) :
    specEncStoreDataBytes kv dp = vtEncStoreData kv dp := by
  unfold specEncStoreDataBytes vtEncStoreData
  congr 1
  · congr 1
    funext e
    simp only [encLenField, encTag_1_2, encTag_2_2, vtEncEntry, vtEncEntryBody, List.append_assoc,
      List.cons_append, List.nil_append]
  · congr 1
    funext p
    simp only [encLenField, encTag_2_2, vtEncPrefix]

/-! ### the specification decoder on encoder output (StoreData) -/

theorem pwVarint_0a (r : Bytes) : pwVarint ((0x0a : UInt8) :: r) = .ok (10, r) := rfl
theorem pwVarint_12 (r : Bytes) : pwVarint ((0x12 : UInt8) :: r) = .ok (18, r) := rfl

theorem pwBytes_enc (p rest : Bytes) (h : p.length < two64) :
    pwBytes (encVarint p.length ++ (p ++ rest)) = .ok (p, rest) := by
  unfold pwBytes
  rw [pwVarint_enc h]
  simp only [List.length_append, List.take_left, List.drop_left]
  rw [if_neg (by omega)]

theorem pwMsgLoop_nil {σ : Type} (h : σ → Nat → Nat → Bytes → Except SpecErr (Option (σ × Bytes)))
    (f : Nat) (s : σ) : pwMsgLoop h (f + 1) [] s = .ok s := by
  rw [pwMsgLoop, if_pos rfl]

theorem specEntry_key (f : Nat) (k rest : Bytes) (s : Bytes × Bytes) (hk : k.length < two64)
    (hutf : validUTF8 k = true) :
    pwMsgLoop specEntryField (f + 1) ((0x0a : UInt8) :: (encVarint k.length ++ (k ++ rest))) s
      = pwMsgLoop specEntryField f rest (k, s.2) := by
  rw [pwMsgLoop, if_neg (by simp)]
  simp only [pwVarint_0a]
  rw [if_neg (by decide), if_neg (by decide)]
  simp only [specEntryField, pwLenField, pwBytes_enc k rest hk, pwString, hutf, Except.map]
  simp

theorem specEntry_val (f : Nat) (v rest : Bytes) (s : Bytes × Bytes) (hv : v.length < two64) :
    pwMsgLoop specEntryField (f + 1) ((0x12 : UInt8) :: (encVarint v.length ++ (v ++ rest))) s
      = pwMsgLoop specEntryField f rest (s.1, v) := by
  rw [pwMsgLoop, if_neg (by simp)]
  simp only [pwVarint_12]
  rw [if_neg (by decide), if_neg (by decide)]
  simp only [specEntryField, pwLenField, pwBytes_enc v rest hv]
  simp

theorem specEntry_body (k v : Bytes) (hlen : (vtEncEntryBody k v).length < two64) (hutf : validUTF8 k = true) :
    pwMsg specEntryField (vtEncEntryBody k v) ([], []) = .ok (k, v) := by
  have hbl := vtEncEntryBody_length k v
  have hp1 := encVarint_length_pos k.length
  have hp2 := encVarint_length_pos v.length
  have hk64 : k.length < two64 := by omega
  have hv64 : v.length < two64 := by omega
  unfold pwMsg
  rw [show (vtEncEntryBody k v).length + 1 = ((vtEncEntryBody k v).length - 2) + 1 + 1 + 1 by omega]
  generalize (vtEncEntryBody k v).length - 2 = F
  unfold vtEncEntryBody
  simp only [List.append_assoc, List.cons_append, List.nil_append]
  rw [specEntry_key _ k _ _ hk64 hutf]
  have := specEntry_val (F + 1) v [] (k, []) hv64
  simp only [List.append_nil] at this
  rw [this]
  exact pwMsgLoop_nil _ _ _

theorem specStore_entry (f : Nat) (e : Bytes × Bytes) (tail : Bytes) (d : StoreData)
    (hlen : (vtEncEntry e).length < two64) (hutf : validUTF8 e.1 = true) :
    pwMsgLoop specStoreField (f + 1) (vtEncEntry e ++ tail) d
      = pwMsgLoop specStoreField f tail { d with kv := kvInsert d.kv e.1 e.2 } := by
  rw [vtEncEntry_length] at hlen
  unfold vtEncEntry
  simp only [List.append_assoc, List.cons_append, List.nil_append]
  rw [pwMsgLoop, if_neg (by simp)]
  simp only [pwVarint_0a]
  rw [if_neg (by decide), if_neg (by decide)]
  simp only [specStoreField, pwLenField, pwBytes_enc _ tail (show (vtEncEntryBody e.1 e.2).length < two64 by omega),
    specEntry_body e.1 e.2 (by omega) hutf, Except.map]
  simp

theorem specStore_prefix (f : Nat) (p tail : Bytes) (d : StoreData)
    (hlen : p.length < two64) (hutf : validUTF8 p = true) :
    pwMsgLoop specStoreField (f + 1) (vtEncPrefix p ++ tail) d
      = pwMsgLoop specStoreField f tail { d with dp := d.dp ++ [p] } := by
  unfold vtEncPrefix
  simp only [List.append_assoc, List.cons_append, List.nil_append]
  rw [pwMsgLoop, if_neg (by simp)]
  simp only [pwVarint_12]
  rw [if_neg (by decide), if_neg (by decide)]
  simp only [specStoreField, pwLenField, pwBytes_enc p tail hlen, pwString, hutf, Except.map]
  simp

theorem specStore_entries (es : KV) : ∀ (f : Nat) (tail : Bytes) (d : StoreData),
    (es.flatMap vtEncEntry).length < two64 → (∀ e ∈ es, validUTF8 e.1 = true) →
    pwMsgLoop specStoreField (f + es.length) (es.flatMap vtEncEntry ++ tail) d
      = pwMsgLoop specStoreField f tail { d with kv := es.foldl (fun m e => kvInsert m e.1 e.2) d.kv } := by
  induction es with
  | nil => intro f tail d _ _; simp
  | cons e t ih =>
    intro f tail d hlen hutf
    simp only [List.flatMap_cons, List.append_assoc, List.length_cons, List.foldl_cons, List.length_append] at *
    rw [← Nat.add_assoc, specStore_entry _ e _ d (by omega) (hutf e (by simp))]
    rw [ih f tail _ (by omega) (fun x hx => hutf x (by simp [hx]))]

theorem specStore_prefixes (ps : List Bytes) : ∀ (f : Nat) (tail : Bytes) (d : StoreData),
    (ps.flatMap vtEncPrefix).length < two64 → (∀ p ∈ ps, validUTF8 p = true) →
    pwMsgLoop specStoreField (f + ps.length) (ps.flatMap vtEncPrefix ++ tail) d
      = pwMsgLoop specStoreField f tail { d with dp := d.dp ++ ps } := by
  induction ps with
  | nil => intro f tail d _ _; simp
  | cons p t ih =>
    intro f tail d hlen hutf
    simp only [List.flatMap_cons, List.append_assoc, List.length_cons, List.length_append] at *
    have hpl := vtEncPrefix_length p
    rw [← Nat.add_assoc, specStore_prefix _ p _ d (by omega) (hutf p (by simp))]
    rw [ih f tail _ (by omega) (fun x hx => hutf x (by simp [hx]))]
    simp

/-- the standard decoder reads the fast encoder's bytes (keys and prefixes must be valid UTF-8: F18) -/
theorem specDecode_enc (es : KV) (ps : List Bytes) (hnd : (es.map (·.1)).Nodup)
    (hlen : (vtEncStoreData es ps).length < two64)
    (hk : ∀ e ∈ es, validUTF8 e.1 = true) (hp : ∀ p ∈ ps, validUTF8 p = true) :
    specDecodeStoreData (vtEncStoreData es ps) = .ok ⟨es, ps⟩ := by
  unfold specDecodeStoreData pwMsg
  unfold vtEncStoreData at *
  have h1 := length_le_flatMap vtEncEntry (fun e => by rw [vtEncEntry_length]; omega) es
  have h2 := length_le_flatMap vtEncPrefix (fun p => by rw [vtEncPrefix_length]; omega) ps
  rw [List.length_append] at hlen
  generalize hL : (es.flatMap vtEncEntry ++ ps.flatMap vtEncPrefix).length = L
  have hL' : L = (es.flatMap vtEncEntry).length + (ps.flatMap vtEncPrefix).length := by
    rw [← hL, List.length_append]
  rw [show L + 1 = ((L - es.length - ps.length) + 1 + ps.length) + es.length by omega]
  rw [specStore_entries es _ _ _ (by omega) hk]
  have := specStore_prefixes ps ((L - es.length - ps.length) + 1) []
  simp only [List.append_nil] at this
  rw [this _ (by omega) hp]
  rw [pwMsgLoop_nil]
  rw [foldl_kvInsert es [] (by simpa using hnd)]
  simp

/-! ### the Binary marshaller -/

theorem binEncEntry_length (e : Bytes × Bytes) :
    (binEncEntry e).length = (encVarint e.1.length).length + e.1.length + ((encVarint e.2.length).length + e.2.length) := by
  unfold binEncEntry
  simp only [List.length_append]

theorem binReadLoop_entry (n : Nat) (e : Bytes × Bytes) (tail : Bytes) (out : KV)
    (hlen : (binEncEntry e).length < two64) :
    binReadLoop (n + 1) (binEncEntry e ++ tail) out = binReadLoop n tail (kvInsert out e.1 e.2) := by
  rw [binEncEntry_length] at hlen
  unfold binEncEntry
  simp only [List.append_assoc]
  rw [binReadLoop]
  simp only [uvarint_enc (show e.1.length < two64 by omega)]
  rw [if_neg (by simp only [List.length_append]; omega)]
  simp only [List.drop_left, List.take_left, uvarint_enc (show e.2.length < two64 by omega)]
  rw [if_neg (by simp only [List.length_append]; omega)]

theorem binReadLoop_entries (es : KV) : ∀ (tail : Bytes) (out : KV),
    (es.flatMap binEncEntry).length < two64 →
    binReadLoop es.length (es.flatMap binEncEntry ++ tail) out
      = .ok (es.foldl (fun m e => kvInsert m e.1 e.2) out) := by
  induction es with
  | nil => intro tail out _; simp [binReadLoop]
  | cons e t ih =>
    intro tail out hlen
    simp only [List.flatMap_cons, List.append_assoc, List.length_cons, List.foldl_cons, List.length_append] at *
    rw [binReadLoop_entry _ e _ out (by omega), ih _ _ (by omega)]

theorem binSize_eq (kv : KV) : binSize kv = (binEnc kv).length := by
  simp only [binSize, binEnc]
  rw [List.length_append, length_flatMap', uvarintByteCount_eq]
  congr 1
  apply sum_map_congr
  intro e
  rw [binEncEntry_length, uvarintByteCount_eq, uvarintByteCount_eq]
  omega

theorem marshalBinary_eq (kv : KV) : marshalBinary kv = .ok (binEnc kv) := by
  simp only [marshalBinary]
  rw [if_pos (binSize_eq kv)]

theorem unmarshalBinary_enc (es : KV) (hnd : (es.map (·.1)).Nodup) (hlen : (binEnc es).length < two64) :
    unmarshalBinary (binEnc es) = .ok es := by
  unfold binEnc at *
  rw [List.length_append] at hlen
  have h1 := length_le_flatMap binEncEntry (fun e => by
    rw [binEncEntry_length]; have := encVarint_length_pos e.1.length; omega) es
  unfold unmarshalBinary
  simp only [uvarint_enc (show es.length < two64 by omega)]
  have := binReadLoop_entries es [] [] (by omega)
  simp only [List.append_nil] at this
  rw [this, foldl_kvInsert es [] (by simpa using hnd)]
  simp

end SV.Wire

// vh_c02: squashing per-segment partial stores equals sequential store execution.
// F executes every block; G is built by merging, in block order, one partial store per segment, each saved to
// and reloaded from its snapshot file; the typed contents are compared (oracle) and every step is compared with
// the Lean model (correspondence).
package main

import (
	"fmt"
	"path/filepath"
	"strings"

	"verifharness/common"
	"verifharness/storeh"
)

func main() {
	o := common.ParseFlags()
	out := common.NewOut(o.Out)
	defer out.Finish()
	out.Rule = "histories: every host-admitted (policy,value type); 1-6 blocks of 0-8 host calls (arbitrary ordinals, delete_prefix mixed in, bigdecimal operands around the 34-decimals truncation, int64 near the wrap-around), every cut of the block sequence into consecutive segments for <=5 blocks (sampled above); sequential store F vs squashed store G (partial per segment through wasm.Call.Do*, Save, Load, Merge); float64: half of the float histories use dyadic operands (exact addition), the other half inexact ones (association order: known finding); non-trivial = >=2 segments and some key touched in two segments or a deletion; distinct by history line"
	ctx := storeh.NewCtx()
	dir := filepath.Join(o.Out, "dstore")
	run := func(line string, nt bool, inexact bool, c storeh.Combo) {
		ans, _ := common.Recover(func() string {
			return storeh.Run(ctx, dir, line, func(class, desc string) { out.Fail(class, desc, line) })
		})
		out.Case(line, ans, nt)
		// oracle: typed content of F (sequential) == typed content of G (squashed); the two `ty` answers are the
		// last-but-one and the one before it
		parts := strings.Split(ans, " | ")
		steps := strings.Split(line, " ; ")[1:]
		var tf, tg string
		for i, st := range steps {
			if i < len(parts) {
				if st == "ty F" {
					tf = parts[i]
				}
				if st == "ty G" {
					tg = parts[i]
				}
			}
		}
		if tf == "" || tg == "" || tf == "skipped" || tg == "skipped" {
			out.Count("ended-in-error")
			return
		}
		if tf != tg {
			class := "C02/squash-differs/" + c.Policy + "/" + c.GoVT
			if inexact && c.VT == "float64" && (c.Policy == "add" || c.Policy == "setsum") {
				class = "C02/add/float64/association-order"
			}
			out.Fail(class, fmt.Sprintf("sequential %s squashed %s", tf, tg), line)
		}
	}
	if lines := o.ReplayLines(); lines != nil {
		for _, l := range lines {
			h := strings.Fields(strings.Split(l, " ; ")[0])
			c := storeh.Combo{Policy: h[0], VT: h[1], GoVT: h[len(h)-1]}
			run(l, true, strings.Contains(l, " inexact"), c)
		}
		return
	}
	rng := common.NewRng(o.Seed)
	n := 1500
	if o.Thorough() {
		n = 40000
	}
	for i := 0; i < n; i++ {
		c := storeh.Combos[i%len(storeh.Combos)]
		inexact := c.VT == "float64" && (i/len(storeh.Combos))%2 == 1
		g := &storeh.Gen{R: rng, C: c, Odd: 8, ExactFloats: !inexact}
		maxOrd := rng.Range(0, 4)
		nb := rng.Range(1, 6)
		blocks := make([][]storeh.Op, nb)
		for b := range blocks {
			blocks[b] = g.Block(8, maxOrd)
		}
		// cuts: bitmask over the nb-1 gaps
		var cuts []int
		if nb <= 5 {
			for m := 0; m < 1<<(nb-1); m++ {
				cuts = append(cuts, m)
			}
		} else {
			for k := 0; k < 12; k++ {
				cuts = append(cuts, rng.Intn(1<<(nb-1)))
			}
		}
		hdr := g.Header(storeh.NoLimits)
		if inexact {
			hdr += " inexact"
		}
		var seq []string
		for _, b := range blocks {
			seq = append(seq, "blk F "+storeh.ShowOps(b))
		}
		seq = append(seq, "ty F")
		for _, m := range cuts {
			steps := append([]string{}, seq...)
			steps = append(steps, "new P")
			segs := 1
			for b := range blocks {
				steps = append(steps, "blk P "+storeh.ShowOps(blocks[b]))
				if b == nb-1 || m&(1<<b) != 0 {
					steps = append(steps, "sl P", "mrg G")
					if b != nb-1 {
						steps = append(steps, "new P")
						segs++
					}
				}
			}
			steps = append(steps, "ty G", "st G")
			out.Count(fmt.Sprintf("segments:%d", segs))
			out.Count("combo:" + c.String())
			run(storeh.Join(hdr, steps), segs >= 2 && storeh.NonTrivialBlocks(blocks), inexact, c)
		}
	}
}

// Slice T1 of vh_c12: the same requests through the REAL Tier1Service.blocks (service.TestBlocks on a service built
// by the add-only hook service.VerifNewTier1), to tie the prelude copied into prelude()/runReal to the function it
// was copied from: order of the checks, arguments handed to BuildTier1RequestPlan, use of the plan.
//
// Observed: the error, the SessionInit message (resolved start block, hand-off), the *plan.RequestPlan logged by
// "initializing tier1 pipeline", the arguments of the stream factory (when no back-processing is required), and
// every job the real scheduler hands to the (failing) worker.
package main

import (
	"context"
	"errors"
	"fmt"
	"path/filepath"
	"strings"
	"sync"

	"github.com/streamingfast/bstream"
	bsstream "github.com/streamingfast/bstream/stream"
	"github.com/streamingfast/dmetering"
	"github.com/streamingfast/dstore"
	"go.uber.org/zap"
	"go.uber.org/zap/zapcore"
	"go.uber.org/zap/zaptest/observer"

	"github.com/streamingfast/substreams"
	"github.com/streamingfast/substreams/orchestrator/loop"
	"github.com/streamingfast/substreams/orchestrator/plan"
	"github.com/streamingfast/substreams/orchestrator/response"
	"github.com/streamingfast/substreams/orchestrator/stage"
	"github.com/streamingfast/substreams/orchestrator/work"
	pbsubstreamsrpc "github.com/streamingfast/substreams/pb/sf/substreams/rpc/v2"
	"github.com/streamingfast/substreams/reqctx"
	"github.com/streamingfast/substreams/service"
	"github.com/streamingfast/substreams/service/config"

	"verifharness/common"
)

var t1dir string // set from -out

type t1job struct {
	stage, segment int
	startBlock     uint64
}

type t1obs struct {
	errKind      string
	session      *pbsubstreamsrpc.SessionInit
	plan         *plan.RequestPlan
	streamCalled bool
	sStart       int64
	sStop        uint64
	sCursor      string
	sTarget      bool
	jobs         []t1job
}

type failingStream struct{}

func (failingStream) Run(ctx context.Context) error { return errors.New("verif: no stream") }

type emitterStub struct{}

func (emitterStub) Emit(ctx context.Context, ev dmetering.Event) {}
func (emitterStub) Shutdown(err error)                           {}

func classifyTier1Err(err error) (kind string, afterPlan bool) {
	m := err.Error()
	switch {
	case strings.Contains(m, "the first streamable block of the chain"):
		return "start-below-first-streamable", false
	case strings.Contains(m, "start block and stop block are the same"):
		return "start-eq-stop", false
	case strings.Contains(m, "error during init_stores_and_backprocess"), strings.Contains(m, "error getting stream"),
		strings.Contains(m, "error during pipeline init"):
		return "", true
	}
	k := classifyErr(err)
	return k, false
}

func runTier1(c *caseT) (obs *t1obs) {
	obs = &t1obs{}
	ge := graphFor(c)
	if ge.err != nil {
		obs.errKind = "graph"
		return
	}
	bstream.GetProtocolFirstStreamableBlock = c.fsb
	defer func() { bstream.GetProtocolFirstStreamableBlock = 0 }()

	core, logs := observer.New(zapcore.DebugLevel)
	ctx := reqctx.WithLogger(context.Background(), zap.New(core))
	ctx = dmetering.WithBytesMeter(ctx)
	ctx = reqctx.WithEmitter(ctx, emitterStub{})
	ctx = reqctx.WithTier2RequestParameters(ctx, reqctx.Tier2RequestParameters{
		MeteringConfig: "x", FirstStreamableBlock: c.fsb, MergedBlockStoreURL: "x", StateStoreURL: "x", StateBundleSize: c.seg, BlockType: blockType,
	})
	ctx, cancel := context.WithCancel(ctx)
	defer cancel()

	baseStore, err := dstore.NewStore(filepath.Join(t1dir, "t1store"), "zst", "zstd", true) // scratch, under -out
	if err != nil {
		panic(err)
	}
	var mu sync.Mutex
	wf := func(_ *zap.Logger) work.Worker {
		return work.NewWorkerFactoryFromFunc(func(ctx context.Context, unit stage.Unit, startBlock uint64, moduleNames []string, upstream *response.Stream) loop.Cmd {
			mu.Lock()
			obs.jobs = append(obs.jobs, t1job{unit.Stage, unit.Segment, startBlock})
			mu.Unlock()
			return func() loop.Msg {
				return work.MsgJobFailed{Unit: unit, Error: errors.New("verif: worker stops here")}
			}
		})
	}
	rc := config.RuntimeConfig{SegmentSize: c.seg, DefaultParallelSubrequests: 1, BaseObjectStore: baseStore, DefaultCacheTag: "tag", WorkerFactory: wf, MaxJobsAhead: 10}
	getFinal := func() (uint64, error) {
		if c.final < 0 {
			return 0, errors.New("no live feed")
		}
		return uint64(c.final), nil
	}
	getHead := func() (uint64, error) {
		if c.head < 0 {
			return 0, errors.New("no head")
		}
		return uint64(c.head), nil
	}
	resolve := func(_ context.Context, cur *bstream.Cursor) (bstream.BlockRef, bstream.BlockRef, error) {
		switch c.res.kind {
		case 2:
			return nil, c.res.head.blockRef(), nil
		case 3:
			return c.res.junction.blockRef(), c.res.head.blockRef(), nil
		}
		return nil, nil, errors.New("resolver failed")
	}
	sf := func(ctx context.Context, h bstream.Handler, startBlockNum int64, stopBlockNum uint64, cursor string, finalBlocksOnly bool, cursorIsTarget bool, logger *zap.Logger, extraOpts ...bsstream.Option) (service.Streamable, error) {
		obs.streamCalled, obs.sStart, obs.sStop, obs.sCursor, obs.sTarget = true, startBlockNum, stopBlockNum, cursor, cursorIsTarget
		return nil, errors.New("verif: no stream")
	}
	svc := service.VerifNewTier1(rc, getFinal, getHead, resolve, sf)

	request := &pbsubstreamsrpc.Request{StartBlockNum: c.start, StopBlockNum: c.stop, ProductionMode: c.prod, OutputModule: "out", Modules: ge.mods}
	switch c.cur.kind {
	case 1:
		request.StartCursor = "this-is-not-a-cursor"
	case 2:
		request.StartCursor = (&bstream.Cursor{Step: stepCode[c.cur.step], Block: c.cur.block.blockRef(), LIB: c.cur.lib.blockRef(), HeadBlock: c.cur.head.blockRef()}).ToOpaque()
	}
	var respFunc substreams.ResponseFunc = func(any substreams.ResponseFromAnyTier) error {
		if resp, ok := any.(*pbsubstreamsrpc.Response); ok {
			if s := resp.GetSession(); s != nil {
				obs.session = s
			}
		}
		return nil
	}
	err = svc.TestBlocks(ctx, false, request, respFunc)
	for _, e := range logs.FilterMessage("initializing tier1 pipeline").All() {
		for _, f := range e.Context {
			if f.Key == "plan" {
				if p, ok := f.Interface.(*plan.RequestPlan); ok {
					obs.plan = p
				}
			}
		}
	}
	if err != nil {
		kind, afterPlan := classifyTier1Err(err)
		if !afterPlan {
			obs.errKind = kind
		}
	}
	return
}

func renderTier1(c *caseT, o *t1obs) string {
	if o.errKind != "" {
		return "err=" + o.errKind
	}
	if o.session == nil || o.plan == nil {
		return "no-plan-observed"
	}
	p := o.plan
	s := fmt.Sprintf("start=%d handoff=%d | stores=%s write=%s read=%s linear=%s | ", o.session.ResolvedStartBlock, o.session.LinearHandoffBlock,
		showRange(p.BuildStores), showRange(p.WriteExecOut), showRange(p.ReadExecOut), showRange(p.LinearPipeline))
	switch {
	case p.RequiresParallelProcessing():
		s += "stream=after-backprocess"
	case !o.streamCalled:
		s += "stream=none"
	default:
		s += fmt.Sprintf("stream=%d,%d,%s,%v", o.sStart, o.sStop, showCursorOpaque(o.sCursor), o.sTarget)
	}
	return s
}

// doTier1 runs one T1 case (sequentially: blocks() reads the process-wide first streamable block).
func doTier1(c *caseT) {
	line := "T1" + c.line()[1:]
	var obs *t1obs
	panicMsg := ""
	ans, panicked := common.Recover(func() string {
		defer func() {
			if r := recover(); r != nil {
				panicMsg = fmt.Sprint(r)
				if len(panicMsg) > 300 {
					panicMsg = panicMsg[:300]
				}
				panic(r)
			}
		}()
		obs = runTier1(c)
		return renderTier1(c, obs)
	})
	if panicked {
		out.Fail("C12/tier1-panic", "Tier1Service.blocks panicked: "+panicMsg, line)
		out.Count("T1:real-blocks panic")
		out.Case(line, ans, false)
		return
	}
	if obs.errKind != "" {
		out.Count("T1:real-blocks err=" + obs.errKind)
	} else {
		out.Count("T1:real-blocks ok")
	}
	// the same request through the direct calls must give the same answer (ties prelude() to blocks())
	direct := runReal(c)
	if direct.errKind != obs.errKind {
		out.Fail("C12/tier1-vs-direct", fmt.Sprintf("blocks() says %q, the direct calls say %q", obs.errKind, direct.errKind), line)
	}
	nontrivial := false
	if obs.errKind == "" && obs.plan != nil && direct.p != nil {
		p, q := obs.plan, direct.p
		if !sameRange(p.BuildStores, q.BuildStores) || !sameRange(p.WriteExecOut, q.WriteExecOut) || !sameRange(p.ReadExecOut, q.ReadExecOut) || !sameRange(p.LinearPipeline, q.LinearPipeline) {
			out.Fail("C12/tier1-vs-direct", "blocks() built "+p.String()+", the direct calls "+q.String(), line)
		}
		nontrivial = p.RequiresParallelProcessing()
		// every job the real scheduler handed out is one of the units derived from the plan's segmenters
		dv := derive(c, direct)
		for _, j := range obs.jobs {
			out.Count("T1:real-blocks job handed out")
			var us []unit
			if j.stage == 0 && dv.hasS {
				us = dv.ss
			} else {
				us = dv.mp
			}
			found := false
			for _, u := range us {
				if u.idx == j.segment && u.r != nil && u.r.StartBlock == j.startBlock {
					found = true
				}
			}
			if !found || int(j.startBlock/c.seg) != j.segment {
				out.Fail("C12/tier1-job-not-a-derived-unit", fmt.Sprintf("scheduler handed out stage %d segment %d start %d", j.stage, j.segment, j.startBlock), line)
			}
		}
		if p.RequiresParallelProcessing() && len(obs.jobs) == 0 {
			out.Count("T1:real-blocks backprocess without job")
		}
	}
	out.Case(line, ans, nontrivial)
}

// vh_c12: correspondence cases + property oracle for C12 (request resolution and planning cover the
// requested range exactly).
//
// Real code driven, in the order of Tier1Service.blocks (service/tier1.go):
//
//	exec.NewOutputModuleGraph            (LowestInitBlock, LowestStoresInitBlock, ModulesInitBlocks, stages)
//	[start-block prelude of blocks(): copied below, see prelude()]
//	pipeline.BuildRequestDetails         (resolveStartBlockNum, reprocStateRequired, computeLinearHandoffBlockNum)
//	[start == stop rejection of blocks(): copied below]
//	exec.Graph.ValidateRequestStartBlock
//	plan.BuildTier1RequestPlan           with the arguments tier1.go derives from the graph
//	RequestPlan.{Stores,WriteOut,Module,ReadOut,Backprocess}Segmenter, block.Segmenter.WithInitialBlock/Range
//	work.NewRequest + ProcessRangeRequest.StartBlock()/StopBlock()   (what tier 2 recomputes)
//
// on real pbsubstreams.Modules values (stores with chosen initial blocks in every module order, an output
// module reading all of them: a mapper, or — case token s<n> — a store, which these entry points accept although
// Request.Validate does not; slice T1 uses mapper outputs only), cursors built with bstream.Cursor.ToOpaque(), a resolver stub returning every
// answer shape.
//
// Case line (read by lean/Driver/C12.lean):
//
//	P <p|d> <seg> <fsb> <start> <stop> <final|-> <head|-> <outInit | s<outInit>> <stores|-> <cursor> <resolver> lay=<n>
package main

import (
	"context"
	"errors"
	"fmt"
	"os"
	"runtime"
	"sort"
	"strconv"
	"strings"
	"sync"
	"sync/atomic"

	"github.com/streamingfast/bstream"

	"github.com/streamingfast/substreams/block"
	"github.com/streamingfast/substreams/orchestrator/plan"
	"github.com/streamingfast/substreams/orchestrator/work"
	pbsubstreamsrpc "github.com/streamingfast/substreams/pb/sf/substreams/rpc/v2"
	pbsubstreams "github.com/streamingfast/substreams/pb/sf/substreams/v1"
	"github.com/streamingfast/substreams/pipeline"
	"github.com/streamingfast/substreams/pipeline/exec"
	"github.com/streamingfast/substreams/reqctx"

	"verifharness/common"
)

var out *common.Out

// ------------------------------------------------------------------ case

type ref struct {
	num uint64
	id  int // label: block id is "<num><'a'+id>"
}

func (r ref) String() string { return fmt.Sprintf("%d.%d", r.num, r.id) }
func (r ref) blockRef() bstream.BlockRef {
	return bstream.NewBlockRef(fmt.Sprintf("%d%c", r.num, 'a'+rune(r.id)), r.num)
}
func refOf(b bstream.BlockRef) ref {
	id := b.ID()
	lab := 0
	if len(id) > 0 {
		lab = int(id[len(id)-1] - 'a')
	}
	return ref{b.Num(), lab}
}
func parseRef(s string) ref {
	p := strings.Split(s, ".")
	return ref{common.Atou(p[0]), common.Atoi(p[1])}
}

type cursorT struct {
	kind             int // 0 none, 1 bad, 2 some
	step             string
	block, lib, head ref
}

func (c cursorT) String() string {
	switch c.kind {
	case 0:
		return "-"
	case 1:
		return "bad"
	}
	return fmt.Sprintf("%s:%s:%s:%s", c.step, c.block, c.lib, c.head)
}

var stepCode = map[string]bstream.StepType{"n": bstream.StepNew, "u": bstream.StepUndo, "i": bstream.StepIrreversible, "ni": bstream.StepNewIrreversible}

func stepName(s bstream.StepType) string {
	for k, v := range stepCode {
		if v == s {
			return k
		}
	}
	return "?"
}

type resolverT struct {
	kind     int // 0 unused("-"), 1 err, 2 nil junction, 3 junction
	junction ref
	head     ref
}

func (r resolverT) String() string {
	switch r.kind {
	case 0:
		return "-"
	case 1:
		return "err"
	case 2:
		return "nil:" + r.head.String()
	}
	return r.junction.String() + ":" + r.head.String()
}

type caseT struct {
	prod     bool
	seg, fsb uint64
	start    int64
	stop     uint64
	final    int64 // -1 unknown
	head     int64 // -1 unknown
	outInit  uint64
	outStore bool // the output module is a store (case token s<n>)
	stores   []uint64
	cur      cursorT
	res      resolverT
	lay      int
}

func optS(v int64) string {
	if v < 0 {
		return "-"
	}
	return strconv.FormatInt(v, 10)
}

func (c *caseT) line() string {
	var sb strings.Builder
	sb.Grow(96)
	sb.WriteString("P ")
	if c.prod {
		sb.WriteString("p ")
	} else {
		sb.WriteString("d ")
	}
	sb.WriteString(strconv.FormatUint(c.seg, 10))
	sb.WriteByte(' ')
	sb.WriteString(strconv.FormatUint(c.fsb, 10))
	sb.WriteByte(' ')
	sb.WriteString(strconv.FormatInt(c.start, 10))
	sb.WriteByte(' ')
	sb.WriteString(strconv.FormatUint(c.stop, 10))
	sb.WriteByte(' ')
	sb.WriteString(optS(c.final))
	sb.WriteByte(' ')
	sb.WriteString(optS(c.head))
	sb.WriteByte(' ')
	if c.outStore {
		sb.WriteByte('s')
	}
	sb.WriteString(strconv.FormatUint(c.outInit, 10))
	sb.WriteByte(' ')
	if len(c.stores) == 0 {
		sb.WriteByte('-')
	}
	for i, s := range c.stores {
		if i > 0 {
			sb.WriteByte(',')
		}
		sb.WriteString(strconv.FormatUint(s, 10))
	}
	sb.WriteByte(' ')
	sb.WriteString(c.cur.String())
	sb.WriteByte(' ')
	sb.WriteString(c.res.String())
	sb.WriteString(" lay=")
	sb.WriteString(strconv.Itoa(c.lay))
	return sb.String()
}

func optP(s string) int64 {
	if s == "-" {
		return -1
	}
	return int64(common.Atou(s))
}

func parseCase(line string) (*caseT, bool) {
	w := strings.Fields(line)
	if len(w) < 12 || (w[0] != "P" && w[0] != "T1") {
		return nil, false
	}
	c := &caseT{prod: w[1] == "p", seg: common.Atou(w[2]), fsb: common.Atou(w[3])}
	st, err := strconv.ParseInt(w[4], 10, 64)
	if err != nil {
		return nil, false
	}
	c.start = st
	c.stop = common.Atou(w[5])
	c.final = optP(w[6])
	c.head = optP(w[7])
	if strings.HasPrefix(w[8], "s") {
		c.outStore = true
		w[8] = w[8][1:]
	}
	c.outInit = common.Atou(w[8])
	if w[9] != "-" {
		for _, s := range strings.Split(w[9], ",") {
			c.stores = append(c.stores, common.Atou(s))
		}
	}
	switch w[10] {
	case "-":
	case "bad":
		c.cur.kind = 1
	default:
		p := strings.Split(w[10], ":")
		c.cur = cursorT{2, p[0], parseRef(p[1]), parseRef(p[2]), parseRef(p[3])}
	}
	switch {
	case w[11] == "-":
	case w[11] == "err":
		c.res.kind = 1
	default:
		p := strings.Split(w[11], ":")
		if p[0] == "nil" {
			c.res = resolverT{kind: 2, head: parseRef(p[1])}
		} else {
			c.res = resolverT{3, parseRef(p[0]), parseRef(p[1])}
		}
	}
	if len(w) > 12 && strings.HasPrefix(w[12], "lay=") {
		c.lay = common.Atoi(w[12][4:])
	}
	return c, true
}

// ------------------------------------------------------------------ real modules / graph

const blockType = "sf.substreams.v1.test.Block"

func srcInput() *pbsubstreams.Module_Input {
	return &pbsubstreams.Module_Input{Input: &pbsubstreams.Module_Input_Source_{Source: &pbsubstreams.Module_Input_Source{Type: blockType}}}
}
func storeInput(name string) *pbsubstreams.Module_Input {
	return &pbsubstreams.Module_Input{Input: &pbsubstreams.Module_Input_Store_{Store: &pbsubstreams.Module_Input_Store{ModuleName: name, Mode: pbsubstreams.Module_Input_Store_GET}}}
}
func storeMod(name string, init uint64) *pbsubstreams.Module {
	return &pbsubstreams.Module{
		Name: name, InitialBlock: init, BinaryEntrypoint: name,
		Kind:   &pbsubstreams.Module_KindStore_{KindStore: &pbsubstreams.Module_KindStore{UpdatePolicy: pbsubstreams.Module_KindStore_UPDATE_POLICY_SET, ValueType: "string"}},
		Inputs: []*pbsubstreams.Module_Input{srcInput()},
	}
}
func mapMod(name string, init uint64, inputs ...*pbsubstreams.Module_Input) *pbsubstreams.Module {
	return &pbsubstreams.Module{
		Name: name, InitialBlock: init, BinaryEntrypoint: name,
		Kind:   &pbsubstreams.Module_KindMap_{KindMap: &pbsubstreams.Module_KindMap{OutputType: "proto:test.Out"}},
		Inputs: inputs,
	}
}

// layout bits: 1 = output module first in the list (else last); 2 = an unreachable store with initial
// block 0 in the middle; 4 = an unreachable mapper at the front.  The model never sees the layout.
func buildModules(stores []uint64, outInit uint64, outStore bool, lay int) *pbsubstreams.Modules {
	var mods []*pbsubstreams.Module
	inputs := []*pbsubstreams.Module_Input{srcInput()}
	var storeMods []*pbsubstreams.Module
	for i, s := range stores {
		name := fmt.Sprintf("s%d", i)
		storeMods = append(storeMods, storeMod(name, s))
		inputs = append(inputs, storeInput(name))
	}
	om := mapMod("out", outInit, inputs...)
	if outStore { // accepted by BuildRequestDetails / NewOutputModuleGraph / BuildTier1RequestPlan / TestBlocks (only Request.Validate refuses it)
		om = storeMod("out", outInit)
		om.Inputs = inputs
	}
	if lay&4 != 0 {
		mods = append(mods, mapMod("unrelated_map", 0, srcInput()))
	}
	if lay&1 != 0 {
		mods = append(mods, om)
	}
	for i, sm := range storeMods {
		if lay&2 != 0 && i == len(storeMods)/2 {
			mods = append(mods, storeMod("unrelated_store", 0))
		}
		mods = append(mods, sm)
	}
	if lay&2 != 0 && len(storeMods) == 0 {
		mods = append(mods, storeMod("unrelated_store", 0))
	}
	if lay&1 == 0 {
		mods = append(mods, om)
	}
	return &pbsubstreams.Modules{
		Modules:  mods,
		Binaries: []*pbsubstreams.Binary{{Type: "wasm/rust-v1", Content: []byte("verif")}},
	}
}

type graphEntry struct {
	mods  *pbsubstreams.Modules
	graph *exec.Graph
	err   error
}

var graphCache sync.Map // key -> *graphEntry

func graphFor(c *caseT) *graphEntry {
	var kb strings.Builder
	kb.Grow(48)
	if c.prod {
		kb.WriteByte('p')
	}
	kb.WriteString(strconv.FormatUint(c.fsb, 10))
	kb.WriteByte('/')
	if c.outStore {
		kb.WriteByte('s')
	}
	kb.WriteString(strconv.FormatUint(c.outInit, 10))
	kb.WriteByte('/')
	kb.WriteString(strconv.Itoa(c.lay))
	for _, s := range c.stores {
		kb.WriteByte(',')
		kb.WriteString(strconv.FormatUint(s, 10))
	}
	key := kb.String()
	if e, ok := graphCache.Load(key); ok {
		return e.(*graphEntry)
	}
	mods := buildModules(c.stores, c.outInit, c.outStore, c.lay)
	g, err := exec.NewOutputModuleGraph("out", c.prod, mods, c.fsb)
	e, _ := graphCache.LoadOrStore(key, &graphEntry{mods, g, err})
	return e.(*graphEntry)
}

// ------------------------------------------------------------------ running the real code

type result struct {
	errKind string
	d       *reqctx.RequestDetails
	undo    *pbsubstreamsrpc.BlockUndoSignal
	p       *plan.RequestPlan
	g       *exec.Graph
	// resolver bookkeeping
	resolverCalled bool
}

func classifyErr(err error) string {
	m := err.Error()
	switch {
	case strings.Contains(m, "resolving negative start block"):
		return "head-unknown"
	case strings.Contains(m, "invalid StartCursor"):
		return "bad-cursor"
	case strings.Contains(m, "is after StopBlockNum"):
		return "cursor-after-stop"
	case strings.Contains(m, "StartCursor is invalid: LIB"):
		return "cursor-lib-above-block"
	case strings.Contains(m, "cannot resolve StartCursor"):
		return "resolver-failed"
	case strings.Contains(m, "cannot determine a recent finalized block"):
		return "final-unknown-open-ended"
	case strings.Contains(m, "invalid modules"):
		return "invalid-modules"
	case strings.Contains(m, "smaller than request outputs"):
		return "start-below-output-init"
	case strings.Contains(m, "start block cannot be prior to the lowest init block"):
		return "start-below-lowest-init"
	case strings.Contains(m, "write execout range"):
		return "write-range-invalid"
	}
	return "other:" + m
}

var bgctx = context.Background()

// prelude is a copy of the first statements of Tier1Service.blocks (service/tier1.go); the function cannot be
// called up to that point only.  (Listed in checks/C12.json as modelled, not driven.)
func prelude(request *pbsubstreamsrpc.Request, chainFirstStreamableBlock uint64) bool {
	if request.StartBlockNum > 0 && request.StartBlockNum < int64(chainFirstStreamableBlock) {
		return false
	} else if request.StartBlockNum < 0 && request.StopBlockNum > 0 {
		if int64(request.StopBlockNum)+int64(request.StartBlockNum) < int64(chainFirstStreamableBlock) {
			request.StartBlockNum = int64(chainFirstStreamableBlock)
		}
	} else if request.StartBlockNum == 0 {
		request.StartBlockNum = int64(chainFirstStreamableBlock)
	}
	return true
}

func runReal(c *caseT) *result {
	r := &result{}
	ge := graphFor(c)
	if ge.err != nil {
		r.errKind = "graph"
		return r
	}
	r.g = ge.graph
	request := &pbsubstreamsrpc.Request{
		StartBlockNum:  c.start,
		StopBlockNum:   c.stop,
		ProductionMode: c.prod,
		OutputModule:   "out",
		Modules:        ge.mods,
	}
	switch c.cur.kind {
	case 1:
		request.StartCursor = "this-is-not-a-cursor"
	case 2:
		request.StartCursor = (&bstream.Cursor{Step: stepCode[c.cur.step], Block: c.cur.block.blockRef(), LIB: c.cur.lib.blockRef(), HeadBlock: c.cur.head.blockRef()}).ToOpaque()
	}
	if !prelude(request, c.fsb) {
		r.errKind = "start-below-first-streamable"
		return r
	}
	getFinal := func() (uint64, error) {
		if c.final < 0 {
			return 0, errors.New("no live feed")
		}
		return uint64(c.final), nil
	}
	getHead := func() (uint64, error) {
		if c.head < 0 {
			return 0, errors.New("no head")
		}
		return uint64(c.head), nil
	}
	resolve := func(_ context.Context, cur *bstream.Cursor) (bstream.BlockRef, bstream.BlockRef, error) {
		r.resolverCalled = true
		switch c.res.kind {
		case 2:
			return nil, c.res.head.blockRef(), nil
		case 3:
			return c.res.junction.blockRef(), c.res.head.blockRef(), nil
		}
		return nil, nil, errors.New("resolver failed")
	}
	d, undo, err := pipeline.BuildRequestDetails(bgctx, request, getFinal, resolve, getHead, c.seg)
	if err != nil {
		r.errKind = classifyErr(err)
		return r
	}
	if d.ResolvedStartBlockNum == request.StopBlockNum && request.StopBlockNum != 0 {
		r.errKind = "start-eq-stop"
		return r
	}
	if err := ge.graph.ValidateRequestStartBlock(d.ResolvedStartBlockNum); err != nil {
		r.errKind = classifyErr(err)
		return r
	}
	scheduleStores := ge.graph.StagedUsedModules()[0].LastLayer().IsStoreLayer()
	var lowestStoresInitBlock uint64
	if scheduleStores {
		lowestStoresInitBlock = *ge.graph.LowestStoresInitBlock()
	}
	p, err := plan.BuildTier1RequestPlan(d.ProductionMode, c.seg, ge.graph.LowestInitBlock(), lowestStoresInitBlock,
		d.ResolvedStartBlockNum, d.LinearHandoffBlockNum, d.StopBlockNum, scheduleStores)
	if err != nil {
		r.errKind = classifyErr(err)
		return r
	}
	r.d, r.undo, r.p = d, undo, p
	return r
}

// ------------------------------------------------------------------ units handed to jobs (NewStages / initSegmentsOffset / NextJob)

type unit struct {
	idx int
	r   *block.Range // nil: Range(idx) == nil (NextJob would dereference it)
}

func unitsOf(p *plan.RequestPlan, kindSeg *block.Segmenter, st *block.Segmenter) []unit {
	g := p.BackprocessSegmenter()
	var res []unit
	for idx := g.FirstIndex(); idx <= g.LastIndex(); idx++ {
		if idx < kindSeg.FirstIndex() { // initSegmentsOffset: NoOp
			continue
		}
		if idx < st.FirstIndex() {
			continue
		}
		if idx > st.LastIndex() {
			break
		}
		r := st.Range(idx)
		if r == nil {
			res = append(res, unit{idx, nil})
			continue
		}
		if r.Len() == 0 {
			continue
		}
		res = append(res, unit{idx, r})
	}
	return res
}

func showRange(r *block.Range) string {
	if r == nil {
		return "nil"
	}
	return "[" + strconv.FormatUint(r.StartBlock, 10) + "," + strconv.FormatUint(r.ExclusiveEndBlock, 10) + ")"
}
func showUnit(u unit) string {
	if u.r == nil {
		return strconv.Itoa(u.idx) + "!nil"
	}
	return strconv.Itoa(u.idx) + showRange(u.r)
}
func showUnits(us []unit) string {
	if len(us) == 0 {
		return "0"
	}
	return strconv.Itoa(len(us)) + ":" + showUnit(us[0]) + ".." + showUnit(us[len(us)-1])
}

type stageUnits struct {
	name    string
	rawInit uint64
	units   []unit
}

type derived struct {
	bp      *block.Segmenter
	ss      []unit       // stores stage (stage initial block = lowest of the layer)
	ms      []stageUnits // per store module
	mp      []unit       // map stage
	rd      *block.Segmenter
	hasS    bool
	hasW    bool
	stageIn uint64
}

func derive(c *caseT, res *result) *derived {
	p, g := res.p, res.g
	dv := &derived{hasS: p.BuildStores != nil, hasW: p.WriteExecOut != nil}
	inits := g.ModulesInitBlocks()
	if dv.hasS || dv.hasW {
		dv.bp = p.BackprocessSegmenter()
	}
	// required stores: the ancestor stores and, when it is a store, the output module (its own, later, store stage)
	type smod struct {
		name string
		raw  uint64
	}
	var smods []smod
	for i, raw := range c.stores {
		smods = append(smods, smod{fmt.Sprintf("s%d", i), raw})
	}
	firstStage := len(smods) // the first store stage is the layer of ancestor stores, or the output store alone
	if c.outStore {
		smods = append(smods, smod{"out", c.outInit})
		if firstStage == 0 {
			firstStage = 1
		}
	}
	if dv.hasS {
		ks := p.StoresSegmenter()
		stageInit := uint64(0)
		for i := 0; i < firstStage; i++ {
			in := inits[smods[i].name]
			if i == 0 || in < stageInit {
				stageInit = in
			}
		}
		dv.stageIn = stageInit
		dv.ss = unitsOf(p, ks, ks.WithInitialBlock(stageInit))
		for _, sm := range smods {
			dv.ms = append(dv.ms, stageUnits{sm.name, sm.raw, unitsOf(p, ks, p.ModuleSegmenter(inits[sm.name]))})
		}
	} else {
		for _, sm := range smods {
			dv.ms = append(dv.ms, stageUnits{sm.name, sm.raw, nil})
		}
	}
	if dv.hasW && !c.outStore { // NewStages has no map stage for a store output, and no reader exists for it
		ks := p.WriteOutSegmenter()
		dv.mp = unitsOf(p, ks, ks.WithInitialBlock(inits["out"]))
		dv.rd = p.ReadOutSegmenter(inits["out"])
	}
	return dv
}

func showCursorOpaque(s string) string {
	if s == "" {
		return "-"
	}
	cur, err := bstream.CursorFromOpaque(s)
	if err != nil {
		return "undecodable"
	}
	return fmt.Sprintf("%s:%s:%s:%s", stepName(cur.Step), refOf(cur.Block), refOf(cur.LIB), refOf(cur.HeadBlock))
}

func render(c *caseT, res *result, dv *derived, rp, hp string) string {
	if res.errKind != "" {
		return "err=" + res.errKind
	}
	d, p := res.d, res.p
	undo := "-"
	if res.undo != nil {
		undo = fmt.Sprintf("%d.%d@%s", res.undo.LastValidBlock.Number, refOf(bstream.NewBlockRef(res.undo.LastValidBlock.Id, res.undo.LastValidBlock.Number)).id, showCursorOpaque(res.undo.LastValidCursor))
	}
	var sb strings.Builder
	sb.Grow(256)
	fmt.Fprintf(&sb, "start=%d handoff=%d gate=%d stop=%d cur=%s undo=%s rp=%s hp=%s | stores=%s write=%s read=%s linear=%s | ",
		d.ResolvedStartBlockNum, d.LinearHandoffBlockNum, d.LinearGateBlockNum, d.StopBlockNum, showCursorOpaque(d.ResolvedCursor), undo, rp, hp,
		showRange(p.BuildStores), showRange(p.WriteExecOut), showRange(p.ReadExecOut), showRange(p.LinearPipeline))
	if dv.bp == nil {
		sb.WriteString("bp=nil")
	} else {
		fmt.Fprintf(&sb, "bp=%d-%d", dv.bp.InitialBlock(), dv.bp.ExclusiveEndBlock())
	}
	sb.WriteString(" SS=" + showUnits(dv.ss) + " MS=")
	if len(dv.ms) == 0 {
		sb.WriteByte('-')
	}
	for i, m := range dv.ms {
		if i > 0 {
			sb.WriteByte(';')
		}
		sb.WriteString(showUnits(m.units))
	}
	sb.WriteString(" MP=" + showUnits(dv.mp) + " RD=")
	if dv.rd == nil {
		sb.WriteString("nil")
	} else {
		fmt.Fprintf(&sb, "%d-%d:%s:%s", dv.rd.FirstIndex(), dv.rd.LastIndex(), showRange(dv.rd.Range(dv.rd.FirstIndex())), showRange(dv.rd.Range(dv.rd.LastIndex())))
	}
	return sb.String()
}

// ------------------------------------------------------------------ independent classification of the return paths
// (a second reading of resolve.go, used for the evidence distribution and cross-checked against the model's own
// path tag, which is part of the compared answer line)

func classifyResolve(c *caseT) string {
	if c.cur.kind != 2 {
		return "no-cursor"
	}
	if c.cur.block.num == c.cur.lib.num {
		return "final-cursor"
	}
	if c.res.kind == 2 {
		return "no-junction"
	}
	if c.res.kind == 3 && c.res.junction.num != c.cur.block.num {
		return "forked"
	}
	return "not-forked"
}

func classifyHandoff(c *caseT, start uint64) string {
	stateRequired := false
	var lowest uint64
	req := c.stores
	if c.outStore {
		req = append(append([]uint64{}, c.stores...), c.outInit)
	}
	for _, s := range req {
		if s < start && (!stateRequired || s < lowest) {
			stateRequired, lowest = true, s
		}
	}
	if c.prod {
		if c.final < 0 {
			if c.stop == 0 {
				return "prod-nofinal-open"
			}
			return "prod-nofinal-nextboundary"
		}
		lib := uint64(c.final)
		if c.stop == 0 || lib < c.stop {
			if !stateRequired && start > lib-lib%c.seg {
				return "prod-start-above-final"
			}
			return "prod-final-boundary"
		}
		return "prod-nextboundary"
	}
	if !stateRequired {
		return "dev-nostate"
	}
	prev := start - start%c.seg
	if lowest > prev {
		return "dev-store-above-boundary"
	}
	if c.final < 0 {
		return "dev-prevboundary-nofinal"
	}
	if prev <= uint64(c.final) {
		return "dev-prevboundary"
	}
	return "dev-final-boundary"
}

// ------------------------------------------------------------------ oracle: the property's predicates on the real values

var t2ctx sync.Map // [2]uint64 -> context.Context

func tier2Request(c *caseT, d *reqctx.RequestDetails, stage int, startBlock uint64) (start, stop, segNum uint64) {
	k := [2]uint64{c.seg, c.fsb}
	var ctx context.Context
	if v, ok := t2ctx.Load(k); ok {
		ctx = v.(context.Context)
	} else {
		ctx = reqctx.WithTier2RequestParameters(bgctx, reqctx.Tier2RequestParameters{
			MeteringConfig: "x", FirstStreamableBlock: c.fsb, MergedBlockStoreURL: "x", StateStoreURL: "x", StateBundleSize: c.seg, BlockType: blockType,
		})
		t2ctx.Store(k, ctx)
	}
	req := work.NewRequest(ctx, d, stage, startBlock)
	return req.StartBlock(), req.StopBlock(), req.SegmentNumber
}

func oracle(c *caseT, res *result, dv *derived, line string, co *caseOut) {
	fail := func(class, format string, a ...any) {
		co.fails = append(co.fails, common.Failure{Class: "C12/" + class, Desc: fmt.Sprintf(format, a...), Case: line})
	}

	// (e) impossible requests are errors (evaluated on what the real resolution produced or would have produced)
	if res.errKind == "" {
		d := res.d
		if d.StopBlockNum != 0 && d.ResolvedStartBlockNum == d.StopBlockNum {
			fail("plan-for-start-eq-stop", "start = stop = %d accepted", d.StopBlockNum)
		}
		if d.ResolvedStartBlockNum < c.outInit || d.ResolvedStartBlockNum < res.g.LowestInitBlock() || d.ResolvedStartBlockNum < res.g.ModulesInitBlocks()["out"] {
			fail("plan-below-initial-block", "start %d below output initial block %d / lowest %d", d.ResolvedStartBlockNum, c.outInit, res.g.LowestInitBlock())
		}
		if c.prod && c.final < 0 && c.stop == 0 {
			fail("plan-without-final-block", "production, open-ended, final block unknown: got a plan")
		}
		if c.cur.kind == 1 {
			fail("plan-for-bad-cursor", "undecodable cursor accepted")
		}
		if c.cur.kind == 2 {
			if c.stop > 0 && c.cur.block.num > c.stop {
				fail("plan-for-cursor-after-stop", "cursor block %d after stop %d", c.cur.block.num, c.stop)
			}
			if c.cur.lib.num > c.cur.block.num {
				fail("plan-for-lib-above-block", "cursor LIB %d above block %d", c.cur.lib.num, c.cur.block.num)
			}
			if c.cur.block.num != c.cur.lib.num && c.res.kind <= 1 {
				fail("plan-for-unresolvable-cursor", "resolver failed but a plan was produced")
			}
		}
		if c.start < 0 && c.head < 0 && !(c.stop > 0 && int64(c.stop)+c.start < int64(c.fsb)) {
			fail("plan-without-head", "negative start with unknown head accepted")
		}
	}
	if res.errKind != "" {
		return
	}
	d, p := res.d, res.p
	start, handoff, stop, seg := d.ResolvedStartBlockNum, d.LinearHandoffBlockNum, d.StopBlockNum, c.seg

	// (f) cursors
	if c.cur.kind == 2 {
		cb := c.cur.block.num
		switch {
		case cb == c.cur.lib.num:
			if start != cb+1 || res.undo != nil || res.resolverCalled {
				fail("final-cursor", "cursor on final block %d: start %d undo %v", cb, start, res.undo != nil)
			}
		case c.res.kind == 3 && c.res.junction.num != cb:
			j := c.res.junction
			if res.undo == nil {
				fail("forked-cursor-no-undo", "junction %s for cursor block %d: no undo signal", j, cb)
			} else {
				if res.undo.LastValidBlock.Number != j.num || res.undo.LastValidBlock.Id != j.blockRef().ID() {
					fail("forked-cursor-last-valid", "last valid %d, junction %s", res.undo.LastValidBlock.Number, j)
				}
				cur, err := bstream.CursorFromOpaque(res.undo.LastValidCursor)
				if err != nil || cur.Block.Num() != j.num || cur.Step != bstream.StepNew || cur.LIB.Num() != c.cur.lib.num {
					fail("forked-cursor-last-valid-cursor", "undo cursor does not point at the junction")
				}
			}
			if start != j.num+1 {
				fail("forked-cursor-restart", "junction %s: restart at %d", j, start)
			}
		default:
			if res.undo != nil {
				fail("undo-without-fork", "undo signal although the cursor is on the canonical chain")
			}
			want := cb + 1
			if c.cur.step == "u" {
				want = cb
			}
			if c.cur.step != "i" && start != want { // a bare `irreversible` step restarts at 0 (modelled quirk, outside the property)
				fail("cursor-restart", "cursor %s: restart at %d, want %d", c.cur, start, want)
			}
		}
	}

	// (a) partition
	gate := handoff
	if start > gate {
		gate = start
	}
	if d.LinearGateBlockNum != gate {
		fail("gate", "gate %d, start %d, handoff %d", d.LinearGateBlockNum, start, handoff)
	}
	var wantRead *block.Range
	if c.prod && start < handoff {
		e := handoff
		if stop != 0 && stop < handoff {
			e = stop
		}
		wantRead = block.NewRange(start, e)
	}
	if !sameRange(p.ReadExecOut, wantRead) {
		fail("read-execout", "ReadExecOut %s, want %s", showRange(p.ReadExecOut), showRange(wantRead))
	}
	if d.ShouldStreamCachedOutputs() != (p.ReadExecOut != nil) {
		fail("read-execout-vs-details", "ShouldStreamCachedOutputs %v, ReadExecOut %s", d.ShouldStreamCachedOutputs(), showRange(p.ReadExecOut))
	}
	var wantLinear *block.Range
	if handoff < stop || stop == 0 {
		wantLinear = block.NewRange(handoff, stop)
	}
	if !sameRange(p.LinearPipeline, wantLinear) {
		fail("linear-pipeline", "LinearPipeline %s, want %s", showRange(p.LinearPipeline), showRange(wantLinear))
	}
	if (d.ResolvedCursor == "") != (start < handoff || c.cur.kind != 2 || c.cur.block.num == c.cur.lib.num) {
		fail("cursor-kept", "resolved cursor %q with start %d handoff %d", showCursorOpaque(d.ResolvedCursor), start, handoff)
	}
	hi := stop
	for _, v := range []uint64{start, handoff} {
		if v > hi {
			hi = v
		}
	}
	for b := uint64(0); b <= hi+2; b++ {
		n := 0
		if p.ReadExecOut != nil && p.ReadExecOut.StartBlock <= b && b < p.ReadExecOut.ExclusiveEndBlock {
			n++
		}
		if p.LinearPipeline != nil && p.LinearPipeline.StartBlock <= b && (p.LinearPipeline.ExclusiveEndBlock == 0 || b < p.LinearPipeline.ExclusiveEndBlock) && b >= d.LinearGateBlockNum {
			n++
		}
		want := 0
		if start <= b && (stop == 0 || b < stop) {
			want = 1
		}
		if n != want {
			cl := "gap"
			if n > want {
				cl = "overlap"
			}
			fail("partition-"+cl, "block %d delivered %d times, want %d (read %s linear %s gate %d)", b, n, want, showRange(p.ReadExecOut), showRange(p.LinearPipeline), d.LinearGateBlockNum)
			break
		}
	}

	// (b) stores built exactly up to the hand-off
	inits := res.g.ModulesInitBlocks()
	var wantStores *block.Range
	var reqNames []string
	for i := range c.stores {
		reqNames = append(reqNames, fmt.Sprintf("s%d", i))
	}
	if c.outStore {
		reqNames = append(reqNames, "out")
	}
	if len(reqNames) > 0 {
		low := uint64(0)
		need := false
		for i, name := range reqNames {
			in := inits[name]
			if i == 0 || in < low {
				low = in
			}
			if in < handoff {
				need = true
			}
		}
		if low != *res.g.LowestStoresInitBlock() {
			fail("lowest-store-init", "graph says %d, modules say %d", *res.g.LowestStoresInitBlock(), low)
		}
		if need {
			wantStores = block.NewRange(low, handoff)
		}
	}
	if !sameRange(p.BuildStores, wantStores) {
		fail("build-stores", "BuildStores %s, want %s (handoff %d)", showRange(p.BuildStores), showRange(wantStores), handoff)
	}

	// (c) hand-off on a boundary whenever something is back-filled up to it
	if (p.BuildStores != nil || p.WriteExecOut != nil) && handoff%seg != 0 {
		fail("handoff-off-boundary", "handoff %d, segment %d, stores %s write %s", handoff, seg, showRange(p.BuildStores), showRange(p.WriteExecOut))
	}
	if p.RequiresParallelProcessing() != (p.BuildStores != nil || p.WriteExecOut != nil) {
		fail("requires-parallel", "RequiresParallelProcessing inconsistent")
	}

	// (d) WriteExecOut made of whole segments
	if (p.WriteExecOut != nil) != (p.ReadExecOut != nil) {
		fail("write-vs-read", "write %s read %s", showRange(p.WriteExecOut), showRange(p.ReadExecOut))
	}
	if w := p.WriteExecOut; w != nil {
		low := res.g.LowestInitBlock()
		ws := start / seg * seg
		if low > ws {
			ws = low
		}
		if w.StartBlock != ws || w.ExclusiveEndBlock != handoff {
			fail("write-execout", "WriteExecOut %s, want [%d,%d)", showRange(w), ws, handoff)
		}
	}

	// (d) every unit handed to a job is a whole tier-2 segment
	checkUnits := func(what string, stage int, rawInit uint64, us []unit, from, to uint64, cover bool) {
		prev := from
		for _, u := range us {
			if u.r == nil {
				fail("nil-unit-range", "%s: unit %d has no range", what, u.idx)
				return
			}
			ts, te, sn := tier2Request(c, d, stage, u.r.StartBlock)
			if rawInit > ts {
				ts = rawInit
			}
			if int(sn) != u.idx || ts != u.r.StartBlock || te != u.r.ExclusiveEndBlock {
				fail("unit-not-whole-segment", "%s: unit %d = %s, tier2 (segment %d) computes [%d,%d)", what, u.idx, showRange(u.r), sn, ts, te)
				return
			}
			if cover && u.r.StartBlock != prev {
				fail("units-gap", "%s: unit %d starts at %d, previous ended at %d", what, u.idx, u.r.StartBlock, prev)
				return
			}
			prev = u.r.ExclusiveEndBlock
		}
		if cover && prev != to {
			fail("units-short", "%s: units end at %d, want %d", what, prev, to)
		}
	}
	if dv.hasS {
		if dv.stageIn < handoff {
			checkUnits("stores stage", 0, dv.stageIn, dv.ss, dv.stageIn, handoff, true)
		} else if len(dv.ss) != 0 {
			fail("units-for-late-store", "first store stage (initial block %d ≥ handoff %d) has units", dv.stageIn, handoff)
		}
		if !c.outStore && dv.stageIn != p.BuildStores.StartBlock {
			fail("build-stores", "BuildStores starts at %d, the store stage at %d", p.BuildStores.StartBlock, dv.stageIn)
		}
		for _, m := range dv.ms {
			in := inits[m.name]
			if in < handoff {
				checkUnits("store "+m.name, 0, m.rawInit, m.units, in, handoff, true)
			} else if len(m.units) != 0 {
				fail("units-for-late-store", "%s (initial block %d ≥ handoff %d) has units", m.name, in, handoff)
			}
		}
	}
	if dv.hasW && !c.outStore {
		oi := inits["out"]
		from := p.WriteExecOut.StartBlock
		if oi > from {
			from = oi
		}
		checkUnits("map stage", 1, c.outInit, dv.mp, from, handoff, true)
		// consumer side: the files the walker will look for
		var rus []unit
		for idx := dv.rd.FirstIndex(); idx <= dv.rd.LastIndex(); idx++ {
			rus = append(rus, unit{idx, dv.rd.Range(idx)})
		}
		checkUnits("read-out segmenter", 1, c.outInit, rus, from, handoff, true)
		if len(rus) != len(dv.mp) {
			fail("producer-consumer", "map stage has %d units, the reader expects %d files", len(dv.mp), len(rus))
		}
	}
}

func sameRange(a, b *block.Range) bool {
	if a == nil || b == nil {
		return a == nil && b == nil
	}
	return a.StartBlock == b.StartBlock && a.ExclusiveEndBlock == b.ExclusiveEndBlock
}

// ------------------------------------------------------------------ one case (evaluated in parallel, emitted in order)

type caseOut struct {
	line, ans  string
	nontrivial bool
	counts     []string
	fails      []common.Failure
}

func evalCase(c *caseT, slice string) *caseOut {
	co := &caseOut{line: c.line()}
	line := co.line
	var res *result
	var dv *derived
	ans, panicked := common.Recover(func() string {
		res = runReal(c)
		rp, hp := "", ""
		if res.errKind == "" {
			dv = derive(c, res)
			rp = classifyResolve(c)
			hp = classifyHandoff(c, res.d.ResolvedStartBlockNum)
		}
		return render(c, res, dv, rp, hp)
	})
	co.ans = ans
	if panicked {
		co.fails = append(co.fails, common.Failure{Class: "C12/panic", Desc: "the real code panicked", Case: line})
		co.counts = append(co.counts, slice+" panic")
	} else if res.errKind != "" {
		co.counts = append(co.counts, slice+" err="+res.errKind)
		oracle(c, res, nil, line, co)
	} else {
		kind := "plan"
		if res.p.BuildStores != nil {
			kind += "+stores"
		}
		if res.p.WriteExecOut != nil {
			kind += "+execout"
		}
		if res.p.LinearPipeline != nil {
			kind += "+linear"
		}
		co.counts = append(co.counts, "path "+classifyHandoff(c, res.d.ResolvedStartBlockNum), "resolve "+classifyResolve(c), slice+" ok", kind)
		if c.outStore {
			co.counts = append(co.counts, "output-is-store ok", "output-is-store "+kind)
		}
		co.nontrivial = res.p.BuildStores != nil || res.p.WriteExecOut != nil || res.undo != nil
		oracle(c, res, dv, line, co)
	}
	return co
}

type pending struct {
	c     *caseT
	slice string
}

var batch []pending

const batchSize = 1 << 15

func flush() {
	if len(batch) == 0 {
		return
	}
	outs := make([]*caseOut, len(batch))
	nw := runtime.GOMAXPROCS(0)
	var wg sync.WaitGroup
	var next int64 = -1
	for w := 0; w < nw; w++ {
		wg.Add(1)
		go func() {
			defer wg.Done()
			for {
				i := int(atomic.AddInt64(&next, 1))
				if i >= len(batch) {
					return
				}
				outs[i] = evalCase(batch[i].c, batch[i].slice)
			}
		}()
	}
	wg.Wait()
	for _, co := range outs {
		for _, k := range co.counts {
			out.Count(k)
		}
		for _, f := range co.fails {
			out.Fail(f.Class, f.Desc, f.Case)
		}
		out.Case(co.line, co.ans, co.nontrivial)
	}
	batch = batch[:0]
}

func doCase(c *caseT, slice string) {
	batch = append(batch, pending{c, slice})
	if len(batch) >= batchSize {
		flush()
	}
}

// ------------------------------------------------------------------ generators

type modCfg struct {
	stores   []uint64
	out      uint64
	outStore bool
}

// all ordered tuples of ≤3 store initial blocks and an output initial block in 0..max
func allModCfgs(max uint64) []modCfg {
	var res []modCfg
	for o := uint64(0); o <= max; o++ {
		res = append(res, modCfg{stores: nil, out: o})
		for a := uint64(0); a <= max; a++ {
			res = append(res, modCfg{stores: []uint64{a}, out: o})
			for b := uint64(0); b <= max; b++ {
				res = append(res, modCfg{stores: []uint64{a, b}, out: o})
				for cc := uint64(0); cc <= max; cc++ {
					res = append(res, modCfg{stores: []uint64{a, b, cc}, out: o})
				}
			}
		}
	}
	return res
}

// slice A: every request of the small grid for one module configuration
func smallGridRequests(m modCfg, lay int, f func(*caseT)) {
	for _, prod := range []bool{false, true} {
		for seg := uint64(2); seg <= 6; seg++ {
			for start := int64(0); start <= 16; start++ {
				for si := int64(-1); si <= 18; si++ {
					var stop uint64
					if si == -1 {
						stop = 0
					} else if si <= start {
						continue
					} else {
						stop = uint64(si)
					}
					for final := int64(-1); final <= 20; final++ {
						f(&caseT{prod: prod, seg: seg, start: start, stop: stop, final: final, head: -1, outInit: m.out, outStore: m.outStore, stores: m.stores, lay: lay})
					}
				}
			}
		}
	}
}

func randSmallRequest(rng *common.Rng, m modCfg) *caseT {
	c := &caseT{prod: rng.Bool(), seg: uint64(rng.Range(2, 6)), start: int64(rng.Range(0, 16)), final: int64(rng.Range(-1, 20)), head: -1, outInit: m.out, outStore: m.outStore, stores: m.stores, lay: rng.Intn(8)}
	if !rng.Chance(1, 4) {
		c.stop = uint64(rng.Range(int(c.start)+1, 18))
	}
	return c
}

// a value near a multiple of seg / near the given anchors, within [0,max]
func nearBoundary(rng *common.Rng, seg uint64, max int, anchors ...uint64) uint64 {
	var v int
	switch rng.Intn(4) {
	case 0:
		v = rng.Range(0, max)
	case 1, 2:
		v = int(seg)*rng.Range(0, max/int(seg)) + rng.Range(-1, 1)
	default:
		if len(anchors) == 0 {
			v = rng.Range(0, max)
		} else {
			v = int(anchors[rng.Intn(len(anchors))]) + rng.Range(-2, 2)
		}
	}
	if v < 0 {
		v = 0
	}
	if v > max {
		v = max
	}
	return uint64(v)
}

// slice B: the property's larger grid, biased to boundaries
func randLargeCase(rng *common.Rng) *caseT {
	c := &caseT{prod: rng.Bool(), seg: uint64(rng.Range(2, 12)), head: -1, lay: rng.Intn(8)}
	n := rng.Intn(4)
	for i := 0; i < n; i++ {
		c.stores = append(c.stores, nearBoundary(rng, c.seg, 40, c.stores...))
	}
	if rng.Chance(2, 3) {
		lo := uint64(40)
		for _, s := range c.stores {
			if s < lo {
				lo = s
			}
		}
		c.outInit = uint64(rng.Range(0, int(lo)))
	} else {
		c.outInit = nearBoundary(rng, c.seg, 40, c.stores...)
	}
	c.outStore = rng.Chance(1, 4)
	anchors := append([]uint64{c.outInit}, c.stores...)
	st := nearBoundary(rng, c.seg, 45, anchors...)
	if st < c.outInit && rng.Chance(4, 5) {
		st = c.outInit + uint64(rng.Intn(int(45-c.outInit)+1))
	}
	c.start = int64(st)
	if !rng.Chance(1, 4) {
		sp := nearBoundary(rng, c.seg, 50, append(anchors, st)...)
		if sp <= st {
			sp = st + 1 + uint64(rng.Intn(int(50-st)))
		}
		c.stop = sp
	}
	if rng.Chance(1, 8) {
		c.final = -1
	} else {
		c.final = int64(nearBoundary(rng, c.seg, 60, append(anchors, st, c.stop)...))
	}
	return c
}

var steps = []string{"n", "u", "i", "ni"}

// slice C: cursors × resolver answers
func randCursorCase(rng *common.Rng) *caseT {
	c := randLargeCase(rng)
	if rng.Chance(1, 2) {
		c.stores = nil
		c.outInit = uint64(rng.Intn(3))
	}
	bn := uint64(rng.Range(0, 40))
	cur := cursorT{kind: 2, step: steps[rng.Intn(4)], block: ref{bn, rng.Intn(2)}}
	switch rng.Intn(6) {
	case 0:
		cur.lib = ref{bn, cur.block.id} // on a final block
	case 1:
		cur.lib = ref{bn + uint64(rng.Range(1, 2)), 0} // LIB above the block
	default:
		d := uint64(rng.Range(1, 6))
		if d > bn {
			d = bn
		}
		cur.lib = ref{bn - d, 0}
	}
	if rng.Chance(1, 2) {
		cur.head = cur.block
	} else {
		cur.head = ref{bn + uint64(rng.Range(0, 5)), rng.Intn(2)}
		if cur.head.num == bn {
			cur.head.id = cur.block.id
		}
	}
	c.cur = cur
	head := ref{bn + uint64(rng.Range(0, 8)), rng.Intn(2)}
	switch rng.Intn(8) {
	case 0:
		c.res = resolverT{kind: 1}
	case 1:
		c.res = resolverT{kind: 2, head: head}
	case 2:
		c.res = resolverT{3, cur.block, head} // junction = cursor block: not forked
	case 3:
		c.res = resolverT{3, ref{bn, 1 - cur.block.id}, head} // same number, other id
	case 4:
		c.res = resolverT{3, ref{bn + uint64(rng.Range(1, 3)), 0}, head} // junction above the cursor
	default:
		d := uint64(rng.Range(1, 5))
		if d > bn {
			d = bn
		}
		c.res = resolverT{3, ref{bn - d, 0}, head}
	}
	switch rng.Intn(5) {
	case 0:
		c.stop = 0
	case 1:
		c.stop = bn + uint64(rng.Range(0, 2)) // at / just after the cursor
	case 2:
		if bn > 0 {
			c.stop = bn - 1 // before the cursor
		}
	default:
		c.stop = bn + uint64(rng.Range(2, 12))
	}
	if rng.Chance(1, 10) {
		c.cur = cursorT{kind: 1}
	}
	return c
}

// slice D: malformed / edge requests: negative starts, first streamable block > 0, start ≥ stop, segment size 1
func randEdgeCase(rng *common.Rng) *caseT {
	c := randLargeCase(rng)
	switch rng.Intn(5) {
	case 0: // negative start
		c.start = -int64(rng.Range(1, 30))
		if rng.Chance(3, 4) {
			c.head = int64(rng.Range(0, 50))
		}
	case 1: // first streamable block > 0; raw initial blocks 0 (= first streamable) or anything
		c.fsb = uint64(rng.Range(1, 12))
		for i := range c.stores {
			switch rng.Intn(4) {
			case 0:
				c.stores[i] = 0
			case 1:
				c.stores[i] = c.fsb + uint64(rng.Intn(4))
			}
		}
		switch rng.Intn(3) {
		case 0:
			c.outInit = 0
		case 1:
			c.outInit = c.fsb + uint64(rng.Intn(3))
		}
		if rng.Chance(1, 3) {
			c.start = int64(c.fsb) + int64(rng.Range(-2, 8))
			if c.start < 0 {
				c.start = 0
			}
		}
		if rng.Chance(1, 6) {
			c.start = -int64(rng.Range(1, 30))
			c.head = int64(rng.Range(0, 50))
		}
	case 2: // start at or above stop
		if c.start == 0 {
			c.start = 1
		}
		c.stop = uint64(rng.Range(1, int(c.start)))
	case 3: // segment size 1
		c.seg = 1
	default: // start = 0 and output at 0
		c.start = 0
		c.outInit = 0
	}
	if rng.Chance(1, 5) {
		cc := randCursorCase(rng)
		c.cur, c.res = cc.cur, cc.res
	}
	return c
}

func main() {
	// no module code is executed here; ./check selects a wasm runtime ("verif") that only the system harness registers
	os.Unsetenv("SUBSTREAMS_WASM_RUNTIME")
	o := common.ParseFlags()
	out = common.NewOut(o.Out)
	t1dir = o.Out
	defer out.Finish()
	defer flush()
	out.Rule = "non-trivial = the real code returned a plan that back-processes (BuildStores or WriteExecOut set) or an undo signal; errors and purely linear plans are counted but not as non-trivial"
	out.Notes = append(out.Notes,
		"answer lines carry the return path of resolveStartBlockNum (rp=) and computeLinearHandoffBlockNum (hp=): the model prints the path it took, the harness prints an independent classification; 'path …' / 'resolve …' counters below are that classification",
		"the start-block prelude and the start==stop rejection of Tier1Service.blocks are copied into the harness (prelude()), everything else is the real code")

	if lines := o.ReplayLines(); lines != nil {
		for _, l := range lines {
			c, ok := parseCase(l)
			if !ok {
				flush()
				out.Case(l, "bad-op", false)
				continue
			}
			if strings.HasPrefix(l, "T1 ") {
				flush()
				doTier1(c)
				continue
			}
			doCase(c, "replay")
		}
		return
	}

	rng := common.NewRng(o.Seed)
	cfgs := allModCfgs(14)

	// A1: every request of the small grid × a seeded selection of module configurations (every 0/1-store
	// configuration with a low output block is always in)
	nCfg, perCfg, nLarge, nCursor, nEdge, nTier1 := 28, 8, 200000, 120000, 120000, 2500
	if o.Thorough() {
		nCfg, perCfg, nLarge, nCursor, nEdge, nTier1 = 150, 30, 1500000, 700000, 700000, 20000
	}
	var sel []modCfg
	sel = append(sel, modCfg{stores: nil, out: 0}, modCfg{stores: []uint64{0}, out: 0}, modCfg{stores: []uint64{5}, out: 2}, modCfg{stores: []uint64{12, 3}, out: 0},
		modCfg{stores: []uint64{3, 12}, out: 0}, modCfg{stores: []uint64{9, 4, 11}, out: 1},
		// output modules of kind store: alone, below / above its ancestor stores
		modCfg{nil, 3, true}, modCfg{nil, 0, true}, modCfg{[]uint64{7}, 2, true}, modCfg{[]uint64{2, 9}, 5, true})
	r1 := rng.Fork()
	for len(sel) < nCfg {
		n := r1.Intn(4)
		m := modCfg{}
		for i := 0; i < n; i++ {
			m.stores = append(m.stores, uint64(r1.Range(0, 14)))
		}
		if r1.Chance(3, 4) {
			m.out = uint64(r1.Intn(5))
		} else {
			m.out = uint64(r1.Range(0, 14))
		}
		m.outStore = r1.Chance(1, 4)
		sel = append(sel, m)
	}
	for i, m := range sel {
		lay := i % 8
		smallGridRequests(m, lay, func(c *caseT) { doCase(c, "A1:small-grid/all-requests") })
	}
	// A2: every module configuration of the small grid (all orders) × seeded requests
	r2 := rng.Fork()
	for _, m := range cfgs {
		for k := 0; k < perCfg; k++ {
			c := randSmallRequest(r2, m)
			c.outStore = k%3 == 2
			if k < perCfg/2 && uint64(c.start) < m.out { // half of them above the output module's initial block
				c.start = int64(m.out) + int64(r2.Intn(int(17-m.out)))
				if c.stop != 0 && c.stop <= uint64(c.start) {
					c.stop = uint64(c.start) + 1 + uint64(r2.Intn(2))
				}
			}
			doCase(c, "A2:small-grid/all-module-configs")
		}
	}
	// B: larger grid
	r3 := rng.Fork()
	for i := 0; i < nLarge; i++ {
		doCase(randLargeCase(r3), "B:large-grid")
	}
	// C: cursors
	r4 := rng.Fork()
	for i := 0; i < nCursor; i++ {
		doCase(randCursorCase(r4), "C:cursors")
	}
	// D: edge / malformed
	r5 := rng.Fork()
	for i := 0; i < nEdge; i++ {
		doCase(randEdgeCase(r5), "D:edge")
	}

	flush()
	// T1: the same kinds of requests through the real Tier1Service.blocks (sequential)
	r6 := rng.Fork()
	for i := 0; i < nTier1; i++ {
		var c *caseT
		switch i % 4 {
		case 0:
			c = randSmallRequest(r6, cfgs[r6.Intn(len(cfgs))])
		case 1:
			c = randLargeCase(r6)
		case 2:
			c = randCursorCase(r6)
		default:
			c = randEdgeCase(r6)
		}
		c.outStore = false // Request.Validate admits only mapper outputs on the tier-1 endpoint (and its cached-output reader panics on a store)
		doTier1(c)
	}
	keys := make([]string, 0, len(out.Dist))
	for k := range out.Dist {
		keys = append(keys, k)
	}
	sort.Strings(keys)
	for _, k := range keys {
		fmt.Printf("%-60s %d\n", k, out.Dist[k])
	}
}

package main

// System-level half of C16 on the in-process system harness (harness/sys): the REAL tier1 service and REAL tier2 jobs,
// with a worker that injects transient faults into chosen jobs (before the call, mid-stream — the block stream of the
// job breaks halfway —, after the job wrote its files but before it reported completion) and retries like
// RemoteWorker does, or a module that fails deterministically at a block. Cases are `LIN …` lines: the model's answer
// is the linear specification (what a fault-free run delivers).

import (
	"context"
	"regexp"

	"connectrpc.com/connect"
	"fmt"
	"github.com/streamingfast/substreams/service"
	"os"
	"path/filepath"
	"strings"
	"sync"
	"time"

	"github.com/streamingfast/substreams/sqe"

	"verifharness/common"
	"verifharness/sys"
)

func sysNormTag(p []byte) []byte { return sys.NormTag(p) }

func sysNonEmpty(r *sys.Result) string {
	var p []string
	for _, m := range r.Msgs {
		if m.Kind == "data" && len(m.Payload) > 0 {
			p = append(p, fmt.Sprintf("%d=%x", m.Num, sysNormTag(m.Payload)))
		}
	}
	s := strings.Join(p, " ")
	if r.Err != nil {
		s += " ERR:" + r.ErrClass()
	}
	return s
}

type sysRes struct {
	line, ans string
	fails     [][2]string
	counts    []string
}

func sysFaultScenario(seed uint64, idx int, root string, fixed string, enc *string) []sysRes {
	rng := common.NewRng(seed*49979687 + uint64(idx))
	sc := sys.GenScenarioOr(rng, fixed)
	// everything after the world and the request is drawn from a stream of its own, so that a corpus line (which fixes
	// the world and the request) keeps its subsets, schedules and faults when the world generator changes
	rng = common.NewRng(seed*0x9e3779b97f4a7c15 + uint64(idx)*7919 + 12345)
	if enc != nil {
		*enc = sc.Encode()
	}
	w := sc.W
	dir := filepath.Join(root, fmt.Sprintf("f%d", idx))
	defer os.RemoveAll(dir)
	base := fmt.Sprintf("LIN %d %s %s %d %d", sqe.MaxRecursionDeepness, w.Encode(), sc.Output, sc.Start, sc.Stop)
	to := 15 * time.Second
	ref := w.Run(filepath.Join(dir, "ref"), sc.Req(true, 2), sys.Opts{Sched: rng.Fork(), Timeout: to})
	refAns := sysNonEmpty(ref)
	var out []sysRes
	nJobs := len(ref.Jobs)
	for k := 0; k < 3; k++ {
		// every third scenario: the REAL RemoteWorker (retry loop with its real back-off sleeps, its classification of
		// what tier 2's real toGRPCError answers) instead of the harness worker; only there can an execution be
		// interrupted by tier 2's per-block timeout ("exec")
		real := idx%3 == 0 && k < 2
		kinds := []string{"before", "mid", "after", "drain"}
		if real {
			kinds = []string{"before", "mid", "after", "drain", "exec", "exec"}
		}
		var faults []sys.Fault
		var desc []string
		execs := map[int]int{}
		for f := 0; f < rng.Range(1, 3) && nJobs > 0; f++ {
			ft := sys.Fault{Job: rng.Intn(nJobs), Where: kinds[rng.Intn(len(kinds))]}
			if ft.Where == "exec" {
				if execs[ft.Job] == 2 { // RemoteWorker gives a job up at its third execution time-out (by design)
					ft.Where = "mid"
				}
				execs[ft.Job]++
			}
			faults = append(faults, ft)
			desc = append(desc, fmt.Sprintf("%s@job%d", ft.Where, ft.Job))
		}
		if len(faults) == 0 {
			break
		}
		d := filepath.Join(dir, fmt.Sprintf("k%d", k))
		runTo := to
		if real {
			runTo = 45 * time.Second
			desc = append(desc, "realworker")
		}
		r := w.Run(d, sc.Req(true, rng.Range(1, 3)), sys.Opts{Sched: rng.Fork(), Faults: faults, Timeout: runTo, RealWorker: real})
		ans := sysNonEmpty(r)
		res := sysRes{line: base + " | faults " + strings.Join(desc, ","), ans: ans, counts: []string{"sys:transient", fmt.Sprintf("sys:retries:%d", min(r.Retries, 5))}}
		if real {
			res.counts = append(res.counts, "sys:realworker")
			for _, c := range r.Tier2Codes {
				res.counts = append(res.counts, "sys:tier2-code:"+c)
			}
		}
		if ans != refAns {
			res.fails = append(res.fails, [2]string{"C16/transient-faults-change-output", fmt.Sprintf("faults %v (retries %d): fault-free %.300s || with faults %.300s", desc, r.Retries, refAns, ans)})
		}
		// and the cache it leaves must serve a later request identically
		r2 := w.Run(d, sc.Req(true, 1), sys.Opts{Timeout: to})
		if a2 := sysNonEmpty(r2); a2 != refAns {
			res.fails = append(res.fails, [2]string{"C16/cache-after-faults-differs", fmt.Sprintf("after faults %v a second request gives %.300s, fault-free %.300s", desc, a2, refAns)})
		}
		out = append(out, res)
	}
	// ---- a module that fails deterministically at a block of the range: "the request ends with an invalid-argument error,
	// everything delivered before the error is a correct prefix that stops before the failing block" — through the REAL
	// error path: wasm panic -> BaseExecutor.wasmCall -> RunModule -> executeModules (sequential or concurrent layer) ->
	// handleStepNew -> tier 2's toGRPCError -> RemoteWorker -> scheduler -> tier 1's toConnectError
	if used := w.UsedMods(sc.Output); sc.Stop > sc.Start {
		fm := used[rng.Intn(len(used))]
		fb := sc.Start + uint64(rng.Intn(int(sc.Stop-sc.Start)))
		w2 := sys.Decode(w.Encode())
		w2.Mod(fm).FailAt = int64(fb)
		base2 := fmt.Sprintf("LIN %d %s %s %d %d", sqe.MaxRecursionDeepness, w2.Encode(), sc.Output, sc.Start, sc.Stop)
		for _, prod := range []bool{false, true} {
			d := filepath.Join(dir, fmt.Sprintf("det%v", prod))
			r := w2.Run(d, sc.Req(prod, rng.Range(1, 2)), sys.Opts{Sched: rng.Fork(), RealWorker: prod, Timeout: 20 * time.Second, NoTimeoutRetry: true})
			res := sysRes{line: fmt.Sprintf("%s | det-fail %s@%d prod=%v", base2, fm, fb, prod), counts: []string{"sys:deterministic"}}
			if prod {
				res.line += " failonly"
			}
			failedAt := ""
			if r.Err != nil {
				if mm := regexp.MustCompile(`block (\d+): module`).FindStringSubmatch(r.Err.Error()); mm != nil {
					failedAt = mm[1]
				}
			}
			switch {
			case r.Err == nil:
				res.ans = sysNonEmpty(r)
				res.counts = append(res.counts, "sys:deterministic:not-reached")
			case failedAt != "":
				code := connect.CodeOf(service.VerifToConnectError(context.Background(), r.Err))
				res.counts = append(res.counts, "sys:deterministic:code:"+code.String())
				if prod {
					res.ans = "fail@" + failedAt
				} else {
					rr := *r
					rr.Err = nil
					res.ans = sysNonEmpty(&rr) + " fail@" + failedAt
				}
				if code != connect.CodeInvalidArgument {
					res.fails = append(res.fails, [2]string{"C16/deterministic-failure-not-invalid-argument", fmt.Sprintf("module %s fails at block %d (prod=%v): the client gets %s: %.300v", fm, fb, prod, code, r.Err)})
				}
				// everything delivered is a prefix of the fault-free stream and stops before the failing block
				for _, m := range r.Msgs {
					if m.Kind == "data" && m.Num >= common.Atou(failedAt) {
						res.fails = append(res.fails, [2]string{"C16/block-delivered-at-or-after-the-failing-block", fmt.Sprintf("block %d delivered although module %s failed at %s", m.Num, fm, failedAt)})
					}
				}
			default:
				res.ans = sysNonEmpty(r)
				res.fails = append(res.fails, [2]string{"C16/deterministic-failure-not-invalid-argument", fmt.Sprintf("module %s fails at block %d (prod=%v, retries %d): the request ends with %.300v", fm, fb, prod, r.Retries, r.Err)})
			}
			out = append(out, res)
		}
	}
	return out
}

func runSysFaults(o *common.Opts) {
	n := 30
	if o.Thorough() {
		n = 600
	}
	root := filepath.Join(o.Out, "sysf")
	scens := o.Scens("SYSF", n)
	n = len(scens)
	results := make([][]sysRes, n)
	encs := make([]string, n)
	var wg sync.WaitGroup
	sem := make(chan struct{}, 8)
	for i := 0; i < n; i++ {
		wg.Add(1)
		sem <- struct{}{}
		go func(i int) {
			defer wg.Done()
			defer func() { <-sem }()
			results[i] = sysFaultScenario(scens[i].Seed, scens[i].Idx, filepath.Join(root, fmt.Sprintf("k%d", i)), scens[i].Fixed, &encs[i])
		}(i)
	}
	wg.Wait()
	for i, rs := range results {
		for _, r := range rs {
			out.Case(r.line, r.ans, true)
			for _, c := range r.counts {
				out.Count(c)
			}
			for _, f := range r.fails {
				out.Fail(f[0], f[1], fmt.Sprintf("SYSF %d %d %s %s", scens[i].Seed, scens[i].Idx, o.Tier, encs[i]))
			}
		}
	}
	os.RemoveAll(root)
}

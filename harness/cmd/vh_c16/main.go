// vh_c16: correspondence cases + property oracle for C16 (worker failures never corrupt the stream or truncate it
// silently).
//
// Real code driven:
//
//	W    work.NewRemoteWorker(...).Work(...)() — the REAL retry loop (derr.RetryContext, go-retry, real back-off
//	     sleeps) against a scripted fake of client.InternalClientFactory / SubstreamsClient / the ProcessRange
//	     client stream; the result message, the number of attempts and the tier-1 code of the job error
//	     (real service.toConnectError through the verif hook) are compared with the model.
//	R    derr.RetryContext(ctx, n, f) for small n: "n retries = n+1 attempts" of the real library code.
//	T2   service.toGRPCError (tier 2) on error values built to have a given feature vector.
//	T1   service.toConnectError (tier 1) likewise.
//	E2E  a module failure shaped like pipeline/exec/baseexec.go's, through real toGRPCError -> status error on
//	     the fake stream -> real RemoteWorker -> scheduler-style wrapping -> real toConnectError.
//
// Every retry costs the real back-off (1,2,3,5,5,… s: the sleeps live in sethvargo/go-retry and cannot be
// shortened by a hook in /repo), so the cases are run concurrently: a tier costs about the longest script.
package main

import (
	"context"
	"errors"
	"fmt"
	"io"
	"net"
	"os"
	"path/filepath"
	"sort"
	"strings"
	"sync"
	"sync/atomic"
	"time"

	"connectrpc.com/connect"
	"github.com/streamingfast/bstream/stream"
	"github.com/streamingfast/derr"
	"github.com/streamingfast/dgrpc"
	"go.uber.org/zap"
	"google.golang.org/grpc"
	"google.golang.org/grpc/codes"
	"google.golang.org/grpc/credentials/insecure"
	"google.golang.org/grpc/metadata"
	"google.golang.org/grpc/status"
	"google.golang.org/grpc/test/bufconn"

	"github.com/streamingfast/dmetering"
	"github.com/streamingfast/substreams"
	"github.com/streamingfast/substreams/client"
	"github.com/streamingfast/substreams/metrics"
	"github.com/streamingfast/substreams/orchestrator/response"
	"github.com/streamingfast/substreams/orchestrator/stage"
	"github.com/streamingfast/substreams/orchestrator/work"
	pbssinternal "github.com/streamingfast/substreams/pb/sf/substreams/intern/v2"
	pbsubstreamsrpc "github.com/streamingfast/substreams/pb/sf/substreams/rpc/v2"
	pbsubstreams "github.com/streamingfast/substreams/pb/sf/substreams/v1"
	"github.com/streamingfast/substreams/pipeline/exec"
	"github.com/streamingfast/substreams/reqctx"
	"github.com/streamingfast/substreams/service"
	"github.com/streamingfast/substreams/storage/execout"
	"github.com/streamingfast/substreams/wasm"

	"verifharness/common"
)

var out *common.Out

// common.Out is not safe for concurrent use; cases run concurrently, so failures and counters go through these.
var outMu sync.Mutex

func ofail(class, desc, line string) {
	outMu.Lock()
	defer outMu.Unlock()
	out.Fail(class, desc, line)
}
func ocount(k string) {
	outMu.Lock()
	defer outMu.Unlock()
	out.Count(k)
}

// ---------------------------------------------------------------- script grammar (mirrors lean/Driver/C16.lean)

type rpcErr struct {
	code  int // -1: not a gRPC status error
	flags int // bit0: text says "service currently overloaded"; bit1: text mentions "DeadlineExceeded"
}

type recvEv struct {
	kind byte // u f c n e
	err  rpcErr
}

type step struct {
	att       byte // F C S
	headerErr bool
	callErr   rpcErr
	evs       []recvEv
	cancelAt  string // "", f p h r x b
	cancelIdx int
	cancelErr byte // C D
}

func parseErr(s string) rpcErr {
	p := strings.Split(s, ".")
	e := rpcErr{code: -1}
	if p[0] != "x" {
		e.code = common.Atoi(p[0])
	}
	e.flags = common.Atoi(p[1])
	return e
}

func parseStep(tok string) step {
	var s step
	body := tok
	if i := strings.IndexByte(tok, '@'); i >= 0 {
		body = tok[:i]
		c := tok[i+1:]
		s.cancelAt = c[:1]
		s.cancelErr = c[len(c)-1]
		if s.cancelAt == "r" {
			s.cancelIdx = common.Atoi(c[1 : len(c)-1])
		}
	}
	switch {
	case body == "F":
		s.att = 'F'
	case strings.HasPrefix(body, "C:"):
		s.att = 'C'
		s.callErr = parseErr(body[2:])
	case strings.HasPrefix(body, "SH:"), strings.HasPrefix(body, "S:"):
		s.att = 'S'
		s.headerErr = strings.HasPrefix(body, "SH:")
		evs := body[strings.IndexByte(body, ':')+1:]
		if evs != "" {
			for _, e := range strings.Split(evs, ",") {
				ev := recvEv{kind: e[0]}
				if e[0] == 'e' {
					ev.err = parseErr(e[1:])
				}
				s.evs = append(s.evs, ev)
			}
		}
	default:
		panic("bad step " + tok)
	}
	return s
}

func (e rpcErr) String() string {
	c := "x"
	if e.code >= 0 {
		c = fmt.Sprint(e.code)
	}
	return fmt.Sprintf("%s.%d", c, e.flags)
}

func (s step) String() string {
	var b strings.Builder
	switch s.att {
	case 'F':
		b.WriteString("F")
	case 'C':
		b.WriteString("C:" + s.callErr.String())
	case 'S':
		if s.headerErr {
			b.WriteString("SH:")
		} else {
			b.WriteString("S:")
		}
		for i, e := range s.evs {
			if i > 0 {
				b.WriteByte(',')
			}
			b.WriteByte(e.kind)
			if e.kind == 'e' {
				b.WriteString(e.err.String())
			}
		}
	}
	if s.cancelAt != "" {
		b.WriteString("@" + s.cancelAt)
		if s.cancelAt == "r" {
			b.WriteString(fmt.Sprint(s.cancelIdx))
		}
		b.WriteByte(s.cancelErr)
	}
	return b.String()
}

func mkErr(e rpcErr) error {
	desc := "scripted fault"
	if e.flags&1 != 0 {
		desc = "unavailable: service currently overloaded"
	}
	if e.flags&2 != 0 {
		desc += " (upstream said DeadlineExceeded)"
	}
	if e.code < 0 {
		return errors.New("transport: " + desc)
	}
	return status.Error(codes.Code(e.code), desc)
}

// ---------------------------------------------------------------- scripted context

type scriptCtx struct {
	parent context.Context
	mu     sync.Mutex
	done   chan struct{}
	err    error
	killed atomic.Bool
}

func newScriptCtx(parent context.Context) *scriptCtx {
	return &scriptCtx{parent: parent, done: make(chan struct{})}
}
func (c *scriptCtx) Deadline() (time.Time, bool) { return time.Time{}, false }
func (c *scriptCtx) Done() <-chan struct{}       { return c.done }
func (c *scriptCtx) Err() error {
	c.mu.Lock()
	defer c.mu.Unlock()
	return c.err
}
func (c *scriptCtx) Value(k any) any { return c.parent.Value(k) }
func (c *scriptCtx) kill(k byte) {
	c.mu.Lock()
	defer c.mu.Unlock()
	if c.err != nil {
		return
	}
	if k == 'D' {
		c.err = context.DeadlineExceeded
	} else {
		c.err = context.Canceled
	}
	c.killed.Store(true)
	close(c.done)
}

// ---------------------------------------------------------------- the fake tier 2 seen by the worker

type attemptRecord struct {
	ended      string // how the attempt ended from the environment's point of view: completed|eof|error|failed|factory|call|open
	startedAt  time.Time
	ctxWasDead bool // the context was already dead when the attempt began (must never happen)
}

type fakeEnv struct {
	ctx     *scriptCtx
	script  []step
	mu      sync.Mutex
	records []*attemptRecord
	stuck   bool
	fatalUp int // RPCFailedProgressResponse messages sent upstream
}

func (f *fakeEnv) maybeKill(s *step, at string, idx int) {
	if s.cancelAt == at && (at != "r" || s.cancelIdx == idx) {
		f.ctx.kill(s.cancelErr)
	}
}

func (f *fakeEnv) factory() (pbssinternal.SubstreamsClient, func() error, []grpc.CallOption, client.Headers, error) {
	f.mu.Lock()
	i := len(f.records)
	rec := &attemptRecord{ended: "open", startedAt: time.Now(), ctxWasDead: f.ctx.killed.Load()}
	f.records = append(f.records, rec)
	f.mu.Unlock()
	if i >= len(f.script) {
		// script exhausted: end the run (the generators never produce such scripts)
		f.stuck = true
		f.ctx.kill('C')
		return nil, nil, nil, nil, errors.New("script exhausted")
	}
	s := &f.script[i]
	f.maybeKill(s, "f", 0)
	if s.att == 'F' {
		rec.ended = "factory"
		return nil, nil, nil, nil, errors.New("dial tcp: connection refused")
	}
	cl := &fakeClient{env: f, s: s, rec: rec}
	closeFunc := func() error {
		f.maybeKill(s, "x", 0)
		cl.afterAttempt()
		return nil
	}
	return cl, closeFunc, nil, nil, nil
}

type fakeClient struct {
	env *fakeEnv
	s   *step
	rec *attemptRecord
}

// afterAttempt: a cancellation "during the back-off sleep" is fired 150 ms after the attempt's last interaction
// (the first sleep lasts 1 s).
func (c *fakeClient) afterAttempt() {
	if c.s.cancelAt == "b" {
		k := c.s.cancelErr
		time.AfterFunc(150*time.Millisecond, func() { c.env.ctx.kill(k) })
	}
}

func (c *fakeClient) ProcessRange(ctx context.Context, in *pbssinternal.ProcessRangeRequest, opts ...grpc.CallOption) (grpc.ServerStreamingClient[pbssinternal.ProcessRangeResponse], error) {
	c.env.maybeKill(c.s, "p", 0)
	if c.s.att == 'C' {
		c.rec.ended = "call"
		c.afterAttempt()
		return nil, mkErr(c.s.callErr)
	}
	return &fakeStream{c: c, ctx: ctx}, nil
}

type fakeStream struct {
	c   *fakeClient
	ctx context.Context
	i   int
}

func (s *fakeStream) Recv() (*pbssinternal.ProcessRangeResponse, error) {
	i := s.i
	s.i++
	st := s.c.s
	s.c.env.maybeKill(st, "r", i)
	if i >= len(st.evs) {
		s.c.rec.ended = "eof"
		return nil, io.EOF
	}
	ev := st.evs[i]
	switch ev.kind {
	case 'u':
		return &pbssinternal.ProcessRangeResponse{Type: &pbssinternal.ProcessRangeResponse_Update{Update: &pbssinternal.Update{ProcessedBlocks: uint64(i + 1)}}}, nil
	case 'n':
		return &pbssinternal.ProcessRangeResponse{}, nil
	case 'f':
		s.c.rec.ended = "failed"
		return &pbssinternal.ProcessRangeResponse{Type: &pbssinternal.ProcessRangeResponse_Failed{Failed: &pbssinternal.Failed{Reason: "module panicked"}}}, nil
	case 'c':
		s.c.rec.ended = "completed"
		return &pbssinternal.ProcessRangeResponse{Type: &pbssinternal.ProcessRangeResponse_Completed{Completed: &pbssinternal.Completed{
			AllProcessedRanges: []*pbssinternal.BlockRange{{StartBlock: 0, EndBlock: 10}}}}}, nil
	case 'e':
		s.c.rec.ended = "error"
		return nil, mkErr(ev.err)
	}
	panic("bad event")
}
func (s *fakeStream) Header() (metadata.MD, error) {
	s.c.env.maybeKill(s.c.s, "h", 0)
	if s.c.s.headerErr {
		return nil, errors.New("header: stream reset")
	}
	return metadata.MD{}, nil
}
func (s *fakeStream) Trailer() metadata.MD     { return nil }
func (s *fakeStream) CloseSend() error         { return nil }
func (s *fakeStream) Context() context.Context { return s.ctx }
func (s *fakeStream) SendMsg(m any) error      { return nil }
func (s *fakeStream) RecvMsg(m any) error      { return errors.New("not used") }

// ---------------------------------------------------------------- running the real worker

var sharedStats = func() *metrics.Stats {
	st := metrics.NewReqStats(&metrics.Config{OutputModule: "out"}, zap.NewNop())
	st.RecordStages([]*pbsubstreamsrpc.Stage{{Modules: []string{"m"}}})
	return st
}()

type runResult struct {
	result   string
	attempts int
	tier1    string
	env      *fakeEnv
	err      error
	gaps     []time.Duration
}

func classifyJobErr(err error) string {
	text := err.Error()
	var re *work.RetryableErr
	switch {
	case errors.Is(err, context.Canceled):
		return "ctx:C"
	case errors.Is(err, context.DeadlineExceeded):
		return "ctx:D"
	case strings.Contains(text, "timed out") && strings.Contains(text, "giving up"):
		return "timeouts"
	case errors.As(err, &re):
		return "exhausted"
	case strings.HasPrefix(text, "unable to create grpc client"):
		return "factory"
	case strings.HasPrefix(text, "work failed on remote host"):
		return "remote-failed"
	}
	if st := dgrpc.AsGRPCError(err); st != nil {
		return fmt.Sprintf("status:%d", int(st.Code()))
	}
	return "status:x"
}

// tier1Code: what tier 1 makes of the job error once the scheduler quit with it (the real wrappers of
// ParallelProcessor.Run and pipeline.runParallelProcess are %w wrappers).
func tier1Code(err error) string {
	wrapped := fmt.Errorf("parallel processing run: %w", fmt.Errorf("scheduler run: %w", err))
	return showMapped1(service.VerifToConnectError(context.Background(), wrapped))
}

func showMapped1(m error) string {
	if m == nil {
		return "0/false"
	}
	var ce *connect.Error
	if errors.As(m, &ce) {
		return fmt.Sprintf("%d/true", int(ce.Code()))
	}
	return fmt.Sprintf("%d/false", int(status.Code(m)))
}

func runWork(ctx0 byte, script []step) (rr runResult) {
	base := context.Background()
	base = reqctx.WithTier2RequestParameters(base, reqctx.Tier2RequestParameters{StateBundleSize: 10, BlockType: "sf.test.Block", StateStoreURL: "memory://", MergedBlockStoreURL: "memory://"})
	base = reqctx.WithRequest(base, &reqctx.RequestDetails{OutputModule: "out"})
	base = reqctx.WithReqStats(base, sharedStats)
	sctx := newScriptCtx(base)
	env := &fakeEnv{ctx: sctx, script: script}
	if ctx0 == 'C' || ctx0 == 'D' {
		sctx.kill(ctx0)
	}
	upstream := response.New(func(resp substreams.ResponseFromAnyTier) error {
		env.mu.Lock()
		env.fatalUp++
		env.mu.Unlock()
		return nil
	})
	w := work.NewRemoteWorker(env.factory, zap.NewNop())
	msg := w.Work(sctx, stage.Unit{Segment: 0, Stage: 0}, 0, []string{"m"}, upstream)()
	rr.env = env
	rr.attempts = len(env.records)
	for i := 1; i < len(env.records); i++ {
		rr.gaps = append(rr.gaps, env.records[i].startedAt.Sub(env.records[i-1].startedAt))
	}
	switch m := msg.(type) {
	case work.MsgJobSucceeded:
		rr.result, rr.tier1 = "ok", "-"
	case work.MsgJobFailed:
		rr.err = m.Error
		rr.result = classifyJobErr(m.Error)
		rr.tier1 = tier1Code(m.Error)
	default:
		rr.result = fmt.Sprintf("unexpected-msg:%T", msg)
	}
	if env.stuck {
		rr.result, rr.tier1, rr.attempts = "stuck", "-", len(script)
	}
	return
}

func (r runResult) line() string {
	return fmt.Sprintf("%s attempts=%d tier1=%s", r.result, r.attempts, r.tier1)
}

// ---------------------------------------------------------------- error values with a given feature vector (T1/T2)

type grpcLayer struct {
	st    *status.Status
	inner error
}

func (g *grpcLayer) Error() string              { return g.st.Err().Error() + ": " + g.inner.Error() }
func (g *grpcLayer) GRPCStatus() *status.Status { return g.st }
func (g *grpcLayer) Unwrap() error              { return g.inner }

type isLayer struct {
	is    error
	inner error
}

func (l *isLayer) Error() string        { return l.is.Error() + ": " + l.inner.Error() }
func (l *isLayer) Is(target error) bool { return target == l.is }
func (l *isLayer) Unwrap() error        { return l.inner }

type feat struct {
	grpc, conn                                        int // -1 none
	canceled, deadline, storeMax, wasmDet, invalidArg bool
	cause                                             byte // - s o
}

func parseFeat(w []string) feat {
	f := feat{grpc: -1, conn: -1}
	if w[0] != "g-" {
		f.grpc = common.Atoi(w[0][1:])
	}
	if w[1] != "k-" {
		f.conn = common.Atoi(w[1][1:])
	}
	b := w[2]
	f.canceled, f.deadline, f.storeMax, f.wasmDet, f.invalidArg = b[0] == '1', b[1] == '1', b[2] == '1', b[3] == '1', b[4] == '1'
	f.cause = w[3][0]
	return f
}

func (f feat) String() string {
	g, k := "g-", "k-"
	if f.grpc >= 0 {
		g = fmt.Sprintf("g%d", f.grpc)
	}
	if f.conn >= 0 {
		k = fmt.Sprintf("k%d", f.conn)
	}
	bit := func(b bool) string {
		if b {
			return "1"
		}
		return "0"
	}
	return fmt.Sprintf("%s %s %s%s%s%s%s %c", g, k, bit(f.canceled), bit(f.deadline), bit(f.storeMax), bit(f.wasmDet), bit(f.invalidArg), f.cause)
}

// build: an error chain (single-parent wrappers, as dgrpc.AsGRPCError follows errors.Unwrap only) that has exactly
// the requested features.  variant changes the nesting order of the layers.
func (f feat) build(variant int) error {
	var err error
	switch {
	case f.invalidArg:
		err = stream.NewErrInvalidArg("start block %d is before the first streamable block", 3)
	case f.wasmDet:
		// the shape produced by pipeline/exec/baseexec.go wasmCall
		err = fmt.Errorf("block %d: module %q: general wasm execution failed: %w: %s", 7, "m", exec.ErrWasmDeterministicExec, "panic in the wasm code")
	default:
		err = errors.New("something broke")
	}
	type layer func(error) error
	var layers []layer
	if f.invalidArg && f.wasmDet {
		layers = append(layers, func(e error) error { return &isLayer{is: exec.ErrWasmDeterministicExec, inner: e} })
	}
	if f.canceled {
		layers = append(layers, func(e error) error { return &isLayer{is: context.Canceled, inner: e} })
	}
	if f.deadline {
		layers = append(layers, func(e error) error { return &isLayer{is: context.DeadlineExceeded, inner: e} })
	}
	if f.storeMax {
		layers = append(layers, func(e error) error {
			return fmt.Errorf("store %q became too big at %d, maximum size: %d: %w", "s", 12, 10, e)
		})
	}
	if f.grpc >= 0 {
		layers = append(layers, func(e error) error {
			return &grpcLayer{st: status.New(codes.Code(f.grpc), "remote status"), inner: e}
		})
	}
	if f.conn >= 0 {
		layers = append(layers, func(e error) error { return connect.NewError(connect.Code(f.conn), e) })
	}
	// rotate the order
	if n := len(layers); n > 0 {
		k := variant % n
		layers = append(layers[k:], layers[:k]...)
	}
	for _, l := range layers {
		err = l(err)
	}
	return fmt.Errorf("execute modules: %w", fmt.Errorf("running executor %q: %w", "m", err))
}

func causeCtx(c byte) context.Context {
	switch c {
	case 's':
		ctx, cancel := context.WithCancelCause(context.Background())
		cancel(service.VerifErrShuttingDown())
		return ctx
	case 'o':
		ctx, cancel := context.WithCancelCause(context.Background())
		cancel(errors.New("client went away"))
		return ctx
	}
	return context.Background()
}

func runT2(f feat, variant int) string {
	m := service.VerifToGRPCError(causeCtx(f.cause), f.build(variant))
	if m == nil {
		return "code=0 native=true"
	}
	_, isStatus := status.FromError(m)
	return fmt.Sprintf("code=%d native=%v", int(status.Code(m)), isStatus)
}

func runT1(f feat, variant int) string {
	m := service.VerifToConnectError(causeCtx(f.cause), f.build(variant))
	if m == nil {
		return "code=0 native=false client=2"
	}
	var ce *connect.Error
	if errors.As(m, &ce) {
		return fmt.Sprintf("code=%d native=true client=%d", int(ce.Code()), int(connect.CodeOf(m)))
	}
	return fmt.Sprintf("code=%d native=false client=%d", int(status.Code(m)), int(connect.CodeOf(m)))
}

// ---------------------------------------------------------------- E2E: module failure through the three tables

// e2eModule: a wasm module whose only execution ends the way the scenario says (runtime error or panic)
type e2eModule struct{ panics bool }
type e2eInst struct{}

func (e2eInst) Cleanup(context.Context) error { return nil }
func (e2eInst) Close(context.Context) error   { return nil }

func (m e2eModule) NewInstance(context.Context) (wasm.Instance, error) { return e2eInst{}, nil }
func (m e2eModule) Close(context.Context) error                        { return nil }
func (m e2eModule) ExecuteNewCall(ctx context.Context, call *wasm.Call, cached wasm.Instance, args []wasm.Argument, argValues map[string][]byte) (wasm.Instance, error) {
	if m.panics {
		call.SetPanicError("explicit panic", "lib.rs", 1, 1)
		return e2eInst{}, nil
	}
	return nil, errors.New("wasm trap: unreachable")
}

type e2eGetter struct{}

func (e2eGetter) Len() int                         { return 0 }
func (e2eGetter) Clock() *pbsubstreams.Clock       { return &pbsubstreams.Clock{Number: 7, Id: "7a"} }
func (e2eGetter) Get(string) ([]byte, bool, error) { return nil, false, execout.ErrNotFound }

func runE2E(t2 string, nf int) (string, runResult) {
	// the REAL pipeline/exec/baseexec.go wasmCall (hook exec.VerifWasmCallError), with a live, cancelled or expired
	// executor context
	panics := strings.HasPrefix(t2, "p")
	ectx := reqctx.WithReqStats(context.Background(), metrics.NewReqStats(&metrics.Config{}, zap.NewNop()))
	switch strings.TrimPrefix(t2, "p") {
	case "C":
		c, cancel := context.WithCancel(ectx)
		cancel()
		ectx = c
	case "D":
		c, cancel := context.WithDeadline(ectx, time.Unix(0, 0))
		defer cancel()
		ectx = c
	}
	modErr := exec.VerifWasmCallError(ectx, e2eModule{panics: panics}, e2eGetter{})
	// pipeline.executeModules / handleStepNew wrappers
	modErr = fmt.Errorf("execute modules: %w", fmt.Errorf("running executor %q: %w", "m", modErr))
	g := service.VerifToGRPCError(context.Background(), modErr)
	code := int(status.Code(g))
	var script []step
	for i := 0; i < nf; i++ {
		script = append(script, parseStep(fmt.Sprintf("S:e%d.0", int(codes.Unavailable))))
	}
	failing := step{att: 'S', evs: []recvEv{{kind: 'u'}, {kind: 'e', err: rpcErr{code: code}}}}
	script = append(script, failing, parseStep("S:u"))
	rr := runWork('-', script)
	return fmt.Sprintf("t2=%d %s", code, rr.line()), rr
}

// ---------------------------------------------------------------- R: derr.RetryContext at small n

func runR(n, k int, fin string) string {
	attempts := 0
	err := derr.RetryContext(context.Background(), uint64(n), func(ctx context.Context) error {
		attempts++
		if attempts <= k {
			return errors.New("transient")
		}
		if fin == "ok" {
			return nil
		}
		return derr.NewFatalError(errors.New("fatal"))
	})
	res := "ok"
	if err != nil {
		if err.Error() == "fatal" {
			res = "fatal"
		} else {
			res = "exhausted"
		}
	}
	return fmt.Sprintf("%s attempts=%d", res, attempts)
}

// ---------------------------------------------------------------- BUF: the real Tier2Service.ProcessRange behind a real gRPC server (bufconn)

type bufServer struct {
	lis *bufconn.Listener
	srv *grpc.Server
	svc *service.Tier2Service
}

var (
	bufOnce              sync.Once
	bufNormal, bufBusy   *bufServer
	bufDir               string
	registerMeteringOnce sync.Once
)

func newBufServer(opts ...service.Option) *bufServer {
	registerMeteringOnce.Do(dmetering.RegisterNull)
	svc, err := service.NewTier2(zap.NewNop(), append([]service.Option{service.WithReadinessFunc(func(bool) {})}, opts...)...)
	if err != nil {
		panic(err)
	}
	b := &bufServer{lis: bufconn.Listen(1 << 20), srv: grpc.NewServer(), svc: svc}
	pbssinternal.RegisterSubstreamsServer(b.srv, svc)
	go b.srv.Serve(b.lis)
	return b
}

func (b *bufServer) factory(count *int, maxAttempts int, ctx *scriptCtx) client.InternalClientFactory {
	return func() (pbssinternal.SubstreamsClient, func() error, []grpc.CallOption, client.Headers, error) {
		*count++
		if *count > maxAttempts {
			ctx.kill('C') // the scenario is over: stop the job
			return nil, nil, nil, nil, errors.New("scenario over")
		}
		conn, err := grpc.NewClient("passthrough:///bufnet",
			grpc.WithContextDialer(func(ctx context.Context, _ string) (net.Conn, error) { return b.lis.DialContext(ctx) }),
			grpc.WithTransportCredentials(insecure.NewCredentials()))
		if err != nil {
			return nil, nil, nil, nil, err
		}
		return pbssinternal.NewSubstreamsClient(conn), conn.Close, nil, nil, nil
	}
}

func validModules(initialBlock uint64) *pbsubstreams.Modules {
	return &pbsubstreams.Modules{
		Binaries: []*pbsubstreams.Binary{{Type: "wasm/rust-v1", Content: []byte("not really wasm")}},
		Modules: []*pbsubstreams.Module{{
			Name:             "m",
			Kind:             &pbsubstreams.Module_KindMap_{KindMap: &pbsubstreams.Module_KindMap{OutputType: "proto:sf.test.Out"}},
			BinaryIndex:      0,
			BinaryEntrypoint: "m",
			Inputs:           []*pbsubstreams.Module_Input{{Input: &pbsubstreams.Module_Input_Source_{Source: &pbsubstreams.Module_Input_Source{Type: "sf.test.Block"}}}},
			Output:           &pbsubstreams.Module_Output{Type: "proto:sf.test.Out"},
			InitialBlock:     initialBlock,
		}},
	}
}

// runBUF: real worker -> real gRPC client -> bufconn -> real gRPC server -> real Tier2Service.ProcessRange.
// The scenario fixes what tier 2 answers on EVERY attempt; after maxAttempts attempts the factory ends the job.
func runBUF(scenario string, maxAttempts int) string {
	bufOnce.Do(func() {
		bufNormal = newBufServer()
		bufBusy = newBufServer(service.WithMaxConcurrentRequests(1))
		service.VerifSetConcurrentRequests(bufBusy.svc, 1)
	})
	params := reqctx.Tier2RequestParameters{
		StateBundleSize: 10, BlockType: "sf.test.Block", FirstStreamableBlock: 20, MeteringConfig: "null://",
		StateStoreURL: "file://" + filepath.Join(bufDir, "state"), MergedBlockStoreURL: "file://" + filepath.Join(bufDir, "blocks"),
	}
	details := &reqctx.RequestDetails{OutputModule: "m", Modules: validModules(20)}
	srv := bufNormal
	switch scenario {
	case "missing-modules":
		details.Modules = nil
	case "invalid-request":
		params.MeteringConfig = "" // request.Validate(): "metering config is required in request"
	case "bad-init-block":
		details.Modules = validModules(5) // below the first streamable block: exec.NewOutputModuleGraph fails -> stream.ErrInvalidArg
	case "bad-store-url":
		params.MergedBlockStoreURL = "bogus-scheme://nowhere"
	case "overloaded":
		srv = bufBusy
	default:
		return "bad-scenario"
	}
	base := context.Background()
	base = reqctx.WithTier2RequestParameters(base, params)
	base = reqctx.WithRequest(base, details)
	base = reqctx.WithReqStats(base, sharedStats)
	sctx := newScriptCtx(base)
	count := 0
	// probe: what a plain gRPC client sees for this request (status code, "overloaded" text) - the transport
	// behaviour the model assumes
	probe := "?"
	{
		n := 0
		cl, closeFn, _, _, err := srv.factory(&n, 1, sctx)()
		if err == nil {
			st, err := cl.ProcessRange(base, work.NewRequest(base, details, 0, 20))
			for err == nil {
				_, err = st.Recv()
			}
			closeFn()
			code := "x"
			if g := dgrpc.AsGRPCError(err); g != nil {
				code = fmt.Sprint(int(g.Code()))
			}
			probe = fmt.Sprintf("%s/%v", code, strings.Contains(err.Error(), "service currently overloaded"))
		}
	}
	w := work.NewRemoteWorker(srv.factory(&count, maxAttempts, sctx), zap.NewNop())
	upstream := response.New(func(resp substreams.ResponseFromAnyTier) error { return nil })
	msg := w.Work(sctx, stage.Unit{Segment: 2, Stage: 0}, 20, []string{"m"}, upstream)()
	res, t1 := "ok", "-"
	if m, ok := msg.(work.MsgJobFailed); ok {
		res, t1 = classifyJobErr(m.Error), tier1Code(m.Error)
		if res == "factory" && count > maxAttempts {
			res = "still-retrying" // the scenario was stopped by the harness while the worker was still retrying
			t1 = "-"
		}
	}
	n := count
	if n > maxAttempts {
		n = maxAttempts
	}
	return fmt.Sprintf("seen=%s %s attempts=%d tier1=%s", probe, res, n, t1)
}

// ---------------------------------------------------------------- oracles (the property's own predicates on the real code)

var transientCodes = []int{int(codes.Unavailable), int(codes.ResourceExhausted), int(codes.Internal), int(codes.Unknown), int(codes.Canceled), int(codes.Aborted), -1}

func isTransient(e rpcErr) bool {
	for _, c := range transientCodes {
		if c == e.code {
			return e.flags&2 == 0
		}
	}
	return false
}

// kindOf: how the property sees one scripted attempt (no cancellation): transient fault, execution time-out,
// complete, deterministic (InvalidArgument), other
func kindOf(s step) string {
	if s.cancelAt != "" {
		return "cancel"
	}
	switch s.att {
	case 'F':
		return "other"
	case 'C':
		if isTransient(s.callErr) {
			return "transient"
		}
		if s.callErr.code == int(codes.DeadlineExceeded) && s.callErr.flags&1 == 0 {
			return "timeout"
		}
		return "other"
	}
	for _, e := range s.evs {
		switch e.kind {
		case 'c':
			return "complete"
		case 'f':
			return "other"
		case 'e':
			switch {
			case e.err.code == int(codes.InvalidArgument):
				return "deterministic"
			case isTransient(e.err):
				return "transient"
			case e.err.code == int(codes.DeadlineExceeded) && e.err.flags&1 == 0:
				return "timeout"
			}
			return "other"
		}
	}
	return "complete" // clean end of stream: the server handler returned nil
}

func oracleW(line string, ctx0 byte, script []step, rr runResult) {
	fail := func(class, d string) { ofail("C16/"+class, d+" — got "+rr.line(), line) }
	// cancel stops: no attempt may begin with a dead context
	anyCancel := ctx0 != '-'
	for _, r := range rr.env.records {
		if r.ctxWasDead {
			fail("attempt-after-cancel", "an attempt was started after the context died")
		}
	}
	if rr.env.ctx.killed.Load() {
		anyCancel = true
		if rr.result == "ok" {
			fail("success-after-cancel", "the context died during the job and the job is reported as succeeded")
		}
	}
	// no silent truncation: success only if the last executed attempt ended cleanly
	if rr.result == "ok" {
		last := rr.env.records[len(rr.env.records)-1].ended
		if last != "completed" && last != "eof" {
			fail("success-without-complete-attempt", "job succeeded but its last attempt ended with "+last)
		}
	}
	if anyCancel || rr.result == "stuck" {
		return
	}
	// classify the script
	nTransient, nTimeout := 0, 0
	for i, s := range script {
		k := kindOf(s)
		switch k {
		case "transient":
			nTransient++
			continue
		case "timeout":
			nTimeout++
			if nTimeout >= 3 {
				// exhaustion of the execution time-out budget: must be an error after exactly these attempts
				if rr.result == "ok" || rr.attempts != i+1 {
					fail("timeouts-not-final", fmt.Sprintf("third execution time-out at attempt %d must end the job with an error", i+1))
				}
				return
			}
			continue
		case "complete":
			// transient faults (fewer than the budgets) then a complete attempt: success, #faults+1 attempts
			if rr.result != "ok" || rr.attempts != i+1 {
				fail("transient-fault-not-recovered", fmt.Sprintf("%d transient faults and %d time-outs followed by a complete attempt", nTransient, nTimeout))
			}
			return
		case "deterministic":
			if rr.result != "status:3" || rr.attempts != i+1 {
				fail("deterministic-failure-retried-or-recoded", "an InvalidArgument stream error must end the job at once with that error")
			} else if rr.tier1 != "3/true" {
				fail("deterministic-failure-wrong-tier1-code", "tier 1 must report invalid_argument")
			}
			return
		default:
			return // other endings: covered by the correspondence only
		}
	}
}

// ---------------------------------------------------------------- case plumbing

type job struct {
	line       string
	nontrivial bool
	run        func() string
}

func runAll(jobs []job, par int) {
	res := make([]string, len(jobs))
	sem := make(chan struct{}, par)
	var wg sync.WaitGroup
	for i := range jobs {
		wg.Add(1)
		sem <- struct{}{}
		go func(i int) {
			defer wg.Done()
			defer func() { <-sem }()
			res[i], _ = common.Recover(jobs[i].run)
		}(i)
	}
	wg.Wait()
	for i, j := range jobs {
		out.Case(j.line, res[i], j.nontrivial)
		out.Count(strings.Fields(j.line)[0])
	}
}

var (
	gapMu   sync.Mutex
	gapSeen = map[int]map[int]int{} // retry index -> rounded seconds -> count
)

func noteGaps(g []time.Duration) {
	gapMu.Lock()
	defer gapMu.Unlock()
	for i, d := range g {
		if gapSeen[i] == nil {
			gapSeen[i] = map[int]int{}
		}
		gapSeen[i][int((d+500*time.Millisecond)/time.Second)]++
	}
}

func jobOf(line string) job {
	w := strings.Fields(line)
	switch w[0] {
	case "W":
		var script []step
		for _, t := range w[2:] {
			script = append(script, parseStep(t))
		}
		nontrivial := len(script) > 1 || strings.Contains(line, "@") || w[1] != "-"
		return job{line, nontrivial, func() string {
			rr := runWork(w[1][0], script)
			noteGaps(rr.gaps)
			oracleW(line, w[1][0], script, rr)
			ocount("W-result:" + strings.SplitN(rr.result, ":", 2)[0])
			ocount(fmt.Sprintf("W-attempts:%d", rr.attempts))
			return rr.line()
		}}
	case "R":
		return job{line, true, func() string { return runR(common.Atoi(w[1]), common.Atoi(w[2]), w[3]) }}
	case "T2":
		f := parseFeat(w[1:])
		return job{line, true, func() string {
			a := runT2(f, 0)
			for v := 1; v < 4; v++ {
				if b := runT2(f, v); b != a {
					ofail("C16/tier2-mapping-depends-on-wrapping-order", a+" vs "+b, line)
				}
			}
			if f.grpc < 0 && f.conn < 0 && !f.canceled && !f.deadline && f.wasmDet && a != "code=3 native=true" {
				ofail("C16/tier2-module-failure-not-invalid-argument", a, line)
			}
			return a
		}}
	case "T1":
		f := parseFeat(w[1:])
		return job{line, true, func() string {
			a := runT1(f, 0)
			for v := 1; v < 4; v++ {
				if b := runT1(f, v); b != a {
					ofail("C16/tier1-mapping-depends-on-wrapping-order", a+" vs "+b, line)
				}
			}
			if f.grpc < 0 && !f.canceled && !f.deadline && f.wasmDet && a != "code=3 native=true client=3" {
				ofail("C16/tier1-module-failure-not-invalid-argument", a, line)
			}
			if f.grpc == int(codes.InvalidArgument) && a != "code=3 native=true client=3" {
				ofail("C16/tier1-invalid-argument-status-recoded", a, line)
			}
			return a
		}}
	case "BUF":
		return job{line, true, func() string {
			a := runBUF(w[1], common.Atoi(w[2]))
			switch w[1] {
			case "bad-init-block":
				// deterministic rejection by tier 2 through toGRPCError: invalid argument end to end, one attempt
				if a != "seen=3/false status:3 attempts=1 tier1=3/true" {
					ofail("C16/deterministic-failure-not-invalid-argument-over-grpc", a, line)
				}
			case "overloaded", "bad-store-url":
				if !strings.Contains(a, " still-retrying ") {
					ofail("C16/transient-fault-not-retried-over-grpc", a, line)
				}
			}
			return a
		}}
	case "E2E":
		return job{line, true, func() string {
			a, rr := runE2E(w[1], common.Atoi(w[2]))
			if w[1] == "-" || strings.HasPrefix(w[1], "p") {
				want := fmt.Sprintf("t2=3 status:3 attempts=%d tier1=3/true", common.Atoi(w[2])+1)
				if a != want {
					ofail("C16/deterministic-failure-not-invalid-argument-end-to-end", "want "+want+" got "+a, line)
				}
			} else if rr.result != "ok" {
				ofail("C16/transient-fault-not-recovered", "tier-2 side cancellation is transient for the worker: "+a, line)
			}
			return a
		}}
	}
	return job{line, false, func() string { return "bad-op" }}
}

// ---------------------------------------------------------------- generators

func genErr(r *common.Rng, transientOnly bool) rpcErr {
	e := rpcErr{}
	if transientOnly || r.Chance(3, 4) {
		e.code = transientCodes[r.Intn(len(transientCodes))]
	} else {
		e.code = r.Range(1, 16)
	}
	switch r.Intn(8) {
	case 0:
		e.flags = 1
	case 1:
		e.flags = 2
	case 2:
		e.flags = 3
	}
	if transientOnly {
		e.flags &^= 2
	}
	return e
}

func genUpdates(r *common.Rng) []recvEv {
	var evs []recvEv
	for n := r.Intn(3); n > 0; n-- {
		k := byte('u')
		if r.Chance(1, 6) {
			k = 'n'
		}
		evs = append(evs, recvEv{kind: k})
	}
	return evs
}

func genFault(r *common.Rng, transientOnly bool) step {
	if r.Chance(1, 3) {
		return step{att: 'C', callErr: genErr(r, transientOnly)}
	}
	s := step{att: 'S', headerErr: r.Chance(1, 8), evs: genUpdates(r)}
	s.evs = append(s.evs, recvEv{kind: 'e', err: genErr(r, transientOnly)})
	return s
}

func genTerminal(r *common.Rng) step {
	switch r.Intn(10) {
	case 0, 1, 2:
		return step{att: 'S', evs: genUpdates(r)} // clean end of stream (what tier 2 does today)
	case 3, 4:
		return step{att: 'S', evs: append(genUpdates(r), recvEv{kind: 'c'})}
	case 5, 6:
		return step{att: 'S', evs: append(genUpdates(r), recvEv{kind: 'e', err: rpcErr{code: int(codes.InvalidArgument), flags: r.Intn(2) * r.Intn(4)}})}
	case 7:
		return step{att: 'S', evs: append(genUpdates(r), recvEv{kind: 'f'})}
	case 8:
		return step{att: 'F'}
	}
	s := step{att: 'S', evs: genUpdates(r)}
	s.cancelAt, s.cancelErr = "r", "CD"[r.Intn(2)]
	s.cancelIdx = r.Intn(len(s.evs) + 1)
	return s
}

func addCancel(r *common.Rng, s *step) {
	pts := []string{"f", "p", "x", "b"}
	if s.att == 'S' {
		pts = append(pts, "h", "r", "r")
	}
	s.cancelAt = pts[r.Intn(len(pts))]
	s.cancelErr = "CCD"[r.Intn(3)]
	if s.cancelAt == "r" {
		s.cancelIdx = r.Intn(len(s.evs) + 1)
	}
}

func scriptLine(ctx0 byte, script []step) string {
	p := []string{"W", string(ctx0)}
	for _, s := range script {
		p = append(p, s.String())
	}
	return strings.Join(p, " ")
}

func genScript(r *common.Rng, maxFaults int) string {
	nf := r.Intn(maxFaults + 1)
	var script []step
	pure := r.Chance(1, 2) // half of the scripts are "transient faults then a terminal attempt"
	for i := 0; i < nf; i++ {
		script = append(script, genFault(r, pure))
	}
	script = append(script, genTerminal(r))
	if !pure && r.Chance(1, 3) {
		addCancel(r, &script[r.Intn(len(script))])
	}
	ctx0 := byte('-')
	if r.Chance(1, 40) {
		ctx0 = "CD"[r.Intn(2)]
	}
	return scriptLine(ctx0, script)
}

// alphabet of steps for the exhaustive short scripts
func alphabet() []string {
	return []string{
		"S:", "S:u,c", "S:u,u", "S:n", "SH:u", "S:f", "S:u,f", "F",
		"S:e14.0", "S:u,e14.0", "S:e8.0", "S:e13.0", "S:e2.1", "S:e1.0", "S:ex.0", "S:e4.0", "S:e4.1", "S:e14.2", "S:e14.3",
		"S:e3.0", "S:u,e3.1", "C:14.0", "C:4.0", "C:3.0", "C:x.1",
		"S:u@fC", "S:u@pC", "SH:u@hC", "SH:u@hD", "S:u@hC", "S:u,u@r0C", "S:u,u@r1D", "S:u,u@r2C", "S:u,c@r1C", "S:u,c@xC",
		"S:e14.0@xC", "S:e14.0@bC", "S:e14.0@bD", "C:14.0@pC", "C:14.0@bC", "F@fC", "S:e3.0@xC", "S:u@xD", "S:e14.0@r0C",
	}
}

func main() {
	o := common.ParseFlags()
	out = common.NewOut(o.Out)
	bufDir = filepath.Join(o.Out, "buf")
	os.MkdirAll(filepath.Join(bufDir, "state"), 0o755)
	os.MkdirAll(filepath.Join(bufDir, "blocks"), 0o755)
	out.Rule = "W: real RemoteWorker.Work against scripted attempts — every script of length 1 and 2 (quick) / up to 3 (thorough) over a 44-step alphabet (every branch of work(): factory error, call error, header error, update/failed/completed/untyped message, clean end of stream, stream error of every class, cancellation at each of the 6 points, both context errors), plus seeded scripts of up to 3 (quick) / 7 (thorough) faults followed by a terminal attempt; R: derr.RetryContext for n = 0..3 retries and 0..n+1 failures; T1/T2: every feature vector (grpc code 1..16 or none x 5 flags x cause; connect code 1..16 or none for the connect switch); E2E: module failure with live/canceled/expired tier-2 context after 0..2 (quick) / 0..3 (thorough) transient faults; BUF: the real Tier2Service.ProcessRange behind a real grpc-go server on a bufconn listener, real worker dialing it, 5 rejection scenarios x 1..2 attempts.  Non-trivial = the case has a retry, a cancellation, an initial dead context or a non-empty feature vector; distinct by case line"
	defer out.Finish()

	if lines := o.ReplayLines(); lines != nil {
		var jobs []job
		for _, l := range lines {
			if f := strings.Fields(l); len(f) >= 3 && f[0] == "SYSF" {
				fixed := ""
				if len(f) >= 5 {
					fixed = f[4]
				}
				for _, r := range sysFaultScenario(common.Atou(f[1]), common.Atoi(f[2]), filepath.Join(o.Out, "sysf"), fixed, nil) {
					out.Case(r.line, r.ans, true)
					for _, fl := range r.fails {
						out.Fail(fl[0], fl[1], l)
					}
				}
				continue
			}
			jobs = append(jobs, jobOf(l))
		}
		runAll(jobs, 256)
		return
	}

	if o.Extra == "exhaust720" {
		// opt-in, about one hour of real back-off: the retries really run out after 720 (721 attempts)
		l := "W -" + strings.Repeat(" S:e14.0", 721) + " S:"
		runAll([]job{jobOf(l)}, 1)
		return
	}

	rng := common.NewRng(o.Seed)
	var lines []string
	alpha := alphabet()
	// exhaustive short scripts
	for _, a := range alpha {
		lines = append(lines, "W - "+a+" S:")
		lines = append(lines, "W C "+a, "W D "+a)
	}
	for _, a := range alpha {
		for _, b := range alpha {
			lines = append(lines, "W - "+a+" "+b+" S:u,c")
		}
	}
	if o.Thorough() {
		for _, a := range alpha {
			if !strings.Contains(a, "e") && !strings.HasPrefix(a, "C:") {
				continue // only a first step that can be retried makes a third step reachable
			}
			for _, b := range alpha {
				if !strings.Contains(b, "e") && !strings.HasPrefix(b, "C:") {
					continue
				}
				for _, c := range alpha {
					lines = append(lines, "W - "+a+" "+b+" "+c+" S:")
				}
			}
		}
	}
	// seeded structured scripts
	nRand, maxFaults := 1500, 3
	if o.Thorough() {
		nRand, maxFaults = 20000, 7
	}
	for i := 0; i < nRand; i++ {
		lines = append(lines, genScript(rng, maxFaults))
	}
	// execution time-outs: exactly the budget, around it, mixed with overload texts
	for _, s := range []string{
		"W - S:e4.0 S:e4.0 S:e4.0 S:",
		"W - S:e4.0 S:e4.0 S: S:",
		"W - S:e4.0 S:e14.2 C:4.0 S:",
		"W - S:e4.1 S:e4.1 S:e4.1 S:u,c",
		"W - S:e4.0 S:e14.0 S:e4.0 S:u,c",
		"W - S:e4.0 S:e14.0 S:e4.0 S:e14.2 S:u,c",
		"W - S:e4.3 S:e4.0 S:e4.0 S:e3.0",
	} {
		lines = append(lines, s)
	}
	// derr.RetryContext, small n
	for n := 0; n <= 3; n++ {
		for k := 0; k <= n+1; k++ {
			lines = append(lines, fmt.Sprintf("R %d %d ok", n, k), fmt.Sprintf("R %d %d fatal", n, k))
		}
	}
	// tables
	bits := func(n int) string { return fmt.Sprintf("%05b", n) }
	for g := -1; g <= 16; g++ {
		if g == 0 {
			continue
		}
		for b := 0; b < 32; b++ {
			for _, cause := range []byte{'-', 's', 'o'} {
				if cause != '-' && b&16 == 0 && !o.Thorough() {
					continue // the cause only matters for canceled errors
				}
				f := parseFeat([]string{"g-", "k-", bits(b), string(cause)})
				f.grpc = g
				lines = append(lines, "T2 "+f.String(), "T1 "+f.String())
			}
		}
	}
	for k := 1; k <= 16; k++ {
		for b := 0; b < 32; b++ {
			f := parseFeat([]string{"g-", "k-", bits(b), "-"})
			f.conn = k
			lines = append(lines, "T2 "+f.String(), "T1 "+f.String())
			if b&16 != 0 {
				f.cause = 's'
				lines = append(lines, "T2 "+f.String(), "T1 "+f.String())
			}
		}
	}
	maxNF := 2
	if o.Thorough() {
		maxNF = 3
	}
	for _, c := range []string{"-", "C", "D", "p-", "pC", "pD"} {
		for nf := 0; nf <= maxNF; nf++ {
			lines = append(lines, fmt.Sprintf("E2E %s %d", c, nf))
		}
	}

	for _, sc := range []string{"missing-modules", "invalid-request", "bad-init-block", "bad-store-url", "overloaded"} {
		for n := 1; n <= 2; n++ {
			lines = append(lines, fmt.Sprintf("BUF %s %d", sc, n))
		}
	}

	jobs := make([]job, 0, len(lines))
	for _, l := range lines {
		jobs = append(jobs, jobOf(l))
	}
	runAll(jobs, 6000)
	runSysFaults(o) // system level: transient faults injected into real tier2 jobs of real requests

	// what the back-off looked like (runtime behaviour, reported, not part of the model)
	var idx []int
	for i := range gapSeen {
		idx = append(idx, i)
	}
	sort.Ints(idx)
	var parts []string
	for _, i := range idx {
		var secs []int
		for s := range gapSeen[i] {
			secs = append(secs, s)
		}
		sort.Ints(secs)
		var p []string
		for _, s := range secs {
			p = append(p, fmt.Sprintf("%ds x%d", s, gapSeen[i][s]))
		}
		parts = append(parts, fmt.Sprintf("retry %d: %s", i+1, strings.Join(p, ", ")))
	}
	out.Notes = append(out.Notes, "observed time between the starts of consecutive attempts (rounded): "+strings.Join(parts, "; "))
}

// vh_c04: each requested block is delivered once, in order; streams resume from cursors.
// Real tier1 (+ in-process tier2) on generated graphs and requests, production and development mode; the complete
// list of data messages (empty payloads included) is compared with the Lean model of delivery, and the property's
// predicates are evaluated on the real messages: range, strict order, completeness from the hand-off on, cursor
// designates the block, nothing after an error (scripted module failure at a block), resumption from the cursor
// of delivered final blocks.
package main

import (
	"fmt"
	"os"
	"path/filepath"
	"regexp"
	"strings"
	"sync"
	"time"

	"github.com/streamingfast/bstream"
	"github.com/streamingfast/substreams/sqe"

	"verifharness/common"
	"verifharness/sys"
)

type runRes struct {
	line, ans string
	nt        bool
	fails     [][2]string
	counts    []string
}

func normTag(p []byte) []byte { return sys.NormTag(p) }

func render(msgs []sys.Msg, r *sys.Result) string {
	var p []string
	for _, m := range msgs {
		if m.Kind != "data" {
			continue
		}
		if len(m.Payload) == 0 {
			p = append(p, fmt.Sprintf("%de", m.Num))
		} else {
			p = append(p, fmt.Sprintf("%d=%x", m.Num, normTag(m.Payload)))
		}
	}
	return strings.Join(p, " ")
}

func dataMsgs(r *sys.Result) []sys.Msg {
	var out []sys.Msg
	for _, m := range r.Msgs {
		if m.Kind == "data" {
			out = append(out, m)
		}
	}
	return out
}

func session(r *sys.Result) (start, handoff uint64, ok bool) {
	for _, m := range r.Msgs {
		if m.Kind == "session" {
			return m.Start, m.Handoff, true
		}
	}
	return 0, 0, false
}

// scenarioX runs one scenario and returns, with its results, the encoding of the world and request it used: failures
// are reported as "SCEN seed idx tier <encoding>", a line that keeps its meaning when the generators change.
func scenarioX(s common.Scen, root string) ([]runRes, string) {
	var enc string
	rs := scenario(s.Seed, s.Idx, s.Tier, root, s.Fixed, &enc)
	return rs, enc
}

func scenario(seed uint64, idx int, tier string, root string, fixed string, enc *string) []runRes {
	rng := common.NewRng(seed*15485863 + uint64(idx))
	sc := sys.GenScenarioOr(rng, fixed)
	// everything after the world and the request is drawn from a stream of its own, so that a corpus line (which fixes
	// the world and the request) keeps its subsets, schedules and faults when the world generator changes
	rng = common.NewRng(seed*0x9e3779b97f4a7c15 + uint64(idx)*7919 + 12345)
	if enc != nil {
		*enc = sc.Encode()
	}
	w := sc.W
	dir := filepath.Join(root, fmt.Sprintf("sc%d", idx))
	defer os.RemoveAll(dir)
	var out []runRes
	failMode := rng.Chance(1, 4)
	var failBlock int64 = -1
	if failMode { // the output module (or one of its ancestors) fails deterministically at a block of the range
		failBlock = int64(sc.Start) + int64(rng.Intn(int(sc.Stop-sc.Start)))
		m := &w.Mods[len(w.Mods)-1]
		if rng.Bool() {
			m = &w.Mods[rng.Intn(len(w.Mods))]
		}
		m.FailAt = failBlock
	}
	wl := w.Encode()
	// one scenario in four is a final_blocks_only request: the blocks above the finality point arrive, once final, with the
	// bare IRREVERSIBLE step; every delivered block is final, so the request can be resumed from every cursor
	finalOnly := rng.Chance(1, 4)
	for _, prod := range []bool{false, true} {
		d := filepath.Join(dir, fmt.Sprint(prod))
		req := sc.Req(prod, rng.Range(1, 3))
		req.FinalOnly = finalOnly
		r := w.Run(d, req, sys.Opts{Sched: rng.Fork(), Timeout: 12 * time.Second})
		start, handoff, ok := session(r)
		msgs := dataMsgs(r)
		tag := fmt.Sprintf("prod=%v", prod)
		if finalOnly {
			tag += " final-blocks-only"
		}
		if !ok {
			out = append(out, runRes{line: fmt.Sprintf("DLV %d %s %s %d %d 0 | %s no-session", sqe.MaxRecursionDeepness, wl, sc.Output, sc.Start, sc.Stop, tag), ans: "ERR:" + r.ErrClass(), counts: []string{"no-session"}})
			continue
		}
		rr := runRes{line: fmt.Sprintf("DLV %d %s %s %d %d %d | %s", sqe.MaxRecursionDeepness, wl, sc.Output, sc.Start, sc.Stop, handoff, tag), nt: handoff > sc.Start && handoff < sc.Stop,
			counts: []string{tag, "err:" + r.ErrClass()}}
		rr.ans = render(msgs, r)
		fail := func(class, desc string) { rr.fails = append(rr.fails, [2]string{class, desc}) }
		if r.Err != nil {
			switch r.ErrClass() {
			case "module-failure":
				// the model says where the linear specification fails; the real stream must stop before that block
				fb := "?"
				if mm := regexp.MustCompile(`block (\d+): module`).FindStringSubmatch(r.Err.Error()); mm != nil {
					fb = mm[1]
				}
				if prod { // whole segments only: the delivered prefix is checked below, the correspondence compares the failing block
					rr.ans = "fail@" + fb
				} else {
					rr.ans += " fail@" + fb
				}
			case "timeout":
				fail("C04/request-never-completes", fmt.Sprintf("%s: %v (jobs %v)", tag, r.Err, r.Jobs))
			default:
				rr.ans += " ERR:" + r.ErrClass()
			}
		}
		if start != sc.Start {
			fail("C04/resolved-start", fmt.Sprintf("session says start %d, requested %d", start, sc.Start))
		}
		// ---- the property on the real messages
		last := int64(-1)
		seen := map[uint64]bool{}
		for _, m := range msgs {
			if m.Num < sc.Start || m.Num >= sc.Stop {
				fail("C04/block-out-of-range", fmt.Sprintf("%s: block %d delivered for [%d,%d)", tag, m.Num, sc.Start, sc.Stop))
			}
			if int64(m.Num) <= last {
				fail("C04/not-strictly-increasing", fmt.Sprintf("%s: block %d after %d", tag, m.Num, last))
			}
			last = int64(m.Num)
			seen[m.Num] = true
			if m.ID != sys.CanonID(m.Num) {
				fail("C04/wrong-block-id", fmt.Sprintf("block %d id %s", m.Num, m.ID))
			}
			c, err := bstream.CursorFromOpaque(m.Cursor)
			if err != nil || c.Block.Num() != m.Num || c.Block.ID() != m.ID {
				fail("C04/cursor-does-not-designate-block", fmt.Sprintf("%s: message of block %d:%s carries cursor %v", tag, m.Num, m.ID, c))
			}
		}
		if r.Err == nil {
			from := sc.Start
			if handoff > from {
				from = handoff
			}
			for b := from; b < sc.Stop && b <= sc.Head; b++ {
				if !seen[b] {
					fail("C04/block-missing-after-handoff", fmt.Sprintf("%s: block %d (>= hand-off %d) not delivered", tag, b, handoff))
					break
				}
			}
		} else if r.ErrClass() == "module-failure" {
			for _, m := range msgs {
				if int64(m.Num) >= failBlock {
					fail("C04/delivered-at-or-after-failing-block", fmt.Sprintf("%s: block %d delivered although a module fails at %d", tag, m.Num, failBlock))
				}
			}
		}
		out = append(out, rr)
		// ---- resumption from the cursor of delivered final blocks (the whole stream must be its suffix)
		if r.Err == nil && len(msgs) > 1 {
			for k := 0; k < 2; k++ {
				i := rng.Intn(len(msgs) - 1)
				m := msgs[i]
				if m.Num > sc.Final && !finalOnly { // only cursors on final blocks resolve without a fork resolver
					continue
				}
				req2 := req
				req2.Cursor = m.Cursor
				req2.Start = int64(sc.Start)
				r2 := w.Run(d, req2, sys.Opts{Sched: rng.Fork(), Timeout: 12 * time.Second})
				got := render(dataMsgs(r2), r2)
				want := render(msgs[i+1:], r)
				res := runRes{line: fmt.Sprintf("DLV %d %s %s %d %d %d | %s resumed-after=%d", sqe.MaxRecursionDeepness, wl, sc.Output, m.Num+1, sc.Stop, func() uint64 { _, h, _ := session(r2); return h }(), tag, m.Num), nt: true, counts: []string{"resume"}}
				res.ans = got
				if r2.Err != nil {
					res.ans += " ERR:" + r2.ErrClass()
				}
				if got != want || r2.Err != nil {
					res.fails = append(res.fails, [2]string{"C04/resume-differs", fmt.Sprintf("%s: resuming from the cursor of block %d gives %.300s (err %v), the original stream continued with %.300s", tag, m.Num, got, r2.Err, want)})
				}
				out = append(out, res)
			}
		}
	}
	return out
}

func main() {
	o := common.ParseFlags()
	out := common.NewOut(o.Out)
	defer out.Finish()
	out.Rule = "scenarios as in C01 (seeded graphs, start/stop/finality/segment size, workers, completion order), each in development and in production mode; in 1/4 of them a module fails deterministically at a block of the range; for each completed stream two resumed requests from the cursor of a delivered final block; non-trivial = hand-off strictly inside the range, or a resumed request; distinct by case line"
	root := filepath.Join(o.Out, "sys")
	emit := func(rs []runRes, replay string) {
		for _, r := range rs {
			out.Case(r.line, r.ans, r.nt)
			for _, c := range r.counts {
				out.Count(c)
			}
			for _, fl := range r.fails {
				out.Fail(fl[0], fl[1], replay)
			}
		}
	}
	if lines := o.ReplayLines(); lines != nil {
		for _, l := range lines {
			if psc, ok := common.ParseScen("SCEN", l); ok {
				emit(scenario(psc.Seed, psc.Idx, psc.Tier, root, psc.Fixed, nil), l)
			}
		}
		return
	}
	n := 200
	if o.Thorough() {
		n = 2500
	}
	// past failures first (checks/../corpus/<id>.txt: witnesses of repaired defects and of seeded changes), then n generated scenarios
	scens := o.Scens("SCEN", n)
	n = len(scens)
	results := make([][]runRes, n)
	encs := make([]string, n)
	var wg sync.WaitGroup
	sem := make(chan struct{}, 12)
	for i := 0; i < n; i++ {
		wg.Add(1)
		sem <- struct{}{}
		go func(i int) {
			defer wg.Done()
			defer func() { <-sem }()
			results[i], encs[i] = scenarioX(scens[i], filepath.Join(root, fmt.Sprintf("k%d", i)))
		}(i)
	}
	wg.Wait()
	for i, rs := range results {
		emit(rs, common.Scen{Seed: scens[i].Seed, Idx: scens[i].Idx, Tier: scens[i].Tier, Fixed: encs[i]}.String())
	}
}

// vh_c09: replaying a store's cached operation log (ReadOps -> proto bytes -> ApplyOps) on a twin store in
// the same pre-block state reproduces deltas and state; full and partial stores, chains of blocks.
package main

import (
	"fmt"
	"path/filepath"

	"verifharness/common"
	"verifharness/storeh"
)

func main() {
	o := common.ParseFlags()
	out := common.NewOut(o.Out)
	defer out.Finish()
	out.Rule = "histories: every host-admitted (policy,value type); chains of 1-5 blocks of 0-12 host calls (arbitrary ordinals, delete_prefix), each block executed on the store and its recorded log (ReadOps, real protobuf bytes) replayed with ApplyOps on a twin that executed/replayed the same earlier blocks; full and partial stores; for partial stores the merged result of original and replayed twin is compared too; non-trivial = a key written twice / deleted after written / shared ordinal; distinct by history line"
	ctx := storeh.NewCtx()
	dir := filepath.Join(o.Out, "dstore")
	run := func(line string, nt bool) {
		ans, _ := common.Recover(func() string {
			return storeh.Run(ctx, dir, line, func(class, desc string) { out.Fail(class, desc, line) })
		})
		out.Case(line, ans, nt)
	}
	if lines := o.ReplayLines(); lines != nil {
		for _, l := range lines {
			run(l, true)
		}
		return
	}
	rng := common.NewRng(o.Seed)
	n := 4000
	if o.Thorough() {
		n = 100000
	}
	for i := 0; i < n; i++ {
		c := storeh.Combos[i%len(storeh.Combos)]
		g := &storeh.Gen{R: rng, C: c, Odd: 5}
		maxOrd := rng.Range(0, 5)
		store := "F"
		if rng.Chance(2, 5) {
			store = "P"
		}
		var steps []string
		var blocks [][]storeh.Op
		for b := 0; b < rng.Range(1, 5); b++ {
			ops := g.Block(12, maxOrd)
			blocks = append(blocks, ops)
			steps = append(steps, fmt.Sprintf("blk %s %s", store, storeh.ShowOps(ops)))
			if rng.Chance(5, 6) {
				steps = append(steps, "rp "+store)
			}
			steps = append(steps, "st "+store)
		}
		if store == "P" { // the replayed twin must also merge like the original (deleted prefixes!)
			steps = append([]string{fmt.Sprintf("blk F %s", storeh.ShowOps(g.Block(8, maxOrd)))}, steps...)
			steps = append(steps, "mrg F", "st F")
		}
		out.Count("combo:" + c.String())
		out.Count("store:" + store)
		run(storeh.Join(g.Header(storeh.NoLimits), steps), storeh.NonTrivialBlocks(blocks))
	}
}

package main

import (
	"fmt"
	"os"
	"time"

	"verifharness/common"
	"verifharness/sys"
)

func main() {
	w := sys.Decode(os.Args[1])
	var start, stop, seg, final uint64
	fmt.Sscan(os.Args[3], &start)
	fmt.Sscan(os.Args[4], &stop)
	fmt.Sscan(os.Args[5], &seg)
	fmt.Sscan(os.Args[6], &final)
	dir, _ := os.MkdirTemp("/verif/.work", "smoke")
	defer os.RemoveAll(dir)
	r := w.Run(dir, sys.Req{Prod: true, Start: int64(start), Stop: stop, Final: final, Head: final + 5, Seg: seg, Workers: 2, Output: os.Args[2]}, sys.Opts{Sched: common.NewRng(1), Timeout: 8 * time.Second})
	fmt.Println("err", r.Err, "jobs", r.Jobs)
	for _, m := range r.Msgs {
		if m.Kind == "session" {
			fmt.Println("session start", m.Start, "handoff", m.Handoff)
		}
	}
	fmt.Println(r.Stream(false))
	fmt.Println(sys.Files(dir))
}

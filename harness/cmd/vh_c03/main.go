// vh_c03: reorgs — undo restores every store; clients converge on the canonical chain.
// Generated fork trees (arrival order, finality progress) are fed through the REAL bstream forkable (configured like
// the production hub) into the REAL pipeline (development mode, stores back-filled by real tier2 jobs); every step the
// resolver emits is recorded together with the content and SizeBytes of every store after it and the messages sent.
// The Lean model replays the recorded steps (correspondence); the oracle checks on the real code: the steps obey the
// resolver contract, after every step the stores equal a linear execution of the current chain, the client view
// converges to the canonical chain, every undo signal designates a held block, no two blocks at one height without
// an undo in between.
package main

import (
	"fmt"
	"os"
	"path/filepath"
	"strings"
	"sync"
	"time"

	"github.com/streamingfast/substreams/pipeline"
	"github.com/streamingfast/substreams/sqe"

	"verifharness/common"
	"verifharness/sys"
)

type runRes struct {
	line, ans string
	nt        bool
	fails     [][2]string
	counts    []string
}

func normTag(p []byte) []byte { return sys.NormTag(p) }

func hexv(b []byte) string {
	if len(b) == 0 {
		return "-"
	}
	return fmt.Sprintf("%x", b)
}

// scenarioX runs one scenario and returns, with its results, the encoding of the world and request it used: failures
// are reported as "SCEN seed idx tier <encoding>", a line that keeps its meaning when the generators change.
func scenarioX(s common.Scen, root string) ([]runRes, string) {
	var enc string
	rs := scenario(s.Seed, s.Idx, s.Tier, root, s.Fixed, &enc)
	return rs, enc
}

func scenario(seed uint64, idx int, tier string, root string, fixed string, enc *string) []runRes {
	rng := common.NewRng(seed*32452843 + uint64(idx))
	var sc *sys.Scenario
	for { // worlds with at least one store needed by the output
		sc = sys.GenScenarioOr(rng, fixed)
		if sc.HasStore() || fixed != "" {
			break
		}
	}
	// everything after the world and the request is drawn from a stream of its own (see vh_c01)
	rng = common.NewRng(seed*0x9e3779b97f4a7c15 + uint64(idx)*7919 + 12345)
	if enc != nil {
		*enc = sc.Encode()
	}
	w := sc.W
	dir := filepath.Join(root, fmt.Sprintf("sc%d", idx))
	defer os.RemoveAll(dir)
	// where does the linear part begin? (a dry run tells the hand-off) — half of the time the fork region starts
	// between the hand-off and the start block, so that reorgs happen before the first block the client asked for
	base := sc.Start + uint64(rng.Range(0, 2))
	if rng.Bool() {
		dry := w.Run(dir+"-dry", sys.Req{Prod: false, Start: int64(sc.Start), Stop: sc.Start + 1, Final: sc.Start, Head: sc.Start + 1, Seg: sc.Seg, Workers: 1, Output: sc.Output}, sys.Opts{Timeout: 12 * time.Second})
		os.RemoveAll(dir + "-dry")
		for _, m := range dry.Msgs {
			if m.Kind == "session" && m.Handoff < sc.Start {
				base = m.Handoff + uint64(rng.Intn(int(sc.Start-m.Handoff)+1))
			}
		}
	}
	arrivals := sys.GenForkArrivals(rng, base, rng.Range(4, 18), 7)
	span := uint64(12)
	// one scenario in twelve: finality stalls and two long branches overtake each other again and again — hundreds of
	// block executions between two final blocks, each block applied and undone many times
	long := rng.Chance(1, 12)
	if long {
		depth, rounds := rng.Range(25, 40), rng.Range(7, 9)
		arrivals = sys.GenPingPongArrivals(rng, base, depth, rounds)
		span = uint64(depth + 2*rounds + 10) // the stop block stays above every branch
	}
	var storeOrder []string
	for _, m := range w.Mods {
		if m.Kind == "store" {
			storeOrder = append(storeOrder, m.Name)
		}
	}
	var rec []sys.RecStep
	var pipe *pipeline.Pipeline
	req := sys.Req{Prod: false, Start: int64(sc.Start), Stop: base + span, Final: base, Head: base + span - 4, Seg: sc.Seg, Workers: 1, Output: sc.Output}
	r := w.Run(dir, req, sys.Opts{Timeout: 30 * time.Second, OnPipe: func(p *pipeline.Pipeline) { pipe = p },
		Feed: sys.ForkFeed(arrivals, base, storeOrder, &rec, &pipe)})
	var handoff uint64
	for _, m := range r.Msgs {
		if m.Kind == "session" {
			handoff = m.Handoff
		}
	}
	gate := sc.Start
	if handoff > gate {
		gate = handoff
	}
	var steps, stores []string
	for _, s := range rec {
		steps = append(steps, s.Encode())
		if s.Err != "" {
			stores = append(stores, "end")
		} else {
			stores = append(stores, s.Stores)
		}
	}
	var msgs []string
	for _, m := range r.Msgs {
		switch m.Kind {
		case "data":
			pl := "-"
			if len(m.Payload) > 0 {
				pl = fmt.Sprintf("%x", normTag(m.Payload))
			}
			msgs = append(msgs, fmt.Sprintf("%d:%s=%s", m.Num, hexv([]byte(m.ID)), pl))
		case "undo":
			msgs = append(msgs, fmt.Sprintf("U%d:%s", m.Num, hexv([]byte(m.ID))))
		}
	}
	rr := runRes{line: fmt.Sprintf("FRK %d %s %s %d %d %d %s", sqe.MaxRecursionDeepness, w.Encode(), sc.Output, handoff, gate, req.Stop, strings.Join(steps, " ")),
		ans: strings.Join(stores, " | ") + " || " + strings.Join(msgs, " "), counts: []string{"err:" + r.ErrClass(), fmt.Sprintf("long-ping-pong:%v", long), fmt.Sprintf("steps:%d", min(len(rec)/50*50, 600))}}
	fail := func(class, desc string) { rr.fails = append(rr.fails, [2]string{class, desc}) }
	if r.Err != nil {
		fail("C03/request-fails", fmt.Sprintf("%v", r.Err))
	}
	// ---- resolver contract + canonical chain (stack of applied, not yet undone blocks)
	type blk struct {
		num uint64
		id  string
	}
	var stack []blk
	nUndo := 0
	parentOf := map[string]string{}
	for _, a := range arrivals {
		parentOf[a.ID] = a.Parent
	}
	for n := uint64(0); n < base; n++ {
		if n > 0 {
			parentOf[sys.CanonID(n)] = sys.CanonID(n - 1)
		}
	}
	for i, s := range rec {
		switch s.Kind {
		case "new", "newfinal":
			if len(stack) > 0 && parentOf[s.ID] != stack[len(stack)-1].id {
				fail("C03/resolver-contract", fmt.Sprintf("step %d: new %s does not extend %s", i, s.ID, stack[len(stack)-1].id))
			}
			stack = append(stack, blk{s.Num, s.ID})
		case "undo":
			nUndo++
			if len(stack) == 0 || stack[len(stack)-1].id != s.ID {
				fail("C03/resolver-contract", fmt.Sprintf("step %d: undo %s is not the head", i, s.ID))
			} else {
				stack = stack[:len(stack)-1]
			}
		}
		// stores after the step == linear execution of the current chain: all branches run the same scripts per
		// height, so the reference is the model-independent linear real run up to the head's height (computed below)
	}
	rr.nt = nUndo > 0
	rr.counts = append(rr.counts, fmt.Sprintf("undos:%d", min(nUndo, 9)), fmt.Sprintf("steps:%d", min(len(rec)/5*5, 40)))
	// ---- the client of the property
	type held struct {
		num uint64
		id  string
		pl  string
	}
	var client []held
	lastWasData := map[uint64]bool{}
	for _, m := range r.Msgs {
		switch m.Kind {
		case "data":
			if lastWasData[m.Num] {
				fail("C03/two-blocks-at-one-height-without-undo", fmt.Sprintf("block %d:%s delivered while the client still holds another block at that height", m.Num, m.ID))
			}
			for _, h := range client {
				if h.num >= m.Num {
					fail("C03/two-blocks-at-one-height-without-undo", fmt.Sprintf("block %d:%s delivered while the client holds %d:%s", m.Num, m.ID, h.num, h.id))
					break
				}
			}
			client = append(client, held{m.Num, m.ID, string(m.Payload)})
		case "undo":
			// last valid block must be held, or be the one before the first held block
			ok := false
			for _, h := range client {
				if h.num == m.Num && h.id == m.ID {
					ok = true
				}
			}
			// "(or the one before its first)": a reorg may reach deeper than the client's first block; the junction
			// then lies before it (it cannot be named more precisely: the blocks in between are undone too)
			if len(client) == 0 || (!ok && m.Num < client[0].num) {
				ok = true
			}
			if !ok {
				fail("C03/undo-signal-designates-unknown-block", fmt.Sprintf("undo signal last_valid=%d:%s, client holds %v", m.Num, m.ID, client))
			}
			var keep []held
			for _, h := range client {
				if h.num <= m.Num {
					keep = append(keep, h)
				}
			}
			client = keep
		}
	}
	// canonical chain from the gate on
	var canon []blk
	for _, b := range stack {
		if b.num >= gate {
			canon = append(canon, b)
		}
	}
	if r.Err == nil {
		same := len(canon) == len(client)
		for i := 0; same && i < len(canon); i++ {
			same = canon[i].id == client[i].id
		}
		if !same {
			fail("C03/client-does-not-converge", fmt.Sprintf("canonical chain %v, client holds %v", canon, client))
		}
	}
	out := []runRes{rr}
	// ---- stores == linear execution of the canonical chain (real code, fresh run, no forks), incl. SizeBytes
	if r.Err == nil && len(stack) > 0 && len(rec) > 0 {
		top := stack[len(stack)-1].num
		var pipe2 *pipeline.Pipeline
		req2 := req
		req2.Head = top
		req2.Final = base
		// the canonical chain alone, with the very blocks (ids, hence contents) it is made of, through the same resolver
		byID := map[string]sys.FBlock{}
		for _, a := range arrivals {
			byID[a.ID] = a
		}
		var lin []sys.FBlock
		for _, b := range stack {
			if fb, ok := byID[b.id]; ok {
				lin = append(lin, fb)
			}
		}
		var rec2 []sys.RecStep
		w.Run(dir+"-lin", req2, sys.Opts{Timeout: 12 * time.Second, OnPipe: func(p *pipeline.Pipeline) { pipe2 = p },
			Feed: sys.ForkFeed(lin, base, storeOrder, &rec2, &pipe2)})
		for _, s2 := range rec2 {
			if s2.Kind == "undo" {
				panic("harness: the linear replay of the canonical chain contains an undo")
			}
		}
		defer os.RemoveAll(dir + "-lin")
		if pipe2 != nil {
			want := sys.RenderStores(pipe2, storeOrder)
			got := rec[len(rec)-1].Stores
			if want != got {
				out[0].fails = append(out[0].fails, [2]string{"C03/stores-differ-from-canonical-execution", fmt.Sprintf("after the reorgs: %.400s || linear execution of the canonical chain up to %d: %.400s", got, top, want)})
			}
		}
	}
	return out
}

func main() {
	o := common.ParseFlags()
	out := common.NewOut(o.Out)
	defer out.Finish()
	out.Rule = "scenarios: seeded graphs with stores (as C01) in development mode; fork trees over 7 heights above the start block: 4-18 arrivals that extend a tip or fork off any known block (junction always known to the resolver), blocks may advance finality by 2-3 ancestors; fed through the real forkable into the real pipeline; non-trivial = at least one undo step; distinct by case line"
	root := filepath.Join(o.Out, "sys")
	emit := func(rs []runRes, replay string) {
		for _, r := range rs {
			out.Case(r.line, r.ans, r.nt)
			for _, c := range r.counts {
				out.Count(c)
			}
			for _, fl := range r.fails {
				out.Fail(fl[0], fl[1], replay)
			}
		}
	}
	if lines := o.ReplayLines(); lines != nil {
		for _, l := range lines {
			if psc, ok := common.ParseScen("SCEN", l); ok {
				emit(scenario(psc.Seed, psc.Idx, psc.Tier, root, psc.Fixed, nil), l)
			}
		}
		return
	}
	n := 150
	if o.Thorough() {
		n = 5000
	}
	// past failures first (checks/../corpus/<id>.txt: witnesses of repaired defects and of seeded changes), then n generated scenarios
	scens := o.Scens("SCEN", n)
	n = len(scens)
	results := make([][]runRes, n)
	encs := make([]string, n)
	var wg sync.WaitGroup
	sem := make(chan struct{}, 12)
	for i := 0; i < n; i++ {
		wg.Add(1)
		sem <- struct{}{}
		go func(i int) {
			defer wg.Done()
			defer func() { <-sem }()
			results[i], encs[i] = scenarioX(scens[i], filepath.Join(root, fmt.Sprintf("k%d", i)))
		}(i)
	}
	wg.Wait()
	for i, rs := range results {
		emit(rs, common.Scen{Seed: scens[i].Seed, Idx: scens[i].Idx, Tier: scens[i].Tier, Fixed: encs[i]}.String())
	}
}

// vh_c06: correspondence cases + property oracle for C06 (a module's cache identity changes exactly when its
// computation can change).
//
// Real code driven: manifest.NewModuleGraph, (*ModuleHashes).HashModule, exec.NewOutputModuleGraph(...).ModuleHashes().Get,
// manifest.ValidateModules, prefixModules + reindexAndMergePackage (through the verif hooks), the real manifest
// reader (child .spkg imported by a parent yaml written into a scratch directory), crypto/sha1, and the three
// storage Config constructors that turn the hash into a directory name.
//
// Line protocol: see lean/Driver/C06.lean.
package main

import (
	"crypto/sha1"
	"fmt"
	"os"
	"path/filepath"
	"sort"
	"strings"

	"github.com/streamingfast/dstore"
	"github.com/streamingfast/substreams/manifest"
	pbsubstreams "github.com/streamingfast/substreams/pb/sf/substreams/v1"
	"github.com/streamingfast/substreams/pipeline/exec"
	"github.com/streamingfast/substreams/storage/execout"
	"github.com/streamingfast/substreams/storage/index"
	"github.com/streamingfast/substreams/storage/store"
	"go.uber.org/zap"
	"google.golang.org/protobuf/proto"

	"verifharness/common"
)

var out *common.Out
var refusedNotes int
var failsPerClass = map[string]int{}

// fail records at most 4 failures per witness class (common.Out keeps 50 in total) and counts the rest
func fail(class, desc, caseLine string) {
	failsPerClass[class]++
	if failsPerClass[class] <= 4 {
		out.Fail(class, desc, caseLine)
	} else {
		out.Count("oracle-fail:" + class)
	}
}

type G = *pbsubstreams.Modules

// ---------------------------------------------------------------- graph <-> tokens

func hx(s string) string { return common.Hex([]byte(s)) }

func encKind(m *pbsubstreams.Module) string {
	switch k := m.Kind.(type) {
	case *pbsubstreams.Module_KindMap_:
		return "m:" + hx(k.KindMap.OutputType)
	case *pbsubstreams.Module_KindStore_:
		return fmt.Sprintf("s:%d:%s", int32(k.KindStore.UpdatePolicy), hx(k.KindStore.ValueType))
	case *pbsubstreams.Module_KindBlockIndex_:
		return "i:" + hx(k.KindBlockIndex.OutputType)
	}
	return "u"
}

func encInput(in *pbsubstreams.Module_Input) string {
	switch i := in.Input.(type) {
	case *pbsubstreams.Module_Input_Source_:
		return "S:" + hx(i.Source.Type)
	case *pbsubstreams.Module_Input_Params_:
		return "P:" + hx(i.Params.Value)
	case *pbsubstreams.Module_Input_Map_:
		return "M:" + hx(i.Map.ModuleName)
	case *pbsubstreams.Module_Input_Store_:
		return fmt.Sprintf("T:%s:%d", hx(i.Store.ModuleName), int32(i.Store.Mode))
	}
	return "U"
}

func encFilter(m *pbsubstreams.Module) string {
	f := m.BlockFilter
	if f == nil {
		return "-"
	}
	switch q := f.Query.(type) {
	case *pbsubstreams.Module_BlockFilter_QueryString:
		return "Q:" + hx(f.Module) + ":" + hx(q.QueryString)
	case *pbsubstreams.Module_BlockFilter_QueryFromParams:
		return "F:" + hx(f.Module)
	}
	return "N:" + hx(f.Module)
}

func encGraph(g G) string {
	var t []string
	t = append(t, "B", fmt.Sprint(len(g.Binaries)))
	for _, b := range g.Binaries {
		t = append(t, hx(b.Type), common.Hex(b.Content))
	}
	t = append(t, "M", fmt.Sprint(len(g.Modules)))
	for _, m := range g.Modules {
		t = append(t, hx(m.Name), fmt.Sprint(m.InitialBlock), encKind(m), fmt.Sprint(m.BinaryIndex), hx(m.BinaryEntrypoint), fmt.Sprint(len(m.Inputs)))
		for _, in := range m.Inputs {
			t = append(t, encInput(in))
		}
		t = append(t, encFilter(m))
	}
	return strings.Join(t, " ")
}

func us(s string) string { return string(common.Unhex(s)) }

func decKind(m *pbsubstreams.Module, s string) {
	p := strings.Split(s, ":")
	switch p[0] {
	case "m":
		m.Kind = &pbsubstreams.Module_KindMap_{KindMap: &pbsubstreams.Module_KindMap{OutputType: us(p[1])}}
	case "s":
		m.Kind = &pbsubstreams.Module_KindStore_{KindStore: &pbsubstreams.Module_KindStore{UpdatePolicy: pbsubstreams.Module_KindStore_UpdatePolicy(common.Atoi(p[1])), ValueType: us(p[2])}}
	case "i":
		m.Kind = &pbsubstreams.Module_KindBlockIndex_{KindBlockIndex: &pbsubstreams.Module_KindBlockIndex{OutputType: us(p[1])}}
	}
}

func decInput(s string) *pbsubstreams.Module_Input {
	p := strings.Split(s, ":")
	switch p[0] {
	case "S":
		return srcIn(us(p[1]))
	case "P":
		return parIn(us(p[1]))
	case "M":
		return mapIn(us(p[1]))
	case "T":
		return storeIn(us(p[1]), pbsubstreams.Module_Input_Store_Mode(common.Atoi(p[2])))
	}
	return &pbsubstreams.Module_Input{}
}

func decFilter(m *pbsubstreams.Module, s string) {
	p := strings.Split(s, ":")
	switch p[0] {
	case "Q":
		m.BlockFilter = &pbsubstreams.Module_BlockFilter{Module: us(p[1]), Query: &pbsubstreams.Module_BlockFilter_QueryString{QueryString: us(p[2])}}
	case "F":
		m.BlockFilter = &pbsubstreams.Module_BlockFilter{Module: us(p[1]), Query: &pbsubstreams.Module_BlockFilter_QueryFromParams{QueryFromParams: &pbsubstreams.Module_QueryFromParams{}}}
	case "N":
		m.BlockFilter = &pbsubstreams.Module_BlockFilter{Module: us(p[1])}
	}
}

// decGraph parses one graph from the token stream and returns the remaining tokens.
func decGraph(t []string) (G, []string) {
	g := &pbsubstreams.Modules{}
	if len(t) < 2 || t[0] != "B" {
		panic("bad graph tokens")
	}
	nb := common.Atoi(t[1])
	t = t[2:]
	for i := 0; i < nb; i++ {
		g.Binaries = append(g.Binaries, &pbsubstreams.Binary{Type: us(t[0]), Content: common.Unhex(t[1])})
		t = t[2:]
	}
	if t[0] != "M" {
		panic("bad graph tokens")
	}
	nm := common.Atoi(t[1])
	t = t[2:]
	for i := 0; i < nm; i++ {
		m := &pbsubstreams.Module{Name: us(t[0]), InitialBlock: common.Atou(t[1]), BinaryIndex: uint32(common.Atou(t[3])), BinaryEntrypoint: us(t[4])}
		decKind(m, t[2])
		nin := common.Atoi(t[5])
		t = t[6:]
		for j := 0; j < nin; j++ {
			m.Inputs = append(m.Inputs, decInput(t[j]))
		}
		t = t[nin:]
		decFilter(m, t[0])
		t = t[1:]
		g.Modules = append(g.Modules, m)
	}
	return g, t
}

func srcIn(t string) *pbsubstreams.Module_Input {
	return &pbsubstreams.Module_Input{Input: &pbsubstreams.Module_Input_Source_{Source: &pbsubstreams.Module_Input_Source{Type: t}}}
}
func parIn(v string) *pbsubstreams.Module_Input {
	return &pbsubstreams.Module_Input{Input: &pbsubstreams.Module_Input_Params_{Params: &pbsubstreams.Module_Input_Params{Value: v}}}
}
func mapIn(m string) *pbsubstreams.Module_Input {
	return &pbsubstreams.Module_Input{Input: &pbsubstreams.Module_Input_Map_{Map: &pbsubstreams.Module_Input_Map{ModuleName: m}}}
}
func storeIn(m string, mode pbsubstreams.Module_Input_Store_Mode) *pbsubstreams.Module_Input {
	return &pbsubstreams.Module_Input{Input: &pbsubstreams.Module_Input_Store_{Store: &pbsubstreams.Module_Input_Store{ModuleName: m, Mode: mode}}}
}

func clone(g G) G { return proto.Clone(g).(G) }

// ---------------------------------------------------------------- the real code

func errEnum(err error) string {
	s := err.Error()
	switch {
	case strings.Contains(s, "cannot get hash of its blockfiltermodule"):
		return "filter-hash"
	case strings.Contains(s, "cannot find block filter module"):
		return "filter-missing"
	case strings.Contains(s, "invalid module file"):
		return "kind"
	case strings.Contains(s, "binary index"):
		return "binidx"
	case strings.Contains(s, "invalid input"):
		return "input"
	case strings.Contains(s, "no params input"):
		return "query-noparams"
	case strings.Contains(s, "unsupported query type"):
		return "query-unset"
	case strings.Contains(s, "has a cycle"):
		return "cycle"
	}
	return "other"
}

// directHashes: manifest.NewModuleGraph + HashModule on every module, in module-list order.
func directHashes(g G) []string {
	res := make([]string, len(g.Modules))
	r, _ := common.Recover(func() string {
		graph, err := manifest.NewModuleGraph(g.Modules)
		if err != nil {
			for i := range res {
				res[i] = "E:" + errEnum(err)
			}
			return ""
		}
		mh := manifest.NewModuleHashes()
		for i, m := range g.Modules {
			h, err := mh.HashModule(g, m, graph)
			if err != nil {
				res[i] = "E:" + errEnum(err)
			} else {
				res[i] = common.Hex(h)
			}
		}
		return ""
	})
	if r == "panic" {
		for i := range res {
			res[i] = "panic"
		}
	}
	return res
}

// execHash: exec.NewOutputModuleGraph(name).ModuleHashes().Get(u) for every used module u ("" when the graph is refused).
func execHashes(g G, outputModule string) (map[string]string, string) {
	var res map[string]string
	r, _ := common.Recover(func() string {
		eg, err := exec.NewOutputModuleGraph(outputModule, true, clone(g), 0)
		if err != nil {
			if refusedNotes < 3 {
				refusedNotes++
				out.Notes = append(out.Notes, "exec refused a graph that passes ValidateModules: "+err.Error())
			}
			return "refused"
		}
		res = map[string]string{}
		for _, u := range eg.UsedModules() {
			res[u.Name] = eg.ModuleHashes().Get(u.Name)
		}
		return "ok"
	})
	return res, r
}

// implAll is the implementation's answer for `HASH`: per module, the hash observed through
// exec.NewOutputModuleGraph when the request is valid, else through HashModule directly.  Both paths are
// cross-checked (oracle class C06/exec-vs-direct).
func implAll(g G, caseLine string) string {
	if len(g.Modules) == 0 {
		return "none"
	}
	d := directHashes(g)
	valid := false
	if r, _ := common.Recover(func() string {
		if manifest.ValidateModules(g) == nil {
			return "valid"
		}
		return ""
	}); r == "valid" {
		valid = true
	}
	if valid {
		out.Count("graph:valid")
		for i, m := range g.Modules {
			eh, st := execHashes(g, m.Name)
			out.Count("exec:" + st)
			if st != "ok" {
				continue
			}
			for j, u := range g.Modules {
				if h, ok := eh[u.Name]; ok && h != d[j] {
					fail("C06/exec-vs-direct", fmt.Sprintf("output %q: exec hash of %q = %s, HashModule = %s", m.Name, u.Name, h, d[j]), caseLine)
				}
			}
			if h, ok := eh[m.Name]; ok {
				d[i] = h
			}
		}
	} else {
		out.Count("graph:invalid")
	}
	for _, h := range d {
		if strings.HasPrefix(h, "E:") {
			out.Count("err:" + h[2:])
		} else if h == "panic" {
			out.Count("err:panic")
			fail("C06/panic", "hashing panicked", caseLine)
		}
	}
	return strings.Join(d, " ")
}

func hashMap(g G) map[string]string {
	d := directHashes(g)
	res := map[string]string{}
	for i, m := range g.Modules {
		res[m.Name] = d[i]
	}
	return res
}

func okHash(h string) bool { return h != "" && h != "panic" && !strings.HasPrefix(h, "E:") }

// descendantsOf: modules d with x in AncestorsOf(d), on the real graph
func descendantsOf(g G, x string) map[string]bool {
	res := map[string]bool{}
	graph, err := manifest.NewModuleGraph(g.Modules)
	if err != nil {
		return res
	}
	for _, m := range g.Modules {
		anc, _ := graph.AncestorsOf(m.Name)
		for _, a := range anc {
			if a.Name == x {
				res[m.Name] = true
			}
		}
	}
	return res
}

// ---------------------------------------------------------------- generator

var srcTypes = []string{"sf.ethereum.type.v2.Block", "sf.substreams.v1.Clock", "T", "sf.solana.type.v1.Block", "A"}
var binTypes = []string{"wasm/rust-v1", "wasip1/tinygo-v1", "wasm/rust-v1+wasm-bindgen-shims"}
var storeTypes = []string{"int64", "bigint", "bytes", "string", "proto:x.Y", "float64"}

// strings the generator uses as source types / params values: never module names unless a quirk is intended
var reserved = map[string]bool{"T": true, "A": true, "p": true, "inputs": true, "asourceT": true, "a": true, "k": true}

func randName(r *common.Rng, used map[string]bool) string {
	const first = "abcdefghijklmnopqrstuvwxyzABCXYZ"
	const restc = "abcdefghijklmnopqrstuvwxyz0123456789_"
	for {
		n := r.Range(1, 7)
		b := []byte{first[r.Intn(len(first))]}
		for i := 1; i < n; i++ {
			b = append(b, restc[r.Intn(len(restc))])
		}
		if !used[string(b)] && !reserved[string(b)] {
			used[string(b)] = true
			return string(b)
		}
	}
}

func randBytes(r *common.Rng, n int) []byte {
	b := make([]byte, n)
	for i := range b {
		b[i] = byte(r.Intn(256))
	}
	return b
}

func randContent(r *common.Rng) []byte {
	switch r.Intn(8) {
	case 0:
		return nil
	case 1:
		return randBytes(r, r.Range(50, 70)) // around the SHA-1 block boundary together with the labels
	case 2:
		return randBytes(r, r.Range(200, 400))
	case 3:
		return append(randBytes(r, r.Range(1, 10)), []byte("inputsparams")...)
	}
	return randBytes(r, r.Range(1, 40))
}

func randQuery(r *common.Rng) string {
	qs := []string{"a", "evt_type:transfer", "a || b", "(x && y) || z", "k:v", "ancestors", "entrypoint"}
	return qs[r.Intn(len(qs))]
}

type genOpts struct {
	maxMods int
	quirk   bool // allow a params value / source type that spells a module name
}

func kindOf(m *pbsubstreams.Module) string {
	switch m.Kind.(type) {
	case *pbsubstreams.Module_KindMap_:
		return "map"
	case *pbsubstreams.Module_KindStore_:
		return "store"
	case *pbsubstreams.Module_KindBlockIndex_:
		return "index"
	}
	return "unset"
}

func setKind(m *pbsubstreams.Module, k string, r *common.Rng) {
	switch k {
	case "map":
		m.Kind = &pbsubstreams.Module_KindMap_{KindMap: &pbsubstreams.Module_KindMap{OutputType: "proto:x.Y"}}
	case "store":
		m.Kind = &pbsubstreams.Module_KindStore_{KindStore: &pbsubstreams.Module_KindStore{UpdatePolicy: pbsubstreams.Module_KindStore_UpdatePolicy(r.Range(1, 6)), ValueType: storeTypes[r.Intn(len(storeTypes))]}}
	case "index":
		m.Kind = &pbsubstreams.Module_KindBlockIndex_{KindBlockIndex: &pbsubstreams.Module_KindBlockIndex{OutputType: "proto:sf.substreams.index.v1.Keys"}}
	}
}

// genGraph: a valid module graph (passes ValidateModules; initial blocks non-decreasing along edges), modules in
// random list order.
func genGraph(r *common.Rng, o genOpts, used map[string]bool) G {
	g := &pbsubstreams.Modules{}
	nb := r.Range(1, 3)
	for i := 0; i < nb; i++ {
		g.Binaries = append(g.Binaries, &pbsubstreams.Binary{Type: binTypes[r.Intn(len(binTypes))], Content: randContent(r)})
	}
	n := r.Range(1, o.maxMods)
	var mods []*pbsubstreams.Module
	byKind := map[string][]*pbsubstreams.Module{}
	for i := 0; i < n; i++ {
		m := &pbsubstreams.Module{Name: randName(r, used), BinaryIndex: uint32(r.Intn(nb))}
		if r.Chance(1, 3) {
			m.BinaryEntrypoint = m.Name
		} else {
			m.BinaryEntrypoint = randName(r, map[string]bool{})
		}
		k := []string{"map", "map", "map", "store", "store", "index"}[r.Intn(6)]
		setKind(m, k, r)
		ib := uint64(0)
		if r.Chance(1, 2) {
			ib = uint64(r.Intn(50))
		}
		if k != "index" && r.Chance(1, 3) {
			v := []string{"", "p", "x=1&y=2", "asourceT", "inputs", "0xdeadbeef"}[r.Intn(6)]
			if o.quirk && len(mods) > 0 && r.Chance(1, 2) {
				v = mods[r.Intn(len(mods))].Name
				out.Count("gen:quirk-params-names-module")
			}
			m.Inputs = append(m.Inputs, parIn(v))
		}
		seen := map[string]bool{}
		nin := r.Range(1, 4)
		for j := 0; j < nin; j++ {
			switch c := r.Intn(10); {
			case c < 3 || len(mods) == 0:
				t := srcTypes[r.Intn(len(srcTypes))]
				if o.quirk && len(mods) > 0 && r.Chance(1, 6) {
					t = mods[r.Intn(len(mods))].Name
					out.Count("gen:quirk-source-names-module")
				}
				if !seen["s"+t] {
					seen["s"+t] = true
					m.Inputs = append(m.Inputs, srcIn(t))
				}
			case c < 7 && len(byKind["map"]) > 0:
				d := byKind["map"][r.Intn(len(byKind["map"]))]
				if !seen["m"+d.Name] {
					seen["m"+d.Name] = true
					m.Inputs = append(m.Inputs, mapIn(d.Name))
					if d.InitialBlock > ib {
						ib = d.InitialBlock
					}
				}
			case len(byKind["store"]) > 0:
				d := byKind["store"][r.Intn(len(byKind["store"]))]
				if !seen["t"+d.Name] {
					seen["t"+d.Name] = true
					mode := pbsubstreams.Module_Input_Store_GET
					if r.Chance(1, 3) {
						mode = pbsubstreams.Module_Input_Store_DELTAS
					}
					m.Inputs = append(m.Inputs, storeIn(d.Name, mode))
					if d.InitialBlock > ib {
						ib = d.InitialBlock
					}
				}
			}
		}
		hasNonParams := false
		for _, in := range m.Inputs {
			if in.GetParams() == nil {
				hasNonParams = true
			}
		}
		if !hasNonParams {
			m.Inputs = append(m.Inputs, srcIn(srcTypes[r.Intn(len(srcTypes))]))
		}
		if k != "index" && len(byKind["index"]) > 0 && r.Chance(2, 5) {
			d := byKind["index"][r.Intn(len(byKind["index"]))]
			if d.InitialBlock > ib {
				ib = d.InitialBlock
			}
			if m.Inputs[0].GetParams() != nil && r.Chance(1, 2) {
				m.BlockFilter = &pbsubstreams.Module_BlockFilter{Module: d.Name, Query: &pbsubstreams.Module_BlockFilter_QueryFromParams{QueryFromParams: &pbsubstreams.Module_QueryFromParams{}}}
			} else {
				m.BlockFilter = &pbsubstreams.Module_BlockFilter{Module: d.Name, Query: &pbsubstreams.Module_BlockFilter_QueryString{QueryString: randQuery(r)}}
			}
		}
		m.InitialBlock = ib
		mods = append(mods, m)
		byKind[k] = append(byKind[k], m)
	}
	// random list order
	perm := make([]int, n)
	for i := range perm {
		perm[i] = i
	}
	if r.Chance(2, 3) {
		for i := n - 1; i > 0; i-- {
			j := r.Intn(i + 1)
			perm[i], perm[j] = perm[j], perm[i]
		}
	}
	for _, i := range perm {
		g.Modules = append(g.Modules, mods[i])
	}
	return g
}

// corrupt: one random defect (the malformed stream)
func corrupt(r *common.Rng, g G) (G, string) {
	g = clone(g)
	m := g.Modules[r.Intn(len(g.Modules))]
	switch r.Intn(11) {
	case 0:
		m.Kind = nil
		return g, "kind-unset"
	case 1:
		m.BinaryIndex = uint32(len(g.Binaries) + r.Intn(3))
		return g, "binidx"
	case 2:
		m.Inputs = append(m.Inputs, &pbsubstreams.Module_Input{})
		return g, "input-unset"
	case 3:
		m.BlockFilter = &pbsubstreams.Module_BlockFilter{Module: "nosuchmodule", Query: &pbsubstreams.Module_BlockFilter_QueryString{QueryString: "q"}}
		return g, "filter-missing"
	case 4:
		o := g.Modules[r.Intn(len(g.Modules))]
		if o != m {
			m.BlockFilter = &pbsubstreams.Module_BlockFilter{Module: o.Name}
			return g, "query-unset"
		}
	case 5:
		o := g.Modules[r.Intn(len(g.Modules))]
		if o != m {
			m.BlockFilter = &pbsubstreams.Module_BlockFilter{Module: o.Name, Query: &pbsubstreams.Module_BlockFilter_QueryFromParams{}}
			var ins []*pbsubstreams.Module_Input
			for _, in := range m.Inputs {
				if in.GetParams() == nil {
					ins = append(ins, in)
				}
			}
			m.Inputs = ins
			return g, "query-noparams"
		}
	case 6:
		o := g.Modules[r.Intn(len(g.Modules))]
		m.Inputs = append(m.Inputs, mapIn(o.Name)) // often a cycle or a self-loop
		return g, "back-edge"
	case 7:
		m.Inputs = append(m.Inputs, mapIn("ghost"), storeIn("ghost2", 0))
		return g, "dangling-ref"
	case 8:
		m.Inputs = append([]*pbsubstreams.Module_Input{parIn("")}, m.Inputs...)
		return g, "empty-params"
	case 9:
		o := g.Modules[r.Intn(len(g.Modules))]
		if o != m {
			// defect inside a filter module / ancestor: error propagation
			o.Kind = nil
			m.BlockFilter = &pbsubstreams.Module_BlockFilter{Module: o.Name, Query: &pbsubstreams.Module_BlockFilter_QueryString{QueryString: "q"}}
			return g, "filter-module-broken"
		}
	case 10:
		m.InitialBlock = ^uint64(0) - uint64(r.Intn(3))
		return g, "huge-initial-block"
	}
	m.BinaryEntrypoint = ""
	return g, "empty-entrypoint"
}

// ---------------------------------------------------------------- case emitters (impl answers)

func twoAnswers(a, b G, line string) string { return implAll(a, line) + " | " + implAll(b, line) }

// emitHash records a HASH case
func emitHash(g G, nontrivial bool) {
	line := "HASH " + encGraph(g)
	out.Case(line, implAll(g, line), nontrivial)
}

// evalMut: oracle for a single-module / single-binary edit: the listed modules must change, every other module
// present in both graphs must keep its hash.
func evalMut(tag string, changed []string, a, b G, line string) {
	ha, hb := hashMap(a), hashMap(b)
	want := map[string]bool{}
	for _, c := range changed {
		want[c] = true
	}
	names := make([]string, 0, len(ha))
	for n := range ha {
		names = append(names, n)
	}
	sort.Strings(names)
	for _, n := range names {
		x, y := ha[n], hb[n]
		if !okHash(x) || !okHash(y) {
			continue
		}
		if want[n] && x == y {
			cls := "C06/" + tag
			if !knownTag[tag] && !strings.HasPrefix(tag, "unframed/") {
				cls = "C06/insensitive/" + tag
			}
			fail(cls, fmt.Sprintf("edit %q: module %q (edited module or a descendant) keeps hash %s", tag, n, x), line)
		}
		if !want[n] && x != y {
			fail("C06/nonlocal/"+tag, fmt.Sprintf("edit %q: module %q is neither the edited module nor a descendant, hash %s -> %s", tag, n, x, y), line)
		}
	}
}

var knownTag = map[string]bool{"input-permutation": true, "store-mode-get-vs-deltas": true, "input-retarget": true}

func emitMut(tag string, changed []string, a, b G) {
	sort.Strings(changed)
	t := []string{"MUT", tag, fmt.Sprint(len(changed))}
	for _, c := range changed {
		t = append(t, hx(c))
	}
	t = append(t, encGraph(a), encGraph(b))
	line := strings.Join(t, " ")
	out.Count("mut:" + tag)
	out.Case(line, twoAnswers(a, b, line), true)
	evalMut(tag, changed, a, b, line)
}

// evalSame: every module of a must have the same hash in b (names preserved)
func evalSame(tag string, a, b G, line string) {
	ha, hb := hashMap(a), hashMap(b)
	for _, m := range a.Modules {
		x, y := ha[m.Name], hb[m.Name]
		if okHash(x) && x != y {
			fail("C06/identity-changed/"+tag, fmt.Sprintf("%s: module %q hash %s -> %s", tag, m.Name, x, y), line)
		}
	}
}

func emitSame(tag string, a, b G) {
	line := fmt.Sprintf("SAME %s %s %s", tag, encGraph(a), encGraph(b))
	out.Count("same:" + tag)
	out.Case(line, twoAnswers(a, b, line), true)
	evalSame(tag, a, b, line)
}

// ---- rename

func renameGraph(g G, ren map[string]string) G {
	g = clone(g)
	f := func(s string) string {
		if v, ok := ren[s]; ok {
			return v
		}
		return s
	}
	for _, m := range g.Modules {
		m.Name = f(m.Name)
		for _, in := range m.Inputs {
			switch i := in.Input.(type) {
			case *pbsubstreams.Module_Input_Map_:
				i.Map.ModuleName = f(i.Map.ModuleName)
			case *pbsubstreams.Module_Input_Store_:
				i.Store.ModuleName = f(i.Store.ModuleName)
			}
		}
		if m.BlockFilter != nil {
			m.BlockFilter.Module = f(m.BlockFilter.Module)
		}
	}
	return g
}

func quirky(g G) bool {
	names := map[string]bool{}
	for _, m := range g.Modules {
		names[m.Name] = true
	}
	for _, m := range g.Modules {
		for _, in := range m.Inputs {
			if s := in.GetSource(); s != nil && names[s.Type] {
				return true
			}
			if p := in.GetParams(); p != nil && names[p.Value] {
				return true
			}
		}
	}
	return false
}

const quirkClass = "C06/params-or-source-string-names-module"

func runRename(pairs [][2]string, g G, line string) string {
	ren := map[string]string{}
	for _, p := range pairs {
		ren[p[0]] = p[1]
	}
	b := renameGraph(g, ren)
	ans := implAll(b, line)
	ha, hb := hashMap(g), hashMap(b)
	for _, m := range g.Modules {
		n := m.Name
		if v, ok := ren[n]; ok {
			n = v
		}
		if x, y := ha[m.Name], hb[n]; okHash(x) && x != y {
			cls := "C06/identity-changed/rename"
			if quirky(g) || quirky(b) {
				cls = quirkClass
			}
			fail(cls, fmt.Sprintf("consistent renaming: module %q -> %q hash %s -> %s", m.Name, n, x, y), line)
		}
	}
	return ans
}

func emitRename(r *common.Rng, g G, used map[string]bool) {
	var pairs [][2]string
	var t []string
	for _, m := range g.Modules {
		if r.Chance(3, 4) {
			nn := randName(r, used)
			if r.Chance(1, 4) {
				nn = randName(r, used) + ":" + nn
			}
			pairs = append(pairs, [2]string{m.Name, nn})
			t = append(t, hx(m.Name), hx(nn))
		}
	}
	line := strings.Join(strings.Fields(fmt.Sprintf("RENAME %d %s %s", len(pairs), strings.Join(t, " "), encGraph(g))), " ")
	out.Count("same:rename")
	out.Case(line, runRename(pairs, g, line), true)
}

// ---- alias import through the hooks

func pkgOf(g G) *pbsubstreams.Package {
	p := &pbsubstreams.Package{Version: 1, Modules: g, PackageMeta: []*pbsubstreams.PackageMetadata{{Name: "pkg", Version: "v0.1.0"}}}
	for range g.Modules {
		p.ModuleMeta = append(p.ModuleMeta, &pbsubstreams.ModuleMetadata{})
	}
	return p
}

func runImport(alias string, src, dest G, line string) string {
	s, d := pkgOf(clone(src)), pkgOf(clone(dest))
	r, _ := common.Recover(func() string { manifest.VerifImport(s, d, alias); return "" })
	if r == "panic" {
		fail("C06/panic", "import panicked", line)
		return "panic"
	}
	merged := d.Modules
	ans := implAll(merged, line)
	hs, hm := hashMap(src), hashMap(merged)
	for _, m := range src.Modules {
		if x, y := hs[m.Name], hm[alias+":"+m.Name]; okHash(x) && x != y {
			cls := "C06/identity-changed/alias-import"
			if quirky(src) || quirky(merged) {
				cls = quirkClass
			}
			fail(cls, fmt.Sprintf("import under alias %q: module %q hash %s, imported %q hash %s", alias, m.Name, x, alias+":"+m.Name, y), line)
		}
	}
	return ans
}

func emitImport(alias string, src, dest G) {
	line := fmt.Sprintf("IMPORT %s %s %s", hx(alias), encGraph(src), encGraph(dest))
	out.Count("same:alias-import")
	out.Case(line, runImport(alias, src, dest, line), true)
}

// parentFor: a parent package that uses some imported modules (names already prefixed)
func parentFor(r *common.Rng, alias string, src G, used map[string]bool) G {
	d := &pbsubstreams.Modules{Binaries: []*pbsubstreams.Binary{{Type: "wasm/rust-v1", Content: randBytes(r, r.Range(1, 30))}}}
	n := r.Range(0, 3)
	for i := 0; i < n; i++ {
		m := &pbsubstreams.Module{Name: randName(r, used)}
		m.BinaryEntrypoint = m.Name
		setKind(m, "map", r)
		ib := uint64(0)
		m.Inputs = append(m.Inputs, srcIn("sf.substreams.v1.Clock"))
		for _, sm := range src.Modules {
			if !r.Chance(1, 3) || len(m.Inputs) > 4 {
				continue
			}
			switch kindOf(sm) {
			case "map":
				m.Inputs = append(m.Inputs, mapIn(alias+":"+sm.Name))
			case "store":
				m.Inputs = append(m.Inputs, storeIn(alias+":"+sm.Name, pbsubstreams.Module_Input_Store_GET))
			default:
				continue
			}
			if sm.InitialBlock > ib {
				ib = sm.InitialBlock
			}
		}
		m.InitialBlock = ib
		d.Modules = append(d.Modules, m)
	}
	return d
}

// ---- alias import through the real manifest reader (child .spkg + parent yaml in a scratch directory)

func yamlStr(s string) string { return fmt.Sprintf("%q", s) }

func parentYaml(alias string, dest G) string {
	var b strings.Builder
	b.WriteString("specVersion: v0.1.0\npackage:\n  name: parent\n  version: v0.1.0\nimports:\n  " + yamlStr(alias) + ": child.spkg\n")
	b.WriteString("binaries:\n  default:\n    type: wasm/rust-v1\n    file: p.wasm\nmodules:\n")
	for _, m := range dest.Modules {
		fmt.Fprintf(&b, "  - name: %s\n    kind: map\n    initialBlock: %d\n    inputs:\n", yamlStr(m.Name), m.InitialBlock)
		for _, in := range m.Inputs {
			switch i := in.Input.(type) {
			case *pbsubstreams.Module_Input_Source_:
				fmt.Fprintf(&b, "      - source: %s\n", yamlStr(i.Source.Type))
			case *pbsubstreams.Module_Input_Map_:
				fmt.Fprintf(&b, "      - map: %s\n", yamlStr(i.Map.ModuleName))
			case *pbsubstreams.Module_Input_Store_:
				fmt.Fprintf(&b, "      - store: %s\n        mode: get\n", yamlStr(i.Store.ModuleName))
			}
		}
		b.WriteString("    output:\n      type: proto:x.Y\n")
	}
	return b.String()
}

var scratchRoot string

// runReader: returns the merged module list the real reader produces ("" + error text when it refuses)
func runReader(alias string, src, dest G) (G, error) {
	dir, err := os.MkdirTemp(scratchRoot, "reader")
	if err != nil {
		return nil, err
	}
	defer os.RemoveAll(dir)
	spkg, err := proto.Marshal(pkgOf(clone(src)))
	if err != nil {
		return nil, err
	}
	if err := os.WriteFile(filepath.Join(dir, "child.spkg"), spkg, 0o644); err != nil {
		return nil, err
	}
	if err := os.WriteFile(filepath.Join(dir, "p.wasm"), dest.Binaries[0].Content, 0o644); err != nil {
		return nil, err
	}
	if err := os.WriteFile(filepath.Join(dir, "substreams.yaml"), []byte(parentYaml(alias, dest)), 0o644); err != nil {
		return nil, err
	}
	rd, err := manifest.NewReader(filepath.Join(dir, "substreams.yaml"))
	if err != nil {
		return nil, err
	}
	bundle, err := rd.Read()
	if err != nil {
		return nil, err
	}
	return bundle.Package.Modules, nil
}

func runReaderCase(alias string, src, dest G, line string) string {
	var merged G
	var rerr error
	// the reader prints a warning about the missing README on stdout: silence it
	so := os.Stdout
	if devnull, err := os.OpenFile(os.DevNull, os.O_WRONLY, 0); err == nil {
		os.Stdout = devnull
		defer func() { os.Stdout = so; devnull.Close() }()
	}
	r, _ := common.Recover(func() string { merged, rerr = runReader(alias, src, dest); return "" })
	if r == "panic" {
		fail("C06/panic", "manifest reader panicked", line)
		return "panic"
	}
	if rerr != nil {
		out.Count("reader:refused")
		out.Notes = append(out.Notes, "reader refused: "+rerr.Error())
		return "refused"
	}
	out.Count("reader:ok")
	// the reader must agree with the hook path
	s, d := pkgOf(clone(src)), pkgOf(clone(dest))
	manifest.VerifImport(s, d, alias)
	cmp := clone(merged)
	for _, m := range cmp.Modules {
		m.Output = nil // not part of the case encoding (and not read by the hash or the graph)
	}
	if !proto.Equal(d.Modules, cmp) {
		out.Notes = append(out.Notes, "reader-vs-hook: "+encGraph(d.Modules)+" vs "+encGraph(cmp))
		fail("C06/reader-vs-hook", "module list built by the manifest reader differs from prefixModules+reindexAndMergePackage", line)
	}
	hs, hm := hashMap(src), hashMap(merged)
	for _, m := range src.Modules {
		if x, y := hs[m.Name], hm[alias+":"+m.Name]; okHash(x) && x != y {
			cls := "C06/identity-changed/alias-import-reader"
			if quirky(src) || quirky(merged) {
				cls = quirkClass
			}
			fail(cls, fmt.Sprintf("manifest reader, import under alias %q: module %q hash %s, imported hash %s", alias, m.Name, x, y), line)
		}
	}
	return implAll(merged, line)
}

func emitReader(alias string, src, dest G) {
	line := fmt.Sprintf("READER %s %s %s", hx(alias), encGraph(src), encGraph(dest))
	out.Count("same:alias-import-reader")
	out.Case(line, runReaderCase(alias, src, dest, line), true)
}

// ---- binary re-indexing

func runReindex(bins []*pbsubstreams.Binary, sigma map[uint32]uint32, g G, line string) string {
	b := clone(g)
	b.Binaries = bins
	for _, m := range b.Modules {
		if v, ok := sigma[m.BinaryIndex]; ok {
			m.BinaryIndex = v
		}
	}
	ans := implAll(b, line)
	evalSame("binary-reindex", g, b, line)
	return ans
}

func emitReindex(r *common.Rng, g G) {
	nb := len(g.Binaries)
	// new table: a permutation of the old binaries with unrelated binaries interleaved
	perm := make([]int, nb)
	for i := range perm {
		perm[i] = i
	}
	for i := nb - 1; i > 0; i-- {
		j := r.Intn(i + 1)
		perm[i], perm[j] = perm[j], perm[i]
	}
	var bins []*pbsubstreams.Binary
	sigma := map[uint32]uint32{}
	for _, i := range perm {
		for r.Chance(1, 3) {
			bins = append(bins, &pbsubstreams.Binary{Type: binTypes[r.Intn(len(binTypes))], Content: randBytes(r, r.Range(0, 20))})
		}
		sigma[uint32(i)] = uint32(len(bins))
		bins = append(bins, proto.Clone(g.Binaries[i]).(*pbsubstreams.Binary))
	}
	var t []string
	t = append(t, "REINDEX", fmt.Sprint(len(bins)))
	for _, b := range bins {
		t = append(t, hx(b.Type), common.Hex(b.Content))
	}
	t = append(t, fmt.Sprint(nb))
	for i := 0; i < nb; i++ {
		t = append(t, fmt.Sprint(i), fmt.Sprint(sigma[uint32(i)]))
	}
	line := strings.Join(t, " ") + " " + encGraph(g)
	out.Count("same:binary-reindex")
	out.Case(line, runReindex(bins, sigma, g, line), true)
}

// ---- unrelated additions

func addUnrelated(r *common.Rng, g G, used map[string]bool, quirkName string) G {
	b := clone(g)
	k := r.Range(1, 3)
	b.Binaries = append(b.Binaries, &pbsubstreams.Binary{Type: binTypes[r.Intn(len(binTypes))], Content: randBytes(r, r.Range(0, 30))})
	for i := 0; i < k; i++ {
		m := &pbsubstreams.Module{Name: randName(r, used), BinaryIndex: uint32(r.Intn(len(b.Binaries)))}
		if i == 0 && quirkName != "" {
			m.Name = quirkName
		}
		m.BinaryEntrypoint = m.Name
		setKind(m, []string{"map", "store", "index"}[r.Intn(3)], r)
		m.Inputs = append(m.Inputs, srcIn(srcTypes[r.Intn(len(srcTypes))]))
		// new modules may consume old ones (they are descendants, not ancestors, of the old modules)
		for _, o := range g.Modules {
			if r.Chance(1, 4) && kindOf(o) == "map" {
				m.Inputs = append(m.Inputs, mapIn(o.Name))
				if o.InitialBlock > m.InitialBlock {
					m.InitialBlock = o.InitialBlock
				}
			}
		}
		pos := r.Intn(len(b.Modules) + 1)
		b.Modules = append(b.Modules[:pos], append([]*pbsubstreams.Module{m}, b.Modules[pos:]...)...)
	}
	return b
}

// ---------------------------------------------------------------- single-field edits

type edit struct {
	tag   string
	apply func(r *common.Rng, g G, xi int) bool // edits module xi of g in place; false = not applicable
}

func inputIdx(m *pbsubstreams.Module, pred func(*pbsubstreams.Module_Input) bool) []int {
	var res []int
	for i, in := range m.Inputs {
		if pred(in) {
			res = append(res, i)
		}
	}
	return res
}

func names(g G) map[string]bool {
	res := map[string]bool{}
	for _, m := range g.Modules {
		res[m.Name] = true
	}
	return res
}

var edits = []edit{
	{"initial-block", func(r *common.Rng, g G, xi int) bool {
		g.Modules[xi].InitialBlock += uint64(r.Range(1, 1000))
		return true
	}},
	{"initial-block-high-byte", func(r *common.Rng, g G, xi int) bool {
		g.Modules[xi].InitialBlock ^= 1 << uint(r.Range(8, 63))
		return true
	}},
	{"kind", func(r *common.Rng, g G, xi int) bool {
		m := g.Modules[xi]
		ks := []string{"map", "store", "index"}
		k := ks[r.Intn(3)]
		if k == kindOf(m) {
			k = ks[(r.Intn(2)+1+indexOf(ks, kindOf(m)))%3]
		}
		setKind(m, k, r)
		return true
	}},
	{"binary-type", func(r *common.Rng, g G, xi int) bool {
		m := g.Modules[xi]
		old := g.Binaries[m.BinaryIndex]
		g.Binaries = append(g.Binaries, &pbsubstreams.Binary{Type: old.Type + "+x", Content: old.Content})
		m.BinaryIndex = uint32(len(g.Binaries) - 1)
		return true
	}},
	{"binary-content", func(r *common.Rng, g G, xi int) bool {
		m := g.Modules[xi]
		old := g.Binaries[m.BinaryIndex]
		c := append([]byte{}, old.Content...)
		if len(c) > 0 && r.Bool() {
			c[r.Intn(len(c))] ^= byte(1 << uint(r.Intn(8)))
		} else {
			c = append(c, byte(r.Intn(256)))
		}
		g.Binaries = append(g.Binaries, &pbsubstreams.Binary{Type: old.Type, Content: c})
		m.BinaryIndex = uint32(len(g.Binaries) - 1)
		return true
	}},
	{"entrypoint", func(r *common.Rng, g G, xi int) bool {
		m := g.Modules[xi]
		if r.Bool() && len(m.BinaryEntrypoint) > 0 {
			m.BinaryEntrypoint = m.BinaryEntrypoint[:len(m.BinaryEntrypoint)-1]
		} else {
			m.BinaryEntrypoint += "z"
		}
		return true
	}},
	{"params-value", func(r *common.Rng, g G, xi int) bool {
		m := g.Modules[xi]
		ix := inputIdx(m, func(in *pbsubstreams.Module_Input) bool { return in.GetParams() != nil })
		if len(ix) == 0 {
			return false
		}
		p := m.Inputs[ix[0]].GetParams()
		nv := p.Value + "'"
		switch r.Intn(4) {
		case 0:
			if len(p.Value) > 0 {
				nv = p.Value[1:]
			}
		case 1: // white space only (a trailing newline of a YAML block scalar, a leading tab): the module receives it
			nv = p.Value + []string{" ", "\n", "\t", "\r\n"}[r.Intn(4)]
		case 2:
			nv = []string{" ", "\n", "\t"}[r.Intn(3)] + p.Value
		}
		if names(g)[nv] || names(g)[p.Value] {
			return false
		}
		p.Value = nv
		return true
	}},
	{"source-type", func(r *common.Rng, g G, xi int) bool {
		m := g.Modules[xi]
		ix := inputIdx(m, func(in *pbsubstreams.Module_Input) bool { return in.GetSource() != nil })
		if len(ix) == 0 {
			return false
		}
		s := m.Inputs[ix[r.Intn(len(ix))]].GetSource()
		if names(g)[s.Type] {
			return false
		}
		s.Type += ".v9"
		return true
	}},
	{"add-input-source", func(r *common.Rng, g G, xi int) bool {
		m := g.Modules[xi]
		m.Inputs = append(m.Inputs, srcIn("sf.new.Type"))
		return true
	}},
	{"add-input-module", func(r *common.Rng, g G, xi int) bool {
		m := g.Modules[xi]
		desc := descendantsOf(g, m.Name)
		var c []*pbsubstreams.Module
		for _, o := range g.Modules {
			if o != m && !desc[o.Name] && kindOf(o) != "index" {
				c = append(c, o)
			}
		}
		if len(c) == 0 {
			return false
		}
		o := c[r.Intn(len(c))]
		if kindOf(o) == "map" {
			m.Inputs = append(m.Inputs, mapIn(o.Name))
		} else {
			m.Inputs = append(m.Inputs, storeIn(o.Name, pbsubstreams.Module_Input_Store_GET))
		}
		return true
	}},
	{"remove-input", func(r *common.Rng, g G, xi int) bool {
		m := g.Modules[xi]
		if len(m.Inputs) < 2 {
			return false
		}
		i := r.Intn(len(m.Inputs))
		// removing one of two adjacent inputs with identical encodings is the only edit that keeps the input bytes:
		// both are the same kind of module input; then the ancestor set decides.  Always expected to change
		// (the module reads one input less).
		m.Inputs = append(m.Inputs[:i:i], m.Inputs[i+1:]...)
		return true
	}},
	{"input-kind", func(r *common.Rng, g G, xi int) bool {
		m := g.Modules[xi]
		i := r.Intn(len(m.Inputs))
		in := m.Inputs[i]
		switch {
		case in.GetMap() != nil:
			m.Inputs[i] = storeIn(in.GetMap().ModuleName, pbsubstreams.Module_Input_Store_GET)
		case in.GetStore() != nil:
			m.Inputs[i] = mapIn(in.GetStore().ModuleName)
		case in.GetSource() != nil:
			if names(g)[in.GetSource().Type] {
				return false
			}
			m.Inputs[i] = parIn(in.GetSource().Type)
		case in.GetParams() != nil:
			if names(g)[in.GetParams().Value] {
				return false
			}
			m.Inputs[i] = srcIn(in.GetParams().Value)
		default:
			return false
		}
		return true
	}},
	{"filter-query", func(r *common.Rng, g G, xi int) bool {
		m := g.Modules[xi]
		if m.BlockFilter == nil {
			return false
		}
		q, _ := m.BlockFilterQueryString()
		m.BlockFilter.Query = &pbsubstreams.Module_BlockFilter_QueryString{QueryString: q + " || more"}
		return true
	}},
	{"filter-module", func(r *common.Rng, g G, xi int) bool {
		m := g.Modules[xi]
		if m.BlockFilter == nil {
			return false
		}
		desc := descendantsOf(g, m.Name)
		h := hashMap(g)
		var c []*pbsubstreams.Module
		for _, o := range g.Modules {
			// another module with a *different* identity (an identical twin is the same computation)
			if o != m && !desc[o.Name] && o.Name != m.BlockFilter.Module && h[o.Name] != h[m.BlockFilter.Module] {
				c = append(c, o)
			}
		}
		if len(c) == 0 {
			return false
		}
		m.BlockFilter.Module = c[r.Intn(len(c))].Name
		return true
	}},
	{"filter-added", func(r *common.Rng, g G, xi int) bool {
		m := g.Modules[xi]
		if m.BlockFilter != nil {
			return false
		}
		desc := descendantsOf(g, m.Name)
		for _, o := range g.Modules {
			if o != m && !desc[o.Name] && kindOf(o) == "index" {
				m.BlockFilter = &pbsubstreams.Module_BlockFilter{Module: o.Name, Query: &pbsubstreams.Module_BlockFilter_QueryString{QueryString: randQuery(r)}}
				return true
			}
		}
		return false
	}},
	{"filter-removed", func(r *common.Rng, g G, xi int) bool {
		m := g.Modules[xi]
		if m.BlockFilter == nil {
			return false
		}
		m.BlockFilter = nil
		return true
	}},
	// ---- edits that change the computation but that the pre-image cannot see (known defect F14)
	{"input-permutation", func(r *common.Rng, g G, xi int) bool {
		m := g.Modules[xi]
		for _, pred := range []func(*pbsubstreams.Module_Input) bool{
			func(in *pbsubstreams.Module_Input) bool { return in.GetMap() != nil },
			func(in *pbsubstreams.Module_Input) bool { return in.GetStore() != nil },
		} {
			ix := inputIdx(m, pred)
			if len(ix) >= 2 {
				i, j := ix[0], ix[len(ix)-1]
				m.Inputs[i], m.Inputs[j] = m.Inputs[j], m.Inputs[i]
				return true
			}
		}
		return false
	}},
	// same root cause as input-permutation: a map input is pointed at another module that is already an
	// ancestor, while the old target stays an ancestor through another path (kinds and ancestor set unchanged)
	{"input-retarget", func(r *common.Rng, g G, xi int) bool {
		m := g.Modules[xi]
		ix := inputIdx(m, func(in *pbsubstreams.Module_Input) bool { return in.GetMap() != nil })
		if len(ix) == 0 {
			return false
		}
		i := ix[r.Intn(len(ix))]
		desc := descendantsOf(g, m.Name)
		direct := map[string]bool{}
		for _, in := range m.Inputs {
			if v := in.GetMap(); v != nil {
				direct[v.ModuleName] = true
			}
		}
		h := hashMap(g)
		var c []*pbsubstreams.Module
		for _, o := range g.Modules {
			if o != m && !desc[o.Name] && kindOf(o) == "map" && !direct[o.Name] && h[o.Name] != h[m.Inputs[i].GetMap().ModuleName] {
				c = append(c, o)
			}
		}
		if len(c) == 0 {
			return false
		}
		m.Inputs[i] = mapIn(c[r.Intn(len(c))].Name)
		return true
	}},
	{"store-mode-get-vs-deltas", func(r *common.Rng, g G, xi int) bool {
		m := g.Modules[xi]
		ix := inputIdx(m, func(in *pbsubstreams.Module_Input) bool { return in.GetStore() != nil })
		if len(ix) == 0 {
			return false
		}
		s := m.Inputs[ix[r.Intn(len(ix))]].GetStore()
		if s.Mode == pbsubstreams.Module_Input_Store_GET {
			s.Mode = pbsubstreams.Module_Input_Store_DELTAS
		} else {
			s.Mode = pbsubstreams.Module_Input_Store_GET
		}
		return true
	}},
}

func indexOf(l []string, s string) int {
	for i, x := range l {
		if x == s {
			return i
		}
	}
	return 0
}

// observations: payloads of the kind oneof that the pre-image ignores (not part of the property's list; every
// store write is validated against policy and value type by the host, wasm/call.go validate*)
func observeKindPayload(r *common.Rng, g G) {
	for xi, m := range g.Modules {
		b := clone(g)
		switch k := b.Modules[xi].Kind.(type) {
		case *pbsubstreams.Module_KindStore_:
			k.KindStore.UpdatePolicy = (k.KindStore.UpdatePolicy % 6) + 1
			k.KindStore.ValueType = storeTypes[(indexOf(storeTypes, k.KindStore.ValueType)+1)%len(storeTypes)]
		case *pbsubstreams.Module_KindMap_:
			k.KindMap.OutputType += "2"
		default:
			continue
		}
		if hashMap(g)[m.Name] == hashMap(b)[m.Name] {
			out.Count("obs:kind-payload-not-hashed(" + kindOf(m) + ")")
		} else {
			out.Count("obs:kind-payload-hashed(" + kindOf(m) + ")")
		}
	}
}

func observeReorder(r *common.Rng, g G) {
	b := clone(g)
	n := len(b.Modules)
	for i := n - 1; i > 0; i-- {
		j := r.Intn(i + 1)
		b.Modules[i], b.Modules[j] = b.Modules[j], b.Modules[i]
	}
	ha, hb := hashMap(g), hashMap(b)
	changed := false
	for k, v := range ha {
		if hb[k] != v {
			changed = true
		}
	}
	if changed {
		out.Count("obs:module-list-reorder-changes-some-hash")
	} else {
		out.Count("obs:module-list-reorder-keeps-hashes")
	}
}

// ---------------------------------------------------------------- engineered pairs: the concatenation has no framing

func mk(name string, ins ...*pbsubstreams.Module_Input) *pbsubstreams.Module {
	return &pbsubstreams.Module{Name: name, InitialBlock: 1, BinaryEntrypoint: name, Inputs: ins,
		Kind: &pbsubstreams.Module_KindMap_{KindMap: &pbsubstreams.Module_KindMap{OutputType: "proto:x.Y"}}}
}

func engineered(r *common.Rng) {
	used := map[string]bool{}
	n := randName(r, used)
	a := "v=" + string([]byte{byte('a' + r.Intn(26))})
	t := srcTypes[r.Intn(len(srcTypes))]
	t2 := srcTypes[r.Intn(len(srcTypes))]
	bin := func(ty string, c []byte) []*pbsubstreams.Binary { return []*pbsubstreams.Binary{{Type: ty, Content: c}} }
	code := randBytes(r, r.Range(4, 20))
	pairs := []struct {
		tag  string
		a, b G
	}{
		{"unframed/params-value-vs-next-input",
			&pbsubstreams.Modules{Binaries: bin("wasm/rust-v1", code), Modules: []*pbsubstreams.Module{mk(n, parIn(a), srcIn(t))}},
			&pbsubstreams.Modules{Binaries: bin("wasm/rust-v1", code), Modules: []*pbsubstreams.Module{mk(n, parIn(a+"source"+t))}}},
		{"unframed/source-type-vs-next-input",
			&pbsubstreams.Modules{Binaries: bin("wasm/rust-v1", code), Modules: []*pbsubstreams.Module{mk(n, srcIn(t), srcIn(t2+"x"))}},
			&pbsubstreams.Modules{Binaries: bin("wasm/rust-v1", code), Modules: []*pbsubstreams.Module{mk(n, srcIn(t+"source"+t2+"x"))}}},
		{"unframed/binary-content-vs-inputs",
			&pbsubstreams.Modules{Binaries: bin("wasm/rust-v1", code), Modules: []*pbsubstreams.Module{mk(n, parIn("inputs"), srcIn(t))}},
			&pbsubstreams.Modules{Binaries: bin("wasm/rust-v1", append(append([]byte{}, code...), []byte("inputsparams")...)), Modules: []*pbsubstreams.Module{mk(n, srcIn(t))}}},
		{"unframed/binary-type-vs-content",
			&pbsubstreams.Modules{Binaries: bin("wasm/rust-v1", code), Modules: []*pbsubstreams.Module{mk(n, srcIn(t))}},
			&pbsubstreams.Modules{Binaries: bin("wasm/rust-v1"+string(code[:1]), code[1:]), Modules: []*pbsubstreams.Module{mk(n, srcIn(t))}}},
	}
	for _, p := range pairs {
		// the two definitions differ (number of inputs / code), so the identifier must differ
		emitMut(p.tag, []string{n}, p.a, p.b)
		va, vb := manifest.ValidateModules(p.a) == nil, manifest.ValidateModules(p.b) == nil
		out.Count(fmt.Sprintf("engineered:%s:both-pass-ValidateModules=%v", p.tag, va && vb))
	}
	// quirk: a params value that spells the name of a sibling module makes that module an ancestor; importing the
	// package under an alias (or renaming) drops the edge
	sib, top := randName(r, used), randName(r, used)
	src := &pbsubstreams.Modules{Binaries: bin("wasm/rust-v1", code), Modules: []*pbsubstreams.Module{mk(sib, srcIn(t)), mk(top, parIn(sib), srcIn(t))}}
	emitImport(randName(r, used), src, &pbsubstreams.Modules{})
	// quirk: adding an unrelated module whose name equals a params value of an existing module
	base := &pbsubstreams.Modules{Binaries: bin("wasm/rust-v1", code), Modules: []*pbsubstreams.Module{mk(top, parIn(sib), srcIn(t))}}
	withNew := clone(base)
	withNew.Modules = append(withNew.Modules, mk(sib, srcIn(t2)))
	line := fmt.Sprintf("SAME add-unrelated %s %s", encGraph(base), encGraph(withNew))
	out.Count("same:add-unrelated(quirk)")
	out.Case(line, twoAnswers(base, withNew, line), true)
	evalSameCls(quirkClass, "add-unrelated", base, withNew, line)
}

// corpus: the minimal witnesses of the known defect F14 (DESIGN §9), replayed on every run
func corpusF14() {
	bin := []*pbsubstreams.Binary{{Type: "wasm/rust-v1", Content: []byte{0, 1, 2}}}
	st := func(name string, ins ...*pbsubstreams.Module_Input) *pbsubstreams.Module {
		m := mk(name, ins...)
		m.Kind = &pbsubstreams.Module_KindStore_{KindStore: &pbsubstreams.Module_KindStore{UpdatePolicy: pbsubstreams.Module_KindStore_UPDATE_POLICY_SET, ValueType: "string"}}
		return m
	}
	base := func(x *pbsubstreams.Module) G {
		return &pbsubstreams.Modules{Binaries: bin, Modules: []*pbsubstreams.Module{
			mk("A", srcIn("sf.substreams.v1.Clock")), mk("B", mapIn("A")), st("S", srcIn("sf.substreams.v1.Clock")), x}}
	}
	g := base(mk("X", mapIn("A"), mapIn("B"), storeIn("S", pbsubstreams.Module_Input_Store_GET)))
	emitMut("input-permutation", []string{"X"}, g, base(mk("X", mapIn("B"), mapIn("A"), storeIn("S", pbsubstreams.Module_Input_Store_GET))))
	emitMut("store-mode-get-vs-deltas", []string{"X"}, g, base(mk("X", mapIn("A"), mapIn("B"), storeIn("S", pbsubstreams.Module_Input_Store_DELTAS))))
	// Y reads B (whose ancestor is A); pointing the input at A instead keeps kinds and ancestor set {A, B}? no: {A};
	// so use Z(map B, map C) with C(map A): retarget the first input B -> A keeps the ancestor set {A, B, C}
	h := &pbsubstreams.Modules{Binaries: bin, Modules: []*pbsubstreams.Module{
		mk("A", srcIn("sf.substreams.v1.Clock")), mk("B", mapIn("A")), mk("C", mapIn("B")), mk("Z", mapIn("B"), mapIn("C"))}}
	h2 := clone(h)
	h2.Modules[3].Inputs[0] = mapIn("A")
	emitMut("input-retarget", []string{"Z"}, h, h2)
}

func evalSameCls(cls, tag string, a, b G, line string) {
	ha, hb := hashMap(a), hashMap(b)
	for _, m := range a.Modules {
		if x, y := ha[m.Name], hb[m.Name]; okHash(x) && x != y {
			fail(cls, fmt.Sprintf("%s: module %q hash %s -> %s", tag, m.Name, x, y), line)
		}
	}
}

// ---------------------------------------------------------------- cache directories

type recStore struct {
	dstore.Store
	subs *[]string
}

func (s recStore) SubStore(name string) (dstore.Store, error) {
	*s.subs = append(*s.subs, name)
	return s, nil
}

func runDir(hash []byte, which string) string {
	var subs []string
	rs := recStore{subs: &subs}
	hexHash := fmt.Sprintf("%x", hash)
	r, _ := common.Recover(func() string {
		switch which {
		case "store-states", "store-outputs":
			if _, err := store.NewConfig("m", 0, hexHash, pbsubstreams.Module_KindStore_UPDATE_POLICY_SET, "string", rs); err != nil {
				return "err"
			}
			if which == "store-states" {
				return subs[0]
			}
			return subs[1]
		case "execout-map":
			if _, err := execout.NewConfig("m", 0, pbsubstreams.ModuleKindMap, hexHash, rs, zap.NewNop()); err != nil {
				return "err"
			}
			return subs[0]
		case "execout-index":
			if _, err := execout.NewConfig("m", 0, pbsubstreams.ModuleKindBlockIndex, hexHash, rs, zap.NewNop()); err != nil {
				return "err"
			}
			return subs[0]
		case "index":
			if _, err := index.NewConfig("m", 0, hexHash, rs, zap.NewNop()); err != nil {
				return "err"
			}
			return subs[0]
		}
		return "bad"
	})
	return hx(r)
}

// ---------------------------------------------------------------- replay

func runLine(line string) string {
	w := strings.Fields(line)
	switch w[0] {
	case "SHA1":
		s := sha1.Sum(common.Unhex(w[1]))
		return common.Hex(s[:])
	case "DIR":
		return runDir(common.Unhex(w[1]), w[2])
	case "HASH":
		g, _ := decGraph(w[1:])
		return implAll(g, line)
	case "MUT":
		k := common.Atoi(w[2])
		var changed []string
		for _, h := range w[3 : 3+k] {
			changed = append(changed, us(h))
		}
		a, rest := decGraph(w[3+k:])
		b, _ := decGraph(rest)
		ans := twoAnswers(a, b, line)
		evalMut(w[1], changed, a, b, line)
		return ans
	case "SAME":
		a, rest := decGraph(w[2:])
		b, _ := decGraph(rest)
		ans := twoAnswers(a, b, line)
		if quirky(a) || quirky(b) {
			evalSameCls(quirkClass, w[1], a, b, line)
		} else {
			evalSame(w[1], a, b, line)
		}
		return ans
	case "RENAME":
		n := common.Atoi(w[1])
		var pairs [][2]string
		for i := 0; i < n; i++ {
			pairs = append(pairs, [2]string{us(w[2+2*i]), us(w[3+2*i])})
		}
		g, _ := decGraph(w[2+2*n:])
		return runRename(pairs, g, line)
	case "IMPORT", "READER":
		src, rest := decGraph(w[2:])
		dest, _ := decGraph(rest)
		if w[0] == "READER" {
			return runReaderCase(us(w[1]), src, dest, line)
		}
		return runImport(us(w[1]), src, dest, line)
	case "REINDEX":
		nb := common.Atoi(w[1])
		t := w[2:]
		var bins []*pbsubstreams.Binary
		for i := 0; i < nb; i++ {
			bins = append(bins, &pbsubstreams.Binary{Type: us(t[0]), Content: common.Unhex(t[1])})
			t = t[2:]
		}
		ns := common.Atoi(t[0])
		t = t[1:]
		sigma := map[uint32]uint32{}
		for i := 0; i < ns; i++ {
			sigma[uint32(common.Atou(t[0]))] = uint32(common.Atou(t[1]))
			t = t[2:]
		}
		g, _ := decGraph(t)
		return runReindex(bins, sigma, g, line)
	}
	return "bad-op"
}

// ---------------------------------------------------------------- main

func main() {
	o := common.ParseFlags()
	out = common.NewOut(o.Out)
	defer out.Finish()
	manifest.TestUseSimpleHash = false
	out.Rule = "non-trivial = a pair of graphs (edit / identity-preserving transformation) or a graph with at least one dependency edge"
	scratchRoot = filepath.Join(o.Out, "scratch")
	os.MkdirAll(scratchRoot, 0o755)
	defer os.RemoveAll(scratchRoot)

	if lines := o.ReplayLines(); lines != nil {
		for _, l := range lines {
			out.Case(l, runLine(l), true)
		}
		return
	}

	r := common.NewRng(o.Seed)
	scenarios, maxMods, readers := 300, 8, 40
	if o.Thorough() {
		scenarios, maxMods, readers = 800, 11, 200
	}

	// raw SHA-1: every length across two block boundaries, then random
	for n := 0; n <= 130; n++ {
		b := randBytes(r, n)
		line := "SHA1 " + common.Hex(b)
		out.Case(line, runLine(line), false)
	}
	out.Count("sha1-raw")
	for _, which := range []string{"store-states", "store-outputs", "execout-map", "execout-index", "index"} {
		line := fmt.Sprintf("DIR %s %s", common.Hex(randBytes(r, 20)), which)
		out.Case(line, runLine(line), false)
		out.Count("dir:" + which)
	}

	corpusF14()
	engineered(r.Fork())

	for s := 0; s < scenarios; s++ {
		used := map[string]bool{}
		quirk := r.Chance(1, 12)
		g := genGraph(r, genOpts{maxMods: maxMods, quirk: quirk}, used)
		out.Count(fmt.Sprintf("graph:modules=%d", len(g.Modules)))
		edges := 0
		for _, m := range g.Modules {
			edges += len(inputIdx(m, func(in *pbsubstreams.Module_Input) bool { return in.GetMap() != nil || in.GetStore() != nil }))
			if m.BlockFilter != nil {
				edges++
				out.Count("graph:with-filter")
			}
		}
		emitHash(g, edges > 0)

		// malformed stream
		for i := 0; i < 2; i++ {
			b, what := corrupt(r.Fork(), g)
			out.Count("malformed:" + what)
			emitHash(b, true)
		}

		if quirk && quirky(g) {
			out.Count("graph:quirky")
		}
		// single-field edits of every module
		for xi, m := range g.Modules {
			desc := descendantsOf(g, m.Name)
			changed := []string{m.Name}
			for d := range desc {
				changed = append(changed, d)
			}
			for _, e := range edits {
				if !o.Thorough() && !r.Chance(1, 2) {
					continue
				}
				b := clone(g)
				if !e.apply(r.Fork(), b, xi) {
					out.Count("edit-not-applicable:" + e.tag)
					continue
				}
				emitMut(e.tag, changed, g, b)
			}
		}
		// editing a shared binary in place: all its users and their descendants
		{
			bi := r.Intn(len(g.Binaries))
			b := clone(g)
			b.Binaries[bi].Content = append(b.Binaries[bi].Content, 0x42)
			set := map[string]bool{}
			for _, m := range g.Modules {
				if int(m.BinaryIndex) == bi {
					set[m.Name] = true
					for d := range descendantsOf(g, m.Name) {
						set[d] = true
					}
				}
			}
			var changed []string
			for n := range set {
				changed = append(changed, n)
			}
			emitMut("shared-binary-content", changed, g, b)
		}

		// identity-preserving transformations
		emitRename(r.Fork(), g, used)
		alias := randName(r, used)
		emitImport(alias, g, parentFor(r.Fork(), alias, g, used))
		emitReindex(r.Fork(), g)
		if !quirky(g) {
			b := addUnrelated(r.Fork(), g, used, "")
			if !quirky(b) {
				emitSame("add-unrelated", g, b)
			}
		}
		if s < readers && !quirky(g) {
			dest := parentFor(r.Fork(), alias, g, used)
			for len(dest.Modules) == 0 {
				dest = parentFor(r.Fork(), alias, g, used)
			}
			emitReader(alias, g, dest)
		}
		observeKindPayload(r, g)
		observeReorder(r.Fork(), g)
		if s%10 == 0 {
			engineered(r.Fork())
		}
	}
	out.Notes = append(out.Notes,
		"obs:* counters are observations outside the property's list (kind payloads, module-list order); they are not oracle failures",
		"hashes of edited/transformed graphs are taken with HashModule directly (edited graphs need not be valid requests); valid graphs are also hashed through exec.NewOutputModuleGraph and both must agree")
}

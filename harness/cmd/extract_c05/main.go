// extract_c05: a go/ast fact extractor for the one assumption of the scheduler model that no run of the harness can
// exercise: "executing an in-flight command and delivering its message is one atomic step".  The harness (and the real
// event loop's single Update goroutine) make Update atomic; what could break the assumption is a COMMAND — a closure of
// type loop.Cmd, run in its own goroutine by the event loop — that reads or writes scheduler-side state (the walker, the
// unit matrix, the worker pool) instead of only producing a message.  This tool lists, for every closure returned as a
// loop.Cmd in orchestrator/{execout,stage,scheduler,work}, what it touches through the variables it captures
// (receiver fields read, receiver fields assigned, methods called on the receiver), in a canonical text form that is
// compared with the committed expectation checks/C05.cmd_effects.expected (each line of which was reviewed against the
// model: the effect is either on files / per-module store caches, which the model has, or read-only).
package main

import (
	"flag"
	"fmt"
	"go/ast"
	"go/parser"
	"go/token"
	"os"
	"path/filepath"
	"sort"
	"strings"
)

func main() {
	repo := flag.String("repo", "/repo", "")
	outp := flag.String("out", "", "")
	expected := flag.String("expected", "", "")
	flag.Parse()
	var lines []string
	for _, dir := range []string{"orchestrator/execout", "orchestrator/stage", "orchestrator/scheduler", "orchestrator/work"} {
		fset := token.NewFileSet()
		pkgs, err := parser.ParseDir(fset, filepath.Join(*repo, dir), func(fi os.FileInfo) bool {
			return !strings.HasSuffix(fi.Name(), "_test.go") && !strings.Contains(fi.Name(), "verif_hooks")
		}, 0)
		if err != nil {
			fmt.Fprintln(os.Stderr, err)
			os.Exit(2)
		}
		for _, pkg := range pkgs {
			methods = map[string]*ast.FuncDecl{}
			for _, f := range pkg.Files {
				for _, d := range f.Decls {
					if fd, ok := d.(*ast.FuncDecl); ok && fd.Body != nil && fd.Recv != nil {
						methods[recvType(fd)+"."+fd.Name.Name] = fd
					}
				}
			}
			var files []string
			for fn := range pkg.Files {
				files = append(files, fn)
			}
			sort.Strings(files)
			for _, fn := range files {
				for _, d := range pkg.Files[fn].Decls {
					fd, ok := d.(*ast.FuncDecl)
					if !ok || fd.Body == nil || !returnsCmd(fd.Type) {
						continue
					}
					recv := ""
					if fd.Recv != nil && len(fd.Recv.List) == 1 && len(fd.Recv.List[0].Names) == 1 {
						recv = fd.Recv.List[0].Names[0].Name
					}
					// every function literal inside a function returning loop.Cmd whose own type is func() loop.Msg
					n := 0
					ast.Inspect(fd.Body, func(node ast.Node) bool {
						fl, ok := node.(*ast.FuncLit)
						if !ok || !isCmdLit(fl.Type) {
							return true
						}
						n++
						eff := effects(fl.Body, recv, recvType(fd), map[string]bool{})
						lines = append(lines, fmt.Sprintf("%s %s.%s#%d: %s", dir, recvType(fd), fd.Name.Name, n, strings.Join(eff, " ")))
						return true
					})
				}
			}
		}
	}
	text := strings.Join(lines, "\n") + "\n"
	if *outp != "" {
		os.WriteFile(*outp, []byte(text), 0o644)
	}
	if *expected != "" {
		want, err := os.ReadFile(*expected)
		if err != nil {
			fmt.Fprintln(os.Stderr, "cannot read the expectation:", err)
			os.Exit(2)
		}
		if string(want) != text {
			wl, gl := strings.Split(string(want), "\n"), strings.Split(text, "\n")
			ws := map[string]bool{}
			for _, l := range wl {
				ws[l] = true
			}
			gs := map[string]bool{}
			for _, l := range gl {
				gs[l] = true
			}
			for _, l := range gl {
				if !ws[l] {
					fmt.Println("now:      ", l)
				}
			}
			for _, l := range wl {
				if !gs[l] {
					fmt.Println("expected: ", l)
				}
			}
			fmt.Println("the command closures of the orchestrator no longer touch exactly the state the scheduler model's atomicity assumption was reviewed for (checks/C05.cmd_effects.expected)")
			os.Exit(1)
		}
	} else {
		fmt.Print(text)
	}
}

func recvType(fd *ast.FuncDecl) string {
	if fd.Recv == nil || len(fd.Recv.List) == 0 {
		return "-"
	}
	t := fd.Recv.List[0].Type
	if s, ok := t.(*ast.StarExpr); ok {
		t = s.X
	}
	if id, ok := t.(*ast.Ident); ok {
		return id.Name
	}
	return "?"
}

func isSel(e ast.Expr, pkg, name string) bool {
	s, ok := e.(*ast.SelectorExpr)
	if !ok {
		return false
	}
	id, ok := s.X.(*ast.Ident)
	return ok && id.Name == pkg && s.Sel.Name == name
}

func returnsCmd(ft *ast.FuncType) bool {
	if ft.Results == nil || len(ft.Results.List) != 1 {
		return false
	}
	return isSel(ft.Results.List[0].Type, "loop", "Cmd")
}

func isCmdLit(ft *ast.FuncType) bool {
	if ft.Params != nil && len(ft.Params.List) != 0 {
		return false
	}
	if ft.Results == nil || len(ft.Results.List) != 1 {
		return false
	}
	return isSel(ft.Results.List[0].Type, "loop", "Msg")
}

var methods map[string]*ast.FuncDecl

// effects: what the closure does through the receiver it captures: w:<field> (assigned), r:<field> (read),
// c:<method> (called on the receiver; its own effects are included, transitively), c:<field>.<method> (called on a field)
func effects(body *ast.BlockStmt, recv string, rtype string, visited map[string]bool) []string {
	set := map[string]bool{}
	if recv == "" {
		return nil
	}
	assigned := map[*ast.SelectorExpr]bool{}
	called := map[*ast.SelectorExpr]bool{}
	ast.Inspect(body, func(n ast.Node) bool {
		switch x := n.(type) {
		case *ast.AssignStmt:
			for _, l := range x.Lhs {
				if s := rootSel(l, recv); s != nil {
					assigned[s] = true
					set["w:"+s.Sel.Name] = true
				}
			}
		case *ast.IncDecStmt:
			if s := rootSel(x.X, recv); s != nil {
				assigned[s] = true
				set["w:"+s.Sel.Name] = true
			}
		case *ast.CallExpr:
			if s, ok := x.Fun.(*ast.SelectorExpr); ok {
				if id, ok := s.X.(*ast.Ident); ok && id.Name == recv {
					called[s] = true
					set["c:"+s.Sel.Name] = true
					if m := methods[rtype+"."+s.Sel.Name]; m != nil && !visited[s.Sel.Name] {
						visited[s.Sel.Name] = true
						mr := ""
						if len(m.Recv.List[0].Names) == 1 {
							mr = m.Recv.List[0].Names[0].Name
						}
						for _, e := range effects(m.Body, mr, rtype, visited) {
							set[e] = true
						}
					}
				} else if inner, ok := s.X.(*ast.SelectorExpr); ok {
					if id, ok := inner.X.(*ast.Ident); ok && id.Name == recv {
						called[inner] = true
						set["c:"+inner.Sel.Name+"."+s.Sel.Name] = true
					}
				}
			}
		}
		return true
	})
	ast.Inspect(body, func(n ast.Node) bool {
		if s, ok := n.(*ast.SelectorExpr); ok {
			if id, ok := s.X.(*ast.Ident); ok && id.Name == recv && !assigned[s] && !called[s] {
				set["r:"+s.Sel.Name] = true
			}
		}
		return true
	})
	var out []string
	for k := range set {
		out = append(out, k)
	}
	sort.Strings(out)
	return out
}

// rootSel: the selector recv.<field> at the root of an assignable expression (recv.f, recv.f.g, recv.f[i], *recv.f)
func rootSel(e ast.Expr, recv string) *ast.SelectorExpr {
	for {
		switch x := e.(type) {
		case *ast.SelectorExpr:
			if id, ok := x.X.(*ast.Ident); ok && id.Name == recv {
				return x
			}
			e = x.X
		case *ast.IndexExpr:
			e = x.X
		case *ast.StarExpr:
			e = x.X
		case *ast.ParenExpr:
			e = x.X
		default:
			return nil
		}
	}
}

// extract_c16: go/ast fact extractor for property C16.
//
// Reads, from the CURRENT source of the repository,
//
//	orchestrator/work/worker.go  RemoteWorker.Work : maxRetries, maxExecutionTimeouts, the two substrings searched
//	                                                 in a retryable error's text, the shape of the retry closure
//	                             RemoteWorker.work : the status codes that make a stream error non-retryable
//	service/tier2.go             toGRPCError       : the ordered list of tests and the code each returns
//	                             ProcessRange      : the "overloaded" early return (code and message)
//	service/tier1.go             toConnectError    : the ordered list of tests and the code each returns
//
// and writes lean/Generated/ConstsC16.lean.  Props/C16.lean instantiates the generic theorems of the retry
// model at these values, so a changed constant / table entry changes the theorem that is checked.
// A statement whose shape is not recognised is an ERROR (exit 1): the check then reports a broken obligation
// instead of silently proving something about stale facts.
package main

import (
	"flag"
	"fmt"
	"go/ast"
	"go/parser"
	"go/token"
	"go/types"
	"os"
	"path/filepath"
	"strconv"
	"strings"
)

var fset = token.NewFileSet()

var outPath string // removed on failure, so that a stale fact file can never be built

func die(f string, a ...any) {
	fmt.Fprintf(os.Stderr, "extract_c16: "+f+"\n", a...)
	if outPath != "" {
		os.Remove(outPath)
	}
	os.Exit(1)
}

func parse(path string) *ast.File {
	f, err := parser.ParseFile(fset, path, nil, parser.SkipObjectResolution)
	if err != nil {
		die("cannot parse %s: %v", path, err)
	}
	return f
}

// findFunc returns the function (recv == "" for plain functions) named name.
func findFunc(f *ast.File, recv, name string) *ast.FuncDecl {
	for _, d := range f.Decls {
		fd, ok := d.(*ast.FuncDecl)
		if !ok || fd.Name.Name != name {
			continue
		}
		r := ""
		if fd.Recv != nil && len(fd.Recv.List) == 1 {
			r = strings.TrimPrefix(types.ExprString(fd.Recv.List[0].Type), "*")
		}
		if r == recv {
			return fd
		}
	}
	return nil
}

func str(e ast.Expr) string { return types.ExprString(e) }

func pos(n ast.Node) string { return fset.Position(n.Pos()).String() }

var leanCode = map[string]string{
	"OK": "ok", "Canceled": "canceled", "Unknown": "unknown", "InvalidArgument": "invalidArgument",
	"DeadlineExceeded": "deadlineExceeded", "NotFound": "notFound", "AlreadyExists": "alreadyExists",
	"PermissionDenied": "permissionDenied", "ResourceExhausted": "resourceExhausted",
	"FailedPrecondition": "failedPrecondition", "Aborted": "aborted", "OutOfRange": "outOfRange",
	"Unimplemented": "unimplemented", "Internal": "internal", "Unavailable": "unavailable",
	"DataLoss": "dataLoss", "Unauthenticated": "unauthenticated",
}

// codeOf: codes.X / connect.CodeX -> Lean constructor
func codeOf(e ast.Expr) string {
	s := str(e)
	var name string
	switch {
	case strings.HasPrefix(s, "codes."):
		name = strings.TrimPrefix(s, "codes.")
	case strings.HasPrefix(s, "connect.Code"):
		name = strings.TrimPrefix(s, "connect.Code")
	default:
		die("%s: not a status code: %s", pos(e), s)
	}
	l, ok := leanCode[name]
	if !ok {
		die("%s: unknown status code %s", pos(e), s)
	}
	return "." + l
}

// returnedCode: `return status.Error(codes.X, …)` / `return connect.NewError(connect.CodeX, …)`
func returnedCode(s ast.Stmt) string {
	r, ok := s.(*ast.ReturnStmt)
	if !ok || len(r.Results) != 1 {
		die("%s: expected a single-value return", pos(s))
	}
	c, ok := r.Results[0].(*ast.CallExpr)
	if !ok {
		die("%s: expected return of status.Error / connect.NewError, got %s", pos(s), str(r.Results[0]))
	}
	fn := str(c.Fun)
	if (fn != "status.Error" && fn != "connect.NewError") || len(c.Args) < 1 {
		die("%s: expected status.Error / connect.NewError, got %s", pos(s), fn)
	}
	return codeOf(c.Args[0])
}

func lastStmt(b *ast.BlockStmt) ast.Stmt {
	if len(b.List) == 0 {
		die("%s: empty block", pos(b))
	}
	return b.List[len(b.List)-1]
}

// switchTable: switch <tag> { case A: return f(B, …) … } -> [(A,B)]
func switchTable(sw *ast.SwitchStmt) string {
	var pairs []string
	for _, cc := range sw.Body.List {
		c := cc.(*ast.CaseClause)
		if c.List == nil {
			die("%s: default clause in a code switch is not modelled", pos(c))
		}
		if len(c.Body) != 1 {
			die("%s: case body is not a single return", pos(c))
		}
		to := returnedCode(c.Body[0])
		for _, from := range c.List {
			pairs = append(pairs, fmt.Sprintf("(%s, %s)", codeOf(from), to))
		}
	}
	return "[" + strings.Join(pairs, ", ") + "]"
}

// mappingTable walks toGRPCError / toConnectError.
func mappingTable(fd *ast.FuncDecl) (rules []string, dflt string) {
	body := fd.Body.List
	for i, st := range body {
		switch s := st.(type) {
		case *ast.IfStmt:
			cond := str(s.Cond)
			if s.Else != nil {
				die("%s: else branch not modelled", pos(s))
			}
			switch {
			case cond == "err == nil":
				if r, ok := lastStmt(s.Body).(*ast.ReturnStmt); !ok || str(r.Results[0]) != "nil" {
					die("%s: `if err == nil` must return nil", pos(s))
				}
			case s.Init != nil && strings.Contains(str(s.Init.(*ast.AssignStmt).Rhs[0]), "dgrpc.AsGRPCError(err)") && cond == "grpcError != nil":
				last, ok := lastStmt(s.Body).(*ast.ReturnStmt)
				if !ok || str(last.Results[0]) != "grpcError.Err()" {
					die("%s: gRPC branch must end in `return grpcError.Err()`", pos(s))
				}
				switch len(s.Body.List) {
				case 1:
					rules = append(rules, ".grpcPassthrough")
				case 2:
					sw, ok := s.Body.List[0].(*ast.SwitchStmt)
					if !ok || str(sw.Tag) != "grpcError.Code()" {
						die("%s: expected `switch grpcError.Code()`", pos(s.Body.List[0]))
					}
					rules = append(rules, ".grpcSwitch "+switchTable(sw))
				default:
					die("%s: gRPC branch has an unexpected shape", pos(s))
				}
			case cond == "errors.As(err, &connectError)":
				if len(s.Body.List) != 1 {
					die("%s: connect branch has an unexpected shape", pos(s))
				}
				sw, ok := s.Body.List[0].(*ast.SwitchStmt)
				if !ok || str(sw.Tag) != "connectError.Code()" {
					die("%s: expected `switch connectError.Code()`", pos(s))
				}
				rules = append(rules, ".connectSwitch "+switchTable(sw))
			case cond == "errors.Is(err, context.Canceled)":
				// { if context.Cause(ctx) != nil { err = context.Cause(ctx); if err == errShuttingDown { return S } }; return C }
				if len(s.Body.List) != 2 {
					die("%s: canceled branch has an unexpected shape", pos(s))
				}
				inner, ok := s.Body.List[0].(*ast.IfStmt)
				if !ok || str(inner.Cond) != "context.Cause(ctx) != nil" || len(inner.Body.List) != 2 {
					die("%s: expected `if context.Cause(ctx) != nil {…}`", pos(s.Body.List[0]))
				}
				sd, ok := inner.Body.List[1].(*ast.IfStmt)
				if !ok || str(sd.Cond) != "err == errShuttingDown" || len(sd.Body.List) != 1 {
					die("%s: expected `if err == errShuttingDown { return … }`", pos(inner))
				}
				rules = append(rules, fmt.Sprintf(".canceled %s %s", returnedCode(sd.Body.List[0]), returnedCode(s.Body.List[1])))
			default:
				feat := map[string]string{
					"errors.Is(err, context.DeadlineExceeded)":               ".deadline",
					"store.StoreAboveMaxSizeRegexp.MatchString(err.Error())": ".storeMax",
					"errors.Is(err, exec.ErrWasmDeterministicExec)":          ".wasmDet",
					"errors.As(err, &errInvalidArg)":                         ".invalidArg",
				}[cond]
				if feat == "" {
					die("%s: unrecognised test `%s` in %s", pos(s), cond, fd.Name.Name)
				}
				if len(s.Body.List) != 1 {
					die("%s: body of `%s` is not a single return", pos(s), cond)
				}
				rules = append(rules, fmt.Sprintf(".feature %s %s", feat, returnedCode(s.Body.List[0])))
			}
		case *ast.AssignStmt:
			if str(s.Lhs[0]) != "connectError" {
				die("%s: unexpected assignment in %s", pos(s), fd.Name.Name)
			}
		case *ast.DeclStmt:
			g := s.Decl.(*ast.GenDecl)
			vs := g.Specs[0].(*ast.ValueSpec)
			if vs.Names[0].Name != "errInvalidArg" || !strings.HasSuffix(str(vs.Type), ".ErrInvalidArg") {
				die("%s: unexpected declaration in %s", pos(s), fd.Name.Name)
			}
		case *ast.ReturnStmt:
			if i != len(body)-1 {
				die("%s: return before the end of %s", pos(s), fd.Name.Name)
			}
			dflt = returnedCode(s)
		default:
			die("%s: unrecognised statement in %s", pos(st), fd.Name.Name)
		}
	}
	if dflt == "" {
		die("%s has no final return", fd.Name.Name)
	}
	return
}

func intLit(e ast.Expr) (int, bool) {
	b, ok := e.(*ast.BasicLit)
	if !ok || b.Kind != token.INT {
		return 0, false
	}
	n, err := strconv.Atoi(b.Value)
	return n, err == nil
}

func strLit(e ast.Expr) (string, bool) {
	b, ok := e.(*ast.BasicLit)
	if !ok || b.Kind != token.STRING {
		return "", false
	}
	s, err := strconv.Unquote(b.Value)
	return s, err == nil
}

func bytesLean(s string) string {
	var p []string
	for _, b := range []byte(s) {
		p = append(p, strconv.Itoa(int(b)))
	}
	return "[" + strings.Join(p, ", ") + "]"
}

// containsLit: strings.Contains(err.Error(), "lit") inside cond -> lit
func containsLit(cond ast.Expr) (string, bool) {
	var lit string
	found := false
	ast.Inspect(cond, func(n ast.Node) bool {
		c, ok := n.(*ast.CallExpr)
		if ok && str(c.Fun) == "strings.Contains" && len(c.Args) == 2 && str(c.Args[0]) == "err.Error()" {
			if l, ok := strLit(c.Args[1]); ok {
				lit, found = l, true
			}
		}
		return true
	})
	return lit, found
}

type workerFacts struct {
	maxRetries, maxTimeouts  int
	overloadLit, deadlineLit string
	fatalCodes               []string
}

func workerFactsOf(path string) workerFacts {
	f := parse(path)
	var w workerFacts
	Work := findFunc(f, "RemoteWorker", "Work")
	if Work == nil {
		die("%s: method RemoteWorker.Work not found", path)
	}
	gotR, gotT, gotRetryCall, gotGeq, gotCase, gotInc := false, false, false, false, false, false
	ast.Inspect(Work, func(n ast.Node) bool {
		switch s := n.(type) {
		case *ast.AssignStmt:
			if s.Tok == token.DEFINE && len(s.Lhs) == 1 && len(s.Rhs) == 1 {
				switch str(s.Lhs[0]) {
				case "maxRetries":
					w.maxRetries, gotR = intLit(s.Rhs[0])
				case "maxExecutionTimeouts":
					w.maxTimeouts, gotT = intLit(s.Rhs[0])
				}
			}
		case *ast.CallExpr:
			if str(s.Fun) == "derr.RetryContext" && len(s.Args) == 3 && str(s.Args[1]) == "uint64(maxRetries)" {
				gotRetryCall = true
			}
		case *ast.BinaryExpr:
			if s.Op == token.GEQ && str(s.X) == "executionTimeouts" && str(s.Y) == "maxExecutionTimeouts" {
				gotGeq = true
			}
		case *ast.CaseClause:
			if len(s.List) == 1 && str(s.List[0]) == "*RetryableErr" {
				gotCase = true
			}
		case *ast.IfStmt:
			// if … strings.Contains(err.Error(), L1) { overload counter } else if strings.Contains(err.Error(), L2) { executionTimeouts++ }
			if l1, ok := containsLit(s.Cond); ok {
				if el, ok := s.Else.(*ast.IfStmt); ok {
					if l2, ok := containsLit(el.Cond); ok && len(el.Body.List) == 1 {
						if inc, ok := el.Body.List[0].(*ast.IncDecStmt); ok && inc.Tok == token.INC && str(inc.X) == "executionTimeouts" && el.Else == nil {
							w.overloadLit, w.deadlineLit, gotInc = l1, l2, true
						}
					}
				}
			}
		}
		return true
	})
	if !gotR || !gotT {
		die("%s: `maxRetries := <int>` / `maxExecutionTimeouts := <int>` not found in Work", path)
	}
	if !gotRetryCall {
		die("%s: `derr.RetryContext(ctx, uint64(maxRetries), …)` not found in Work", path)
	}
	if !gotGeq {
		die("%s: `executionTimeouts >= maxExecutionTimeouts` not found in Work", path)
	}
	if !gotCase {
		die("%s: `case *RetryableErr:` not found in Work", path)
	}
	if !gotInc {
		die("%s: `if …Contains(…overloaded…) {…} else if …Contains(…) { executionTimeouts++ }` not found in Work", path)
	}
	if w.deadlineLit != "DeadlineExceeded" {
		die("%s: the time-out substring is %q; the model assumes the name of the status code DeadlineExceeded", path, w.deadlineLit)
	}
	work := findFunc(f, "RemoteWorker", "work")
	if work == nil {
		die("%s: method RemoteWorker.work not found", path)
	}
	ast.Inspect(work, func(n ast.Node) bool {
		s, ok := n.(*ast.IfStmt)
		if !ok {
			return true
		}
		b, ok := s.Cond.(*ast.BinaryExpr)
		if !ok || !strings.HasSuffix(str(b.X), ".Code()") || !strings.HasPrefix(str(b.Y), "codes.") {
			return true
		}
		if b.Op != token.EQL {
			die("%s: comparison of a status code with %s is not modelled", pos(b), b.Op)
		}
		r, ok := lastStmt(s.Body).(*ast.ReturnStmt)
		if !ok || nodeText(r.Results[0]) != "&Result{Error: err}" {
			die("%s: the non-retryable branch must `return &Result{Error: err}`", pos(s))
		}
		w.fatalCodes = append(w.fatalCodes, codeOf(b.Y))
		return true
	})
	// the statement after the classification must wrap in NewRetryableErr, and io.EOF must be a clean end
	src := nodeText(work)
	for _, need := range []string{"NewRetryableErr(fmt.Errorf(\"receiving stream resp: %w\", err))", "err == io.EOF", "NewRetryableErr(fmt.Errorf(\"getting block stream: %w\", err))"} {
		if !strings.Contains(src, need) {
			die("%s: expected `%s` in work()", path, need)
		}
	}
	return w
}

var srcCache = map[string][]byte{}

func nodeText(n ast.Node) string {
	p := fset.Position(n.Pos())
	e := fset.Position(n.End())
	b, ok := srcCache[p.Filename]
	if !ok {
		var err error
		b, err = os.ReadFile(p.Filename)
		if err != nil {
			die("%v", err)
		}
		srcCache[p.Filename] = b
	}
	return string(b[p.Offset:e.Offset])
}

// overloadedReturn: `if s.isOverloaded() { return connect.NewError(connect.CodeX, fmt.Errorf("msg")) }` in ProcessRange
func overloadedReturn(f *ast.File, path string) (code, msg string) {
	fd := findFunc(f, "Tier2Service", "ProcessRange")
	if fd == nil {
		die("%s: Tier2Service.ProcessRange not found", path)
	}
	ast.Inspect(fd, func(n ast.Node) bool {
		s, ok := n.(*ast.IfStmt)
		if !ok || str(s.Cond) != "s.isOverloaded()" || len(s.Body.List) != 1 {
			return true
		}
		code = returnedCode(s.Body.List[0])
		call := s.Body.List[0].(*ast.ReturnStmt).Results[0].(*ast.CallExpr)
		if len(call.Args) == 2 {
			if inner, ok := call.Args[1].(*ast.CallExpr); ok && len(inner.Args) >= 1 {
				msg, _ = strLit(inner.Args[0])
			}
		}
		return false
	})
	if code == "" || msg == "" {
		die("%s: the overloaded early return of ProcessRange was not found", path)
	}
	return
}

func main() {
	repo := flag.String("repo", "/repo", "repository root")
	out := flag.String("out", "", "output .lean file")
	flag.Parse()
	if v := os.Getenv("VERIF_REPO"); v != "" {
		*repo = v
	}
	if *out == "" {
		die("-out required")
	}
	outPath = *out
	w := workerFactsOf(filepath.Join(*repo, "orchestrator/work/worker.go"))
	t2f := parse(filepath.Join(*repo, "service/tier2.go"))
	t2 := findFunc(t2f, "", "toGRPCError")
	if t2 == nil {
		die("service/tier2.go: toGRPCError not found")
	}
	t1 := findFunc(parse(filepath.Join(*repo, "service/tier1.go")), "", "toConnectError")
	if t1 == nil {
		die("service/tier1.go: toConnectError not found")
	}
	t2rules, t2dflt := mappingTable(t2)
	t1rules, t1dflt := mappingTable(t1)
	ovCode, ovMsg := overloadedReturn(t2f, "service/tier2.go")

	var b strings.Builder
	b.WriteString("import Model.Retry\n")
	b.WriteString("/-! GENERATED by harness/cmd/extract_c16 from the current source of the repository — do not edit.\n")
	b.WriteString("    orchestrator/work/worker.go, service/tier2.go (toGRPCError, ProcessRange), service/tier1.go (toConnectError) -/\n")
	b.WriteString("namespace SV.C16.Gen\nopen SV.Retry\n\n")
	fmt.Fprintf(&b, "/-- `maxRetries := %d` (RemoteWorker.Work) -/\ndef maxRetries : Nat := %d\n", w.maxRetries, w.maxRetries)
	fmt.Fprintf(&b, "/-- `maxExecutionTimeouts := %d` -/\ndef maxExecutionTimeouts : Nat := %d\n", w.maxTimeouts, w.maxTimeouts)
	fmt.Fprintf(&b, "/-- status codes compared with `grpcErr.Code()` in RemoteWorker.work: the non-retryable stream errors -/\ndef fatalCodes : List Code := [%s]\n", strings.Join(w.fatalCodes, ", "))
	b.WriteString("def cfg : Cfg := ⟨maxRetries, maxExecutionTimeouts, fatalCodes⟩\n\n")
	fmt.Fprintf(&b, "/-- bytes of %q: the substring Work searches for to recognise an overloaded worker -/\ndef overloadNeedle : List Nat := %s\n", w.overloadLit, bytesLean(w.overloadLit))
	fmt.Fprintf(&b, "/-- bytes of %q: the message of tier 2's overloaded early return (ProcessRange) -/\ndef overloadMessage : List Nat := %s\n", ovMsg, bytesLean(ovMsg))
	fmt.Fprintf(&b, "/-- the connect code of that early return -/\ndef overloadCode : Code := %s\n\n", ovCode)
	fmt.Fprintf(&b, "/-- service/tier2.go toGRPCError, statement by statement -/\ndef tier2Table : Table :=\n  { rules := [\n      %s],\n    default := %s }\n\n", strings.Join(t2rules, ",\n      "), t2dflt)
	fmt.Fprintf(&b, "/-- service/tier1.go toConnectError, statement by statement -/\ndef tier1Table : Table :=\n  { rules := [\n      %s],\n    default := %s }\n\n", strings.Join(t1rules, ",\n      "), t1dflt)
	b.WriteString("end SV.C16.Gen\n")

	if err := os.MkdirAll(filepath.Dir(*out), 0o755); err != nil {
		die("%v", err)
	}
	old, _ := os.ReadFile(*out)
	if string(old) == b.String() {
		return // unchanged: keep the timestamp so lake does not rebuild
	}
	if err := os.WriteFile(*out, []byte(b.String()), 0o644); err != nil {
		die("%v", err)
	}
}

// vh_c18: correspondence cases + property oracle for C18 (hand-written cache-file codecs are wire-compatible
// with their protobuf schemas).
//
// Real code driven: marshaller.VTproto / Proto / ProtoingFast / Binary (Marshal + Unmarshal),
// pboutput.Map.MarshalFast / UnmarshalFast, pboutput.Array.MarshalVT / UnmarshalVTNoAlloc, proto.Marshal /
// proto.Unmarshal of pbstore.StoreData and pboutput.Array, execout.File Save/Load on a local dstore,
// encoding/binary varints, protowire varints, utf8.Valid.
//
// Line protocol (answers mirror lean/Driver/C18.lean):
//
//	VARINT n | DVARINT hex | UTF8 hex
//	STORE kv dp        all four store marshallers encode the content; the real bytes are re-ordered to the key
//	                   order of the line (Go map iteration order is random) and compared with the model encoders
//	SDEC hex | BDEC hex | ADEC hex   real decoders and model decoders read the same bytes
//	ITEMS items        Array.MarshalVT, proto.Marshal(Array), Map.MarshalFast on the items
package main

import (
	"bytes"
	"context"
	"encoding/binary"
	"errors"
	"fmt"
	"io"
	"os"
	"path/filepath"
	"sort"
	"strings"
	"unicode/utf8"

	"github.com/streamingfast/dstore"
	"go.uber.org/zap"
	"google.golang.org/protobuf/encoding/protowire"
	"google.golang.org/protobuf/proto"
	"google.golang.org/protobuf/types/known/timestamppb"

	"github.com/streamingfast/substreams/block"
	pbsubstreams "github.com/streamingfast/substreams/pb/sf/substreams/v1"
	"github.com/streamingfast/substreams/storage/execout"
	pboutput "github.com/streamingfast/substreams/storage/execout/pb"
	"github.com/streamingfast/substreams/storage/store/marshaller"
	pbstore "github.com/streamingfast/substreams/storage/store/marshaller/pb"

	"verifharness/common"
)

var out *common.Out
var workDir string
var failCount = map[string]int{}

const (
	classF18Dec     = "C18/non-utf8-key/standard-decoder-rejects"
	classF18Enc     = "C18/non-utf8-key/standard-encoder-rejects"
	classF18PfxDec  = "C18/non-utf8-prefix/standard-decoder-rejects"
	classF18PfxEnc  = "C18/non-utf8-prefix/standard-encoder-rejects"
	maxFailPerClass = 3
)

func fail(class, desc, line string) {
	failCount[class]++
	if failCount[class] <= maxFailPerClass {
		out.Fail(class, desc, line)
	} else {
		out.Count("oracle-fail:" + class)
	}
}

// ---------------------------------------------------------------- line encoding

type kvPair struct {
	k string
	v []byte
}

func encKV(ps []kvPair) string {
	if len(ps) == 0 {
		return "_"
	}
	var sb strings.Builder
	for i, p := range ps {
		if i > 0 {
			sb.WriteByte(',')
		}
		sb.WriteString(common.Hex([]byte(p.k)))
		sb.WriteByte(':')
		sb.WriteString(common.Hex(p.v))
	}
	return sb.String()
}

func parseKV(s string) (ps []kvPair, dup bool) {
	if s == "_" {
		return nil, false
	}
	seen := map[string]bool{}
	for _, p := range strings.Split(s, ",") {
		kv := strings.Split(p, ":")
		k := string(common.Unhex(kv[0]))
		if seen[k] {
			dup = true
		}
		seen[k] = true
		ps = append(ps, kvPair{k, common.Unhex(kv[1])})
	}
	return
}

func encList(l []string) string {
	if len(l) == 0 {
		return "_"
	}
	var p []string
	for _, s := range l {
		p = append(p, common.Hex([]byte(s)))
	}
	return strings.Join(p, ",")
}

func parseList(s string) []string {
	if s == "_" {
		return nil
	}
	var out []string
	for _, p := range strings.Split(s, ",") {
		out = append(out, string(common.Unhex(p)))
	}
	return out
}

func showKVMap(m map[string][]byte) string {
	keys := make([]string, 0, len(m))
	for k := range m {
		keys = append(keys, k)
	}
	sort.Strings(keys)
	var sb strings.Builder
	for i, k := range keys {
		if i > 0 {
			sb.WriteByte(',')
		}
		sb.WriteString(common.Hex([]byte(k)))
		sb.WriteByte(':')
		sb.WriteString(common.Hex(m[k]))
	}
	return sb.String()
}

func showList(l []string) string {
	var p []string
	for _, s := range l {
		p = append(p, common.Hex([]byte(s)))
	}
	return strings.Join(p, ",")
}

func showTs(t *timestamppb.Timestamp) string {
	if t == nil {
		return "n"
	}
	return fmt.Sprintf("%d.%d", uint64(t.Seconds), uint32(t.Nanos))
}

func showItem(it *pboutput.Item) string {
	return fmt.Sprintf("%d/%s/%s/%s/%s", it.BlockNum, common.Hex([]byte(it.BlockId)), common.Hex(it.Payload), showTs(it.Timestamp), common.Hex([]byte(it.Cursor)))
}

func showItems(items []*pboutput.Item) string {
	if len(items) == 0 {
		return "_"
	}
	p := make([]string, len(items))
	for i, it := range items {
		p[i] = showItem(it)
	}
	return strings.Join(p, ";")
}

func showItemMap(m map[string]*pboutput.Item) string {
	if len(m) == 0 {
		return "_"
	}
	keys := make([]string, 0, len(m))
	for k := range m {
		keys = append(keys, k)
	}
	sort.Strings(keys)
	p := make([]string, len(keys))
	for i, k := range keys {
		p[i] = common.Hex([]byte(k)) + "=" + showItem(m[k])
	}
	return strings.Join(p, ";")
}

func parseItems(s string) []*pboutput.Item {
	if s == "_" {
		return nil
	}
	var items []*pboutput.Item
	for _, p := range strings.Split(s, ";") {
		f := strings.Split(p, "/")
		it := &pboutput.Item{BlockNum: common.Atou(f[0]), BlockId: string(common.Unhex(f[1])), Payload: common.Unhex(f[2]), Cursor: string(common.Unhex(f[4]))}
		if f[3] != "n" {
			sn := strings.Split(f[3], ".")
			it.Timestamp = &timestamppb.Timestamp{Seconds: int64(common.Atou(sn[0])), Nanos: int32(uint32(common.Atou(sn[1])))}
		}
		items = append(items, it)
	}
	return items
}

// ---------------------------------------------------------------- wire helpers of the harness (to cut real output into chunks)

type field struct {
	num     uint64
	wt      int
	payload []byte // for wt 2
	raw     []byte // tag + value
}

// splitFields cuts a buffer into top-level fields; ok=false when it is not a plain sequence of fields.
func splitFields(b []byte) (fs []field, ok bool) {
	for len(b) > 0 {
		tag, n := binary.Uvarint(b)
		if n <= 0 {
			return nil, false
		}
		wt := int(tag & 7)
		start := b
		b = b[n:]
		switch wt {
		case 0:
			_, m := binary.Uvarint(b)
			if m <= 0 {
				return nil, false
			}
			fs = append(fs, field{num: tag >> 3, wt: wt, raw: start[:n+m]})
			b = b[m:]
		case 2:
			l, m := binary.Uvarint(b)
			if m <= 0 || uint64(len(b)-m) < l {
				return nil, false
			}
			fs = append(fs, field{num: tag >> 3, wt: wt, payload: b[m : m+int(l)], raw: start[:n+m+int(l)]})
			b = b[m+int(l):]
		default:
			return nil, false
		}
	}
	return fs, true
}

// reorderStore re-orders the map entries of a real StoreData encoding into the key order `order`.
func reorderStore(b []byte, order []kvPair) string {
	fs, ok := splitFields(b)
	if !ok {
		return "layout-error:" + common.Hex(b)
	}
	chunks := map[string][]byte{}
	var tail []byte
	seen2 := false
	for _, f := range fs {
		switch {
		case f.num == 1 && f.wt == 2:
			if seen2 {
				return "layout-interleaved:" + common.Hex(b)
			}
			inner, ok := splitFields(f.payload)
			if !ok || len(inner) != 2 || inner[0].num != 1 || inner[0].wt != 2 || inner[1].num != 2 || inner[1].wt != 2 {
				return "layout-entry:" + common.Hex(b)
			}
			k := string(inner[0].payload)
			if _, dup := chunks[k]; dup {
				return "layout-dup:" + common.Hex(b)
			}
			chunks[k] = f.raw
		case f.num == 2 && f.wt == 2:
			seen2 = true
			tail = append(tail, f.raw...)
		default:
			return "layout-field:" + common.Hex(b)
		}
	}
	if len(chunks) != len(order) {
		return "layout-count:" + common.Hex(b)
	}
	var res []byte
	for _, p := range order {
		c, ok := chunks[p.k]
		if !ok {
			return "layout-missing:" + common.Hex(b)
		}
		res = append(res, c...)
	}
	res = append(res, tail...)
	return "ok:" + common.Hex(res)
}

func reorderBinary(b []byte, order []kvPair) string {
	cnt, n := binary.Uvarint(b)
	if n <= 0 || cnt != uint64(len(order)) {
		return "layout-count:" + common.Hex(b)
	}
	head := b[:n]
	c := b[n:]
	chunks := map[string][]byte{}
	for i := uint64(0); i < cnt; i++ {
		start := c
		kl, m := binary.Uvarint(c)
		if m <= 0 || uint64(len(c)-m) < kl {
			return "layout-error:" + common.Hex(b)
		}
		k := string(c[m : m+int(kl)])
		c = c[m+int(kl):]
		vl, m2 := binary.Uvarint(c)
		if m2 <= 0 || uint64(len(c)-m2) < vl {
			return "layout-error:" + common.Hex(b)
		}
		c = c[m2+int(vl):]
		chunks[k] = start[:len(start)-len(c)]
	}
	if len(c) != 0 {
		return "layout-trailing:" + common.Hex(b)
	}
	res := append([]byte{}, head...)
	for _, p := range order {
		ch, ok := chunks[p.k]
		if !ok {
			return "layout-missing:" + common.Hex(b)
		}
		res = append(res, ch...)
	}
	return "ok:" + common.Hex(res)
}

func reorderArray(b []byte, order []*pboutput.Item) string {
	fs, ok := splitFields(b)
	if !ok {
		return "layout-error:" + common.Hex(b)
	}
	chunks := map[string][]byte{}
	for _, f := range fs {
		if f.num != 1 || f.wt != 2 {
			return "layout-field:" + common.Hex(b)
		}
		it := &pboutput.Item{}
		if err := it.UnmarshalVT(f.payload); err != nil {
			return "layout-item:" + common.Hex(b)
		}
		chunks[it.BlockId] = f.raw
	}
	if len(chunks) != len(order) || len(fs) != len(order) {
		return "layout-count:" + common.Hex(b)
	}
	var res []byte
	for _, it := range order {
		c, ok := chunks[it.BlockId]
		if !ok {
			return "layout-missing:" + common.Hex(b)
		}
		res = append(res, c...)
	}
	return "ok:" + common.Hex(res)
}

// ---------------------------------------------------------------- error classes

func vtErrClass(err error, ovf, invLen, endGrp error) string {
	switch {
	case errors.Is(err, ovf):
		return "err:overflow"
	case errors.Is(err, io.ErrUnexpectedEOF):
		return "err:eof"
	case errors.Is(err, invLen):
		return "err:invalid-length"
	case errors.Is(err, endGrp):
		return "err:unexpected-end-group"
	}
	s := err.Error()
	switch {
	case strings.Contains(s, "wiretype end group for non-group"):
		return "err:end-group"
	case strings.Contains(s, "illegal tag"):
		return "err:illegal-tag"
	case strings.Contains(s, "wrong wireType"):
		return "err:wrong-wiretype"
	case strings.Contains(s, "illegal wireType"):
		return "err:illegal-wiretype"
	case strings.Contains(s, "invalid UTF-8"):
		return "err:nested-utf8"
	case strings.Contains(s, "cannot parse invalid wire-format data"), strings.Contains(s, "proto:"):
		return "err:nested-decode"
	}
	return "err:other:" + strings.ReplaceAll(s, " ", "_")
}

func storeVTErr(err error) string {
	return vtErrClass(err, pbstore.ErrIntOverflow, pbstore.ErrInvalidLength, pbstore.ErrUnexpectedEndOfGroup)
}
func outVTErr(err error) string {
	return vtErrClass(err, pboutput.ErrIntOverflow, pboutput.ErrInvalidLength, pboutput.ErrUnexpectedEndOfGroup)
}
func pbErr(err error) string {
	if strings.Contains(err.Error(), "invalid UTF-8") {
		return "err:utf8"
	}
	return "err:decode"
}

// ---------------------------------------------------------------- implementation answers

var (
	// prevOut: the previous result of each marshaller instance with a private copy of its bytes: a Marshal result is kept
	// by its caller (FullKV.Save hands it to a file writer that writes later), so the NEXT Marshal on the same
	// instance must leave it untouched
	prevOut = map[string][2][]byte{}
	mVT  = &marshaller.VTproto{}
	mPB  = &marshaller.Proto{}
	mPF  = &marshaller.ProtoingFast{}
	mBin = &marshaller.Binary{}
)

func kvSum(ps []kvPair) (s uint64) {
	for _, p := range ps {
		s += uint64(len(p.k) + len(p.v))
	}
	return
}

func sameKV(m map[string][]byte, ps []kvPair) bool {
	if len(m) != len(ps) {
		return false
	}
	for _, p := range ps {
		v, ok := m[p.k]
		if !ok || !bytes.Equal(v, p.v) {
			return false
		}
	}
	return true
}
func sameList(a, b []string) bool {
	if len(a) != len(b) {
		return false
	}
	for i := range a {
		if a[i] != b[i] {
			return false
		}
	}
	return true
}

type storeBytes struct{ vt, pf, pb, bin []byte }

// implStore: the STORE line. Returns the answer and the real bytes (for derived SDEC/BDEC lines); runs the oracle.
func implStore(line string, ps []kvPair, dp []string, dup bool) (string, storeBytes) {
	var sb storeBytes
	if dup {
		return "dup-keys", sb
	}
	mk := func() *marshaller.StoreData {
		m := make(map[string][]byte, len(ps))
		for _, p := range ps {
			m[p.k] = p.v
		}
		return &marshaller.StoreData{Kv: m, DeletePrefixes: dp}
	}
	badKey, badPfx := false, false
	for _, p := range ps {
		if !utf8.ValidString(p.k) {
			badKey = true
		}
	}
	for _, p := range dp {
		if !utf8.ValidString(p) {
			badPfx = true
		}
	}
	decClass, encClass := "", ""
	switch {
	case badKey:
		decClass, encClass = classF18Dec, classF18Enc
		out.Count("store:non-utf8-key")
	case badPfx:
		decClass, encClass = classF18PfxDec, classF18PfxEnc
		out.Count("store:non-utf8-prefix")
	}
	sum := kvSum(ps)
	var ans []string

	checkVTRead := func(what string, b []byte) {
		d, size, err := mVT.Unmarshal(b)
		if err != nil {
			fail("C18/fast-decoder-rejects/"+what, fmt.Sprintf("VTproto.Unmarshal of %s bytes: %v", what, err), line)
			return
		}
		if !sameKV(d.Kv, ps) || !sameList(d.DeletePrefixes, dp) {
			fail("C18/fast-decoder-content/"+what, "VTproto.Unmarshal of "+what+" bytes gives other content", line)
		}
		if size != sum {
			fail("C18/fast-decoder-size/"+what, fmt.Sprintf("VTproto.Unmarshal of %s bytes reports size %d, content is %d", what, size, sum), line)
		}
	}
	checkStdRead := func(what string, m marshaller.Marshaller, b []byte) {
		d, _, err := m.Unmarshal(b)
		if err != nil {
			if decClass != "" && strings.Contains(err.Error(), "invalid UTF-8") {
				fail(decClass, fmt.Sprintf("%s: %v", what, err), line)
			} else {
				fail("C18/standard-decoder-rejects/"+what, fmt.Sprintf("%s: %v", what, err), line)
			}
			return
		}
		if !sameKV(d.Kv, ps) || !sameList(d.DeletePrefixes, dp) {
			fail("C18/standard-decoder-content/"+what, what+" gives other content", line)
		}
	}

	aliasCheck := func(name string, b []byte) {
		if p, ok := prevOut[name]; ok && !bytes.Equal(p[0], p[1]) {
			fail("C18/marshal-result-overwritten-by-next-marshal/"+name, fmt.Sprintf("the bytes returned by the previous %s.Marshal changed when Marshal was called again on the same instance", name), line)
		}
		prevOut[name] = [2][]byte{b, append([]byte{}, b...)}
	}
	// VTproto (the default marshaller)
	if b, err := mVT.Marshal(mk()); err != nil {
		ans = append(ans, "vt=err")
		fail("C18/vtproto-marshal-error", err.Error(), line)
	} else {
		aliasCheck("vtproto", b)
		sb.vt = b
		ans = append(ans, "vt="+reorderStore(b, ps))
		checkVTRead("vtproto", b)
		checkStdRead("proto.Unmarshal(VTproto bytes)", mPB, b)
	}
	// ProtoingFast
	if b, err := mPF.Marshal(mk()); err != nil {
		ans = append(ans, "pf=err")
		fail("C18/protoingfast-marshal-error", err.Error(), line)
	} else {
		aliasCheck("protoingfast", b)
		sb.pf = b
		ans = append(ans, "pf="+reorderStore(b, ps))
		checkVTRead("protoingfast", b)
		checkStdRead("ProtoingFast.Unmarshal(ProtoingFast bytes)", mPF, b)
	}
	// Proto (standard encoder)
	if b, err := mPB.Marshal(mk()); err != nil {
		if strings.Contains(err.Error(), "invalid UTF-8") {
			ans = append(ans, "pb=invalid-utf8")
			if encClass != "" {
				fail(encClass, "proto.Marshal: "+err.Error(), line)
			} else {
				fail("C18/standard-encoder-error", err.Error(), line)
			}
		} else {
			ans = append(ans, "pb=err")
			fail("C18/standard-encoder-error", err.Error(), line)
		}
	} else {
		aliasCheck("proto", b)
		sb.pb = b
		ans = append(ans, "pb="+reorderStore(b, ps))
		checkVTRead("proto", b)
		checkStdRead("proto.Unmarshal(proto bytes)", mPB, b)
	}
	// Binary (kv only: the format has no delete prefixes)
	if b, err := mBin.Marshal(mk()); err != nil {
		ans = append(ans, "bin=err")
		fail("C18/binary-marshal-error", err.Error(), line)
	} else {
		aliasCheck("binary", b)
		sb.bin = b
		ans = append(ans, "bin="+reorderBinary(b, ps))
		d, _, err := mBin.Unmarshal(b)
		if err != nil || !sameKV(d.Kv, ps) {
			fail("C18/binary-roundtrip", fmt.Sprintf("Binary.Unmarshal(Binary.Marshal) differs (err=%v)", err), line)
		}
		if len(dp) > 0 {
			out.Count("note:binary-marshaller-drops-delete-prefixes")
		}
	}
	return strings.Join(ans, " "), sb
}

func implSDEC(b []byte) (string, bool) {
	nt := false
	var vt, pb string
	if d, size, err := mVT.Unmarshal(b); err != nil {
		vt = storeVTErr(err)
	} else {
		vt = fmt.Sprintf("ok/size=%d/kv=%s/dp=%s", size, showKVMap(d.Kv), showList(d.DeletePrefixes))
		nt = nt || len(d.Kv) > 0 || len(d.DeletePrefixes) > 0
	}
	if d, _, err := mPB.Unmarshal(b); err != nil {
		pb = pbErr(err)
	} else {
		pb = fmt.Sprintf("ok/kv=%s/dp=%s", showKVMap(d.Kv), showList(d.DeletePrefixes))
		nt = nt || len(d.Kv) > 0 || len(d.DeletePrefixes) > 0
	}
	return "vt=" + vt + " pb=" + pb, nt
}

func implBDEC(b []byte) (string, bool) {
	// a corrupted entry count makes `make(map, entries)` allocate: keep the harness alive
	if cnt, n := binary.Uvarint(b); n > 0 && cnt > 1<<22 {
		return "skipped-huge-count", false
	}
	res, _ := common.Recover(func() string {
		d, _, err := mBin.Unmarshal(b)
		if err != nil {
			return "err"
		}
		return "ok/kv=" + showKVMap(d.Kv)
	})
	return res, strings.HasPrefix(res, "ok/kv=") && len(res) > 6
}

func implItems(line string, items []*pboutput.Item) (string, [][]byte) {
	var outs [][]byte
	ids := map[string]bool{}
	dup := false
	badStr := false
	for _, it := range items {
		if ids[it.BlockId] {
			dup = true
		}
		ids[it.BlockId] = true
		if !utf8.ValidString(it.BlockId) || !utf8.ValidString(it.Cursor) {
			badStr = true
		}
	}
	var ans []string
	arr := &pboutput.Array{Items: items}
	vtb, err := arr.MarshalVT()
	if err != nil {
		ans = append(ans, "vt=err")
		fail("C18/array-marshalvt-error", err.Error(), line)
	} else {
		ans = append(ans, "vt=ok:"+common.Hex(vtb))
		outs = append(outs, vtb)
	}
	pbb, perr := proto.Marshal(arr)
	if perr != nil {
		if strings.Contains(perr.Error(), "invalid UTF-8") {
			ans = append(ans, "pb=invalid-utf8")
		} else {
			ans = append(ans, "pb=err")
		}
		if !badStr {
			fail("C18/array-standard-encoder-error", perr.Error(), line)
		}
	} else {
		ans = append(ans, "pb=ok:"+common.Hex(pbb))
		outs = append(outs, pbb)
	}
	if dup {
		ans = append(ans, "fast=dup")
		return strings.Join(ans, " "), outs
	}
	m := &pboutput.Map{Kv: map[string]*pboutput.Item{}}
	for _, it := range items {
		m.Kv[it.BlockId] = it
	}
	want := showItemMap(m.Kv)
	fb, err := m.MarshalFast()
	if err != nil {
		ans = append(ans, "fast=err")
		fail("C18/marshalfast-error", err.Error(), line)
		return strings.Join(ans, " "), outs
	}
	ans = append(ans, "fast="+reorderArray(fb, items))
	outs = append(outs, fb)

	// ---- oracle
	if badStr {
		out.Count("items:non-utf8-id-or-cursor(outside hypothesis: Clock.Id is a proto3 string)")
	}
	// fast decoder reads the fast encoder
	back := &pboutput.Map{}
	if err := back.UnmarshalFast(fb); err != nil {
		fail("C18/unmarshalfast-rejects-marshalfast", err.Error(), line)
	} else if got := showItemMap(back.Kv); got != want {
		fail("C18/fast-roundtrip-content", "UnmarshalFast(MarshalFast(m)) != m", line)
	}
	// standard decoder reads the fast encoder
	if !badStr {
		std := &pboutput.Array{}
		if err := proto.Unmarshal(fb, std); err != nil {
			fail("C18/standard-decoder-rejects-marshalfast", err.Error(), line)
		} else {
			sm := map[string]*pboutput.Item{}
			for _, it := range std.Items {
				sm[it.BlockId] = it
			}
			if len(std.Items) != len(items) || showItemMap(sm) != want {
				fail("C18/standard-decoder-content", "proto.Unmarshal(MarshalFast(m)) has other content", line)
			}
		}
		// fast decoder reads the standard encoder
		if perr == nil {
			back2 := &pboutput.Map{}
			if err := back2.UnmarshalFast(pbb); err != nil {
				fail("C18/unmarshalfast-rejects-standard-encoder", err.Error(), line)
			} else if showItemMap(back2.Kv) != want {
				fail("C18/fast-decoder-content-of-standard-bytes", "UnmarshalFast(proto.Marshal(Array)) != m", line)
			}
		}
	}
	// the file: execout.File Save + Load through a dstore
	if len(items) <= 64 && (fileSeq < 40 || len(line)%4 == 0) {
		if got, err := fileRoundTrip(m.Kv); err != nil {
			fail("C18/execout-file-roundtrip-error", err.Error(), line)
		} else if got != want {
			fail("C18/execout-file-roundtrip-content", "File.Load(File.Save) has other content", line)
		}
	}
	return strings.Join(ans, " "), outs
}

var fileSeq int

func fileRoundTrip(kv map[string]*pboutput.Item) (string, error) {
	fileSeq++
	dir := filepath.Join(workDir, fmt.Sprintf("execout-%d", fileSeq))
	defer os.RemoveAll(dir)
	st, err := dstore.NewStore("file://"+dir, "zst", "zstd", true)
	if err != nil {
		return "", err
	}
	cfg, err := execout.NewConfig("mod", 0, pbsubstreams.ModuleKindMap, "hash", st, zap.NewNop())
	if err != nil {
		return "", err
	}
	ctx := context.Background()
	f := cfg.NewFile(block.NewRange(0, 100))
	f.Kv = kv
	if err := f.Save(ctx); err != nil {
		return "", err
	}
	g := cfg.NewFile(block.NewRange(0, 100))
	if err := g.Load(ctx); err != nil {
		return "", err
	}
	return showItemMap(g.Kv), nil
}

func implADEC(b []byte) (string, bool) {
	nt := false
	var vt, fast, pb string
	arr := &pboutput.Array{}
	if err := arr.UnmarshalVTNoAlloc(b); err != nil {
		vt = outVTErr(err)
	} else {
		vt = "ok/" + showItems(arr.Items)
		nt = nt || len(arr.Items) > 0
	}
	m := &pboutput.Map{}
	if err := m.UnmarshalFast(b); err != nil {
		fast = outVTErr(err)
	} else {
		fast = "ok/" + showItemMap(m.Kv)
	}
	std := &pboutput.Array{}
	if err := proto.Unmarshal(b, std); err != nil {
		pb = pbErr(err)
	} else {
		pb = "ok/" + showItems(std.Items)
		nt = nt || len(std.Items) > 0
	}
	return "vt=" + vt + " fast=" + fast + " pb=" + pb, nt
}

func implVarint(n uint64) string {
	var buf [binary.MaxVarintLen64]byte
	l := binary.PutUvarint(buf[:], n)
	pw := protowire.AppendVarint(nil, n)
	enc := common.Hex(buf[:l])
	if !bytes.Equal(pw, buf[:l]) {
		enc = "mismatch"
	}
	return fmt.Sprintf("enc=%s ubc=%d sov=%d", enc, l, protowire.SizeVarint(n))
}

func implDVarint(b []byte) string {
	var uv, pw, vt string
	v, n := binary.Uvarint(b)
	switch {
	case n == 0:
		uv = "small"
	case n < 0:
		uv = "overflow"
	default:
		uv = fmt.Sprintf("%d/%d", v, len(b)-n)
	}
	v2, n2 := protowire.ConsumeVarint(b)
	if n2 < 0 {
		pw = "err"
	} else {
		pw = fmt.Sprintf("%d/%d", v2, len(b)-n2)
	}
	it := &pboutput.Item{}
	if err := it.UnmarshalVTNoAlloc(append([]byte{0x08}, b...)); err != nil {
		vt = outVTErr(err)
	} else {
		vt = fmt.Sprint(it.BlockNum)
	}
	return fmt.Sprintf("uv=%s pw=%s vt=%s", uv, pw, vt)
}

// runLine: implementation answer (+ oracle) for one case line. Returns derived byte strings for further cases.
func runLine(line string) (ans string, nontrivial bool, derived [][]byte, sbytes storeBytes) {
	w := strings.Fields(line)
	switch w[0] {
	case "VARINT":
		return implVarint(common.Atou(w[1])), true, nil, sbytes
	case "DVARINT":
		return implDVarint(common.Unhex(w[1])), true, nil, sbytes
	case "UTF8":
		b := common.Unhex(w[1])
		return fmt.Sprint(utf8.Valid(b)), len(b) > 0, nil, sbytes
	case "STORE":
		ps, dup := parseKV(w[1])
		dp := parseList(w[2])
		a, sb := implStore(line, ps, dp, dup)
		return a, len(ps) > 0, nil, sb
	case "SDEC":
		a, nt := implSDEC(common.Unhex(w[1]))
		return a, nt, nil, sbytes
	case "BDEC":
		a, nt := implBDEC(common.Unhex(w[1]))
		return a, nt, nil, sbytes
	case "ITEMS":
		items := parseItems(w[1])
		a, outs := implItems(line, items)
		return a, len(items) > 0, outs, sbytes
	case "ADEC":
		a, nt := implADEC(common.Unhex(w[1]))
		return a, nt, nil, sbytes
	}
	return "bad-op", false, nil, sbytes
}

func emit(line string) ([][]byte, storeBytes) {
	var derived [][]byte
	var sb storeBytes
	nt := false
	ans, _ := common.Recover(func() string {
		a, n, d, s := runLine(line)
		nt, derived, sb = n, d, s
		return a
	})
	out.Case(line, ans, nt)
	op := strings.Fields(line)[0]
	out.Count("op:" + op)
	if strings.HasPrefix(ans, "panic") {
		out.Count("answer:panic:" + op)
		if op == "STORE" || op == "ITEMS" {
			// encoding and reading back a well-formed content must never crash a marshaller
			fail("C18/marshaller-panics-on-valid-content", "a marshaller panics while writing or reading back a well-formed content", line)
		}
	}
	for _, part := range strings.Fields(ans) {
		if i := strings.Index(part, "=err:"); i >= 0 {
			out.Count("answer:" + op + ":" + part[:i] + ":" + part[i+1:])
		} else if strings.Contains(part, "=ok") {
			out.Count("answer:" + op + ":" + part[:strings.Index(part, "=")] + ":ok")
		}
	}
	return derived, sb
}

// ---------------------------------------------------------------- generators

func genBytes(r *common.Rng, n int) []byte {
	b := make([]byte, n)
	for i := range b {
		b[i] = byte(r.Intn(256))
	}
	return b
}

var utf8Pieces = []string{"a", "k", "z", "0", ":", "é", "ß", "中", "文", "€", "😀", "\u0000", "\u007f", "\u0080", "߿", "ࠀ", "￿", "\U00010000", "\U0010ffff"}

func genUTF8(r *common.Rng, n int) string {
	var sb strings.Builder
	for i := 0; i < n; i++ {
		sb.WriteString(utf8Pieces[r.Intn(len(utf8Pieces))])
	}
	return sb.String()
}

// small=true: only short strings (used for contents with many entries)
var small bool

func genLen(r *common.Rng) int {
	x := r.Intn(120)
	switch {
	case x < 8:
		return 0
	case small:
		return r.Range(1, 16)
	case x < 14:
		return r.Range(120, 135) // around the 1→2 byte varint boundary
	case x < 16:
		return r.Range(16380, 16390) // 2→3 byte boundary
	case x < 19:
		return r.Range(200, 3000)
	default:
		return r.Range(1, 24)
	}
}

// kind: 0 ascii, 1 utf8, 2 arbitrary binary (usually not UTF-8)
func genKey(r *common.Rng, kind int, allowEmpty bool) string {
	n := genLen(r)
	if n == 0 && !allowEmpty {
		n = 1
	}
	switch kind {
	case 0:
		b := make([]byte, n)
		for i := range b {
			b[i] = byte(r.Range(0x20, 0x7e))
		}
		return string(b)
	case 1:
		if n > 64 {
			n = 64
		}
		return genUTF8(r, n)
	default:
		return string(genBytes(r, n))
	}
}

func genStore(r *common.Rng, nKeys int, keyKind func() int, nPrefix int) ([]kvPair, []string) {
	seen := map[string]bool{}
	var ps []kvPair
	for len(ps) < nKeys {
		k := genKey(r, keyKind(), true)
		if seen[k] {
			k = k + fmt.Sprintf("#%d", len(ps))
		}
		if seen[k] {
			continue
		}
		seen[k] = true
		ps = append(ps, kvPair{k, genBytes(r, genLen(r))})
	}
	var dp []string
	for i := 0; i < nPrefix; i++ {
		dp = append(dp, genKey(r, keyKind(), true))
	}
	return ps, dp
}

func appendTag(b []byte, num uint64, wt int) []byte { return binary.AppendUvarint(b, num<<3|uint64(wt)) }
func appendLen(b []byte, num uint64, payload []byte) []byte {
	b = appendTag(b, num, 2)
	b = binary.AppendUvarint(b, uint64(len(payload)))
	return append(b, payload...)
}

// an unknown / exotic field
func genUnknownField(r *common.Rng) []byte {
	nums := []uint64{3, 6, 15, 16, 100, 1 << 20, 1<<29 - 1, 1 << 29, 1<<32 + 1, 1<<32 + 2, 1 << 31, 0}
	num := nums[r.Intn(len(nums))]
	switch r.Intn(8) {
	case 0:
		return binary.AppendUvarint(appendTag(nil, num, 0), r.U64()>>uint(r.Intn(64)))
	case 1:
		return append(appendTag(nil, num, 1), genBytes(r, 8)...)
	case 2:
		return appendLen(nil, num, genBytes(r, r.Intn(6)))
	case 3: // group with nested content
		b := appendTag(nil, num, 3)
		if r.Bool() {
			b = binary.AppendUvarint(appendTag(b, 9, 0), uint64(r.Intn(300)))
		}
		if r.Chance(1, 3) {
			b = appendTag(appendTag(b, 4, 3), 4, 4)
		}
		endNum := num
		if r.Chance(1, 4) {
			endNum = num + 1
		}
		return appendTag(b, endNum, 4)
	case 4:
		return append(appendTag(nil, num, 5), genBytes(r, 4)...)
	case 5:
		return appendTag(nil, num, 4) // stray end group
	case 6:
		return appendTag(nil, num, r.Range(6, 7)) // reserved wire types
	default: // a known field number with the wrong wire type
		return binary.AppendUvarint(appendTag(nil, uint64(r.Range(1, 5)), 0), uint64(r.Intn(1000)))
	}
}

// overlong (non-canonical) varint
func overlong(v uint64, extra int) []byte {
	b := binary.AppendUvarint(nil, v)
	for i := 0; i < extra; i++ {
		b[len(b)-1] |= 0x80
		b = append(b, 0)
	}
	return b
}

// hand-assembled StoreData streams: duplicates, missing / reversed / repeated entry fields, unknown fields
func genCraftedStore(r *common.Rng) []byte {
	var b []byte
	n := r.Range(0, 5)
	keys := []string{"a", "b", "", "k\xff", "é", "aa"}
	for i := 0; i < n; i++ {
		switch r.Intn(10) {
		case 0:
			b = append(b, genUnknownField(r)...)
		case 1:
			b = appendLen(b, 2, []byte(keys[r.Intn(len(keys))]))
		default:
			var e []byte
			parts := r.Range(0, 4)
			for j := 0; j < parts; j++ {
				switch r.Intn(7) {
				case 0, 1, 2:
					e = appendLen(e, 1, []byte(keys[r.Intn(len(keys))]))
				case 3, 4:
					e = appendLen(e, 2, genBytes(r, r.Intn(4)))
				case 5:
					e = append(e, genUnknownField(r)...)
				default: // entry field with a non-LEN wire type (the fast decoder does not look at it)
					e = binary.AppendUvarint(appendTag(e, uint64(r.Range(1, 2)), r.Intn(2)*5), uint64(r.Intn(3)))
				}
			}
			if r.Chance(1, 8) {
				b = appendTag(b, 1, 2)
				b = append(b, overlong(uint64(len(e)), r.Range(1, 9))...)
				b = append(b, e...)
			} else {
				b = appendLen(b, 1, e)
			}
		}
	}
	return b
}

func mutate(r *common.Rng, b []byte) []byte {
	c := append([]byte{}, b...)
	switch r.Intn(7) {
	case 0: // truncate
		if len(c) > 0 {
			c = c[:r.Intn(len(c))]
		}
	case 1: // flip a byte
		if len(c) > 0 {
			c[r.Intn(len(c))] ^= byte(1 << uint(r.Intn(8)))
		}
	case 2: // set a byte
		if len(c) > 0 {
			c[r.Intn(len(c))] = byte(r.Intn(256))
		}
	case 3: // insert
		i := r.Intn(len(c) + 1)
		c = append(c[:i], append(genBytes(r, r.Range(1, 3)), c[i:]...)...)
	case 4: // delete
		if len(c) > 0 {
			i := r.Intn(len(c))
			c = append(c[:i], c[i+1:]...)
		}
	case 5: // append an unknown field
		c = append(c, genUnknownField(r)...)
	default: // append a huge length
		c = appendTag(c, uint64(r.Range(1, 2)), 2)
		c = binary.AppendUvarint(c, []uint64{1<<63 - 1, 1 << 63, 1<<64 - 1, 1<<63 - 3, 1 << 62, 1 << 31}[r.Intn(6)])
	}
	return c
}

func genTimestamp(r *common.Rng) *timestamppb.Timestamp {
	switch r.Intn(9) {
	case 0:
		return nil
	case 1:
		return &timestamppb.Timestamp{}
	case 2:
		return &timestamppb.Timestamp{Seconds: int64(r.U64() >> 1), Nanos: int32(r.U64())}
	case 3:
		return &timestamppb.Timestamp{Seconds: -int64(r.Intn(1000)) - 1, Nanos: -int32(r.Intn(1000)) - 1}
	case 4:
		return &timestamppb.Timestamp{Seconds: 1<<63 - 1, Nanos: 1<<31 - 1}
	case 5:
		return &timestamppb.Timestamp{Seconds: -1 << 63, Nanos: -1 << 31}
	case 6:
		return &timestamppb.Timestamp{Nanos: int32(r.Intn(1e9))}
	default:
		return &timestamppb.Timestamp{Seconds: 1_600_000_000 + int64(r.Intn(200_000_000)), Nanos: int32(r.Intn(1e9))}
	}
}

func genBlockNum(r *common.Rng) uint64 {
	switch r.Intn(8) {
	case 0:
		return 0
	case 1:
		return 1<<63 - uint64(r.Intn(3))
	case 2:
		return 1<<64 - 1 - uint64(r.Intn(3))
	case 3:
		return r.U64()
	case 4:
		return uint64(r.Range(126, 130))
	default:
		return uint64(r.Intn(30_000_000))
	}
}

func genItems(r *common.Rng, n int, idKind func() int) []*pboutput.Item {
	seen := map[string]bool{}
	var items []*pboutput.Item
	for len(items) < n {
		var id string
		switch r.Intn(6) {
		case 0:
			id = genKey(r, idKind(), true)
		default:
			id = fmt.Sprintf("%x", genBytes(r, []int{4, 32, 32, 20}[r.Intn(4)]))
		}
		if seen[id] {
			continue
		}
		seen[id] = true
		it := &pboutput.Item{BlockNum: genBlockNum(r), BlockId: id, Timestamp: genTimestamp(r)}
		switch r.Intn(6) {
		case 0:
		case 1:
			if !small {
				it.Payload = genBytes(r, r.Range(1000, 20000)>>uint(r.Intn(3)))
			}
		default:
			it.Payload = genBytes(r, genLen(r))
		}
		if r.Chance(1, 5) {
			it.Cursor = genKey(r, idKind(), true)
		}
		items = append(items, it)
	}
	return items
}

func genCraftedArray(r *common.Rng) []byte {
	var b []byte
	n := r.Range(0, 4)
	ids := []string{"aa", "bb", "", "x\xfe", "é"}
	for i := 0; i < n; i++ {
		if r.Chance(1, 8) {
			b = append(b, genUnknownField(r)...)
			continue
		}
		var e []byte
		parts := r.Range(0, 6)
		for j := 0; j < parts; j++ {
			switch r.Intn(9) {
			case 0:
				e = binary.AppendUvarint(appendTag(e, 1, 0), genBlockNum(r))
			case 1:
				e = append(appendTag(e, 1, 0), overlong(uint64(r.Intn(300)), r.Range(1, 9))...)
			case 2, 3:
				e = appendLen(e, 2, []byte(ids[r.Intn(len(ids))]))
			case 4:
				e = appendLen(e, 3, genBytes(r, r.Intn(5)))
			case 5, 6: // timestamp, possibly partial / with unknown fields / repeated (merge vs reset)
				var t []byte
				if r.Bool() {
					t = binary.AppendUvarint(appendTag(t, 1, 0), r.U64()>>uint(r.Intn(64)))
				}
				if r.Bool() {
					t = binary.AppendUvarint(appendTag(t, 2, 0), r.U64()>>uint(r.Intn(64)))
				}
				if r.Chance(1, 4) {
					t = append(t, genUnknownField(r)...)
				}
				e = appendLen(e, 4, t)
			case 7:
				e = appendLen(e, 5, []byte(ids[r.Intn(len(ids))]))
			default:
				e = append(e, genUnknownField(r)...)
			}
		}
		b = appendLen(b, 1, e)
	}
	return b
}

func sizes(r *common.Rng, thorough bool, i int) int {
	switch {
	case i%350 == 349:
		if thorough {
			return r.Range(2000, 6000)
		}
		return r.Range(1000, 2000)
	case i%9 == 0:
		return 0
	case i%9 == 1:
		return 1
	case i%9 == 2:
		return r.Range(20, 60)
	default:
		return r.Range(2, 6)
	}
}

func main() {
	o := common.ParseFlags()
	out = common.NewOut(o.Out)
	absOut, err := filepath.Abs(o.Out)
	if err != nil {
		panic(err)
	}
	workDir = filepath.Join(absOut, "scratch")
	os.MkdirAll(workDir, 0o755)
	out.Rule = "STORE: generated store contents (0..6000 distinct keys; ascii / multi-byte UTF-8 / arbitrary binary keys incl. the empty key; values of length 0, around the varint-length boundaries 127/128 and 16383/16384, up to 3000 bytes; 0..3 delete prefixes) encoded by all four marshallers; ITEMS: generated output-cache contents (block numbers 0, around 2^7, 2^63, 2^64-1; nil/zero/negative/extreme timestamps; empty payloads/ids/cursors; up to thousands of items); SDEC/ADEC/BDEC: every real encoder output, hand-assembled streams (duplicate keys, missing/reversed/repeated entry fields, unknown fields of all wire types, groups, over-long varints, field numbers beyond 2^29 and 2^32) and mutations (truncate, flip, insert, delete, huge lengths) read by the real and the model decoders; VARINT/DVARINT boundary values and random; non-trivial = content has at least one entry / at least one decoder returns content; distinct by case line"
	defer out.Finish()
	defer os.RemoveAll(workDir)

	if lines := o.ReplayLines(); lines != nil {
		for _, l := range lines {
			emit(l)
		}
		return
	}

	rng := common.NewRng(o.Seed)
	th := o.Thorough()
	scale := 1
	if th {
		scale = 5
	}

	// ---- varints
	for _, n := range []uint64{0, 1, 127, 128, 129, 255, 256, 16383, 16384, 1<<21 - 1, 1 << 21, 1<<28 - 1, 1 << 28, 1<<35 - 1, 1 << 35, 1<<42 - 1, 1 << 42, 1<<49 - 1, 1 << 49, 1<<56 - 1, 1 << 56, 1<<63 - 1, 1 << 63, 1<<64 - 1} {
		emit(fmt.Sprintf("VARINT %d", n))
		emit("DVARINT " + common.Hex(binary.AppendUvarint(nil, n)))
	}
	for i := 0; i < 2000*scale; i++ {
		n := rng.U64() >> uint(rng.Intn(64))
		emit(fmt.Sprintf("VARINT %d", n))
		b := binary.AppendUvarint(nil, n)
		switch rng.Intn(6) {
		case 0:
			b = b[:rng.Intn(len(b))]
		case 1:
			b = overlong(n, rng.Range(1, 11))
		case 2: // 10 bytes with a big last byte
			b = append(bytes.Repeat([]byte{byte(0x80 | rng.Intn(128))}, 9), byte(rng.Intn(128)))
		case 3:
			b = bytes.Repeat([]byte{0xff}, rng.Range(1, 12))
		}
		emit("DVARINT " + common.Hex(b))
	}
	// ---- utf8
	for i := 0; i < 3000*scale; i++ {
		var b []byte
		switch rng.Intn(4) {
		case 0:
			b = genBytes(rng, rng.Range(0, 5))
		case 1:
			b = []byte(genUTF8(rng, rng.Range(0, 5)))
		case 2: // valid then broken
			b = []byte(genUTF8(rng, rng.Range(1, 4)))
			b = mutate(rng, b)
		default: // lead byte + continuation-ish bytes
			lead := []byte{0xc0, 0xc1, 0xc2, 0xdf, 0xe0, 0xe1, 0xec, 0xed, 0xee, 0xef, 0xf0, 0xf1, 0xf3, 0xf4, 0xf5, 0xff, 0x80, 0xbf}
			b = []byte{lead[rng.Intn(len(lead))]}
			for j := rng.Intn(4); j > 0; j-- {
				b = append(b, []byte{0x7f, 0x80, 0x8f, 0x90, 0x9f, 0xa0, 0xbf, 0xc0}[rng.Intn(8)])
			}
		}
		emit("UTF8 " + common.Hex(b))
	}

	// ---- store contents
	decode := func(b []byte) {
		if b != nil {
			emit("SDEC " + common.Hex(b))
		}
	}
	// minimal witnesses first (so that the replay file of a finding is the small one): F18 and its neighbours
	for _, l := range []string{
		"STORE 6bfffe:76 _",     // key "k\xff\xfe" (not UTF-8), value "v"
		"STORE 6b:76 fffe",      // delete prefix that is not UTF-8
		"STORE c3a9:76 70",      // multi-byte UTF-8 key: every codec agrees
		"STORE -:- -",           // empty key, empty value, empty prefix
		"STORE _ _",
	} {
		_, sb := emit(l)
		decode(sb.vt)
		decode(sb.pb)
	}
	nStore := 700 * scale
	for i := 0; i < nStore; i++ {
		n := sizes(rng, th, i)
		mode := rng.Intn(10)
		keyKind := func() int {
			switch {
			case mode < 5:
				return 0
			case mode < 8:
				return rng.Intn(2)
			default: // binary keys: the F18 region
				return rng.Intn(3)
			}
		}
		small = n > 6
		ps, dp := genStore(rng, n, keyKind, []int{0, 0, 1, 3}[rng.Intn(4)])
		small = false
		out.Count(fmt.Sprintf("store:keys:%s", bucket(len(ps))))
		line := fmt.Sprintf("STORE %s %s", encKV(ps), encList(dp))
		_, sb := emit(line)
		big := len(ps) > 200
		decode(sb.vt)
		decode(sb.pf)
		decode(sb.pb)
		if sb.bin != nil {
			emit("BDEC " + common.Hex(sb.bin))
		}
		if !big && len(sb.vt) < 4096 {
			for _, b := range [][]byte{sb.vt, sb.pb} {
				if b == nil {
					continue
				}
				for j := 0; j < 3; j++ {
					emit("SDEC " + common.Hex(mutate(rng, b)))
				}
			}
			if sb.bin != nil {
				for j := 0; j < 3; j++ {
					emitBDEC(mutate(rng, sb.bin))
				}
			}
		}
	}
	for i := 0; i < 5000*scale; i++ {
		b := genCraftedStore(rng)
		if rng.Chance(1, 4) {
			b = mutate(rng, b)
		}
		emit("SDEC " + common.Hex(b))
	}
	for i := 0; i < 1500*scale; i++ {
		emit("SDEC " + common.Hex(genBytes(rng, rng.Range(0, 12))))
		emitBDEC(genBytes(rng, rng.Range(0, 12)))
	}

	// ---- output cache contents
	nItems := 350 * scale
	for i := 0; i < nItems; i++ {
		n := sizes(rng, th, i)
		mode := rng.Intn(10)
		idKind := func() int {
			switch {
			case mode < 8:
				return rng.Intn(2)
			default:
				return rng.Intn(3)
			}
		}
		small = n > 6
		items := genItems(rng, n, idKind)
		small = false
		out.Count(fmt.Sprintf("items:count:%s", bucket(len(items))))
		derived, _ := emit("ITEMS " + showItems(items))
		big := len(items) > 200
		for _, b := range derived {
			emit("ADEC " + common.Hex(b))
		}
		if !big {
			for _, b := range derived {
				if len(b) > 4096 {
					continue
				}
				for j := 0; j < 2; j++ {
					emit("ADEC " + common.Hex(mutate(rng, b)))
				}
			}
		}
	}
	for i := 0; i < 5000*scale; i++ {
		b := genCraftedArray(rng)
		if rng.Chance(1, 4) {
			b = mutate(rng, b)
		}
		emit("ADEC " + common.Hex(b))
	}
	for i := 0; i < 1500*scale; i++ {
		emit("ADEC " + common.Hex(genBytes(rng, rng.Range(0, 12))))
	}
}

// a corrupted entry count makes Binary.Unmarshal allocate a huge map: such inputs are not run
func emitBDEC(b []byte) {
	if cnt, n := binary.Uvarint(b); n > 0 && cnt > 1<<22 {
		out.Count("bdec:not-run(huge entry count)")
		return
	}
	emit("BDEC " + common.Hex(b))
}

func bucket(n int) string {
	switch {
	case n == 0:
		return "0"
	case n == 1:
		return "1"
	case n <= 6:
		return "2-6"
	case n <= 100:
		return "7-100"
	case n <= 999:
		return "101-999"
	default:
		return "1000+"
	}
}

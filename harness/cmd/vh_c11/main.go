// vh_c11: store size accounting is exact. Histories mixing blocks, undo/redo of the last block (the same block
// undone, re-applied, undone again), merges of independently built partial stores, save/load cycles; after every
// step SizeBytes() is compared with the real content (oracle in storeh.showState) and with the model's size.
package main

import (
	"fmt"
	"path/filepath"

	"verifharness/common"
	"verifharness/storeh"
)

func main() {
	o := common.ParseFlags()
	out := common.NewOut(o.Out)
	defer out.Finish()
	out.Rule = "histories on a full store: 4-14 steps drawn from {block of 0-10 host calls, undo of the last block, redo (same calls again), save+load, build a partial store over 1-3 blocks (+save/load) and merge it}, state (content, SizeBytes) printed after every step; every host-admitted (policy,value type); limits lowered in ~1/8 of the histories so that the too-big / append-limit / item-size branches are hit; non-trivial = history contains an undo or a merge; distinct by history line"
	ctx := storeh.NewCtx()
	dir := filepath.Join(o.Out, "dstore")
	run := func(line string, nt bool) {
		ans, _ := common.Recover(func() string {
			return storeh.Run(ctx, dir, line, func(class, desc string) { out.Fail(class, desc, line) })
		})
		out.Case(line, ans, nt)
	}
	if lines := o.ReplayLines(); lines != nil {
		for _, l := range lines {
			run(l, true)
		}
		return
	}
	rng := common.NewRng(o.Seed)
	n := 4000
	if o.Thorough() {
		n = 100000
	}
	for i := 0; i < n; i++ {
		c := storeh.Combos[i%len(storeh.Combos)]
		g := &storeh.Gen{R: rng, C: c, Odd: 5}
		lim := storeh.NoLimits
		if c.VT != "float64" && rng.Chance(1, 8) { // float texts (so their lengths) are outside the model
			lim = storeh.Limits{Append: uint64(rng.Range(4, 12)), Total: uint64(rng.Range(10, 60)), Item: uint64(rng.Range(2, 8))}
			out.Count("low-limits")
		}
		maxOrd := rng.Range(0, 4)
		var steps []string
		var last []storeh.Op
		haveBlock, nt := false, false
		for k := 0; k < rng.Range(4, 14); k++ {
			switch r := rng.Intn(10); {
			case r < 4 || !haveBlock:
				last = g.Block(10, maxOrd)
				steps = append(steps, fmt.Sprintf("blk F %s", storeh.ShowOps(last)), "st F")
				haveBlock = true
				out.Count("step:block")
			case r < 6:
				// undo the last block; half of the time re-apply it (redo) and sometimes undo it again
				steps = append(steps, "undo F", "st F")
				out.Count("step:undo")
				nt = true
				if rng.Bool() {
					steps = append(steps, fmt.Sprintf("blk F %s", storeh.ShowOps(last)), "st F")
					out.Count("step:redo")
					if rng.Bool() {
						steps = append(steps, "undo F", "st F")
						out.Count("step:undo-again")
						haveBlock = false
					}
				} else {
					haveBlock = false
				}
			case r < 7:
				steps = append(steps, "sl F", "st F")
				haveBlock = false
				out.Count("step:saveload")
			default:
				steps = append(steps, "new P")
				for b := 0; b < rng.Range(1, 3); b++ {
					steps = append(steps, fmt.Sprintf("blk P %s", storeh.ShowOps(g.Block(8, maxOrd))))
				}
				steps = append(steps, "st P")
				if rng.Bool() {
					steps = append(steps, "sl P")
				}
				steps = append(steps, "mrg F", "st F")
				haveBlock = false
				nt = true
				out.Count("step:merge")
			}
		}
		out.Count("combo:" + c.String())
		run(storeh.Join(g.Header(lim), steps), nt)
	}
}

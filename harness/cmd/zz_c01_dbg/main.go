package main

// debug: linear dev run vs production run of an encoded scenario; prints the first differing block
import (
	"fmt"
	"os"
	"time"

	"verifharness/common"
	"verifharness/sys"
)

func main() {
	sc := sys.DecodeScenario(os.Args[1])
	dir, _ := os.MkdirTemp("/verif/.work", "dbg")
	defer os.RemoveAll(dir)
	a := sc.W.Run(dir+"/a", sc.Req(false, 1), sys.Opts{Timeout: 10 * time.Second})
	b := sc.W.Run(dir+"/b", sc.Req(true, 2), sys.Opts{Sched: common.NewRng(1), Timeout: 10 * time.Second})
	fmt.Println("dev err", a.Err, "prod err", b.Err, "jobs", b.Jobs)
	am, bm := map[uint64]string{}, map[uint64]string{}
	for _, m := range a.Msgs {
		if m.Kind == "data" {
			am[m.Num] = string(m.Payload)
		} else if m.Kind == "session" {
			fmt.Println("dev session", m.Start, m.Handoff)
		}
	}
	for _, m := range b.Msgs {
		if m.Kind == "data" {
			bm[m.Num] = string(m.Payload)
		} else if m.Kind == "session" {
			fmt.Println("prod session", m.Start, m.Handoff)
		}
	}
	for n := sc.Start; n < sc.Stop; n++ {
		if am[n] != bm[n] {
			fmt.Printf("block %d\n  dev : %s\n  prod: %s\n", n, am[n], bm[n])
		}
	}
}

package main

// debug: clean production run, then re-run on a chosen subset of its files (substring filters), printing jobs
import (
	"fmt"
	"os"
	"strings"
	"time"

	"verifharness/common"
	"verifharness/sys"
)

func main() {
	sc := sys.DecodeScenario(os.Args[1])
	keep := strings.Split(os.Args[2], ",")
	dir, _ := os.MkdirTemp("/verif/.work", "dbg")
	defer os.RemoveAll(dir)
	r0 := sc.W.Run(dir+"/clean", sc.Req(true, 2), sys.Opts{Sched: common.NewRng(1), Timeout: 10 * time.Second})
	fmt.Println("clean err", r0.Err, "jobs", r0.Jobs)
	if len(os.Args) > 3 { // extra earlier requests: output:start:stop
		for _, x := range strings.Split(os.Args[3], ",") {
			var o string
			var a, b uint64
			p := strings.Split(x, ":")
			o = p[0]
			fmt.Sscan(p[1], &a)
			fmt.Sscan(p[2], &b)
			rr := sc.W.Run(dir+"/clean", sys.Req{Prod: true, Start: int64(a), Stop: b, Final: sc.Head + 30, Head: sc.Head + 30, Seg: sc.Seg, Workers: 1, Output: o}, sys.Opts{Timeout: 10 * time.Second})
			fmt.Println("extra", x, "err", rr.Err, "jobs", rr.Jobs)
		}
	}
	time.Sleep(50 * time.Millisecond)
	F := sys.CacheFiles(dir + "/clean")
	var chosen []string
	for _, f := range F {
		fmt.Println("  file", f)
		for _, k := range keep {
			if k != "" && strings.Contains(f, k) {
				chosen = append(chosen, f)
			}
		}
	}
	fmt.Println("chosen", chosen)
	sys.CopyFiles(dir+"/clean", dir+"/sub", chosen)
	for _, workers := range []int{1, 2} {
		os.RemoveAll(dir + "/s")
		sys.CopyFiles(dir+"/clean", dir+"/s", chosen)
		r := sc.W.Run(dir+"/s", sc.Req(true, workers), sys.Opts{Sched: common.NewRng(7), Timeout: 6 * time.Second})
		fmt.Println("workers", workers, "err", r.Err, "jobs", r.Jobs)
		for _, m := range r.Msgs {
			if m.Kind == "session" {
				fmt.Println("  session start", m.Start, "handoff", m.Handoff)
			}
		}
		fmt.Println("  left:", sys.CacheFiles(dir+"/s"))
	}
}

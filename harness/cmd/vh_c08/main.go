// vh_c08: store reads honour ordinals. Histories: chains of 1–4 blocks on a full store (and on a partial
// store), every reader for every key and query ordinal after each block.
package main

import (
	"fmt"
	"path/filepath"
	"strings"

	"verifharness/common"
	"verifharness/storeh"
)

func main() {
	o := common.ParseFlags()
	out := common.NewOut(o.Out)
	defer out.Finish()
	out.Rule = "histories: (policy,value type) over all host-admitted combos; 1-4 blocks (one in three on a store just saved and loaded back) of 0-12 host calls over keys {a,a1,ab,b,b1,abc} (+reserved/empty/0xFF keys rarely), ordinals 0..5 non-monotone with repeats, delete_prefix mixed in; after every block all six readers for every key x ordinal 0..max+1; non-trivial = some key written twice / deleted after written / two ops share an ordinal; distinct by history line"
	ctx := storeh.NewCtx()
	dir := filepath.Join(o.Out, "dstore")
	run := func(line string, nt bool) {
		var fails []string
		ans, _ := common.Recover(func() string {
			return storeh.Run(ctx, dir, line, func(class, desc string) {
				fails = append(fails, class)
				out.Fail(class, desc, line)
			})
		})
		out.Case(line, ans, nt)
	}
	if lines := o.ReplayLines(); lines != nil {
		for _, l := range lines {
			run(l, true)
		}
		return
	}
	rng := common.NewRng(o.Seed)
	n := 2500
	if o.Thorough() {
		n = 60000
	}
	for i := 0; i < n; i++ {
		c := storeh.Combos[i%len(storeh.Combos)]
		g := &storeh.Gen{R: rng, C: c, Odd: 6}
		lim := storeh.NoLimits
		if c.VT != "float64" && rng.Chance(1, 12) { // float texts (so their lengths) are outside the model
			lim = storeh.Limits{Append: uint64(rng.Range(3, 8)), Total: uint64(rng.Range(8, 40)), Item: uint64(rng.Range(2, 6))}
		}
		maxOrd := rng.Range(0, 5)
		store := "F"
		if rng.Chance(1, 4) {
			store = "P"
		}
		var steps []string
		var blocks [][]storeh.Op
		for b := 0; b < rng.Range(1, 4); b++ {
			// one block in three runs on a store that has just been saved and loaded back (its keys and values then
			// alias the snapshot file's buffer)
			if b > 0 && rng.Chance(1, 3) {
				steps = append(steps, "sl "+store)
				out.Count("save-load-between-blocks")
			}
			ops := g.Block(12, maxOrd)
			blocks = append(blocks, ops)
			steps = append(steps, fmt.Sprintf("blk %s %s", store, storeh.ShowOps(ops)))
			steps = append(steps, storeh.ReadSteps(store, maxOrd)...)
			steps = append(steps, "st "+store)
		}
		out.Count("combo:" + c.String())
		out.Count("store:" + store)
		line := storeh.Join(g.Header(lim), steps)
		run(line, storeh.NonTrivialBlocks(blocks))
	}
	_ = strings.Join
}
